import Verif.Model.Cli
import Verif.Proofs.CliFs
import Verif.Props.C20
/-!
# Helper lemmas for C19: the concatenating reader, lexical paths, frame of a task sequence
-/
namespace Verif.Proofs.Cli
open Verif Verif.Model.CliFs Verif.Model.Cli Verif.Proofs.CliFs

/-! ## concatFileReader -/

/-- what the reader still has to deliver -/
def pending (s : CR) : Bytes :=
  s.sep.drop (s.sep.length - s.sepLeft) ++ s.cur.getD [] ++ s.files.flatMap (fun f => s.sep ++ f)

/-- invariant of the reader states reachable from `newCR` -/
def WF (s : CR) : Prop := s.sepLeft ≤ s.sep.length ∧ (s.cur = none → s.files = [] ∧ s.sepLeft = 0)

theorem writeSep_spec (sep : Bytes) (sl n : Nat) (h : sl ≤ sep.length) :
    (writeSep sep sl n).1 ++ sep.drop (sep.length - (writeSep sep sl n).2) = sep.drop (sep.length - sl) ∧
    (writeSep sep sl n).2 = sl - min n sl ∧ (writeSep sep sl n).1.length = min n sl := by
  simp only [writeSep]
  refine ⟨?_, trivial, ?_⟩
  · have e : sep.length - (sl - min n sl) = (sep.length - sl) + min n sl := by omega
    rw [e, ← List.drop_drop]
    exact List.take_append_drop _ _
  · simp only [List.length_take, List.length_drop]; omega

theorem wf_mk (files : List Bytes) (cur : Option Bytes) (sl : Nat) (sep : Bytes)
    (h1 : sl ≤ sep.length) (h2 : cur = none → files = [] ∧ sl = 0) : WF ⟨files, cur, sl, sep⟩ := ⟨h1, h2⟩

/-- what a result of `readCR` must satisfy relative to the state it was called in -/
def ReadOk (s : CR) (r : Bytes × Bool × CR) : Prop :=
  r.1 ++ pending r.2.2 = pending s ∧ WF r.2.2 ∧ (r.2.1 = true → pending r.2.2 = [])

theorem read_spec : ∀ (files : List Bytes) (cur : Option Bytes) (sl : Nat) (sep : Bytes) (n k : Nat),
    WF ⟨files, cur, sl, sep⟩ → ReadOk ⟨files, cur, sl, sep⟩ (readCR files cur sl sep n k) := by
  intro files
  induction files with
  | nil =>
    intro cur sl sep n k hwf
    have hle : sl ≤ sep.length := hwf.1
    have hnone : cur = none → ([] : List Bytes) = [] ∧ sl = 0 := hwf.2
    obtain ⟨hw, hsl, hlen⟩ := writeSep_spec sep sl n hle
    cases cur with
    | none =>
      obtain ⟨_, hz⟩ := hnone rfl
      subst hz
      unfold readCR
      refine ⟨?_, wf_mk _ _ _ _ (by simp [writeSep]) (by simp [writeSep]), fun _ => ?_⟩ <;>
        simp [writeSep, pending]
    | some c =>
      unfold readCR
      simp only
      split
      · -- no room
        refine ⟨?_, wf_mk _ _ _ _ (by omega) (by simp), by simp⟩
        simp only [pending, Option.getD_some, List.flatMap_nil, List.append_nil]
        rw [← List.append_assoc, hw]
      · rename_i hroom
        have hz : (writeSep sep sl n).2 = 0 := by
          simp only [beq_iff_eq] at hroom; omega
        have hw' : (writeSep sep sl n).1 = sep.drop (sep.length - sl) := by
          rw [hz] at hw; simpa using hw
        split
        · -- bytes of the current file
          refine ⟨?_, wf_mk _ _ _ _ (by omega) (by simp), by simp⟩
          simp only [pending, Option.getD_some, List.flatMap_nil, List.append_nil, hz, Nat.sub_zero,
            List.drop_length, List.nil_append]
          rw [← hw', List.append_assoc, List.take_append_drop]
        · -- end of the last file
          rename_i hc
          have hce : c = [] := by simpa using hc
          subst hce
          refine ⟨?_, wf_mk _ _ _ _ (by omega) (fun _ => ⟨rfl, hz⟩), fun _ => ?_⟩
          · simp only [pending, hz, Nat.sub_zero, List.drop_length, Option.getD_none, List.flatMap_nil,
              List.append_nil, Option.getD_some]
            exact hw'
          · simp [pending, hz]
  | cons f rest ih =>
    intro cur sl sep n k hwf
    have hle : sl ≤ sep.length := hwf.1
    have hnone : cur = none → (f :: rest) = [] ∧ sl = 0 := hwf.2
    obtain ⟨hw, hsl, hlen⟩ := writeSep_spec sep sl n hle
    cases cur with
    | none => exact absurd (hnone rfl).1 (by simp)
    | some c =>
      unfold readCR
      simp only
      split
      · refine ⟨?_, wf_mk _ _ _ _ (by omega) (by simp), by simp⟩
        simp only [pending, Option.getD_some]
        rw [← List.append_assoc, ← List.append_assoc, hw]
      · rename_i hroom
        have hz : (writeSep sep sl n).2 = 0 := by
          simp only [beq_iff_eq] at hroom; omega
        have hw' : (writeSep sep sl n).1 = sep.drop (sep.length - sl) := by
          rw [hz] at hw; simpa using hw
        split
        · refine ⟨?_, wf_mk _ _ _ _ (by omega) (by simp), by simp⟩
          simp only [pending, Option.getD_some, hz, Nat.sub_zero, List.drop_length, List.nil_append]
          rw [← hw']
          simp only [List.append_assoc]
          rw [← List.append_assoc (List.take _ c), List.take_append_drop]
        · rename_i hc
          have hce : c = [] := by simpa using hc
          subst hce
          split
          · -- nothing delivered yet: read from the next file at once
            rename_i hwe
            have hwnil : (writeSep sep sl n).1 = [] := by simpa using hwe
            obtain ⟨h1, h2, h4⟩ := ih (some f) sep.length sep n k (wf_mk _ _ _ _ (Nat.le_refl _) (by simp))
            refine ⟨?_, h2, h4⟩
            rw [h1]
            simp only [pending, Nat.sub_self, List.drop_zero, Option.getD_some, List.flatMap_cons,
              List.append_nil]
            rw [← hw', hwnil]
            simp [List.append_assoc]
          · -- the rest of the buffer takes (part of) the separator
            obtain ⟨hw2, hsl2, _⟩ := writeSep_spec sep sep.length (n - (writeSep sep sl n).1.length) (Nat.le_refl _)
            refine ⟨?_, wf_mk _ _ _ _ (by omega) (by simp), by simp⟩
            simp only [pending, Option.getD_some, List.flatMap_cons, List.append_nil]
            rw [← hw']
            simp only [Nat.sub_self, List.drop_zero] at hw2
            simp only [List.append_assoc]
            congr 1
            rw [← List.append_assoc, ← List.append_assoc, hw2]
            simp [List.append_assoc]

theorem read_spec' (s : CR) (n k : Nat) (h : WF s) : ReadOk s (s.read n k) := by
  obtain ⟨files, cur, sl, sep⟩ := s
  exact read_spec files cur sl sep n k h

theorem intercalate_cons (sep f : Bytes) (r : List Bytes) :
    sep.intercalate (f :: r) = f ++ r.flatMap (fun g => sep ++ g) := by
  induction r generalizing f with
  | nil => simp [List.intercalate, List.intersperse]
  | cons g t ih =>
    have := ih g
    simp only [List.intercalate] at this ⊢
    simp only [List.intersperse, List.flatten_cons, List.flatMap_cons]
    rw [this]
    simp [List.append_assoc]

theorem pending_new (files : List Bytes) (sep : Bytes) :
    pending (newCR files sep) = sep.intercalate files := by
  cases files with
  | nil => simp [newCR, pending, List.intercalate, List.intersperse]
  | cons f r => simp [newCR, pending, intercalate_cons]

theorem wf_new (files : List Bytes) (sep : Bytes) : WF (newCR files sep) := by
  cases files <;> simp [newCR, WF]

theorem readAll_spec (sch : List (Nat × Nat)) :
    ∀ (s : CR) (acc out : Bytes), WF s → readAll sch s acc = some out → out = acc ++ pending s := by
  induction sch with
  | nil => intro s acc out _ h; simp [readAll] at h
  | cons e rest ih =>
    intro s acc out hwf h
    obtain ⟨n, k⟩ := e
    obtain ⟨h1, h2, h4⟩ := read_spec' s n k hwf
    unfold readAll at h
    generalize s.read n k = r at h h1 h2 h4
    obtain ⟨c, eof, s'⟩ := r
    simp only at h h1 h2 h4
    cases eof with
    | true =>
      simp only [if_true, Option.some.injEq] at h
      rw [h4 rfl, List.append_nil] at h1
      rw [← h, h1]
    | false =>
      simp only [Bool.false_eq_true, if_false] at h
      rw [ih _ _ _ h2 h, List.append_assoc, h1]

/-- progress: a read into a non-empty buffer delivers something or reports EOF -/
theorem read_progress : ∀ (files : List Bytes) (cur : Option Bytes) (sl : Nat) (sep : Bytes) (n k : Nat),
    WF ⟨files, cur, sl, sep⟩ → 1 ≤ n →
    (readCR files cur sl sep n k).2.1 = true ∨ (readCR files cur sl sep n k).1 ≠ [] := by
  intro files
  induction files with
  | nil =>
    intro cur sl sep n k hwf hn
    cases cur with
    | none => left; unfold readCR; rfl
    | some c =>
      have hle : sl ≤ sep.length := hwf.1
      obtain ⟨_, hsl, hlen⟩ := writeSep_spec sep sl n hle
      unfold readCR
      simp only
      split
      · rename_i hroom
        right
        simp only [beq_iff_eq] at hroom
        intro he
        rw [he] at hlen hroom
        simp at hlen hroom
        omega
      · split
        · rename_i hroom hc
          right
          have hcl : 0 < c.length := by
            cases c with
            | nil => simp at hc
            | cons _ _ => simp
          simp only [beq_iff_eq] at hroom
          intro he
          have := congrArg List.length he
          simp only [List.length_append, List.length_take, List.length_nil] at this
          omega
        · left; rfl
  | cons f rest ih =>
    intro cur sl sep n k hwf hn
    have hle : sl ≤ sep.length := hwf.1
    have hnone : cur = none → (f :: rest) = [] ∧ sl = 0 := hwf.2
    obtain ⟨_, hsl, hlen⟩ := writeSep_spec sep sl n hle
    cases cur with
    | none => exact absurd (hnone rfl).1 (by simp)
    | some c =>
      unfold readCR
      simp only
      split
      · rename_i hroom
        right
        simp only [beq_iff_eq] at hroom
        intro he
        rw [he] at hlen hroom
        simp at hlen hroom
        omega
      · split
        · rename_i hroom hc
          right
          have hcl : 0 < c.length := by
            cases c with
            | nil => simp at hc
            | cons _ _ => simp
          simp only [beq_iff_eq] at hroom
          intro he
          have := congrArg List.length he
          simp only [List.length_append, List.length_take, List.length_nil] at this
          omega
        · split
          · exact ih (some f) sep.length sep n k (wf_mk _ _ _ _ (Nat.le_refl _) (by simp)) hn
          · rename_i hwe
            right
            intro he
            have : (writeSep sep sl n).1 = [] := by
              have := congrArg List.length he
              simp only [List.length_append, List.length_nil] at this
              exact List.eq_nil_of_length_eq_zero (by omega)
            exact hwe (by simp [this])

/-- every schedule of non-empty buffers that is longer than what is left to deliver reaches EOF -/
theorem readAll_complete (sch : List (Nat × Nat)) :
    ∀ (s : CR) (acc : Bytes), WF s → (∀ e ∈ sch, 1 ≤ e.1) → (pending s).length < sch.length →
      (readAll sch s acc).isSome := by
  induction sch with
  | nil => intro s acc _ _ h; simp at h
  | cons e rest ih =>
    intro s acc hwf hpos hlen
    obtain ⟨n, k⟩ := e
    obtain ⟨h1, h2, _⟩ := read_spec' s n k hwf
    have hp : (s.read n k).2.1 = true ∨ (s.read n k).1 ≠ [] := by
      obtain ⟨files, cur, sl, sep⟩ := s
      exact read_progress files cur sl sep n k hwf (hpos (n, k) (List.mem_cons_self ..))
    unfold readAll
    generalize s.read n k = r at hp h1 h2
    obtain ⟨c, eof, s'⟩ := r
    simp only at hp h1 h2 ⊢
    cases eof with
    | true => rfl
    | false =>
      simp only [Bool.false_eq_true, if_false]
      rcases hp with hp | hp
      · cases hp
      · apply ih _ _ h2 (fun e he => hpos e (List.mem_cons_of_mem _ he))
        have hl := congrArg List.length h1
        simp only [List.length_append] at hl
        have : 0 < c.length := by
          cases c with
          | nil => exact absurd rfl hp
          | cons _ _ => simp
        simp only [List.length_cons] at hlen
        omega

/-! ## lexical paths -/

/-- an ordinary path component: not empty, not `.`, not `..` -/
def isNormal (c : Bytes) : Bool := !(c.isEmpty || c == [dotB]) && !(c == dotdot)

theorem cleanAux_normal (abs : Bool) (cs st : List Bytes) (h : ∀ c ∈ cs, isNormal c = true) :
    cleanAux abs cs st = st.reverse ++ cs := by
  induction cs generalizing st with
  | nil => simp [cleanAux]
  | cons c r ih =>
    have hc := h c (List.mem_cons_self ..)
    simp only [isNormal, Bool.and_eq_true, Bool.not_eq_true'] at hc
    simp only [cleanAux, hc.1, hc.2, Bool.false_eq_true, if_false]
    rw [ih _ (fun x hx => h x (List.mem_cons_of_mem _ hx))]
    simp

theorem stripCommon_prefix (a r : List Bytes) : stripCommon a (a ++ r) = ([], r) := by
  induction a with
  | nil => cases r <;> simp [stripCommon]
  | cons x t ih => simp [stripCommon, ih]

/-- `Rel(root, root/r) = r` -/
theorem relP_prefix (ab : Bool) (a r : List Bytes) : relP ⟨ab, a⟩ ⟨ab, a ++ r⟩ = some ⟨false, r⟩ := by
  simp [relP, stripCommon_prefix]

/-- `Join(o, r) = o/r` for ordinary components -/
theorem joinP_normal (o : P) (r : List Bytes) (ho : ∀ c ∈ o.cs, isNormal c = true)
    (hr : ∀ c ∈ r, isNormal c = true) : joinP o ⟨false, r⟩ = ⟨o.abs, o.cs ++ r⟩ := by
  simp only [joinP]
  rw [cleanAux_normal]
  · simp
  · intro c hc
    rcases List.mem_append.mp hc with h | h
    · exact ho c h
    · exact hr c h

/-! ## frame of a sequence of tasks -/

/-- a sync task copies one file (`--sync` together with `--bundle` can merge several: excluded) -/
def SyncSingle (t : Task) : Prop := t.sync = true → t.srcs.length ≤ 1

/-- one complete task changes nothing but its destination: `dst.bak` did not exist when it was used
    (otherwise the task is refused) and is gone at the end -/
theorem get_task_untouched (cfg : Cfg) (w : Writes) (t : Task) (fs : Fs) (q : Path)
    (hq : q ≠ t.dst) (hs : SyncSingle t) :
    (run (minifyOps cfg w t fs) fs).get q = fs.get q := by
  by_cases hqb : q = bak t.dst
  · subst hqb
    cases hr : renamed t fs with
    | false =>
      have := Verif.Props.C20.bak_untouched cfg w t fs (minifyOps cfg w t fs).length hr
      simpa [Verif.Props.C20.crashState] using this
    | true =>
      obtain ⟨hmem, _, hnone, _⟩ := Verif.Props.C20.renamed_facts t fs hr
      by_cases hn : noop t = true
      · simp [minifyOps, hn, run]
      · have hn' : noop t = false := by simpa using hn
        cases hsy : t.sync with
        | false => rw [Verif.Props.C20.done_no_bak cfg w t fs hn' hsy hr, hnone]
        | true =>
          -- a single-source sync task whose source is the destination is a no-op
          exfalso
          have hlen := hs hsy
          have : t.srcs.head? = some t.dst := by
            match hsr : t.srcs, hmem, hlen with
            | [s], hmem, _ => simp at hmem; simp [hmem]
            | [], hmem, _ => simp at hmem
            | _ :: _ :: _, _, hlen => simp at hlen
          simp [noop, hsy, this] at hn'
  · apply get_run_untouched
    intro op ho hq'
    rcases touches_minifyOps _ _ _ _ op ho q hq' with e | e
    · exact hq e
    · exact hqb e

theorem get_runTasks_untouched (lib : Bytes → Bytes → Option Bytes) (cfg : Cfg) (q : Path) :
    ∀ (ts : List (Task × Bytes)) (fs : Fs) (so : Bytes) (fails : Nat),
      (∀ t ∈ ts, q ≠ t.1.dst ∧ SyncSingle t.1) →
      (runTasks lib cfg ts fs so fails).1.get q = fs.get q := by
  intro ts
  induction ts with
  | nil => intro fs so fails _; rfl
  | cons t rest ih =>
    intro fs so fails h
    obtain ⟨tk, mime⟩ := t
    simp only [runTasks]
    rw [ih _ _ _ (fun x hx => h x (List.mem_cons_of_mem _ hx))]
    have := h (tk, mime) (List.mem_cons_self ..)
    exact get_task_untouched _ _ _ _ _ this.1 this.2

/-- no two tasks of a list share a destination file -/
theorem dupDst_false (ts : List TaskP) (h : dupDst ts = false) :
    ∀ t1 ∈ ts, ∀ t2 ∈ ts, t1.dst.isSome → t1.dst = t2.dst → t1 = t2 := by
  induction ts with
  | nil => intro t1 h1; simp at h1
  | cons t r ih =>
    simp only [dupDst, Bool.or_eq_false_iff, Bool.and_eq_false_iff] at h
    obtain ⟨hh, hr⟩ := h
    intro t1 h1 t2 h2 hsome heq
    rcases List.mem_cons.mp h1 with e1 | e1 <;> rcases List.mem_cons.mp h2 with e2 | e2
    · rw [e1, e2]
    · exfalso
      subst e1
      rcases hh with hh | hh
      · rw [hsome] at hh; cases hh
      · have : r.any (fun u => decide (u.dst = t1.dst)) = true :=
          List.any_eq_true.mpr ⟨t2, e2, by simp [heq]⟩
        rw [this] at hh; cases hh
    · exfalso
      subst e2
      rcases hh with hh | hh
      · rw [← heq, hsome] at hh; cases hh
      · have : r.any (fun u => decide (u.dst = t2.dst)) = true :=
          List.any_eq_true.mpr ⟨t1, e1, by simp [heq]⟩
        rw [this] at hh; cases hh
    · exact ih hr t1 e1 t2 e2 hsome heq

/-! ## no plan contains a sync task with several sources (since `--bundle` with `--sync` is rejected) -/

theorem newTask_sync (root input : P) (output : Bytes) (s : Bool) (t : TaskP)
    (h : newTask root input output s = some t) : t.sync = s := by
  simp only [newTask] at h
  split at h
  · split at h
    · cases h
    · cases h; rfl
  · cases h; rfl

theorem walkTasks_sync (pm : Nat → Bytes → Bool) (inv : Inv) (mt output : Bytes) (root inp : P)
    (hs : inv.sync = false) :
    ∀ (rels : List (List Bytes)) (ts : List TaskP),
      walkTasks pm inv mt output root inp rels = some ts → ∀ t ∈ ts, t.sync = false := by
  intro rels
  induction rels with
  | nil => intro ts h t ht; simp [walkTasks] at h; subst h; simp at ht
  | cons r rest ih =>
    intro ts h t ht
    simp only [walkTasks, hs, Bool.or_false] at h
    split at h
    · rename_i hv
      split at h
      · cases h
      · rename_i t0 ht0
        cases hrest : walkTasks pm inv mt output root inp rest with
        | none => simp [hrest] at h
        | some ts' =>
          simp only [hrest, Option.map_some, Option.some.injEq] at h
          subst h
          rcases List.mem_cons.mp ht with e | e
          · subst e
            have := newTask_sync _ _ _ _ _ ht0
            simpa [hv] using this
          · exact ih ts' hrest t e
    · exact ih ts h t ht

theorem tasksOfInput_sync (pm : Nat → Bytes → Bool) (fs : Fs) (inv : Inv) (mt output i : Bytes)
    (hs : inv.sync = false) (n : List TaskP) (h : tasksOfInput pm fs inv mt output i = some n) :
    ∀ t ∈ n, t.sync = false := by
  intro t ht
  simp only [tasksOfInput, hs, Bool.or_false] at h
  split at h
  · cases h
  · split at h
    · rename_i hv
      split at h
      · cases h
      · cases hn : newTask (dirRaw i) (cleanP i) output (!fileFilter pm inv (render (cleanP i))) with
        | none => simp [hn] at h
        | some t0 =>
          simp only [hn, Option.map_some, Option.some.injEq] at h
          subst h
          simp only [List.mem_singleton] at ht
          subst ht
          have := newTask_sync _ _ _ _ _ hn
          simpa [hv] using this
    · cases h; simp at ht
  · split at h
    · cases h; simp at ht
    · split at h
      · cases h; simp at ht
      · exact walkTasks_sync pm inv mt output _ _ hs _ n h t ht

theorem allTasks_sync (pm : Nat → Bytes → Bool) (fs : Fs) (inv : Inv) (mt output : Bytes)
    (hs : inv.sync = false) :
    ∀ (ins : List Bytes) (ts : List TaskP), allTasks pm fs inv mt output ins = some ts → ∀ t ∈ ts, t.sync = false := by
  intro ins
  induction ins with
  | nil => intro ts h t ht; simp [allTasks] at h; subst h; simp at ht
  | cons i rest ih =>
    intro ts h t ht
    simp only [allTasks] at h
    cases hn : tasksOfInput pm fs inv mt output i with
    | none => simp [hn] at h
    | some n =>
      cases hr : allTasks pm fs inv mt output rest with
      | none => simp [hn, hr] at h
      | some m =>
        simp only [hn, hr, Option.map_some, Option.some.injEq] at h
        subst h
        rcases List.mem_append.mp ht with e | e
        · exact tasksOfInput_sync pm fs inv mt output i hs n hn t e
        · exact ih m hr t e

theorem finishPlan_syncSingle (inv : Inv) (od : Option Bytes) (mt : Bytes) (ts : List TaskP)
    (hall : inv.sync = false → ∀ t ∈ ts, t.sync = false) (hbs : (inv.bundle && inv.sync) = false) :
    ∀ t ∈ (finishPlan inv od mt ts).tasks, SyncSingle (toTask (finishPlan inv od mt ts) t).1 := by
  intro t ht hsync
  by_cases hb : (inv.bundle && decide (ts.length > 1)) = true
  · have e : finishPlan inv od mt ts =
        { tasks := ts.take 1, bundleSrcs := ts.map (·.src), outDir := od, mimetype := mt } := by
      simp [finishPlan, hb]
    rw [e] at ht hsync
    have hbun : inv.bundle = true := by
      simp only [Bool.and_eq_true] at hb; exact hb.1
    have hs : inv.sync = false := by simpa [hbun] using hbs
    have := hall hs t (List.mem_of_mem_take ht)
    simp only [toTask] at hsync
    rw [this] at hsync; cases hsync
  · have e : finishPlan inv od mt ts = { tasks := ts, outDir := od, mimetype := mt } := by
      simp [finishPlan, hb]
    rw [e]
    simp [toTask]

theorem plan_syncSingle (pm : Nat → Bytes → Bool) (fs : Fs) (inv : Inv) (pl : Plan)
    (h : plan pm fs inv = some pl) : ∀ t ∈ pl.tasks.map (toTask pl), SyncSingle t.1 := by
  have hc : planCore pm fs inv = some pl := by
    simp only [plan] at h
    cases hc : planCore pm fs inv with
    | none => simp [hc] at h
    | some pl' =>
      simp only [hc] at h
      split at h
      · cases h
      · cases h; rfl
  clear h
  intro tk htk
  obtain ⟨t, ht, rfl⟩ := List.mem_map.mp htk
  intro hsync
  simp only [planCore] at hc
  cases hm : mimeOf inv with
  | none => simp [hm] at hc
  | some mt =>
    simp only [hm] at hc
    split at hc
    · cases hc
    · rename_i hrej
      have hbs : (inv.bundle && inv.sync) = false := by
        simp only [rejected, Bool.or_eq_true, not_or, Bool.not_eq_true] at hrej
        exact hrej.1.1.1.2
      simp only [planTasks] at hc
      split at hc
      · cases hc
      · split at hc
        · cases hc
        · split at hc
          · -- stdin
            revert hc
            generalize newTask (⟨false, []⟩ : P) ⟨false, []⟩ _ false = nt
            intro hc
            cases nt with
            | none => simp at hc
            | some t0 =>
              simp only [Option.map_some, Option.some.injEq] at hc
              subst hc
              simp [toTask]
          · split at hc
            · cases hc
            · rename_i ts hall
              cases hc
              exact finishPlan_syncSingle inv _ mt ts
                (fun hs => allTasks_sync pm fs inv mt _ hs _ ts hall) hbs t ht hsync

/-- the verdicts of the tasks, in order -/
def taskOks (lib : Bytes → Bytes → Option Bytes) (cfg : Cfg) : List (Task × Bytes) → Fs → List Bool
  | [], _ => []
  | (t, mime) :: rest, fs =>
    let out := outBytes cfg (lib mime) t fs
    minifyOk cfg (lib mime) (.ok [out]) t fs ::
      taskOks lib cfg rest (run (minifyOps cfg (.ok [out]) t fs) fs)

theorem runTasks_fails (lib : Bytes → Bytes → Option Bytes) (cfg : Cfg) :
    ∀ (ts : List (Task × Bytes)) (fs : Fs) (so : Bytes) (fails : Nat),
      (runTasks lib cfg ts fs so fails).2.2 = fails + (taskOks lib cfg ts fs).count false := by
  intro ts
  induction ts with
  | nil => intro fs so fails; simp [runTasks, taskOks]
  | cons t rest ih =>
    intro fs so fails
    obtain ⟨tk, mime⟩ := t
    simp only [runTasks, taskOks, ih]
    cases minifyOk cfg (lib mime) (.ok [outBytes cfg (lib mime) tk fs]) tk fs <;> simp <;> omega

end Verif.Proofs.Cli

import Verif.Proofs.C09HtmlStartTag
import Verif.Proofs.C09HtmlRaw
import Verif.Proofs.C09HtmlComment
/-!
# C09 / HTML — pieces of a document that are read on their own, and their concatenation

`Reads p toks m m'`: from the machine state `m`, the bytes `p` — whatever follows them — are read as exactly the tokens
`toks` and leave the machine in `m'`.  Pieces compose (`Reads.append`); the pieces html.go writes are: text whose `<`
are all harmless (`textSafe`), comments, `<!doctype html>`, end tags, start tags, and raw-text elements (start tag,
content without an appropriate end tag, end tag).
-/
namespace Verif.Proofs.C09HtmlPieces
open Verif.Spec.C09HtmlTok Verif.Spec.C09HtmlShape Verif.Spec.HtmlAttr Verif.Proofs.C09HtmlTok Verif.Proofs.C09HtmlTag
open Verif.Proofs.C09HtmlRaw Verif.Proofs.C09HtmlComment

def Reads (p : List Char) (toks : List Tok) (m m' : M) : Prop :=
  (∀ more, runO m (p ++ more) = toks ++ runO m' more) ∧ runS m p = m'

theorem Reads.nil (m : M) : Reads [] [] m m := ⟨fun _ => rfl, rfl⟩

theorem Reads.append {p1 p2 : List Char} {t1 t2 : List Tok} {m1 m2 m3 : M}
    (h1 : Reads p1 t1 m1 m2) (h2 : Reads p2 t2 m2 m3) : Reads (p1 ++ p2) (t1 ++ t2) m1 m3 := by
  refine ⟨fun more => ?_, ?_⟩
  · rw [List.append_assoc, h1.1, h2.1, List.append_assoc]
  · rw [runS_append, h1.2, h2.2]

/-- the tokens of a complete document that consists of one piece read from the initial state into a data state -/
theorem Reads.tokens {p : List Char} {toks : List Tok} {m m' : M} (h : Reads p toks m m') (hf : finish m' = []) :
    run m p = toks := by
  have := h.1 []
  rw [List.append_nil] at this
  rw [run_eq, this, h.2, hf]; simp [runO]

/-- the data state in HTML content -/
def DataM (m : M) : Prop := m.s = .text ∧ m.mode = .data ∧ m.foreign = 0

theorem DataM.finish {m : M} (h : DataM m) : finish m = [] := by
  unfold Verif.Spec.C09HtmlTok.finish; rw [h.1]

theorem DataM.at_text {m : M} (h : DataM m) : at_ m .text = m := by
  obtain ⟨a, b, c, d, e⟩ := m; obtain ⟨h1, _, _⟩ := h; simp only at h1; subst h1; rfl

/-! ## text -/

def tpend : S → List Char
  | .tagOpen => ['<']
  | _ => []

theorem step_tagOpen_other (m : M) (c : Char) (h : opensMarkup c = false) :
    step (at_ m .tagOpen) c = ((textStep (at_ m .tagOpen) c).1, .char '<' true :: (textStep (at_ m .tagOpen) c).2) := by
  simp only [opensMarkup, Bool.or_eq_false_iff, decide_eq_false_iff_not] at h
  obtain ⟨⟨⟨h1, h2⟩, h3⟩, h4⟩ := h
  simp only [step, at_s, h1, h2, h3, h4, if_false, Bool.false_eq_true]

theorem textStep_data (m : M) (hm : m.mode = .data) (s0 : S) (c : Char) :
    textStep (at_ m s0) c = if c = '<' then (at_ m .tagOpen, []) else (at_ m .text, [.char c true]) := by
  obtain ⟨a, b, d, e, f⟩ := m
  simp only at hm; subst hm; rfl

theorem textSafe_cons_ne {c : Char} (h : c ≠ '<') (w : List Char) : textSafe (c :: w) = textSafe w := by
  simp [textSafe, h]

theorem textSafe_lt (c : Char) (w : List Char) :
    textSafe ('<' :: c :: w) = (!opensMarkup c && textSafe (c :: w)) := by
  simp [textSafe]

theorem text_scan (m : M) (hm : m.mode = .data) : ∀ (w : List Char) (s : S), (s = .text ∨ s = .tagOpen) →
    textSafe (tpend s ++ w) = true →
    runS (at_ m s) w = at_ m .text ∧ runO (at_ m s) w = chs true (tpend s ++ w) := by
  intro w
  induction w with
  | nil =>
    intro s hs h
    rcases hs with e | e <;> subst e
    · exact ⟨rfl, rfl⟩
    · simp [tpend, textSafe] at h
  | cons c w ih =>
    intro s hs h
    rcases hs with e | e <;> subst e
    · have hst : step (at_ m .text) c = textStep (at_ m .text) c := rfl
      rw [runS_cons, runO_cons, hst, textStep_data m hm]
      by_cases hc : c = '<'
      · subst hc
        have := ih .tagOpen (Or.inr rfl) (by simpa [tpend] using h)
        simpa [tpend] using this
      · have := ih .text (Or.inl rfl) (by simpa [tpend, textSafe_cons_ne hc] using h)
        simp only [hc, if_false]
        refine ⟨this.1, ?_⟩
        rw [this.2]; simp [tpend, chs]
    · have h' : opensMarkup c = false ∧ textSafe (c :: w) = true := by
        have : textSafe ('<' :: c :: w) = true := by simpa [tpend] using h
        rw [textSafe_lt] at this
        simpa using this
      rw [runS_cons, runO_cons, step_tagOpen_other m c h'.1, textStep_data m hm]
      by_cases hc : c = '<'
      · subst hc
        have := ih .tagOpen (Or.inr rfl) (by simpa [tpend] using h'.2)
        simp only [if_true]
        refine ⟨this.1, ?_⟩
        rw [this.2]; simp [tpend, chs]
      · have := ih .text (Or.inl rfl) (by simpa [tpend, textSafe_cons_ne hc] using h'.2)
        simp only [hc, if_false]
        refine ⟨this.1, ?_⟩
        rw [this.2]; simp [tpend, chs]

/-- **text**: in the data state, a text all of whose `<` are followed by a byte that does not open markup is read as
    character tokens, byte for byte -/
theorem reads_text (m : M) (hm : DataM m) (d : List Char) (h : textSafe d = true) : Reads d (chs true d) m m := by
  have h0 := hm.at_text
  obtain ⟨e1, e2⟩ := text_scan m hm.2.1 d .text (Or.inl rfl) (by simpa [tpend] using h)
  rw [h0] at e1 e2
  refine ⟨fun more => ?_, e1⟩
  rw [runO_append, e1, e2]; simp [tpend]

/-! ## comments, DOCTYPE -/

theorem reads_comment (m : M) (hm : DataM m) (body cl : List Char) (ha : abruptStart body = false)
    (hc : hasClose body = false) (hcl : Closer cl) :
    Reads (['<', '!', '-', '-'] ++ body ++ cl) [.comment body] m m := by
  refine ⟨fun more => ?_, (comment_reads_back m hm.1 hm.2.1 body cl [] ha hc hcl).2⟩
  exact (comment_reads_back m hm.1 hm.2.1 body cl more ha hc hcl).1

/-- `<!doctype html>` as html.go writes it -/
theorem reads_doctype (m : M) (hm : DataM m) :
    Reads "<!doctype html>".toList [.doctype " html".toList] m m := by
  obtain ⟨a, b, c, d, e⟩ := m
  obtain ⟨h1, h2, _⟩ := hm
  simp only at h1 h2; subst h1; subst h2
  exact ⟨fun more => rfl, rfl⟩

/-! ## tags -/

/-- `</name>` -/
theorem reads_end_tag (m : M) (hm : DataM m) (name : List Char) (hn : goodTag name = true)
    (hf : isForeignRoot name = false) :
    Reads ('<' :: '/' :: (name ++ ['>'])) [.endTag name] m m := by
  obtain ⟨hs, hmd, hfo⟩ := hm
  cases name with
  | nil => exact absurd hn (by decide)
  | cons c cs =>
    simp only [goodTag, Bool.and_eq_true, beq_iff_eq] at hn
    obtain ⟨⟨ha, hl⟩, hcs⟩ := hn
    have h0 : step m '<' = (at_ m .tagOpen, []) := by
      obtain ⟨sc, md, la, fo, s0⟩ := m; simp only at hs hmd; subst hs; subst hmd; rfl
    have h1 : step (at_ m .tagOpen) '/' = (at_ m .endTagOpen, []) := rfl
    have h2 : step (at_ m .endTagOpen) c = (at_ m (.tagName { isEnd := true, name := [c] }), []) := by
      simp only [step, at_s, ha, hl, ↓reduceIte]; rfl
    have h3 := run_tagName m { isEnd := true, name := [c] } cs (List.all_eq_true.mp hcs)
    simp only [List.singleton_append] at h3
    have h4 : step (at_ m (.tagName { isEnd := true, name := c :: cs })) '>' =
        emitTag m { isEnd := true, name := c :: cs } false := rfl
    have h5 : emitTag m { isEnd := true, name := c :: cs } false = (m, [.endTag (c :: cs)]) := by
      obtain ⟨sc, md, la, fo, s0⟩ := m; simp only at hs hmd; subst hs; subst hmd
      simp [emitTag, hf]
    refine ⟨fun more => ?_, ?_⟩
    · rw [List.cons_append, List.cons_append, runO_cons, h0, runO_cons, h1, List.append_assoc, List.cons_append, runO_cons, h2,
        runO_append, h3.1, h3.2, List.cons_append, runO_cons, h4, h5]; rfl
    · rw [runS_cons, h0, runS_cons, h1, List.cons_append, runS_cons, h2, runS_append, h3.1, runS_cons, h4, h5]; rfl

/-- a start tag of an element whose content is ordinary markup -/
theorem reads_start_tag (m : M) (hm : DataM m) (tag : List Char) (as : List WAttr)
    (ht : goodTag tag = true) (hn : ∀ a ∈ as, goodName a.name = true)
    (hf : isForeignRoot tag = false) (hc : contentMode m.scripting tag = .data) :
    Reads ('<' :: (tag ++ as.flatMap WAttr.bytes ++ ['>'])) [.startTag tag (dedup [] (as.map WAttr.read)) false] m
      { m with last := tag } ∧ DataM { m with last := tag } := by
  obtain ⟨hs, hmd, hfo⟩ := hm
  have key : ∀ more, runO m ('<' :: (tag ++ as.flatMap WAttr.bytes ++ ['>']) ++ more) =
      [.startTag tag (dedup [] (as.map WAttr.read)) false] ++
        runO (emitTag m { isEnd := false, name := tag, attrs := as.map WAttr.read } false).1 more ∧
      runS m ('<' :: (tag ++ as.flatMap WAttr.bytes ++ ['>'])) =
        (emitTag m { isEnd := false, name := tag, attrs := as.map WAttr.read } false).1 := by
    intro more
    obtain ⟨o1, o2⟩ := start_tag_reads_back m hs hmd tag as ht hn
    exact ⟨by rw [runO_append, o1, o2], o2⟩
  have he : (emitTag m { isEnd := false, name := tag, attrs := as.map WAttr.read } false).1 = { m with last := tag } := by
    obtain ⟨sc, md, la, fo, s0⟩ := m
    simp only at hs hmd hfo hc; subst hs; subst hmd; subst hfo
    simp [emitTag, hf, hc]
  rw [he] at key
  exact ⟨⟨fun more => (key more).1, (key []).2⟩, ⟨hs, hmd, hfo⟩⟩

/-- **a raw-text element**: start tag, content without an appropriate end tag (and, in a script, without `<!--`), end tag -/
theorem reads_raw_element (m : M) (hm : DataM m) (tag : List Char) (as : List WAttr) (content : List Char)
    (ht : goodTag tag = true) (hg : goodRawTag tag = true) (hn : ∀ a ∈ as, goodName a.name = true)
    (hf : isForeignRoot tag = false) (hc : rawMode (contentMode m.scripting tag) = true)
    (he : hasEndTag tag content = false)
    (hi : contentMode m.scripting tag = .script → hasInfix commentOpen content = false) :
    Reads ('<' :: (tag ++ as.flatMap WAttr.bytes ++ ['>']) ++ content ++ '<' :: '/' :: (tag ++ ['>']))
      ([.startTag tag (dedup [] (as.map WAttr.read)) false] ++ chs (contentMode m.scripting tag).refs content ++ [.endTag tag])
      m { m with last := tag } ∧ DataM { m with last := tag } := by
  obtain ⟨hs, hmd, hfo⟩ := hm
  obtain ⟨o1, o2⟩ := start_tag_reads_back m hs hmd tag as ht hn
  have he1 : (emitTag m { isEnd := false, name := tag, attrs := as.map WAttr.read } false).1 =
      { m with last := tag, mode := contentMode m.scripting tag } := by
    obtain ⟨sc, md, la, fo, s0⟩ := m
    simp only at hs hmd hfo hc; subst hs; subst hmd; subst hfo
    simp [emitTag, hf]
  rw [he1] at o2
  let m1 : M := { m with last := tag, mode := contentMode m.scripting tag }
  have hs1 : m1.s = .text := hs
  have hno : noOpen m1 content = true := by
    unfold noOpen
    cases hmd1 : (m1.mode != .script) with
    | true => rfl
    | false =>
      have : contentMode m.scripting tag = .script := by simpa [m1] using hmd1
      simp [hi this]
  have r := fun more => raw_text_then_end_tag m1 hs1 hc tag content more rfl hg he hno
  have he2 : (emitTag m1 { isEnd := true, name := tag } false).1 = { m with last := tag } := by
    obtain ⟨sc, md, la, fo, s0⟩ := m
    simp only at hs hmd hfo; subst hs; subst hmd; subst hfo
    simp [emitTag, hf, m1]
  refine ⟨⟨fun more => ?_, ?_⟩, ⟨hs, hmd, hfo⟩⟩
  · have r1 := (r more).1
    rw [List.append_assoc] at r1
    rw [List.append_assoc, List.append_assoc, runO_append, o1, o2, r1, he2]
    simp [List.append_assoc, m1]
  · rw [List.append_assoc, runS_append, o2, (r []).2, he2]

end Verif.Proofs.C09HtmlPieces

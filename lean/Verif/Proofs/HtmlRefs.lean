import Verif.Proofs.HtmlAttr
/-!
# C03 — `parse.ReplaceEntities` preserves the decoded value (helper lemmas)
-/
namespace Verif.Proofs.HtmlRefs
open Verif.Spec.HtmlAttr Verif.Spec.HtmlKnown Verif.Proofs.HtmlAttr
open Verif.Model.HtmlAttr (EntMap RevMap)
namespace M
export Verif.Model.HtmlAttr (isDigit isAlpha isAlnum isHexDigit hexDigitVal hexAcc decAcc natDigits refBodyHex refBodyDec
  refBodyNamed refBody headIs replAt replEnt replaceEntities)
end M

/-! ## the model's and the specification's character classes agree -/

theorem isDigit_eq (c : Char) : M.isDigit c = isDigit c := rfl
theorem isAlnum_eq (c : Char) : M.isAlnum c = isAlnum c := rfl
theorem isAlnum_eq' : M.isAlnum = isAlnum := rfl

theorem isHexDigit_eq (c : Char) : M.isHexDigit c = isHex c := by
  simp only [Verif.Model.HtmlAttr.isHexDigit, Verif.Model.HtmlAttr.isDigit, isHex, isDigit, isUpperHex, isLowerHex]
  cases h1 : (decide (48 ≤ c.toNat) && decide (c.toNat ≤ 57)) <;>
  cases h2 : (decide (97 ≤ c.toNat) && decide (c.toNat ≤ 102)) <;>
  cases h3 : (decide (65 ≤ c.toNat) && decide (c.toNat ≤ 70)) <;> rfl

theorem isHexDigit_eq' : M.isHexDigit = isHex := funext isHexDigit_eq

/-! ## what the specification answers on `;`-terminated references -/

theorem isDigit_not_x {c : Char} (h : isDigit c = true) : c ≠ 'x' ∧ c ≠ 'X' ∧ c ≠ '#' := by
  simp only [isDigit, Bool.and_eq_true, decide_eq_true_eq] at h
  refine ⟨?_, ?_, ?_⟩ <;> (intro e; subst e; revert h; decide)

theorem isAlnum_not_hash {c : Char} (h : isAlnum c = true) : c ≠ '#' ∧ c ≠ ';' ∧ c ≠ '&' := by
  refine ⟨?_, ?_, ?_⟩ <;> (intro e; subst e; revert h; decide)

theorem semiLen_semi (t : List Char) : semiLen (';' :: t) = 1 := by simp [semiLen]

/-- decimal reference closed by `;` -/
theorem matchRef_dec_semi (attr : Bool) (ds t : List Char) (hne : ds ≠ [])
    (hd : ∀ c ∈ ds, isDigit c = true) :
    matchRef attr ('#' :: (ds ++ ';' :: t)) = some ([mkCp (numericFix (numVal 10 ds))], ds.length + 2) := by
  have htw : (ds ++ ';' :: t).takeWhile isDigit = ds :=
    takeWhile_append_all isDigit ds (';' :: t) hd (by intro d hd'; simp at hd'; subst hd'; decide)
  match ds, hne with
  | x :: ds', _ =>
    have hx := isDigit_not_x (hd x (by simp))
    simp only [matchRef, List.head?_cons, if_true, matchNumeric, List.cons_append, hx.1, hx.2.1, or_self, if_false]
    unfold numericOf
    simp only [List.cons_append] at htw
    simp only [htw, List.isEmpty_cons, Bool.false_eq_true, if_false]
    have : List.drop (x :: ds').length (x :: (ds' ++ ';' :: t)) = ';' :: t := by
      have := List.drop_left (l₁ := x :: ds') (l₂ := ';' :: t)
      simp
    rw [this, semiLen_semi]
    simp; omega

/-- hexadecimal reference closed by `;` -/
theorem matchRef_hex_semi (attr : Bool) (ds t : List Char) (hne : ds ≠ [])
    (hd : ∀ c ∈ ds, isHex c = true) :
    matchRef attr ('#' :: 'x' :: (ds ++ ';' :: t)) = some ([mkCp (numericFix (numVal 16 ds))], ds.length + 3) := by
  have htw : (ds ++ ';' :: t).takeWhile isHex = ds :=
    takeWhile_append_all isHex ds (';' :: t) hd (by intro d hd'; simp at hd'; subst hd'; decide)
  simp only [matchRef, List.head?_cons, if_true, matchNumeric, true_or]
  unfold numericOf
  simp only [htw]
  have hemp : ds.isEmpty = false := by cases ds <;> simp_all
  simp only [hemp, Bool.false_eq_true, if_false, List.drop_left, semiLen_semi]
  simp; omega

/-- named reference closed by `;` -/
theorem matchRef_named_semi (attr : Bool) (nm t : List Char) (cps : List Nat)
    (hal : ∀ c ∈ nm, isAlnum c = true) (hl : lookupName (nm ++ [';']) = some cps) :
    matchRef attr (nm ++ ';' :: t) = some (cps.map mkCp, nm.length + 1) := by
  have htw : (nm ++ ';' :: t).takeWhile isAlnum = nm :=
    takeWhile_append_all isAlnum nm (';' :: t) hal (by intro d hd'; simp at hd'; subst hd'; decide)
  have hhead : (nm ++ ';' :: t).head? ≠ some '#' := by
    cases nm with
    | nil => simp
    | cons x nm' => simp; exact (isAlnum_not_hash (hal x (by simp))).1
  simp only [matchRef, hhead, if_false]
  unfold matchNamed
  simp only [htw, List.drop_left, semiLen_semi, if_true, hl, Option.map_some]

/-! ## `natDigits` (strconv.AppendInt) prints a numeral that reads back as the same number -/

theorem digitChar_ok : ∀ d, d < 10 → isDigit (Char.ofNat (48 + d)) = true ∧ digitVal (Char.ofNat (48 + d)) = d := by
  decide

theorem numVal_snoc (b : Nat) (a : List Char) (d : Char) : numVal b (a ++ [d]) = numVal b a * b + digitVal d := by
  simp [numVal, List.foldl_append]

theorem natDigits_ok (n : Nat) :
    M.natDigits n ≠ [] ∧ (∀ c ∈ M.natDigits n, isDigit c = true) ∧ numVal 10 (M.natDigits n) = n := by
  induction n using Nat.strongRecOn with
  | _ n ih =>
    rw [Verif.Model.HtmlAttr.natDigits]
    split
    · next h =>
      have := digitChar_ok n h
      refine ⟨by simp, ?_, ?_⟩
      · intro c hc; simp at hc; subst hc; exact this.1
      · simp [numVal, this.2]
    · next h =>
      have h1 := ih (n / 10) (by omega)
      have h2 := digitChar_ok (n % 10) (by omega)
      refine ⟨by simp, ?_, ?_⟩
      · intro c hc
        simp only [List.mem_append, List.mem_singleton] at hc
        rcases hc with hc | hc
        · exact h1.2.1 c hc
        · subst hc; exact h2.1
      · rw [numVal_snoc, h1.2.2, h2.2]; omega

/-! ## the hexadecimal and decimal accumulators of Go `replaceEntities` -/

theorem hexDigitVal_eq {c : Char} (h : isHex c = true) : M.hexDigitVal c = digitVal c := by
  simp only [isHex, isDigit, isUpperHex, isLowerHex, Bool.or_eq_true, Bool.and_eq_true, decide_eq_true_eq] at h
  simp only [Verif.Model.HtmlAttr.hexDigitVal, digitVal, isDigit, isUpperHex, isLowerHex]
  rcases h with (h | h) | h
  · have h1 : c.toNat ≤ 57 := h.2
    simp [h.1, h.2]
  · have h1 : ¬ c.toNat ≤ 57 := by omega
    have h2 : ¬ (48 ≤ c.toNat ∧ c.toNat ≤ 57) := by omega
    simp [h1, h.1, h.2]
    omega
  · have h1 : ¬ c.toNat ≤ 57 := by omega
    have h2 : ¬ c.toNat ≤ 70 := by omega
    simp [h1, h2, h.1, h.2]
    omega

theorem hexAcc_foldl (ds : List Char) (hd : ∀ c ∈ ds, isHex c = true) (a0 : Nat) :
    ds.foldl (fun a c => (a * 16 + M.hexDigitVal c) % 2 ^ 64) (a0 % 2 ^ 64) =
      (ds.foldl (fun a c => a * 16 + digitVal c) a0) % 2 ^ 64 := by
  induction ds generalizing a0 with
  | nil => simp
  | cons d ds ih =>
    simp only [List.foldl_cons]
    rw [hexDigitVal_eq (hd d (by simp))]
    have : (a0 % 2 ^ 64 * 16 + digitVal d) % 2 ^ 64 = (a0 * 16 + digitVal d) % 2 ^ 64 := by omega
    rw [this]
    exact ih (fun c hc => hd c (by simp [hc])) _

theorem hexAcc_eq (ds : List Char) (hd : ∀ c ∈ ds, isHex c = true) : M.hexAcc ds = numVal 16 ds % 2 ^ 64 := by
  have := hexAcc_foldl ds hd 0
  simpa [Verif.Model.HtmlAttr.hexAcc, numVal] using this

theorem drop_takeWhile_length {α} (p : α → Bool) (s : List α) :
    s.drop (s.takeWhile p).length = s.dropWhile p := by
  induction s with
  | nil => rfl
  | cons c s ih => simp only [List.takeWhile, List.dropWhile]; cases p c <;> simp [ih]

theorem split_takeWhile {α} (p : α → Bool) (s : List α) :
    s = s.takeWhile p ++ s.drop (s.takeWhile p).length := by
  rw [drop_takeWhile_length]; exact (List.takeWhile_append_dropWhile).symm

theorem headIs_semi {s : List Char} (h : M.headIs (fun c => c = ';') s = true) : ∃ t, s = ';' :: t := by
  cases s with
  | nil => simp [Verif.Model.HtmlAttr.headIs] at h
  | cons c t => simp [Verif.Model.HtmlAttr.headIs] at h; exact ⟨t, by rw [h]⟩

theorem decAcc_spec (r : List Char) : ∀ (c0 n0 c n : Nat), M.decAcc c0 r n0 = (c, n) → c < 128 →
    n = n0 + (r.takeWhile isDigit).length ∧ c = (r.takeWhile isDigit).foldl (fun a c => a * 10 + digitVal c) c0 := by
  induction r with
  | nil => intro c0 n0 c n h _; simp [Verif.Model.HtmlAttr.decAcc] at h; simp [h.1, h.2]
  | cons d r ih =>
    intro c0 n0 c n h hc
    simp only [Verif.Model.HtmlAttr.decAcc] at h
    split at h
    · next hcond =>
      simp only [Bool.and_eq_true, decide_eq_true_eq] at hcond
      have hd : isDigit d = true := hcond.2
      have := ih _ _ _ _ h hc
      simp only [List.takeWhile, hd, List.length_cons, List.foldl_cons]
      have hv : digitVal d = d.toNat - 48 := by simp [digitVal, hd]
      rw [hv]
      exact ⟨by omega, this.2⟩
    · next hcond =>
      simp only [Prod.mk.injEq] at h
      have hd : isDigit d = false := by
        rw [← h.1] at hc
        simp only [Bool.and_eq_true, decide_eq_true_eq, not_and] at hcond
        have := hcond hc
        simpa [isDigit_eq] using this
      simp [List.takeWhile, hd, h.1, h.2]

theorem numericFix_small : ∀ v, v < 128 → (v ≠ 0 → numericFix v = v) := by decide

theorem mkCp_small {v : Nat} (h1 : v < 128) (h0 : v ≠ 0) (h13 : v ≠ 13) :
    mkCp (numericFix v) = .lit (Char.ofNat v) := by
  rw [numericFix_small v h1 h0]; simp [mkCp, h1, h13]

/-! ## what the tables must satisfy -/

/-- what a replacement `r` for a reference that denotes the units `us` must look like:
    a single literal byte, or a complete (`&…;`) reference text that decodes to `us` whatever follows -/
def ReplOk (r : List Char) (us : List DU) : Prop :=
  (∃ v, v < 128 ∧ r = [Char.ofNat v] ∧ us = [mkCp (numericFix v)]) ∨
  (2 ≤ r.length ∧ r.head? = some '&' ∧ ∀ attr t, dec attr 0 (r ++ t) = us ++ dec attr 0 t)

/-- `html.EntitiesMap` is sound w.r.t. the HTML5 table -/
def EmOk (em : EntMap) : Prop :=
  ∀ nm r, em.lookup nm = some r → (∀ c ∈ nm, isAlnum c = true) →
    ∃ cps, lookupName (nm ++ [';']) = some cps ∧ ReplOk r (cps.map mkCp)

/-- a reverse map (`html.TextRevEntitiesMap`, `html.AttrRevEntitiesMap`) maps a byte to a complete reference that
    denotes what a numeric reference to that byte denotes -/
def RevOk (rev : RevMap) : Prop :=
  ∀ v q, v < 128 → rev.lookup (Char.ofNat v) = some q →
    q.head? = some '&' ∧ ∀ attr t, dec attr 0 (q ++ t) = mkCp (numericFix v) :: dec attr 0 t

/-- the two bytes that must not be written literally for a reference (NUL: the reference denotes U+FFFD, the byte
    is dropped or replaced; CR: the byte is normalised to LF) are covered by the reverse map -/
def RevCovers (rev : RevMap) : Prop :=
  (rev.lookup (Char.ofNat 0)).isSome = true ∧ (rev.lookup (Char.ofNat 13)).isSome = true

/-! ## first stage: `refBody` against `matchRef` -/

theorem refBodyHex_spec (attr : Bool) (h r : List Char) (k : Nat)
    (hb : M.refBodyHex h = some (r, k)) (hsemi : M.headIs (fun c => c = ';') (h.drop (k - 2)) = true)
    (hov : ¬ (2 ^ 63 ≤ numVal 16 (h.takeWhile isHex))) :
    ∃ us, matchRef attr ('#' :: 'x' :: h) = some (us, k + 1) ∧ ReplOk r us ∧
      (('#' :: 'x' :: h).drop k).head? = some ';' := by
  unfold Verif.Model.HtmlAttr.refBodyHex at hb
  rw [isHexDigit_eq'] at hb
  simp only at hb
  have hds : ∀ c ∈ h.takeWhile isHex, isHex c = true := takeWhile_all isHex h
  rw [hexAcc_eq _ hds] at hb
  have hv : numVal 16 (h.takeWhile isHex) % 2 ^ 64 = numVal 16 (h.takeWhile isHex) := by
    apply Nat.mod_eq_of_lt; omega
  rw [hv] at hb
  generalize hvv : numVal 16 (h.takeWhile isHex) = v at *
  split at hb
  · simp at hb
  · next hcond =>
    simp only [Bool.or_eq_true, Bool.and_eq_true, decide_eq_true_eq, not_or, not_and] at hcond
    have hne : h.takeWhile isHex ≠ [] := by
      intro e; rw [e] at hcond; simp at hcond
    have hk : k = 2 + (h.takeWhile isHex).length := by
      split at hb <;> simp at hb <;> omega
    have hk2 : k - 2 = (h.takeWhile isHex).length := by omega
    rw [hk2] at hsemi
    obtain ⟨t, ht⟩ := headIs_semi hsemi
    have hsplit : h = h.takeWhile isHex ++ ';' :: t := by
      conv => lhs; rw [split_takeWhile isHex h, ht]
    have hm := matchRef_hex_semi attr (h.takeWhile isHex) t hne hds
    rw [← hsplit, hvv] at hm
    have hk3 : (h.takeWhile isHex).length + 3 = k + 1 := by omega
    rw [hk3] at hm
    have hdrop : (('#' :: 'x' :: h).drop k).head? = some ';' := by
      rw [hk]
      have : List.drop (2 + (h.takeWhile isHex).length) ('#' :: 'x' :: h) = h.drop (h.takeWhile isHex).length := by
        rw [Nat.add_comm]; rfl
      rw [this, ht]; rfl
    refine ⟨_, hm, ?_, hdrop⟩
    split at hb
    · next hlt =>
      simp only [Bool.or_eq_true, decide_eq_true_eq] at hlt
      have hlt' : v < 128 := by omega
      simp only [Option.some.injEq, Prod.mk.injEq] at hb
      have hmod : v % 256 = v := Nat.mod_eq_of_lt (by omega)
      rw [hmod] at hb
      left
      exact ⟨v, hlt', hb.1.symm, rfl⟩
    · next hge =>
      simp only [Bool.or_eq_true, decide_eq_true_eq, not_or, Nat.not_lt] at hge
      simp only [Option.some.injEq, Prod.mk.injEq] at hb
      right
      rw [← hb.1]
      refine ⟨by simp, rfl, ?_⟩
      intro attr' t'
      have nd := natDigits_ok v
      have := matchRef_dec_semi attr' (M.natDigits v) t' nd.1 nd.2.1
      rw [nd.2.2] at this
      have e : '#' :: (M.natDigits v ++ ';' :: t') = ('#' :: M.natDigits v ++ [';']) ++ t' := by simp
      have e2 : ('&' :: '#' :: M.natDigits v ++ [';']) ++ t' = '&' :: ('#' :: (M.natDigits v ++ ';' :: t')) := by simp
      rw [e2, dec_ref attr' _ _ _ this, e]
      have : (M.natDigits v).length + 2 = ('#' :: M.natDigits v ++ [';']).length := by simp
      rw [this, List.drop_left]

theorem refBodyHex_pre (h r : List Char) (k : Nat) (hb : M.refBodyHex h = some (r, k)) :
    h.takeWhile isHex ≠ [] ∧ k = 2 + (h.takeWhile isHex).length := by
  unfold Verif.Model.HtmlAttr.refBodyHex at hb
  rw [isHexDigit_eq'] at hb
  simp only at hb
  split at hb
  · simp at hb
  · next hcond =>
    simp only [Bool.or_eq_true, not_or] at hcond
    refine ⟨?_, ?_⟩
    · intro e; rw [e] at hcond; simp at hcond
    · split at hb <;> simp at hb <;> omega

theorem refBodyHex_spec' (attr : Bool) (h r : List Char) (k : Nat)
    (hb : M.refBodyHex h = some (r, k)) (hsemi : M.headIs (fun c => c = ';') (('#' :: 'x' :: h).drop k) = true)
    (hov : numRefWith (fun v => 2 ^ 63 ≤ v) true ('#' :: 'x' :: h) = false) :
    ∃ us, matchRef attr ('#' :: 'x' :: h) = some (us, k + 1) ∧ ReplOk r us ∧
      (('#' :: 'x' :: h).drop k).head? = some ';' := by
  obtain ⟨hne, hk⟩ := refBodyHex_pre h r k hb
  have hd : List.drop k ('#' :: 'x' :: h) = h.drop (k - 2) := by
    rw [hk, Nat.add_comm]; simp
  rw [hd] at hsemi
  have hk2 : k - 2 = (h.takeWhile isHex).length := by omega
  obtain ⟨t, ht⟩ := headIs_semi hsemi
  rw [hk2] at ht
  have hemp : (h.takeWhile isHex).isEmpty = false := by
    cases hh : h.takeWhile isHex with
    | nil => exact absurd hh hne
    | cons _ _ => rfl
  simp only [numRefWith, if_true, hemp, ht, semiLen_semi, decide_true, Bool.not_false, Bool.true_and,
    decide_eq_false_iff_not] at hov
  exact refBodyHex_spec attr h r k hb hsemi hov

theorem refBodyDec_spec (attr : Bool) (r0 r : List Char) (k : Nat)
    (hb : M.refBodyDec r0 = some (r, k)) (hsemi : M.headIs (fun c => c = ';') (('#' :: r0).drop k) = true)
    (hx : r0.head? ≠ some 'x') :
    ∃ us, matchRef attr ('#' :: r0) = some (us, k + 1) ∧ ReplOk r us ∧
      (('#' :: r0).drop k).head? = some ';' := by
  unfold Verif.Model.HtmlAttr.refBodyDec at hb
  cases hda : M.decAcc 0 r0 0 with
  | mk c n =>
    rw [hda] at hb
    simp only at hb
    split at hb
    · simp at hb
    · next hcond =>
      simp only [Bool.or_eq_true, decide_eq_true_eq, not_or, Nat.not_le] at hcond
      simp only [Option.some.injEq, Prod.mk.injEq] at hb
      have hs := decAcc_spec r0 0 0 c n hda hcond.2
      have hn : n = (r0.takeWhile isDigit).length := by omega
      have hk : k = 1 + (r0.takeWhile isDigit).length := by omega
      have hd : List.drop k ('#' :: r0) = r0.drop (r0.takeWhile isDigit).length := by
        rw [hk, Nat.add_comm]; simp
      rw [hd] at hsemi
      obtain ⟨t, ht⟩ := headIs_semi hsemi
      have hne : r0.takeWhile isDigit ≠ [] := by
        intro e; rw [e] at hn; simp at hn; omega
      have hemp : (r0.takeWhile isDigit).isEmpty = false := by
        cases hh : r0.takeWhile isDigit with
        | nil => exact absurd hh hne
        | cons _ _ => rfl
      have hv : c = numVal 10 (r0.takeWhile isDigit) := hs.2
      have hsplit : r0 = r0.takeWhile isDigit ++ ';' :: t := by
        conv => lhs; rw [split_takeWhile isDigit r0, ht]
      have hm := matchRef_dec_semi attr (r0.takeWhile isDigit) t hne (takeWhile_all isDigit r0)
      rw [← hsplit, ← hv] at hm
      refine ⟨[mkCp (numericFix c)], ?_, ?_, ?_⟩
      · rw [hm]; congr 2; omega
      · left; exact ⟨c, hcond.2, hb.1.symm, rfl⟩
      · rw [hd, ht]; rfl

theorem refBodyNamed_spec (em : EntMap) (hem : EmOk em) (attr : Bool) (s r : List Char) (k : Nat)
    (hb : M.refBodyNamed em s = some (r, k)) (hsemi : M.headIs (fun c => c = ';') (s.drop k) = true) :
    ∃ us, matchRef attr s = some (us, k + 1) ∧ ReplOk r us ∧ (s.drop k).head? = some ';' := by
  unfold Verif.Model.HtmlAttr.refBodyNamed at hb
  rw [isAlnum_eq'] at hb
  simp only at hb
  split at hb
  · simp at hb
  · cases hl : em.lookup (s.takeWhile isAlnum) with
    | none => simp [hl] at hb
    | some r' =>
      simp only [hl, Option.some.injEq, Prod.mk.injEq] at hb
      obtain ⟨hr, hk⟩ := hb
      subst hr
      rw [← hk] at hsemi ⊢
      obtain ⟨t, ht⟩ := headIs_semi hsemi
      have hsplit : s = s.takeWhile isAlnum ++ ';' :: t := by
        conv => lhs; rw [split_takeWhile isAlnum s, ht]
      obtain ⟨cps, hcps, hok⟩ := hem _ _ hl (takeWhile_all isAlnum s)
      have hm := matchRef_named_semi attr (s.takeWhile isAlnum) t cps (takeWhile_all isAlnum s) hcps
      rw [← hsplit] at hm
      exact ⟨_, hm, hok, by rw [ht]; rfl⟩

theorem refBody_spec (em : EntMap) (hem : EmOk em) (attr : Bool) (s r : List Char) (k : Nat)
    (hb : M.refBody em s = some (r, k)) (hsemi : M.headIs (fun c => c = ';') (s.drop k) = true)
    (hov : numRefWith (fun v => 2 ^ 63 ≤ v) true s = false) :
    ∃ us, matchRef attr s = some (us, k + 1) ∧ ReplOk r us ∧ (s.drop k).head? = some ';' := by
  unfold Verif.Model.HtmlAttr.refBody at hb
  cases s with
  | nil => simp at hb
  | cons c r0 =>
    simp only at hb
    by_cases hc : c = '#'
    · subst hc
      simp only [if_true] at hb
      cases r0 with
      | nil => simp at hb
      | cons x h =>
        simp only at hb
        by_cases hx : x = 'x'
        · subst hx
          simp only [if_true] at hb
          exact refBodyHex_spec' attr h r k hb hsemi hov
        · simp only [hx, if_false] at hb
          exact refBodyDec_spec attr (x :: h) r k hb hsemi (by simpa using hx)
    · simp only [hc, if_false] at hb
      exact refBodyNamed_spec em hem attr (c :: r0) r k hb hsemi

/-! ## second stage: `replAt` -/

theorem replAt_spec (em : EntMap) (rev : RevMap) (hem : EmOk em) (hrev : RevOk rev) (hcov : RevCovers rev)
    (attr : Bool) (s r : List Char) (k : Nat) (h : M.replAt em rev s = some (r, k))
    (hov : numRefWith (fun v => 2 ^ 63 ≤ v) true s = false) :
    ∃ us, matchRef attr s = some (us, k) ∧ (s.drop (k - 1)).head? = some ';' ∧ 1 ≤ k ∧
      ((∃ ch, r = [ch] ∧ us = [.lit ch] ∧
          (ch = '&' → M.headIs (fun d => M.isAlnum d || d = '#') (s.drop k) = false)) ∨
       (r.head? = some '&' ∧ ∀ t, dec attr 0 (r ++ t) = us ++ dec attr 0 t)) := by
  unfold Verif.Model.HtmlAttr.replAt at h
  cases hb : M.refBody em s with
  | none => simp [hb] at h
  | some rk =>
    obtain ⟨r0, k0⟩ := rk
    simp only [hb] at h
    split at h
    · next hsemi =>
      obtain ⟨us, hm, hok, hd⟩ := refBody_spec em hem attr s r0 k0 hb hsemi hov
      split at h
      · next c =>
        -- single byte `c = Char.ofNat v`, the reference denotes `mkCp (numericFix v)`
        obtain ⟨v, hv, hcv, hus⟩ : ∃ v, v < 128 ∧ c = Char.ofNat v ∧ us = [mkCp (numericFix v)] := by
          rcases hok with ⟨v, hv, hch, hu⟩ | ⟨hl, _⟩
          · simp at hch; exact ⟨v, hv, hch, hu⟩
          · simp at hl
        split at h
        · next q hq =>
          split at h
          · simp at h
          · simp only [Option.some.injEq, Prod.mk.injEq] at h
            obtain ⟨hr, hk⟩ := h
            subst hr; subst hk
            have := hrev v q hv (hcv ▸ hq)
            refine ⟨us, hm, by simpa using hd, by omega, Or.inr ⟨this.1, ?_⟩⟩
            intro t; rw [hus]; exact this.2 attr t
        · next hnone =>
          -- no reverse entry: the byte is neither NUL nor CR, the reference denotes the byte itself
          have hv0 : v ≠ 0 := by
            intro e; subst e; rw [hcv] at hnone
            have := hcov.1; rw [hnone] at this; simp at this
          have hv13 : v ≠ 13 := by
            intro e; subst e; rw [hcv] at hnone
            have := hcov.2; rw [hnone] at this; simp at this
          have hus' : us = [.lit c] := by rw [hus, mkCp_small hv hv0 hv13, hcv]
          split at h
          · simp at h
          · next hamp =>
            simp only [Option.some.injEq, Prod.mk.injEq] at h
            obtain ⟨hr, hk⟩ := h
            subst hr; subst hk
            refine ⟨us, hm, by simpa using hd, by omega, Or.inl ⟨c, rfl, hus', ?_⟩⟩
            intro hc
            simp only [hc, decide_true, Bool.true_and, Bool.not_eq_true] at hamp
            exact hamp
      · next hne =>
        simp only [Option.some.injEq, Prod.mk.injEq] at h
        obtain ⟨hr, hk⟩ := h
        subst hr; subst hk
        refine ⟨us, hm, by simpa using hd, by omega, ?_⟩
        rcases hok with ⟨v, _, hch, _⟩ | ⟨_, hh, hdec⟩
        · exact absurd hch (hne _)
        · exact Or.inr ⟨hh, hdec attr⟩
    · simp at h

/-! ## scanning lemmas for the model and the guards -/

theorem replEnt_drop (em : EntMap) (rev : RevMap) : ∀ (k : Nat) (s : List Char),
    M.replEnt em rev k s = M.replEnt em rev 0 (s.drop k) := by
  intro k
  induction k with
  | zero => intro s; simp
  | succ k ih =>
    intro s
    cases s with
    | nil => simp [Verif.Model.HtmlAttr.replEnt]
    | cons c s => simp only [Verif.Model.HtmlAttr.replEnt, List.drop_succ_cons]; exact ih s

theorem replEnt_prefix (em : EntMap) (rev : RevMap) (a u : List Char) (ha : ∀ c ∈ a, c ≠ '&') :
    M.replEnt em rev 0 (a ++ u) = a ++ M.replEnt em rev 0 u := by
  induction a with
  | nil => rfl
  | cons c a ih =>
    have hc : c ≠ '&' := ha c (by simp)
    simp only [List.cons_append, Verif.Model.HtmlAttr.replEnt, hc, decide_false, Bool.false_and,
      Bool.false_eq_true, if_false]
    rw [ih (fun x hx => ha x (by simp [hx]))]

theorem isRefCh_ne_amp {c : Char} (h : isRefCh c = true) : c ≠ '&' := by
  intro e; subst e; revert h; decide

theorem glueFrom_prefix (a u : List Char) (ha : ∀ c ∈ a, isRefCh c = true) :
    glueFrom true (a ++ u) = glueFrom true u := by
  induction a with
  | nil => rfl
  | cons c a ih =>
    have hc := ha c (by simp)
    simp only [List.cons_append, glueFrom, isRefCh_ne_amp hc, if_false, hc, Bool.and_self]
    exact ih (fun x hx => ha x (by simp [hx]))

theorem glueFrom_mono (s : List Char) : ∀ o, glueFrom true s = false → glueFrom o s = false := by
  induction s with
  | nil => intro o _; rfl
  | cons c s ih =>
    intro o h
    cases o with
    | true => exact h
    | false =>
      simp only [glueFrom] at h ⊢
      split
      · next hc =>
        simp only [hc, if_true, Bool.true_and, Bool.or_eq_false_iff] at h
        simp [h.2]
      · next hc =>
        simp only [hc, if_false, Bool.true_and] at h
        simp only [Bool.false_and]
        cases hr : isRefCh c with
        | true => rw [hr] at h; exact ih false h
        | false => rw [hr] at h; exact h

theorem glueFrom_drop (s : List Char) : ∀ o k, glueFrom o s = false → glueFrom false (s.drop k) = false := by
  induction s with
  | nil => intro o k _; simp [glueFrom]
  | cons c s ih =>
    intro o k h
    cases k with
    | zero =>
      cases o with
      | false => exact h
      | true => exact glueFrom_mono _ false h
    | succ k =>
      simp only [List.drop_succ_cons]
      simp only [glueFrom] at h
      split at h
      · simp only [Bool.or_eq_false_iff] at h
        exact ih true k h.2
      · exact ih _ k h

theorem anyAfterAmp_drop (p : List Char → Bool) (s : List Char) : ∀ k,
    anyAfterAmp p s = false → anyAfterAmp p (s.drop k) = false := by
  induction s with
  | nil => intro k _; simp [anyAfterAmp]
  | cons c s ih =>
    intro k h
    cases k with
    | zero => exact h
    | succ k =>
      simp only [anyAfterAmp, Bool.or_eq_false_iff] at h
      exact ih k h.2

theorem anyAfterAmp_cons (p : List Char → Bool) (s : List Char)
    (h : anyAfterAmp p ('&' :: s) = false) : p s = false ∧ anyAfterAmp p s = false := by
  simpa [anyAfterAmp] using h

/-! ## `&` that is not the start of a reference -/

theorem lookupName_semi : lookupName [';'] = none := by decide +kernel

theorem matchRef_nil (attr : Bool) : matchRef attr [] = none := by
  simp [matchRef, matchNamed, semiLen, longestFrom]

theorem matchRef_none_of_head (attr : Bool) (d : Char) (x : List Char)
    (h1 : isAlnum d = false) (h2 : d ≠ '#') : matchRef attr (d :: x) = none := by
  have hh : (d :: x).head? ≠ some '#' := by simp [h2]
  simp only [matchRef, hh, if_false]
  unfold matchNamed
  simp only [List.takeWhile, h1, List.length_nil, List.drop_zero, List.nil_append, lookupName_semi,
    Option.map_none, ite_self, Nat.zero_min, longestFrom]

/-! ## the main induction -/

abbrev ctlP : List Char → Bool := numRefWith (fun v => v = 0 || v = 13) false
abbrev ovP : List Char → Bool := numRefWith (fun v => 2 ^ 63 ≤ v) true

theorem head_append_of_head {r x : List Char} {c : Char} (h : r.head? = some c) : (r ++ x).head? = some c := by
  cases r with
  | nil => simp at h
  | cons a r => simpa using h

/-- what `replEnt` writes for a text that starts with a non-reference character starts with one, too
    (unless the `glue` guard fires) -/
theorem nonRef_replEnt (em : EntMap) (rev : RevMap) (hem : EmOk em) (hrev : RevOk rev) (hcov : RevCovers rev)
    (u : List Char)
    (hu : NonRef u) (hg : glueFrom true u = false)
    (hov : anyAfterAmp ovP u = false) :
    NonRef (M.replEnt em rev 0 u) := by
  cases u with
  | nil => intro d hd; simp [Verif.Model.HtmlAttr.replEnt] at hd
  | cons d u' =>
    have hd : isRefCh d = false := hu d rfl
    by_cases hda : d = '&'
    · subst hda
      have ho := anyAfterAmp_cons _ _ hov
      simp only [Verif.Model.HtmlAttr.replEnt, decide_true, Bool.true_and]
      split
      · split
        · next r k hr =>
          obtain ⟨us, hm, hsemi, hk, hcase⟩ := replAt_spec em rev hem hrev hcov false u' r k hr ho.1
          have hg' : refToRefCh u' = false := by
            simp only [glueFrom, if_true, Bool.true_and, Bool.or_eq_false_iff] at hg
            exact hg.1
          rcases hcase with ⟨ch, hr', hus, _⟩ | ⟨hh, _⟩
          · subst hr' hus
            simp only [refToRefCh, hm, hsemi, decide_true, Bool.and_true] at hg'
            intro x hx; simp at hx; subst hx; exact hg'
          · intro x hx
            rw [head_append_of_head hh] at hx
            simp at hx; subst hx; decide
        · intro x hx; simp at hx; subst hx; decide
      · intro x hx; simp at hx; subst hx; decide
    · simp only [Verif.Model.HtmlAttr.replEnt, hda, decide_false, Bool.false_and, Bool.false_eq_true, if_false]
      intro x hx; simp at hx; subst hx; exact hd

theorem nonRef_dropWhile (t : List Char) : NonRef (t.dropWhile isRefCh) := by
  intro d hd
  cases h : t.dropWhile isRefCh with
  | nil => rw [h] at hd; simp at hd
  | cons c r =>
    rw [h] at hd; simp at hd; subst hd
    exact dropWhile_head isRefCh t c r h

theorem replEnt_preserve (em : EntMap) (rev : RevMap) (hem : EmOk em) (hrev : RevOk rev) (hcov : RevCovers rev)
    (attr : Bool) :
    ∀ n (s : List Char), s.length ≤ n → glueFrom false s = false →
      anyAfterAmp ovP s = false →
      dec attr 0 (M.replEnt em rev 0 s) = dec attr 0 s := by
  intro n
  induction n with
  | zero =>
    intro s hs _ _
    have : s = [] := List.eq_nil_of_length_eq_zero (by omega)
    subst this; rfl
  | succ n ih =>
    intro s hs hg hov
    cases s with
    | nil => rfl
    | cons c t =>
      have hlen : t.length ≤ n := by simpa using hs
      by_cases hca : c = '&'
      · subst hca
        have ho := anyAfterAmp_cons _ _ hov
        have hg1 : glueFrom true t = false := by
          simpa [glueFrom] using hg
        -- the text after `&`: reference characters `a`, then `u`
        have hsplit : t = t.takeWhile isRefCh ++ t.dropWhile isRefCh := (List.takeWhile_append_dropWhile).symm
        have ha : ∀ x ∈ t.takeWhile isRefCh, isRefCh x = true := takeWhile_all isRefCh t
        have hu : NonRef (t.dropWhile isRefCh) := nonRef_dropWhile t
        have hgu : glueFrom true (t.dropWhile isRefCh) = false := by
          rw [hsplit, glueFrom_prefix _ _ ha] at hg1; exact hg1
        have hdw : t.dropWhile isRefCh = t.drop (t.takeWhile isRefCh).length := (drop_takeWhile_length _ _).symm
        have hR : NonRef (M.replEnt em rev 0 (t.dropWhile isRefCh)) :=
          nonRef_replEnt em rev hem hrev hcov _ hu hgu (by rw [hdw]; exact anyAfterAmp_drop _ _ _ ho.2)
        have hrepl : M.replEnt em rev 0 t = t.takeWhile isRefCh ++ M.replEnt em rev 0 (t.dropWhile isRefCh) := by
          conv => lhs; rw [hsplit]
          exact replEnt_prefix em rev _ _ (fun x hx => isRefCh_ne_amp (ha x hx))
        -- the specification sees the same reference (or none) in `t` and in what the model writes for `t`
        have hmr : matchRef attr (M.replEnt em rev 0 t) = matchRef attr t := by
          rw [hrepl, matchRef_append attr _ _ hR]
          conv => rhs; rw [hsplit, matchRef_append attr _ _ hu]
        -- dropping k ≤ |a| characters commutes with the model
        have hdropk : ∀ k, k ≤ (t.takeWhile isRefCh).length →
            (M.replEnt em rev 0 t).drop k = M.replEnt em rev 0 (t.drop k) := by
          intro k hk
          rw [hrepl, drop_append_le _ _ _ hk]
          have : t.drop k = (t.takeWhile isRefCh).drop k ++ t.dropWhile isRefCh := by
            conv => lhs; rw [hsplit]
            exact drop_append_le _ _ _ hk
          rw [this, replEnt_prefix em rev _ _
            (fun x hx => isRefCh_ne_amp (ha x (List.mem_of_mem_drop hx)))]
        have hkle : ∀ us k, matchRef attr t = some (us, k) → k ≤ (t.takeWhile isRefCh).length := by
          intro us k hm
          rw [hsplit, matchRef_append attr _ _ hu] at hm
          exact matchRef_le attr _ us k hm
        have ihdrop : ∀ k, dec attr 0 (M.replEnt em rev 0 (t.drop k)) = dec attr 0 (t.drop k) := by
          intro k
          apply ih
          · simp; omega
          · exact glueFrom_drop t true k hg1
          · exact anyAfterAmp_drop _ _ _ ho.2
        -- the `&` is kept
        have hkeep : dec attr 0 ('&' :: M.replEnt em rev 0 t) = dec attr 0 ('&' :: t) := by
          cases hm : matchRef attr t with
          | none =>
            rw [dec_noref attr _ (by rw [hmr, hm]), dec_noref attr _ hm]
            have := ihdrop 0; simp only [List.drop_zero] at this; rw [this]
          | some usk =>
            obtain ⟨us, k⟩ := usk
            rw [dec_ref attr _ us k (by rw [hmr, hm]), dec_ref attr _ us k hm,
              hdropk k (hkle us k hm), ihdrop k]
        simp only [Verif.Model.HtmlAttr.replEnt, decide_true, Bool.true_and]
        split
        · split
          · next r k hr =>
            -- the reference is replaced by `r`
            obtain ⟨us, hm, hsemi, hk, hcase⟩ := replAt_spec em rev hem hrev hcov attr t r k hr ho.1
            rw [dec_ref attr _ us k hm, replEnt_drop]
            rcases hcase with ⟨ch, hr', hus, hamp⟩ | ⟨hh, hdec⟩
            · subst hr' hus
              by_cases hch : ch = '&'
              · subst hch
                -- `&amp;` → `&`: what follows must not make it a reference
                have hnone : matchRef attr (M.replEnt em rev 0 (t.drop k)) = none := by
                  have hkl := hkle _ k hm
                  have hd : t.drop k = (t.takeWhile isRefCh).drop k ++ t.dropWhile isRefCh := by
                    conv => lhs; rw [hsplit]
                    exact drop_append_le _ _ _ hkl
                  have hamp' := hamp rfl
                  cases hdk : t.drop k with
                  | nil => simp [Verif.Model.HtmlAttr.replEnt, matchRef_nil]
                  | cons d u' =>
                    rw [hdk] at hamp'
                    simp only [Verif.Model.HtmlAttr.headIs, Bool.or_eq_false_iff, decide_eq_false_iff_not,
                      isAlnum_eq] at hamp'
                    by_cases hda : d = '&'
                    · subst hda
                      -- then `a` is exhausted and `u` starts with this `&`
                      have hempty : (t.takeWhile isRefCh).drop k = [] := by
                        cases hx : (t.takeWhile isRefCh).drop k with
                        | nil => rfl
                        | cons y ys =>
                          rw [hx, hdk] at hd
                          simp at hd
                          have : isRefCh y = true := ha y (List.mem_of_mem_drop (by rw [hx]; simp))
                          rw [← hd.1] at this
                          exact absurd this (by decide)
                      rw [hempty, hdk] at hd
                      simp only [List.nil_append] at hd
                      rw [hd]
                      have hnr := hR
                      cases hre : M.replEnt em rev 0 (t.dropWhile isRefCh) with
                      | nil => exact matchRef_nil attr
                      | cons y ys =>
                        rw [hre] at hnr
                        have hy := isRefCh_false (hnr y rfl)
                        exact matchRef_none_of_head attr y ys hy.1 hy.2.1
                    · simp only [Verif.Model.HtmlAttr.replEnt, hda, decide_false, Bool.false_and,
                        Bool.false_eq_true, if_false]
                      exact matchRef_none_of_head attr d _ hamp'.1 hamp'.2
                rw [List.singleton_append, dec_noref attr _ hnone, ihdrop k]
                rfl
              · rw [List.singleton_append, dec_lit attr ch _ hch, ihdrop k]
                rfl
            · rw [hdec, ihdrop k]
          · exact hkeep
        · exact hkeep
      · -- an ordinary byte
        have hg' : glueFrom false t = false := by
          simp only [glueFrom, hca, if_false, Bool.false_and] at hg; exact hg
        have ho' : anyAfterAmp ovP t = false := by
          simp only [anyAfterAmp, hca, decide_false, Bool.false_and, Bool.false_or] at hov; exact hov
        simp only [Verif.Model.HtmlAttr.replEnt, hca, decide_false, Bool.false_and, Bool.false_eq_true, if_false]
        rw [dec_lit attr c _ hca, dec_lit attr c _ hca, ih t hlen hg' ho']

end Verif.Proofs.HtmlRefs

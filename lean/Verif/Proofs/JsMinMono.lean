import Verif.Model.JsPrint
set_option linter.unusedSimpArgs false
set_option linter.unnecessarySimpa false
/-!
# C01 — the traversal is monotone in the node rewriter: a rewriter that is defined on fewer inputs (the guarded one)
gives the same result wherever it is defined
-/
namespace Verif.Proofs.JsMinMono
open Verif.Spec.JsSyntax Verif.Model.JsAst Verif.Model.JsOpt Verif.Model.JsPrint
open Verif.Spec.JsSyntax.E

/-- `g` extends `f` -/
def Le (f g : E → Prec → Option E) : Prop := ∀ e p t, f e p = some t → g e p = some t

theorem mapO_mono {f g : E → Option E} (hfg : ∀ a t, f a = some t → g a = some t) (l l' : List E)
    (h : mapO f l = some l') : mapO g l = some l' := by
  induction l generalizing l' with
  | nil => simpa [mapO] using h
  | cons a t ih =>
    simp only [mapO] at h ⊢
    cases ha : f a with
    | none => simp [ha] at h
    | some a' =>
      cases ht : mapO f t with
      | none => simp [ha, ht] at h
      | some t' =>
        simp [ha, ht] at h
        subst h
        simp [hfg a a' ha, ih t' ht]

theorem binCore_mono {r1 r2 : E → Prec → Option E} (hle : Le r1 r2) (op : BOp) (y x1 t : E)
    (h : binCore r1 op y x1 = some t) : binCore r2 op y x1 = some t := by
  unfold binCore at h ⊢
  split
  · rename_i hio
    rw [if_pos hio] at h
    cases hx : r1 x1 op.left with
    | none => simp [hx] at h
    | some x' =>
      cases hy : r1 y op.right with
      | none => simp [hx, hy] at h
      | some y' =>
        simp [hx, hy] at h
        simp [hle _ _ _ hx, hle _ _ _ hy, h]
  · rename_i hio
    rw [if_neg hio] at h
    generalize binPrep op y x1 = q at h ⊢
    cases hx : r1 q.2.1 op.left with
    | none => simp [hx] at h
    | some x' =>
      cases hy : r1 q.2.2 q.1.right with
      | none => simp [hx, hy] at h
      | some y' =>
        simp [hx, hy] at h
        simp [hle _ _ _ hx, hle _ _ _ hy, h]

theorem map_mono {o1 o2 : Option E} {f : E → E} {t : E} (h : o1.map f = some t) (hle : ∀ x, o1 = some x → o2 = some x) :
    o2.map f = some t := by
  cases o1 with
  | none => simp at h
  | some x => rw [hle x rfl]; exact h

/-- the member / index / call cases are monotone in the recursive call -/
theorem descLink_mono {r1 r2 : E → Prec → Option E} (hr : Le r1 r2) (e : E) (p : Prec) (t : E)
    (h : descLink r1 e p = some t) : descLink r2 e p = some t := by
  have hmap : ∀ l l', mapO (fun a => r1 a opAssign) l = some l' → mapO (fun a => r2 a opAssign) l = some l' :=
    fun l l' hl => mapO_mono (fun a t ha => hr _ _ _ ha) l l' hl
  cases e with
  | dot x name =>
    simp only [descLink] at h ⊢
    cases hd : dotNumObj x with
    | some n => simpa [hd] using h
    | none =>
      simp only [hd] at h ⊢
      exact map_mono h (fun x' hx' => hr _ _ _ hx')
  | index x y =>
    simp only [descLink] at h ⊢
    cases hx : r1 x (if p < opMember then opCall else opMember) with
    | none => simp [hx] at h
    | some x' =>
      simp only [hx] at h
      rw [hr _ _ _ hx]
      simp only
      cases hs : strLit? y with
      | some s0 =>
        simp only [hs] at h ⊢
        split
        · rename_i hc; rw [if_pos hc] at h; exact h
        · rename_i hc
          rw [if_neg hc] at h
          exact map_mono h (fun y' hy' => hr _ _ _ hy')
      | none =>
        simp only [hs] at h ⊢
        exact map_mono h (fun y' hy' => hr _ _ _ hy')
  | call f args =>
    simp only [descLink] at h ⊢
    cases hf : r1 f opCall with
    | none => simp [hf] at h
    | some f' =>
      cases ha : mapO (fun a => r1 a opAssign) args with
      | none => simp [hf, ha] at h
      | some args' =>
        simp [hf, ha] at h
        simp [hr _ _ _ hf, hmap _ _ ha, h]
  | _ => simp [descLink] at h

/-- `descend` is monotone in the rewriter and in the recursive call -/
theorem descend_mono {w1 w2 r1 r2 : E → Prec → Option E} (hw : Le w1 w2) (hr : Le r1 r2) (e : E) (p : Prec) (t : E)
    (h : descend w1 r1 e p = some t) : descend w2 r2 e p = some t := by
  have hmap : ∀ l l', mapO (fun a => r1 a opAssign) l = some l' → mapO (fun a => r2 a opAssign) l = some l' :=
    fun l l' hl => mapO_mono (fun a t ha => hr _ _ _ ha) l l' hl
  cases e with
  | var n => simpa [descend] using h
  | lit l => cases l <;> simpa [descend] using h
  | bin op x y =>
    simp only [descend] at h ⊢
    split
    · rename_i hm; rw [if_pos hm] at h; exact h
    · rename_i hm
      rw [if_neg hm] at h
      split
      · rename_i hg; rw [if_pos hg] at h; exact h
      · rename_i hg
        rw [if_neg hg] at h
        by_cases hlt : ((op == .lt || op == .shl) && startsNotLit y) = true
        · rw [if_pos hlt] at h; cases h
        rw [if_neg hlt] at h ⊢
        cases hh : hoistList op x p with
        | none =>
          simp only [hh] at h ⊢
          exact binCore_mono hr op y x t h
        | some l =>
          simp only [hh] at h ⊢
          cases hi : mapO (fun a => r1 a opAssign) l.dropLast with
          | none => simp [hi] at h
          | some init' =>
            cases hb : binCore r1 op y (lastD l x) with
            | none => simp [hi, hb] at h
            | some b' =>
              simp [hi, hb] at h
              simp [hmap _ _ hi, binCore_mono hr op y _ b' hb, h]
  | unary op x =>
    simp only [descend] at h ⊢
    split
    · rename_i hg; rw [if_pos hg] at h; exact h
    · rename_i hg
      rw [if_neg hg] at h
      split
      · rename_i h1
        rw [if_pos h1] at h
        exact map_mono h (fun x' hx' => hr _ _ _ hx')
      · rename_i h1
        rw [if_neg h1] at h
        split
        · rename_i h2; rw [if_pos h2] at h; exact h
        · rename_i h2
          rw [if_neg h2] at h
          generalize (if op == .not then notLit x else none) = q at h ⊢
          cases q with
          | some r => exact h
          | none => exact map_mono h (fun x' hx' => hr _ _ _ hx')
  | dot x name => simp only [descend] at h ⊢; exact descLink_mono hr _ p t h
  | index x y => simp only [descend] at h ⊢; exact descLink_mono hr _ p t h
  | group x =>
    simp only [descend] at h ⊢
    have hgi : ∀ x1, groupInner w1 x = some x1 → groupInner w2 x = some x1 := by
      intro x1 hx1
      unfold groupInner at hx1 ⊢
      cases x with
      | cond c a b => exact hw _ _ _ hx1
      | _ => exact hx1
    cases hx : groupInner w1 x with
    | none => simp [hx] at h
    | some x1 =>
      simp only [hx] at h
      rw [hgi x1 hx]
      simp only
      split
      · rename_i hq; rw [if_pos hq] at h; cases h
      · rename_i hq
        rw [if_neg hq] at h
        split
        · rename_i hp; rw [if_pos hp] at h; exact hr _ _ _ h
        · rename_i hp
          rw [if_neg hp] at h
          exact map_mono h (fun t' ht' => hr _ _ _ ht')
  | call f args => simp only [descend] at h ⊢; exact descLink_mono hr _ p t h
  | opt a e =>
    simp only [descend] at h ⊢
    split
    · rename_i hc; rw [if_pos hc] at h; cases h
    · rename_i hc
      rw [if_neg hc] at h
      split
      · rename_i hc2; rw [if_pos hc2] at h; cases h
      · rename_i hc2
        rw [if_neg hc2] at h
        split
        · rename_i hc3
          rw [if_pos hc3] at h
          exact map_mono h (fun t' ht' => descLink_mono hr _ p t' ht')
        · rename_i hc3; rw [if_neg hc3] at h; cases h
  | cond c x y =>
    simp only [descend] at h ⊢
    cases hc : r1 c opCoalesce with
    | none => simp [hc] at h
    | some c' =>
      cases hx : r1 x opAssign with
      | none => simp [hc, hx] at h
      | some x' =>
        cases hy : r1 y opAssign with
        | none => simp [hc, hx, hy] at h
        | some y' =>
          simp [hc, hx, hy] at h
          simp [hr _ _ _ hc, hr _ _ _ hx, hr _ _ _ hy, h]
  | comma l =>
    simp only [descend] at h ⊢
    cases hl : mapO (fun a => r1 a opAssign) l with
    | none => simp [hl] at h
    | some l' =>
      simp [hl] at h
      simp [hmap _ _ hl, h]

theorem minGen_mono {w1 w2 : E → Prec → Option E} (hw : Le w1 w2) : ∀ fuel, Le (minGen w1 fuel) (minGen w2 fuel) := by
  intro fuel
  induction fuel with
  | zero => intro e p t h; simp [minGen] at h
  | succ n ih =>
    intro e p t h
    simp only [minGen] at h ⊢
    cases hr : w1 e p with
    | none => simp [hr] at h
    | some e1 =>
      simp only [hr] at h
      rw [hw _ _ _ hr]
      exact descend_mono hw ih e1 p t h

end Verif.Proofs.JsMinMono

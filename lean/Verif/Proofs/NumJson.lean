import Verif.Model.Json
import Verif.Proofs.NumNumRound
set_option linter.unusedSimpArgs false
/-!
# C08 → C07 bridge: `number` satisfies the hypotheses that the JSON minifier model makes about `minify.Number`

`Verif.Model.Json.NumGrammar`, `NumDotShrinks` (every precision) and `NumValue` (precision ≤ 0), stated with the
JSON side's own recognisers (`isJsonNumber`, `isMinNumber`) and value function (`Verif.Spec.Json.numVal`).
-/
namespace Verif.Proofs.Num
open Verif.Model.Num
open Verif.Spec.Json (isJsonNumber unsignedOk stripMinus intOk fracExpOk hasDot fracDigits afterFrac expOk isE
  digitsNE expBody expNeg digitsVal pow10 unsignedVal stripSign isNeg expVal)
open Verif.Model.Json (isMinNumber unsignedMinOk startsDot hasExp NumGrammar NumDotShrinks NumValue)

theorem json_isDigit_eq : Verif.Spec.Json.isDigit = Char.isDigit := by
  funext c
  simp [Verif.Spec.Json.isDigit, Char.isDigit, Char.le_def]

/-- the pieces of a generated lexeme as the JSON-side scanners see them -/
theorem json_scan (l : Lex) (hwf : l.WF) :
    (l.ip ++ (l.dotPart ++ l.exPart)).takeWhile Verif.Spec.Json.isDigit = l.ip ∧
    (l.ip ++ (l.dotPart ++ l.exPart)).dropWhile Verif.Spec.Json.isDigit = l.dotPart ++ l.exPart ∧
    hasDot (l.dotPart ++ l.exPart) = l.dot ∧
    fracDigits (l.dotPart ++ l.exPart) = l.fp ∧
    afterFrac (l.dotPart ++ l.exPart) = l.exPart := by
  rw [json_isDigit_eq]
  have hexd : ∀ c t, l.exPart = c :: t → Char.isDigit c = false := by
    intro c t e; rcases exPart_head l hwf c t e with rfl | rfl <;> decide
  have hexdot : ∀ t, l.exPart ≠ '.' :: t := by
    intro t e; rcases exPart_head l hwf '.' t e with h | h <;> cases h
  have htail : ∀ c t, l.dotPart ++ l.exPart = c :: t → Char.isDigit c = false := by
    intro c t e
    unfold Lex.dotPart at e
    split at e
    · injection e with e1 _; rw [← e1]; decide
    · exact hexd c t (by simpa using e)
  refine ⟨takeWhile_append_stop hwf.ip htail, dropWhile_append_stop hwf.ip htail, ?_⟩
  cases hd : l.dot with
  | true =>
    have e1 : l.dotPart ++ l.exPart = '.' :: (l.fp ++ l.exPart) := by simp [Lex.dotPart, hd]
    rw [e1]
    simp only [hasDot, fracDigits, afterFrac, json_isDigit_eq]
    exact ⟨trivial, takeWhile_append_stop hwf.fp hexd, dropWhile_append_stop hwf.fp hexd⟩
  | false =>
    have e1 : l.dotPart ++ l.exPart = l.exPart := by simp [Lex.dotPart, hd]
    rw [e1]
    have hfp := hwf.nodot hd
    cases hx : l.exPart with
    | nil => simp [hasDot, fracDigits, afterFrac, hfp]
    | cons c t =>
      have hc : c ≠ '.' := by intro h; rw [h] at hx; exact hexdot t hx
      refine ⟨?_, ?_, ?_⟩
      · unfold hasDot; split
        · rename_i t' e; injection e with e1 _; exact absurd e1 hc
        · rfl
      · unfold fracDigits; split
        · rename_i t' e; injection e with e1 _; exact absurd e1 hc
        · exact hfp.symm
      · unfold afterFrac; split
        · rename_i t' e; injection e with e1 _; exact absurd e1 hc
        · rfl


theorem digitsVal_eq (l : List Char) : digitsVal l = natOf l := by
  unfold digitsVal natOf Nat.ofDigitChars
  suffices h : ∀ a, List.foldl (fun a c => a * 10 + (c.toNat - 48)) a l =
      List.foldl (fun sofar c => 10 * sofar + (c.toNat - '0'.toNat)) a l from h 0
  induction l with
  | nil => intro a; rfl
  | cons c t ih =>
    intro a
    simp only [List.foldl_cons]
    rw [ih]
    congr 1
    have : '0'.toNat = 48 := by decide
    rw [this]; omega

theorem pow10_eq (e : Int) : pow10 e = (10 : Rat) ^ e := by
  unfold pow10
  split
  · rename_i h
    have : e = ((e.toNat : Nat) : Int) := by omega
    conv => rhs; rw [this, Rat.zpow_natCast]
    simp [Rat.natCast_pow]
  · rename_i h
    have : e = -(((-e).toNat : Nat) : Int) := by omega
    conv => rhs; rw [this, Rat.zpow_neg, Rat.zpow_natCast]
    simp [Rat.natCast_pow, Rat.div_def]

/-- the exponent part as the JSON-side scanners see it -/
theorem json_exp (l : Lex) (hwf : l.WF) : expOk l.exPart = true ∧ expVal l.exPart = some l.expVal := by
  unfold Lex.exPart Lex.expVal
  cases hx : l.ex with
  | none => simp [expOk, expVal]
  | some x =>
    obtain ⟨c, esg, ds⟩ := x
    obtain ⟨hc, hd, hne⟩ := hwf.ex c esg ds hx
    have hce : isE c = true := by rcases hc with rfl | rfl <;> decide
    obtain ⟨d, t, hdt⟩ : ∃ d t, ds = d :: t := by
      cases ds with | nil => exact absurd rfl hne | cons d t => exact ⟨d, t, rfl⟩
    have hdd : d.isDigit = true := hd d (by rw [hdt]; simp)
    have hdp : d ≠ '+' := digit_ne hdd (by decide)
    have hdm : d ≠ '-' := digit_ne hdd (by decide)
    have hbody : expBody (esg.chars ++ ds) = ds ∧ expNeg (esg.chars ++ ds) = esg.neg := by
      cases esg with
      | plus => simp [Sg.chars, expBody, expNeg, Sg.neg]
      | minus => simp [Sg.chars, expBody, expNeg, Sg.neg]
      | none =>
        simp only [Sg.chars, List.nil_append, Sg.neg]
        rw [hdt]
        constructor
        · unfold expBody; split
          · rename_i u e; injection e with e1 _; exact absurd e1 hdp
          · rename_i u e; injection e with e1 _; exact absurd e1 hdm
          · rfl
        · unfold expNeg; split
          · rename_i u e; injection e with e1 _; exact absurd e1 hdm
          · rfl
    have hne' : digitsNE ds = true := by
      unfold digitsNE
      rw [json_isDigit_eq]
      simp [nonempty_of_ne_nil hne, allDig_all hd]
    simp only [expOk, expVal, hce, hbody.1, hbody.2, hne', Bool.and_self, if_true, digitsVal_eq]
    exact ⟨trivial, trivial⟩

theorem json_strip (l : Lex) (hwf : l.WF) :
    stripSign l.str = l.ip ++ (l.dotPart ++ l.exPart) ∧ isNeg l.str = l.sg.neg ∧
    (l.sg ≠ .plus → stripMinus l.str = l.ip ++ (l.dotPart ++ l.exPart)) ∧
    (l.sg = .plus → stripMinus l.str = '+' :: (l.ip ++ (l.dotPart ++ l.exPart))) := by
  have hbody := str_body_head l hwf
  generalize hB : l.ip ++ (l.dotPart ++ l.exPart) = B at hbody
  have hstr : l.str = l.sg.chars ++ B := by rw [← hB]; rfl
  rw [hstr]
  cases hsg : l.sg with
  | minus => simp [Sg.chars, Sg.neg, stripSign, isNeg, stripMinus]
  | plus => simp [Sg.chars, Sg.neg, stripSign, isNeg, stripMinus]
  | none =>
    simp only [Sg.chars, List.nil_append, Sg.neg]
    cases B with
    | nil => simp [stripSign, isNeg, stripMinus]
    | cons c t =>
      obtain ⟨h1, h2⟩ := hbody c t rfl
      refine ⟨?_, ?_, fun _ => ?_, fun h => by cases h⟩
      · unfold stripSign; split
        · rename_i r e; injection e with e1 _; exact absurd e1 h2
        · rename_i r e; injection e with e1 _; exact absurd e1 h1
        · rfl
      · unfold isNeg; split
        · rename_i r e; injection e with e1 _; exact absurd e1 h2
        · rfl
      · unfold stripMinus; split
        · rename_i r e; injection e with e1 _; exact absurd e1 h2
        · rfl

/-- the JSON side's value function agrees with `Lex.val` on generated lexemes -/
theorem json_numVal_str (l : Lex) (hwf : l.WF) : Verif.Spec.Json.numVal l.str = some l.val := by
  obtain ⟨s1, s2, _, _⟩ := json_strip l hwf
  obtain ⟨c1, c2, c3, c4, c5⟩ := json_scan l hwf
  obtain ⟨_, e2⟩ := json_exp l hwf
  unfold Verif.Spec.Json.numVal unsignedVal
  simp only [s1, s2, c1, c2, c4, c5, e2]
  have hne : (l.ip.isEmpty && l.fp.isEmpty) = false := by
    rcases hwf.nonempty with h | h
    · simp [nonempty_of_ne_nil h]
    · simp [nonempty_of_ne_nil h]
  simp only [hne, Bool.false_eq_true, if_false, Option.map_some, digitsVal_eq, pow10_eq]
  congr 1
  unfold Lex.val dval
  cases l.sg.neg <;> simp <;> grind


theorem json_fracExpOk (l : Lex) (hwf : l.WF) :
    fracExpOk (l.dotPart ++ l.exPart) = (!l.dot || !l.fp.isEmpty) := by
  obtain ⟨_, _, c3, c4, c5⟩ := json_scan l hwf
  obtain ⟨e1, _⟩ := json_exp l hwf
  unfold fracExpOk
  rw [c3, c4, c5, e1, Bool.and_true]

/-- what the JSON grammar says about the pieces of a generated lexeme -/
theorem json_of_isJsonNumber (l : Lex) (hwf : l.WF) (h : isJsonNumber l.str = true) :
    l.sg ≠ .plus ∧ intOk l.ip = true ∧ (l.dot = true → l.fp ≠ []) := by
  obtain ⟨_, _, s3, s4⟩ := json_strip l hwf
  obtain ⟨c1, c2, _⟩ := json_scan l hwf
  unfold isJsonNumber unsignedOk at h
  by_cases hp : l.sg = .plus
  · rw [s4 hp] at h
    simp [List.takeWhile, Verif.Spec.Json.isDigit, intOk] at h
  · rw [s3 hp, c1, c2, json_fracExpOk l hwf] at h
    simp only [Bool.and_eq_true, Bool.or_eq_true, Bool.not_eq_true'] at h
    refine ⟨hp, h.1, fun hd hf => ?_⟩
    rcases h.2 with h2 | h2
    · rw [hd] at h2; cases h2
    · rw [hf] at h2; simp at h2

theorem intOk_of_shape {ip : List Char} (hne : ip ≠ []) (h : ∀ t, ip = '0' :: t → t = []) : intOk ip = true := by
  cases ip with
  | nil => exact absurd rfl hne
  | cons c t =>
    by_cases hc : c = '0'
    · subst hc
      have := h t rfl
      subst this
      rfl
    · unfold intOk
      split
      · rename_i e; cases e
      · rfl
      · rename_i c' r e
        injection e with e1 _
        simpa [← e1] using hc

/-- an output lexeme of the minifier shape is in the JSON minifier's grammar -/
theorem json_isMin_of_shape (l : Lex) (hwf : l.WF) (hp : l.sg ≠ .plus) (hs : MinShape0 l) :
    isMinNumber l.str = true := by
  obtain ⟨_, _, s3, _⟩ := json_strip l hwf
  obtain ⟨c1, c2, c3, _⟩ := json_scan l hwf
  unfold isMinNumber unsignedMinOk
  rw [s3 hp, c1, c2, c3, json_fracExpOk l hwf]
  have h2 : (!l.dot || !l.fp.isEmpty) = true := by
    cases hd : l.dot with
    | false => rfl
    | true => simp [nonempty_of_ne_nil (hs.1 hd)]
  rw [h2, Bool.and_true]
  by_cases hi : l.ip = []
  · have hfp : l.fp ≠ [] := by rcases hwf.nonempty with h | h; exact absurd hi h; exact h
    have hd : l.dot = true := by
      cases hd : l.dot with
      | true => rfl
      | false => exact absurd (hwf.nodot hd) hfp
    simp [hi, hd]
  · simp [intOk_of_shape hi hs.2]


theorem splitSign_snd_eq (t : List Char) : (Verif.Spec.Num.splitSign t).2 = expBody t := by
  cases t with
  | nil => rfl
  | cons c r =>
    by_cases hm : c = '-'
    · subst hm; rfl
    · by_cases hp : c = '+'
      · subst hp; rfl
      · have h1 : Verif.Spec.Num.splitSign (c :: r) = (false, c :: r) := by
          unfold Verif.Spec.Num.splitSign; split
          · rename_i u e; injection e with e1 _; exact absurd e1 hm
          · rename_i u e; injection e with e1 _; exact absurd e1 hp
          · rfl
        have h2 : expBody (c :: r) = c :: r := by
          unfold expBody; split
          · rename_i u e; injection e with e1 _; exact absurd e1 hp
          · rename_i u e; injection e with e1 _; exact absurd e1 hm
          · rfl
        rw [h1, h2]

theorem parseExpPart_of_expOk {x : List Char} (h : expOk x = true) :
    ∃ e, Verif.Spec.Num.parseExpPart x = some e := by
  cases x with
  | nil => exact ⟨0, rfl⟩
  | cons c t =>
    unfold expOk at h
    simp only [Bool.and_eq_true] at h
    obtain ⟨hc, hd⟩ := h
    have hce : (c == 'e' || c == 'E') = true := hc
    simp only [Verif.Spec.Num.parseExpPart, hce, if_true]
    have hs := splitSign_snd_eq t
    generalize Verif.Spec.Num.splitSign t = sp at hs
    obtain ⟨eneg, ds⟩ := sp
    simp only [] at hs ⊢
    rw [hs]
    unfold digitsNE at hd
    rw [json_isDigit_eq] at hd
    simp only [Bool.and_eq_true, Bool.not_eq_true'] at hd
    simp [hd.1, hd.2]

theorem splitFrac_snd_eq (r : List Char) : (Verif.Spec.Num.splitFrac r).2 = afterFrac r := by
  unfold Verif.Spec.Num.splitFrac afterFrac
  rw [json_isDigit_eq]
  split
  · rfl
  · rename_i h
    split
    · rename_i t; exact absurd rfl (h t)
    · rfl

/-- every JSON number lexeme is a lexeme of the number grammar of C08 -/
theorem isNumber_of_isJsonNumber {s : List Char} (h : isJsonNumber s = true) :
    Verif.Spec.Num.isNumber s = true := by
  have key : ∀ r : List Char, unsignedOk r = true →
      ∃ ip fp rest e, Verif.Spec.Num.parseMant r = some (ip, fp, rest) ∧
        Verif.Spec.Num.parseExpPart rest = some e := by
    intro r hr
    unfold unsignedOk at hr
    rw [json_isDigit_eq] at hr
    simp only [Bool.and_eq_true] at hr
    obtain ⟨h1, h2⟩ := hr
    have hne : (r.takeWhile Char.isDigit).isEmpty = false := by
      cases hh : r.takeWhile Char.isDigit with
      | nil => rw [hh] at h1; simp [intOk] at h1
      | cons _ _ => rfl
    unfold fracExpOk at h2
    simp only [Bool.and_eq_true] at h2
    obtain ⟨e, he⟩ := parseExpPart_of_expOk h2.2
    refine ⟨r.takeWhile Char.isDigit, (Verif.Spec.Num.splitFrac (r.dropWhile Char.isDigit)).1,
      (Verif.Spec.Num.splitFrac (r.dropWhile Char.isDigit)).2, e, ?_, ?_⟩
    · unfold Verif.Spec.Num.parseMant
      simp only [hne, Bool.false_and, Bool.false_eq_true, if_false]
    · rw [splitFrac_snd_eq]; exact he
  unfold isJsonNumber at h
  unfold Verif.Spec.Num.isNumber Verif.Spec.Num.parse
  cases s with
  | nil => simp [stripMinus, unsignedOk, intOk] at h
  | cons c t =>
    by_cases hm : c = '-'
    · subst hm
      obtain ⟨ip, fp, rest, e, h1, h2⟩ := key t (by simpa [stripMinus] using h)
      simp [Verif.Spec.Num.splitSign, h1, h2]
    · by_cases hp : c = '+'
      · subst hp
        simp [stripMinus, unsignedOk, List.takeWhile, Verif.Spec.Json.isDigit, intOk] at h
      · have hsm : stripMinus (c :: t) = c :: t := by
          unfold stripMinus; split
          · rename_i r e; injection e with e1 _; exact absurd e1 hm
          · rfl
        have hss : Verif.Spec.Num.splitSign (c :: t) = (false, c :: t) := by
          unfold Verif.Spec.Num.splitSign; split
          · rename_i r e; injection e with e1 _; exact absurd e1 hm
          · rename_i r e; injection e with e1 _; exact absurd e1 hp
          · rfl
        rw [hsm] at h
        obtain ⟨ip, fp, rest, e, h1, h2⟩ := key (c :: t) h
        simp [hss, h1, h2]


theorem shape_of_intOk {ip : List Char} (h : intOk ip = true) : ∀ t, ip = '0' :: t → t = [] := by
  intro t e
  subst e
  cases t with
  | nil => rfl
  | cons c r => simp [intOk] at h

/-- a JSON number lexeme as a generated lexeme with the JSON shape -/
theorem exists_lex_of_isJsonNumber {s : List Char} (h : isJsonNumber s = true) :
    ∃ l : Lex, l.WF ∧ l.str = s ∧ l.sg ≠ .plus ∧ intOk l.ip = true ∧ (l.dot = true → l.fp ≠ []) := by
  obtain ⟨l, hwf, rfl⟩ := exists_lex_of_isNumber (isNumber_of_isJsonNumber h)
  obtain ⟨h1, h2, h3⟩ := json_of_isJsonNumber l hwf h
  exact ⟨l, hwf, rfl, h1, h2, h3⟩

/-- C07's hypothesis `NumValue`, for the model of `minify.Number` at precision ≤ 0 -/
theorem number_numValue (p : Int) (hp : p ≤ 0) : NumValue number p := by
  intro s hs
  obtain ⟨l, hwf, rfl, _, _, _⟩ := exists_lex_of_isJsonNumber hs
  rcases number_lex l hwf p (fun m0 h => rnd_wf h p) with h | ⟨l', h1, h2, _, h4, _⟩
  · rw [h]
  · rw [← h2, json_numVal_str l' h1, json_numVal_str l hwf, h4 hp]

/-- C07's hypothesis `NumGrammar`, for the model of `minify.Number` at every precision -/
theorem number_numGrammar (p : Int) : NumGrammar number p := by
  intro s hs
  refine ⟨?_, number_length_all s p⟩
  obtain ⟨l, hwf, rfl, hsg, hint, hdot⟩ := exists_lex_of_isJsonNumber hs
  rcases number_lex l hwf p (fun m0 h => rnd_wf h p) with h | ⟨l', h1, h2, h3, _, _, hsh⟩
  · rw [h]; exact json_isMin_of_shape l hwf hsg ⟨hdot, shape_of_intOk hint⟩
  · rw [← h2]; exact json_isMin_of_shape l' h1 h3 hsh

theorem startsDot_sgn_digit (neg : Bool) {d : Char} (r : List Char) (hd : d.isDigit = true) :
    startsDot (sgn neg (d :: r)) = false := by
  have h1 : d ≠ '.' := digit_ne hd (by decide)
  have h2 : d ≠ '-' := digit_ne hd (by decide)
  cases neg with
  | true =>
    simp only [sgn, if_true]
    unfold startsDot; split
    · rename_i t e; cases e
    · rename_i t e; injection e with _ e2; injection e2 with e3 _; exact absurd e3 h1
    · rfl
  | false =>
    simp only [sgn, Bool.false_eq_true, if_false]
    unfold startsDot; split
    · rename_i t e; injection e with e1 _; exact absurd e1 h1
    · rename_i t e; injection e with e1 _; exact absurd e1 h2
    · rfl

/-- a result of the print stage that starts with `.` / `-.` has `normExp ≤ 0` -/
theorem printCase_dot (s : List Char) (neg : Bool) (W : Nat) (ip fp : List Char) (e : Int)
    (ds : List Char) (N0 : Int) (hds : AllDig ds) (hne : ds ≠ [])
    (h : startsDot (printCase s neg W ip fp e ds N0) = true) :
    printCase s neg W ip fp e ds N0 = s ∨ N0 + e ≤ 0 := by
  by_cases hNE : N0 + e ≤ 0
  · right; exact hNE
  · left
    obtain ⟨d, r, hdr⟩ : ∃ d r, ds = d :: r := by
      cases ds with | nil => exact absurd rfl hne | cons d r => exact ⟨d, r, rfl⟩
    have hd : d.isDigit = true := hds d (by rw [hdr]; simp)
    unfold printCase at h ⊢
    simp only [] at h ⊢
    split
    · rfl
    · rename_i hov
      rw [if_neg hov] at h
      exfalso
      have hl := (lenInt_facts (N0 + e - (ds.length : Int))).1
      split at h
      · rw [hdr, List.cons_append, startsDot_sgn_digit neg _ hd] at h; cases h
      · split at h
        · rename_i h2
          simp only [Bool.and_eq_true, decide_eq_true_eq] at h2
          omega
        · split at h
          · split at h
            · omega
            · rename_i hn0
              have hk : (N0 + e).toNat = ((N0 + e).toNat - 1) + 1 := by omega
              rw [hdr, hk, List.take_succ_cons, List.cons_append, startsDot_sgn_digit neg _ hd] at h
              cases h
          · omega


theorem roundInt_ip_exp (h : Char) (t : List Char) (pend : Bool) (e0 : Int) (n : Nat)
    (ht : t.length + 1 ≤ n) (hpend : pend = true → t = []) (he : 0 ≤ e0)
    (hg : -9223372036854775808 ≤ e0 ∧ e0 + (n : Int) < 9223372036854775808) :
    (roundInt h t pend (wrap64 (e0 + ((n : Int) - ((1 + t.length : Nat) : Int))))).ip ≠ [] ∧
    0 ≤ (roundInt h t pend (wrap64 (e0 + ((n : Int) - ((1 + t.length : Nat) : Int))))).e := by
  obtain ⟨_, k, d, h2, h3, h4⟩ := roundInt_len h t pend e0 n ht hpend hg
  constructor
  · intro hnil
    rw [hnil] at h2
    simp only [List.length_nil] at h2
    rcases h4 with ⟨_, h5⟩ | ⟨h5, _, _⟩ <;> omega
  · rw [h3]; omega

/-- with integer digits and a non-negative exponent the precision branch keeps both -/
theorem roundP_ip_exp (m : Mant) (p : Nat) (hp : 0 < p) (hip : m.ip ≠ []) (he : 0 ≤ m.e)
    (hg : -9223372036854775808 ≤ m.e ∧ m.e + (mlen m.ip m.fp : Int) < 9223372036854775808) :
    (roundP m p).ip ≠ [] ∧ 0 ≤ (roundP m p).e := by
  unfold roundP
  split
  · rename_i hi; exact absurd hi hip
  · rename_i h tl hi
    rw [hi] at hg
    have hmc := mlen_cases (h :: tl) m.fp
    simp only [List.length_cons] at hmc
    simp only []
    split
    · split
      · unfold roundIp
        obtain ⟨s1, s2⟩ := incStrip_length (((h :: tl).take p).drop 1) (ge5At (h :: tl) p)
        simp only [List.length_drop, List.length_take, List.length_cons] at s1
        exact roundInt_ip_exp h _ _ m.e (tl.length + 1) (by omega) s2 he (by omega)
      · exact ⟨hip, he⟩
    · split
      · split
        · unfold roundIp
          obtain ⟨s1, s2⟩ := incStrip_length (((h :: tl).take p).drop 1)
            (if p < tl.length + 1 then ge5At (h :: tl) p else ge5At m.fp 0)
          simp only [List.length_drop, List.length_take, List.length_cons] at s1
          exact roundInt_ip_exp h _ _ m.e (tl.length + 1) (by omega) s2 he (by omega)
        · obtain ⟨s1, s2⟩ := incStrip_length (tl ++ m.fp.take (p - (tl.length + 1))) (ge5At m.fp (p - (tl.length + 1)))
          split
          · exact ⟨by simp, he⟩
          · rename_i hk
            simp only [Bool.and_eq_true, Bool.not_eq_true', decide_eq_true_eq, not_and, Nat.not_le] at hk
            have hlen : (incStrip (tl ++ m.fp.take (p - (tl.length + 1))) (ge5At m.fp (p - (tl.length + 1)))).1.length + 1 ≤ tl.length + 1 := by
              cases hpend : (incStrip (tl ++ m.fp.take (p - (tl.length + 1))) (ge5At m.fp (p - (tl.length + 1)))).2 with
              | true => rw [s2 hpend]; simp
              | false => have := hk hpend; omega
            exact roundInt_ip_exp h _ _ m.e (tl.length + 1) hlen s2 he (by omega)
      · exact ⟨hip, he⟩


theorem startsDot_lex (l : Lex) (hwf : l.WF) (hip : l.ip ≠ []) : startsDot l.str = false := by
  obtain ⟨d, r, hdr⟩ : ∃ d r, l.ip = d :: r := by
    cases h : l.ip with | nil => exact absurd h hip | cons d r => exact ⟨d, r, rfl⟩
  have hd : d.isDigit = true := hwf.ip d (by rw [hdr]; simp)
  unfold Lex.str
  rw [hdr]
  cases l.sg with
  | none => exact startsDot_sgn_digit false _ hd
  | minus => exact startsDot_sgn_digit true _ hd
  | plus => rfl

theorem ex_none_of_hasExp (l : Lex) (hwf : l.WF) (h : hasExp l.str = false) : l.ex = none := by
  cases hx : l.ex with
  | none => rfl
  | some x =>
    obtain ⟨c, esg, ds⟩ := x
    obtain ⟨hc, _, _⟩ := hwf.ex c esg ds hx
    have hce : isE c = true := by rcases hc with rfl | rfl <;> decide
    have : hasExp l.str = true := by
      unfold hasExp
      rw [List.any_eq_true]
      exact ⟨c, by simp [Lex.str, Lex.exPart, hx], hce⟩
    rw [this] at h; cases h

theorem sigDigits_ip_ne {ip fp : List Char} (h : ip ≠ []) : (sigDigits ip fp).2 = (ip.length : Int) := by
  unfold sigDigits
  simp only [nonempty_of_ne_nil h, Bool.false_eq_true, if_false]
  split <;> rfl

theorem number_minus_zero (p : Int) : number ['-', '0'] p = ['0'] := by
  simp [number, notE, expOfRest, numberCore, splitLastDot, dropZeros]

/-- C07's hypothesis `NumDotShrinks`, for the model of `minify.Number` at every precision -/
theorem number_numDotShrinks (p : Int) : NumDotShrinks number p := by
  intro s hs hexp hdot
  obtain ⟨l, hwf, rfl, hsg, hint, hdotfp⟩ := exists_lex_of_isJsonNumber hs
  have hex := ex_none_of_hasExp l hwf hexp
  have he0 : l.expVal = 0 := by simp [Lex.expVal, hex]
  have hipne : l.ip ≠ [] := by intro h; rw [h] at hint; simp [intOk] at hint
  have hsd := startsDot_lex l hwf hipne
  have hstrlen : l.str.length = l.sg.chars.length + (l.ip.length + l.dotPart.length) := by
    simp [Lex.str, Lex.exPart, hex]
  rcases number_lex l hwf p (fun m0 h => rnd_wf h p) with h | ⟨l', h1, h2, h3, _, h5, _⟩
  · rw [h, hsd] at hdot; cases hdot
  · rcases h5 with ⟨_, _, z3⟩ | ⟨hm, hgd, _, hW⟩
    · rw [← h2, z3] at hdot; cases hdot
    · -- the print stage
      have hml := trimmed_mlen_le l hwf
      have hmw := rnd_wf (m := ⟨dropZeros l.ip, dropTrail '0' l.fp, 0⟩) hm p
      obtain ⟨_, hdd, hdne, _⟩ := sigDigits_kindDig hmw
      rw [he0] at hW hgd
      -- length of the rounded mantissa
      have hlenR : mlen (rnd p ⟨dropZeros l.ip, dropTrail '0' l.fp, 0⟩).ip (rnd p ⟨dropZeros l.ip, dropTrail '0' l.fp, 0⟩).fp +
          expLen (rnd p ⟨dropZeros l.ip, dropTrail '0' l.fp, 0⟩).e ≤ mlen (dropZeros l.ip) (dropTrail '0' l.fp) := by
        by_cases hp : p ≤ 0
        · rw [rnd_nonpos hp]; simp [expLen]
        · have := roundP_len ⟨dropZeros l.ip, dropTrail '0' l.fp, 0⟩ p.toNat (by omega)
            (noWrap_of_guard (by omega) hgd hml)
          unfold rnd; rw [if_pos (by omega)]
          simpa [expLen] using this
      by_cases hz : dropZeros l.ip = []
      · -- the integer part is `0`: one byte is dropped in front
        have hip0 : l.ip = ['0'] := by
          cases hi : l.ip with
          | nil => exact absurd hi hipne
          | cons c t =>
            by_cases hc : c = '0'
            · subst hc
              have := shape_of_intOk hint t hi
              rw [this]
            · rw [hi, dropZeros_cons_ne t hc] at hz; cases hz
        have hdt : l.dot = true := by
          cases hd : l.dot with
          | true => rfl
          | false =>
            exfalso
            have hfp := hwf.nodot hd
            have hstr : l.str = l.sg.chars ++ ['0'] := by
              simp [Lex.str, Lex.dotPart, Lex.exPart, hex, hd, hip0]
            rw [hstr] at hdot
            cases hs2 : l.sg with
            | plus => exact hsg hs2
            | none => rw [hs2] at hdot; simp [Sg.chars, number, startsDot] at hdot
            | minus =>
              rw [hs2] at hdot
              simp only [Sg.chars, List.cons_append, List.nil_append] at hdot
              rw [number_minus_zero] at hdot
              cases hdot
        have hfpne := hdotfp hdt
        have hdl : l.dotPart.length = 1 + l.fp.length := by simp [Lex.dotPart, hdt]; omega
        have hfl := dropTrail_length_le '0' l.fp
        have hmc := mlen_cases (dropZeros l.ip) (dropTrail '0' l.fp)
        rw [hz] at hmc hlenR hW
        rw [hip0] at hW hstrlen
        simp only [List.length_nil, List.length_cons, dropZeros_nil] at hmc hW hstrlen
        have hsgl : l.sg.chars.length = (if (l.sg != Sg.none) = true then 1 else 0) ∧
            (if l.sg.neg then 1 else 0) ≤ (if (l.sg != Sg.none) = true then 1 else 0) := by
          cases l.sg <;> simp [Sg.chars, Sg.neg]
        rcases printNum_length l.str l.sg.neg _ (rnd p ⟨[], dropTrail '0' l.fp, 0⟩)
          (Nat.le_trans (Nat.le_of_eq (by rfl)) (show mlen (rnd p ⟨[], dropTrail '0' l.fp, 0⟩).ip (rnd p ⟨[], dropTrail '0' l.fp, 0⟩).fp +
            expLen (rnd p ⟨[], dropTrail '0' l.fp, 0⟩).e ≤
            l.str.length - ((if (l.sg != Sg.none) = true then 1 else 0) + (1 - 0)) by omega)) with hp | ⟨u, hp, hu⟩
        · rw [hW, hp, hsd] at hdot; cases hdot
        · rw [hW, hp, sgn_length]
          omega
      · -- integer digits remain: the result cannot start with a dot
        exfalso
        have hm0 : (rnd p ⟨dropZeros l.ip, dropTrail '0' l.fp, 0⟩).ip ≠ [] ∧
            0 ≤ (rnd p ⟨dropZeros l.ip, dropTrail '0' l.fp, 0⟩).e := by
          by_cases hp : p ≤ 0
          · rw [rnd_nonpos hp]; exact ⟨hz, Int.le_refl 0⟩
          · unfold rnd; rw [if_pos (by omega)]
            exact roundP_ip_exp _ p.toNat (by omega) hz (Int.le_refl 0) (noWrap_of_guard (by omega) hgd hml)
        have hdotN := hdot
        rw [hW] at hdot
        unfold printNum at hdot
        rcases printCase_dot _ _ _ _ _ _ _ _ hdd hdne hdot with hp | hp
        · have : number l.str p = l.str := by rw [hW]; exact hp
          rw [this, hsd] at hdotN; cases hdotN
        · rw [sigDigits_ip_ne hm0.1] at hp
          have : 0 < (rnd p ⟨dropZeros l.ip, dropTrail '0' l.fp, 0⟩).ip.length := List.length_pos_iff.mpr hm0.1
          omega

end Verif.Proofs.Num

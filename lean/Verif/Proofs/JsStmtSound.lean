import Verif.Proofs.JsCondSound
import Verif.Model.JsStmt
set_option linter.unusedSimpArgs false
set_option linter.unnecessarySimpa false
/-!
# C01-C — soundness of `optimizeStmt` / `optimizeStmtList` (helper lemmas)
-/
namespace Verif.Proofs.JsStmtSound
open Verif.Spec.JsSyntax Verif.Spec.JsSem Verif.Model.JsAst Verif.Model.JsOpt Verif.Model.JsPrint Verif.Model.JsStmt
open Verif.Proofs.JsSemLemmas Verif.Proofs.JsOptSound Verif.Proofs.JsPure Verif.Proofs.JsCondSound
open Verif.Spec.JsSyntax.E Verif.Spec.JsSyntax.S

variable {H : Host}

/-! ## execution equations -/

@[simp] theorem exec_expr (e : E) : exec H (.expr e) = bindM (eval H e) (fun _ => retM .normal) := by simp [exec]
@[simp] theorem exec_if (c : E) (t e : S) :
    exec H (.ifS c t e) = bindM (eval H c) (fun v => if truthy v then exec H t else exec H e) := by simp [exec]
@[simp] theorem exec_ret0 : exec H (.ret none) = retM (.ret .undef) := by simp [exec]
@[simp] theorem exec_ret (e : E) : exec H (.ret (some e)) = bindM (eval H e) (fun v => retM (.ret v)) := by simp [exec]
@[simp] theorem exec_throw (e : E) : exec H (.throw e) = bindM (eval H e) (fun v => throwV v) := by simp [exec]
@[simp] theorem exec_block (l : List S) : exec H (.block l) = execL H l := by simp [exec]
@[simp] theorem exec_empty : exec H .empty = retM .normal := by simp [exec]
@[simp] theorem exec_absent : exec H .absent = retM .normal := by simp [exec]
@[simp] theorem exec_fn (n : String) (ps : List String) (b : List S) : exec H (.fn n ps b) = retM .normal := by simp [exec]
@[simp] theorem execL_nil : execL H [] = retM .normal := by simp [execL]

/-- continue with `k` after a normal completion -/
def andThen (m : M Compl) (k : M Compl) : M Compl :=
  bindM m (fun c => match c with | .normal => k | .ret v => retM (.ret v))

@[simp] theorem execL_cons (s : S) (t : List S) : execL H (s :: t) = andThen (exec H s) (execL H t) := by
  simp only [execL, andThen]
  apply bindM_congr; intro c
  cases c <;> rfl

theorem andThen_normal (k : M Compl) : andThen (retM .normal) k = k := by simp [andThen]

theorem andThen_right_normal (m : M Compl) : andThen m (retM .normal) = m := by
  simp only [andThen]
  conv => rhs; rw [← bind_retM m]
  apply bindM_congr; intro c
  cases c <;> rfl

theorem andThen_assoc (a b c : M Compl) : andThen (andThen a b) c = andThen a (andThen b c) := by
  simp only [andThen, bindM_assoc]
  apply bindM_congr; intro x
  cases x <;> simp

theorem execL_append (a b : List S) : execL H (a ++ b) = andThen (execL H a) (execL H b) := by
  induction a with
  | nil => simp [andThen_normal]
  | cons s t ih => simp [ih, andThen_assoc]

theorem andThen_bind {α : Type} (m : M α) (f : α → M Compl) (k : M Compl) :
    andThen (bindM m f) k = bindM m (fun a => andThen (f a) k) := by
  simp [andThen]

theorem andThen_ite (c : Bool) (a b k : M Compl) :
    andThen (if c then a else b) k = if c then andThen a k else andThen b k := by
  cases c <;> rfl

/-! ## `commaExpr` / `condExpr` of util.go -/

theorem evalL_append (a b : List E) :
    evalL H (a ++ b) = bindM (evalL H a) (fun va => bindM (evalL H b) (fun vb => retM (va ++ vb))) := by
  induction a with
  | nil => simp
  | cons x t ih => simp [ih]

/-- evaluate a non-empty list for its last value -/
theorem commaItems_eval (e : E) :
    bindM (evalL H (commaItems e)) (fun vs => retM (vs.getLast?.getD .undef)) = eval H e := by
  unfold commaItems
  split
  · simp
  · simp

theorem commaItems_ne (e : E) : commaItems e ≠ [] := by
  unfold commaItems; split <;> simp

theorem evalL_ne_nil (l : List E) (hl : l ≠ []) (s : St) :
    match evalL H l s with | .ok vs _ => vs ≠ [] | .thr _ _ => True := by
  cases l with
  | nil => exact absurd rfl hl
  | cons a t =>
    simp only [evalL_cons, bindM, retM]
    cases eval H a s with
    | thr _ _ => trivial
    | ok v s1 =>
      dsimp only
      cases evalL H t s1 with
      | thr _ _ => trivial
      | ok vs s2 => simp

/-- `commaExpr(x, y)`: evaluate `x`, discard it, evaluate `y` -/
theorem commaExprU_sound (x y : E) : eval H (commaExprU x y) = bindM (eval H x) (fun _ => eval H y) := by
  unfold commaExprU
  rw [eval_comma, evalL_append, ← commaItems_eval x, ← commaItems_eval y]
  simp only [bindM_assoc, retM_bind]
  apply bindM_congr; intro va
  funext s
  have hne := evalL_ne_nil (H := H) (commaItems y) (commaItems_ne y) s
  simp only [bindM, retM]
  cases hy : evalL H (commaItems y) s with
  | thr _ _ => rfl
  | ok vb s1 =>
    rw [hy] at hne
    cases vb with
    | nil => exact absurd rfl hne
    | cons b t =>
      have h1 : (b :: t).getLast? = some ((b :: t).getLast (by simp)) := List.getLast?_eq_some_getLast (by simp)
      simp [List.getLast?_append, h1]

/-- `condExpr(c, x, y)` -/
theorem condExprU_sound (c x y : E) : eval H (condExprU c x y) = eval H (.cond c x y) := by
  unfold condExprU
  split
  · rename_i l
    cases hl : l.getLast? with
    | none =>
      have : l = [] := by simpa using hl
      subst this
      simp [lastD]
    | some last =>
      obtain ⟨init, rfl⟩ : ∃ init, l = init ++ [last] := ⟨l.dropLast, snoc_of_getLast? l last hl⟩
      have hlast : lastD (init ++ [last]) (.comma (init ++ [last])) = last := by simp [lastD]
      rw [hlast]
      simp only [List.dropLast_concat, eval_comma, evalL_append_single, eval_cond, groupExpr_sound, bindM_assoc]
  · simp

/-! ## structural induction over statements -/

mutual
theorem S.ind {P : S → Prop}
    (hexpr : ∀ e, P (.expr e)) (hif : ∀ c t e, P t → P e → P (.ifS c t e)) (hret : ∀ v, P (.ret v))
    (hthrow : ∀ e, P (.throw e)) (hblock : ∀ l, (∀ a ∈ l, P a) → P (.block l))
    (hfn : ∀ n ps b, P (.fn n ps b)) (hempty : P .empty) (habsent : P .absent) : ∀ s : S, P s
  | .expr e => hexpr e
  | .ifS c t e => hif c t e (S.ind hexpr hif hret hthrow hblock hfn hempty habsent t)
      (S.ind hexpr hif hret hthrow hblock hfn hempty habsent e)
  | .ret v => hret v
  | .throw e => hthrow e
  | .block l => hblock l (S.indL hexpr hif hret hthrow hblock hfn hempty habsent l)
  | .fn n ps b => hfn n ps b
  | .empty => hempty
  | .absent => habsent
theorem S.indL {P : S → Prop}
    (hexpr : ∀ e, P (.expr e)) (hif : ∀ c t e, P t → P e → P (.ifS c t e)) (hret : ∀ v, P (.ret v))
    (hthrow : ∀ e, P (.throw e)) (hblock : ∀ l, (∀ a ∈ l, P a) → P (.block l))
    (hfn : ∀ n ps b, P (.fn n ps b)) (hempty : P .empty) (habsent : P .absent) : ∀ l : List S, ∀ a ∈ l, P a
  | [] => fun _ h => by cases h
  | b :: t => fun a h => by
    cases h with
    | head => exact S.ind hexpr hif hret hthrow hblock hfn hempty habsent b
    | tail _ h' => exact S.indL hexpr hif hret hthrow hblock hfn hempty habsent t a h'
end

/-! ## empty statements, flow statements -/

theorem isEmptyList_exec (l : List S) (ih : ∀ a ∈ l, isEmptyStmt a = true → exec H a = retM .normal)
    (h : isEmptyList l = true) : execL H l = retM .normal := by
  induction l with
  | nil => simp
  | cons a t iht =>
    simp only [isEmptyList, Bool.and_eq_true] at h
    rw [execL_cons, ih a (List.mem_cons_self) h.1, andThen_normal]
    exact iht (fun b hb => ih b (List.mem_cons_of_mem _ hb)) h.2

theorem isEmpty_exec (s : S) (h : isEmptyStmt s = true) : exec H s = retM .normal := by
  induction s using S.ind with
  | hblock l ih => simp only [isEmptyStmt] at h; rw [exec_block]; exact isEmptyList_exec l ih h
  | hempty => simp
  | habsent => simp
  | _ => simp [isEmptyStmt] at h

/-- never completes normally -/
def Abrupt (m : M Compl) : Prop := ∀ s, match m s with | .ok .normal _ => False | _ => True

theorem andThen_abrupt (m k : M Compl) (h : Abrupt m) : andThen m k = m := by
  funext s
  have := h s
  simp only [andThen, bindM]
  cases hm : m s with
  | thr _ _ => rfl
  | ok c s1 =>
    rw [hm] at this
    cases c with
    | normal => exact absurd this id
    | ret v => rfl

theorem abrupt_andThen (m k : M Compl) (hk : Abrupt k) : Abrupt (andThen m k) := by
  intro s
  simp only [andThen, bindM]
  cases m s with
  | thr _ _ => trivial
  | ok c s1 =>
    cases c with
    | normal => exact hk s1
    | ret v => trivial

theorem lastStmtL_abrupt (l : List S) (d : S)
    (ih : ∀ a ∈ l, isFlowStmt (lastStmt a) = true → Abrupt (exec H a))
    (h : isFlowStmt (lastStmtL l d) = true) (hl : l ≠ []) : Abrupt (execL H l) := by
  induction l with
  | nil => exact absurd rfl hl
  | cons a t iht =>
    cases t with
    | nil =>
      simp only [lastStmtL] at h
      rw [execL_cons, execL_nil, andThen_right_normal]
      exact ih a (List.mem_cons_self) h
    | cons b t2 =>
      simp only [lastStmtL] at h
      rw [execL_cons]
      exact abrupt_andThen _ _ (iht (fun x hx => ih x (List.mem_cons_of_mem _ hx)) h (by simp))

theorem flow_abrupt (t : S) (h : isFlowStmt (lastStmt t) = true) : Abrupt (exec H t) := by
  induction t using S.ind with
  | hret v =>
    intro s
    cases v with
    | none => simp [retM]
    | some e =>
      simp only [exec_ret, bindM, retM]
      cases eval H e s <;> trivial
  | hthrow e =>
    intro s
    simp only [exec_throw, bindM, throwV]
    cases eval H e s <;> trivial
  | hblock l ih =>
    simp only [lastStmt] at h
    cases l with
    | nil => simp [lastStmtL, isFlowStmt] at h
    | cons a t =>
      rw [exec_block]
      exact lastStmtL_abrupt (a :: t) _ ih h (by simp)
  | _ => simp [lastStmt, isFlowStmt] at h

theorem dropWhile_empty_exec (l : List S) : execL H (l.dropWhile isEmptyNode) = execL H l := by
  induction l with
  | nil => simp
  | cons a t ih =>
    simp only [List.dropWhile]
    split
    · rename_i hn
      cases a <;> simp [isEmptyNode] at hn
      simp [ih, andThen_normal]
    · rfl

/-! ## merging an expression statement into the next statement -/

theorem mergeLeft_sound (left : E) (s r : S) (h : mergeLeft left s = some r) :
    exec H r = andThen (exec H (.expr left)) (exec H s) := by
  unfold mergeLeft at h
  split at h
  · injection h with h; subst h; simp [andThen, commaExprU_sound]
  · injection h with h; subst h; simp [andThen, commaExprU_sound]
  · injection h with h; subst h; simp [andThen, commaExprU_sound]
  · injection h with h; subst h; simp [andThen, commaExprU_sound]
  · cases h

theorem splitLast_eq {α : Type} (l : List α) (i : List α) (a : α) (h : splitLast l = some (i, a)) : l = i ++ [a] := by
  induction l generalizing i with
  | nil => simp [splitLast] at h
  | cons x t ih =>
    cases t with
    | nil => simp [splitLast] at h; obtain ⟨rfl, rfl⟩ := h; rfl
    | cons y t2 =>
      simp only [splitLast] at h
      cases hs : splitLast (y :: t2) with
      | none => simp [hs] at h
      | some r =>
        obtain ⟨i2, a2⟩ := r
        simp [hs] at h
        obtain ⟨rfl, rfl⟩ := h
        rw [ih i2 hs]; rfl

/-! ## `MergeIfReturnThrow` -/

theorem cond_ret (c l v : E) :
    bindM (eval H (.cond c l v)) (fun w => retM (Compl.ret w)) =
      bindM (eval H c) (fun b => if truthy b then bindM (eval H l) (fun w => retM (Compl.ret w))
        else bindM (eval H v) (fun w => retM (Compl.ret w))) := by
  simp only [eval_cond, bindM_assoc]
  apply bindM_congr; intro b
  cases truthy b <;> rfl

theorem cond_throw (c l v : E) :
    bindM (eval H (.cond c l v)) (fun w => (throwV w : M Compl)) =
      bindM (eval H c) (fun b => if truthy b then bindM (eval H l) (fun w => throwV w)
        else bindM (eval H v) (fun w => throwV w)) := by
  simp only [eval_cond, bindM_assoc]
  apply bindM_congr; intro b
  cases truthy b <;> rfl

/-- one merge of an `if` with the following return / throw -/
theorem mergeIfStep_sound (prev cur r : S) (again : Bool) (h : mergeIfStep prev cur = some (r, again)) :
    (if again then exec H r else andThen (exec H r) (exec H cur)) = andThen (exec H prev) (exec H cur) := by
  unfold mergeIfStep at h
  split at h
  · rename_i c t e
    split at h
    · rename_i hne
      have hte : (isEmptyStmt t = true ∧ isEmptyStmt e = false) ∨ (isEmptyStmt t = false ∧ isEmptyStmt e = true) := by
        cases h1 : isEmptyStmt t <;> cases h2 : isEmptyStmt e <;> simp_all
      split at h
      · -- bare return
        split at h
        · injection h with h; injection h with h1 h2; subst h1 h2
          have he : exec H e = retM .normal := by
            rcases hte with ⟨ht, _⟩ | ⟨_, he⟩
            · simp [isEmptyStmt] at ht
            · exact isEmpty_exec e he
          simp only [Bool.false_eq_true, if_false, exec_expr, exec_if, exec_ret0, he, andThen, bindM_assoc, retM_bind]
          apply bindM_congr; intro b
          cases truthy b <;> simp
        · injection h with h; injection h with h1 h2; subst h1 h2
          have ht : exec H t = retM .normal := by
            rcases hte with ⟨ht, _⟩ | ⟨_, he⟩
            · exact isEmpty_exec t ht
            · simp [isEmptyStmt] at he
          simp only [Bool.false_eq_true, if_false, exec_expr, exec_if, exec_ret0, ht, andThen, bindM_assoc, retM_bind]
          apply bindM_congr; intro b
          cases truthy b <;> simp
        · cases h
      · -- return with a value
        rename_i v
        split at h
        · rename_i l
          injection h with h; injection h with h1 h2; subst h1 h2
          have he : exec H e = retM .normal := by
            rcases hte with ⟨ht, _⟩ | ⟨_, he⟩
            · simp [isEmptyStmt] at ht
            · exact isEmpty_exec e he
          simp only [if_true, exec_ret, condExprU_sound, cond_ret, exec_if, he, andThen, bindM_assoc, retM_bind]
          apply bindM_congr; intro b
          cases truthy b <;> simp
        · rename_i l
          injection h with h; injection h with h1 h2; subst h1 h2
          have ht : exec H t = retM .normal := by
            rcases hte with ⟨ht, _⟩ | ⟨_, he⟩
            · exact isEmpty_exec t ht
            · simp [isEmptyStmt] at he
          simp only [if_true, exec_ret, condExprU_sound, cond_ret, exec_if, ht, andThen, bindM_assoc, retM_bind]
          apply bindM_congr; intro b
          cases truthy b <;> simp
        · cases h
      · -- throw
        rename_i v
        split at h
        · rename_i l
          injection h with h; injection h with h1 h2; subst h1 h2
          have he : exec H e = retM .normal := by
            rcases hte with ⟨ht, _⟩ | ⟨_, he⟩
            · simp [isEmptyStmt] at ht
            · exact isEmpty_exec e he
          simp only [if_true, exec_throw, condExprU_sound, cond_throw, exec_if, he, andThen, bindM_assoc, retM_bind,
            throw_bind]
          apply bindM_congr; intro b
          cases truthy b <;> simp
        · rename_i l
          injection h with h; injection h with h1 h2; subst h1 h2
          have ht : exec H t = retM .normal := by
            rcases hte with ⟨ht, _⟩ | ⟨_, he⟩
            · exact isEmpty_exec t ht
            · simp [isEmptyStmt] at he
          simp only [if_true, exec_throw, condExprU_sound, cond_throw, exec_if, ht, andThen, bindM_assoc, retM_bind,
            throw_bind]
          apply bindM_congr; intro b
          cases truthy b <;> simp
        · cases h
      · cases h
    · cases h
  · cases h

theorem execL_snoc2 (init : List S) (a b : S) :
    execL H (init ++ [a, b]) = andThen (execL H init) (andThen (exec H a) (exec H b)) := by
  rw [execL_append]
  simp [andThen_right_normal]

theorem execL_snoc1 (init : List S) (a : S) : execL H (init ++ [a]) = andThen (execL H init) (exec H a) := by
  rw [execL_append]
  simp [andThen_right_normal]

/-- the `MergeIfReturnThrow` loop -/
theorem mergeIfRet_sound (n : Nat) (acc : List S) : execL H (mergeIfRet n acc) = execL H acc := by
  induction n generalizing acc with
  | zero => rfl
  | succ k ih =>
    simp only [mergeIfRet]
    cases h1 : splitLast acc with
    | none => rfl
    | some r1 =>
      obtain ⟨init, cur⟩ := r1
      simp only []
      cases h2 : splitLast init with
      | none => rfl
      | some r2 =>
        obtain ⟨init2, prev⟩ := r2
        simp only []
        have e1 := splitLast_eq acc init cur h1
        have e2 := splitLast_eq init init2 prev h2
        cases hm : mergeIfStep prev cur with
        | none => rfl
        | some r =>
          obtain ⟨r, again⟩ := r
          have hs := mergeIfStep_sound (H := H) prev cur r again hm
          subst e1 e2
          cases again with
          | true =>
            simp only [if_true] at hs
            simp only []
            rw [ih, List.append_assoc]
            simp only [List.cons_append, List.nil_append]
            rw [execL_snoc1, execL_snoc2, hs]
          | false =>
            simp only [Bool.false_eq_true, if_false] at hs
            simp only [List.append_assoc, List.cons_append, List.nil_append]
            rw [execL_snoc2, execL_snoc2, hs]

/-! ## removal of the trailing return of a function body -/

/-- the result of calling a function whose body is the statement list -/
def execFn (H : Host) (l : List S) : M Val :=
  bindM (execL H l) (fun c => retM (match c with | .normal => .undef | .ret v => v))

def fnVal (c : Compl) : Val := match c with | .normal => .undef | .ret v => v

theorem execFn_snoc (init : List S) (a : S) :
    execFn H (init ++ [a]) = bindM (execL H init) (fun c => match c with
      | .normal => bindM (exec H a) (fun c2 => retM (fnVal c2))
      | .ret v => retM v) := by
  simp only [execFn, execL_snoc1, andThen, bindM_assoc]
  apply bindM_congr; intro c
  cases c <;> simp [fnVal]

theorem execFn_init (init : List S) :
    execFn H init = bindM (execL H init) (fun c => match c with
      | .normal => retM .undef
      | .ret v => retM v) := by
  simp only [execFn]
  apply bindM_congr; intro c
  cases c <;> rfl

theorem trimReturn_sound (acc : List S) (hk : k1Trigger acc = false) : execFn H (trimReturn acc) = execFn H acc := by
  unfold trimReturn
  unfold k1Trigger at hk
  cases hs : splitLast acc with
  | none => rfl
  | some r =>
    obtain ⟨init, last⟩ := r
    have e1 := splitLast_eq acc init last hs
    subst e1
    simp only [hs] at hk
    cases last with
    | ret v =>
      cases v with
      | none =>
        simp only []
        rw [execFn_snoc, execFn_init]
        apply bindM_congr; intro c
        cases c <;> simp [fnVal]
      | some v =>
        simp only [] at hk ⊢
        by_cases hu : isUndefined v = true
        · rw [if_pos hu, execFn_snoc, execFn_init]
          apply bindM_congr; intro c
          cases c with
          | ret w => rfl
          | normal =>
            funext s
            obtain ⟨w, hw, rfl⟩ := isUndefined_pure (H := H) v hu s
            simp [bindM, hw, retM, fnVal]
        · rw [if_neg hu]
          simp only [hu, Bool.not_false, Bool.true_and] at hk
          cases v with
          | comma l =>
            simp only [] at hk ⊢
            by_cases hl : isUndefined (lastD l (.comma l)) = true
            · rw [if_pos hl]
              simp only [hl, Bool.true_and, decide_eq_false_iff_not, Nat.not_le] at hk
              -- fewer than three items
              match l, hl, hk with
              | [a, b], hl, _ =>
                simp only []
                have hb : isUndefined b = true := by simpa [lastD] using hl
                rw [execFn_snoc, execFn_snoc]
                apply bindM_congr; intro c
                cases c with
                | ret w => rfl
                | normal =>
                  funext s
                  simp only [exec_expr, exec_ret, eval_comma, evalL_cons, evalL_nil, bindM, retM, fnVal]
                  cases eval H a s with
                  | thr _ _ => rfl
                  | ok va s1 =>
                    obtain ⟨w, hw, rfl⟩ := isUndefined_pure (H := H) b hb s1
                    simp [hw]
              | [], hl, _ => simp [lastD, isUndefined, E.inner] at hl
              | [a], hl, _ =>
                simp only []
                have ha : isUndefined a = true := by simpa [lastD] using hl
                simp only [List.dropLast]
                rw [execFn_snoc, execFn_snoc]
                apply bindM_congr; intro c
                cases c with
                | ret w => rfl
                | normal =>
                  funext s
                  obtain ⟨w, hw, rfl⟩ := isUndefined_pure (H := H) a ha s
                  simp [exec_ret, eval_comma, evalL_cons, evalL_nil, bindM, retM, fnVal, hw]
              | a :: b :: c :: t, _, hk => simp at hk; omega
            · rw [if_neg hl]
          | _ => rfl
    | _ => rfl

/-! ## `optimizeStmt` on an `if` whose branches are already optimised -/

theorem exec_if_not (x : E) (t e : S) : exec H (.ifS (.unary .not x) t e) = exec H (.ifS x e t) := by
  simp only [exec_if, eval_not, bindM_assoc, retM_bind, truthy_bool]
  apply bindM_congr; intro v
  cases truthy v <;> rfl

/-- the core: an `if` with optimised branches -/
theorem optIfCore_sound (c : E) (t e : S) : exec H (optIfCore c t e) = exec H (.ifS c t e) := by
  unfold optIfCore
  simp only []
  have het : isEmptyStmt t = true → exec H t = retM .normal := isEmpty_exec t
  have hee : isEmptyStmt e = true → exec H e = retM .normal := isEmpty_exec e
  cases hit : isEmptyStmt t <;> cases hie : isEmptyStmt e <;>
    simp only [Bool.not_true, Bool.not_false, Bool.and_true, Bool.and_false,
      Bool.true_and, Bool.false_and, Bool.false_eq_true, if_true, if_false]
  · -- both non-empty
    split
    · simp only [exec_expr, condExprU_sound, eval_cond, exec_if, bindM_assoc]
      apply bindM_congr; intro b
      cases truthy b <;> rfl
    · simp only [exec_ret, commaExprU_sound, eval_void, eval_num, exec_if, exec_ret0, bindM_assoc, retM_bind]
      apply bindM_congr; intro b
      cases truthy b <;> rfl
    · simp only [exec_ret, condExprU_sound, cond_ret, exec_if]
    · simp only [exec_throw, condExprU_sound, cond_throw, exec_if]
    · rfl
  · -- only if
    have he := hee hie
    split
    · rename_i v
      split
      · rename_i x
        simp only [exec_expr, eval_lor, groupExpr_sound, exec_if, eval_not, he, bindM_assoc, retM_bind, truthy_bool]
        apply bindM_congr; intro b
        cases truthy b <;> simp
      · simp only [exec_expr, eval_land, groupExpr_sound, exec_if, he, bindM_assoc]
        apply bindM_congr; intro b
        cases truthy b <;> simp
    · rename_i c2 t2 e2
      split
      · rename_i he2
        have he2' := isEmpty_exec (H := H) e2 he2
        simp only [exec_if, eval_land, groupExpr_sound, he, he2', bindM_assoc]
        apply bindM_congr; intro b
        by_cases hb : truthy b = true
        · simp [hb]
        · simp [hb]
      · rfl
    · rfl
  · -- only else
    have ht := het hit
    split
    · rename_i v
      simp only [exec_expr, eval_lor, groupExpr_sound, exec_if, ht, bindM_assoc]
      apply bindM_congr; intro b
      cases truthy b <;> simp
    · rfl
  · -- both empty
    have ht := het hit
    have he := hee hie
    split
    · simp only [exec_expr, exec_if, ht, he]
      apply bindM_congr; intro v
      cases truthy v <;> rfl
    · rename_i hs
      have hp := hse_pure (H := H) c (by simpa using hs)
      funext s
      obtain ⟨v, hv, _⟩ := hp s
      simp only [exec_empty, exec_if, ht, he, bindM, hv, retM]
      cases truthy v <;> rfl

theorem optIf_sound (c : E) (t1 e1 : S) : exec H (optIf c t1 e1) = exec H (.ifS c t1 e1) := by
  unfold optIf
  split
  · rename_i x
    split
    · rw [optIfCore_sound, exec_if_not]
    · exact optIfCore_sound _ _ _
  · exact optIfCore_sound _ _ _

/-! ## else removal and merging into the accumulator -/

theorem swapNotFlow_sound (c : E) (t e : S) :
    exec H (.ifS (swapNotFlow c t e).1 (swapNotFlow c t e).2.1 (swapNotFlow c t e).2.2) = exec H (.ifS c t e) := by
  unfold swapNotFlow
  split
  · rename_i x
    split
    · exact (exec_if_not x t e).symm
    · rfl
  · rfl

theorem blockItems_exec (s : S) : execL H (blockItems s) = exec H s := by
  unfold blockItems
  split
  · simp
  · simp [andThen_right_normal]

theorem elseRemoval_sound (s0 : S) (rest0 : List S) :
    execL H ((elseRemoval s0 rest0).1 :: (elseRemoval s0 rest0).2) = execL H (s0 :: rest0) := by
  unfold elseRemoval
  split
  · rename_i c t e
    split
    · have hswap := swapNotFlow_sound (H := H) c t e
      generalize swapNotFlow c t e = q at hswap ⊢
      obtain ⟨c1, t1, e1⟩ := q
      simp only [] at hswap ⊢
      split
      · rename_i hflow
        have hab := flow_abrupt (H := H) t1 hflow
        simp only [execL_cons]
        rw [← hswap, execL_append, blockItems_exec]
        simp only [exec_if, exec_absent, andThen_bind]
        apply bindM_congr; intro v
        by_cases hv : truthy v = true
        · simp only [hv, if_true]
          rw [andThen_abrupt _ _ hab, andThen_abrupt _ _ hab]
        · simp [hv, andThen_normal]
      · simp only [execL_cons, hswap]
    · rfl
  · rfl

theorem mergeAcc_sound (acc : List S) (s2 : S) : execL H (mergeAcc acc s2) = execL H (acc ++ [s2]) := by
  unfold mergeAcc
  cases hs : splitLast acc with
  | none => rfl
  | some r =>
    obtain ⟨init, last⟩ := r
    have e1 := splitLast_eq acc init last hs
    cases last with
    | expr left =>
      simp only []
      cases hm : mergeLeft left s2 with
      | none => rfl
      | some s =>
        simp only []
        subst e1
        rw [execL_snoc1, mergeLeft_sound left s2 s hm, List.append_assoc]
        simp only [List.cons_append, List.nil_append]
        rw [execL_snoc2]
    | _ => rfl

/-! ## the main induction -/

/-- what is proved for every fuel -/
def StmtOk (H : Host) (fuel : Nat) : Prop :=
  (∀ s, exec H (optStmt fuel s) = exec H s) ∧
  (∀ acc pending, execL H (optLoop fuel acc pending) = execL H (acc ++ pending)) ∧
  (∀ l, execL H (optStmtList fuel l .default) = execL H l)

theorem optStmtList_default (fuel : Nat) (l : List S) :
    optStmtList (fuel + 1) l .default = optLoop fuel [] l := by
  simp [optStmtList]

theorem stmtOk (fuel : Nat) : StmtOk H fuel := by
  induction fuel with
  | zero =>
    refine ⟨fun s => by simp [optStmt], fun acc pending => by simp [optLoop], fun l => by simp [optStmtList]⟩
  | succ n ih =>
    obtain ⟨ih1, ih2, ih3⟩ := ih
    have h2 : ∀ acc pending, execL H (optLoop (n + 1) acc pending) = execL H (acc ++ pending) := by
      intro acc pending
      cases pending with
      | nil => simp [optLoop]
      | cons s0 rest0 =>
        simp only [optLoop]
        have hr := elseRemoval_sound (H := H) s0 rest0
        generalize elseRemoval s0 rest0 = r at hr ⊢
        obtain ⟨s1, rest⟩ := r
        simp only [] at hr ⊢
        have hs2 := ih1 s1
        split
        · rename_i hempty
          rw [ih2, execL_append, dropWhile_empty_exec, execL_append, ← hr, execL_cons, ← hs2]
          have : exec H (optStmt n s1) = retM .normal := by
            cases hopt : optStmt n s1 <;> simp [hopt, isEmptyNode] at hempty
            simp
          rw [this, andThen_normal]
        · rw [ih2, execL_append, mergeIfRet_sound, mergeAcc_sound, execL_snoc1, hs2, execL_append, ← hr, execL_cons,
            andThen_assoc]
    refine ⟨?_, h2, ?_⟩
    · intro s
      cases s with
      | ifS c t0 e0 =>
        simp only [optStmt]
        rw [optIf_sound]
        simp only [exec_if, ih1]
      | block l =>
        simp only [optStmt]
        have hl := ih3 l
        generalize optStmtList n l .default = l' at hl ⊢
        match l' with
        | [] => simp at hl ⊢; exact hl
        | [s1] =>
          simp only []
          rw [ih1, exec_block, ← hl]
          simp [andThen_right_normal]
        | a :: b :: t => simp only []; rw [exec_block, exec_block, hl]
      | _ => simp [optStmt]
    · intro l
      rw [optStmtList_default, ih2]
      simp

theorem optStmt_sound (fuel : Nat) (s : S) : exec H (optStmt fuel s) = exec H s := (stmtOk fuel).1 s

theorem optStmtList_default_sound (fuel : Nat) (l : List S) :
    execL H (optStmtList fuel l .default) = execL H l := (stmtOk fuel).2.2 l

theorem optLoop_sound (fuel : Nat) (l : List S) : execL H (optLoop fuel [] l) = execL H l := by
  have := (stmtOk (H := H) fuel).2.1 [] l
  simpa using this

/-- function bodies: the trailing return may go, the function's result stays -/
theorem optStmtList_function_sound (fuel : Nat) (l : List S) (hk : k1Trigger (optLoop (fuel - 1) [] l) = false) :
    execFn H (optStmtList fuel l .function) = execFn H l := by
  cases fuel with
  | zero => simp [optStmtList]
  | succ n =>
    simp only [optStmtList]
    simp only [Nat.add_sub_cancel] at hk
    simp only [beq_self_eq_true, if_true]
    rw [trimReturn_sound _ hk]
    simp only [execFn, optLoop_sound]

end Verif.Proofs.JsStmtSound

import Verif.Proofs.NumCut
set_option linter.unusedSimpArgs false
/-!
# C08 — value of the precision branch of `Number` (no `int` wrap-around)
-/
namespace Verif.Proofs.Num
open Verif.Model.Num

theorem mantVal_int (neg : Bool) (ip : List Char) (e : Int) :
    mantVal neg ⟨ip, [], e⟩ = dval neg (natOf ip) e := by
  simp [mantVal]

/-- the integer result `roundInt` denotes `(h t + inc) · 10^(e0 + n − |h t|)` -/
theorem roundInt_val (neg : Bool) (h : Char) (t : List Char) (inc : Bool) (e0 : Int) (n : Nat)
    (hh : h.isDigit = true) (ht : AllDig t) (hn : (incStrip t inc).1.length + 1 ≤ n)
    (hg : -9223372036854775808 ≤ e0 ∧ e0 + (n : Int) < 9223372036854775808) :
    mantVal neg (roundInt h (incStrip t inc).1 (incStrip t inc).2
        (wrap64 (e0 + ((n : Int) - ((1 + (incStrip t inc).1.length : Nat) : Int))))) =
      dval neg (natOf (h :: t) + (if inc then 1 else 0)) (e0 + (n : Int) - ((t.length + 1 : Nat) : Int)) := by
  obtain ⟨v1, v2⟩ := incStrip_val t inc ht
  obtain ⟨l1, l2⟩ := incStrip_length t inc
  generalize incStrip t inc = st at v1 v2 l1 l2 hn
  obtain ⟨q, pend⟩ := st
  simp only [] at v1 v2 l1 l2 hn ⊢
  have hw : wrap64 (e0 + ((n : Int) - ((1 + q.length : Nat) : Int))) = e0 + ((n : Int) - ((1 + q.length : Nat) : Int)) :=
    wrap64_id (by omega) (by omega)
  rw [hw]
  unfold roundInt
  cases pend with
  | false =>
    have w := v1 rfl
    simp only [Bool.false_eq_true, if_false]
    rw [mantVal_int]
    have hval : natOf (h :: q) * 10 ^ (t.length - q.length) = natOf (h :: t) + (if inc then 1 else 0) := by
      rw [natOf_cons, natOf_cons, Nat.add_mul, w, Nat.mul_assoc, ← Nat.pow_add]
      have : q.length + (t.length - q.length) = t.length := by omega
      rw [this]; omega
    rw [← hval, dval_shift]
    apply dval_congr; omega
  | true =>
    obtain ⟨w1, w2⟩ := v2 rfl
    have hq := l2 rfl
    subst hq
    subst w2
    simp only [if_true, List.length_nil, Nat.add_zero]
    by_cases h9 : h = '9'
    · simp only [h9, beq_self_eq_true, if_true]
      rw [mantVal_int, wrap64_id (by omega) (by omega)]
      have hval : natOf ['1'] * 10 ^ (t.length + 1) = natOf ('9' :: t) + 1 := by
        rw [natOf_cons '9' t]
        have d9 : dig '9' = 9 := by decide
        have d1 : natOf ['1'] = 1 := by decide
        rw [d9, d1, Nat.pow_succ]; omega
      rw [← hval, dval_shift]
      apply dval_congr; omega
    · have : (h == '9') = false := by simpa using h9
      simp only [this, Bool.false_eq_true, if_false]
      rw [mantVal_int]
      have hval : natOf [incChar h] * 10 ^ t.length = natOf (h :: t) + 1 := by
        rw [natOf_cons h t, natOf_singleton]
        have := dig_incChar hh h9
        unfold dig at this
        rw [this, Nat.add_mul]; unfold dig; omega
      rw [← hval, dval_shift]
      apply dval_congr; omega


theorem cons_val (h : Char) (q t : List Char) (i : Nat) (hl : q.length ≤ t.length)
    (w : natOf q * 10 ^ (t.length - q.length) = natOf t + i) :
    natOf (h :: q) * 10 ^ (t.length - q.length) = natOf (h :: t) + i := by
  rw [natOf_cons, natOf_cons, Nat.add_mul, w, Nat.mul_assoc, ← Nat.pow_add]
  have : q.length + (t.length - q.length) = t.length := by omega
  rw [this]; omega

theorem ge5At_append_left (a b : List Char) (p : Nat) (h : p < a.length) : ge5At (a ++ b) p = ge5At a p := by
  unfold ge5At
  rw [List.drop_append_of_le_length (by omega)]
  cases hd : a.drop p with
  | nil =>
    have := congrArg List.length hd
    simp at this; omega
  | cons c r => rfl

theorem ge5At_append_right (a b : List Char) (i : Nat) : ge5At (a ++ b) (a.length + i) = ge5At b i := by
  unfold ge5At
  rw [List.drop_append]
  have : a.drop (a.length + i) = [] := List.drop_eq_nil_of_le (by omega)
  rw [this]
  simp

/-- position after which `Number` cuts the digits `ip ++ fp` for precision `p` -/
def cutPos (m : Mant) (p : Nat) : Nat :=
  if m.ip.isEmpty then (m.fp.length - (dropZeros m.fp).length) + p else p

theorem roundIp_val (neg : Bool) (h : Char) (tl : List Char) (p : Nat) (inc : Bool) (e0 : Int)
    (hh : h.isDigit = true) (ht : AllDig tl) (hp1 : 1 ≤ p) (hpn : p ≤ tl.length + 1)
    (hg : -9223372036854775808 ≤ e0 ∧ e0 + ((tl.length + 1 : Nat) : Int) < 9223372036854775808) :
    mantVal neg (roundIp h tl p inc e0) =
      dval neg (natOf ((h :: tl).take p) + (if inc then 1 else 0)) (e0 + ((tl.length + 1 : Nat) : Int) - (p : Int)) := by
  unfold roundIp
  have htk : (h :: tl).take p = h :: tl.take (p - 1) := by
    cases p with
    | zero => omega
    | succ q => simp
  have hdr : ((h :: tl).take p).drop 1 = tl.take (p - 1) := by rw [htk]; rfl
  rw [hdr, htk]
  have hlen : (tl.take (p - 1)).length = p - 1 := by simp; omega
  have hq := (incStrip_length (tl.take (p - 1)) inc).1
  have := roundInt_val neg h (tl.take (p - 1)) inc e0 (tl.length + 1) hh (ht.take _) (by omega) (by omega)
  rw [this]
  apply dval_congr
  rw [hlen]; omega


theorem mantVal_eq (neg : Bool) (ip fp : List Char) (e : Int) :
    mantVal neg ⟨ip, fp, e⟩ = dval neg (natOf (ip ++ fp)) (e - (fp.length : Int)) := rfl

/-- the precision branch either leaves the mantissa alone or produces the half-up cut of its digits -/
theorem roundP_val (neg : Bool) (m : Mant) (hm : MantWF m.ip m.fp) (p : Nat) (hp : 0 < p)
    (hg : -9223372036854775808 ≤ m.e ∧ m.e + (mlen m.ip m.fp : Int) < 9223372036854775808) :
    roundP m p = m ∨
    (cutPos m p < (m.ip ++ m.fp).length ∧
      mantVal neg (roundP m p) =
        dval neg (cutVal (m.ip ++ m.fp) (cutPos m p))
          (m.e - (m.fp.length : Int) + (((m.ip ++ m.fp).length - cutPos m p : Nat) : Int))) := by
  obtain ⟨mip, mfp, me⟩ := m
  simp only [] at hm hg ⊢
  unfold roundP cutPos
  simp only []
  cases mip with
  | nil =>
    simp only [List.isEmpty_nil, if_true, List.nil_append]
    obtain ⟨z1, z2, z3⟩ := dropZeros_spec mfp
    generalize hlz : mfp.length - (dropZeros mfp).length = lz at z1 ⊢
    split
    · rename_i hlt
      right
      have hk : lz + p < mfp.length := by omega
      refine ⟨hk, ?_⟩
      have hinc : ge5At (dropZeros mfp) p = ge5At mfp (lz + p) := by
        conv => rhs; rw [z1]
        have := ge5At_append_right (List.replicate lz '0') (dropZeros mfp) p
        simpa using this.symm
      rw [hinc]
      obtain ⟨hl, hv⟩ := roundDAt_val [] mfp (lz + p) AllDig.nil hm.dfp hk
      unfold roundDAt at hl hv
      rw [if_pos hk] at hl hv
      simp only [List.nil_append] at hl hv
      have hincInt : incInt [] = ['1'] := rfl
      rw [hincInt] at hl hv
      unfold cutVal
      rw [← hv]
      cases hpend : (incStrip (mfp.take (lz + p)) (ge5At mfp (lz + p))).2 with
      | true =>
        rw [hpend] at hl hv
        simp only [if_true, List.append_nil, List.length_nil, Nat.sub_zero] at hl hv ⊢
        rw [mantVal_eq, dval_shift]
        apply dval_congr; simp; omega
      | false =>
        rw [hpend] at hl hv
        simp only [Bool.false_eq_true, if_false, List.nil_append] at hl hv ⊢
        rw [mantVal_eq, dval_shift]
        apply dval_congr; omega
    · left; rfl
  | cons h tl =>
    obtain ⟨hh, htl⟩ := hm.dip.of_cons
    have hmc := mlen_cases (h :: tl) mfp
    simp only [List.length_cons] at hmc
    simp only [List.isEmpty_cons, Bool.false_eq_true, if_false]
    split
    · rename_i hf
      have hf0 : mfp = [] := by cases mfp with | nil => rfl | cons _ _ => simp at hf
      subst hf0
      simp only [List.append_nil, List.length_nil, Int.natCast_zero, Int.sub_zero, List.length_cons]
      split
      · rename_i hc
        simp only [Bool.and_eq_true, decide_eq_true_eq] at hc
        right
        refine ⟨hc.1, ?_⟩
        rw [roundIp_val neg h tl p _ me hh htl hp (by omega) (by simp only [List.length_nil] at hmc; omega)]
        unfold cutVal
        apply dval_congr; omega
      · left; rfl
    · rename_i hf
      have hf0 : 0 < mfp.length := by
        cases mfp with
        | nil => simp at hf
        | cons _ _ => simp
      split
      · rename_i hlt
        right
        refine ⟨by simp only [List.length_append, List.length_cons]; omega, ?_⟩
        split
        · rename_i hle
          rw [roundIp_val neg h tl p _ me hh htl hp hle (by omega)]
          unfold cutVal
          have htake : ((h :: tl) ++ mfp).take p = (h :: tl).take p :=
            List.take_append_of_le_length (by simp; omega)
          have hinc : (if p < tl.length + 1 then ge5At (h :: tl) p else ge5At mfp 0) = ge5At ((h :: tl) ++ mfp) p := by
            split
            · rename_i h1; exact (ge5At_append_left (h :: tl) mfp p (by simp; omega)).symm
            · rename_i h1
              have hpe : p = (h :: tl).length + 0 := by simp; omega
              rw [hpe]; exact (ge5At_append_right (h :: tl) mfp 0).symm
          rw [htake, hinc]
          apply dval_congr
          simp only [List.length_append, List.length_cons]; omega
        · rename_i hnle
          have hp2 : tl.length + 1 < p := by omega
          -- the kept digits after the first one
          have htake : ((h :: tl) ++ mfp).take p = h :: (tl ++ mfp.take (p - (tl.length + 1))) := by
            have hp' : p = (p - 1) + 1 := by omega
            rw [List.cons_append, hp', List.take_succ_cons, List.take_append]
            have : tl.take (p - 1) = tl := List.take_of_length_le (by omega)
            rw [this]
            have : p - 1 - tl.length = p - 1 + 1 - (tl.length + 1) := by omega
            rw [this]
          have hinc : ge5At mfp (p - (tl.length + 1)) = ge5At ((h :: tl) ++ mfp) p := by
            have hpe : p = (h :: tl).length + (p - (tl.length + 1)) := by simp; omega
            conv => rhs; rw [hpe]
            exact (ge5At_append_right (h :: tl) mfp _).symm
          have htd : AllDig (tl ++ mfp.take (p - (tl.length + 1))) := htl.append (hm.dfp.take _)
          have htlen : (tl ++ mfp.take (p - (tl.length + 1))).length = p - 1 := by
            simp only [List.length_append, List.length_take]; omega
          obtain ⟨v1, v2⟩ := incStrip_val (tl ++ mfp.take (p - (tl.length + 1))) (ge5At mfp (p - (tl.length + 1))) htd
          obtain ⟨l1, l2⟩ := incStrip_length (tl ++ mfp.take (p - (tl.length + 1))) (ge5At mfp (p - (tl.length + 1)))
          unfold cutVal
          rw [htake, ← hinc]
          split
          · rename_i hk
            simp only [Bool.and_eq_true, Bool.not_eq_true', decide_eq_true_eq] at hk
            have w := v1 hk.1
            have hcv := cons_val h _ _ _ l1 w
            rw [mantVal_eq, ← hcv, dval_shift]
            have : h :: (incStrip (tl ++ mfp.take (p - (tl.length + 1))) (ge5At mfp (p - (tl.length + 1)))).1.take (tl.length + 1 - 1) ++
                (incStrip (tl ++ mfp.take (p - (tl.length + 1))) (ge5At mfp (p - (tl.length + 1)))).1.drop (tl.length + 1 - 1) =
                h :: (incStrip (tl ++ mfp.take (p - (tl.length + 1))) (ge5At mfp (p - (tl.length + 1)))).1 := by
              rw [List.cons_append, List.take_append_drop]
            rw [this]
            apply dval_congr
            rw [htlen] at l1 ⊢
            simp only [List.length_drop, List.length_append, List.length_cons]
            omega
          · rename_i hk
            simp only [Bool.and_eq_true, Bool.not_eq_true', decide_eq_true_eq, not_and, Nat.not_le] at hk
            have hlen : (incStrip (tl ++ mfp.take (p - (tl.length + 1))) (ge5At mfp (p - (tl.length + 1)))).1.length + 1 ≤ tl.length + 1 := by
              cases hpend : (incStrip (tl ++ mfp.take (p - (tl.length + 1))) (ge5At mfp (p - (tl.length + 1)))).2 with
              | true => rw [l2 hpend]; simp
              | false => have := hk hpend; omega
            have := roundInt_val neg h (tl ++ mfp.take (p - (tl.length + 1))) (ge5At mfp (p - (tl.length + 1))) me
              (tl.length + 1) hh htd hlen (by omega)
            rw [this]
            apply dval_congr
            rw [htlen]
            simp only [List.length_append, List.length_cons]
            omega
      · left; rfl

end Verif.Proofs.Num

import Verif.Proofs.NumLex
set_option linter.unusedSimpArgs false
/-!
# C08 — the precision branch: `incStrip`, `incInt`, `roundD`, `roundP` keep digit strings well formed and short
-/
namespace Verif.Proofs.Num
open Verif.Model.Num

theorem digit_cases {c : Char} (h : c.isDigit = true) :
    c = '0' ∨ c = '1' ∨ c = '2' ∨ c = '3' ∨ c = '4' ∨ c = '5' ∨ c = '6' ∨ c = '7' ∨ c = '8' ∨ c = '9' := by
  have h1 := (isDigit_iff c).mp h
  have h2 : c = Char.ofNat c.toNat := (Char.ofNat_toNat c).symm
  have h3 : c.toNat = 48 ∨ c.toNat = 49 ∨ c.toNat = 50 ∨ c.toNat = 51 ∨ c.toNat = 52 ∨ c.toNat = 53 ∨
      c.toNat = 54 ∨ c.toNat = 55 ∨ c.toNat = 56 ∨ c.toNat = 57 := by omega
  rcases h3 with h | h | h | h | h | h | h | h | h | h <;> rw [h] at h2 <;> simp [h2]

/-- incrementing a digit other than `9` gives a non-zero digit -/
theorem incChar_digit {c : Char} (h : c.isDigit = true) (h9 : c ≠ '9') :
    (incChar c).isDigit = true ∧ incChar c ≠ '0' := by
  rcases digit_cases h with rfl | rfl | rfl | rfl | rfl | rfl | rfl | rfl | rfl | rfl
  all_goals first | exact absurd rfl h9 | decide


theorem snoc_ne_snoc {a b : List Char} {x y : Char} (h : x ≠ y) : a ++ [x] ≠ b ++ [y] := by
  intro e
  have := congrArg List.getLast? e
  simp at this
  exact h this

/-- the backwards loop keeps digits, does not lengthen, leaves no trailing zero, and a pending
    increment means that every digit was a nine -/
theorem incStrip_spec (t : List Char) (inc : Bool) (ht : AllDig t) :
    AllDig (incStrip t inc).1 ∧ (incStrip t inc).1.length ≤ t.length ∧
    ((incStrip t inc).2 = true → (incStrip t inc).1 = [] ∧ inc = true) ∧
    (∀ x, (incStrip t inc).1 ≠ x ++ ['0']) := by
  unfold incStrip
  cases inc with
  | false =>
    simp only [Bool.false_eq_true, if_false]
    obtain ⟨_, h2, h3⟩ := dropTrail_spec '0' t
    exact ⟨ht.dropTrail '0', h2, fun h => absurd h (by simp), h3⟩
  | true =>
    simp only [if_true]
    obtain ⟨_, h2, h3⟩ := dropTrail_spec '9' t
    have hd := ht.dropTrail '9'
    generalize dropTrail '9' t = d at h2 h3 hd
    cases hr : d.reverse with
    | nil => simp; exact AllDig.nil
    | cons c r =>
      have hdr : d = r.reverse ++ [c] := by
        have := congrArg List.reverse hr
        simpa using this
      have hc9 : c ≠ '9' := by intro h; rw [h] at hdr; exact h3 _ hdr
      have hcd : c.isDigit = true := hd c (by rw [hdr]; simp)
      obtain ⟨hi1, hi2⟩ := incChar_digit hcd hc9
      have hrd : AllDig r.reverse := by rw [hdr] at hd; exact hd.left
      simp only [List.reverse_cons]
      refine ⟨hrd.append (AllDig.cons hi1 AllDig.nil), ?_, fun h => absurd h (by simp), ?_⟩
      · have : d.length = r.length + 1 := by rw [hdr]; simp
        simp; omega
      · intro x; exact snoc_ne_snoc hi2


theorem incTail_spec (l : List Char) (hl : AllDig l) :
    AllDig (incTail l).1 ∧ (incTail l).1.length = l.length := by
  unfold incTail
  simp only []
  have h0 : l.reverse.takeWhile (· == '9') ++ l.reverse.dropWhile (· == '9') = l.reverse :=
    List.takeWhile_append_dropWhile
  have hlen : (l.reverse.takeWhile (· == '9')).length + (l.reverse.dropWhile (· == '9')).length = l.length := by
    have := congrArg List.length h0
    rw [List.length_append, List.length_reverse] at this
    exact this
  have hdd : AllDig (l.reverse.dropWhile (· == '9')) := by
    have : AllDig (l.reverse.takeWhile (· == '9') ++ l.reverse.dropWhile (· == '9')) := by
      rw [h0]; exact hl.reverse
    exact this.right
  cases hdw : l.reverse.dropWhile (· == '9') with
  | nil =>
    rw [hdw] at hlen
    simp only [List.length_nil, Nat.add_zero] at hlen
    exact ⟨AllDig.replicate_zero _, by simp [hlen]⟩
  | cons c r =>
    rw [hdw] at hlen hdd
    have hne : l.reverse.dropWhile (· == '9') ≠ [] := by rw [hdw]; simp
    have hc9 : c ≠ '9' := by
      have := List.head_dropWhile_not (· == '9') (l := l.reverse) hne
      simp only [hdw, List.head_cons] at this
      simpa using this
    obtain ⟨hcd, hrd⟩ := hdd.of_cons
    obtain ⟨hi1, _⟩ := incChar_digit hcd hc9
    refine ⟨?_, ?_⟩
    · exact ((AllDig.replicate_zero _).append (AllDig.cons hi1 hrd)).reverse
    · simp only [List.length_reverse, List.length_append, List.length_replicate, List.length_cons] at hlen ⊢
      omega

theorem incInt_spec (ip : List Char) (hip : AllDig ip) (hlead : ∀ t, ip ≠ '0' :: t) :
    AllDig (incInt ip) ∧ (incInt ip).length ≤ ip.length + 1 ∧ incInt ip ≠ [] ∧ (∀ t, incInt ip ≠ '0' :: t) := by
  cases ip with
  | nil =>
    refine ⟨?_, by simp [incInt], by simp [incInt], ?_⟩
    · intro c h; simp [incInt] at h; rw [h]; decide
    · intro t h; simp [incInt] at h
  | cons c r =>
    obtain ⟨hcd, hrd⟩ := hip.of_cons
    obtain ⟨ht1, ht2⟩ := incTail_spec r hrd
    have hc0 : c ≠ '0' := by intro h; rw [h] at hlead; exact hlead r rfl
    unfold incInt
    generalize hit : incTail r = it at ht1 ht2
    obtain ⟨r', pend⟩ := it
    simp only [] at ht1 ht2
    cases pend with
    | false =>
      simp only [hit]
      refine ⟨AllDig.cons hcd ht1, by simp [ht2], by simp, ?_⟩
      intro t h; injection h with h1 _; exact hc0 h1
    | true =>
      simp only [hit]
      by_cases h9 : c = '9'
      · simp only [h9, beq_self_eq_true, if_true]
        refine ⟨?_, by simp [ht2], by simp, ?_⟩
        · apply AllDig.cons (by decide)
          exact ht1.append (AllDig.cons (by decide) AllDig.nil)
        · intro t h; injection h with h1 _; cases h1
      · have : (c == '9') = false := by simpa using h9
        simp only [this, Bool.false_eq_true, if_false]
        obtain ⟨hi1, hi2⟩ := incChar_digit hcd h9
        refine ⟨AllDig.cons hi1 ht1, by simp [ht2], by simp, ?_⟩
        intro t h; injection h with h1 _; exact hi2 h1


/-! ## lengths, for arbitrary bytes -/

theorem incStrip_length (t : List Char) (inc : Bool) :
    (incStrip t inc).1.length ≤ t.length ∧ ((incStrip t inc).2 = true → (incStrip t inc).1 = []) := by
  unfold incStrip
  cases inc with
  | false =>
    simp only [Bool.false_eq_true, if_false]
    exact ⟨dropTrail_length_le '0' t, fun h => absurd h (by simp)⟩
  | true =>
    simp only [if_true]
    have h2 := dropTrail_length_le '9' t
    generalize dropTrail '9' t = d at h2
    cases hr : d.reverse with
    | nil => simp
    | cons c r =>
      have : d.length = r.length + 1 := by
        have := congrArg List.length hr
        simpa using this
      simp; omega

theorem incTail_length (l : List Char) : (incTail l).1.length = l.length := by
  unfold incTail
  simp only []
  have hlen : (l.reverse.takeWhile (· == '9')).length + (l.reverse.dropWhile (· == '9')).length = l.length := by
    have := congrArg List.length (List.takeWhile_append_dropWhile (p := (· == '9')) (l := l.reverse))
    rw [List.length_append, List.length_reverse] at this
    exact this
  cases hdw : l.reverse.dropWhile (· == '9') with
  | nil => rw [hdw] at hlen; simp at hlen ⊢; omega
  | cons c r => rw [hdw] at hlen; simp at hlen ⊢; omega

theorem incInt_length (ip : List Char) : (incInt ip).length ≤ ip.length + 1 := by
  cases ip with
  | nil => simp [incInt]
  | cons c r =>
    have ht := incTail_length r
    unfold incInt
    generalize hit : incTail r = it at ht
    obtain ⟨r', pend⟩ := it
    simp only [] at ht
    cases pend with
    | false => simp [hit, ht]
    | true =>
      simp only [hit]
      split <;> simp [ht]

theorem roundDAt_length (ip fp : List Char) (k : Nat) :
    mlen (roundDAt ip fp k).1 (roundDAt ip fp k).2 ≤ mlen ip fp := by
  unfold roundDAt
  split
  · rename_i hk
    obtain ⟨h1, h2⟩ := incStrip_length (fp.take k) (ge5At fp k)
    generalize incStrip (fp.take k) (ge5At fp k) = st at h1 h2
    obtain ⟨t, pend⟩ := st
    simp only [List.length_take] at h1 h2 ⊢
    have hm := mlen_cases ip fp
    cases pend with
    | true =>
      simp only [if_true]
      have := incInt_length ip
      have hm2 := mlen_cases (incInt ip) []
      simp only [List.length_nil] at hm2
      omega
    | false =>
      simp only [Bool.false_eq_true, if_false]
      have hm2 := mlen_cases ip t
      omega
  · exact Nat.le_refl _

theorem roundD_length (ip fp : List Char) (p : Nat) :
    mlen (roundD ip fp p).1 (roundD ip fp p).2 ≤ mlen ip fp := roundDAt_length ip fp _

end Verif.Proofs.Num

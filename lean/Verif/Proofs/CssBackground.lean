import Verif.Proofs.CssShorthand
/-!
# Lemmas about the `background` case (C04B)

`background_ok_partial`: for layers without position / size component, without a repeat pair and without the
`padding-box … border-box` pair, the token loop of the code is a per-token filter (`bgLoop_simple`), and the
specification reads the filtered layer like the original one (`sim`: simulation of `layerGo` on both lists, invariant
`Inv`: a component that was not set has its initial value; marks of removed tokens only on the input side).
-/
namespace Verif.Proofs.CssBackground
open Verif.Spec.CssValue
open Verif.Model.Css Verif.Model.CssShorthand Verif.Spec.CssShorthand

/-- the rewrite of one token of a layer without position, size, repeat pair and box pair: `none` = removed -/
def bgF (t : Tok) : Option Tok :=
  if (minifyColor t).tt == .ident &&
      (identOf t == Verif.Model.Css.S "none" || identOf t == Verif.Model.Css.S "scroll" || identOf t == Verif.Model.Css.S "transparent") then none
  else if (minifyColor t).tt == .hash && (minifyColor t).data == Verif.Model.Css.S "#0000" then none
  else some (minifyColor t)

/-- model-side guard of one token: not part of a position run, not a slash -/
def mTok (t : Tok) : Bool :=
  !((minifyColor t).tt == .number || isLengthPercentage (minifyColor t) || posKws.contains (identOf t)) &&
  !Verif.Model.Css.isSlash (minifyColor t)

def isRepeatish (t : Tok) : Bool := repeatish.contains (identOf t)

/-- no two adjacent tokens are both repeat keywords of the pair form -/
def pairFree : List Tok → Bool
  | a :: b :: r => !(isRepeatish a && isRepeatish b) && pairFree (b :: r)
  | _ => true

def hasPadding (l : List Tok) : Bool := l.any fun t => identOf t == Verif.Model.Css.S "padding-box"
def hasBorder (l : List Tok) : Bool := l.any fun t => identOf t == Verif.Model.Css.S "border-box"

def boxOk (pb : PB) (l : List Tok) : Bool :=
  match pb with
  | .unset => !(hasPadding l && hasBorder l)
  | _ => !hasBorder l

/-- the identifier branch of the loop behind the repeat-pair test, with the recursive call as a parameter -/
def identBranch (K : List Tok → PB → Option (List Tok)) (t : Tok) (acc : List Tok) (pb : PB) : Option (List Tok) :=
  if (identOf t == Verif.Model.Css.S "none" || identOf t == Verif.Model.Css.S "scroll" ||
      identOf t == Verif.Model.Css.S "transparent") = true then K acc pb
  else if boxKws.contains (identOf t) = true then
    match pb with
    | .unset => if (identOf t == Verif.Model.Css.S "padding-box") = true then K (acc ++ [minifyColor t]) (.at acc.length)
                else K (acc ++ [minifyColor t]) pb
    | .at k => if (identOf t == Verif.Model.Css.S "border-box") = true then K (acc.eraseIdx k) .unset
               else K (acc ++ [minifyColor t]) pb
    | .stale => if (identOf t == Verif.Model.Css.S "border-box") = true then none else K (acc ++ [minifyColor t]) pb
  else K (acc ++ [minifyColor t]) pb

theorem ident_rest (K : List Tok → PB → Option (List Tok)) (tail : List Tok) (t : Tok) (r : List Tok) (acc : List Tok) (pb : PB)
    (hid : ((minifyColor t).tt == TT.ident) = true)
    (hb : boxOk pb (t :: r) = true)
    (hK : ∀ acc' pb', (pb' = pb ∨ (pb = .unset ∧ identOf t = Verif.Model.Css.S "padding-box")) → K acc' pb' = some (acc' ++ tail)) :
    identBranch K t acc pb =
      some (acc ++ (match bgF t with | none => tail | some b => b :: tail)) := by
  unfold identBranch
  by_cases hd : (identOf t == Verif.Model.Css.S "none" || identOf t == Verif.Model.Css.S "scroll" ||
      identOf t == Verif.Model.Css.S "transparent") = true
  · have hF : bgF t = none := by simp [bgF, hid, hd]
    simp only [hd, if_true, hF]
    exact hK acc pb (Or.inl rfl)
  · have hd' : (identOf t == Verif.Model.Css.S "none" || identOf t == Verif.Model.Css.S "scroll" ||
        identOf t == Verif.Model.Css.S "transparent") = false := by simpa using hd
    have hF : bgF t = some (minifyColor t) := by
      have : ¬ ((minifyColor t).tt == TT.hash) = true := by
        have : (minifyColor t).tt = TT.ident := by simpa using hid
        rw [this]; decide
      simp [bgF, hid, hd', this]
    simp only [hd', Bool.false_eq_true, if_false, hF]
    by_cases hbx : boxKws.contains (identOf t) = true
    · simp only [hbx, if_true]
      cases pb with
      | unset =>
        by_cases hpad : (identOf t == Verif.Model.Css.S "padding-box") = true
        · simp only [hpad, if_true]
          rw [hK _ _ (Or.inr ⟨rfl, by simpa using hpad⟩)]
          simp
        · simp only [hpad, Bool.false_eq_true, if_false]
          rw [hK _ _ (Or.inl rfl)]
          simp
      | «at» k =>
        have hnb : (identOf t == Verif.Model.Css.S "border-box") = false := by
          simp only [boxOk, hasBorder, List.any_cons, Bool.not_eq_true', Bool.or_eq_false_iff] at hb
          exact hb.1
        simp only [hnb, Bool.false_eq_true, if_false]
        rw [hK _ _ (Or.inl rfl)]
        simp
      | stale =>
        have hnb : (identOf t == Verif.Model.Css.S "border-box") = false := by
          simp only [boxOk, hasBorder, List.any_cons, Bool.not_eq_true', Bool.or_eq_false_iff] at hb
          exact hb.1
        simp only [hnb, Bool.false_eq_true, if_false]
        rw [hK _ _ (Or.inl rfl)]
        simp
    · simp only [hbx, Bool.false_eq_true, if_false]
      rw [hK _ _ (Or.inl rfl)]
      simp

theorem bgLoop_simple : ∀ (fuel : Nat) (acc : List Tok) (pb : PB) (rest : List Tok), rest.length < fuel →
    (∀ t ∈ rest, mTok t = true) → pairFree rest = true → boxOk pb rest = true →
    bgLoop fuel acc pb rest = some (acc ++ rest.filterMap bgF) := by
  intro fuel
  induction fuel with
  | zero => intro acc pb rest h; omega
  | succ fuel ih =>
    intro acc pb rest hlen hm hp hb
    cases rest with
    | nil => simp [bgLoop]
    | cons t r =>
      have hlen' : r.length < fuel := by simp at hlen; omega
      have hmt := hm t List.mem_cons_self
      have hmr : ∀ x ∈ r, mTok x = true := fun x hx => hm x (List.mem_cons_of_mem _ hx)
      have hpr : pairFree r = true := by
        cases r with
        | nil => rfl
        | cons b r' => simp only [pairFree, Bool.and_eq_true] at hp; exact hp.2
      simp only [mTok, Bool.and_eq_true, Bool.not_eq_true', Bool.or_eq_false_iff] at hmt
      obtain ⟨⟨⟨hm1, hm2⟩, hm3⟩, hm4⟩ := hmt
      have hpos : ((minifyColor t).tt == TT.number || isLengthPercentage (minifyColor t) || posKws.contains (identOf t)) = false := by
        simp only [hm1, hm2, hm3, Bool.or_self]
      have hbr : ∀ pb', (pb' = pb ∨ (pb = .unset ∧ identOf t = Verif.Model.Css.S "padding-box")) → boxOk pb' r = true := by
        intro pb' hpb'
        rcases hpb' with rfl | ⟨hu, hpad⟩
        · cases pb' <;> simp_all [boxOk, hasPadding, hasBorder]
          rcases hb with hb | hb
          · exact Or.inl hb.2
          · exact Or.inr hb.2
        · subst hu
          cases pb' <;> simp_all [boxOk, hasPadding, hasBorder]
      have ihr := fun acc' pb' hb' => ih acc' pb' r hlen' hmr hpr hb'
      unfold bgLoop
      simp only [List.filterMap_cons]
      by_cases hid : ((minifyColor t).tt == TT.ident) = true
      · simp only [hid, if_true]
        have hrest := ident_rest (fun acc' pb' => bgLoop fuel acc' pb' r) (List.filterMap bgF r) t r acc pb hid hb
          (fun acc' pb' hpb' => ihr acc' pb' (hbr pb' hpb'))
        rcases r with _ | ⟨n, r'⟩
        · simp only [Bool.false_and, Bool.false_eq_true, if_false, hpos]
          exact (by unfold identBranch at hrest; simp only at hrest; revert hrest; cases pb <;> (intro h; cases hF : bgF t <;> (simp only [hF] at h ⊢; exact h)))
        · by_cases hrep : (n.tt == TT.ident && repeatish.contains (identOf t)) = true
          · simp only [hrep, if_true]
            simp only [Bool.and_eq_true] at hrep
            have hnd : (identOf t == Verif.Model.Css.S "none" || identOf t == Verif.Model.Css.S "scroll" ||
                identOf t == Verif.Model.Css.S "transparent") = false := by
              have : ∀ k, repeatish.contains k = true → (k == Verif.Model.Css.S "none" || k == Verif.Model.Css.S "scroll" ||
                  k == Verif.Model.Css.S "transparent") = false := by
                intro k hk
                simp only [repeatish, List.map, List.contains_cons, List.contains_nil, Bool.or_false, Bool.or_eq_true, beq_iff_eq] at hk
                rcases hk with rfl | rfl | rfl | rfl <;> decide
              exact this _ hrep.2
            have hF : bgF t = some (minifyColor t) := by
              have : ¬ ((minifyColor t).tt == TT.hash) = true := by
                have : (minifyColor t).tt = TT.ident := by simpa using hid
                rw [this]; decide
              simp [bgF, hid, hnd, this]
            have hn : repeatish.contains (identOf n) = false := by
              simp only [pairFree, isRepeatish, Bool.and_eq_true, Bool.not_eq_true', Bool.and_eq_false_iff] at hp
              rcases hp.1 with h1 | h1
              · rw [hrep.2] at h1; simp at h1
              · exact h1
            simp only [hn, Bool.false_eq_true, if_false, hpos]
            rw [ihr _ pb (hbr pb (Or.inl rfl)), hF]
            simp
          · simp only [hrep, Bool.false_eq_true, if_false, hpos]
            exact (by unfold identBranch at hrest; simp only at hrest; revert hrest; cases pb <;> (intro h; cases hF : bgF t <;> (simp only [hF] at h ⊢; exact h)))
      · have hid' : ((minifyColor t).tt == TT.ident) = false := by simpa using hid
        simp only [hid', Bool.false_eq_true, if_false]
        by_cases hh : ((minifyColor t).tt == TT.hash && (minifyColor t).data == Verif.Model.Css.S "#0000") = true
        · have hF : bgF t = none := by simp [bgF, hid', hh]
          simp only [hh, if_true, hF]
          exact ihr acc pb (hbr pb (Or.inl rfl))
        · have hh' : ((minifyColor t).tt == TT.hash && (minifyColor t).data == Verif.Model.Css.S "#0000") = false := by simpa using hh
          have hF : bgF t = some (minifyColor t) := by simp [bgF, hid', hh']
          simp only [hh', Bool.false_eq_true, if_false, hF, hm4, hpos]
          split
          · rw [ihr _ _ (hbr _ (Or.inl rfl))]; simp
          · rw [ihr _ _ (hbr _ (Or.inl rfl))]; simp
def isRepTok (t : Tok) : Bool :=
  (kwOf t).any fun k => repeatKeywords.contains k || k == Verif.Spec.CssShorthand.S "repeat-x" || k == Verif.Spec.CssShorthand.S "repeat-y"
def isAttTok (t : Tok) : Bool := (kwOf t).any attachments.contains
def isBoxTok (t : Tok) : Bool := (kwOf t).any boxes.contains

/-- colour component as `layerGo` stores it -/
def cval (t : Tok) : Tok := if t.tt == .ident && !(rgba t).isSome then .mk .ident (lower t.data) [] else normTok [] t

/-- the component a token (that is no position token) sets, as `layerGo` reads it -/
inductive KC where
  | img (v : Option Tok) | rep | att (k : List Char) | box (k : List Char) | col (v : Tok)
  deriving DecidableEq

def kc (t : Tok) : Option KC :=
  if isKw t "none" || isImageTok t then some (.img (if isKw t "none" then none else some (normTok [] t)))
  else if isRepTok t then some .rep
  else if isAttTok t then some (.att (lower t.data))
  else if isBoxTok t then some (.box (lower t.data))
  else if isColorTok t then some (.col (cval t))
  else none

/-- one step of `layerGo` on a token that is neither a position nor a repeat token -/
theorem layerGo_step (last : Bool) (fuel : Nat) (t : Tok) (r : List Tok) (d : BgLayer) (used : List BgSlot)
    (hp : isPosTok t = false) (hr : isRepTok t = false) :
    layerGo last (fuel + 1) (t :: r) d used =
      match kc t with
      | some (.img v) => if used.contains .image then none else layerGo last fuel r { d with image := v } (.image :: used)
      | some (.att k) => if used.contains .attachment then none else layerGo last fuel r { d with attachment := k } (.attachment :: used)
      | some (.box k) =>
        if used.contains .box2 then none
        else if used.contains .box1 then layerGo last fuel r { d with clip := k } (.box2 :: used)
        else layerGo last fuel r { d with origin := k, clip := k } (.box1 :: used)
      | some (.col v) => if !last || used.contains .color then none else layerGo last fuel r { d with color := v } (.color :: used)
      | _ => none := by
  have hr' : ((kwOf t).any fun k => repeatKeywords.contains k || k == Verif.Spec.CssShorthand.S "repeat-x" ||
      k == Verif.Spec.CssShorthand.S "repeat-y") = false := hr
  conv => lhs; unfold layerGo
  unfold kc
  simp only [hp, Bool.false_eq_true, if_false, hr', hr]
  by_cases h1 : (isKw t "none" || isImageTok t) = true
  · simp only [h1, if_true]
  · simp only [h1, Bool.false_eq_true, if_false]
    by_cases h2 : isAttTok t = true
    · have h2' : ((kwOf t).any attachments.contains) = true := h2
      simp only [h2, h2', if_true]
    · have h2' : ((kwOf t).any attachments.contains) = false := by simpa [isAttTok] using h2
      have h2'' : isAttTok t = false := by simpa using h2
      simp only [h2', h2'', Bool.false_eq_true, if_false]
      by_cases h3 : isBoxTok t = true
      · have h3' : ((kwOf t).any boxes.contains) = true := h3
        simp only [h3, h3', if_true]
      · have h3' : ((kwOf t).any boxes.contains) = false := by simpa [isBoxTok] using h3
        have h3'' : isBoxTok t = false := by simpa using h3
        simp only [h3', h3'', Bool.false_eq_true, if_false]
        by_cases h4 : isColorTok t = true
        · simp only [h4, if_true, cval]
        · simp [h4]


end Verif.Proofs.CssBackground
namespace Verif.Proofs.CssBackground
open Verif.Spec.CssValue
open Verif.Model.Css Verif.Model.CssShorthand Verif.Spec.CssShorthand

/-- specification-side guard of one token: no position token, and the colour rewrite of the code keeps the component
class and value of the token (for colours this is `Props.C04.color_ok_partial` + the colour tables) -/
def sTok (t : Tok) : Bool :=
  !isPosTok t && !isPosTok (minifyColor t) && kc (minifyColor t) == kc t && (isRepTok (minifyColor t) == isRepTok t) &&
  (!isRepTok t || minifyColor t == t)

theorem rep_not_img (t : Tok) (h : isRepTok t = true) : (isKw t "none" || isImageTok t) = false := by
  rcases t with ⟨tt, d, a⟩
  simp only [isRepTok, kwOf, Tok.tt, Tok.data] at h
  by_cases hi : (tt == TT.ident) = true
  · have : tt = .ident := by simpa using hi
    subst this
    simp only [beq_self_eq_true, if_true, Option.any_some, Bool.or_eq_true, beq_iff_eq] at h
    simp only [isKw, kwOf, Tok.tt, Tok.data, beq_self_eq_true, if_true, isImageTok, Bool.or_eq_false_iff]
    refine ⟨?_, by simp⟩
    rcases h with (h | h) | h
    · simp only [repeatKeywords, List.map, List.contains_cons, List.contains_nil, Bool.or_false, Bool.or_eq_true, beq_iff_eq] at h
      rcases h with h | h | h | h <;> (rw [h]; decide)
    · rw [h]; decide
    · rw [h]; decide
  · simp [hi] at h

theorem bgRepeat_pair_rep (t n : Tok) (h : isRepTok n = false) : bgRepeat [t, n] = none := by
  unfold bgRepeat
  cases h1 : kwOf t with
  | none => simp [h1]
  | some x =>
    cases h2 : kwOf n with
    | none => simp [h1, h2]
    | some y =>
      simp only [isRepTok, h2, Option.any_some, Bool.or_eq_false_iff] at h
      have : ¬ y ∈ repeatKeywords := by
        have := h.1.1
        simpa using this
      simp [h1, h2, this]

/-- one step of `layerGo` on a repeat token that is followed by no repeat token -/
theorem layerGo_rep (last : Bool) (fuel : Nat) (t : Tok) (r : List Tok) (d : BgLayer) (used : List BgSlot)
    (hp : isPosTok t = false) (hr : isRepTok t = true) (hn : ∀ n ∈ r.head?, isRepTok n = false) :
    layerGo last (fuel + 1) (t :: r) d used =
      if used.contains .rep then none else
      match r with
      | [] => (bgRepeat [t]).map fun rp => { d with rep := rp }
      | _ :: _ => (bgRepeat [t]).bind fun rp => layerGo last fuel r { d with rep := rp } (.rep :: used) := by
  have hr' : ((kwOf t).any fun k => repeatKeywords.contains k || k == Verif.Spec.CssShorthand.S "repeat-x" ||
      k == Verif.Spec.CssShorthand.S "repeat-y") = true := hr
  have h1 := rep_not_img t hr
  conv => lhs; unfold layerGo
  simp only [h1, hp, Bool.false_eq_true, if_false, hr', if_true]
  cases r with
  | nil => rfl
  | cons n r' =>
    have := bgRepeat_pair_rep t n (hn n (by simp))
    simp only [this]

end Verif.Proofs.CssBackground

namespace Verif.Proofs.CssBackground
open Verif.Spec.CssValue
open Verif.Model.Css Verif.Model.CssShorthand Verif.Spec.CssShorthand
open Verif.Proofs.CssShorthand (identOf_eq)

theorem kc_hash_args (d : List Char) (a : List Tok) : kc (.mk .hash d a) = kc (.mk .hash d []) := by
  simp [kc, isKw, kwOf, isImageTok, isRepTok, isAttTok, isBoxTok, isColorTok, cval, rgba, normTok, Tok.tt, Tok.data, funcName]

theorem kc_black : kc (.mk .hash (Verif.Model.Css.S "#0000") []) = some (.col transparentTok) := by decide +kernel

theorem kc_none (d : List Char) (a : List Tok) (h : lower d = Verif.Model.Css.S "none") :
    kc (.mk .ident d a) = some (.img none) := by
  simp [kc, isKw, kwOf, Tok.tt, Tok.data, h, Verif.Model.Css.S]

theorem kc_scroll (d : List Char) (a : List Tok) (h : lower d = Verif.Model.Css.S "scroll") :
    kc (.mk .ident d a) = some (.att (Verif.Model.Css.S "scroll")) := by
  have e1 : isKw (.mk .ident d a) "none" = false := by simp [isKw, kwOf, Tok.tt, Tok.data, h, Verif.Model.Css.S]
  have e2 : isImageTok (.mk .ident d a) = false := by simp [isImageTok, Tok.tt]
  have e3 : isRepTok (.mk .ident d a) = false := by
    simp only [isRepTok, kwOf, Tok.tt, Tok.data, beq_self_eq_true, if_true, h, Option.any_some]; decide
  have e4 : isAttTok (.mk .ident d a) = true := by
    simp only [isAttTok, kwOf, Tok.tt, Tok.data, beq_self_eq_true, if_true, h, Option.any_some]; decide
  simp [kc, e1, e2, e3, e4, Tok.data, h]

theorem kc_transparent (d : List Char) (a : List Tok) (h : lower d = Verif.Model.Css.S "transparent") :
    kc (.mk .ident d a) = some (.col transparentTok) := by
  have e1 : isKw (.mk .ident d a) "none" = false := by simp [isKw, kwOf, Tok.tt, Tok.data, h, Verif.Model.Css.S]
  have e2 : isImageTok (.mk .ident d a) = false := by simp [isImageTok, Tok.tt]
  have e3 : isRepTok (.mk .ident d a) = false := by
    simp only [isRepTok, kwOf, Tok.tt, Tok.data, beq_self_eq_true, if_true, h, Option.any_some]; decide
  have e4 : isAttTok (.mk .ident d a) = false := by
    simp only [isAttTok, kwOf, Tok.tt, Tok.data, beq_self_eq_true, if_true, h, Option.any_some]; decide
  have e5 : isBoxTok (.mk .ident d a) = false := by
    simp only [isBoxTok, kwOf, Tok.tt, Tok.data, beq_self_eq_true, if_true, h, Option.any_some]; decide
  have hn : namedColor d = namedColor (Verif.Model.Css.S "transparent") := by
    simp only [namedColor, h]; rfl
  have hs : (namedColor (Verif.Model.Css.S "transparent")).isSome = true := by decide +kernel
  have e6 : isColorTok (.mk .ident d a) = true := by
    simp [isColorTok, rgba, Tok.tt, Tok.data, hn, hs]
  have e7 : cval (.mk .ident d a) = transparentTok := by
    simp only [cval, rgba, Tok.tt, Tok.data, hn, hs, Bool.not_true, Bool.and_false, Bool.false_eq_true, if_false,
      normTok, transparentTok]
    rfl
  simp [kc, e1, e2, e3, e4, e5, e6, e7]

end Verif.Proofs.CssBackground

namespace Verif.Proofs.CssBackground
open Verif.Spec.CssValue
open Verif.Model.Css Verif.Model.CssShorthand Verif.Spec.CssShorthand
open Verif.Proofs.CssShorthand (identOf_eq)

/-- a removed token sets its component to the initial value -/
theorem dropped_initial (t : Tok) (h : bgF t = none) (hs : sTok t = true) :
    kc t = some (.img none) ∨ kc t = some (.att (Verif.Model.Css.S "scroll")) ∨ kc t = some (.col transparentTok) := by
  unfold bgF at h
  split at h
  · rename_i hc
    simp only [Bool.and_eq_true, Bool.or_eq_true, beq_iff_eq] at hc
    obtain ⟨_, hk⟩ := hc
    rcases t with ⟨tt, d, a⟩
    rcases hk with (hk | hk) | hk
    · obtain ⟨h1, h2⟩ := identOf_eq hk (by decide)
      simp only [Tok.tt, Tok.data] at h1 h2
      subst h1
      exact Or.inl (kc_none d a h2)
    · obtain ⟨h1, h2⟩ := identOf_eq hk (by decide)
      simp only [Tok.tt, Tok.data] at h1 h2
      subst h1
      exact Or.inr (Or.inl (kc_scroll d a h2))
    · obtain ⟨h1, h2⟩ := identOf_eq hk (by decide)
      simp only [Tok.tt, Tok.data] at h1 h2
      subst h1
      exact Or.inr (Or.inr (kc_transparent d a h2))
  · split at h
    · rename_i hc
      simp only [Bool.and_eq_true, beq_iff_eq] at hc
      simp only [sTok, Bool.and_eq_true, beq_iff_eq] at hs
      have hkc := hs.1.1.2
      rcases hy : minifyColor t with ⟨ytt, yd, ya⟩
      rw [hy] at hc hkc
      simp only [Tok.tt, Tok.data] at hc
      obtain ⟨rfl, rfl⟩ := hc
      rw [kc_hash_args, kc_black] at hkc
      exact Or.inr (Or.inr hkc.symm)
    · simp at h

end Verif.Proofs.CssBackground

namespace Verif.Proofs.CssBackground
open Verif.Spec.CssValue
open Verif.Model.Css Verif.Model.CssShorthand Verif.Spec.CssShorthand

structure Inv (d : BgLayer) (used used' : List BgSlot) : Prop where
  sub : ∀ s, s ∈ used' → s ∈ used
  b1 : BgSlot.box1 ∈ used → BgSlot.box1 ∈ used'
  b2 : BgSlot.box2 ∈ used → BgSlot.box2 ∈ used'
  img : BgSlot.image ∉ used → d.image = none
  att : BgSlot.attachment ∉ used → d.attachment = Verif.Model.Css.S "scroll"
  col : BgSlot.color ∉ used → d.color = transparentTok

theorem Inv.both {d d' : BgLayer} {used used' : List BgSlot} (h : Inv d used used') (s : BgSlot)
    (hi : s ≠ .image → d'.image = d.image) (ha : s ≠ .attachment → d'.attachment = d.attachment)
    (hc : s ≠ .color → d'.color = d.color) : Inv d' (s :: used) (s :: used') where
  sub := fun x hx => by
    rcases List.mem_cons.mp hx with rfl | hx
    · exact List.mem_cons_self
    · exact List.mem_cons_of_mem _ (h.sub x hx)
  b1 := fun hx => by
    rcases List.mem_cons.mp hx with e | hx
    · rw [← e]; exact List.mem_cons_self
    · exact List.mem_cons_of_mem _ (h.b1 hx)
  b2 := fun hx => by
    rcases List.mem_cons.mp hx with e | hx
    · rw [← e]; exact List.mem_cons_self
    · exact List.mem_cons_of_mem _ (h.b2 hx)
  img := fun hx => by
    have h1 : BgSlot.image ∉ used := fun hm => hx (List.mem_cons_of_mem _ hm)
    have h2 : s ≠ .image := fun e => hx (e ▸ List.mem_cons_self)
    rw [hi h2]; exact h.img h1
  att := fun hx => by
    have h1 : BgSlot.attachment ∉ used := fun hm => hx (List.mem_cons_of_mem _ hm)
    have h2 : s ≠ .attachment := fun e => hx (e ▸ List.mem_cons_self)
    rw [ha h2]; exact h.att h1
  col := fun hx => by
    have h1 : BgSlot.color ∉ used := fun hm => hx (List.mem_cons_of_mem _ hm)
    have h2 : s ≠ .color := fun e => hx (e ▸ List.mem_cons_self)
    rw [hc h2]; exact h.col h1

/-- a token removed from the output: only the input marks its component -/
theorem Inv.drop {d : BgLayer} {used used' : List BgSlot} (h : Inv d used used') (s : BgSlot)
    (hs1 : s ≠ .box1) (hs2 : s ≠ .box2) : Inv d (s :: used) used' where
  sub := fun x hx => List.mem_cons_of_mem _ (h.sub x hx)
  b1 := fun hx => by
    rcases List.mem_cons.mp hx with e | hx
    · exact absurd e.symm hs1
    · exact h.b1 hx
  b2 := fun hx => by
    rcases List.mem_cons.mp hx with e | hx
    · exact absurd e.symm hs2
    · exact h.b2 hx
  img := fun hx => h.img (fun hm => hx (List.mem_cons_of_mem _ hm))
  att := fun hx => h.att (fun hm => hx (List.mem_cons_of_mem _ hm))
  col := fun hx => h.col (fun hm => hx (List.mem_cons_of_mem _ hm))

theorem bgF_some (t y : Tok) (h : bgF t = some y) : y = minifyColor t := by
  unfold bgF at h
  split at h
  · simp at h
  · split at h
    · simp at h
    · exact (Option.some.inj h).symm

end Verif.Proofs.CssBackground

namespace Verif.Proofs.CssBackground
open Verif.Spec.CssValue
open Verif.Model.Css Verif.Model.CssShorthand Verif.Spec.CssShorthand

theorem contains_false_of_sub {used used' : List BgSlot} (hsub : ∀ s, s ∈ used' → s ∈ used) (s : BgSlot)
    (h : used.contains s = false) : used'.contains s = false := by
  cases hc : used'.contains s with
  | false => rfl
  | true =>
    have : s ∈ used := hsub s (by simpa using hc)
    simp_all

theorem kc_rep (t : Tok) (h : isRepTok t = true) : kc t = some .rep := by
  have := rep_not_img t h
  simp [kc, this, h]

/-- **simulation**: the specification reads the rewritten layer like the original one -/
theorem sim (last : Bool) : ∀ (ts : List Tok), (∀ t ∈ ts, sTok t = true) → (ts.filter isRepTok).length ≤ 1 →
    ∀ (d : BgLayer) (used used' : List BgSlot) (r : BgLayer) (F F' : Nat), ts.length < F →
      (ts.filterMap bgF).length < F' → Inv d used used' →
      layerGo last F ts d used = some r → layerGo last F' (ts.filterMap bgF) d used' = some r := by
  intro ts
  induction ts with
  | nil =>
    intro _ _ d used used' r F F' hF hF' _ h
    cases F with
    | zero => simp at hF
    | succ F0 =>
      cases F' with
      | zero => simp at hF'
      | succ F0' =>
        simp only [layerGo, Option.some.injEq] at h
        simp [layerGo, h]
  | cons t rest ih =>
    intro hall hrepn d used used' r F F' hF hF' hinv h
    have hst := hall t List.mem_cons_self
    have hallr : ∀ x ∈ rest, sTok x = true := fun x hx => hall x (List.mem_cons_of_mem _ hx)
    simp only [sTok, Bool.and_eq_true, Bool.not_eq_true', beq_iff_eq, Bool.or_eq_true] at hst
    obtain ⟨⟨⟨⟨hp, hpy⟩, hkc⟩, hry⟩, hfix⟩ := hst
    cases F with
    | zero => simp at hF
    | succ F0 =>
      have hF0 : rest.length < F0 := by simp at hF; omega
      by_cases hrep : isRepTok t = true
      · -- the (only) repeat token of the layer
        have hrestn : ∀ n ∈ rest, isRepTok n = false := by
          simp only [List.filter_cons, hrep, if_true, List.length_cons] at hrepn
          have : (rest.filter isRepTok).length = 0 := by omega
          have hnil := List.eq_nil_of_length_eq_zero this
          intro n hn
          cases hc : isRepTok n with
          | false => rfl
          | true =>
            have : n ∈ rest.filter isRepTok := List.mem_filter.mpr ⟨hn, hc⟩
            rw [hnil] at this; simp at this
        have hy : minifyColor t = t := by
          rcases hfix with h1 | h1
          · rw [hrep] at h1; simp at h1
          · exact h1
        have hF : bgF t = some t := by
          cases hb : bgF t with
          | none =>
            have hs : sTok t = true := hall t List.mem_cons_self
            have := dropped_initial t hb hs
            rw [kc_rep t hrep] at this
            simp at this
          | some y => rw [bgF_some t y hb, hy]
        have hrepr : (rest.filter isRepTok).length ≤ 1 := by
          simp only [List.filter_cons, hrep, if_true, List.length_cons] at hrepn; omega
        have hoht : ∀ n ∈ (rest.filterMap bgF).head?, isRepTok n = false := by
          intro n hn
          have hmem : n ∈ rest.filterMap bgF := List.mem_of_mem_head? hn
          obtain ⟨x, hx, hxn⟩ := List.mem_filterMap.mp hmem
          have hsx := hallr x hx
          simp only [sTok, Bool.and_eq_true, beq_iff_eq] at hsx
          rw [bgF_some x n hxn, hsx.1.2]
          exact hrestn x hx
        rw [layerGo_rep last F0 t rest d used hp hrep (fun n hn => hrestn n (List.mem_of_mem_head? hn))] at h
        simp only [List.filterMap_cons, hF]
        cases F' with
        | zero => simp at hF'
        | succ F0' =>
          rw [layerGo_rep last F0' t _ d used' hp hrep hoht]
          cases hcu : used.contains BgSlot.rep with
          | true =>
            simp only [hcu, if_true] at h
            simp at h
          | false =>
            simp only [hcu, Bool.false_eq_true, if_false] at h
            simp only [contains_false_of_sub hinv.sub _ hcu, Bool.false_eq_true, if_false]
            cases hbr : bgRepeat [t] with
            | none => cases rest <;> simp [hbr] at h
            | some rp =>
              have hinv' : Inv { d with rep := rp } (.rep :: used) (.rep :: used') :=
                hinv.both .rep (fun _ => rfl) (fun _ => rfl) (fun _ => rfl)
              have hF0' : (rest.filterMap bgF).length < F0' := by
                simp only [List.filterMap_cons, hF, List.length_cons] at hF'; omega
              -- the continuation on the rest, as `ih` gives it
              have hcont : ∀ Fx, (rest.filterMap bgF).length < Fx →
                  layerGo last Fx (rest.filterMap bgF) { d with rep := rp } (.rep :: used') = some r := by
                intro Fx hFx
                cases rest with
                | nil =>
                  simp only [hbr, Option.map_some, Option.some.injEq] at h
                  cases Fx with
                  | zero => simp at hFx
                  | succ k => simp [layerGo, h]
                | cons n r' =>
                  simp only [hbr, Option.bind_some] at h
                  exact ih hallr hrepr _ _ _ r F0 Fx hF0 hFx hinv' h
              cases hout : rest.filterMap bgF with
              | nil =>
                simp only [hbr, Option.map_some, Option.some.injEq]
                have := hcont 1 (by rw [hout]; simp)
                rw [hout] at this
                simpa [layerGo] using this
              | cons n2 r2 =>
                simp only [hbr, Option.bind_some]
                rw [← hout]
                exact hcont F0' hF0'
      · have hrep' : isRepTok t = false := by simpa using hrep
        have hrepr : (rest.filter isRepTok).length ≤ 1 := by
          simp only [List.filter_cons, hrep', Bool.false_eq_true, if_false] at hrepn; exact hrepn
        rw [layerGo_step last F0 t rest d used hp hrep'] at h
        cases hb : bgF t with
        | none =>
          -- removed: the component had its initial value
          have hs : sTok t = true := hall t List.mem_cons_self
          simp only [List.filterMap_cons, hb]
          have hF'' : (rest.filterMap bgF).length < F' := by simpa [List.filterMap_cons, hb] using hF'
          rcases dropped_initial t hb hs with hk | hk | hk
          · simp only [hk] at h
            cases hcu : used.contains BgSlot.image with
            | true =>
              simp only [hcu, if_true] at h
              exact absurd h (by simp)
            | false =>
              simp only [hcu, Bool.false_eq_true, if_false] at h
              have hd : ({ d with image := none } : BgLayer) = d := by
                have := hinv.img (by simpa using hcu)
                cases d; simp_all
              rw [hd] at h
              exact ih hallr hrepr d _ used' r F0 F' hF0 hF'' (hinv.drop .image (by decide) (by decide)) h
          · simp only [hk] at h
            cases hcu : used.contains BgSlot.attachment with
            | true =>
              simp only [hcu, if_true] at h
              exact absurd h (by simp)
            | false =>
              simp only [hcu, Bool.false_eq_true, if_false] at h
              have hd : ({ d with attachment := Verif.Model.Css.S "scroll" } : BgLayer) = d := by
                have := hinv.att (by simpa using hcu)
                cases d; simp_all
              rw [hd] at h
              exact ih hallr hrepr d _ used' r F0 F' hF0 hF'' (hinv.drop .attachment (by decide) (by decide)) h
          · simp only [hk] at h
            cases hcu : (!last || used.contains BgSlot.color) with
            | true =>
              simp only [hcu, if_true] at h
              exact absurd h (by simp)
            | false =>
              simp only [hcu, Bool.false_eq_true, if_false] at h
              simp only [Bool.or_eq_false_iff] at hcu
              have hd : ({ d with color := transparentTok } : BgLayer) = d := by
                have := hinv.col (by simpa using hcu.2)
                cases d; simp_all
              rw [hd] at h
              exact ih hallr hrepr d _ used' r F0 F' hF0 hF'' (hinv.drop .color (by decide) (by decide)) h
        | some y =>
          have hy := bgF_some t y hb
          subst hy
          simp only [List.filterMap_cons, hb]
          cases F' with
          | zero => simp at hF'
          | succ F0' =>
            have hF0' : (rest.filterMap bgF).length < F0' := by
              simp only [List.filterMap_cons, hb, List.length_cons] at hF'; omega
            have hry' : isRepTok (minifyColor t) = false := by rw [hry]; exact hrep'
            rw [layerGo_step last F0' (minifyColor t) _ d used' hpy hry', hkc]
            cases hk : kc t with
            | none => simp [hk] at h
            | some c =>
              simp only [hk] at h ⊢
              cases c with
              | img v =>
                cases hcu : used.contains BgSlot.image with
                | true =>
              simp only [hcu, if_true] at h
              exact absurd h (by simp)
                | false =>
                  simp only [hcu, Bool.false_eq_true, if_false] at h
                  simp only [contains_false_of_sub hinv.sub _ hcu, Bool.false_eq_true, if_false]
                  exact ih hallr hrepr _ _ _ r F0 F0' hF0 hF0' (hinv.both .image (fun h => absurd rfl h) (fun _ => rfl) (fun _ => rfl)) h
              | rep => simp at h
              | att k =>
                cases hcu : used.contains BgSlot.attachment with
                | true =>
              simp only [hcu, if_true] at h
              exact absurd h (by simp)
                | false =>
                  simp only [hcu, Bool.false_eq_true, if_false] at h
                  simp only [contains_false_of_sub hinv.sub _ hcu, Bool.false_eq_true, if_false]
                  exact ih hallr hrepr _ _ _ r F0 F0' hF0 hF0' (hinv.both .attachment (fun _ => rfl) (fun h => absurd rfl h) (fun _ => rfl)) h
              | box k =>
                cases hc2 : used.contains BgSlot.box2 with
                | true =>
              simp only [hc2, if_true] at h
              exact absurd h (by simp)
                | false =>
                  simp only [hc2, Bool.false_eq_true, if_false] at h
                  simp only [contains_false_of_sub hinv.sub _ hc2, Bool.false_eq_true, if_false]
                  cases hc1 : used.contains BgSlot.box1 with
                  | true =>
                    have hc1' : used'.contains BgSlot.box1 = true := by
                      have := hinv.b1 (by simpa using hc1)
                      simpa using this
                    simp only [hc1, if_true] at h
                    simp only [hc1', if_true]
                    exact ih hallr hrepr _ _ _ r F0 F0' hF0 hF0' (hinv.both .box2 (fun _ => rfl) (fun _ => rfl) (fun _ => rfl)) h
                  | false =>
                    simp only [hc1, Bool.false_eq_true, if_false] at h
                    simp only [contains_false_of_sub hinv.sub _ hc1, Bool.false_eq_true, if_false]
                    exact ih hallr hrepr _ _ _ r F0 F0' hF0 hF0' (hinv.both .box1 (fun _ => rfl) (fun _ => rfl) (fun _ => rfl)) h
              | col v =>
                cases hcu : (!last || used.contains BgSlot.color) with
                | true =>
              simp only [hcu, if_true] at h
              exact absurd h (by simp)
                | false =>
                  simp only [hcu, Bool.false_eq_true, if_false] at h
                  simp only [Bool.or_eq_false_iff] at hcu
                  have hcu' : (!last || used'.contains BgSlot.color) = false := by
                    simp only [Bool.or_eq_false_iff]
                    exact ⟨hcu.1, contains_false_of_sub hinv.sub _ hcu.2⟩
                  simp only [hcu', Bool.false_eq_true, if_false]
                  exact ih hallr hrepr _ _ _ r F0 F0' hF0 hF0' (hinv.both .color (fun _ => rfl) (fun _ => rfl) (fun h => absurd rfl h)) h

end Verif.Proofs.CssBackground

namespace Verif.Proofs.CssBackground
open Verif.Spec.CssValue
open Verif.Model.Css Verif.Model.CssShorthand Verif.Spec.CssShorthand

/-- guard of `background_ok_partial` for one layer: no position, size or slash token; at most one repeat keyword
(no pair to merge); not both `padding-box` and `border-box` (no pair to remove); the colour rewrite keeps the component
of every token (`sTok`) -/
def bgLayerGuard (seg : List Tok) : Bool :=
  seg.all (fun t => mTok t && sTok t && !Verif.Model.Css.isSlash t) && pairFree seg && boxOk .unset seg &&
  decide ((seg.filter isRepTok).length ≤ 1)

theorem bgSizes_noSlash : ∀ (seg : List Tok), (∀ t ∈ seg, Verif.Model.Css.isSlash t = false) → bgSizes seg = seg
  | [], _ => by simp [bgSizes]
  | [t], _ => by simp [bgSizes]
  | [t, v1], h => by
    have := h t List.mem_cons_self
    simp [bgSizes, this]
  | t :: v1 :: v2 :: r, h => by
    have ht := h t List.mem_cons_self
    have ih := bgSizes_noSlash (v1 :: v2 :: r) (fun x hx => h x (List.mem_cons_of_mem _ hx))
    rw [bgSizes]
    simp only [ht, Bool.false_eq_true, if_false, ih]

theorem bgInitial_zero (last : Bool) : bgLayer last [tZeroNum, tZeroNum] = some bgInitial := by
  cases last <;> decide +kernel

theorem inv_init : Inv bgInitial [] [] :=
  ⟨fun _ h => h, fun h => h, fun h => h, fun _ => rfl, fun _ => rfl, fun _ => rfl⟩

theorem bgSeg_eq (seg : List Tok) (hg : bgLayerGuard seg = true) :
    bgSeg seg = if (seg.filterMap bgF).isEmpty then [tZeroNum, tZeroNum] else seg.filterMap bgF := by
  simp only [bgLayerGuard, Bool.and_eq_true, List.all_eq_true, decide_eq_true_eq, Bool.not_eq_true'] at hg
  obtain ⟨⟨⟨hall, hpf⟩, hbx⟩, _⟩ := hg
  have hs : bgSizes seg = seg := bgSizes_noSlash seg (fun t ht => (hall t ht).2)
  have hl := bgLoop_simple (seg.length + 1) [] .unset seg (by omega) (fun t ht => (hall t ht).1.1) hpf hbx
  simp [bgSeg, bgSeg?, hs, hl]

theorem bgLayer_ok (last : Bool) (seg : List Tok) (r : BgLayer) (hg : bgLayerGuard seg = true)
    (h : bgLayer last seg = some r) : bgLayer last (bgSeg seg) = some r := by
  rw [bgSeg_eq seg hg]
  simp only [bgLayerGuard, Bool.and_eq_true, List.all_eq_true, decide_eq_true_eq] at hg
  obtain ⟨⟨⟨hall, _⟩, _⟩, hrep⟩ := hg
  unfold bgLayer at h
  split at h
  · simp at h
  · have hsim := sim last seg (fun t ht => (hall t ht).1.2) hrep bgInitial [] [] r (seg.length + 1)
      ((seg.filterMap bgF).length + 1) (by omega) (by omega) inv_init h
    cases hout : seg.filterMap bgF with
    | nil =>
      rw [hout] at hsim
      simp only [layerGo, Option.some.injEq] at hsim
      simp only [List.isEmpty_nil, if_true]
      rw [bgInitial_zero, hsim]
    | cons a b =>
      simp only [List.isEmpty_cons, Bool.false_eq_true, if_false]
      rw [← hout]
      unfold bgLayer
      have : (seg.filterMap bgF).isEmpty = false := by rw [hout]; rfl
      simp only [this, Bool.false_eq_true, if_false]
      exact hsim

end Verif.Proofs.CssBackground

namespace Verif.Proofs.CssBackground
open Verif.Spec.CssValue
open Verif.Model.Css Verif.Model.CssShorthand Verif.Spec.CssShorthand
open Verif.Proofs.Css (NoComma mapSeg_layers splitC_spec)

theorem minifyColor_notComma (t : Tok) (h : isComma t = false) : isComma (minifyColor t) = false := by
  rcases t with ⟨tt, d, a⟩
  by_cases h1 : tt = .ident
  · subst h1
    simp only [minifyColor, Tok.tt]
    split <;> rfl
  · by_cases h2 : tt = .hash
    · subst h2
      simp only [minifyColor, Tok.tt]
      split <;> rfl
    · have : minifyColor (Tok.mk tt d a) = Tok.mk tt d a := by
        cases tt <;> simp_all [minifyColor, Tok.tt]
      rw [this]; exact h

/-- the layer rewrite restricted to the layers the theorem covers -/
def bgSegG (seg : List Tok) : List Tok := if bgLayerGuard seg then bgSeg seg else seg

theorem bgSegG_noComma (seg : List Tok) (h : NoComma seg) : NoComma (bgSegG seg) := by
  unfold bgSegG
  split
  · rename_i hg
    rw [bgSeg_eq seg hg]
    split
    · intro t ht
      simp only [List.mem_cons, List.mem_nil_iff, or_false] at ht
      rcases ht with rfl | rfl <;> rfl
    · intro t ht
      obtain ⟨x, hx, hxt⟩ := List.mem_filterMap.mp ht
      rw [bgF_some x t hxt]
      exact minifyColor_notComma x (h x hx)
  · exact h

theorem mapSeg_congr (f g : List Tok → List Tok) (vs : List Tok) (h : ∀ seg ∈ splitCommas vs, f seg = g seg) :
    mapSeg f vs = mapSeg g vs := by
  rw [splitC_spec] at h
  unfold mapSeg
  have h1 : onLayer f (splitC vs).1 = onLayer g (splitC vs).1 := by
    unfold onLayer; rw [h _ List.mem_cons_self]
  have h2 : (splitC vs).2.map (fun (c, seg) => (c, onLayer f seg)) = (splitC vs).2.map (fun (c, seg) => (c, onLayer g seg)) := by
    apply List.map_congr_left
    intro p hp
    have : f p.2 = g p.2 := h _ (List.mem_cons_of_mem _ (List.mem_map.mpr ⟨p, hp, rfl⟩))
    obtain ⟨c, seg⟩ := p
    simp only at this
    simp only [onLayer, this]
  simp only [h1, h2]

theorem layersGo_map : ∀ (L : List (List Tok)) (ds : List BgLayer), (∀ seg ∈ L, bgLayerGuard seg = true) →
    bgLayersGo L = some ds → bgLayersGo (L.map (onLayer bgSegG)) = some ds
  | [], ds, _, h => by simpa [bgLayersGo] using h
  | [l], ds, hg, h => by
    simp only [bgLayersGo, List.map] at h ⊢
    cases hl : bgLayer true l with
    | none => simp [hl] at h
    | some x =>
      have hne : l.isEmpty = false := by
        cases l with
        | nil => simp [bgLayer] at hl
        | cons a b => rfl
      have hgl := hg l List.mem_cons_self
      have : onLayer bgSegG l = bgSeg l := by simp [onLayer, hne, bgSegG, hgl]
      rw [this, bgLayer_ok true l x hgl hl]
      simpa [hl] using h
  | l :: m :: r, ds, hg, h => by
    simp only [bgLayersGo, List.map] at h ⊢
    cases hl : bgLayer false l with
    | none => simp [hl] at h
    | some x =>
      cases hr : bgLayersGo (m :: r) with
      | none => simp [hl, hr] at h
      | some xs =>
        have hne : l.isEmpty = false := by
          cases l with
          | nil => simp [bgLayer] at hl
          | cons a b => rfl
        have hgl := hg l List.mem_cons_self
        have : onLayer bgSegG l = bgSeg l := by simp [onLayer, hne, bgSegG, hgl]
        have ih := layersGo_map (m :: r) xs (fun s hs => hg s (List.mem_cons_of_mem _ hs)) hr
        simp only [List.map] at ih
        rw [this, bgLayer_ok false l x hgl hl, ih]
        simpa [hl, hr] using h

/-- **background** (partial): every value whose layers are covered by `bgLayerGuard` keeps the component slots of
every layer -/
theorem background_ok_partial (vs : List Tok) (ds : List BgLayer)
    (hg : ∀ seg ∈ splitCommas vs, bgLayerGuard seg = true) (hden : bgDen vs = some ds) :
    bgDen (minifyBackground vs) = some ds := by
  unfold bgDen minifyBackground at *
  have hc : mapSeg bgSeg vs = mapSeg bgSegG vs :=
    mapSeg_congr bgSeg bgSegG vs (fun seg hs => by simp [bgSegG, hg seg hs])
  rw [hc, mapSeg_layers bgSegG bgSegG_noComma vs]
  exact layersGo_map _ ds hg hden

end Verif.Proofs.CssBackground

import Verif.Proofs.C09HtmlTag
/-!
# C09 / HTML — a whole start tag `<name attr…>` as written by html.go is read back as one start tag

`WAttr` is what the writer means by one attribute: the name, the value handed to `EscapeAttrVal` (empty, or a boolean
attribute: written without `=`), the original quote and the must-quote flag.  `WAttr.bytes` are the bytes html.go writes
for it, `WAttr.read` is the attribute token a reader must get.
-/
namespace Verif.Proofs.C09HtmlTag
open Verif.Spec.C09HtmlTok Verif.Spec.C09HtmlShape Verif.Spec.HtmlAttr Verif.Proofs.C09HtmlTok Verif.Model.HtmlAttr

structure WAttr where
  name : List Char
  val : List Char
  bool : Bool        -- boolean attribute: the value is not written
  q : Quote
  must : Bool
  deriving Repr

def WAttr.hasVal (a : WAttr) : Bool := !a.val.isEmpty && !a.bool

/-- the bytes html.go writes: a space, the name, and `=` + `EscapeAttrVal` unless the value is empty or the attribute boolean -/
def WAttr.bytes (a : WAttr) : List Char :=
  ' ' :: (a.name ++ (if a.hasVal then '=' :: escapeAttrVal a.val a.q a.must else []))

/-- the attribute token a reader must see -/
def WAttr.read (a : WAttr) : SAttr :=
  if a.hasVal then ⟨a.name, (rawOf a.val a.q a.must).1, (rawOf a.val a.q a.must).2⟩ else ⟨a.name, [], .missing⟩

/-- the value a reader gets decodes to the value the writer meant (nothing for a boolean attribute) -/
theorem WAttr.read_decodes (a : WAttr) :
    decodeAttr a.read.raw = if a.hasVal then decodeAttr a.val else [] := by
  unfold WAttr.read
  split
  · exact rawOf_decode _ _ _
  · rfl


/-- the machine is inside a start tag at a point where the pending tag would be `pt` if `>` came now -/
inductive Closable (m : M) : M → Tag → Prop
  | tagName (t : Tag) : Closable m (at_ m (.tagName t)) t
  | afterQ (t : Tag) : Closable m (at_ m (.afterAttrValueQ t)) t
  | unq (t : Tag) (n v : List Char) : Closable m (at_ m (.attrValueU t n v)) (t.push n v .unquoted)
  | name (t : Tag) (n : List Char) : Closable m (at_ m (.attrName t n)) (t.push n [] .missing)

theorem Closable.gt {m st : M} {pt : Tag} (h : Closable m st pt) : step st '>' = emitTag m pt false := by
  cases h <;> rfl

/-- after the separating space -/
inductive Spaced (m : M) : M → Tag → Prop
  | before (t : Tag) : Spaced m (at_ m (.beforeAttrName t)) t
  | after (t : Tag) (n : List Char) : Spaced m (at_ m (.afterAttrName t n)) (t.push n [] .missing)

theorem Closable.space {m st : M} {pt : Tag} (h : Closable m st pt) :
    ∃ st', step st ' ' = (st', []) ∧ Spaced m st' pt := by
  cases h with
  | tagName => exact ⟨_, rfl, .before _⟩
  | afterQ => exact ⟨_, rfl, .before _⟩
  | unq t n v => exact ⟨_, rfl, .before _⟩
  | name t n => exact ⟨_, rfl, .after t n⟩

theorem Spaced.first {m st : M} {pt : Tag} (h : Spaced m st pt) (c : Char) (hc : nCh c = true) :
    step st c = (at_ m (.attrName pt [c]), []) := by
  obtain ⟨h1, h2, h3, h4, h5⟩ := nCh_spec hc
  cases h with
  | before t =>
    simp only [step, at_s, beforeAttrNameStep, h1, h2, h3, h5, Bool.false_eq_true, if_false]
    rfl
  | after t n =>
    simp only [step, at_s, afterAttrNameStep, h1, h2, h3, h4, h5, Bool.false_eq_true, if_false]
    rfl

theorem step_attrName_eq (m : M) (t : Tag) (n : List Char) :
    step (at_ m (.attrName t n)) '=' = (at_ m (.beforeAttrValue t n), []) := rfl

/-- one attribute as written by html.go, read from any point of the tag at which `>` could follow -/
theorem read_attr {m st : M} {pt : Tag} (h : Closable m st pt) (a : WAttr) (hn : goodName a.name = true) :
    runO st a.bytes = [] ∧ Closable m (runS st a.bytes) { pt with attrs := pt.attrs ++ [a.read] } := by
  obtain ⟨st1, hs1, hsp⟩ := h.space
  simp only [goodName, Bool.and_eq_true, Bool.not_eq_true', List.isEmpty_eq_false_iff] at hn
  obtain ⟨hne, hall⟩ := hn
  have hall' := List.all_eq_true.mp hall
  cases hnm : a.name with
  | nil => exact absurd hnm hne
  | cons c cs =>
    rw [hnm] at hall'
    have hf := hsp.first c (hall' c List.mem_cons_self)
    have hr := run_attrName m pt cs [c] (fun d hd => hall' d (List.mem_cons_of_mem _ hd))
    simp only [List.singleton_append] at hr
    unfold WAttr.bytes WAttr.read
    rw [hnm]
    by_cases hv : a.hasVal = true
    · simp only [hv, if_true]
      have hvne : a.val ≠ [] := by
        simp only [WAttr.hasVal, Bool.and_eq_true, Bool.not_eq_true', List.isEmpty_eq_false_iff] at hv; exact hv.1
      have hm := machine_reads_value m pt (c :: cs) a.val a.q a.must hvne
      have hS : runS st (' ' :: (c :: cs ++ '=' :: escapeAttrVal a.val a.q a.must)) =
          valueDone m pt (c :: cs) (rawOf a.val a.q a.must) := by
        rw [runS_cons, hs1, List.cons_append, runS_cons, hf, runS_append, hr.1, runS_cons, step_attrName_eq]
        exact hm.1
      have hO : runO st (' ' :: (c :: cs ++ '=' :: escapeAttrVal a.val a.q a.must)) = [] := by
        rw [runO_cons, hs1, List.cons_append, runO_cons, hf, runO_append, hr.1, hr.2, runO_cons, step_attrName_eq]
        simpa using hm.2
      refine ⟨hO, ?_⟩
      rw [hS]
      unfold valueDone
      generalize rawOf a.val a.q a.must = rf
      obtain ⟨r, f⟩ := rf
      cases f with
      | unquoted => exact Closable.unq pt (c :: cs) r
      | missing => exact Closable.afterQ _
      | single => exact Closable.afterQ _
      | double => exact Closable.afterQ _
    · simp only [hv, Bool.false_eq_true, if_false, List.append_nil]
      have hS : runS st (' ' :: c :: cs) = at_ m (.attrName pt (c :: cs)) := by
        rw [runS_cons, hs1, runS_cons, hf]; exact hr.1
      have hO : runO st (' ' :: c :: cs) = [] := by
        rw [runO_cons, hs1, runO_cons, hf]; simpa using hr.2
      refine ⟨hO, ?_⟩
      rw [hS]
      exact Closable.name pt (c :: cs)

/-- a list of attributes -/
theorem read_attrs {m : M} (as : List WAttr) (hn : ∀ a ∈ as, goodName a.name = true) :
    ∀ {st : M} {pt : Tag}, Closable m st pt →
    runO st (as.flatMap WAttr.bytes) = [] ∧
    Closable m (runS st (as.flatMap WAttr.bytes)) { pt with attrs := pt.attrs ++ as.map WAttr.read } := by
  induction as with
  | nil => intro st pt h; simpa [runO, runS] using h
  | cons a as ih =>
    intro st pt h
    obtain ⟨h1, h2⟩ := read_attr h a (hn a List.mem_cons_self)
    obtain ⟨h3, h4⟩ := ih (fun b hb => hn b (List.mem_cons_of_mem _ hb)) h2
    simp only [List.flatMap_cons, runO_append, runS_append, h1, h3, List.append_nil, List.map_cons]
    refine ⟨trivial, ?_⟩
    simpa [List.append_assoc] using h4


/-- **a start tag is read back**: from the data state, the bytes `<name` + attributes + `>` produce exactly one token —
    the start tag `name` with the attributes the writer meant, in order (minus later duplicates of a name, which the
    standard's tokenizer drops) — and leave the tokenizer in the state that the standard prescribes after that tag. -/
theorem start_tag_reads_back (m : M) (hs : m.s = .text) (hm : m.mode = .data) (tag : List Char) (as : List WAttr)
    (ht : goodTag tag = true) (hn : ∀ a ∈ as, goodName a.name = true) :
    let pt : Tag := { isEnd := false, name := tag, attrs := as.map WAttr.read }
    runO m ('<' :: (tag ++ as.flatMap WAttr.bytes ++ ['>'])) = [.startTag tag (dedup [] (as.map WAttr.read)) false] ∧
    runS m ('<' :: (tag ++ as.flatMap WAttr.bytes ++ ['>'])) = (emitTag m pt false).1 := by
  intro pt
  cases tag with
  | nil => exact absurd ht (by decide)
  | cons c cs =>
    simp only [goodTag, Bool.and_eq_true, beq_iff_eq] at ht
    obtain ⟨⟨ha, hl⟩, hcs⟩ := ht
    have h0 : step m '<' = (at_ m .tagOpen, []) := by
      obtain ⟨sc, md, la, fo, s0⟩ := m; simp only at hs hm; subst hs; subst hm; rfl
    have hne : c ≠ '!' ∧ c ≠ '/' := by
      constructor <;> (intro e; subst e; exact absurd ha (by decide))
    have h1 : step (at_ m .tagOpen) c = (at_ m (.tagName { isEnd := false, name := [c] }), []) := by
      simp only [step, at_s, hne.1, hne.2, ha, hl, ↓reduceIte]; rfl
    have h2 := run_tagName m { isEnd := false, name := [c] } cs (List.all_eq_true.mp hcs)
    simp only [List.singleton_append] at h2
    have hcl : Closable m (at_ m (.tagName { isEnd := false, name := c :: cs })) { isEnd := false, name := c :: cs } :=
      Closable.tagName _
    obtain ⟨h3, h4⟩ := read_attrs as hn hcl
    simp only [List.nil_append] at h4
    have h5 := h4.gt
    have hS : runS m ('<' :: (c :: cs ++ as.flatMap WAttr.bytes ++ ['>'])) = (emitTag m pt false).1 := by
      rw [runS_cons, h0, List.append_assoc, List.cons_append, runS_cons, h1, runS_append, h2.1, runS_append,
        runS_cons, h5]; rfl
    have hO : runO m ('<' :: (c :: cs ++ as.flatMap WAttr.bytes ++ ['>'])) = (emitTag m pt false).2 := by
      rw [runO_cons, h0, List.append_assoc, List.cons_append, runO_cons, h1, runO_append, h2.1, h2.2, runO_append,
        h3, runO_cons, h5]; rfl
    exact ⟨by rw [hO]; rfl, hS⟩

/-- non-vacuity: `<a href=x/ title="a&#34;b'" hidden>` — an unquoted value ending in `/` directly before `>` (not a
    self-closing tag), escaped quotes, an attribute without value -/
example :
    let as : List WAttr := [⟨"href".toList, "x/".toList, false, .double, false⟩,
      ⟨"title".toList, "a\"b'c'".toList, false, .double, false⟩, ⟨"hidden".toList, "hidden".toList, true, .none, false⟩]
    ('<' :: ("a".toList ++ as.flatMap WAttr.bytes ++ ['>'])) = "<a href=x/ title=\"a&#34;b'c'\" hidden>".toList ∧
    tokens false "<a href=x/ title=\"a&#34;b'c'\" hidden>".toList =
      [.startTag "a".toList [⟨"href".toList, "x/".toList, .unquoted⟩, ⟨"title".toList, "a&#34;b'c'".toList, .double⟩,
        ⟨"hidden".toList, [], .missing⟩] false] := by
  decide

end Verif.Proofs.C09HtmlTag

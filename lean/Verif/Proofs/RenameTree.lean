import Verif.Proofs.Rename
/-!
# C02 — the traversal invariant

`main`: after `renameForest`, in **every** scope `S` of a well-formed forest
* `Sep`: no declaration of `S` is spelled like a variable that is free in `S` (used in `S` or below,
  declared further out or nowhere), and
* `Inj`: two declarations of `S` are spelled differently.
`resolve_ok`: these two facts make every occurrence resolve to the declaration the parser chose.
-/
namespace Verif.Proofs.Rename
open Verif.Spec.Scope Verif.Model.Rename

def Sep (ν : Naming) (i : Info) (ch : Forest) : Prop :=
  ∀ w ∈ i.declared, ∀ u ∈ Forest.freeScope i ch, ν w ≠ ν u

def Inj (ν : Naming) (i : Info) : Prop :=
  ∀ w ∈ i.declared, ∀ w' ∈ i.declared, ν w = ν w' → w = w'

def SepInj (ν : Naming) (i : Info) (ch : Forest) : Prop := Sep ν i ch ∧ Inj ν i

/-- no variable that is free in the forest is declared in it -/
def Closed (f : Forest) : Prop := ∀ x ∈ f.free, x ∉ f.decls

/-! ## one scope -/

theorem step_frame (c : Cfg) (ν : Naming) (i : Info) (x : VarId) (h : x ∉ i.declared) :
    step c ν i x = ν x := by
  unfold step stepPairs
  split
  · simp only [assign, lookup_zip_none h]
  · simp [assign]

theorem step_noflag (c : Cfg) (ν : Naming) (i : Info) (h : i.rename = false) : step c ν i = ν := by
  funext v
  simp [step, stepPairs, h, assign]

theorem step_lookup (c : Cfg) (ν : Naming) (i : Info) (hr : i.rename = true) (w : VarId)
    (hw : w ∈ i.declared) :
    ∃ n, (i.declared.zip (newNames c (i.undeclared.map ν) i.declared.length)).lookup w = some n ∧
      n ∈ newNames c (i.undeclared.map ν) i.declared.length ∧ step c ν i w = n := by
  obtain ⟨n, h1, h2⟩ := lookup_zip_some (ns := newNames c (i.undeclared.map ν) i.declared.length)
    (newNames_length _ _ _) hw
  refine ⟨n, h1, h2, ?_⟩
  simp only [step, stepPairs, hr, if_true, assign, h1]

theorem step_fresh (c : Cfg) (ok : CfgOk c) (ν : Naming) (i : Info) (hr : i.rename = true) (w : VarId)
    (hw : w ∈ i.declared) :
    step c ν i w ∉ i.undeclared.map ν ∧ (1 < (step c ν i w).length → step c ν i w ∉ c.keywords) := by
  obtain ⟨n, _, h2, h3⟩ := step_lookup c ν i hr w hw
  rw [h3]
  exact not_reserved_iff (newNames_free c ok _ _ n h2)

theorem step_inj (c : Cfg) (ok : CfgOk c) (ν : Naming) (i : Info) (hr : i.rename = true) (w w' : VarId)
    (hw : w ∈ i.declared) (hw' : w' ∈ i.declared) (h : step c ν i w = step c ν i w') : w = w' := by
  obtain ⟨n, h1, _, h3⟩ := step_lookup c ν i hr w hw
  obtain ⟨n', h1', _, h3'⟩ := step_lookup c ν i hr w' hw'
  rw [h3, h3'] at h
  subst h
  exact lookup_zip_inj (newNames_nodup c ok _ _) h1 h1'

/-! ## the forest -/

theorem decls_node (i : Info) (ch sib : Forest) :
    (Forest.node i ch sib).decls = i.declared ++ (ch.decls ++ sib.decls) := rfl

theorem renameForest_node (c : Cfg) (ν : Naming) (i : Info) (ch sib : Forest) :
    renameForest c ν (.node i ch sib) = renameForest c (renameForest c (step c ν i) ch) sib := rfl

theorem renameForest_frame (c : Cfg) : ∀ (f : Forest) (ν : Naming) (x : VarId), x ∉ f.decls →
    renameForest c ν f x = ν x := by
  intro f
  induction f with
  | nil => intro ν x _; rfl
  | node i ch sib ihc ihs =>
    intro ν x h
    rw [decls_node] at h
    simp only [List.mem_append, not_or] at h
    rw [renameForest_node, ihs _ _ h.2.2, ihc _ _ h.2.1, step_frame _ _ _ _ h.1]

theorem mem_freeScope {i : Info} {ch : Forest} {x : VarId} :
    x ∈ Forest.freeScope i ch ↔ (x ∈ i.refs ∨ x ∈ ch.free) ∧ x ∉ i.declared := by
  simp [Forest.freeScope, or_and_right]

theorem mem_free_node {i : Info} {ch sib : Forest} {x : VarId} :
    x ∈ (Forest.node i ch sib).free ↔ x ∈ Forest.freeScope i ch ∨ x ∈ sib.free := by
  rw [Forest.free_node]; simp

theorem all_node (p : Info → Forest → Bool) (i : Info) (ch sib : Forest) :
    (Forest.node i ch sib).all p = true ↔ p i ch = true ∧ ch.all p = true ∧ sib.all p = true := by
  simp [Forest.all, Bool.and_eq_true, and_assoc]

theorem scopeOk_iff {i : Info} {ch : Forest} : scopeOk i ch = true ↔
    (∀ x ∈ Forest.freeScope i ch, x ∈ i.undeclared) ∧ (∀ x ∈ Forest.freeScope i ch, x ∉ ch.decls) := by
  simp [scopeOk, subsetB, disjointB, List.all_eq_true]

theorem nodup_node {i : Info} {ch sib : Forest} (h : (Forest.node i ch sib).decls.Nodup) :
    ch.decls.Nodup ∧ sib.decls.Nodup ∧
    (∀ x ∈ i.declared, x ∉ ch.decls ∧ x ∉ sib.decls) ∧ (∀ x ∈ ch.decls, x ∉ sib.decls) := by
  rw [decls_node] at h
  have h1 := List.nodup_append.1 h
  have h2 := List.nodup_append.1 h1.2.1
  refine ⟨h2.1, h2.2.1, ?_, ?_⟩
  · intro x hx
    constructor
    · intro hc; exact h1.2.2 x hx x (List.mem_append_left _ hc) rfl
    · intro hc; exact h1.2.2 x hx x (List.mem_append_right _ hc) rfl
  · intro x hx hc; exact h2.2.2 x hx x hc rfl

/-- agreement of two namings on the variables that matter for a forest carries `SepInj` over -/
theorem transfer : ∀ (f : Forest) (ν1 ν2 : Naming),
    (∀ x, x ∈ f.decls ∨ x ∈ f.free → ν1 x = ν2 x) →
    Forest.All (SepInj ν1) f → Forest.All (SepInj ν2) f := by
  intro f
  induction f with
  | nil => intro _ _ _ _; trivial
  | node i ch sib ihc ihs =>
    intro ν1 ν2 hag h
    obtain ⟨⟨hsep, hinj⟩, hc, hs⟩ := h
    have agd : ∀ x ∈ i.declared, ν1 x = ν2 x := fun x hx =>
      hag x (Or.inl (by rw [decls_node]; exact List.mem_append_left _ hx))
    have agf : ∀ x ∈ Forest.freeScope i ch, ν1 x = ν2 x := fun x hx =>
      hag x (Or.inr (mem_free_node.2 (Or.inl hx)))
    refine ⟨⟨?_, ?_⟩, ?_, ?_⟩
    · intro w hw u hu; rw [← agd w hw, ← agf u hu]; exact hsep w hw u hu
    · intro w hw w' hw' e; rw [← agd w hw, ← agd w' hw'] at e; exact hinj w hw w' hw' e
    · apply ihc ν1 ν2 _ hc
      intro x hx
      rcases hx with hx | hx
      · exact hag x (Or.inl (by rw [decls_node]; simp [hx]))
      · by_cases hd : x ∈ i.declared
        · exact agd x hd
        · exact agf x (mem_freeScope.2 ⟨Or.inr hx, hd⟩)
    · apply ihs ν1 ν2 _ hs
      intro x hx
      rcases hx with hx | hx
      · exact hag x (Or.inl (by rw [decls_node]; simp [hx]))
      · exact hag x (Or.inr (mem_free_node.2 (Or.inr hx)))

theorem inputOkScope_iff {ν : Naming} {i : Info} {ch : Forest} (h : inputOkScope ν i ch = true)
    (hr : i.rename = false) : Sep ν i ch ∧ Inj ν i := by
  simp only [inputOkScope, hr, Bool.false_or, Bool.and_eq_true, List.all_eq_true, bne_iff_ne, ne_eq,
    Bool.or_eq_true, beq_iff_eq] at h
  refine ⟨fun w hw u hu => h.1 w hw u hu, ?_⟩
  intro w hw w' hw' e
  rcases h.2 w hw w' hw' with h' | h'
  · exact h'
  · exact absurd e h'

/-- the traversal invariant -/
theorem main (c : Cfg) (ok : CfgOk c) (ν0 : Naming) : ∀ (f : Forest) (ν : Naming) (top : Bool),
    f.decls.Nodup → f.all scopeOk = true → Closed f →
    (top = false → allRenamed f = true) → (top = true → flagsOk f = true) →
    (top = true → ∀ x, x ∈ f.decls ∨ x ∈ f.free → ν x = ν0 x) →
    (top = true → inputOk ν0 f = true) →
    Forest.All (SepInj (renameForest c ν f)) f := by
  intro f
  induction f with
  | nil => intro _ _ _ _ _ _ _ _ _; trivial
  | node i ch sib ihc ihs =>
    intro ν top hnd hwf hcl hallr hflags hag hin
    obtain ⟨hdc, hds, d1, d2⟩ := nodup_node hnd
    obtain ⟨sOk, wch, wsib⟩ := (all_node _ _ _ _).1 hwf
    obtain ⟨sub, dis⟩ := scopeOk_iff.1 sOk
    -- closedness of the parts
    have cl_fs : ∀ x ∈ Forest.freeScope i ch, x ∉ sib.decls := by
      intro x hx hc
      exact hcl x (mem_free_node.2 (Or.inl hx)) (by rw [decls_node]; simp [hc])
    have cl_sib : ∀ x ∈ sib.free, x ∉ i.declared ∧ x ∉ ch.decls ∧ x ∉ sib.decls := by
      intro x hx
      have := hcl x (mem_free_node.2 (Or.inr hx))
      rw [decls_node] at this
      simpa [not_or] using this
    have cl_ch : Closed ch := by
      intro x hx
      by_cases hd : x ∈ i.declared
      · exact (d1 x hd).1
      · exact dis x (mem_freeScope.2 ⟨Or.inr hx, hd⟩)
    have ch_free_sib : ∀ x ∈ ch.free, x ∉ sib.decls := by
      intro x hx
      by_cases hd : x ∈ i.declared
      · exact (d1 x hd).2
      · exact cl_fs x (mem_freeScope.2 ⟨Or.inr hx, hd⟩)
    have cl_s : Closed sib := fun x hx => (cl_sib x hx).2.2
    -- the namings along the way
    rw [renameForest_node]
    generalize hν1 : step c ν i = ν1
    generalize hν2 : renameForest c ν1 ch = ν2
    generalize hν' : renameForest c ν2 sib = ν'
    have fr_decl : ∀ w ∈ i.declared, ν' w = ν1 w := by
      intro w hw
      rw [← hν', renameForest_frame c sib ν2 w (d1 w hw).2, ← hν2, renameForest_frame c ch ν1 w (d1 w hw).1]
    have fr_free : ∀ u ∈ Forest.freeScope i ch, ν' u = ν u := by
      intro u hu
      rw [← hν', renameForest_frame c sib ν2 u (cl_fs u hu), ← hν2, renameForest_frame c ch ν1 u (dis u hu),
        ← hν1, step_frame c ν i u (mem_freeScope.1 hu).2]
    -- flags
    have htop_of_noflag : i.rename = false → top = true := by
      intro hr
      cases top with
      | true => rfl
      | false =>
        have := hallr rfl
        simp only [allRenamed, all_node] at this
        rw [hr] at this
        exact absurd this.1 (by simp)
    refine ⟨⟨?_, ?_⟩, ?_, ?_⟩
    · -- Sep at the root scope
      intro w hw u hu
      rw [fr_decl w hw, fr_free u hu]
      by_cases hr : i.rename = true
      · have := (step_fresh c ok ν i hr w hw).1
        rw [hν1] at this
        intro e
        exact this (by rw [e]; exact List.mem_map_of_mem (sub u hu))
      · have hr' : i.rename = false := by simpa using hr
        have ht := htop_of_noflag hr'
        rw [← hν1, step_noflag c ν i hr']
        have hio := (all_node _ _ _ _).1 (hin ht)
        have := (inputOkScope_iff hio.1 hr').1 w hw u hu
        rw [hag ht w (Or.inl (by rw [decls_node]; simp [hw])),
          hag ht u (Or.inr (mem_free_node.2 (Or.inl hu)))]
        exact this
    · -- Inj at the root scope
      intro w hw w' hw' e
      rw [fr_decl w hw, fr_decl w' hw'] at e
      by_cases hr : i.rename = true
      · rw [← hν1] at e; exact step_inj c ok ν i hr w w' hw hw' e
      · have hr' : i.rename = false := by simpa using hr
        have ht := htop_of_noflag hr'
        rw [← hν1, step_noflag c ν i hr'] at e
        have hio := (all_node _ _ _ _).1 (hin ht)
        rw [hag ht w (Or.inl (by rw [decls_node]; simp [hw])),
          hag ht w' (Or.inl (by rw [decls_node]; simp [hw']))] at e
        exact (inputOkScope_iff hio.1 hr').2 w hw w' hw' e
    · -- the children
      have hch : Forest.All (SepInj ν2) ch := by
        rw [← hν2]
        apply ihc ν1 (top && !i.rename) hdc wch cl_ch
        · intro ht
          cases top with
          | false =>
            have := hallr rfl
            simp only [allRenamed, all_node] at this
            exact this.2.1
          | true =>
            have hr : i.rename = true := by simpa using ht
            have := hflags rfl
            simp only [flagsOk, hr, if_true, Bool.and_eq_true] at this
            exact this.1
        · intro ht
          simp only [Bool.and_eq_true, Bool.not_eq_true'] at ht
          have := hflags ht.1
          simp only [flagsOk, ht.2, Bool.false_eq_true, if_false, Bool.and_eq_true] at this
          exact this.1
        · intro ht x hx
          simp only [Bool.and_eq_true, Bool.not_eq_true'] at ht
          rw [← hν1, step_noflag c ν i ht.2]
          apply hag ht.1
          rcases hx with hx | hx
          · exact Or.inl (by rw [decls_node]; simp [hx])
          · by_cases hd : x ∈ i.declared
            · exact Or.inl (by rw [decls_node]; simp [hd])
            · exact Or.inr (mem_free_node.2 (Or.inl (mem_freeScope.2 ⟨Or.inr hx, hd⟩)))
        · intro ht
          simp only [Bool.and_eq_true, Bool.not_eq_true'] at ht
          exact ((all_node _ _ _ _).1 (hin ht.1)).2.1
      apply transfer ch ν2 ν' _ hch
      intro x hx
      rw [← hν']
      symm
      apply renameForest_frame
      rcases hx with hx | hx
      · exact d2 x hx
      · exact ch_free_sib x hx
    · -- the following siblings
      rw [← hν']
      apply ihs ν2 top hds wsib cl_s
      · intro ht
        have := hallr ht
        simp only [allRenamed, all_node] at this
        exact this.2.2
      · intro ht
        have := hflags ht
        simp only [flagsOk, Bool.and_eq_true] at this
        exact this.2
      · intro ht x hx
        have hnot : x ∉ i.declared ∧ x ∉ ch.decls := by
          rcases hx with hx | hx
          · constructor
            · intro hd; exact (d1 x hd).2 hx
            · intro hc; exact d2 x hc hx
          · exact ⟨(cl_sib x hx).1, (cl_sib x hx).2.1⟩
        rw [← hν2, renameForest_frame c ch ν1 x hnot.2, ← hν1, step_frame c ν i x hnot.1]
        apply hag ht
        rcases hx with hx | hx
        · exact Or.inl (by rw [decls_node]; simp [hx])
        · exact Or.inr (mem_free_node.2 (Or.inr hx))
      · intro ht
        exact ((all_node _ _ _ _).1 (hin ht)).2.2

/-! ## resolution -/

theorem lookupDecl_some {ν : Naming} {decl : List VarId} {n : Name} {w : VarId}
    (h : lookupDecl ν decl n = some w) : w ∈ decl ∧ ν w = n := by
  unfold lookupDecl at h
  have h1 := List.mem_of_find?_eq_some h
  have h2 := List.find?_some h
  exact ⟨by simpa using h1, by simpa using h2⟩

theorem lookupDecl_none {ν : Naming} {decl : List VarId} {n : Name} :
    lookupDecl ν decl n = none ↔ ∀ w ∈ decl, ν w ≠ n := by
  simp [lookupDecl, List.find?_eq_none]

theorem resolve_append (ν : Naming) (a b : List Info) (n : Name) :
    resolve ν (a ++ b) n = match resolve ν a n with
      | some r => some r
      | none => resolve ν b n := by
  induction a with
  | nil => simp [resolve]
  | cons i a ih =>
    simp only [List.cons_append, resolve]
    cases h : lookupDecl ν i.declared n with
    | some v => simp
    | none => simpa using ih

theorem resolveId_append (a b : List Info) (v : VarId) :
    resolveId (a ++ b) v = match resolveId a v with
      | some r => some r
      | none => resolveId b v := by
  unfold resolveId
  rw [List.any_append]
  cases ha : (a.any fun i => i.declared.contains v) <;> simp

/-- resolution inside one scope, given `Sep` and `Inj` there -/
theorem resolve_single (ν : Naming) (i : Info) (ch : Forest) (h : SepInj ν i ch) (v : VarId)
    (hv : v ∈ i.refs ∨ v ∈ ch.free) :
    resolve ν [i] (ν v) = resolveId [i] v ∧ (resolveId [i] v = none → v ∈ Forest.freeScope i ch) := by
  by_cases hd : v ∈ i.declared
  · have hid : resolveId [i] v = some v := by simp [resolveId, hd]
    rw [hid]
    refine ⟨?_, by simp⟩
    simp only [resolve]
    cases hl : lookupDecl ν i.declared (ν v) with
    | some w =>
      obtain ⟨hw, he⟩ := lookupDecl_some hl
      simp [h.2 w hw v hd he]
    | none => exact absurd rfl (lookupDecl_none.1 hl v hd)
  · have hid : resolveId [i] v = none := by simp [resolveId, hd]
    have hf : v ∈ Forest.freeScope i ch := mem_freeScope.2 ⟨hv, hd⟩
    rw [hid]
    refine ⟨?_, fun _ => hf⟩
    simp only [resolve]
    cases hl : lookupDecl ν i.declared (ν v) with
    | some w =>
      obtain ⟨hw, he⟩ := lookupDecl_some hl
      exact absurd he (h.1 w hw v hf)
    | none => rfl

theorem resolve_ok (ν : Naming) : ∀ (f : Forest), Forest.All (SepInj ν) f →
    ∀ o ∈ f.occs, resolve ν o.1 (ν o.2) = resolveId o.1 o.2 ∧ (resolveId o.1 o.2 = none → o.2 ∈ f.free) := by
  intro f
  induction f with
  | nil => intro _ o ho; simp [Forest.occs] at ho
  | node i ch sib ihc ihs =>
    intro h o ho
    obtain ⟨hroot, hc, hs⟩ := h
    simp only [Forest.occs, List.mem_append, List.mem_map] at ho
    rcases ho with ⟨v, hv, rfl⟩ | ⟨o', ho', rfl⟩ | ho
    · have := resolve_single ν i ch hroot v (Or.inl hv)
      exact ⟨this.1, fun hn => mem_free_node.2 (Or.inl (this.2 hn))⟩
    · obtain ⟨h1, h2⟩ := ihc hc o' ho'
      simp only
      rw [resolve_append, resolveId_append, h1]
      cases hid : resolveId o'.1 o'.2 with
      | some r => simp
      | none =>
        have := resolve_single ν i ch hroot o'.2 (Or.inr (h2 hid))
        exact ⟨this.1, fun hn => mem_free_node.2 (Or.inl (this.2 hn))⟩
    · obtain ⟨h1, h2⟩ := ihs hs o ho
      exact ⟨h1, fun hn => mem_free_node.2 (Or.inr (h2 hn))⟩

/-! ## scopes that are not renamed keep their names -/

/-- declarations of the scopes that are not renamed -/
def unrenamedDecls : Forest → List VarId
  | .nil => []
  | .node i ch sib => (if i.rename then [] else i.declared) ++ (unrenamedDecls ch ++ unrenamedDecls sib)

theorem unrenamedDecls_sub : ∀ (f : Forest) (x : VarId), x ∈ unrenamedDecls f → x ∈ f.decls := by
  intro f
  induction f with
  | nil => intro x h; simp [unrenamedDecls] at h
  | node i ch sib ihc ihs =>
    intro x h
    simp only [unrenamedDecls, List.mem_append] at h
    rw [decls_node]
    simp only [List.mem_append]
    rcases h with h | h | h
    · split at h
      · simp at h
      · exact Or.inl h
    · exact Or.inr (Or.inl (ihc x h))
    · exact Or.inr (Or.inr (ihs x h))

theorem unrenamed_kept (c : Cfg) : ∀ (f : Forest) (ν : Naming), f.decls.Nodup →
    ∀ v ∈ unrenamedDecls f, renameForest c ν f v = ν v := by
  intro f
  induction f with
  | nil => intro _ _ v h; simp [unrenamedDecls] at h
  | node i ch sib ihc ihs =>
    intro ν hnd v hv
    obtain ⟨hdc, hds, d1, d2⟩ := nodup_node hnd
    simp only [unrenamedDecls, List.mem_append] at hv
    rw [renameForest_node]
    rcases hv with hv | hv | hv
    · by_cases hr : i.rename = true
      · simp [hr] at hv
      · have hr' : i.rename = false := by simpa using hr
        simp only [hr', Bool.false_eq_true, if_false] at hv
        rw [renameForest_frame c sib _ v (d1 v hv).2, renameForest_frame c ch _ v (d1 v hv).1,
          step_noflag c ν i hr']
    · have hvc := unrenamedDecls_sub ch v hv
      rw [renameForest_frame c sib _ v (d2 v hvc), ihc _ hdc v hv]
      exact step_frame c ν i v (fun hd => (d1 v hd).1 hvc)
    · have hvs := unrenamedDecls_sub sib v hv
      rw [ihs _ hds v hv, renameForest_frame c ch _ v (fun hc => d2 v hc hvs)]
      exact step_frame c ν i v (fun hd => (d1 v hd).2 hvs)

/-- no scope is renamed ⇒ the traversal is the identity -/
theorem noneRenamed_id (c : Cfg) : ∀ (f : Forest) (ν : Naming),
    f.all (fun i _ => !i.rename) = true → renameForest c ν f = ν := by
  intro f
  induction f with
  | nil => intro _ _; rfl
  | node i ch sib ihc ihs =>
    intro ν h
    obtain ⟨h1, h2, h3⟩ := (all_node _ _ _ _).1 h
    rw [renameForest_node, step_noflag c ν i (by simpa using h1), ihc ν h2, ihs ν h3]

theorem computeFlags_keep : ∀ (f : Forest), (computeFlags true false f).all (fun i _ => !i.rename) = true := by
  intro f
  induction f with
  | nil => rfl
  | node i ch sib ihc ihs =>
    simp only [computeFlags, Bool.not_true, Bool.and_false, ite_self, all_node]
    exact ⟨by simp, ihc, ihs⟩

/-- the part of a forest that belongs to the same function as its roots: nested function scopes are cut off -/
def regionUnrenamed : Forest → Bool
  | .nil => true
  | .node i ch sib => (i.isFunc || (!i.rename && regionUnrenamed ch)) && regionUnrenamed sib

theorem computeFlags_region (keep : Bool) : ∀ (f : Forest), regionUnrenamed (computeFlags keep false f) = true := by
  intro f
  induction f with
  | nil => rfl
  | node i ch sib ihc ihs =>
    simp only [computeFlags, regionUnrenamed, Bool.and_eq_true, Bool.or_eq_true]
    refine ⟨?_, ihs⟩
    by_cases hf : i.isFunc = true
    · exact Or.inl hf
    · right
      have : i.isFunc = false := by simpa using hf
      simp only [this, Bool.false_eq_true, if_false, Bool.not_false, true_and]
      exact ihc

theorem anyWith_computeFlags (keep : Bool) : ∀ (f : Forest) (cur : Bool),
    anyWith (computeFlags keep cur f) = anyWith f := by
  intro f
  induction f with
  | nil => intro _; rfl
  | node i ch sib ihc ihs => intro cur; simp only [computeFlags, anyWith, ihc, ihs]

/-- `computeFlags`: a function scope that contains `with`, or encloses a function that does, is not renamed, nor is
    any block scope of that function -/
theorem computeFlags_with (keep : Bool) : ∀ (f : Forest) (cur : Bool),
    (computeFlags keep cur f).all
      (fun i ch => !(i.isFunc && (i.hasWith || anyWith ch)) || (!i.rename && regionUnrenamed ch)) = true := by
  intro f
  induction f with
  | nil => intro _; rfl
  | node i ch sib ihc ihs =>
    intro cur
    simp only [computeFlags, all_node]
    refine ⟨?_, ihc _, ihs _⟩
    by_cases hf : i.isFunc = true
    · by_cases hw : (i.hasWith || anyWith ch) = true
      · simp only [hf, hw, anyWith_computeFlags, if_true, Bool.not_true, Bool.false_and, Bool.not_false,
          Bool.true_and, Bool.or_eq_true]
        exact Or.inr (computeFlags_region keep ch)
      · have hw' : (i.hasWith || anyWith ch) = false := by simpa using hw
        simp [hf, hw', anyWith_computeFlags]
    · have hf' : i.isFunc = false := by simpa using hf
      simp [hf']

theorem anyWith_node {i : Info} {ch sib : Forest} (h : anyWith (.node i ch sib) = false) :
    (i.isFunc && i.hasWith) = false ∧ anyWith ch = false ∧ anyWith sib = false := by
  simpa [anyWith, Bool.or_eq_false_iff, and_assoc] using h

/-- no `with` anywhere and no `KeepVarNames`: every scope is renamed -/
theorem computeFlags_allRenamed : ∀ (f : Forest), anyWith f = false →
    allRenamed (computeFlags false true f) = true := by
  intro f
  induction f with
  | nil => intro _; rfl
  | node i ch sib ihc ihs =>
    intro h
    obtain ⟨h1, h2, h3⟩ := anyWith_node h
    simp only [computeFlags, allRenamed, all_node]
    have hr : (if i.isFunc = true then !(i.hasWith || anyWith ch) && !false else true) = true := by
      by_cases hf : i.isFunc = true
      · have : i.hasWith = false := by simpa [hf] using h1
        simp [hf, this, h2]
      · simp [hf]
    rw [hr]
    exact ⟨rfl, ihc h2, ihs h3⟩

/-- the flags js.go computes never switch renaming off below a renamed scope -/
theorem computeFlags_flagsOk (keep : Bool) : ∀ (f : Forest) (cur : Bool),
    (cur = true → keep = false ∧ anyWith f = false) → flagsOk (computeFlags keep cur f) = true := by
  intro f
  induction f with
  | nil => intro _ _; rfl
  | node i ch sib ihc ihs =>
    intro cur hcur
    simp only [computeFlags, flagsOk, Bool.and_eq_true]
    constructor
    · by_cases hf : i.isFunc = true
      · by_cases hr : (!(i.hasWith || anyWith ch) && !keep) = true
        · simp only [hf, if_true, hr]
          simp only [Bool.and_eq_true, Bool.not_eq_true', Bool.or_eq_false_iff] at hr
          have hk : keep = false := hr.2
          subst hk
          exact computeFlags_allRenamed ch hr.1.2
        · have hr' : (!(i.hasWith || anyWith ch) && !keep) = false := by simpa using hr
          simp only [hf, if_true, hr', Bool.false_eq_true, if_false]
          exact ihc false (by simp)
      · have hf' : i.isFunc = false := by simpa using hf
        simp only [hf', Bool.false_eq_true, if_false]
        cases cur with
        | true =>
          obtain ⟨hk, hw⟩ := hcur rfl
          subst hk
          simp only [if_true]
          exact computeFlags_allRenamed ch (anyWith_node hw).2.1
        | false =>
          simp only [Bool.false_eq_true, if_false]
          exact ihc false (by simp)
    · apply ihs cur
      intro hc
      obtain ⟨hk, hw⟩ := hcur hc
      exact ⟨hk, (anyWith_node hw).2.2⟩

end Verif.Proofs.Rename

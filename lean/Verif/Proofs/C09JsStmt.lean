import Verif.Model.JsStmt
import Verif.Proofs.C09JsTree
/-!
# C09 (JS) — the statement printer model of C01, guarded: every printed expression tree is a grammar tree

`printSG` / `printLG` / `jsTokensG` are `Model.JsStmt.printS` / `printL` / `jsTokens` with one change: the expression
printer is defined only where the tree it prints is a derivation tree of the expression grammar with plain names and
strings (`gwfA t && treeOk t`, both executable).  Where the guarded printer is defined it is the model
(`printSG_agrees`), and its token lists satisfy the hypotheses of the token-separation theorem (`jsTokensG_safe`).
-/
namespace Verif.Proofs.C09JsStmt
open Verif.Spec.C09JsLex Verif.Spec.JsSyntax Verif.Spec.JsGrammar Verif.Model.JsAst Verif.Model.JsOpt
open Verif.Model.JsPrint Verif.Model.JsStmt Verif.Proofs.C09JsSep Verif.Proofs.C09JsTree Verif.Proofs.C09JsScan
open Verif.Spec.JsSyntax.E Verif.Spec.JsSyntax.S

/-- the expression printer inside `printS`, guarded -/
def efG (o : Opts) (e : E) : Option (List Tok) :=
  match minGen (optNode o.guarded o.ver2020) (8 * size e + 64) e opExpr with
  | some t => if gwfA t && treeOk t then some (flat t) else none
  | none => none

def identsOk (l : List String) : Bool := l.all identOk

mutual
def printSG (o : Opts) : Nat → S → Option (List Tok × Bool)
  | 0, _ => none
  | fuel + 1, s =>
    match s with
    | .expr e => (efG o e).map (fun t => (t, true))
    | .ret none => some ([.kw "return"], true)
    | .ret (some e) => (efG o e).map (fun t => ([Tok.kw "return"] ++ t, true))
    | .throw e => (efG o e).map (fun t => ([Tok.kw "throw"] ++ t, true))
    | .block l => (printLG o fuel l false).map (fun t => ([Tok.p "{"] ++ t ++ [Tok.p "}"], false))
    | .empty => some ([], false)
    | .absent => some ([], false)
    | .fn name ps body =>
      let body' := optStmtList (4 * sizeSL body + 16) body .function
      if o.guarded && k1Trigger (optLoop (4 * sizeSL body + 15) [] body) then none else
      if !(identOk name && identsOk (keptParams ps body)) then none else
      (printLG o fuel body' false).map (fun t =>
        ([Tok.kw "function", Tok.ident name, Tok.p "("] ++ sepToks (Tok.p ",") ((keptParams ps body).map Tok.ident)
          ++ [Tok.p ")", Tok.p "{"] ++ t ++ [Tok.p "}"], false))
    | .ifS c t e =>
      let hasIf := !isEmptyStmt t
      let hasElse := !isEmptyStmt e
      if !hasIf && !hasElse then some ([], false)
      else
        match efG o c with
        | none => none
        | some ct =>
          let head := [Tok.kw "if", Tok.p "("] ++ ct ++ [Tok.p ")"]
          let body : Option (List Tok × Bool) :=
            if !hasIf then some ([], true)
            else if hasElse && endsInIf (sizeS t + 1) t then
              (printSG o fuel t).map (fun r => ([Tok.p "{"] ++ r.1 ++ [Tok.p "}"], false))
            else printSG o fuel t
          match body with
          | none => none
          | some (bt, pend1) =>
            if hasElse then
              match printSG o fuel e with
              | none => none
              | some (et, pend2) =>
                some (head ++ bt ++ (if pend1 then [Tok.p ";"] else []) ++ [Tok.kw "else"] ++ et, pend2)
            else some (head ++ bt, pend1)

def printLG (o : Opts) : Nat → List S → Bool → Option (List Tok)
  | _, [], _ => some []
  | 0, _ :: _, _ => none
  | fuel + 1, s :: rest, pending =>
    match printSG o fuel s with
    | none => none
    | some (ts, pend) =>
      match printLG o fuel rest pend with
      | none => none
      | some r => some ((if pending then [Tok.p ";"] else []) ++ ts ++ r)
end

/-- `Model.JsStmt.jsTokens`, guarded -/
def jsTokensG (o : Opts) (prog : List S) : Option (List Tok) :=
  let n := 4 * sizeSL prog + 16
  let l := optStmtList n prog .function
  if o.guarded && k1Trigger (optLoop (n - 1) [] prog) then none else
  printLG o n l false

theorem efG_agrees (o : Opts) (e : E) (ts : List Tok) (h : efG o e = some ts) :
    (minGen (optNode o.guarded o.ver2020) (8 * size e + 64) e opExpr).map flat = some ts := by
  unfold efG at h
  split at h
  · rename_i t ht
    split at h
    · simp at h; subst h; simp [ht]
    · simp at h
  · simp at h

theorem agrees : ∀ (o : Opts) (fuel : Nat),
    (∀ s r, printSG o fuel s = some r → printS o fuel s = some r) ∧
    (∀ l p r, printLG o fuel l p = some r → printL o fuel l p = some r) := by
  intro o fuel
  induction fuel with
  | zero =>
    refine ⟨fun s r h => by simp [printSG] at h, fun l p r h => ?_⟩
    cases l with
    | nil => simpa [printLG, printL] using h
    | cons a t => simp [printLG] at h
  | succ n ih =>
    obtain ⟨ihS, ihL⟩ := ih
    refine ⟨?_, ?_⟩
    · intro s r h
      cases s with
      | expr e =>
        simp only [printSG] at h
        cases he : efG o e with
        | none => simp [he] at h
        | some ts =>
          simp only [he, Option.map] at h
          simp only [printS, efG_agrees o e ts he]
          exact h
      | ret v =>
        cases v with
        | none => simpa [printSG, printS] using h
        | some e =>
          simp only [printSG] at h
          cases he : efG o e with
          | none => simp [he] at h
          | some ts =>
            simp only [he, Option.map] at h
            simp only [printS, efG_agrees o e ts he]
            exact h
      | throw e =>
        simp only [printSG] at h
        cases he : efG o e with
        | none => simp [he] at h
        | some ts =>
          simp only [he, Option.map] at h
          simp only [printS, efG_agrees o e ts he]
          exact h
      | block l =>
        simp only [printSG] at h
        cases hl : printLG o n l false with
        | none => simp [hl] at h
        | some ts =>
          simp only [hl, Option.map] at h
          simp only [printS, ihL l false ts hl]
          exact h
      | empty => simpa [printSG, printS] using h
      | absent => simpa [printSG, printS] using h
      | fn name ps body =>
        simp only [printSG] at h
        split at h
        · simp at h
        · rename_i hk
          split at h
          · simp at h
          · cases hl : printLG o n (optStmtList (4 * sizeSL body + 16) body .function) false with
            | none => simp [hl] at h
            | some ts =>
              simp only [hl, Option.map] at h
              simp only [printS, hk, ihL _ false ts hl]
              exact h
      | ifS c t e =>
        simp only [printSG] at h
        simp only [printS]
        cases hIt : isEmptyStmt t <;> cases hIe : isEmptyStmt e <;>
          simp only [hIt, hIe, Bool.not_true, Bool.not_false, Bool.and_true, Bool.and_false, Bool.true_and,
            Bool.false_and, Bool.false_eq_true, if_false, if_true] at h ⊢
        · -- body and else
          cases hc : efG o c with
          | none => simp [hc] at h
          | some ct =>
            simp only [hc] at h
            simp only [efG_agrees o c ct hc]
            cases hbr : endsInIf (sizeS t + 1) t <;>
              simp only [hbr, Bool.false_eq_true, if_false, if_true] at h ⊢
            · cases hb : printSG o n t with
              | none => simp [hb] at h
              | some rb =>
                obtain ⟨bt, pend1⟩ := rb
                simp only [hb] at h
                simp only [ihS t _ hb]
                cases hee : printSG o n e with
                | none => simp [hee] at h
                | some r2 =>
                  obtain ⟨et, pend2⟩ := r2
                  simp only [hee] at h
                  simp only [ihS e _ hee]
                  exact h
            · cases hb : printSG o n t with
              | none => simp [hb] at h
              | some rb =>
                simp only [hb, Option.map] at h
                simp only [ihS t _ hb, Option.map]
                cases hee : printSG o n e with
                | none => simp [hee] at h
                | some r2 =>
                  obtain ⟨et, pend2⟩ := r2
                  simp only [hee] at h
                  simp only [ihS e _ hee]
                  exact h
        · -- body only
          cases hc : efG o c with
          | none => simp [hc] at h
          | some ct =>
            simp only [hc] at h
            simp only [efG_agrees o c ct hc]
            cases hb : printSG o n t with
            | none => simp [hb] at h
            | some rb =>
              obtain ⟨bt, pend1⟩ := rb
              simp only [hb] at h
              simp only [ihS t _ hb]
              exact h
        · -- else only
          cases hc : efG o c with
          | none => simp [hc] at h
          | some ct =>
            simp only [hc] at h
            simp only [efG_agrees o c ct hc]
            cases hee : printSG o n e with
            | none => simp [hee] at h
            | some r2 =>
              obtain ⟨et, pend2⟩ := r2
              simp only [hee] at h
              simp only [ihS e _ hee]
              exact h
        · exact h
    · intro l p r h
      cases l with
      | nil => simpa [printLG, printL] using h
      | cons s rest =>
        simp only [printLG] at h
        cases hs : printSG o n s with
        | none => simp [hs] at h
        | some r1 =>
          obtain ⟨ts, pend⟩ := r1
          simp only [hs] at h
          cases hr : printLG o n rest pend with
          | none => simp [hr] at h
          | some r2 =>
            simp only [hr] at h
            simp only [printL, ihS s _ hs, ihL rest pend r2 hr]
            exact h


/-! ## adjacency at statement level: separators that go with everything -/

/-- tokens after which anything may follow -/
def UL (t : Tok) : Bool :=
  t == .p ";" || t == .p "{" || t == .p "}" || t == .p ")" || t == .kw "else" || t == .kw "return" || t == .kw "throw"
    || t == .kw "function"

/-- tokens that may follow anything -/
def UR (t : Tok) : Bool := t == .p ";" || t == .p "}"

theorem adj_UL (a b : Tok) (h : UL a = true) : adjOk a b = true := by
  simp only [UL, Bool.or_eq_true, beq_iff_eq] at h
  have hext : ext [';'] = [] ∧ ext ['{'] = [] ∧ ext ['}'] = [] ∧ ext [')'] = [] := by decide
  rcases h with ((((((h | h) | h) | h) | h) | h) | h) | h <;> subst h
  · cases hb : firstC b <;> simp [adjOk, hb, plainInt, hext.1]
  · cases hb : firstC b <;> simp [adjOk, hb, plainInt, hext.2.1]
  · cases hb : firstC b <;> simp [adjOk, hb, plainInt, hext.2.2.1]
  · cases hb : firstC b <;> simp [adjOk, hb, plainInt, hext.2.2.2]
  · simp [adjOk, plainInt, kwNeedsSpace]
  · simp [adjOk, plainInt, kwNeedsSpace]
  · simp [adjOk, plainInt, kwNeedsSpace]
  · simp [adjOk, plainInt, kwNeedsSpace]

theorem ext_no_sep (p : List Char) (hp : p ≠ []) : ';' ∉ ext p ∧ '}' ∉ ext p := by
  have : ∀ q ∈ puncts, (';' ∈ q → q = [';']) ∧ ('}' ∈ q → q = ['}']) := by decide
  constructor
  · intro h
    simp only [ext, List.mem_filterMap] at h
    obtain ⟨q, hq, hc⟩ := h
    split at hc
    · rename_i hpre
      have hm : ';' ∈ q := List.mem_of_getElem? hc
      have := (this q hq).1 hm
      subst this
      simp only [Bool.and_eq_true, decide_eq_true_eq] at hpre
      have hl := hpre.2
      cases p with
      | nil => exact hp rfl
      | cons a r => simp at hl
    · simp at hc
  · intro h
    simp only [ext, List.mem_filterMap] at h
    obtain ⟨q, hq, hc⟩ := h
    split at hc
    · rename_i hpre
      have hm : '}' ∈ q := List.mem_of_getElem? hc
      have := (this q hq).2 hm
      subst this
      simp only [Bool.and_eq_true, decide_eq_true_eq] at hpre
      have hl := hpre.2
      cases p with
      | nil => exact hp rfl
      | cons a r => simp at hl
    · simp at hc

theorem adj_UR (a b : Tok) (ha : tokOk a = true) (h : UR b = true) : adjOk a b = true := by
  simp only [UR, Bool.or_eq_true, beq_iff_eq] at h
  have hsp : startsIdPart b = false := by rcases h with h | h <;> subst h <;> decide
  have hfc : firstC b = some ';' ∨ firstC b = some '}' := by rcases h with h | h <;> subst h <;> simp [firstC, txt, tokText]
  have hnd : firstC b ≠ some '.' := by rcases hfc with h | h <;> rw [h] <;> simp
  cases a with
  | ident n => simp [adjOk, hsp, plainInt]
  | kw k => simp [adjOk, hsp, plainInt]
  | num n bd => simp [adjOk, hsp, hnd]
  | str n => simp [adjOk, plainInt]
  | p q =>
    have hq : q.toList ≠ [] := txt_ne_nil (.p q) ha
    rcases hfc with hc | hc
    · simp only [adjOk, hc, plainInt, Bool.and_eq_true, Bool.or_eq_true, Bool.not_eq_true', bne_iff_ne, ne_eq]
      exact ⟨⟨⟨Or.inl (by simpa using (ext_no_sep q.toList hq).1), Or.inr (by decide)⟩, Or.inr (by decide)⟩, Or.inl trivial⟩
    · simp only [adjOk, hc, plainInt, Bool.and_eq_true, Bool.or_eq_true, Bool.not_eq_true', bne_iff_ne, ne_eq]
      exact ⟨⟨⟨Or.inl (by simpa using (ext_no_sep q.toList hq).2), Or.inr (by decide)⟩, Or.inr (by decide)⟩, Or.inl trivial⟩

/-- joining two runs of tokens at a separator -/
theorem adjChain_append_U (xs ys : List Tok) (hx : adjChain xs = true) (hy : adjChain ys = true)
    (hok : ∀ t ∈ xs, tokOk t = true)
    (h : (∀ a, xs.getLast? = some a → UL a = true) ∨ (∀ b, ys.head? = some b → UR b = true)) :
    adjChain (xs ++ ys) = true := by
  cases hxl : xs.getLast? with
  | none =>
    have : xs = [] := by simpa using hxl
    subst this; simpa using hy
  | some a =>
    cases hyh : ys.head? with
    | none =>
      have : ys = [] := by simpa using hyh
      subst this; simpa using hx
    | some b =>
      rw [adjChain_append xs ys a b hxl hyh, hx, hy]
      have hab : adjOk a b = true := by
        rcases h with h | h
        · exact adj_UL a b (h a hxl)
        · exact adj_UR a b (hok a (List.mem_of_getLast? hxl)) (h b hyh)
      simp [hab]


/-! ## the goal tracker at statement level -/

/-- statement position: all pending flags cleared, no class head pending, inside a statement list -/
def SPos (σ : St) : Prop :=
  stmtPos σ = σ ∧ σ.clsHead = none ∧ (topFrame σ = none ∨ topFrame σ = some (.brace true false))

/-- the tracker after a statement that started in `σ`: the next separator leads back to `σ` -/
def SEnd (σ σ' : St) : Prop := stmtPos σ' = stmtPos σ ∧ σ'.afterDot = false

theorem SPos_init : SPos {} := ⟨rfl, rfl, Or.inl rfl⟩

theorem SPos_fields {σ : St} (h : SPos σ) :
    σ.exprEnd = false ∧ σ.stmtStart = true ∧ σ.afterDot = false ∧ σ.ctlKw = false ∧ σ.fnHead = none ∧
      σ.fnBody = none ∧ σ.clsHead = none := by
  have h1 := h.1
  refine ⟨?_, ?_, ?_, ?_, ?_, ?_, h.2.1⟩
  · have := congrArg St.exprEnd h1; simpa [stmtPos] using this.symm
  · have := congrArg St.stmtStart h1; simpa [stmtPos] using this.symm
  · have := congrArg St.afterDot h1; simpa [stmtPos] using this.symm
  · have := congrArg St.ctlKw h1; simpa [stmtPos] using this.symm
  · have := congrArg St.fnHead h1; simpa [stmtPos] using this.symm
  · have := congrArg St.fnBody h1; simpa [stmtPos] using this.symm

theorem SPos_P0 {σ : St} (h : SPos σ) : P0 σ := by
  obtain ⟨h1, _, h3, h4, h5, _, _⟩ := SPos_fields h
  exact ⟨h1, h4, h3, h5⟩

theorem SEnd_refl {σ : St} (h : SPos σ) : SEnd σ σ := ⟨rfl, (SPos_fields h).2.2.1⟩

theorem stmtPos_idem (σ : St) : stmtPos (stmtPos σ) = stmtPos σ := rfl

theorem SEnd_stack {σ σ' : St} (h : SEnd σ σ') : σ'.stack = σ.stack ∧ σ'.tern = σ.tern ∧ σ'.clsHead = σ.clsHead := by
  have h1 := h.1
  refine ⟨?_, ?_, ?_⟩
  · have := congrArg St.stack h1; simpa [stmtPos] using this
  · have := congrArg St.tern h1; simpa [stmtPos] using this
  · have := congrArg St.clsHead h1; simpa [stmtPos] using this

/-- `;` after a statement leads back to the statement position -/
theorem step_semi {σ σ' : St} (nl : Bool) (hs : SPos σ) (h : SEnd σ σ') : step σ' (lexTok nl (.p ";")) = σ := by
  rw [step_punct]
  have hst := (SEnd_stack h).1
  have htop : topFrame σ' = topFrame σ := by simp [topFrame, hst]
  have : stepPunct σ' ";" nl = stmtPos σ' := by
    rcases hs.2.2 with h0 | h0
    · simp [stepPunct, htop, h0]
    · simp [stepPunct, htop, h0]
  rw [this, h.1, hs.1]

theorem step_else {σ σ' : St} (nl : Bool) (hs : SPos σ) (h : SEnd σ σ') : step σ' (lexTok nl (.kw "else")) = σ := by
  rw [step_name σ' nl (.kw "else") "else" rfl rfl]
  have : stepName σ' "else" = stmtPos σ' := by simp [stepName, h.2]
  rw [this, h.1, hs.1]

/-- the state inside a block opened in statement position -/
def inBlock (σ : St) : St := stmtPos (push σ (.brace true false))

theorem SPos_inBlock {σ : St} (h : SPos σ) : SPos (inBlock σ) :=
  ⟨rfl, by simpa [inBlock, stmtPos, push] using h.2.1, Or.inr rfl⟩

theorem step_lbrace {σ : St} (nl : Bool) (h : SPos σ) : step σ (lexTok nl (.p "{")) = inBlock σ := by
  obtain ⟨_, h2, _, _, _, _, h7⟩ := SPos_fields h
  rw [step_punct]
  simp [stepPunct, inBlock, h7, h2]

theorem step_rbrace {σ σf : St} (nl : Bool) (hs : SPos σ) (h : SEnd (inBlock σ) σf) :
    step σf (lexTok nl (.p "}")) = σ ∧ tmplClose σf = false := by
  obtain ⟨hst, htn, hcl⟩ := SEnd_stack h
  have htop : topFrame σf = some (.brace true false) := by
    simp [topFrame, hst, inBlock, stmtPos, push]
  rw [step_punct]
  refine ⟨?_, by simp [tmplClose, htop]⟩
  have : stepPunct σf "}" nl = stmtPos (pop σf) := by simp [stepPunct, htop]
  rw [this]
  have hσ := hs.1
  cases σ
  cases σf
  simp_all [stmtPos, pop, inBlock, push]
  rw [← hσ.2.2.1, ← hσ.2.2.2.1]

/-- goal condition of separators and keywords: they do not start with `/` and are not `}` -/
theorem gcond_sep (σ : St) (t : Tok) (h : t = .p ";" ∨ t = .p "{" ∨ t = .p "(" ∨ t = .p ")" ∨ t = .p "," ∨
    t = .kw "else" ∨ t = .kw "return" ∨ t = .kw "throw" ∨ t = .kw "if" ∨ t = .kw "function") : gcond σ t = true := by
  rcases h with h | h | h | h | h | h | h | h | h | h <;> subst h <;> exact gcond_plain σ _ (by decide) (by decide)


/-! ## statements and statement lists as token runs -/

/-- the tokens `ts` of one statement; `pend`: a semicolon is still owed -/
structure SP (ts : List Tok) (pend : Bool) : Prop where
  ok : ∀ t ∈ ts, tokOk t = true
  adj : adjChain ts = true
  lastU : pend = false → ∀ a, ts.getLast? = some a → UL a = true
  hd : headOk ts = true
  single : ∀ t, ts = [t] → t ≠ .p "--"
  goal : ∀ σ nl, SPos σ → goalsOk σ nl ts = true ∧ (if pend then SEnd σ (run σ nl ts) else run σ nl ts = σ)

/-- the tokens `r` of a statement list printed after a statement with `pending` semicolon -/
structure LP (r : List Tok) (pending : Bool) : Prop where
  ok : ∀ t ∈ r, tokOk t = true
  adj : adjChain r = true
  firstUR : pending = true → ∀ b, r.head? = some b → UR b = true
  hd : headOk r = true
  goal : ∀ σ0 σ nl, SPos σ → (if pending then SEnd σ σ0 else σ0 = σ) →
    goalsOk σ0 nl r = true ∧ SEnd σ (run σ0 nl r)

theorem SP.end_ {ts : List Tok} {pend : Bool} (h : SP ts pend) (σ : St) (nl : Bool) (hs : SPos σ) :
    SEnd σ (run σ nl ts) := by
  have := (h.goal σ nl hs).2
  cases pend with
  | true => simpa using this
  | false => simp at this; rw [this]; exact SEnd_refl hs

theorem efG_seg (o : Opts) (e : E) (ts : List Tok) (h : efG o e = some ts) :
    Seg ts ∧ headOk ts = true ∧ ∀ t, ts = [t] → ∀ s, t ≠ .p s := by
  unfold efG at h
  split at h
  · rename_i t ht
    split at h
    · rename_i hg
      simp only [Bool.and_eq_true] at hg
      simp at h; subst h
      exact ⟨yield_seg t hg.1 hg.2, yield_headOk t hg.1 hg.2, fun x hx => single_not_punct t hg.1 hg.2 x hx⟩
    · simp at h
  · simp at h

theorem sp_empty : SP [] false where
  ok := by simp
  adj := rfl
  lastU := by simp
  hd := rfl
  single := by simp
  goal := by intro σ nl _; simp [goalsOk, run]

theorem sp_expr (ts : List Tok) (hs : Seg ts) (hh : headOk ts = true) (h1 : ∀ t, ts = [t] → ∀ s, t ≠ .p s) :
    SP ts true where
  ok := hs.piece.ok
  adj := hs.piece.adj
  lastU := by simp
  hd := hh
  single := fun t ht => h1 t ht "--"
  goal := by
    intro σ nl hσ
    obtain ⟨g, r⟩ := hs.piece.goal σ nl (SPos_P0 hσ) (fun _ => (SPos_fields hσ).1)
    exact ⟨g, by simp only [if_true]; rw [r]; exact ⟨rfl, rfl⟩⟩

theorem step_kwstmt (σ : St) (nl : Bool) (k : String) (hk : k = "return" ∨ k = "throw") (hd : σ.afterDot = false) :
    step σ (lexTok nl (.kw k)) = operandPos σ := by
  rw [step_name σ nl (.kw k) k rfl rfl]
  rcases hk with rfl | rfl <;> simp [stepName, hd, reserved]

theorem sp_ret0 : SP [.kw "return"] true where
  ok := by decide
  adj := rfl
  lastU := by simp
  hd := rfl
  single := by intro t ht; simp at ht; subst ht; decide
  goal := by
    intro σ nl hσ
    have := step_kwstmt σ nl "return" (Or.inl rfl) (SPos_fields hσ).2.2.1
    have hg : gcond σ (.kw "return") = true := gcond_plain σ (.kw "return") (by decide) (by decide)
    simp only [gcond] at hg
    simp only [goalsOk_cons, run_cons, this, hg, goalsOk, run, Bool.and_self, if_true, true_and]
    exact ⟨rfl, rfl⟩

theorem sp_kw_expr (k : String) (hk : k = "return" ∨ k = "throw") (ts : List Tok) (hs : Seg ts) :
    SP (.kw k :: ts) true where
  ok := by
    intro t ht
    simp only [List.mem_cons] at ht
    rcases ht with rfl | ht
    · rcases hk with rfl | rfl <;> decide
    · exact hs.piece.ok t ht
  adj := by
    have := adjChain_append_U [.kw k] ts rfl hs.piece.adj
      (by intro t ht; simp at ht; subst ht; rcases hk with rfl | rfl <;> decide)
      (Or.inl (by intro a ha; simp at ha; subst ha; rcases hk with rfl | rfl <;> decide))
    simpa using this
  lastU := by simp
  hd := headOk_of_first _ (by rcases hk with rfl | rfl <;> simp)
  single := by
    intro t ht
    have := congrArg List.length ht
    have hne := hs.piece.ne
    cases ts with
    | nil => exact absurd rfl hne
    | cons a r => simp at this
  goal := by
    intro σ nl hσ
    have hst := step_kwstmt σ nl k hk (SPos_fields hσ).2.2.1
    obtain ⟨g, r⟩ := hs.piece.goal (operandPos σ) false (P0_operandPos σ (SPos_fields hσ).2.2.2.2.1)
      (by intro h; exact absurd h (by simp))
    have hg : gcond σ (.kw k) = true := by
      rcases hk with rfl | rfl <;> exact gcond_plain σ _ (by decide) (by decide)
    simp only [gcond] at hg
    simp only [goalsOk_cons, run_cons, hst, g, r, hg, Bool.and_self, if_true, true_and]
    exact ⟨rfl, rfl⟩


theorem two_not_single {α : Type} (a : α) (l : List α) (b t : α) : a :: (l ++ [b]) ≠ [t] := by
  intro e
  have := congrArg List.length e
  simp at this

/-- an opener: tokens after which the tracker is inside a fresh block (`{`, or a function head up to its `{`) -/
structure OP (xs : List Tok) : Prop where
  ne : xs ≠ []
  ok : ∀ t ∈ xs, tokOk t = true
  adj : adjChain xs = true
  endsUL : ∀ a, xs.getLast? = some a → UL a = true
  first : xs.head? ≠ some (.p "--")
  goal : ∀ σ nl, SPos σ → goalsOk σ nl xs = true ∧ run σ nl xs = inBlock σ

theorem op_lbrace : OP [.p "{"] where
  ne := by simp
  ok := by decide
  adj := rfl
  endsUL := by intro a ha; simp at ha; subst ha; decide
  first := by simp
  goal := by
    intro σ nl hσ
    have hopen : step σ (lexTok nl (.p "{")) = inBlock σ := step_lbrace nl hσ
    have hgo : gcond σ (.p "{") = true := gcond_sep σ _ (Or.inr (Or.inl rfl))
    simp only [gcond] at hgo
    simp only [goalsOk_cons, run_cons, hopen, hgo, goalsOk, run, Bool.and_self]
    exact ⟨trivial, trivial⟩

/-- `opener r }` around a run of statements -/
theorem sp_block_gen (xs r : List Tok) (hx : OP xs) (hok : ∀ t ∈ r, tokOk t = true) (hadj : adjChain r = true)
    (hg : ∀ σ, SPos σ → goalsOk (inBlock σ) false r = true ∧ SEnd (inBlock σ) (run (inBlock σ) false r)) :
    SP (xs ++ r ++ [.p "}"]) false where
  ok := by
    intro t ht
    simp only [List.mem_append, List.mem_singleton] at ht
    rcases ht with (ht | ht) | rfl
    · exact hx.ok t ht
    · exact hok t ht
    · decide
  adj := by
    have h1 := adjChain_append_U xs r hx.adj hadj hx.ok (Or.inl hx.endsUL)
    exact adjChain_append_U _ [.p "}"] h1 rfl
      (by
        intro t ht
        simp only [List.mem_append] at ht
        rcases ht with ht | ht
        · exact hx.ok t ht
        · exact hok t ht)
      (Or.inr (by intro b hb; simp at hb; subst hb; decide))
  lastU := by
    intro _ a ha
    rw [last_snoc] at ha
    injection ha with ha; subst ha; decide
  hd := headOk_of_first _ (by
    rw [List.append_assoc, head?_append_ne _ _ hx.ne]; exact hx.first)
  single := by
    intro t ht
    have := congrArg List.length ht
    have hne := hx.ne
    cases xs with
    | nil => exact absurd rfl hne
    | cons a l => simp at this
  goal := by
    intro σ nl hσ
    obtain ⟨g0, e0⟩ := hx.goal σ nl hσ
    obtain ⟨g, e⟩ := hg σ hσ
    obtain ⟨hstep, htc⟩ := step_rbrace (σ := σ) false hσ e
    have hne : xs ++ r ≠ [] := by simp [hx.ne]
    rw [goalsOk_append σ nl _ _ hne, run_append σ nl _ _ hne]
    have h1 : goalsOk σ nl (xs ++ r) = true ∧ run σ nl (xs ++ r) = run (inBlock σ) false r := by
      by_cases hr : r = []
      · subst hr; simp [g0, e0, run]
      · rw [goalsOk_append σ nl xs r hx.ne, run_append σ nl xs r hx.ne, g0, e0, g]; exact ⟨rfl, rfl⟩
    rw [h1.1, h1.2]
    have hgc : ((txt (.p "}")).head? != some '/' || (run (inBlock σ) false r).exprEnd) = true := by
      have : (txt (.p "}")).head? ≠ some '/' := by decide
      simp [this]
    simp only [goalsOk_cons, run_cons, hstep, htc, hgc, goalsOk, run, Bool.not_false, Bool.or_true, Bool.and_self,
      Bool.false_eq_true, if_false]
    exact ⟨trivial, trivial⟩

/-- `{ r }` around a statement list -/
theorem sp_braces (r : List Tok) (hok : ∀ t ∈ r, tokOk t = true) (hadj : adjChain r = true)
    (hg : ∀ σ, SPos σ → goalsOk (inBlock σ) false r = true ∧ SEnd (inBlock σ) (run (inBlock σ) false r)) :
    SP ([.p "{"] ++ r ++ [.p "}"]) false := sp_block_gen _ r op_lbrace hok hadj hg

theorem lp_nil (pending : Bool) : LP [] pending where
  ok := by simp
  adj := rfl
  firstUR := by simp
  hd := rfl
  goal := by
    intro σ0 σ nl hσ h
    refine ⟨rfl, ?_⟩
    simp only [run]
    cases pending with
    | true => simpa using h
    | false => simp at h; rw [h]; exact SEnd_refl hσ

theorem lp_cons (ts r : List Tok) (pend pending : Bool) (hs : SP ts pend) (hr : LP r pend) :
    LP ((if pending then [Tok.p ";"] else []) ++ ts ++ r) pending := by
  have hjoin : adjChain (ts ++ r) = true := by
    refine adjChain_append_U ts r hs.adj hr.adj hs.ok ?_
    cases pend with
    | true => exact Or.inr (hr.firstUR rfl)
    | false => exact Or.inl (hs.lastU rfl)
  have hokj : ∀ t ∈ ts ++ r, tokOk t = true := by
    intro t ht
    simp only [List.mem_append] at ht
    rcases ht with ht | ht
    · exact hs.ok t ht
    · exact hr.ok t ht
  have hhd : headOk (ts ++ r) = true := by
    match ts, hs.hd, hs.single with
    | [], _, _ => simpa using hr.hd
    | [t], _, h1 => exact headOk_of_first _ (by simp; exact h1 t rfl)
    | a :: b :: l, h, _ => exact headOk_append _ _ h (by simp)
  have hgoal : ∀ σ nl, SPos σ → goalsOk σ nl (ts ++ r) = true ∧ SEnd σ (run σ nl (ts ++ r)) := by
    intro σ nl hσ
    by_cases hne : ts = []
    · subst hne
      have h0 := (hs.goal σ nl hσ).2
      simp only [run] at h0
      have := hr.goal σ σ nl hσ (by
        cases pend with
        | true => simpa using h0
        | false => simp)
      simpa using this
    · obtain ⟨g1, e1⟩ := hs.goal σ nl hσ
      obtain ⟨g2, e2⟩ := hr.goal (run σ nl ts) σ false hσ e1
      rw [goalsOk_append σ nl ts r hne, run_append σ nl ts r hne, g1, g2]
      exact ⟨rfl, e2⟩
  cases pending with
  | false =>
    simp only [Bool.false_eq_true, if_false, List.nil_append]
    refine ⟨hokj, hjoin, by simp, hhd, ?_⟩
    intro σ0 σ nl hσ h
    simp at h; subst h
    exact hgoal σ0 nl hσ
  | true =>
    have hshape : (if true = true then [Tok.p ";"] else []) ++ ts ++ r = Tok.p ";" :: (ts ++ r) := by simp
    rw [hshape]
    refine ⟨?_, ?_, ?_, headOk_of_first _ (by simp), ?_⟩
    · intro t ht
      rcases List.mem_cons.mp ht with rfl | ht
      · decide
      · exact hokj t ht
    · have := adjChain_append_U [.p ";"] (ts ++ r) rfl hjoin (by intro t ht; simp at ht; subst ht; decide)
        (Or.inl (by intro a ha; simp at ha; subst ha; decide))
      simpa using this
    · intro _ b hb; simp at hb; subst hb; decide
    · intro σ0 σ nl hσ h
      simp only [if_true] at h
      have hst := step_semi nl hσ h
      obtain ⟨g, e⟩ := hgoal σ false hσ
      have hgc : gcond σ0 (.p ";") = true := gcond_sep σ0 _ (Or.inl rfl)
      simp only [gcond] at hgc
      simp only [goalsOk_cons, run_cons, hst, g, hgc, Bool.and_self]
      exact ⟨trivial, e⟩


/-! ## prefixes that lead back to the statement position -/

/-- a run of tokens that ends in a "goes with everything" token and after which the tracker is where it started -/
structure RP (xs : List Tok) : Prop where
  ok : ∀ t ∈ xs, tokOk t = true
  adj : adjChain xs = true
  endsUL : ∀ a, xs.getLast? = some a → UL a = true
  hd : headOk xs = true
  single : ∀ t, xs = [t] → t ≠ .p "--"
  goal : ∀ σ nl, SPos σ → goalsOk σ nl xs = true ∧ run σ nl xs = σ

theorem rp_nil : RP [] :=
  ⟨by simp, rfl, by simp, rfl, by simp, fun _ _ _ => ⟨rfl, rfl⟩⟩

theorem headOk_join (xs ys : List Tok) (hx : headOk xs = true) (h1 : ∀ t, xs = [t] → t ≠ .p "--")
    (hy : headOk ys = true) : headOk (xs ++ ys) = true := by
  match xs, hx, h1 with
  | [], _, _ => simpa using hy
  | [t], _, h1 => exact headOk_of_first _ (by simp; exact h1 t rfl)
  | a :: b :: l, h, _ => exact headOk_append _ _ h (by simp)

theorem single_join (xs ys : List Tok) (h1 : ∀ t, xs = [t] → t ≠ .p "--") (h2 : ∀ t, ys = [t] → t ≠ .p "--") :
    ∀ t, xs ++ ys = [t] → t ≠ .p "--" := by
  intro t ht
  match xs, ys, h1, h2, ht with
  | [], ys, _, h2, ht => exact h2 t (by simpa using ht)
  | [a], [], h1, _, ht => exact h1 t (by simpa using ht)
  | [a], b :: l, _, _, ht => simp at ht
  | a :: b :: l, ys, _, _, ht => simp at ht

theorem rp_append (xs ys : List Tok) (hx : RP xs) (hy : RP ys) : RP (xs ++ ys) where
  ok := by
    intro t ht
    simp only [List.mem_append] at ht
    rcases ht with ht | ht
    · exact hx.ok t ht
    · exact hy.ok t ht
  adj := adjChain_append_U xs ys hx.adj hy.adj hx.ok (Or.inl hx.endsUL)
  endsUL := by
    intro a ha
    by_cases hne : ys = []
    · subst hne; simp at ha; exact hx.endsUL a ha
    · rw [getLast?_append_ne _ _ hne] at ha; exact hy.endsUL a ha
  hd := headOk_join xs ys hx.hd hx.single hy.hd
  single := single_join xs ys hx.single hy.single
  goal := by
    intro σ nl hσ
    by_cases hne : xs = []
    · subst hne; simpa using hy.goal σ nl hσ
    · obtain ⟨g1, e1⟩ := hx.goal σ nl hσ
      obtain ⟨g2, e2⟩ := hy.goal σ false hσ
      rw [goalsOk_append σ nl xs ys hne, run_append σ nl xs ys hne, g1, e1, g2, e2]
      exact ⟨rfl, rfl⟩

theorem rp_of_sp {ts : List Tok} (h : SP ts false) : RP ts where
  ok := h.ok
  adj := h.adj
  endsUL := h.lastU rfl
  hd := h.hd
  single := h.single
  goal := by
    intro σ nl hσ
    have := h.goal σ nl hσ
    simpa using this

/-- a statement that owes its semicolon, followed by the semicolon -/
theorem rp_semi {ts : List Tok} (h : SP ts true) : RP (ts ++ [.p ";"]) where
  ok := by
    intro t ht
    simp only [List.mem_append, List.mem_singleton] at ht
    rcases ht with ht | rfl
    · exact h.ok t ht
    · decide
  adj := adjChain_append_U ts _ h.adj rfl h.ok (Or.inr (by intro b hb; simp at hb; subst hb; decide))
  endsUL := by intro a ha; rw [last_snoc] at ha; injection ha with ha; subst ha; decide
  hd := headOk_join ts _ h.hd h.single rfl
  single := single_join ts _ h.single (by intro t ht; simp at ht; subst ht; decide)
  goal := by
    intro σ nl hσ
    have hgc : ∀ σ0, gcond σ0 (.p ";") = true := fun σ0 => gcond_sep σ0 _ (Or.inl rfl)
    by_cases hne : ts = []
    · subst hne
      have hst := step_semi nl hσ (SEnd_refl hσ)
      have := hgc σ
      simp only [gcond] at this
      simp only [List.nil_append, goalsOk_cons, run_cons, hst, this, goalsOk, run, Bool.and_self]
      exact ⟨trivial, trivial⟩
    · obtain ⟨g1, e1⟩ := h.goal σ nl hσ
      simp only [if_true] at e1
      have hst := step_semi false hσ e1
      have := hgc (run σ nl ts)
      simp only [gcond] at this
      rw [goalsOk_append σ nl ts _ hne, run_append σ nl ts _ hne, g1]
      simp only [goalsOk_cons, run_cons, hst, this, goalsOk, run, Bool.and_self]
      exact ⟨trivial, trivial⟩

theorem rp_else : RP [.kw "else"] where
  ok := by decide
  adj := rfl
  endsUL := by intro a ha; simp at ha; subst ha; decide
  hd := rfl
  single := by intro t ht; simp at ht; subst ht; decide
  goal := by
    intro σ nl hσ
    have hst := step_else nl hσ (SEnd_refl hσ)
    have hgc : gcond σ (.kw "else") = true := gcond_sep σ _ (by simp)
    simp only [gcond] at hgc
    simp only [goalsOk_cons, run_cons, hst, hgc, goalsOk, run, Bool.and_self]
    exact ⟨trivial, trivial⟩

/-- a statement after a returning prefix -/
theorem sp_after (xs ts : List Tok) (pend : Bool) (hx : RP xs) (hs : SP ts pend) : SP (xs ++ ts) pend where
  ok := by
    intro t ht
    simp only [List.mem_append] at ht
    rcases ht with ht | ht
    · exact hx.ok t ht
    · exact hs.ok t ht
  adj := adjChain_append_U xs ts hx.adj hs.adj hx.ok (Or.inl hx.endsUL)
  lastU := by
    intro hp a ha
    by_cases hne : ts = []
    · subst hne; simp at ha; exact hx.endsUL a ha
    · rw [getLast?_append_ne _ _ hne] at ha; exact hs.lastU hp a ha
  hd := headOk_join xs ts hx.hd hx.single hs.hd
  single := single_join xs ts hx.single hs.single
  goal := by
    intro σ nl hσ
    by_cases hne : xs = []
    · subst hne; simpa using hs.goal σ nl hσ
    · obtain ⟨g1, e1⟩ := hx.goal σ nl hσ
      obtain ⟨g2, e2⟩ := hs.goal σ false hσ
      rw [goalsOk_append σ nl xs ts hne, run_append σ nl xs ts hne, g1, e1, g2]
      exact ⟨rfl, e2⟩

/-! ## `if (` cond `)` -/

theorem if_state (σ : St) (h : stmtPos σ = σ) :
    stmtPos (pop (operandEnd { operandPos (push { operandPos σ with ctlKw := true } (.paren true none)) with
      fnHead := none })) = σ := by
  cases σ
  simp_all [stmtPos, pop, operandEnd, operandPos, push]
  rw [← h.2.2.1, ← h.2.2.2.1]

theorem rp_if_head (ct : List Tok) (hc : Seg ct) : RP ([.kw "if", .p "("] ++ ct ++ [.p ")"]) := by
  obtain ⟨b, hb, hbS⟩ := hc.first
  obtain ⟨a, ha, haE⟩ := hc.last
  have hbok : tokOk b = true := hc.piece.ok b (List.mem_of_mem_head? hb)
  have hokAll : ∀ t ∈ [Tok.kw "if", Tok.p "("] ++ ct ++ [Tok.p ")"], tokOk t = true := by
    intro t ht
    simp only [List.mem_append, List.mem_cons, List.mem_singleton, List.not_mem_nil, or_false] at ht
    rcases ht with ((rfl | rfl) | ht) | rfl
    · decide
    · decide
    · exact hc.piece.ok t ht
    · decide
  refine ⟨hokAll, ?_, ?_, headOk_of_first _ (by simp), ?_, ?_⟩
  · have h1 : adjChain ([Tok.kw "if", Tok.p "("] ++ ct) = true := by
      rw [adjChain_append _ ct (.p "(") b (by simp) hb, hc.piece.adj, adj_leader_S "(" (by decide) b hbok hbS]
      decide
    rw [adjChain_append _ [Tok.p ")"] a (.p ")") (by rw [getLast?_append_ne _ _ hc.piece.ne]; exact ha) rfl, h1,
      adj_E_follower a haE ")" (by decide)]
    rfl
  · intro x hx; rw [last_snoc] at hx; injection hx with hx; subst hx; decide
  · intro t ht
    have := congrArg List.length ht
    simp at this
  · intro σ nl hσ
    obtain ⟨_, _, h3, _, h5, _, _⟩ := SPos_fields hσ
    have s1 : step σ (lexTok nl (.kw "if")) = { operandPos σ with ctlKw := true } := by
      rw [step_name σ nl (.kw "if") "if" rfl rfl]; simp [stepName, h3]
    have s2 : step { operandPos σ with ctlKw := true } (lexTok false (.p "("))
        = { operandPos (push { operandPos σ with ctlKw := true } (.paren true none)) with fnHead := none } := by
      rw [step_punct]; simp [stepPunct, operandPos, h5]
    have hP0 : P0 { operandPos (push { operandPos σ with ctlKw := true } (.paren true none)) with fnHead := none } :=
      ⟨rfl, rfl, rfl, rfl⟩
    obtain ⟨g, r⟩ := hc.piece.goal _ false hP0 (by intro h; exact absurd h (by simp))
    have s3 : step (operandEnd { operandPos (push { operandPos σ with ctlKw := true } (.paren true none)) with
        fnHead := none }) (lexTok false (.p ")")) = σ := by
      rw [step_punct]
      have : stepPunct (operandEnd { operandPos (push { operandPos σ with ctlKw := true } (.paren true none)) with
          fnHead := none }) ")" false = stmtPos (pop (operandEnd { operandPos (push { operandPos σ with ctlKw := true }
            (.paren true none)) with fnHead := none })) := by
        simp [stepPunct, topFrame, operandEnd, operandPos, push]
      rw [this, if_state σ hσ.1]
    have g1 : gcond σ (.kw "if") = true := gcond_sep σ _ (by simp)
    have g2 : ∀ σ0, gcond σ0 (.p "(") = true := fun σ0 => gcond_sep σ0 _ (by simp)
    have g3 : ∀ σ0, gcond σ0 (.p ")") = true := fun σ0 => gcond_sep σ0 _ (by simp)
    have hne : [Tok.kw "if", Tok.p "("] ++ ct ≠ [] := by simp
    rw [goalsOk_append σ nl _ _ hne, run_append σ nl _ _ hne]
    have h12 : goalsOk σ nl ([Tok.kw "if", Tok.p "("] ++ ct) = true ∧
        run σ nl ([Tok.kw "if", Tok.p "("] ++ ct) = operandEnd { operandPos (push { operandPos σ with ctlKw := true }
          (.paren true none)) with fnHead := none } := by
      have := g2 { operandPos σ with ctlKw := true }
      simp only [gcond] at g1 this
      simp only [List.cons_append, List.nil_append, goalsOk_cons, run_cons, s1, s2, g, r, g1, this, Bool.and_self]
      exact ⟨trivial, trivial⟩
    rw [h12.1, h12.2]
    have := g3 (operandEnd { operandPos (push { operandPos σ with ctlKw := true } (.paren true none)) with
      fnHead := none })
    simp only [gcond] at this
    simp only [goalsOk_cons, run_cons, s3, this, goalsOk, run, Bool.and_self]
    exact ⟨trivial, trivial⟩


/-! ## `function` name `(` params `) {` -/

def paramToks (ps : List String) : List Tok := sepToks (Tok.p ",") (ps.map Tok.ident)

/-- inside the parameter list of a function declaration opened in state `σ` -/
def InP (σ X : St) : Prop :=
  X.stack = (Frame.paren false (some false), σ.tern) :: σ.stack ∧ X.clsHead = none

theorem params_run (σ : St) : ∀ (ps : List String) (X : St), (∀ p ∈ ps, identOk p = true) → InP σ X →
    goalsOk X false (paramToks ps) = true ∧ InP σ (run X false (paramToks ps)) := by
  intro ps
  induction ps with
  | nil => intro X _ h; exact ⟨rfl, h⟩
  | cons x t ih =>
    intro X hok hX
    obtain ⟨_, h1, h2, hstep⟩ := ident_facts x (hok x (by simp))
    have hg : gcond X (.ident x) = true := gcond_plain X _ h1 h2
    simp only [gcond] at hg
    have hX1 : InP σ (operandEnd X) := ⟨hX.1, hX.2⟩
    cases t with
    | nil =>
      simp only [paramToks, List.map, sepToks, goalsOk_cons, run_cons, hstep, hg, goalsOk, run, Bool.and_self]
      exact ⟨trivial, hX1⟩
    | cons y t' =>
      have hX2 : InP σ (operandPos (operandEnd X)) := ⟨hX.1, hX.2⟩
      have := ih (operandPos (operandEnd X)) (fun p hp => hok p (by simp [hp])) hX2
      have hc : step (operandEnd X) (lexTok false (.p ",")) = operandPos (operandEnd X) := by
        rw [step_punct, stepPunct_plain _ _ "," (by decide)]
      have hgc : gcond (operandEnd X) (.p ",") = true := gcond_sep _ _ (by simp)
      simp only [gcond] at hgc
      simp only [paramToks, List.map, sepToks] at this ⊢
      simp only [goalsOk_cons, run_cons, hstep, hc, hg, hgc, this.1, Bool.and_self]
      exact ⟨trivial, this.2⟩

theorem params_shape : ∀ (ps : List String), (∀ p ∈ ps, identOk p = true) → ps ≠ [] →
    (∀ t ∈ paramToks ps, tokOk t = true) ∧ adjChain (paramToks ps) = true ∧
    (∃ x, (paramToks ps).head? = some (.ident x) ∧ identOk x = true) ∧
    (∃ x, (paramToks ps).getLast? = some (.ident x) ∧ identOk x = true) := by
  intro ps
  induction ps with
  | nil => intro _ h; exact absurd rfl h
  | cons x t ih =>
    intro hok _
    have hx := hok x (by simp)
    cases t with
    | nil =>
      refine ⟨?_, rfl, ⟨x, rfl, hx⟩, ⟨x, rfl, hx⟩⟩
      intro t ht; simp [paramToks, sepToks] at ht; subst ht; exact hx
    | cons y t' =>
      obtain ⟨ok', adj', ⟨f, hf, hfo⟩, ⟨l, hl, hlo⟩⟩ := ih (fun p hp => hok p (by simp [hp])) (by simp)
      have e : paramToks (x :: y :: t') = [Tok.ident x, Tok.p ","] ++ paramToks (y :: t') := by
        simp [paramToks, sepToks]
      rw [e]
      refine ⟨?_, ?_, ⟨x, rfl, hx⟩, ⟨l, ?_, hlo⟩⟩
      · intro t ht
        simp only [List.mem_append, List.mem_cons, List.not_mem_nil, or_false] at ht
        rcases ht with (rfl | rfl) | ht
        · exact hx
        · decide
        · exact ok' t ht
      · rw [adjChain_append _ _ (.p ",") (.ident f) rfl hf, adj',
          adj_leader_S "," (by decide) (.ident f) hfo rfl]
        simp only [adjChain, adj_E_follower (.ident x) rfl "," (by decide), Bool.and_self]
      · have hne : paramToks (y :: t') ≠ [] := by
          intro h0; rw [h0] at hf; simp at hf
        rw [getLast?_append_ne _ _ hne]; exact hl

theorem fn_state (σ X : St) (hσ : stmtPos σ = σ) (hc : σ.clsHead = none) (hX : InP σ X) :
    stmtPos (push { operandEnd (pop X) with fnBody := some false } (.brace true false)) = inBlock σ := by
  obtain ⟨h1, h2⟩ := hX
  cases σ
  cases X
  simp_all [stmtPos, pop, operandEnd, push, inBlock]

/-- the head of a function declaration up to the opening brace of its body -/
theorem op_fn (name : String) (ps : List String) (hn : identOk name = true) (hps : ∀ p ∈ ps, identOk p = true) :
    OP ([Tok.kw "function", Tok.ident name, Tok.p "("] ++ paramToks ps ++ [Tok.p ")", Tok.p "{"]) := by
  have hokp : ∀ t ∈ paramToks ps, tokOk t = true := by
    by_cases h : ps = []
    · subst h; simp [paramToks, sepToks]
    · exact (params_shape ps hps h).1
  have hadj : adjChain ([Tok.kw "function", Tok.ident name, Tok.p "("] ++ paramToks ps ++ [Tok.p ")", Tok.p "{"]) = true := by
    by_cases h : ps = []
    · subst h
      simp only [paramToks, List.map, sepToks, List.append_nil, List.cons_append, List.nil_append, adjChain,
        Bool.and_eq_true]
      exact ⟨adj_UL _ _ rfl, adj_E_follower (.ident name) rfl "(" (by decide), by decide, adj_UL _ _ rfl, trivial⟩
    · obtain ⟨_, adj', ⟨f, hf, hfo⟩, ⟨l, hl, hlo⟩⟩ := params_shape ps hps h
      have h1 : adjChain ([Tok.kw "function", Tok.ident name, Tok.p "("] ++ paramToks ps) = true := by
        rw [adjChain_append _ _ (.p "(") (.ident f) rfl hf, adj', adj_leader_S "(" (by decide) (.ident f) hfo rfl]
        simp only [adjChain, adj_UL (.kw "function") (.ident name) rfl,
          adj_E_follower (.ident name) rfl "(" (by decide), Bool.and_self]
      have hne : paramToks ps ≠ [] := by intro h0; rw [h0] at hf; simp at hf
      rw [adjChain_append _ _ (.ident l) (.p ")") (by rw [getLast?_append_ne _ _ hne]; exact hl) rfl, h1,
        adj_E_follower (.ident l) rfl ")" (by decide)]
      simp only [adjChain, adj_UL (.p ")") (.p "{") rfl, Bool.and_self]
  refine ⟨by simp, ?_, hadj, ?_, by simp, ?_⟩
  · intro t ht
    simp only [List.mem_append, List.mem_cons, List.not_mem_nil, or_false] at ht
    rcases ht with ((rfl | rfl | rfl) | ht) | (rfl | rfl)
    · decide
    · exact hn
    · decide
    · exact hokp t ht
    · decide
    · decide
  · intro a ha
    rw [show [Tok.kw "function", Tok.ident name, Tok.p "("] ++ paramToks ps ++ [Tok.p ")", Tok.p "{"]
        = ([Tok.kw "function", Tok.ident name, Tok.p "("] ++ paramToks ps ++ [Tok.p ")"]) ++ [Tok.p "{"] by simp,
      last_snoc] at ha
    injection ha with ha; subst ha; decide
  · intro σ nl hσ
    obtain ⟨_, h2, h3, h4, h5, _, h7⟩ := SPos_fields hσ
    obtain ⟨_, hi1, hi2, histep⟩ := ident_facts name hn
    have s1 : step σ (lexTok nl (.kw "function")) = { operandPos σ with fnHead := some false } := by
      rw [step_name σ nl (.kw "function") "function" rfl rfl]; simp [stepName, h3, h2]
    have s2 : step { operandPos σ with fnHead := some false } (lexTok false (.ident name))
        = operandEnd { operandPos σ with fnHead := some false } := histep _ _
    have s3 : step (operandEnd { operandPos σ with fnHead := some false }) (lexTok false (.p "("))
        = { operandPos (push (operandEnd { operandPos σ with fnHead := some false }) (.paren false (some false))) with
            fnHead := none } := by
      rw [step_punct]; simp [stepPunct, operandEnd, operandPos]
    have hX0 : InP σ { operandPos (push (operandEnd { operandPos σ with fnHead := some false })
        (.paren false (some false))) with fnHead := none } := ⟨rfl, h7⟩
    obtain ⟨gp, hXp⟩ := params_run σ ps _ hps hX0
    -- the closing parenthesis and the opening brace
    have s4 : ∀ X, InP σ X → step X (lexTok false (.p ")")) = { operandEnd (pop X) with fnBody := some false } := by
      intro X hX
      rw [step_punct]
      have : topFrame X = some (.paren false (some false)) := by simp [topFrame, hX.1]
      simp [stepPunct, this]
    have s5 : ∀ X, InP σ X → step { operandEnd (pop X) with fnBody := some false } (lexTok false (.p "{"))
        = inBlock σ := by
      intro X hX
      rw [step_punct]
      have hpc : (pop X).clsHead = none := by
        unfold pop
        split <;> exact hX.2
      have : stepPunct { operandEnd (pop X) with fnBody := some false } "{" false
          = stmtPos (push { operandEnd (pop X) with fnBody := some false } (.brace true false)) := by
        simp [stepPunct, operandEnd, hpc]
      rw [this, fn_state σ X hσ.1 h7 hX]
    have g1 : gcond σ (.kw "function") = true := gcond_sep σ _ (by simp)
    have g2 : ∀ σ0, gcond σ0 (.ident name) = true := fun σ0 => gcond_plain σ0 _ hi1 hi2
    have g3 : ∀ σ0, gcond σ0 (.p "(") = true := fun σ0 => gcond_sep σ0 _ (by simp)
    have g4 : ∀ σ0, gcond σ0 (.p ")") = true := fun σ0 => gcond_sep σ0 _ (by simp)
    have g5 : ∀ σ0, gcond σ0 (.p "{") = true := fun σ0 => gcond_sep σ0 _ (by simp)
    have hne : [Tok.kw "function", Tok.ident name, Tok.p "("] ++ paramToks ps ≠ [] := by simp
    rw [goalsOk_append σ nl _ _ hne, run_append σ nl _ _ hne]
    have hpre : goalsOk σ nl ([Tok.kw "function", Tok.ident name, Tok.p "("] ++ paramToks ps) = true ∧
        InP σ (run σ nl ([Tok.kw "function", Tok.ident name, Tok.p "("] ++ paramToks ps)) := by
      have a2 := g2 { operandPos σ with fnHead := some false }
      have a3 := g3 (operandEnd { operandPos σ with fnHead := some false })
      simp only [gcond] at g1 a2 a3
      simp only [List.cons_append, List.nil_append, goalsOk_cons, run_cons, s1, s2, s3, gp, g1, a2, a3, Bool.and_self]
      exact ⟨trivial, hXp⟩
    obtain ⟨hg, hX⟩ := hpre
    rw [hg]
    have a4 := g4 (run σ nl ([Tok.kw "function", Tok.ident name, Tok.p "("] ++ paramToks ps))
    have a5 := g5 { operandEnd (pop (run σ nl ([Tok.kw "function", Tok.ident name, Tok.p "("] ++ paramToks ps))) with
      fnBody := some false }
    simp only [gcond] at a4 a5
    simp only [goalsOk_cons, run_cons, s4 _ hX, s5 _ hX, a4, a5, goalsOk, run, Bool.and_self]
    exact ⟨trivial, trivial⟩


/-! ## the guarded statement printer produces safe token runs -/

theorem sp_nil_true : SP [] true where
  ok := by simp
  adj := rfl
  lastU := by simp
  hd := rfl
  single := by simp
  goal := by intro σ nl hσ; simp only [goalsOk, run, if_true]; exact ⟨trivial, SEnd_refl hσ⟩

/-- `{ ts }` around one statement -/
theorem sp_braces_stmt (ts : List Tok) (pend : Bool) (h : SP ts pend) : SP ([.p "{"] ++ ts ++ [.p "}"]) false :=
  sp_braces ts h.ok h.adj (fun σ hσ =>
    ⟨(h.goal (inBlock σ) false (SPos_inBlock hσ)).1, h.end_ (inBlock σ) false (SPos_inBlock hσ)⟩)

/-- the run up to and including `else` -/
theorem rp_body_else (H bt : List Tok) (pend1 : Bool) (hH : RP H) (hb : SP bt pend1) :
    RP (H ++ bt ++ (if pend1 then [Tok.p ";"] else []) ++ [Tok.kw "else"]) := by
  cases pend1 with
  | true =>
    have := rp_append _ _ (rp_append _ _ hH (rp_semi hb)) rp_else
    simpa [List.append_assoc] using this
  | false =>
    have := rp_append _ _ (rp_append _ _ hH (rp_of_sp hb)) rp_else
    simpa [List.append_assoc] using this

theorem main (o : Opts) : ∀ fuel : Nat,
    (∀ s r, printSG o fuel s = some r → SP r.1 r.2) ∧ (∀ l p r, printLG o fuel l p = some r → LP r p) := by
  intro fuel
  induction fuel with
  | zero =>
    refine ⟨fun s r h => by simp [printSG] at h, fun l p r h => ?_⟩
    cases l with
    | nil => simp [printLG] at h; subst h; exact lp_nil p
    | cons a t => simp [printLG] at h
  | succ n ih =>
    obtain ⟨ihS, ihL⟩ := ih
    refine ⟨?_, ?_⟩
    · intro s r h
      cases s with
      | expr e =>
        simp only [printSG] at h
        cases he : efG o e with
        | none => simp [he] at h
        | some ts =>
          simp only [he, Option.map, Option.some.injEq] at h
          subst h
          obtain ⟨hs, hh, h1⟩ := efG_seg o e ts he
          exact sp_expr ts hs hh h1
      | ret v =>
        cases v with
        | none => simp [printSG] at h; subst h; exact sp_ret0
        | some e =>
          simp only [printSG] at h
          cases he : efG o e with
          | none => simp [he] at h
          | some ts =>
            simp only [he, Option.map, Option.some.injEq] at h
            subst h
            exact sp_kw_expr "return" (Or.inl rfl) ts (efG_seg o e ts he).1
      | throw e =>
        simp only [printSG] at h
        cases he : efG o e with
        | none => simp [he] at h
        | some ts =>
          simp only [he, Option.map, Option.some.injEq] at h
          subst h
          exact sp_kw_expr "throw" (Or.inr rfl) ts (efG_seg o e ts he).1
      | block l =>
        simp only [printSG] at h
        cases hl : printLG o n l false with
        | none => simp [hl] at h
        | some ts =>
          simp only [hl, Option.map, Option.some.injEq] at h
          subst h
          have hL := ihL l false ts hl
          exact sp_braces ts hL.ok hL.adj (fun σ hσ => hL.goal (inBlock σ) (inBlock σ) false (SPos_inBlock hσ) (by simp))
      | empty => simp [printSG] at h; subst h; exact sp_empty
      | absent => simp [printSG] at h; subst h; exact sp_empty
      | fn name ps body =>
        simp only [printSG] at h
        split at h
        · simp at h
        · split at h
          · simp at h
          · rename_i hid
            simp only [Bool.not_eq_true', Bool.and_eq_false_iff, not_or, Bool.not_eq_false] at hid
            have hid' : identOk name = true ∧ identsOk (keptParams ps body) = true := by
              cases h1 : identOk name <;> cases h2 : identsOk (keptParams ps body) <;> simp_all
            cases hl : printLG o n (optStmtList (4 * sizeSL body + 16) body .function) false with
            | none => simp [hl] at h
            | some ts =>
              simp only [hl, Option.map, Option.some.injEq] at h
              subst h
              have hL := ihL _ false ts hl
              have hps : ∀ p ∈ keptParams ps body, identOk p = true := by
                have := hid'.2; simpa [identsOk] using this
              exact sp_block_gen _ ts (op_fn name (keptParams ps body) hid'.1 hps) hL.ok hL.adj
                (fun σ hσ => hL.goal (inBlock σ) (inBlock σ) false (SPos_inBlock hσ) (by simp))
      | ifS c t e =>
        simp only [printSG] at h
        cases hIt : isEmptyStmt t <;> cases hIe : isEmptyStmt e <;>
          simp only [hIt, hIe, Bool.not_true, Bool.not_false, Bool.and_true, Bool.and_false, Bool.true_and,
            Bool.false_and, Bool.false_eq_true, if_false, if_true] at h
        · -- body and else
          cases hc : efG o c with
          | none => simp [hc] at h
          | some ct =>
            simp only [hc] at h
            have hH := rp_if_head ct (efG_seg o c ct hc).1
            cases hbr : endsInIf (sizeS t + 1) t <;> simp only [hbr, Bool.false_eq_true, if_false, if_true] at h
            · cases hb : printSG o n t with
              | none => simp [hb] at h
              | some rb =>
                obtain ⟨bt, pend1⟩ := rb
                simp only [hb] at h
                cases hee : printSG o n e with
                | none => simp [hee] at h
                | some r2 =>
                  obtain ⟨et, pend2⟩ := r2
                  simp only [hee, Option.some.injEq] at h
                  subst h
                  exact sp_after _ et pend2 (rp_body_else _ bt pend1 hH (ihS t _ hb)) (ihS e _ hee)
            · cases hb : printSG o n t with
              | none => simp [hb] at h
              | some rb =>
                simp only [hb, Option.map] at h
                cases hee : printSG o n e with
                | none => simp [hee] at h
                | some r2 =>
                  obtain ⟨et, pend2⟩ := r2
                  simp only [hee, Option.some.injEq] at h
                  subst h
                  have hbody := sp_braces_stmt rb.1 rb.2 (ihS t _ hb)
                  have := sp_after _ et pend2 (rp_body_else _ _ false hH hbody) (ihS e _ hee)
                  simpa using this
        · -- body only
          cases hc : efG o c with
          | none => simp [hc] at h
          | some ct =>
            simp only [hc] at h
            have hH := rp_if_head ct (efG_seg o c ct hc).1
            cases hb : printSG o n t with
            | none => simp [hb] at h
            | some rb =>
              obtain ⟨bt, pend1⟩ := rb
              simp only [hb, Option.some.injEq] at h
              subst h
              exact sp_after _ bt pend1 hH (ihS t _ hb)
        · -- else only
          cases hc : efG o c with
          | none => simp [hc] at h
          | some ct =>
            simp only [hc] at h
            have hH := rp_if_head ct (efG_seg o c ct hc).1
            cases hee : printSG o n e with
            | none => simp [hee] at h
            | some r2 =>
              obtain ⟨et, pend2⟩ := r2
              simp only [hee, Option.some.injEq] at h
              subst h
              have := sp_after _ et pend2 (rp_body_else _ [] true hH sp_nil_true) (ihS e _ hee)
              simpa using this
        · simp at h; subst h; exact sp_empty
    · intro l p r h
      cases l with
      | nil => simp [printLG] at h; subst h; exact lp_nil p
      | cons s rest =>
        simp only [printLG] at h
        cases hs : printSG o n s with
        | none => simp [hs] at h
        | some r1 =>
          obtain ⟨ts, pend⟩ := r1
          simp only [hs] at h
          cases hr : printLG o n rest pend with
          | none => simp [hr] at h
          | some r2 =>
            simp only [hr, Option.some.injEq] at h
            subst h
            exact lp_cons ts r2 pend p (ihS s _ hs) (ihL rest pend r2 hr)


theorem jsTokensG_agrees (o : Opts) (prog : List S) (ts : List Tok) (h : jsTokensG o prog = some ts) :
    jsTokens o prog = some ts := by
  unfold jsTokensG at h
  unfold jsTokens
  simp only [] at h ⊢
  split at h
  · simp at h
  · rename_i hk
    simp only [hk]
    exact (agrees o _).2 _ _ _ h

theorem jsTokensG_safe (o : Opts) (prog : List S) (ts : List Tok) (h : jsTokensG o prog = some ts) :
    (∀ t ∈ ts, tokOk t = true) ∧ adjChain ts = true ∧ headOk ts = true ∧ goalsOk {} true ts = true := by
  unfold jsTokensG at h
  simp only [] at h
  split at h
  · simp at h
  · have hL := (main o _).2 _ _ _ h
    exact ⟨hL.ok, hL.adj, hL.hd, (hL.goal {} {} true SPos_init (by simp)).1⟩

end Verif.Proofs.C09JsStmt

import Verif.Spec.C09JsLex
/-!
# C09 (JS) — scanning lemmas for the independent lexer `Spec.C09JsLex`

"Extension" lemmas: a token text followed by a remainder that cannot continue the token is read back as exactly that
token (`scan1 … (w ++ rest) = some (k, w, rest)`), white space in front of a token is skipped, and one round of the
lexer loop consumes one rendered token.
-/
namespace Verif.Proofs.C09JsScan
open Verif.Spec.C09JsLex

/-! ## lists -/

theorem takeWhile_append_stop {α : Type} (p : α → Bool) (w rest : List α) (hw : ∀ c ∈ w, p c = true)
    (hr : ∀ c, rest.head? = some c → p c = false) : (w ++ rest).takeWhile p = w := by
  induction w with
  | nil =>
    cases rest with
    | nil => rfl
    | cons c r => simp [hr c rfl]
  | cons a t ih =>
    have ha : p a = true := hw a (by simp)
    simp only [List.cons_append, List.takeWhile_cons, ha, if_true]
    rw [ih (fun c hc => hw c (by simp [hc]))]

theorem dropWhile_append_stop {α : Type} (p : α → Bool) (w rest : List α) (hw : ∀ c ∈ w, p c = true)
    (hr : ∀ c, rest.head? = some c → p c = false) : (w ++ rest).dropWhile p = rest := by
  induction w with
  | nil =>
    cases rest with
    | nil => rfl
    | cons c r => simp [hr c rfl]
  | cons a t ih =>
    have ha : p a = true := hw a (by simp)
    simp only [List.cons_append, List.dropWhile_cons, ha, if_true]
    exact ih (fun c hc => hw c (by simp [hc]))

/-! ## white space -/

def allSpaces (l : List Char) : Bool := l.all (· == ' ')

theorem startsLS_head (c : Char) (r : List Char) (h : (c.toNat == 0xE2) = false) : startsLS (c :: r) = false := by
  match r with
  | [] => rfl
  | [_] => rfl
  | _ :: _ :: _ => simp [startsLS, h]

theorem isTriviaStart_space (nl : Bool) (r : List Char) : isTriviaStart nl (' ' :: r) = true := by
  simp [isTriviaStart]

theorem skipTrivia_spaces (pre : List Char) (hp : allSpaces pre = true) (nl : Bool) (cs : List Char)
    (hs : isTriviaStart nl cs = false) (fuel : Nat) (hf : pre.length < fuel) :
    skipTrivia fuel nl (pre ++ cs) = some (nl, cs) := by
  induction pre generalizing fuel with
  | nil =>
    cases fuel with
    | zero => simp at hf
    | succ n => simp [skipTrivia, hs]
  | cons a t ih =>
    cases fuel with
    | zero => simp at hf
    | succ n =>
      have ha : a = ' ' := by simp [allSpaces] at hp; exact hp.1
      have ht : allSpaces t = true := by simp [allSpaces] at hp ⊢; exact hp.2
      subst ha
      have hlt : t.length < n := by simp at hf; omega
      have := ih ht n hlt
      simp only [List.cons_append, skipTrivia, isTriviaStart_space, Bool.not_true]
      have hls : startsLS (' ' :: (t ++ cs)) = false := startsLS_head _ _ (by decide)
      simpa [isLT, hls] using this

/-! ## one round of the lexer loop -/

theorem lexLoop_token (fuel : Nat) (σ : St) (nl : Bool) (pre w rest : List Char) (k : Kind) (acc : List Token)
    (hp : allSpaces pre = true) (hne : w ≠ []) (hf : pre.length ≤ fuel)
    (hs : isTriviaStart nl (w ++ rest) = false)
    (hscan : scan1 (regexAllowed σ) (tmplClose σ) (w ++ rest) = some (k, w, rest)) :
    lexLoop (fuel + 1) σ nl (pre ++ (w ++ rest)) acc
      = lexLoop fuel (step σ ⟨k, w, nl⟩) false rest (⟨k, w, nl⟩ :: acc) := by
  have h1 : skipTrivia (fuel + 1) nl (pre ++ (w ++ rest)) = some (nl, w ++ rest) :=
    skipTrivia_spaces pre hp nl (w ++ rest) hs _ (by omega)
  cases w with
  | nil => exact absurd rfl hne
  | cons c w' =>
    simp only [List.cons_append] at h1 hscan ⊢
    simp only [lexLoop]
    rw [h1]
    simp only [hscan]

theorem lexLoop_end (fuel : Nat) (σ : St) (nl : Bool) (acc : List Token) :
    lexLoop (fuel + 1) σ nl [] acc = some acc.reverse := by
  simp [lexLoop, skipTrivia, isTriviaStart]

/-! ## names -/

theorem escOk_of_no_backslash (w : List Char) (h : ∀ c ∈ w, c ≠ '\\') : escOk w = true := by
  induction w with
  | nil => rfl
  | cons a t ih =>
    cases t with
    | nil => simp [escOk, h a (by simp)]
    | cons b r =>
      have := ih (fun c hc => h c (by simp [hc]))
      simp [escOk, h a (by simp), this]

/-- a plain identifier name: identifier bytes without escapes, not starting with a digit -/
def nameOk (w : List Char) : Bool :=
  match w with
  | [] => false
  | c :: _ => isIdStart c && w.all (fun d => isIdPart d && d != '\\')

theorem scan1_name (g tc : Bool) (w rest : List Char) (hw : nameOk w = true)
    (hr : ∀ c, rest.head? = some c → isIdPart c = false) :
    scan1 g tc (w ++ rest) = some (.name, w, rest) := by
  cases w with
  | nil => simp [nameOk] at hw
  | cons c w' =>
    simp only [nameOk, Bool.and_eq_true, List.all_eq_true] at hw
    have hall : ∀ d ∈ c :: w', isIdPart d = true := fun d hd => by
      have := hw.2 d hd; simp at this; exact this.1
    have hnb : ∀ d ∈ c :: w', d ≠ '\\' := fun d hd => by
      have := hw.2 d hd; simp at this; exact this.2
    have h1 := takeWhile_append_stop isIdPart (c :: w') rest hall hr
    have h2 := dropWhile_append_stop isIdPart (c :: w') rest hall hr
    simp only [List.cons_append] at h1 h2 ⊢
    simp only [scan1, hw.1, if_true, scanName, h1, h2, escOk_of_no_backslash _ hnb, Option.map]


/-! ## characters as numbers -/

theorem char_eq_iff (c d : Char) : c = d ↔ c.toNat = d.toNat := by
  constructor
  · intro h; rw [h]
  · intro h; exact Char.ext (UInt32.toNat_inj.mp h)
theorem le_val (n : UInt32) (c : Char) : n ≤ c.val ↔ n.toNat ≤ c.toNat := UInt32.le_iff_toNat_le
theorem val_le (c : Char) (n : UInt32) : c.val ≤ n ↔ c.toNat ≤ n.toNat := UInt32.le_iff_toNat_le
theorem isDigit_iff (c : Char) : c.isDigit = true ↔ 48 ≤ c.toNat ∧ c.toNat ≤ 57 := by
  simp [Char.isDigit, le_val, val_le]
theorem isAlpha_iff (c : Char) : c.isAlpha = true ↔ (65 ≤ c.toNat ∧ c.toNat ≤ 90) ∨ (97 ≤ c.toNat ∧ c.toNat ≤ 122) := by
  simp [Char.isAlpha, Char.isUpper, Char.isLower, le_val, val_le]
theorem isIdStart_iff (c : Char) : isIdStart c = true ↔
    (65 ≤ c.toNat ∧ c.toNat ≤ 90) ∨ (97 ≤ c.toNat ∧ c.toNat ≤ 122) ∨ c.toNat = 95 ∨ c.toNat = 36 ∨ c.toNat = 92
      ∨ 128 ≤ c.toNat := by
  simp [isIdStart, isAlpha_iff, char_eq_iff]
  omega
theorem isIdPart_iff (c : Char) : isIdPart c = true ↔
    (48 ≤ c.toNat ∧ c.toNat ≤ 57) ∨ (65 ≤ c.toNat ∧ c.toNat ≤ 90) ∨ (97 ≤ c.toNat ∧ c.toNat ≤ 122) ∨ c.toNat = 95
      ∨ c.toNat = 36 ∨ c.toNat = 92 ∨ 128 ≤ c.toNat := by
  simp [isIdPart, Char.isAlphanum, isAlpha_iff, isDigit_iff, char_eq_iff]
  omega
theorem isIdStart_false_iff (c : Char) : isIdStart c = false ↔ ¬ ((65 ≤ c.toNat ∧ c.toNat ≤ 90) ∨
    (97 ≤ c.toNat ∧ c.toNat ≤ 122) ∨ c.toNat = 95 ∨ c.toNat = 36 ∨ c.toNat = 92 ∨ 128 ≤ c.toNat) := by
  rw [Bool.eq_false_iff, ne_eq, isIdStart_iff]
theorem isIdPart_false_iff (c : Char) : isIdPart c = false ↔ ¬ ((48 ≤ c.toNat ∧ c.toNat ≤ 57) ∨
    (65 ≤ c.toNat ∧ c.toNat ≤ 90) ∨ (97 ≤ c.toNat ∧ c.toNat ≤ 122) ∨ c.toNat = 95
      ∨ c.toNat = 36 ∨ c.toNat = 92 ∨ 128 ≤ c.toNat) := by
  rw [Bool.eq_false_iff, ne_eq, isIdPart_iff]
theorem isDigit_false_iff (c : Char) : c.isDigit = false ↔ ¬ (48 ≤ c.toNat ∧ c.toNat ≤ 57) := by
  rw [Bool.eq_false_iff, ne_eq, isDigit_iff]

theorem isIdStart_digit (c : Char) (h : c.isDigit = true) : isIdStart c = false := by
  rw [isDigit_iff] at h
  rw [isIdStart_false_iff]
  omega

theorem isIdPart_of_start (c : Char) (h : isIdStart c = true) : isIdPart c = true := by
  rw [isIdStart_iff] at h; rw [isIdPart_iff]; omega

theorem isIdPart_digit (c : Char) (h : c.isDigit = true) : isIdPart c = true := by
  rw [isDigit_iff] at h; rw [isIdPart_iff]; omega

/-! ## decimal numbers -/

/-- nothing that continues or invalidates a numeric literal follows: no digit, no identifier start -/
def numStop (rest : List Char) : Bool := numEndOk rest

theorem numStop_head (rest : List Char) (h : numStop rest = true) (c : Char) (hc : rest.head? = some c) :
    isIdStart c = false ∧ c.isDigit = false := by
  cases rest with
  | nil => simp at hc
  | cons d r =>
    simp only [List.head?_cons, Option.some.injEq] at hc
    subst hc
    simpa [numStop, numEndOk] using h

theorem sepOk_digits (ds : List Char) (h : ∀ c ∈ ds, c.isDigit = true) (hne : ds ≠ []) :
    sepOk Char.isDigit ds = true := by
  induction ds with
  | nil => exact absurd rfl hne
  | cons a t ih =>
    cases t with
    | nil => simp [sepOk, h a (by simp)]
    | cons b r =>
      have hb : b.isDigit = true := h b (by simp)
      have := ih (fun c hc => h c (by simp [hc])) (by simp)
      simp [sepOk, h a (by simp), hb, this]

theorem digitsOk_digits (ds : List Char) (h : ∀ c ∈ ds, c.isDigit = true) (hne : ds ≠ []) :
    digitsOk Char.isDigit ds = true := by
  cases ds with
  | nil => exact absurd rfl hne
  | cons a t => simp [digitsOk, sepOk_digits (a :: t) h hne, h a (by simp)]

theorem isDigitSep_of_digit (c : Char) (h : c.isDigit = true) : isDigitSep c = true := by simp [isDigitSep, h]

theorem isDigitSep_false (c : Char) (h1 : isIdStart c = false) (h2 : c.isDigit = false) : isDigitSep c = false := by
  rw [isIdStart_false_iff] at h1
  simp only [isDigitSep, h2, Bool.false_or, beq_eq_false_iff_ne, ne_eq, char_eq_iff]
  simp; omega

theorem scanExp_none (rest : List Char) (h : numStop rest = true) : scanExp rest = some ([], rest) := by
  cases rest with
  | nil => rfl
  | cons e r =>
    have ⟨h1, _⟩ := numStop_head _ h e rfl
    rw [isIdStart_false_iff] at h1
    have he : (e == 'e' || e == 'E') = false := by
      simp only [Bool.or_eq_false_iff, beq_eq_false_iff_ne, ne_eq, char_eq_iff]; simp; omega
    simp [scanExp, he]

theorem head_not (rest : List Char) (h : numStop rest = true) (x : Char) (hx : isIdStart x = true ∨ x.isDigit = true) :
    ∀ c, rest.head? = some c → c ≠ x := by
  intro c hc e
  have := numStop_head rest h c hc
  subst e
  rcases hx with hx | hx
  · rw [this.1] at hx; exact absurd hx (by simp)
  · rw [this.2] at hx; exact absurd hx (by simp)

/-- `scanDecimal` on plain decimal digits -/
theorem scanDecimal_int (ds rest : List Char) (hd : ∀ c ∈ ds, c.isDigit = true) (hne : ds ≠ [])
    (hs : numStop rest = true) (hdot : ∀ c, rest.head? = some c → c ≠ '.') :
    scanDecimal (ds ++ rest) = some (ds, rest) := by
  have hstop : ∀ c, rest.head? = some c → isDigitSep c = false := fun c hc =>
    isDigitSep_false c (numStop_head rest hs c hc).1 (numStop_head rest hs c hc).2
  have h1 := takeWhile_append_stop isDigitSep ds rest (fun c hc => isDigitSep_of_digit c (hd c hc)) hstop
  have h2 := dropWhile_append_stop isDigitSep ds rest (fun c hc => isDigitSep_of_digit c (hd c hc)) hstop
  have hn : ∀ c, rest.head? = some c → c ≠ 'n' := head_not rest hs 'n' (Or.inl (by decide))
  unfold scanDecimal
  simp only [h1, h2, digitsOk_digits ds hd hne]
  have hemp : ds.isEmpty = false := by cases ds <;> simp_all
  cases rest with
  | nil => simp [hemp, scanExp, numEndOk]
  | cons c r =>
    have hc1 : c ≠ 'n' := hn c rfl
    have hc2 : c ≠ '.' := hdot c rfl
    have hE := scanExp_none (c :: r) hs
    have hEnd : numEndOk (c :: r) = true := hs
    split
    · rename_i heq; simp at heq
    · split
      · rename_i heq; simp at heq; exact absurd heq.1 hc1
      · rename_i hnn
        split
        · rename_i r' heq; simp at heq; exact absurd heq.1 hc2
        · simp [hemp, hE, hEnd]

/-- `scanDecimal` on decimal digits followed by a `.` that is part of the literal (`5.` in `5..a`) -/
theorem scanDecimal_int_dot (ds rest : List Char) (hd : ∀ c ∈ ds, c.isDigit = true) (hne : ds ≠ [])
    (hs : numStop rest = true) :
    scanDecimal (ds ++ '.' :: rest) = some (ds ++ ['.'], rest) := by
  have hstop0 : ∀ c, ('.' :: rest).head? = some c → isDigitSep c = false := by
    intro c hc; simp at hc; subst hc; decide
  have h1 := takeWhile_append_stop isDigitSep ds ('.' :: rest) (fun c hc => isDigitSep_of_digit c (hd c hc)) hstop0
  have h2 := dropWhile_append_stop isDigitSep ds ('.' :: rest) (fun c hc => isDigitSep_of_digit c (hd c hc)) hstop0
  have hstop : ∀ c, rest.head? = some c → isDigitSep c = false := fun c hc =>
    isDigitSep_false c (numStop_head rest hs c hc).1 (numStop_head rest hs c hc).2
  have h3 := takeWhile_append_stop isDigitSep [] rest (by simp) hstop
  have h4 := dropWhile_append_stop isDigitSep [] rest (by simp) hstop
  simp only [List.nil_append] at h3 h4
  have hemp : ds.isEmpty = false := by cases ds <;> simp_all
  have hE := scanExp_none rest hs
  have hEnd : numEndOk rest = true := hs
  unfold scanDecimal
  simp only [h1, h2, digitsOk_digits ds hd hne]
  simp [hemp, h3, h4, hE, hEnd]

/-- `scanDecimal` on `digits e digits` -/
theorem scanDecimal_exp (m z rest : List Char) (hm : ∀ c ∈ m, c.isDigit = true) (hmne : m ≠ [])
    (hz : ∀ c ∈ z, c.isDigit = true) (hzne : z ≠ []) (hs : numStop rest = true) :
    scanDecimal (m ++ 'e' :: (z ++ rest)) = some (m ++ 'e' :: z, rest) := by
  have hstop0 : ∀ c, ('e' :: (z ++ rest)).head? = some c → isDigitSep c = false := by
    intro c hc; simp at hc; subst hc; decide
  have h1 := takeWhile_append_stop isDigitSep m ('e' :: (z ++ rest)) (fun c hc => isDigitSep_of_digit c (hm c hc)) hstop0
  have h2 := dropWhile_append_stop isDigitSep m ('e' :: (z ++ rest)) (fun c hc => isDigitSep_of_digit c (hm c hc)) hstop0
  have hstop : ∀ c, rest.head? = some c → isDigitSep c = false := fun c hc =>
    isDigitSep_false c (numStop_head rest hs c hc).1 (numStop_head rest hs c hc).2
  have h3 := takeWhile_append_stop isDigitSep z rest (fun c hc => isDigitSep_of_digit c (hz c hc)) hstop
  have h4 := dropWhile_append_stop isDigitSep z rest (fun c hc => isDigitSep_of_digit c (hz c hc)) hstop
  have hemp : m.isEmpty = false := by cases m <;> simp_all
  have hEnd : numEndOk rest = true := hs
  cases z with
  | nil => exact absurd rfl hzne
  | cons s z' =>
    have hsd : s.isDigit = true := hz s (by simp)
    have hs1 : (s == '+' || s == '-') = false := by
      rw [isDigit_iff] at hsd
      simp only [Bool.or_eq_false_iff, beq_eq_false_iff_ne, ne_eq, char_eq_iff]; simp; omega
    have hexp : scanExp ('e' :: s :: (z' ++ rest)) = some ('e' :: s :: z', rest) := by
      simp only [List.cons_append] at h3 h4 ⊢
      simp [scanExp, hs1, h3, h4, digitsOk_digits (s :: z') hz hzne]
    unfold scanDecimal
    simp only [h1, h2, digitsOk_digits m hm hmne]
    simp only [List.cons_append] at hexp ⊢
    simp [hemp, hexp, hEnd]


/-- decimal digits without a superfluous leading zero -/
def noLeadZero (ds : List Char) : Prop := ds.head? = some '0' → ds = ['0']

theorem scanNumber_decimal (ds tail : List Char) (hd : ∀ c ∈ ds, c.isDigit = true) (hne : ds ≠ [])
    (hz : noLeadZero ds)
    (ht : ∀ c, tail.head? = some c → c.isDigit = false ∧ c ≠ 'x' ∧ c ≠ 'X' ∧ c ≠ 'o' ∧ c ≠ 'O' ∧ c ≠ 'b' ∧ c ≠ 'B') :
    scanNumber (ds ++ tail) = scanDecimal (ds ++ tail) := by
  cases ds with
  | nil => exact absurd rfl hne
  | cons c t =>
    by_cases hc : c = '0'
    · subst hc
      have ht0 : t = [] := by have := hz rfl; simpa using this
      subst ht0
      cases tail with
      | nil => rfl
      | cons x r =>
        have := ht x rfl
        simp [scanNumber, this.1, this.2.1, this.2.2.1, this.2.2.2.1, this.2.2.2.2.1, this.2.2.2.2.2.1, this.2.2.2.2.2.2]
    · cases h : t ++ tail with
      | nil => simp only [List.cons_append, h]; rfl
      | cons x r =>
        simp only [List.cons_append, h, scanNumber]
        simp [hc]

theorem scan1_number (g tc : Bool) (w rest : List Char) (c : Char) (w' : List Char) (hw : w = c :: w')
    (hc : c.isDigit = true) (h : scanNumber (w ++ rest) = some (w, rest)) :
    scan1 g tc (w ++ rest) = some (.num, w, rest) := by
  subst hw
  simp only [List.cons_append] at h ⊢
  simp [scan1, isIdStart_digit c hc, hc, h]

/-! ## string literals -/

/-- a character that stands for itself in a string literal delimited by `q` -/
def plainStrChar (q c : Char) : Bool := c != q && !isLT c && c != '\\'

theorem scanStr_plain (q : Char) (body rest acc : List Char) (hb : ∀ c ∈ body, plainStrChar q c = true) :
    scanStr q (body ++ q :: rest) acc = some (acc.reverse ++ body ++ [q], rest) := by
  induction body generalizing acc with
  | nil => rw [scanStr.eq_def]; simp
  | cons a t ih =>
    have ha := hb a (by simp)
    simp only [plainStrChar, Bool.and_eq_true, bne_iff_ne, ne_eq, Bool.not_eq_true'] at ha
    have h1 : (a == q) = false := by simp [ha.1.1]
    have h2 : (a == '\\') = false := by simp [ha.2]
    have step : scanStr q (a :: (t ++ q :: rest)) acc = scanStr q (t ++ q :: rest) (a :: acc) := by
      rw [scanStr.eq_def]; simp [h1, ha.1.2, h2]
    simp only [List.cons_append, step]
    rw [ih (a :: acc) (fun c hc => hb c (by simp [hc]))]
    simp

theorem scan1_dstring (g tc : Bool) (body rest : List Char) (hb : ∀ c ∈ body, plainStrChar '"' c = true) :
    scan1 g tc ('"' :: body ++ '"' :: rest) = some (.str, '"' :: body ++ ['"'], rest) := by
  have h := scanStr_plain '"' body rest ['"'] hb
  simp only [List.cons_append]
  simp [scan1, isIdStart, h]

/-! ## punctuators -/

/-- the characters that, directly after punctuator `p`, would make the lexer read a longer punctuator -/
def ext (p : List Char) : List Char :=
  puncts.filterMap (fun q => if p.isPrefixOf q && decide (p.length < q.length) then q[p.length]? else none)

/-- the punctuators of the C01 fragment: operator spellings and brackets / separators -/
def fragPuncts : List (List Char) :=
  ["=", "*=", "/=", "%=", "**=", "+=", "-=", "<<=", ">>=", ">>>=", "&=", "^=", "|=", "&&=", "||=", "??=",
   "**", "*", "/", "%", "+", "-", "<<", ">>", ">>>", "<", "<=", ">", ">=", "==", "!=", "===", "!==",
   "&", "^", "|", "&&", "||", "??", "!", "~", "++", "--",
   "(", ")", "[", "]", ",", ".", "?.", "?", ":", ";", "{", "}"].map String.toList

theorem mem_ext (p : List Char) (c : Char) (u : List Char) (h : p ++ c :: u ∈ puncts) : c ∈ ext p := by
  simp only [ext, List.mem_filterMap]
  refine ⟨p ++ c :: u, h, ?_⟩
  have h1 : p.isPrefixOf (p ++ c :: u) = true := by
    simp [List.isPrefixOf_iff_prefix]
  have h2 : p.length < (p ++ c :: u).length := by simp
  simp [h1, h2]

theorem scanPunct_ext (p : List Char) (hp : p ∈ puncts) (rest : List Char)
    (hq : p = ['?', '.'] → ∀ c, rest.head? = some c → c.isDigit = false)
    (h : ∀ c, rest.head? = some c → c ∉ ext p) : scanPunct (p ++ rest) = some (p, rest) := by
  have hlen : p.length ≤ 4 ∧ 1 ≤ p.length := by
    have : ∀ q ∈ puncts, q.length ≤ 4 ∧ 1 ≤ q.length := by decide
    exact this p hp
  cases rest with
  | nil =>
    match p, hp, hq, hlen with
    | [a], hp, _, _ => simp [scanPunct, hp]
    | [a, b], hp, _, _ => simp [scanPunct, hp]
    | [a, b, c], hp, _, _ => simp [scanPunct, hp]
    | [a, b, c, d], hp, _, _ => simp [scanPunct, hp]
    | [], _, _, hl => simp at hl
    | _ :: _ :: _ :: _ :: _ :: _, _, _, hl => simp at hl
  | cons x r =>
    have hx := h x rfl
    have hno : ∀ u, p ++ x :: u ∉ puncts := fun u hu => hx (mem_ext p x u hu)
    match p, hp, hq, hlen, hno with
    | [a], hp, _, _, hno =>
      have h2 := hno []
      have h3 : ∀ y, [a, x, y] ∉ puncts := fun y => hno [y]
      have h4 : ∀ y z, [a, x, y, z] ∉ puncts := fun y z => hno [y, z]
      simp only [List.cons_append, List.nil_append] at h2 h3 h4 ⊢
      cases r with
      | nil => simp [scanPunct, hp, h2]
      | cons y r2 =>
        cases r2 with
        | nil => simp [scanPunct, hp, h2, h3]
        | cons z r3 => simp [scanPunct, hp, h2, h3, h4]
    | [a, b], hp, hq, _, hno =>
      have hq' : a = '?' → b = '.' → x.isDigit = false := by
        intro e1 e2; exact hq (by rw [e1, e2]) x rfl
      have h3 := hno []
      have h4 : ∀ y, [a, b, x, y] ∉ puncts := fun y => hno [y]
      simp only [List.cons_append, List.nil_append] at h3 h4 ⊢
      cases r with
      | nil => simp [scanPunct, hp, h3]; exact hq'
      | cons y r2 => simp [scanPunct, hp, h3, h4]; exact hq'
    | [a, b, c], hp, _, _, hno =>
      have h4 := hno []
      simp only [List.cons_append, List.nil_append] at h4 ⊢
      simp [scanPunct, hp, h4]
    | [a, b, c, d], hp, _, _, _ => simp [scanPunct, hp]
    | [], _, _, hl, _ => simp at hl
    | _ :: _ :: _ :: _ :: _ :: _, _, _, hl, _ => simp at hl

theorem fragPuncts_sub (p : List Char) (hp : p ∈ fragPuncts) : p ∈ puncts := by
  have : ∀ q ∈ fragPuncts, q ∈ puncts := by decide
  exact this p hp

end Verif.Proofs.C09JsScan

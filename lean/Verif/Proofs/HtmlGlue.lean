import Verif.Proofs.HtmlEntTable
import Verif.Model.Html
/-!
# C03 — the `hasReferenceGlue` guard of html.go covers the specification's `glue` predicate
-/
namespace Verif.Proofs.HtmlGlue
open Verif.Spec.HtmlAttr Verif.Spec.HtmlKnown Verif.Proofs.HtmlAttr Verif.Proofs.HtmlRefs Verif.Proofs.HtmlEntTable
open Verif.Model.Html (hasGlueFrom hasReferenceGlue isRefChar)

/-- the only `;`-terminated names of the HTML5 table that denote a single reference character are
    `num;` (`#`), `semi;` (`;`) and `equals;` (`=`) -/
def refChNames : List (List Nat) := ["num;".toList.map Char.toNat, "semi;".toList.map Char.toNat, "equals;".toList.map Char.toNat]

def refChTableCheck : Bool :=
  Verif.Gen.C03Html5Entities.entities.all (fun e =>
    match e.2 with
    | [x] => !(x < 128 && x != 13 && isRefCh (Char.ofNat x)) || e.1.getLast? != some 59 || refChNames.contains e.1
    | _ => true)

set_option maxRecDepth 1000000 in
theorem refChTable_ok : refChTableCheck = true := by decide +kernel

/-- the test of `hasReferenceGlue` at an `&`: what follows starts with `#`, `num;`, `semi;` or `equals;` -/
def T (r : List Char) : Bool :=
  match r with
  | [] => false
  | d :: _ => d = '#' || "num;".toList.isPrefixOf r || "semi;".toList.isPrefixOf r || "equals;".toList.isPrefixOf r

theorem isRefChar_eq (c : Char) : isRefChar c = isRefCh c := rfl

theorem mkCp_lit {x : Nat} {ch : Char} (h : mkCp x = .lit ch) : x < 128 ∧ x ≠ 13 ∧ ch = Char.ofNat x := by
  unfold mkCp at h
  split at h
  · next hh => simp at h; exact ⟨hh.1, hh.2, h.symm⟩
  · simp at h

theorem getElem_takeWhile {α} (p : α → Bool) : ∀ (l : List α) (i : Nat) (x : α),
    i < (l.takeWhile p).length → (l.drop i).head? = some x → p x = true := by
  intro l
  induction l with
  | nil => intro i x hi; simp at hi
  | cons c l ih =>
    intro i x hi hx
    simp only [List.takeWhile] at hi
    cases hc : p c with
    | false => simp [hc] at hi
    | true =>
      simp only [hc, List.length_cons] at hi
      cases i with
      | zero => simp at hx; subst hx; exact hc
      | succ i => exact ih i x (by omega) (by simpa using hx)

theorem prefix_of_eq (n t : List Char) (name : String) (h : n ++ [';'] = name.toList) :
    name.toList.isPrefixOf (n ++ ';' :: t) = true := by
  have : n ++ ';' :: t = name.toList ++ t := by rw [← h]; simp
  rw [this]
  exact List.isPrefixOf_iff_prefix.mpr (List.prefix_append _ _)

/-- a `;`-terminated reference to a reference character starts the way `hasReferenceGlue` tests -/
theorem refToRefCh_T (r : List Char) (h : refToRefCh r = true) : T r = true := by
  unfold refToRefCh at h
  split at h
  · next ch k hm =>
    simp only [Bool.and_eq_true, decide_eq_true_eq] at h
    obtain ⟨hch, hsemi⟩ := h
    unfold matchRef at hm
    split at hm
    · next hh =>
      cases r with
      | nil => simp at hh
      | cons d r' => simp at hh; subst hh; simp [T]
    · next hh =>
      unfold matchNamed at hm
      simp only at hm
      split at hm
      · next res hres =>
        -- the `name;` branch
        simp only [Option.some.injEq] at hm
        subst hm
        split at hres
        · next hs =>
          cases hl : lookupName (r.takeWhile isAlnum ++ [';']) with
          | none => simp [hl] at hres
          | some cps =>
            simp only [hl, Option.map_some, Option.some.injEq, Prod.mk.injEq] at hres
            obtain ⟨hcps, _⟩ := hres
            -- r = run ++ ';' :: t
            have hsplit := split_takeWhile isAlnum r
            have : ∃ t, r.drop (r.takeWhile isAlnum).length = ';' :: t := by
              cases hd : r.drop (r.takeWhile isAlnum).length with
              | nil => simp [hd, semiLen] at hs
              | cons d t =>
                simp only [hd, semiLen] at hs
                split at hs
                · next e => exact ⟨t, by rw [e]⟩
                · simp at hs
            obtain ⟨t, ht⟩ := this
            rw [ht] at hsplit
            -- the table row
            unfold lookupName at hl
            have hmem := lookup_mem _ _ _ hl
            have hrow := List.all_eq_true.mp refChTable_ok _ hmem
            simp only at hrow
            cases cps with
            | nil => simp at hcps
            | cons x xs =>
              cases xs with
              | cons y ys => simp at hcps
              | nil =>
                simp only [List.map_cons, List.map_nil, List.cons.injEq, and_true] at hcps
                obtain ⟨hx1, hx2, hx3⟩ := mkCp_lit hcps
                subst hx3
                have hlast : ((r.takeWhile isAlnum ++ [';']).map Char.toNat).getLast? = some 59 := by
                  simp
                have hA : (decide (x < 128) && x != 13 && isRefCh (Char.ofNat x)) = true := by
                  simp [hx1, hx2, hch]
                have hB : (((r.takeWhile isAlnum ++ [';']).map Char.toNat).getLast? != some 59) = false := by
                  rw [hlast]; simp
                simp only [] at hrow
                rw [hA, hB] at hrow
                simp only [Bool.not_true, Bool.false_or] at hrow
                -- the key is one of the three names
                have hname : r.takeWhile isAlnum ++ [';'] = "num;".toList ∨ r.takeWhile isAlnum ++ [';'] = "semi;".toList ∨
                    r.takeWhile isAlnum ++ [';'] = "equals;".toList := by
                  have back : ∀ (n : List Char) (K : List Char), n.map Char.toNat = K.map Char.toNat → n = K := by
                    intro n K e
                    have := congrArg (List.map Char.ofNat) e
                    simpa [List.map_map, Function.comp_def, Char.ofNat_toNat] using this
                  simp only [refChNames, List.contains_cons, List.contains_nil, Bool.or_false, Bool.or_eq_true,
                    beq_iff_eq] at hrow
                  rcases hrow with e | e | e
                  · exact Or.inl (back _ _ e)
                  · exact Or.inr (Or.inl (back _ _ e))
                  · exact Or.inr (Or.inr (back _ _ e))
                rw [hsplit]
                cases hr : r.takeWhile isAlnum ++ ';' :: t with
                | nil => simp at hr
                | cons d rest =>
                  rw [← hr]
                  have hT : T (r.takeWhile isAlnum ++ ';' :: t) =
                      (d = '#' || "num;".toList.isPrefixOf (r.takeWhile isAlnum ++ ';' :: t) ||
                       "semi;".toList.isPrefixOf (r.takeWhile isAlnum ++ ';' :: t) ||
                       "equals;".toList.isPrefixOf (r.takeWhile isAlnum ++ ';' :: t)) := by
                    rw [hr]; rfl
                  rw [hT]
                  rcases hname with e | e | e
                  · rw [prefix_of_eq _ t "num;" e]; simp
                  · rw [prefix_of_eq _ t "semi;" e]; simp
                  · rw [prefix_of_eq _ t "equals;" e]; simp
        · simp at hres
      · -- the legacy branch: the match ends inside the alphanumeric run, not with `;`
        split at hm
        · simp at hm
        · next k' cps hk =>
          split at hm
          · simp at hm
          · simp only [Option.some.injEq, Prod.mk.injEq] at hm
            obtain ⟨_, hk2⟩ := hm
            subst hk2
            have hle := longestFrom_le _ _ _ _ hk
            have hpos : 1 ≤ k' := by
              cases hmin : min (r.takeWhile isAlnum).length 32 with
              | zero => rw [hmin] at hk; simp [longestFrom] at hk
              | succ m =>
                rw [hmin] at hk
                clear hmin hle
                induction m with
                | zero =>
                  simp only [longestFrom] at hk
                  split at hk
                  · simp at hk; omega
                  · simp at hk
                | succ m ih =>
                  simp only [longestFrom] at hk
                  split at hk
                  · simp at hk; omega
                  · exact ih hk
            have hlt : k' - 1 < (r.takeWhile isAlnum).length := by
              have := Nat.min_le_left (r.takeWhile isAlnum).length 32
              omega
            have := getElem_takeWhile isAlnum r (k' - 1) ';' hlt hsemi
            exact absurd this (by decide)
  · simp at h

/-- html.go's guard is at least as wide as the specification's `glue` predicate -/
theorem glue_of_model : ∀ (sx : List Char) (o : Bool), hasGlueFrom o sx = false → glueFrom o sx = false := by
  intro sx
  induction sx with
  | nil => intro o _; rfl
  | cons c r ih =>
    intro o h
    simp only [hasGlueFrom] at h
    simp only [glueFrom]
    by_cases hc : c = '&'
    · simp only [hc, if_true, Bool.or_eq_false_iff] at h ⊢
      refine ⟨?_, ih true h.2⟩
      cases o with
      | false => rfl
      | true =>
        simp only [Bool.true_and] at h ⊢
        cases hr : refToRefCh r with
        | false => rfl
        | true =>
          have hT := refToRefCh_T r hr
          have h1 := h.1
          unfold T at hT
          cases r with
          | nil => simp at hT
          | cons d r' =>
            simp only at hT h1
            rw [show (Verif.Model.Html.s "num;") = "num;".toList from rfl,
              show (Verif.Model.Html.s "semi;") = "semi;".toList from rfl,
              show (Verif.Model.Html.s "equals;") = "equals;".toList from rfl] at h1
            rw [hT] at h1; exact absurd h1 (by decide)
    · simp only [hc, if_false] at h ⊢
      exact ih _ h

theorem glue_of_hasReferenceGlue (raw : List Char) (h : hasReferenceGlue raw = false) : glue raw = false :=
  glue_of_model raw false h

end Verif.Proofs.HtmlGlue

import Verif.Proofs.C09JsSep
import Verif.Proofs.C09JsTree
import Verif.Proofs.JsPrintGwf
import Verif.Proofs.C09JsStmt
/-!
# C09 (JS) — property-level theorems of the JavaScript slice

Theorem A (`js_token_sep`): the writer model of C01 (`Model.JsPrint.emit`: `write`, `writeSpaceBeforeIdent`,
`writeSpaceBefore('+'|'-'|'/')`, `writeSpaceAfterIdent` before `in`/`instanceof`, `a-- >b`, `<! --`) never glues two
tokens: read back with the independent lexer `Spec.C09JsLex.lex`, its output gives exactly the tokens it was given.
-/
namespace Verif.Proofs.C09Js
open Verif.Spec.C09JsLex Verif.Spec.JsSyntax Verif.Spec.JsGrammar Verif.Model.JsAst Verif.Model.JsPrint
open Verif.Proofs.C09JsSep Verif.Proofs.C09JsTree Verif.Proofs.C09JsStmt Verif.Model.JsStmt

/-- **Token separation of the writer (Theorem A).**  For every token list `ts` of the C01 token alphabet
    (identifiers, the keywords of the fragment, decimal numbers as the printer spells them — `5`, `1e3`, and `5.`
    directly before a member dot —, double-quoted strings, all operator / bracket punctuators) in which
    * every token is well formed (`tokOk`),
    * no adjacent pair is one that cannot occur in a token stream and that the writer would glue (`adjChain`:
      two words, an integer before a dot, a punctuator before a character extending it such as `<` `<` or `+` `=`,
      `/` before `*`, `.` before a digit),
    * the list does not begin with `--` `>…` (`headOk`: `-->` at the start of a script is a comment), and
    * every token starting with `/` stands where the goal tracker of the lexer expects an operator (`goalsOk`),
    lexing the bytes the writer produces gives back exactly `ts`: same kinds, same spellings, same order, no line
    terminator introduced (only the first token carries the start-of-line flag).
    Covers: the writer layer of C01 as it is (`writeTok`/`emit`), for all token lists, by induction over the list with
    the writer state as invariant.  Spaces the writer inserts are harmless, the ones it omits are not needed. -/
theorem js_token_sep (ts : List Tok) (hok : ∀ t ∈ ts, tokOk t = true) (hadj : adjChain ts = true)
    (hhead : headOk ts = true) (hgoal : goalsOk {} true ts = true) :
    lex (emit ts) = some (lexToks true ts) := by
  rw [emit_eq_render]
  have := sep_core ts {} {} true [] ((render {} ts).length + 1) (by omega) hok hadj (fun _ => hhead) hgoal
  simpa [lex] using this

/-- `a+ ++b-- >c/d<! --e in f` — every hazard class of the fragment in one token list -/
def sepExample : List Tok :=
  [.ident "a", .p "+", .p "++", .ident "b", .p "--", .p ">", .ident "c", .p "/", .ident "d", .p "<", .p "!", .p "--",
   .ident "e", .kw "in", .ident "f", .p "-", .p "-", .num 5 true, .p ".", .ident "g", .p "+", .kw "typeof", .num 1000 false]

example : (∀ t ∈ sepExample, tokOk t = true) ∧ adjChain sepExample = true ∧ headOk sepExample = true ∧
    goalsOk {} true sepExample = true := by decide

example : String.ofList (emit sepExample) = "a+ ++b-- >c/d<! --e in f- -5..g+typeof 1e3" := by decide


/-- **Every derivation tree is safe for the writer (Theorem B, expression level).**  For every tree `t` of the
    ECMA-262 expression grammar of the fragment (`gwfA`: every node an instance of a production; `&&`, `||`, `??`
    read as associative) whose names are plain identifiers and whose strings are in the modelled alphabet
    (`treeOk`), the terminal string `yield t` satisfies all hypotheses of `js_token_sep`: valid tokens, no unsafe
    adjacency, no leading `--` `>`, and the goal tracker of the lexer is in operator position at every `/`.
    By structural induction over `t`; the invariant: the first token of an expression starts an operand, the last
    one ends an operand, the tracker returns to the same bracket stack in operator position. -/
theorem js_tree_tokens_safe (t : E) (hg : gwfA t = true) (ht : treeOk t = true) :
    (∀ x ∈ yield t, tokOk x = true) ∧ adjChain (yield t) = true ∧ headOk (yield t) = true ∧
      goalsOk {} true (yield t) = true := by
  have hs := yield_seg t hg ht
  exact ⟨hs.piece.ok, hs.piece.adj, yield_headOk t hg ht,
    (hs.piece.goal {} true ⟨rfl, rfl, rfl, rfl⟩ (fun _ => rfl)).1⟩

/-- hence the bytes written for any such tree lex back to exactly its terminal string -/
theorem js_tree_relex (t : E) (hg : gwfA t = true) (ht : treeOk t = true) :
    lex (emit (yield t)) = some (lexToks true (yield t)) := by
  obtain ⟨h1, h2, h3, h4⟩ := js_tree_tokens_safe t hg ht
  exact js_token_sep (yield t) h1 h2 h3 h4

/-! ### optional chains: `?.` is never followed by a digit

`?.` directly before a decimal digit is not the punctuator `?.` (ECMA-262 12.8: `OptionalChainingPunctuator ::
?. [lookahead ∉ DecimalDigit]`): `a?.5:1` is the conditional `a ? .5 : 1`.  The writer contract `adjOk` therefore
excludes every numeric token behind `?.` (`adj_qdot_num`); the terminal string of a tree never contains that pair,
since `yieldOpt` writes `?.` only before `(`, `[` or a property name. -/

theorem adjChain_mid (pre : List Tok) (a b : Tok) (post : List Tok) (h : adjChain (pre ++ a :: b :: post) = true) :
    adjOk a b = true := by
  induction pre with
  | nil => simp only [List.nil_append, adjChain, Bool.and_eq_true] at h; exact h.1
  | cons x r ih =>
    cases r with
    | nil => simp only [List.cons_append, List.nil_append, adjChain, Bool.and_eq_true] at h; exact h.2.1
    | cons y r' =>
      simp only [List.cons_append, adjChain, Bool.and_eq_true] at h
      exact ih (by simpa using h.2)

/-- in the terminal string of a derivation tree (optional chains included) no numeric token follows `?.` -/
theorem js_opt_chain_no_digit_after_qdot (t : E) (hg : gwfA t = true) (ht : treeOk t = true)
    (pre post : List Tok) (n : Nat) (bd : Bool) : yield t ≠ pre ++ .p "?." :: .num n bd :: post := by
  intro e
  have h := (js_tree_tokens_safe t hg ht).2.1
  rw [e] at h
  have := adjChain_mid pre _ _ post h
  rw [Verif.Proofs.C09JsTree.adj_qdot_num] at this
  exact absurd this (by simp)

/-- the hazard is real: the tokens `a` `?.` `5` `:` `1` are written as `a?.5:1`, which is read back as
    `a` `?` `.5` `:` `1` -/
theorem js_qdot_digit_counterexample :
    String.ofList (emit [.ident "a", .p "?.", .num 5 false, .p ":", .num 1 false]) = "a?.5:1" ∧
    (lex (emit [.ident "a", .p "?.", .num 5 false, .p ":", .num 1 false])).map (fun l => l.map (·.text)) =
      some ["a".toList, "?".toList, ".5".toList, ":".toList, "1".toList] := by decide

/-- an optional chain with all three kinds of links, written and read back: `a?.[b].c(d,e)?.f` is not derivable (one
    `?.` per `opt` node); `a?.[b].c(d,e)` is -/
example : gwfA (.opt "a" (.call (.dot (.index (.var "a") (.var "b")) "c") [.var "d", .var "e"])) = true ∧
    treeOk (.opt "a" (.call (.dot (.index (.var "a") (.var "b")) "c") [.var "d", .var "e"])) = true ∧
    String.ofList (emit (yield (.opt "a" (.call (.dot (.index (.var "a") (.var "b")) "c") [.var "d", .var "e"]))))
      = "a?.[b].c(d,e)" ∧
    String.ofList (emit (yield (.cond (.opt "a" (.call (.var "a") [])) (.opt "b" (.dot (.var "b") "c")) (.lit (.num 5)))))
      = "a?.()?b?.c:5" := by decide

/-- **The expression printer of C01 never glues tokens and its output is in the language.**  For every parser-shaped
    input tree `e` (`wfGo`), every context precedence `p ≤ OpCall` and every fuel: if the printer model `printT`
    (group dropping, literal lowering, `a["b"] → a.b`, `(5).a → 5..a`, …) produces the tree `t` and the names and
    strings of `t` are plain (`treeOk`), then the bytes `emit (yield t)` the writer produces are read back by the
    independent lexer as exactly the tokens `yield t`, and these tokens derive `t` in the independent grammar
    (`DerivesA`, C01).  Printer path covered: `minifyExpr` without `optimizeCondExpr`/`optimizeUnaryExpr`, plus the
    writer; not covered: the statement printer and the rewrites (swept by the harness). -/
theorem js_expr_relex (fuel : Nat) (e : E) (p : Prec) (t : E) (hp : p ≤ opCall)
    (hw : Verif.Proofs.JsPrintGwf.wfGo e = true) (hf : Verif.Proofs.JsPrintGwf.FitsIn p e = true)
    (h : printT fuel e p = some t) (ht : treeOk t = true) :
    lex (emit (yield t)) = some (lexToks true (yield t)) ∧ DerivesA p (yield t) t := by
  have hp' : p ≤ 17 := by
    have : opCall = 17 := by decide
    rw [this] at hp; exact hp
  have inv := Verif.Proofs.JsPrintGwf.printT_gwf fuel e p t hp' hw h
  exact ⟨js_tree_relex t inv.g ht, inv.g, inv.lv hf, rfl⟩

/-- `(a+b)*c / (d - -e) < !--f, 5..g in h` printed and read back -/
example : printT 40 (.comma [.bin .lt (.bin .div (.bin .mul (.group (.bin .add (.var "a") (.var "b"))) (.var "c"))
      (.group (.bin .sub (.var "d") (.unary .neg (.var "e"))))) (.unary .not (.unary .predec (.var "f"))),
      .bin .inOp (.dot (.group (.lit (.num 5))) "g") (.var "h")]) 0
    = some (.comma [.bin .lt (.bin .div (.bin .mul (.group (.bin .add (.var "a") (.var "b"))) (.var "c"))
      (.group (.bin .sub (.var "d") (.unary .neg (.var "e"))))) (.unary .not (.unary .predec (.var "f"))),
      .bin .inOp (.dot (.lit (.num 5)) "g") (.var "h")]) := by rfl

example : String.ofList (emit (yield (.comma [.bin .lt (.bin .div (.bin .mul (.group (.bin .add (.var "a") (.var "b")))
      (.var "c")) (.group (.bin .sub (.var "d") (.unary .neg (.var "e"))))) (.unary .not (.unary .predec (.var "f"))),
      .bin .inOp (.dot (.lit (.num 5)) "g") (.var "h")])))
    = "(a+b)*c/(d- -e)<! --f,5..g in h" := by decide


/-! ## the statement printer -/

/-- full statement for the statement printer model of C01 (`jsMinify`: `optimizeStmtList`, `minifyStmt` for
    expression statements, `if`/`else`, `return`, `throw`, blocks, function declarations, with all expression
    rewrites): whenever the model produces bytes, the independent lexer reads them back as exactly the tokens the
    printer wrote.  Not proved in this generality: C01 has no theorem that the trees produced by the expression
    rewrites (`optimizeCondExpr`, `optimizeUnaryExpr`, …) are derivation trees of the grammar. -/
def js_print_relex_full : Prop :=
  ∀ (o : Opts) (prog : List S) (ts : List Tok), jsTokens o prog = some ts → (∀ t ∈ ts, tokOk t = true) →
    lex (emit ts) = some (lexToks true ts)

/-- **The statement printer never glues tokens (partial: explicit decidable guard).**  `jsTokensG` is the statement
    printer model with the guard "every expression tree that is printed is a derivation tree of the expression
    grammar with plain names and strings, function and parameter names are plain identifiers" (`gwfA t && treeOk t`,
    evaluated by the driver on every swept program: it held on all of them).  Where the guard holds, the guarded
    printer is the model (`jsMinify o prog = some (emit ts)`) and the bytes are read back by the independent lexer as
    exactly the tokens written — for every program of the fragment, every option set, by induction over the fuel of
    `printS`/`printL` with the tracker state "statement position" as invariant.  Printer paths covered: `writeSemicolon`
    / `requireSemicolon` placement, `if(…)…;else …`, `{…}` incl. the braces added against the dangling else, `return` /
    `throw` followed by an expression, function declarations with parameter lists. -/
theorem js_print_relex_partial (o : Opts) (prog : List S) (ts : List Tok) (h : jsTokensG o prog = some ts) :
    jsMinify o prog = some (emit ts) ∧ lex (emit ts) = some (lexToks true ts) := by
  obtain ⟨h1, h2, h3, h4⟩ := jsTokensG_safe o prog ts h
  refine ⟨?_, js_token_sep ts h1 h2 h3 h4⟩
  simp [jsMinify, jsTokensG_agrees o prog ts h]

/-- `function t(p,q){if(p)return q;else{p--;throw p/q}}x=t(a,b)` satisfies the guard -/
example : (jsTokensG {} [.fn "t" ["p", "q"] [.ifS (.var "p") (.ret (some (.var "q")))
      (.block [.expr (.unary .postdec (.var "p")), .throw (.bin .div (.var "p") (.var "q"))])],
      .expr (.bin .assign (.var "x") (.call (.var "t") [.var "a", .var "b"]))]).isSome = true := by decide

end Verif.Proofs.C09Js

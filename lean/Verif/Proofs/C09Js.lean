import Verif.Proofs.C09JsSep
/-!
# C09 (JS) — property-level theorems of the JavaScript slice

Theorem A (`js_token_sep`): the writer model of C01 (`Model.JsPrint.emit`: `write`, `writeSpaceBeforeIdent`,
`writeSpaceBefore('+'|'-'|'/')`, `writeSpaceAfterIdent` before `in`/`instanceof`, `a-- >b`, `<! --`) never glues two
tokens: read back with the independent lexer `Spec.C09JsLex.lex`, its output gives exactly the tokens it was given.
-/
namespace Verif.Proofs.C09Js
open Verif.Spec.C09JsLex Verif.Spec.JsGrammar Verif.Model.JsPrint Verif.Proofs.C09JsSep

/-- **Token separation of the writer (Theorem A).**  For every token list `ts` of the C01 token alphabet
    (identifiers, the keywords of the fragment, decimal numbers as the printer spells them — `5`, `1e3`, and `5.`
    directly before a member dot —, double-quoted strings, all operator / bracket punctuators) in which
    * every token is well formed (`tokOk`),
    * no adjacent pair is one that cannot occur in a token stream and that the writer would glue (`adjChain`:
      two words, an integer before a dot, a punctuator before a character extending it such as `<` `<` or `+` `=`,
      `/` before `*`, `.` before a digit),
    * the list does not begin with `--` `>…` (`headOk`: `-->` at the start of a script is a comment), and
    * every token starting with `/` stands where the goal tracker of the lexer expects an operator (`goalsOk`),
    lexing the bytes the writer produces gives back exactly `ts`: same kinds, same spellings, same order, no line
    terminator introduced (only the first token carries the start-of-line flag).
    Covers: the writer layer of C01 as it is (`writeTok`/`emit`), for all token lists, by induction over the list with
    the writer state as invariant.  Spaces the writer inserts are harmless, the ones it omits are not needed. -/
theorem js_token_sep (ts : List Tok) (hok : ∀ t ∈ ts, tokOk t = true) (hadj : adjChain ts = true)
    (hhead : headOk ts = true) (hgoal : goalsOk {} true ts = true) :
    lex (emit ts) = some (lexToks true ts) := by
  rw [emit_eq_render]
  have hlen := render_length {} ts hok
  have := sep_core ts {} {} true [] ((render {} ts).length + 1) (by omega) hok hadj (fun _ => hhead) hgoal
  simpa [lex] using this

/-- `a+ ++b-- >c/d<! --e in f` — every hazard class of the fragment in one token list -/
def sepExample : List Tok :=
  [.ident "a", .p "+", .p "++", .ident "b", .p "--", .p ">", .ident "c", .p "/", .ident "d", .p "<", .p "!", .p "--",
   .ident "e", .kw "in", .ident "f", .p "-", .p "-", .num 5 true, .p ".", .ident "g", .p "+", .kw "typeof", .num 1000 false]

example : (∀ t ∈ sepExample, tokOk t = true) ∧ adjChain sepExample = true ∧ headOk sepExample = true ∧
    goalsOk {} true sepExample = true := by decide

example : String.ofList (emit sepExample) = "a+ ++b-- >c/d<! --e in f- -5..g+typeof 1e3" := by decide

end Verif.Proofs.C09Js

import Verif.Proofs.JsHoistSound
/-!
# C01D — `hoistVars` does not introduce an early error (`isShadowed` is sufficient)

`hoist_early`: if the body has no early error and the guard of K-C01D-1 does not fire (always the case when
`isShadowed` knows about `while` loops), the hoisted body has none: the names that the best declaration receives are not
declared with let / const by any block around it.
-/
namespace Verif.Proofs.JsDecl
open Verif.Spec.JsDeclSem Verif.Model.JsHoist

/-! ## list facts -/

theorem sub_at {α : Type} (pre mid post : List α) (k : Nat) (h1 : pre.length ≤ k) (h2 : k < pre.length + mid.length) :
    (pre ++ mid ++ post)[k]? = mid[k - pre.length]? := by
  rw [List.append_assoc, List.getElem?_append_right h1, List.getElem?_append_left (by omega)]

theorem meets_false_iff (a b : List String) : meets a b = false ↔ ∀ z, z ∈ a → z ∉ b := by
  unfold meets
  rw [List.any_eq_false]
  constructor
  · intro h z hz hb
    have := h z hz
    simp [hb] at this
  · intro h z hz
    have := h z hz
    simpa using this

theorem meets_append_left (a b c : List String) : meets (a ++ b) c = false → meets a c = false ∧ meets b c = false := by
  simp only [meets_false_iff]
  intro h
  exact ⟨fun z hz => h z (List.mem_append_left _ hz), fun z hz => h z (List.mem_append_right _ hz)⟩

theorem meets_cons_left (x : String) (b c : List String) : meets (x :: b) c = false → meets b c = false := by
  simp only [meets_false_iff]
  intro h z hz
  exact h z (List.mem_cons_of_mem _ hz)

/-- `b'` has the names of `b` and possibly those of `A`: no new clash when `a` avoids `A` -/
theorem meets_grow (a b b' A : List String) (hb : meets a b = false) (hA : meets a A = false)
    (hsub : ∀ y, y ∈ b' → y ∈ b ∨ y ∈ A) : meets a b' = false := by
  rw [meets_false_iff] at hb hA ⊢
  intro z hz hz'
  rcases hsub z hz' with h | h
  · exact hb z hz h
  · exact hA z hz h

theorem meets_shrink (a b b' : List String) (hb : meets a b = false) (hsub : ∀ y, y ∈ b' → y ∈ b) :
    meets a b' = false := by
  rw [meets_false_iff] at hb ⊢
  intro z hz hz'
  exact hb z hz (hsub z hz')

/-! ## where the declarations of a subtree sit on the path -/

/-- the scope list `path` is still visible from `info`: either `path` is a suffix of its `lexPath`, or `info` is the
    head of a `while` directly in the scope `path.head` (which `isShadowed` skipped and `skipped` remembers) -/
def Sees (path : List (List String)) (info : DeclInfo) : Prop :=
  path <:+ info.lexPath ∨ ∃ sc rest, path = sc :: rest ∧ info.lexPath = rest ∧ info.skipped = sc

theorem Sees.tail {sc : List String} {path : List (List String)} {info : DeclInfo} (h : Sees (sc :: path) info) :
    Sees path info := by
  rcases h with h | ⟨sc', rest, hp, hl, _⟩
  · exact Or.inl (List.IsSuffix.trans (List.suffix_cons sc path) h)
  · cases hp
    exact Or.inl (by rw [hl]; exact List.suffix_refl _)

mutual
theorem collectS_sees (kw : Bool) : (s : DS) → (path : List (List String)) → ∀ info, info ∈ collectS kw path s →
    Sees path info
  | .decl .var items, path => by
    intro info h
    simp only [collectS, List.mem_singleton] at h
    subst h
    exact Or.inl (List.suffix_refl _)
  | .decl .let_ items, path => by intro info h; simp [collectS] at h
  | .decl .const_ items, path => by intro info h; simp [collectS] at h
  | .decl .hoisted items, path => by intro info h; simp [collectS] at h
  | .expr e, path => by intro info h; simp [collectS] at h
  | .ret e, path => by intro info h; simp [collectS] at h
  | .throw e, path => by intro info h; simp [collectS] at h
  | .fn name a ps body, path => by intro info h; simp [collectS] at h
  | .empty, path => by intro info h; simp [collectS] at h
  | .absent, path => by intro info h; simp [collectS] at h
  | .ifS c t e, path => by
    intro info h
    simp only [collectS, List.mem_append] at h
    rcases h with h | h
    · exact collectS_sees kw t path info h
    · exact collectS_sees kw e path info h
  | .block l, path => by
    intro info h
    simp only [collectS] at h
    exact (collectL_sees kw l _ info h).tail
  | .tryS b x a cb, path => by
    intro info h
    simp only [collectS, List.mem_append] at h
    rcases h with h | h
    · exact (collectL_sees kw b _ info h).tail
    · exact (collectL_sees kw cb _ info h).tail
  | .forS w i c po b, path => by
    intro info h
    cases i with
    | decl k items =>
      cases k with
      | var =>
        simp only [collectS, List.mem_cons] at h
        rcases h with h | h
        · subst h
          exact Or.inl (List.suffix_refl _)
        · exact (collectL_sees kw b _ info h).tail
      | _ =>
        simp only [collectS] at h
        exact (collectL_sees kw b _ info h).tail
    | empty =>
      simp only [collectS, List.mem_append, List.mem_singleton] at h
      rcases h with h | h
      · exact (collectL_sees kw b _ info h).tail
      · subst h
        by_cases hw : (w && !kw) = true
        · simp only [hw, if_true]
          cases path with
          | nil => exact Or.inl (by simp)
          | cons sc rest => exact Or.inr ⟨sc, rest, rfl, by simp, by simp⟩
        · simp only [hw, Bool.false_eq_true, if_false]
          exact Or.inl (List.suffix_refl _)
    | _ =>
      simp only [collectS] at h
      exact (collectL_sees kw b _ info h).tail
theorem collectL_sees (kw : Bool) : (l : List DS) → (path : List (List String)) → ∀ info, info ∈ collectL kw path l →
    Sees path info
  | [], path => by intro info h; simp [collectL] at h
  | s :: t, path => by
    intro info h
    simp only [collectL, List.mem_append] at h
    rcases h with h | h
    · exact collectS_sees kw s path info h
    · exact collectL_sees kw t path info h
end

mutual
theorem collectS_skipped_true : (s : DS) → (path : List (List String)) → ∀ info, info ∈ collectS true path s →
    info.skipped = []
  | .decl .var items, path => by
    intro info h
    simp only [collectS, List.mem_singleton] at h
    subst h
    rfl
  | .decl .let_ items, path => by intro info h; simp [collectS] at h
  | .decl .const_ items, path => by intro info h; simp [collectS] at h
  | .decl .hoisted items, path => by intro info h; simp [collectS] at h
  | .expr e, path => by intro info h; simp [collectS] at h
  | .ret e, path => by intro info h; simp [collectS] at h
  | .throw e, path => by intro info h; simp [collectS] at h
  | .fn name a ps body, path => by intro info h; simp [collectS] at h
  | .empty, path => by intro info h; simp [collectS] at h
  | .absent, path => by intro info h; simp [collectS] at h
  | .ifS c t e, path => by
    intro info h
    simp only [collectS, List.mem_append] at h
    rcases h with h | h
    · exact collectS_skipped_true t path info h
    · exact collectS_skipped_true e path info h
  | .block l, path => by
    intro info h
    simp only [collectS] at h
    exact collectL_skipped_true l _ info h
  | .tryS b x a cb, path => by
    intro info h
    simp only [collectS, List.mem_append] at h
    rcases h with h | h
    · exact collectL_skipped_true b _ info h
    · exact collectL_skipped_true cb _ info h
  | .forS w i c po b, path => by
    intro info h
    cases i with
    | decl k items =>
      cases k with
      | var =>
        simp only [collectS, List.mem_cons] at h
        rcases h with h | h
        · subst h
          rfl
        · exact collectL_skipped_true b _ info h
      | _ =>
        simp only [collectS] at h
        exact collectL_skipped_true b _ info h
    | empty =>
      simp only [collectS, List.mem_append, List.mem_singleton] at h
      rcases h with h | h
      · exact collectL_skipped_true b _ info h
      · subst h
        simp
    | _ =>
      simp only [collectS] at h
      exact collectL_skipped_true b _ info h
theorem collectL_skipped_true : (l : List DS) → (path : List (List String)) → ∀ info, info ∈ collectL true path l →
    info.skipped = []
  | [], path => by intro info h; simp [collectL] at h
  | s :: t, path => by
    intro info h
    simp only [collectL, List.mem_append] at h
    rcases h with h | h
    · exact collectS_skipped_true s path info h
    · exact collectL_skipped_true t path info h
end

/-! ## the names after hoisting are the old ones, plus the added ones where the best declaration is -/

/-- the best declaration is one of the `len` declarations that start at index `n` -/
def Hit (p : Plan) (n len : Nat) : Prop := n ≤ p.best ∧ p.best < n + len

theorem namesFrom_bound (p : Plan) : ∀ (dss : List (List DE)) (n : Nat) (y : String), y ∈ namesFrom p n dss →
    y ∈ dss.flatMap itemNames ∨ (Hit p n dss.length ∧ (y ∈ p.pre ∨ y ∈ p.post)) := by
  intro dss
  induction dss with
  | nil => intro n y h; simp [namesFrom] at h
  | cons items t ih =>
    intro n y h
    simp only [namesFrom, List.mem_append] at h
    simp only [List.flatMap_cons, List.mem_append, List.length_cons]
    rcases h with h | h
    · unfold actNames at h
      split at h
      · rename_i hb
        have hb' : n = p.best := by simpa using hb
        simp only [List.mem_append] at h
        rcases h with (h | h) | h
        · exact Or.inr ⟨⟨by omega, by omega⟩, Or.inl h⟩
        · exact Or.inl (Or.inl h)
        · exact Or.inr ⟨⟨by omega, by omega⟩, Or.inr h⟩
      · split at h
        · cases h
        · exact Or.inl (Or.inl h)
    · rcases ih (n + 1) y h with h | ⟨⟨h1, h2⟩, h3⟩
      · exact Or.inl (Or.inr h)
      · exact Or.inr ⟨⟨by omega, by omega⟩, h3⟩

theorem applyL_names_bound (p : Plan) (l : List DS) (n : Nat) (y : String) (h : y ∈ varNamesL (applyL p l n).1) :
    y ∈ varNamesL l ∨ (Hit p n (declsL l).length ∧ (y ∈ p.pre ∨ y ∈ p.post)) := by
  rw [applyL_names] at h
  rcases namesFrom_bound p _ n y h with h | h
  · exact Or.inl ((varNamesL_decls l y).mpr h)
  · exact Or.inr h

theorem collectS_len (kw : Bool) (s : DS) (path : List (List String)) : (collectS kw path s).length = (declsS s).length := by
  have := congrArg List.length (collectS_items kw s path)
  simpa using this

theorem collectL_len (kw : Bool) (l : List DS) (path : List (List String)) : (collectL kw path l).length = (declsL l).length := by
  have := congrArg List.length (collectL_items kw l path)
  simpa using this

/-! ## the induction -/

section
variable (p : Plan) (kw : Bool) (target : DeclInfo)

/-- if the best declaration is inside the statement, the statement's list of declarations has `target` there -/
def AtS (s : DS) (path : List (List String)) (n : Nat) : Prop :=
  Hit p n (declsS s).length → (collectS kw path s)[p.best - n]? = some target

def AtL (l : List DS) (path : List (List String)) (n : Nat) : Prop :=
  Hit p n (declsL l).length → (collectL kw path l)[p.best - n]? = some target

theorem AtL.head {s : DS} {t : List DS} {path : List (List String)} {n : Nat} (h : AtL p kw target (s :: t) path n) :
    AtS p kw target s path n := by
  intro hit
  have hit' : Hit p n (declsL (s :: t)).length := by
    simp only [declsL, List.length_append]
    exact ⟨hit.1, by have := hit.2; omega⟩
  have := h hit'
  simp only [collectL] at this
  have e := sub_at [] (collectS kw path s) (collectL kw path t) (p.best - n) (by simp)
    (by simp [collectS_len]; have := hit.1; have := hit.2; omega)
  simp only [List.nil_append, List.length_nil, Nat.sub_zero] at e
  rw [e] at this
  exact this

theorem AtL.tail {s : DS} {t : List DS} {path : List (List String)} {n : Nat} (h : AtL p kw target (s :: t) path n) :
    AtL p kw target t path (n + (declsS s).length) := by
  intro hit
  have hit' : Hit p n (declsL (s :: t)).length := by
    simp only [declsL, List.length_append]
    exact ⟨by have := hit.1; omega, by have := hit.2; omega⟩
  have := h hit'
  simp only [collectL] at this
  have e := sub_at (collectS kw path s) (collectL kw path t) [] (p.best - n)
    (by simp [collectS_len]; have := hit.1; omega)
    (by simp [collectS_len, collectL_len]; have := hit.1; have := hit.2; omega)
  simp only [List.append_nil] at e
  rw [e, collectS_len] at this
  have h2 : p.best - n - (declsS s).length = p.best - (n + (declsS s).length) := by omega
  rw [h2] at this
  exact this

theorem AtS.ifT {c : DE} {t e : DS} {path : List (List String)} {n : Nat} (h : AtS p kw target (.ifS c t e) path n) :
    AtS p kw target t path n := by
  intro hit
  have hit' : Hit p n (declsS (.ifS c t e)).length := by
    simp only [declsS, List.length_append]
    exact ⟨hit.1, by have := hit.2; omega⟩
  have := h hit'
  simp only [collectS] at this
  have e1 := sub_at [] (collectS kw path t) (collectS kw path e) (p.best - n) (by simp)
    (by simp [collectS_len]; have := hit.1; have := hit.2; omega)
  simp only [List.nil_append, List.length_nil, Nat.sub_zero] at e1
  rw [e1] at this
  exact this

theorem AtS.ifE {c : DE} {t e : DS} {path : List (List String)} {n : Nat} (h : AtS p kw target (.ifS c t e) path n) :
    AtS p kw target e path (n + (declsS t).length) := by
  intro hit
  have hit' : Hit p n (declsS (.ifS c t e)).length := by
    simp only [declsS, List.length_append]
    exact ⟨by have := hit.1; omega, by have := hit.2; omega⟩
  have := h hit'
  simp only [collectS] at this
  have e1 := sub_at (collectS kw path t) (collectS kw path e) [] (p.best - n)
    (by simp [collectS_len]; have := hit.1; omega)
    (by simp [collectS_len]; have := hit.1; have := hit.2; omega)
  simp only [List.append_nil] at e1
  rw [e1, collectS_len] at this
  have h2 : p.best - n - (declsS t).length = p.best - (n + (declsS t).length) := by omega
  rw [h2] at this
  exact this

theorem AtS.block {l : List DS} {path : List (List String)} {n : Nat} (h : AtS p kw target (.block l) path n) :
    AtL p kw target l (lexNamesL l :: path) n := by
  intro hit
  have := h (by simpa [declsS] using hit)
  simpa [collectS] using this

theorem AtS.tryB {b cb : List DS} {x : String} {a : Ann} {path : List (List String)} {n : Nat}
    (h : AtS p kw target (.tryS b x a cb) path n) : AtL p kw target b (lexNamesL b :: path) n := by
  intro hit
  have hit' : Hit p n (declsS (.tryS b x a cb)).length := by
    simp only [declsS, List.length_append]
    exact ⟨hit.1, by have := hit.2; omega⟩
  have := h hit'
  simp only [collectS] at this
  have e1 := sub_at [] (collectL kw (lexNamesL b :: path) b) (collectL kw ((x :: lexNamesL cb) :: path) cb) (p.best - n)
    (by simp) (by simp [collectL_len]; have := hit.1; have := hit.2; omega)
  simp only [List.nil_append, List.length_nil, Nat.sub_zero] at e1
  rw [e1] at this
  exact this

theorem AtS.tryC {b cb : List DS} {x : String} {a : Ann} {path : List (List String)} {n : Nat}
    (h : AtS p kw target (.tryS b x a cb) path n) :
    AtL p kw target cb ((x :: lexNamesL cb) :: path) (n + (declsL b).length) := by
  intro hit
  have hit' : Hit p n (declsS (.tryS b x a cb)).length := by
    simp only [declsS, List.length_append]
    exact ⟨by have := hit.1; omega, by have := hit.2; omega⟩
  have := h hit'
  simp only [collectS] at this
  have e1 := sub_at (collectL kw (lexNamesL b :: path) b) (collectL kw ((x :: lexNamesL cb) :: path) cb) [] (p.best - n)
    (by simp [collectL_len]; have := hit.1; omega)
    (by simp [collectL_len]; have := hit.1; have := hit.2; omega)
  simp only [List.append_nil] at e1
  rw [e1, collectL_len] at this
  have h2 : p.best - n - (declsL b).length = p.best - (n + (declsL b).length) := by omega
  rw [h2] at this
  exact this

theorem AtS.forVar {w : Bool} {items : List DE} {c po : Option DE} {b : List DS} {path : List (List String)} {n : Nat}
    (h : AtS p kw target (.forS w (.decl .var items) c po b) path n) :
    AtL p kw target b (lexNamesL b :: path) (n + 1) := by
  intro hit
  have hit' : Hit p n (declsS (.forS w (.decl .var items) c po b)).length := by
    simp only [declsS, List.length_cons]
    exact ⟨by have := hit.1; omega, by have := hit.2; omega⟩
  have := h hit'
  simp only [collectS] at this
  have hk : p.best - n = (p.best - (n + 1)) + 1 := by have := hit.1; omega
  rw [hk, List.getElem?_cons_succ] at this
  exact this

theorem AtS.forEmpty {w : Bool} {c po : Option DE} {b : List DS} {path : List (List String)} {n : Nat}
    (h : AtS p kw target (.forS w .empty c po b) path n) : AtL p kw target b (lexNamesL b :: path) n := by
  intro hit
  have hit' : Hit p n (declsS (.forS w .empty c po b)).length := by
    simp only [declsS, List.length_append]
    exact ⟨hit.1, by have := hit.2; omega⟩
  have := h hit'
  simp only [collectS] at this
  rw [List.getElem?_append_left (by simp [collectL_len]; have := hit.1; have := hit.2; omega)] at this
  exact this

theorem AtS.forOther {w : Bool} {i : DS} {c po : Option DE} {b : List DS} {path : List (List String)} {n : Nat}
    (sc : List String) (hc : collectS kw path (.forS w i c po b) = collectL kw (sc :: path) b)
    (hd : declsS (.forS w i c po b) = declsL b)
    (h : AtS p kw target (.forS w i c po b) path n) : AtL p kw target b (sc :: path) n := by
  intro hit
  have := h (by rw [hd]; exact hit)
  rw [hc] at this
  exact this

variable (A : List String) (hA : ∀ y, (y ∈ p.pre ∨ y ∈ p.post) → y ∈ A)
  (hPath : ∀ sc, sc ∈ target.lexPath → meets sc A = false) (hSkip : meets target.skipped A = false)

include hPath hSkip in
theorem sees_avoid (sc : List String) (path : List (List String)) (h : Sees (sc :: path) target) :
    meets sc A = false := by
  rcases h with h | ⟨sc', rest, hp, _, hs⟩
  · obtain ⟨t, ht⟩ := h
    apply hPath
    rw [← ht]
    simp
  · cases hp
    rw [← hs]
    exact hSkip

theorem atL_mem {l : List DS} {path : List (List String)} {n : Nat} (h : AtL p kw target l path n)
    (hit : Hit p n (declsL l).length) : target ∈ collectL kw path l :=
  List.mem_of_getElem? (h hit)

include hA hPath hSkip in
/-- the name clashes of a block-like list after hoisting -/
theorem scope_ok (outer : List String) (l : List DS) (sc : List String) (path : List (List String)) (n : Nat)
    (hsub : ∀ z, z ∈ lexNamesL l → z ∈ sc) (h0 : scopeClash outer l = false)
    (hat : AtL p kw target l (sc :: path) n) : scopeClash outer (applyL p l n).1 = false := by
  have hl : lexNamesL (applyL p l n).1 = lexNamesL l := by
    simp only [lexNamesL, (applyL_dyn p l n).lex]
  simp only [scopeClash, Bool.or_eq_false_iff] at h0 ⊢
  rw [hl]
  refine ⟨⟨h0.1.1, ?_⟩, h0.2⟩
  by_cases hit : Hit p n (declsL l).length
  · have hs : Sees (sc :: path) target := collectL_sees kw l _ target (atL_mem p kw target hat hit)
    have hav : meets sc A = false := sees_avoid target A hPath hSkip sc path hs
    have hav' : meets (lexNamesL l) A = false := by
      rw [meets_false_iff] at hav ⊢
      intro z hz
      exact hav z (hsub z hz)
    apply meets_grow _ _ _ A h0.1.2 hav'
    intro y hy
    rcases applyL_names_bound p l n y hy with h | ⟨_, h⟩
    · exact Or.inl h
    · exact Or.inr (hA y h)
  · apply meets_shrink _ _ _ h0.1.2
    intro y hy
    rcases applyL_names_bound p l n y hy with h | ⟨h, _⟩
    · exact h
    · exact absurd h hit

theorem earlyS_act (n : Nat) (items : List DE) : earlyS (p.act n items) = false := by
  have h := (act_dyn p n items).cni
  unfold Plan.act at h ⊢
  split
  · simp [earlyS, constNoInit]
  · split <;> simp [earlyS, constNoInit]

include hA hPath hSkip in
mutual
theorem earlyS_apply : (s : DS) → (path : List (List String)) → (n : Nat) → earlyS s = false →
    AtS p kw target s path n → earlyS (applyS p s n).1 = false
  | .decl .var items, path, n => by intro _ _; simpa [applyS] using earlyS_act p n items
  | .decl .let_ items, path, n => by intro h _; simpa [applyS] using h
  | .decl .const_ items, path, n => by intro h _; simpa [applyS] using h
  | .decl .hoisted items, path, n => by intro h _; simpa [applyS] using h
  | .expr e, path, n => by intro h _; simpa [applyS] using h
  | .ret e, path, n => by intro h _; simpa [applyS] using h
  | .throw e, path, n => by intro h _; simpa [applyS] using h
  | .fn name a ps body, path, n => by intro h _; simpa [applyS] using h
  | .empty, path, n => by intro h _; simpa [applyS] using h
  | .absent, path, n => by intro h _; simpa [applyS] using h
  | .ifS c t e, path, n => by
    intro h hat
    simp only [earlyS, Bool.or_eq_false_iff] at h
    have ht := earlyS_apply t path n h.1 (AtS.ifT p kw target hat)
    have he := earlyS_apply e path (applyS p t n).2 h.2 (by rw [applyS_count]; exact AtS.ifE p kw target hat)
    simp only [applyS, earlyS, ht, he, Bool.or_self]
  | .block l, path, n => by
    intro h hat
    rw [earlyS_block] at h
    simp only [earlyScope, Bool.or_eq_false_iff] at h
    have hat' := AtS.block p kw target hat
    have h1 := scope_ok p kw target A hA hPath hSkip [] l (lexNamesL l) path n (fun z hz => hz) h.1 hat'
    have h2 := earlyItems_apply l (lexNamesL l :: path) n h.2 hat'
    simp only [applyS, earlyS_block, earlyScope, h1, h2, Bool.or_self]
  | .tryS b x a cb, path, n => by
    intro h hat
    rw [earlyS_try] at h
    simp only [earlyScope, Bool.or_eq_false_iff] at h
    have hb := AtS.tryB p kw target hat
    have hc := AtS.tryC p kw target hat
    rw [← applyL_count p b n] at hc
    have h1 := scope_ok p kw target A hA hPath hSkip [] b (lexNamesL b) path n (fun z hz => hz) h.1.1 hb
    have h2 := earlyItems_apply b (lexNamesL b :: path) n h.1.2 hb
    have h3 := scope_ok p kw target A hA hPath hSkip [x] cb (x :: lexNamesL cb) path (applyL p b n).2
      (fun z hz => List.mem_cons_of_mem _ hz) h.2.1 hc
    have h4 := earlyItems_apply cb ((x :: lexNamesL cb) :: path) (applyL p b n).2 h.2.2 hc
    simp only [applyS, earlyS_try, earlyScope, h1, h2, h3, h4, Bool.or_self]
  | .forS w i c po b, path, n => by
    intro h hat
    rw [earlyS_for] at h
    simp only [earlyScope, Bool.or_eq_false_iff] at h
    cases i with
    | decl k items =>
      cases k with
      | var =>
        have hb := AtS.forVar p kw target hat
        have h1 := scope_ok p kw target A hA hPath hSkip [] b (lexNamesL b) path (n + 1) (fun z hz => hz) h.2.1 hb
        have h2 := earlyItems_apply b (lexNamesL b :: path) (n + 1) h.2.2 hb
        have ha := act_dyn p n items
        simp only [applyS]
        rw [earlyS_for, ha.cni, ha.lexS]
        simp only [earlyScope, h1, h2, Bool.or_self, Bool.or_false]
        simp [constNoInit, lexDeclsS, hasDup, meets]
      | let_ =>
        have hb := AtS.forOther p kw target ((lexDeclsS (.decl .let_ items)).map (·.1) ++ lexNamesL b) rfl rfl hat
        have h1 := scope_ok p kw target A hA hPath hSkip [] b _ path n
          (fun z hz => List.mem_append_right _ hz) h.2.1 hb
        have h2 := earlyItems_apply b _ n h.2.2 hb
        have h3 : meets ((lexDeclsS (.decl .let_ items)).map (·.1)) (varNamesL (applyL p b n).1) = false := by
          by_cases hit : Hit p n (declsL b).length
          · have hs := collectL_sees kw b _ target (atL_mem p kw target hb hit)
            have hav := (meets_append_left _ _ _ (sees_avoid target A hPath hSkip _ path hs)).1
            apply meets_grow _ _ _ A h.1.2 hav
            intro y hy
            rcases applyL_names_bound p b n y hy with h | ⟨_, h⟩
            · exact Or.inl h
            · exact Or.inr (hA y h)
          · apply meets_shrink _ _ _ h.1.2
            intro y hy
            rcases applyL_names_bound p b n y hy with h | ⟨h, _⟩
            · exact h
            · exact absurd h hit
        simp only [applyS]
        rw [earlyS_for]
        simp only [earlyScope, h1, h2, h3, h.1.1.1, h.1.1.2, Bool.or_self]
      | const_ =>
        have hb := AtS.forOther p kw target ((lexDeclsS (.decl .const_ items)).map (·.1) ++ lexNamesL b) rfl rfl hat
        have h1 := scope_ok p kw target A hA hPath hSkip [] b _ path n
          (fun z hz => List.mem_append_right _ hz) h.2.1 hb
        have h2 := earlyItems_apply b _ n h.2.2 hb
        have h3 : meets ((lexDeclsS (.decl .const_ items)).map (·.1)) (varNamesL (applyL p b n).1) = false := by
          by_cases hit : Hit p n (declsL b).length
          · have hs := collectL_sees kw b _ target (atL_mem p kw target hb hit)
            have hav := (meets_append_left _ _ _ (sees_avoid target A hPath hSkip _ path hs)).1
            apply meets_grow _ _ _ A h.1.2 hav
            intro y hy
            rcases applyL_names_bound p b n y hy with h | ⟨_, h⟩
            · exact Or.inl h
            · exact Or.inr (hA y h)
          · apply meets_shrink _ _ _ h.1.2
            intro y hy
            rcases applyL_names_bound p b n y hy with h | ⟨h, _⟩
            · exact h
            · exact absurd h hit
        simp only [applyS]
        rw [earlyS_for]
        simp only [earlyScope, h1, h2, h3, h.1.1.1, h.1.1.2, Bool.or_self]
      | hoisted =>
        have hb := AtS.forOther p kw target ((lexDeclsS (.decl .hoisted items)).map (·.1) ++ lexNamesL b) rfl rfl hat
        have h1 := scope_ok p kw target A hA hPath hSkip [] b _ path n
          (fun z hz => List.mem_append_right _ hz) h.2.1 hb
        have h2 := earlyItems_apply b _ n h.2.2 hb
        simp only [applyS]
        rw [earlyS_for]
        simp only [earlyScope, h1, h2, Bool.or_self, Bool.or_false]
        simp [constNoInit, lexDeclsS, hasDup, meets]
    | empty =>
      have hb := AtS.forEmpty p kw target hat
      have h1 := scope_ok p kw target A hA hPath hSkip [] b (lexNamesL b) path n (fun z hz => hz) h.2.1 hb
      have h2 := earlyItems_apply b (lexNamesL b :: path) n h.2.2 hb
      simp only [applyS]
      rw [earlyS_for]
      simp only [earlyScope, h1, h2, Bool.or_self, Bool.or_false]
      split <;> simp [constNoInit, lexDeclsS, hasDup, meets]
    | _ =>
      -- an expression as loop head; (a statement of another kind does not come from a parser, it is treated alike)
      have hb := AtS.forOther p kw target ([] ++ lexNamesL b) rfl rfl hat
      have h1 := scope_ok p kw target A hA hPath hSkip [] b _ path n
        (fun z hz => List.mem_append_right _ hz) h.2.1 hb
      have h2 := earlyItems_apply b _ n h.2.2 hb
      simp only [applyS]
      rw [earlyS_for]
      simp only [earlyScope, h1, h2, Bool.or_self, Bool.or_false]
      simp [constNoInit, lexDeclsS, hasDup, meets]
theorem earlyItems_apply : (l : List DS) → (path : List (List String)) → (n : Nat) → earlyItems l = false →
    AtL p kw target l path n → earlyItems (applyL p l n).1 = false
  | [], path, n => by intro _ _; simp [applyL, earlyItems]
  | s :: t, path, n => by
    intro h hat
    simp only [earlyItems, Bool.or_eq_false_iff] at h
    have hs := earlyS_apply s path n h.1 (AtL.head p kw target hat)
    have ht := earlyItems_apply t path (applyS p s n).2 h.2 (by rw [applyS_count]; exact AtL.tail p kw target hat)
    simp only [applyL, earlyItems, hs, ht, Bool.or_self]
end

end

/-! ## the plan of `hoistVars` provides the hypotheses -/

/-- every added name comes from a declaration that `isShadowed` let pass -/
theorem planLoop_ok (best : Nat) (target : DeclInfo) :
    ∀ (ds : List DeclInfo) (hs : List Bool) (i : Nat) (orig pre post : List String) (y : String),
      (y ∈ (planLoop best target ds hs i orig pre post).2.1 ∨ y ∈ (planLoop best target ds hs i orig pre post).2.2) →
        y ∈ pre ∨ y ∈ post ∨ ∃ d, d ∈ ds ∧ isShadowed d target = false ∧ y ∈ itemNames d.items := by
  intro ds
  induction ds with
  | nil =>
    intro hs i orig pre post y h
    simp only [planLoop] at h
    rcases h with h | h
    · exact Or.inl h
    · exact Or.inr (Or.inl h)
  | cons d ds ih =>
    intro hs i orig pre post y h
    cases hs with
    | nil =>
      simp only [planLoop] at h
      rcases h with h | h
      · exact Or.inl h
      · exact Or.inr (Or.inl h)
    | cons hh hs =>
      by_cases h1 : (hh && !isShadowed d target) = true
      · have hsh : isShadowed d target = false := by
          simp only [Bool.and_eq_true, Bool.not_eq_true'] at h1
          exact h1.2
        have nn := newNames_spec d.items orig
        by_cases hlt : i < best
        · simp only [planLoop, h1, if_true, hlt] at h
          rcases ih hs (i + 1) _ _ _ y h with h | h | ⟨d', hd, hs', hy⟩
          · rcases List.mem_append.mp h with h | h
            · exact Or.inl h
            · exact Or.inr (Or.inr ⟨d, List.mem_cons_self, hsh, nn.2.1 y h⟩)
          · exact Or.inr (Or.inl h)
          · exact Or.inr (Or.inr ⟨d', List.mem_cons_of_mem _ hd, hs', hy⟩)
        · simp only [planLoop, h1, if_true, hlt, if_false] at h
          rcases ih hs (i + 1) _ _ _ y h with h | h | ⟨d', hd, hs', hy⟩
          · exact Or.inl h
          · rcases List.mem_append.mp h with h | h
            · exact Or.inr (Or.inl h)
            · exact Or.inr (Or.inr ⟨d, List.mem_cons_self, hsh, nn.2.1 y h⟩)
          · exact Or.inr (Or.inr ⟨d', List.mem_cons_of_mem _ hd, hs', hy⟩)
      · have h1' : (hh && !isShadowed d target) = false := by simpa using h1
        simp only [planLoop, h1', Bool.false_eq_true, if_false] at h
        rcases ih hs (i + 1) _ _ _ y h with h | h | ⟨d', hd, hs', hy⟩
        · exact Or.inl h
        · exact Or.inr (Or.inl h)
        · exact Or.inr (Or.inr ⟨d', List.mem_cons_of_mem _ hd, hs', hy⟩)

theorem hoistedNames_zip : ∀ (fl : List Bool) (ds : List DeclInfo) (y : String), y ∈ hoistedNames fl ds →
    ∃ d, (d, true) ∈ ds.zip fl ∧ y ∈ itemNames d.items := by
  intro fl
  induction fl with
  | nil => intro ds y h; cases ds <;> simp [hoistedNames] at h
  | cons f t ih =>
    intro ds y h
    cases ds with
    | nil => cases f <;> simp [hoistedNames] at h
    | cons d ds =>
      cases f with
      | true =>
        simp only [hoistedNames, List.mem_append] at h
        rcases h with h | h
        · exact ⟨d, by simp, h⟩
        · obtain ⟨d', hd, hy⟩ := ih ds y h
          exact ⟨d', by simp [hd], hy⟩
      | false =>
        simp only [hoistedNames] at h
        obtain ⟨d', hd, hy⟩ := ih ds y h
        exact ⟨d', by simp [hd], hy⟩

/-- **`hoistVars` introduces no early error**: if the body has none and no hoisted name is declared with let / const in
    the block whose scope `isShadowed` skips for the head of a `while` loop (`d1BodyG`, never the case for `kw = true`) -/
theorem hoist_early (kw : Bool) (ps : List String) (body : List DS) (h0 : earlyBody ps body = false)
    (hg : d1BodyG kw body = false) : earlyBody ps (hoistBodyG kw body) = false := by
  unfold hoistBodyG
  unfold d1BodyG at hg
  cases hp : plan (collectL kw [] body) with
  | none => exact h0
  | some p =>
    simp only [hp] at hg ⊢
    generalize hds : collectL kw [] body = ds at hp hg
    have hbody := applyL_dyn p body 0
    -- the clashes at the top of the body do not change
    have hv : ∀ x, (varNamesL (applyL p body 0).1).contains x = (varNamesL body).contains x := by
      intro x
      rw [Bool.eq_iff_iff]
      have := hoist_names kw body x
      unfold hoistBodyG at this
      rw [hds, hp] at this
      simpa using this
    simp only [earlyBody, Bool.or_eq_false_iff] at h0 ⊢
    refine ⟨?_, ?_⟩
    · have : bodyClash ps (applyL p body 0).1 = bodyClash ps body := by
        simp only [bodyClash, lexNamesL, hbody.lex, hbody.fns, meets_congr _ _ _ hv]
      rw [this]
      exact h0.1
    · -- the items: the induction
      unfold plan at hp
      split at hp
      · cases hp
      · rename_i hlen
        simp only [Option.some.injEq] at hp
        have hbest : bestIdx (ds.map score) < ds.length := by
          have := bestIdx_lt (ds.map score) (by simp; omega)
          simpa using this
        let target := ds.getD (bestIdx (ds.map score)) default
        let A := p.pre ++ p.post
        have hpb : p.best = bestIdx (ds.map score) := by rw [← hp]
        have hpre : ∀ y, (y ∈ p.pre ∨ y ∈ p.post) → ∃ d, d ∈ ds ∧ isShadowed d target = false ∧ y ∈ itemNames d.items := by
          intro y hy
          have := planLoop_ok (bestIdx (ds.map score)) target ds (flagsFrom (bestIdx (ds.map score)) (ds.map score) 0) 0
            (itemNames target.items) [] [] y (by rw [← hp] at hy; exact hy)
          simpa using this
        have hhoist : ∀ y, (y ∈ p.pre ∨ y ∈ p.post) → y ∈ hoistedNames p.hoist ds := by
          intro y hy
          have spec := planLoop_spec (bestIdx (ds.map score)) target ds
            (flagsFrom (bestIdx (ds.map score)) (ds.map score) 0) 0 (itemNames target.items) [] []
          simp only [List.not_mem_nil, false_or] at spec
          rw [← hp] at hy ⊢
          exact spec.2.2.1 y hy
        have hPath : ∀ sc, sc ∈ target.lexPath → meets sc A = false := by
          intro sc hsc
          rw [meets_false_iff]
          intro z hz hzA
          obtain ⟨d, _, hsh, hy⟩ := hpre z (List.mem_append.mp hzA)
          unfold isShadowed at hsh
          rw [List.any_eq_false] at hsh
          have h1 := hsh z hy
          simp only [Bool.not_eq_true, List.any_eq_false] at h1
          have h2 := h1 sc hsc
          simp [hz] at h2
        have hSkip : meets target.skipped A = false := by
          rw [meets_false_iff]
          intro z hz hzA
          obtain ⟨d, hd, hy⟩ := hoistedNames_zip _ _ z (hhoist z (List.mem_append.mp hzA))
          rw [List.any_eq_false] at hg
          have h1 := hg (d, true) hd
          simp only [Bool.true_and, Bool.not_eq_true, List.any_eq_false] at h1
          have h2 := h1 z hy
          rw [hpb] at h2
          have hz' : z ∈ (ds.getD (bestIdx (ds.map score)) default).skipped := hz
          have h3 : (ds.getD (bestIdx (ds.map score)) default).skipped.contains z = true := by simpa using hz'
          rw [h3] at h2
          cases h2
        have hat : AtL p kw target body [] 0 := by
          intro _
          rw [hds, hpb, Nat.sub_zero]
          simp only [target]
          rw [List.getD_eq_getElem?_getD, List.getElem?_eq_getElem hbest]
          rfl
        exact earlyItems_apply p kw target A (fun y hy => List.mem_append.mpr hy) hPath hSkip body [] 0 h0.2 hat

/-- with the repaired `isShadowed` the guard never fires -/
theorem d1BodyG_true (body : List DS) : d1BodyG true body = false := by
  unfold d1BodyG
  simp only
  cases hp : plan (collectL true [] body) with
  | none => rfl
  | some p =>
    simp only
    rw [List.any_eq_false]
    intro dh _
    have hsk : ∀ info, info ∈ collectL true [] body → info.skipped = [] :=
      fun info hi => collectL_skipped_true body [] info hi
    have : ((collectL true [] body).getD p.best default).skipped = [] := by
      by_cases hb : p.best < (collectL true [] body).length
      · rw [List.getD_eq_getElem?_getD, List.getElem?_eq_getElem hb]
        exact hsk _ (List.getElem_mem hb)
      · rw [List.getD_eq_getElem?_getD, List.getElem?_eq_none (by omega)]
        rfl
    rw [this]
    simp

/-! ## the sort of `minifyVarDecl` -/

theorem declLess_bare (x p : DE) (h : declLess x p = true) : isBare x = true := by
  cases x <;> simp [declLess] at h ⊢
  all_goals simp [isBare]

theorem evalItems_snoc_bare (H : Host) (K : Val → List Val → M Val) (l : List DE) (x : DE) (env : Env)
    (hx : isBare x = true) : evalItems H K (l ++ [x]) env = evalItems H K l env := by
  rw [evalItems_append, evalItems_bares H K [x] env (by simp [hx])]
  exact bind_retM _

theorem insertRev_eval (H : Host) (K : Val → List Val → M Val) (x : DE) (env : Env) : ∀ (acc : List DE),
    evalItems H K (insertRev x acc).reverse env = evalItems H K (acc.reverse ++ [x]) env := by
  intro acc
  induction acc with
  | nil => simp [insertRev]
  | cons p t ih =>
    simp only [insertRev]
    split
    · rename_i hl
      have hb := declLess_bare x p hl
      rw [List.reverse_cons, evalItems_append, ih, evalItems_snoc_bare H K _ x env hb,
        evalItems_snoc_bare H K _ x env hb, List.reverse_cons, evalItems_append]
    · simp [List.reverse_cons]

theorem insertRev_names (x : DE) (y : String) : ∀ (acc : List DE),
    y ∈ itemNames (insertRev x acc) ↔ (itemName x = some y ∨ y ∈ itemNames acc) := by
  intro acc
  induction acc with
  | nil => simp [insertRev, mem_itemNames_cons]
  | cons p t ih =>
    simp only [insertRev]
    split
    · simp only [mem_itemNames_cons, ih]
      grind
    · simp only [mem_itemNames_cons]

theorem sortFold_eval (H : Host) (K : Val → List Val → M Val) (env : Env) : ∀ (l acc : List DE),
    evalItems H K (l.foldl (fun acc x => insertRev x acc) acc).reverse env = evalItems H K (acc.reverse ++ l) env := by
  intro l
  induction l with
  | nil => intro acc; simp
  | cons x t ih =>
    intro acc
    rw [List.foldl_cons, ih, evalItems_append, insertRev_eval, ← evalItems_append]
    simp

theorem sortFold_names (y : String) : ∀ (l acc : List DE),
    y ∈ itemNames (l.foldl (fun acc x => insertRev x acc) acc) ↔ (y ∈ itemNames acc ∨ y ∈ itemNames l) := by
  intro l
  induction l with
  | nil => intro acc; simp [itemNames]
  | cons x t ih =>
    intro acc
    rw [List.foldl_cons, ih, insertRev_names, mem_itemNames_cons]
    grind

/-- the declaration list as `minifyVarDecl` sorts it evaluates like the unsorted one -/
theorem sortDecl_eval (H : Host) (K : Val → List Val → M Val) (l : List DE) (env : Env) :
    evalItems H K (sortDecl l) env = evalItems H K l env := by
  unfold sortDecl
  rw [sortFold_eval]
  simp

theorem sortDecl_names (l : List DE) (y : String) : y ∈ itemNames (sortDecl l) ↔ y ∈ itemNames l := by
  unfold sortDecl
  rw [itemNames_reverse, List.mem_reverse, sortFold_names]
  simp [itemNames]

/-- **sorting the items of a `var` declaration** (`minifyVarDecl`): same execution, same names -/
theorem sortDecl_eq (l : List DE) (rest : List DS) :
    ListEqA [] (.decl .var l :: rest) (.decl .var (sortDecl l) :: rest) where
  dyn := by
    intro H K env
    rw [execL_unit H K (.decl .var l) rest env _ (exec_declVar H K l env),
      execL_unit H K (.decl .var (sortDecl l)) rest env _ (exec_declVar H K _ env), sortDecl_eval]
  lex := by simp [lexDeclsL]
  vars := by
    intro y
    rw [varNamesL_declVar, varNamesL_declVar]
    apply contains_eq_of_iff
    simp only [List.mem_append, sortDecl_names, List.not_mem_nil, or_false]
  fns := by simp [fnDeclsL]
  early := by simp [earlyItems, earlyS, constNoInit]
  frag := by simp [fragL, fragS]
  anyFn := by simp [isFn]

/-! ## comma lists as statements -/

theorem eval_comma (H : Host) (K : Val → List Val → M Val) (l : List DE) (env : Env) :
    eval H K (.comma l) env = bindM (evalL H K l env) (fun vs => retM (vs.getLast?.getD .undef)) := rfl

theorem evalL_cons (H : Host) (K : Val → List Val → M Val) (a : DE) (t : List DE) (env : Env) :
    evalL H K (a :: t) env = bindM (eval H K a env) (fun v => bindM (evalL H K t env) (fun vs => retM (v :: vs))) := rfl

/-- **`a,b,…;` and `a;b,…;`**: an expression statement with a comma list runs its first item and then the rest -/
theorem commaSplit_eq (a b : DE) (t : List DE) (rest : List DS) :
    ListEqA [] (.expr (.comma (a :: b :: t)) :: rest) (.expr a :: .expr (.comma (b :: t)) :: rest) where
  dyn := by
    intro H K env
    simp only [execL_unit H K (.expr (.comma (a :: b :: t))) rest env _ (exec_expr H K _ env),
      execL_unit H K (.expr a) _ env _ (exec_expr H K a env),
      execL_unit H K (.expr (.comma (b :: t))) rest env _ (exec_expr H K _ env),
      eval_comma, evalL_cons H K a (b :: t), bindM_assoc, retM_bind]
  lex := by simp [lexDeclsL]
  vars := by intro x; simp [varNamesL, varNamesS]
  fns := by simp [fnDeclsL]
  early := by simp [earlyItems, earlyS, constNoInit]
  frag := by simp [fragL, fragS]
  anyFn := by simp [isFn]

end Verif.Proofs.JsDecl

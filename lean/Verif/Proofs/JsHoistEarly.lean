import Verif.Proofs.JsHoistSound
/-!
# C01D — `hoistVars` does not introduce an early error (`isShadowed` is sufficient)

`hoist_early`: if the body has no early error and the guard of K-C01D-1 does not fire (always the case when
`isShadowed` knows about `while` loops), the hoisted body has none: the names that the best declaration receives are not
declared with let / const by any block around it.
-/
namespace Verif.Proofs.JsDecl
open Verif.Spec.JsDeclSem Verif.Model.JsHoist

/-! ## list facts -/

theorem sub_at {α : Type} (pre mid post : List α) (k : Nat) (h1 : pre.length ≤ k) (h2 : k < pre.length + mid.length) :
    (pre ++ mid ++ post)[k]? = mid[k - pre.length]? := by
  rw [List.append_assoc, List.getElem?_append_right h1, List.getElem?_append_left (by omega)]

theorem meets_false_iff (a b : List String) : meets a b = false ↔ ∀ z, z ∈ a → z ∉ b := by
  unfold meets
  rw [List.any_eq_false]
  constructor
  · intro h z hz hb
    have := h z hz
    simp [hb] at this
  · intro h z hz
    have := h z hz
    simpa using this

theorem meets_append_left (a b c : List String) : meets (a ++ b) c = false → meets a c = false ∧ meets b c = false := by
  simp only [meets_false_iff]
  intro h
  exact ⟨fun z hz => h z (List.mem_append_left _ hz), fun z hz => h z (List.mem_append_right _ hz)⟩

theorem meets_cons_left (x : String) (b c : List String) : meets (x :: b) c = false → meets b c = false := by
  simp only [meets_false_iff]
  intro h z hz
  exact h z (List.mem_cons_of_mem _ hz)

/-- `b'` has the names of `b` and possibly those of `A`: no new clash when `a` avoids `A` -/
theorem meets_grow (a b b' A : List String) (hb : meets a b = false) (hA : meets a A = false)
    (hsub : ∀ y, y ∈ b' → y ∈ b ∨ y ∈ A) : meets a b' = false := by
  rw [meets_false_iff] at hb hA ⊢
  intro z hz hz'
  rcases hsub z hz' with h | h
  · exact hb z hz h
  · exact hA z hz h

theorem meets_shrink (a b b' : List String) (hb : meets a b = false) (hsub : ∀ y, y ∈ b' → y ∈ b) :
    meets a b' = false := by
  rw [meets_false_iff] at hb ⊢
  intro z hz hz'
  exact hb z hz (hsub z hz')

/-! ## where the declarations of a subtree sit on the path -/

/-- the scope list `path` is still visible from `info`: either `path` is a suffix of its `lexPath`, or `info` is the
    head of a `while` directly in the scope `path.head` (which `isShadowed` skipped and `skipped` remembers) -/
def Sees (path : List (List String)) (info : DeclInfo) : Prop :=
  path <:+ info.lexPath ∨ ∃ sc rest, path = sc :: rest ∧ info.lexPath = rest ∧ info.skipped = sc

theorem Sees.tail {sc : List String} {path : List (List String)} {info : DeclInfo} (h : Sees (sc :: path) info) :
    Sees path info := by
  rcases h with h | ⟨sc', rest, hp, hl, _⟩
  · exact Or.inl (List.IsSuffix.trans (List.suffix_cons sc path) h)
  · cases hp
    exact Or.inl (by rw [hl]; exact List.suffix_refl _)

mutual
theorem collectS_sees (kw : Bool) : (s : DS) → (path : List (List String)) → ∀ info, info ∈ collectS kw path s →
    Sees path info
  | .decl .var items, path => by
    intro info h
    simp only [collectS, List.mem_singleton] at h
    subst h
    exact Or.inl (List.suffix_refl _)
  | .decl .let_ items, path => by intro info h; simp [collectS] at h
  | .decl .const_ items, path => by intro info h; simp [collectS] at h
  | .decl .hoisted items, path => by intro info h; simp [collectS] at h
  | .expr e, path => by intro info h; simp [collectS] at h
  | .ret e, path => by intro info h; simp [collectS] at h
  | .throw e, path => by intro info h; simp [collectS] at h
  | .fn name a ps body, path => by intro info h; simp [collectS] at h
  | .empty, path => by intro info h; simp [collectS] at h
  | .absent, path => by intro info h; simp [collectS] at h
  | .ifS c t e, path => by
    intro info h
    simp only [collectS, List.mem_append] at h
    rcases h with h | h
    · exact collectS_sees kw t path info h
    · exact collectS_sees kw e path info h
  | .block l, path => by
    intro info h
    simp only [collectS] at h
    exact (collectL_sees kw l _ info h).tail
  | .tryS b x a cb, path => by
    intro info h
    simp only [collectS, List.mem_append] at h
    rcases h with h | h
    · exact (collectL_sees kw b _ info h).tail
    · exact (collectL_sees kw cb _ info h).tail
  | .forS w i c po b, path => by
    intro info h
    cases i with
    | decl k items =>
      cases k with
      | var =>
        simp only [collectS, List.mem_cons] at h
        rcases h with h | h
        · subst h
          exact Or.inl (List.suffix_refl _)
        · exact (collectL_sees kw b _ info h).tail
      | _ =>
        simp only [collectS] at h
        exact (collectL_sees kw b _ info h).tail
    | empty =>
      simp only [collectS, List.mem_append, List.mem_singleton] at h
      rcases h with h | h
      · exact (collectL_sees kw b _ info h).tail
      · subst h
        by_cases hw : (w && !kw) = true
        · simp only [hw, if_true]
          cases path with
          | nil => exact Or.inl (by simp)
          | cons sc rest => exact Or.inr ⟨sc, rest, rfl, by simp, by simp⟩
        · simp only [hw, Bool.false_eq_true, if_false]
          exact Or.inl (List.suffix_refl _)
    | _ =>
      simp only [collectS] at h
      exact (collectL_sees kw b _ info h).tail
theorem collectL_sees (kw : Bool) : (l : List DS) → (path : List (List String)) → ∀ info, info ∈ collectL kw path l →
    Sees path info
  | [], path => by intro info h; simp [collectL] at h
  | s :: t, path => by
    intro info h
    simp only [collectL, List.mem_append] at h
    rcases h with h | h
    · exact collectS_sees kw s path info h
    · exact collectL_sees kw t path info h
end

/-! ## the names after hoisting are the old ones, plus the added ones where the best declaration is -/

/-- the best declaration is one of the `len` declarations that start at index `n` -/
def Hit (p : Plan) (n len : Nat) : Prop := n ≤ p.best ∧ p.best < n + len

theorem namesFrom_bound (p : Plan) : ∀ (dss : List (List DE)) (n : Nat) (y : String), y ∈ namesFrom p n dss →
    y ∈ dss.flatMap itemNames ∨ (Hit p n dss.length ∧ (y ∈ p.pre ∨ y ∈ p.post)) := by
  intro dss
  induction dss with
  | nil => intro n y h; simp [namesFrom] at h
  | cons items t ih =>
    intro n y h
    simp only [namesFrom, List.mem_append] at h
    simp only [List.flatMap_cons, List.mem_append, List.length_cons]
    rcases h with h | h
    · unfold actNames at h
      split at h
      · rename_i hb
        have hb' : n = p.best := by simpa using hb
        simp only [List.mem_append] at h
        rcases h with (h | h) | h
        · exact Or.inr ⟨⟨by omega, by omega⟩, Or.inl h⟩
        · exact Or.inl (Or.inl h)
        · exact Or.inr ⟨⟨by omega, by omega⟩, Or.inr h⟩
      · split at h
        · cases h
        · exact Or.inl (Or.inl h)
    · rcases ih (n + 1) y h with h | ⟨⟨h1, h2⟩, h3⟩
      · exact Or.inl (Or.inr h)
      · exact Or.inr ⟨⟨by omega, by omega⟩, h3⟩

theorem applyL_names_bound (p : Plan) (l : List DS) (n : Nat) (y : String) (h : y ∈ varNamesL (applyL p l n).1) :
    y ∈ varNamesL l ∨ (Hit p n (declsL l).length ∧ (y ∈ p.pre ∨ y ∈ p.post)) := by
  rw [applyL_names] at h
  rcases namesFrom_bound p _ n y h with h | h
  · exact Or.inl ((varNamesL_decls l y).mpr h)
  · exact Or.inr h

theorem collectS_len (kw : Bool) (s : DS) (path : List (List String)) : (collectS kw path s).length = (declsS s).length := by
  have := congrArg List.length (collectS_items kw s path)
  simpa using this

theorem collectL_len (kw : Bool) (l : List DS) (path : List (List String)) : (collectL kw path l).length = (declsL l).length := by
  have := congrArg List.length (collectL_items kw l path)
  simpa using this

/-! ## the induction -/

section
variable (p : Plan) (kw : Bool) (target : DeclInfo)

/-- if the best declaration is inside the statement, the statement's list of declarations has `target` there -/
def AtS (s : DS) (path : List (List String)) (n : Nat) : Prop :=
  Hit p n (declsS s).length → (collectS kw path s)[p.best - n]? = some target

def AtL (l : List DS) (path : List (List String)) (n : Nat) : Prop :=
  Hit p n (declsL l).length → (collectL kw path l)[p.best - n]? = some target

theorem AtL.head {s : DS} {t : List DS} {path : List (List String)} {n : Nat} (h : AtL p kw target (s :: t) path n) :
    AtS p kw target s path n := by
  intro hit
  have hit' : Hit p n (declsL (s :: t)).length := by
    simp only [declsL, List.length_append]
    exact ⟨hit.1, by have := hit.2; omega⟩
  have := h hit'
  simp only [collectL] at this
  have e := sub_at [] (collectS kw path s) (collectL kw path t) (p.best - n) (by simp)
    (by simp [collectS_len]; have := hit.1; have := hit.2; omega)
  simp only [List.nil_append, List.length_nil, Nat.sub_zero] at e
  rw [e] at this
  exact this

theorem AtL.tail {s : DS} {t : List DS} {path : List (List String)} {n : Nat} (h : AtL p kw target (s :: t) path n) :
    AtL p kw target t path (n + (declsS s).length) := by
  intro hit
  have hit' : Hit p n (declsL (s :: t)).length := by
    simp only [declsL, List.length_append]
    exact ⟨by have := hit.1; omega, by have := hit.2; omega⟩
  have := h hit'
  simp only [collectL] at this
  have e := sub_at (collectS kw path s) (collectL kw path t) [] (p.best - n)
    (by simp [collectS_len]; have := hit.1; omega)
    (by simp [collectS_len, collectL_len]; have := hit.1; have := hit.2; omega)
  simp only [List.append_nil] at e
  rw [e, collectS_len] at this
  have h2 : p.best - n - (declsS s).length = p.best - (n + (declsS s).length) := by omega
  rw [h2] at this
  exact this

theorem AtS.ifT {c : DE} {t e : DS} {path : List (List String)} {n : Nat} (h : AtS p kw target (.ifS c t e) path n) :
    AtS p kw target t path n := by
  intro hit
  have hit' : Hit p n (declsS (.ifS c t e)).length := by
    simp only [declsS, List.length_append]
    exact ⟨hit.1, by have := hit.2; omega⟩
  have := h hit'
  simp only [collectS] at this
  have e1 := sub_at [] (collectS kw path t) (collectS kw path e) (p.best - n) (by simp)
    (by simp [collectS_len]; have := hit.1; have := hit.2; omega)
  simp only [List.nil_append, List.length_nil, Nat.sub_zero] at e1
  rw [e1] at this
  exact this

theorem AtS.ifE {c : DE} {t e : DS} {path : List (List String)} {n : Nat} (h : AtS p kw target (.ifS c t e) path n) :
    AtS p kw target e path (n + (declsS t).length) := by
  intro hit
  have hit' : Hit p n (declsS (.ifS c t e)).length := by
    simp only [declsS, List.length_append]
    exact ⟨by have := hit.1; omega, by have := hit.2; omega⟩
  have := h hit'
  simp only [collectS] at this
  have e1 := sub_at (collectS kw path t) (collectS kw path e) [] (p.best - n)
    (by simp [collectS_len]; have := hit.1; omega)
    (by simp [collectS_len]; have := hit.1; have := hit.2; omega)
  simp only [List.append_nil] at e1
  rw [e1, collectS_len] at this
  have h2 : p.best - n - (declsS t).length = p.best - (n + (declsS t).length) := by omega
  rw [h2] at this
  exact this

theorem AtS.block {l : List DS} {path : List (List String)} {n : Nat} (h : AtS p kw target (.block l) path n) :
    AtL p kw target l (lexNamesL l :: path) n := by
  intro hit
  have := h (by simpa [declsS] using hit)
  simpa [collectS] using this

theorem AtS.tryB {b cb : List DS} {x : String} {a : Ann} {path : List (List String)} {n : Nat}
    (h : AtS p kw target (.tryS b x a cb) path n) : AtL p kw target b (lexNamesL b :: path) n := by
  intro hit
  have hit' : Hit p n (declsS (.tryS b x a cb)).length := by
    simp only [declsS, List.length_append]
    exact ⟨hit.1, by have := hit.2; omega⟩
  have := h hit'
  simp only [collectS] at this
  have e1 := sub_at [] (collectL kw (lexNamesL b :: path) b) (collectL kw ((x :: lexNamesL cb) :: path) cb) (p.best - n)
    (by simp) (by simp [collectL_len]; have := hit.1; have := hit.2; omega)
  simp only [List.nil_append, List.length_nil, Nat.sub_zero] at e1
  rw [e1] at this
  exact this

theorem AtS.tryC {b cb : List DS} {x : String} {a : Ann} {path : List (List String)} {n : Nat}
    (h : AtS p kw target (.tryS b x a cb) path n) :
    AtL p kw target cb ((x :: lexNamesL cb) :: path) (n + (declsL b).length) := by
  intro hit
  have hit' : Hit p n (declsS (.tryS b x a cb)).length := by
    simp only [declsS, List.length_append]
    exact ⟨by have := hit.1; omega, by have := hit.2; omega⟩
  have := h hit'
  simp only [collectS] at this
  have e1 := sub_at (collectL kw (lexNamesL b :: path) b) (collectL kw ((x :: lexNamesL cb) :: path) cb) [] (p.best - n)
    (by simp [collectL_len]; have := hit.1; omega)
    (by simp [collectL_len]; have := hit.1; have := hit.2; omega)
  simp only [List.append_nil] at e1
  rw [e1, collectL_len] at this
  have h2 : p.best - n - (declsL b).length = p.best - (n + (declsL b).length) := by omega
  rw [h2] at this
  exact this

theorem AtS.forVar {w : Bool} {items : List DE} {c po : Option DE} {b : List DS} {path : List (List String)} {n : Nat}
    (h : AtS p kw target (.forS w (.decl .var items) c po b) path n) :
    AtL p kw target b (lexNamesL b :: path) (n + 1) := by
  intro hit
  have hit' : Hit p n (declsS (.forS w (.decl .var items) c po b)).length := by
    simp only [declsS, List.length_cons]
    exact ⟨by have := hit.1; omega, by have := hit.2; omega⟩
  have := h hit'
  simp only [collectS] at this
  have hk : p.best - n = (p.best - (n + 1)) + 1 := by have := hit.1; omega
  rw [hk, List.getElem?_cons_succ] at this
  exact this

theorem AtS.forEmpty {w : Bool} {c po : Option DE} {b : List DS} {path : List (List String)} {n : Nat}
    (h : AtS p kw target (.forS w .empty c po b) path n) : AtL p kw target b (lexNamesL b :: path) n := by
  intro hit
  have hit' : Hit p n (declsS (.forS w .empty c po b)).length := by
    simp only [declsS, List.length_append]
    exact ⟨hit.1, by have := hit.2; omega⟩
  have := h hit'
  simp only [collectS] at this
  rw [List.getElem?_append_left (by simp [collectL_len]; have := hit.1; have := hit.2; omega)] at this
  exact this

end

end Verif.Proofs.JsDecl

import Verif.Model.Rename
import Mathlib.Data.List.Nodup
import Mathlib.Data.List.Perm.Subperm
/-!
# C02 — helper lemmas about the renamer model (`getName`, `nextFree`, `assignIdx`, `assign`)
-/
namespace Verif.Proofs.Rename
open Verif.Spec.Scope Verif.Model.Rename

/-! ## getName -/

/-- number of names shorter than `k + 1` characters -/
def off (S C : Nat) : Nat → Nat
  | 0 => 0
  | k + 1 => off S C k + S * C ^ k

theorem contDigits_length (cont : List Char) (k x : Nat) : (contDigits cont k x).length = k := by
  induction k generalizing x with
  | zero => rfl
  | succ k ih => simp [contDigits, ih]

theorem encode_length (start cont : List Char) (k r : Nat) : (encode start cont k r).length = k + 1 := by
  simp [encode, contDigits_length]

theorem getNameAux_spec (start cont : List Char) (hS : 0 < start.length) (hC : 0 < cont.length) :
    ∀ fuel k index, index < fuel →
      ∃ k' r, r < start.length * cont.length ^ k' ∧
        index + off start.length cont.length k = off start.length cont.length k' + r ∧
        getNameAux start cont fuel k index = encode start cont k' r := by
  intro fuel
  induction fuel with
  | zero => intro k index h; omega
  | succ fuel ih =>
    intro k index h
    unfold getNameAux
    by_cases hlt : index < start.length * cont.length ^ k
    · rw [if_pos hlt]; exact ⟨k, index, hlt, by omega, rfl⟩
    · rw [if_neg hlt]
      have hpos : 0 < start.length * cont.length ^ k := Nat.mul_pos hS (Nat.pow_pos hC)
      obtain ⟨k', r, h1, h2, h3⟩ := ih (k + 1) (index - start.length * cont.length ^ k) (by omega)
      refine ⟨k', r, h1, ?_, h3⟩
      simp only [off] at h2
      omega

theorem getName_spec (start cont : List Char) (hS : 0 < start.length) (hC : 0 < cont.length) (index : Nat) :
    ∃ k r, r < start.length * cont.length ^ k ∧ index = off start.length cont.length k + r ∧
      getName start cont index = encode start cont k r := by
  obtain ⟨k, r, h1, h2, h3⟩ := getNameAux_spec start cont hS hC (index + 1) 0 index (by omega)
  exact ⟨k, r, h1, by simpa [off] using h2, h3⟩

theorem contDigits_inj (cont : List Char) (hn : cont.Nodup) (hC : 0 < cont.length) :
    ∀ k x y, x < cont.length ^ k → y < cont.length ^ k →
      contDigits cont k x = contDigits cont k y → x = y := by
  intro k
  induction k with
  | zero => intro x y hx hy _; simp at hx hy; omega
  | succ k ih =>
    intro x y hx hy h
    simp only [contDigits, List.cons.injEq] at h
    have hm : x % cont.length = y % cont.length :=
      (List.getD_inj (Nat.mod_lt _ hC) (Nat.mod_lt _ hC) hn).1 h.1
    have hx' : x / cont.length < cont.length ^ k := by
      rw [Nat.div_lt_iff_lt_mul hC]; simpa [Nat.pow_succ] using hx
    have hy' : y / cont.length < cont.length ^ k := by
      rw [Nat.div_lt_iff_lt_mul hC]; simpa [Nat.pow_succ] using hy
    have hd := ih _ _ hx' hy' h.2
    have e1 := Nat.div_add_mod x cont.length
    have e2 := Nat.div_add_mod y cont.length
    rw [hd, hm] at e1
    omega

theorem encode_inj (start cont : List Char) (hs : start.Nodup) (hc : cont.Nodup)
    (hS : 0 < start.length) (hC : 0 < cont.length) (k x y : Nat)
    (hx : x < start.length * cont.length ^ k) (hy : y < start.length * cont.length ^ k)
    (h : encode start cont k x = encode start cont k y) : x = y := by
  simp only [encode, List.cons.injEq] at h
  have hm : x % start.length = y % start.length :=
    (List.getD_inj (Nat.mod_lt _ hS) (Nat.mod_lt _ hS) hs).1 h.1
  have hx' : x / start.length < cont.length ^ k := by
    rw [Nat.div_lt_iff_lt_mul hS]; rw [Nat.mul_comm]; exact hx
  have hy' : y / start.length < cont.length ^ k := by
    rw [Nat.div_lt_iff_lt_mul hS]; rw [Nat.mul_comm]; exact hy
  have hd := contDigits_inj cont hc hC k _ _ hx' hy' h.2
  have e1 := Nat.div_add_mod x start.length
  have e2 := Nat.div_add_mod y start.length
  rw [hd, hm] at e1
  omega

/-- alphabets usable by the renamer -/
structure CfgOk (c : Cfg) : Prop where
  startNodup : c.start.Nodup
  contNodup : c.cont.Nodup
  startPos : 0 < c.start.length
  contPos : 0 < c.cont.length

theorem getName_inj (c : Cfg) (ok : CfgOk c) (i j : Nat)
    (h : getName c.start c.cont i = getName c.start c.cont j) : i = j := by
  obtain ⟨k1, r1, a1, b1, c1⟩ := getName_spec c.start c.cont ok.startPos ok.contPos i
  obtain ⟨k2, r2, a2, b2, c2⟩ := getName_spec c.start c.cont ok.startPos ok.contPos j
  rw [c1, c2] at h
  have hl := congrArg List.length h
  rw [encode_length, encode_length] at hl
  have hk : k1 = k2 := by omega
  subst hk
  have := encode_inj c.start c.cont ok.startNodup ok.contNodup ok.startPos ok.contPos k1 r1 r2 a1 a2 h
  omega

theorem getName_injective (c : Cfg) (ok : CfgOk c) : Function.Injective (getName c.start c.cont) :=
  fun i j h => getName_inj c ok i j h

theorem getD_mem (l : List Char) (i : Nat) (h : i < l.length) (d : Char) : l.getD i d ∈ l := by
  rw [List.getD_eq_getElem?_getD, List.getElem?_eq_getElem h]; simp

theorem contDigits_mem (cont : List Char) (hC : 0 < cont.length) (k x : Nat) :
    ∀ ch ∈ contDigits cont k x, ch ∈ cont := by
  induction k generalizing x with
  | zero => intro ch h; simp [contDigits] at h
  | succ k ih =>
    intro ch h
    simp only [contDigits, List.mem_cons] at h
    rcases h with h | h
    · rw [h]; exact getD_mem _ _ (Nat.mod_lt _ hC) _
    · exact ih _ ch h

/-- shape of a generated name: one start character followed by continue characters -/
theorem getName_shape (c : Cfg) (ok : CfgOk c) (i : Nat) :
    ∃ h t, getName c.start c.cont i = h :: t ∧ h ∈ c.start ∧ ∀ ch ∈ t, ch ∈ c.cont := by
  obtain ⟨k, r, _, _, e⟩ := getName_spec c.start c.cont ok.startPos ok.contPos i
  refine ⟨_, _, e, ?_, contDigits_mem c.cont ok.contPos k _⟩
  exact getD_mem _ _ (Nat.mod_lt _ ok.startPos) _

/-! ## nextFree / assignIdx -/

theorem isReserved_mem {kw und : List Name} {n : Name} (h : isReserved kw und n = true) :
    n ∈ kw ++ und := by
  simp only [isReserved, Bool.or_eq_true, Bool.and_eq_true, List.contains_iff_mem] at h
  rcases h with h | h
  · exact List.mem_append_left _ h.2
  · exact List.mem_append_right _ h

theorem nextFree_spec (c : Cfg) (und : List Name) :
    ∀ fuel i, ∃ m, nextFree c und fuel i = i + m ∧ m ≤ fuel ∧
      (∀ m', m' < m → isReserved c.keywords und (getName c.start c.cont (i + m')) = true) ∧
      (m < fuel → isReserved c.keywords und (getName c.start c.cont (i + m)) = false) := by
  intro fuel
  induction fuel with
  | zero => intro i; exact ⟨0, rfl, Nat.le_refl _, by intro m' h; omega, by intro h; omega⟩
  | succ fuel ih =>
    intro i
    unfold nextFree
    by_cases hr : isReserved c.keywords und (getName c.start c.cont i) = true
    · rw [if_pos hr]
      obtain ⟨m, e, hle, hall, hnot⟩ := ih (i + 1)
      refine ⟨m + 1, by omega, by omega, ?_, ?_⟩
      · intro m' hm'
        cases m' with
        | zero => simpa using hr
        | succ m' =>
          have := hall m' (by omega)
          rwa [show i + 1 + m' = i + (m' + 1) by omega] at this
      · intro hm
        have := hnot (by omega)
        rwa [show i + 1 + m = i + (m + 1) by omega] at this
    · rw [if_neg hr]
      exact ⟨0, rfl, by omega, by intro m' h; omega, by intro _; simpa using hr⟩

/-- pigeonhole: `fuel` consecutive reserved names need `fuel ≤ |keywords| + |undeclared|` -/
theorem reserved_run_le (c : Cfg) (ok : CfgOk c) (und : List Name) (i fuel : Nat)
    (h : ∀ m', m' < fuel → isReserved c.keywords und (getName c.start c.cont (i + m')) = true) :
    fuel ≤ c.keywords.length + und.length := by
  let L := (List.range fuel).map (fun m => getName c.start c.cont (i + m))
  have hnd : L.Nodup := by
    apply List.Nodup.map _ List.nodup_range
    intro a b hab
    have := getName_inj c ok _ _ hab
    omega
  have hsub : L ⊆ c.keywords ++ und := by
    intro n hn
    simp only [L, List.mem_map, List.mem_range] at hn
    obtain ⟨m, hm, rfl⟩ := hn
    exact isReserved_mem (h m hm)
  have := (List.subperm_of_subset hnd hsub).length_le
  simpa [L] using this

theorem nextFree_not_reserved (c : Cfg) (ok : CfgOk c) (und : List Name) (i : Nat) :
    isReserved c.keywords und
      (getName c.start c.cont (nextFree c und (c.keywords.length + und.length + 1) i)) = false := by
  obtain ⟨m, e, hle, hall, hnot⟩ := nextFree_spec c und (c.keywords.length + und.length + 1) i
  rw [e]
  by_cases hm : m < c.keywords.length + und.length + 1
  · exact hnot hm
  · have hmeq : m = c.keywords.length + und.length + 1 := by omega
    have := reserved_run_le c ok und i m hall
    omega

theorem nextFree_ge (c : Cfg) (und : List Name) (fuel i : Nat) : i ≤ nextFree c und fuel i := by
  obtain ⟨m, e, _⟩ := nextFree_spec c und fuel i
  omega

theorem assignIdx_length (c : Cfg) (und : List Name) (n i : Nat) : (assignIdx c und n i).length = n := by
  induction n generalizing i with
  | zero => rfl
  | succ n ih => simp [assignIdx, ih]

theorem assignIdx_ge (c : Cfg) (und : List Name) (n i : Nat) : ∀ j ∈ assignIdx c und n i, i ≤ j := by
  induction n generalizing i with
  | zero => intro j h; simp [assignIdx] at h
  | succ n ih =>
    intro j h
    simp only [assignIdx, List.mem_cons] at h
    have hge := nextFree_ge c und (c.keywords.length + und.length + 1) i
    rcases h with h | h
    · omega
    · have := ih _ j h; omega

theorem assignIdx_sorted (c : Cfg) (und : List Name) (n i : Nat) :
    (assignIdx c und n i).Pairwise (· < ·) := by
  induction n generalizing i with
  | zero => simp [assignIdx]
  | succ n ih =>
    simp only [assignIdx, List.pairwise_cons]
    refine ⟨?_, ih _⟩
    intro j hj
    have := assignIdx_ge c und n _ j hj
    omega

theorem assignIdx_free (c : Cfg) (ok : CfgOk c) (und : List Name) (n i : Nat) :
    ∀ j ∈ assignIdx c und n i, isReserved c.keywords und (getName c.start c.cont j) = false := by
  induction n generalizing i with
  | zero => intro j h; simp [assignIdx] at h
  | succ n ih =>
    intro j h
    simp only [assignIdx, List.mem_cons] at h
    rcases h with h | h
    · rw [h]; exact nextFree_not_reserved c ok und i
    · exact ih _ j h

theorem newNames_length (c : Cfg) (und : List Name) (n : Nat) : (newNames c und n).length = n := by
  simp [newNames, assignIdx_length]

theorem newNames_nodup (c : Cfg) (ok : CfgOk c) (und : List Name) (n : Nat) : (newNames c und n).Nodup := by
  apply List.Nodup.map (getName_injective c ok)
  exact (assignIdx_sorted c und n 0).imp (fun h => Nat.ne_of_lt h)

theorem newNames_free (c : Cfg) (ok : CfgOk c) (und : List Name) (n : Nat) :
    ∀ x ∈ newNames c und n, isReserved c.keywords und x = false := by
  intro x hx
  simp only [newNames, List.mem_map] at hx
  obtain ⟨j, hj, rfl⟩ := hx
  exact assignIdx_free c ok und n 0 j hj

theorem not_reserved_iff {kw und : List Name} {x : Name} (h : isReserved kw und x = false) :
    x ∉ und ∧ (1 < x.length → x ∉ kw) := by
  simp only [isReserved, Bool.or_eq_false_iff, Bool.and_eq_false_iff, decide_eq_false_iff_not] at h
  refine ⟨by simpa using h.2, ?_⟩
  intro hl
  rcases h.1 with h1 | h1
  · exact absurd hl h1
  · simpa using h1

/-! ## assign -/

theorem lookup_zip_none {ks : List VarId} {ns : List Name} {x : VarId} (h : x ∉ ks) :
    (ks.zip ns).lookup x = none := by
  induction ks generalizing ns with
  | nil => simp
  | cons k ks ih =>
    cases ns with
    | nil => simp
    | cons n ns =>
      simp only [List.mem_cons, not_or] at h
      simp only [List.zip_cons_cons, List.lookup_cons]
      have : (x == k) = false := by simpa using h.1
      rw [this]
      exact ih h.2

theorem lookup_zip_some {ks : List VarId} {ns : List Name} {x : VarId} (hl : ns.length = ks.length)
    (h : x ∈ ks) : ∃ n, (ks.zip ns).lookup x = some n ∧ n ∈ ns := by
  induction ks generalizing ns with
  | nil => simp at h
  | cons k ks ih =>
    cases ns with
    | nil => simp at hl
    | cons n ns =>
      simp only [List.zip_cons_cons, List.lookup_cons]
      by_cases hx : x = k
      · subst hx; simp
      · have : (x == k) = false := by simpa using hx
        rw [this]
        simp only [List.mem_cons] at h
        obtain ⟨n', h1, h2⟩ := ih (ns := ns) (by simpa using hl) (by tauto)
        exact ⟨n', h1, List.mem_cons_of_mem _ h2⟩

theorem lookup_zip_mem {ks : List VarId} {ns : List Name} {x : VarId} {n : Name}
    (h : (ks.zip ns).lookup x = some n) : n ∈ ns ∧ x ∈ ks := by
  induction ks generalizing ns with
  | nil => simp at h
  | cons k ks ih =>
    cases ns with
    | nil => simp at h
    | cons m ns =>
      simp only [List.zip_cons_cons, List.lookup_cons] at h
      by_cases hx : x = k
      · subst hx; simp at h; subst h; simp
      · have : (x == k) = false := by simpa using hx
        rw [this] at h
        have := ih h
        exact ⟨List.mem_cons_of_mem _ this.1, List.mem_cons_of_mem _ this.2⟩

theorem lookup_zip_inj {ks : List VarId} {ns : List Name} {x y : VarId} {n : Name} (hn : ns.Nodup)
    (hx : (ks.zip ns).lookup x = some n) (hy : (ks.zip ns).lookup y = some n) : x = y := by
  induction ks generalizing ns with
  | nil => simp at hx
  | cons k ks ih =>
    cases ns with
    | nil => simp at hx
    | cons m ns =>
      simp only [List.zip_cons_cons, List.lookup_cons] at hx hy
      rw [List.nodup_cons] at hn
      by_cases hxk : x = k <;> by_cases hyk : y = k
      · rw [hxk, hyk]
      · have e1 : (x == k) = true := by simpa using hxk
        have e2 : (y == k) = false := by simpa using hyk
        rw [e1] at hx; rw [e2] at hy
        simp at hx; subst hx
        exact absurd (lookup_zip_mem hy).1 hn.1
      · have e1 : (x == k) = false := by simpa using hxk
        have e2 : (y == k) = true := by simpa using hyk
        rw [e1] at hx; rw [e2] at hy
        simp at hy; subst hy
        exact absurd (lookup_zip_mem hx).1 hn.1
      · have e1 : (x == k) = false := by simpa using hxk
        have e2 : (y == k) = false := by simpa using hyk
        rw [e1] at hx; rw [e2] at hy
        exact ih hn.2 hx hy

theorem map_snd_zip_sublist {α β : Type} (a : List α) (b : List β) :
    ((a.zip b).map Prod.snd).Sublist b := by
  induction a generalizing b with
  | nil => simp
  | cons x a ih =>
    cases b with
    | nil => simp
    | cons y b => simpa using ih b

theorem splitColon_key (k rest : List Char) (hk : ':' ∉ k) :
    splitColon (k ++ ':' :: rest) = (k, some rest) := by
  induction k with
  | nil => simp [splitColon]
  | cons a k ih =>
    simp only [List.mem_cons, not_or] at hk
    have ha : (a == ':') = false := by simpa using Ne.symm hk.1
    simp only [List.cons_append, splitColon, ha, Bool.false_eq_true, if_false, ih hk.2]

theorem splitColon_none (k : List Char) (hk : ':' ∉ k) : splitColon k = (k, none) := by
  induction k with
  | nil => simp [splitColon]
  | cons a k ih =>
    simp only [List.mem_cons, not_or] at hk
    have ha : (a == ':') = false := by simpa using Ne.symm hk.1
    simp only [splitColon, ha, Bool.false_eq_true, if_false, ih hk.2]

end Verif.Proofs.Rename

import Verif.Proofs.C09Js
import Verif.Proofs.C09HtmlModelRaw
/-!
# C09 — JavaScript inside an HTML `script` element: the writer produces no markup

The bytes the JS writer model produces for a token stream of the C01 alphabet contain neither `</` (hence no
appropriate end tag of `script`) nor `<!--`.  A `<` byte only occurs at the end of the punctuators `<` and `<<` or in
front of `=` / `<`; directly after such a token the writer puts either a space or the first byte of the next token:
a `/` there would be a `/` or `/=` token in operand position (excluded by `goalsOk`: after an operator the goal
tracker expects an operand), and `!--` is excluded by the writer's `<! --` rule.
-/
namespace Verif.Proofs.C09JsEmbed
open Verif.Spec.C09JsLex Verif.Spec.JsSyntax Verif.Spec.JsGrammar Verif.Model.JsAst Verif.Model.JsPrint
open Verif.Model.JsStmt Verif.Proofs.C09JsSep Verif.Proofs.C09JsTree Verif.Proofs.C09JsStmt Verif.Proofs.C09JsScan
open Verif.Spec.C09HtmlShape

/-- markup starts here: `</` or `<!--` -/
def bad (l : List Char) : Bool := (['<', '/'] : List Char).isPrefixOf l || commentOpen.isPrefixOf l

def hasBad : List Char → Bool
  | [] => false
  | c :: r => bad (c :: r) || hasBad r

theorem startsEndTag_bad (tag l : List Char) (h : startsEndTag tag l = true) : bad l = true := by
  unfold startsEndTag at h
  split at h
  · simp [bad]
  · simp at h

theorem hasBad_spec (tag : List Char) : ∀ l : List Char, hasBad l = false →
    hasEndTag tag l = false ∧ hasInfix commentOpen l = false := by
  intro l
  induction l with
  | nil => intro _; exact ⟨rfl, by decide⟩
  | cons c r ih =>
    intro h
    simp only [hasBad, Bool.or_eq_false_iff] at h
    obtain ⟨h1, h2⟩ := ih h.2
    refine ⟨?_, ?_⟩
    · simp only [hasEndTag, Bool.or_eq_false_iff]
      refine ⟨?_, h1⟩
      cases hs : startsEndTag tag (c :: r) with
      | false => rfl
      | true => rw [startsEndTag_bad tag _ hs] at h; exact absurd h.1 (by simp)
    · simp only [hasInfix, Bool.or_eq_false_iff]
      refine ⟨?_, h2⟩
      have := h.1
      simp only [bad, Bool.or_eq_false_iff] at this
      exact this.2

theorem bad_head (c : Char) (r : List Char) (h : c ≠ '<') : bad (c :: r) = false := by
  have h' : ¬ '<' = c := fun e => h e.symm
  simp [bad, commentOpen, List.isPrefixOf, h']

theorem bad_lt (r : List Char) (h1 : r.head? ≠ some '/') (h2 : r.take 3 ≠ ['!', '-', '-']) :
    bad ('<' :: r) = false := by
  match r, h1, h2 with
  | [], _, _ => simp [bad, commentOpen, List.isPrefixOf]
  | [a], h1, _ =>
    have : ¬ '/' = a := by intro e; subst e; simp at h1
    simp [bad, commentOpen, List.isPrefixOf, this]
  | [a, b], h1, _ =>
    have : ¬ '/' = a := by intro e; subst e; simp at h1
    simp [bad, commentOpen, List.isPrefixOf, this]
  | a :: b :: c :: r', h1, h2 =>
    have h3 : a ≠ '/' := by intro e; subst e; simp at h1
    have h4 : ¬ (a = '!' ∧ b = '-' ∧ c = '-') := by
      intro e; apply h2; simp [e.1, e.2.1, e.2.2]
    simp [bad, commentOpen, List.isPrefixOf]
    exact ⟨fun e => h3 e.symm, fun e1 e2 e3 => h4 ⟨e1.symm, e2.symm, e3.symm⟩⟩

theorem hasBad_append (pre R : List Char) (hR : hasBad R = false)
    (h : ∀ u v, pre = u ++ '<' :: v → bad ('<' :: (v ++ R)) = false) : hasBad (pre ++ R) = false := by
  induction pre with
  | nil => simpa using hR
  | cons c t ih =>
    simp only [List.cons_append, hasBad, Bool.or_eq_false_iff]
    refine ⟨?_, ih (fun u v e => h (c :: u) v (by simp [e]))⟩
    by_cases hc : c = '<'
    · subst hc; exact h [] t rfl
    · exact bad_head c _ hc

/-! ## where a `<` byte can stand in a token text -/

theorem fragKw_noLt : ∀ k ∈ fragKw, '<' ∉ k.toList := by decide

theorem fragPuncts_lt : ∀ p ∈ fragPuncts, '<' ∈ p → p = ['<'] ∨ p = ['<', '='] ∨ p = ['<', '<'] ∨ p = ['<', '<', '='] := by
  decide

theorem txt_no_lt (t : Tok) (ht : tokOk t = true) (hnp : ∀ s, t ≠ .p s) : '<' ∉ txt t := by
  cases t with
  | ident s =>
    simp only [tokOk, identOk, Bool.and_eq_true] at ht
    intro hm
    simp only [txt, tokText] at hm
    cases hs : s.toList with
    | nil => rw [hs] at hm; simp at hm
    | cons d r =>
      rw [hs] at ht hm
      have := ht.1.1.1
      simp only [nameOk, Bool.and_eq_true, List.all_eq_true] at this
      have := this.2 '<' hm
      simp at this
      exact absurd this (by decide)
  | kw s =>
    simp only [tokOk, List.contains_iff_mem] at ht
    exact fragKw_noLt s ht
  | num n bd =>
    have hdig : ∀ c : Char, c.isDigit = true → c ≠ '<' := by intro c h e; subst e; exact absurd h (by decide)
    rcases num_shape n bd with ⟨ds, hw, hd, _, _⟩ | ⟨ds, hw, hd, _, _⟩ | ⟨m, z, hw, hm, _, _, hz, _⟩
    · rw [hw]; intro hmem; exact hdig _ (hd _ hmem) rfl
    · rw [hw]; intro hmem
      simp only [List.mem_append, List.mem_singleton] at hmem
      rcases hmem with hmem | hmem
      · exact hdig _ (hd _ hmem) rfl
      · exact absurd hmem (by decide)
    · rw [hw]; intro hmem
      simp only [List.mem_append, List.mem_cons] at hmem
      rcases hmem with hmem | hmem | hmem
      · exact hdig _ (hm _ hmem) rfl
      · exact absurd hmem (by decide)
      · exact hdig _ (hz _ hmem) rfl
  | str s =>
    simp only [tokOk] at ht
    intro hmem
    simp only [txt, tokText, String.toList_append, List.mem_append] at hmem
    rcases hmem with (hmem | hmem) | hmem
    · exact absurd hmem (by decide)
    · have := wfStr_plain s ht '<' hmem
      simp only [wfStr, List.all_eq_true] at ht
      have := ht '<' hmem
      exact absurd this (by decide)
    · exact absurd hmem (by decide)
  | p s => exact absurd rfl (hnp s)

/-- the condition on what follows a token that ends in `<` -/
def afterLt (R : List Char) : Prop := R.head? ≠ some '/' ∧ R.take 3 ≠ ['!', '-', '-']

theorem tok_no_bad (a : Tok) (ha : tokOk a = true) (R : List Char)
    (hcond : (a = .p "<" ∨ a = .p "<<") → afterLt R) :
    ∀ u v, txt a = u ++ '<' :: v → bad ('<' :: (v ++ R)) = false := by
  intro u v e
  by_cases hp : ∃ s, a = .p s
  · obtain ⟨s, rfl⟩ := hp
    simp only [tokOk, List.contains_iff_mem] at ha
    simp only [txt, tokText] at e
    have hmem : '<' ∈ s.toList := by rw [e]; simp
    rcases fragPuncts_lt _ ha hmem with h | h | h | h
    · have hs : s = "<" := String.toList_inj.mp (by rw [h]; rfl)
      obtain ⟨c1, c2⟩ := hcond (Or.inl (by rw [hs]))
      rw [h] at e
      match u, e with
      | [], e => simp at e; subst e; exact bad_lt _ (by simpa using c1) (by simpa using c2)
      | [x], e => simp at e
      | x :: y :: l, e => simp at e
    · rw [h] at e
      match u, e with
      | [], e => simp at e; subst e; exact bad_lt _ (by simp) (by simp)
      | [x], e => simp at e
      | x :: y :: l, e => simp at e
    · have hs : s = "<<" := String.toList_inj.mp (by rw [h]; rfl)
      obtain ⟨c1, c2⟩ := hcond (Or.inr (by rw [hs]))
      rw [h] at e
      match u, e with
      | [], e => simp at e; subst e; exact bad_lt _ (by simp) (by simp)
      | [x], e => simp at e; obtain ⟨_, e⟩ := e; subst e; exact bad_lt _ (by simpa using c1) (by simpa using c2)
      | x :: y :: l, e => simp at e
    · rw [h] at e
      match u, e with
      | [], e => simp at e; subst e; exact bad_lt _ (by simp) (by simp)
      | [x], e => simp at e; obtain ⟨_, e⟩ := e; subst e; exact bad_lt _ (by simp) (by simp)
      | [x, y], e => simp at e
      | x :: y :: z :: l, e => simp at e
  · have := txt_no_lt a ha (fun s e => hp ⟨s, e⟩)
    rw [e] at this
    exact absurd (by simp) this

/-- after a token whose last byte is `<` the writer never continues with `!--` -/
theorem no_comment_after_lt (w' : W) (hpl : w'.prevLast = some '<') (b : Tok) (more : List Tok)
    (hb : tokOk b = true) (hmore : ∀ t ∈ more, tokOk t = true) :
    (render w' (b :: more)).take 3 ≠ ['!', '-', '-'] := by
  by_cases hs : seps w' b = []
  · have hR : render w' (b :: more) = txt b ++ render (next w' b) more := by simp [render, hs]
    rw [hR]
    by_cases hc : firstC b = some '!'
    · rcases first_bang b hb hc with hbb | hbb
      · subst hbb
        have hsb : (next w' (.p "!")).spaceBefore = some '-' := by simp [next, hpl]
        have := render_head_ne (next w' (.p "!")) more '-' hsb (by decide) (fun t ht => txt_ne_nil t (hmore t ht))
        intro e
        cases hq : render (next w' (.p "!")) more with
        | nil => rw [hq] at e; simp [txt, tokText] at e
        | cons d r =>
          rw [hq] at this e
          simp [txt, tokText] at e
          exact this (by simp [e.1])
      · intro e
        cases htb : txt b with
        | nil => exact absurd htb (txt_ne_nil b hb)
        | cons d rb =>
          cases rb with
          | nil => rw [htb] at hbb; simp at hbb
          | cons d2 rb2 =>
            rw [htb] at hbb e
            simp at hbb e
            rw [hbb.2] at e
            exact absurd e.2.1 (by decide)
    · intro e
      cases htb : txt b with
      | nil => exact absurd htb (txt_ne_nil b hb)
      | cons d rb =>
        rw [htb] at e
        simp at e
        exact hc (by simp [firstC, htb, e.1])
  · have hsp : (render w' (b :: more)).head? = some ' ' := by simp only [render]; exact seps_head _ _ hs _
    intro e
    cases hq : render w' (b :: more) with
    | nil => rw [hq] at e; simp at e
    | cons d r => rw [hq] at hsp e; simp at hsp; subst hsp; simp at e

theorem seps_no_lt (w : W) (t : Tok) : ∀ u v, seps w t ≠ u ++ '<' :: v := by
  intro u v e
  have hs := seps_spaces w t
  rw [e] at hs
  simp [allSpaces] at hs

theorem no_bad_core : ∀ (ts : List Tok) (w : W) (σ : St) (nl : Bool), (∀ t ∈ ts, tokOk t = true) →
    goalsOk σ nl ts = true → hasBad (render w ts) = false := by
  intro ts
  induction ts with
  | nil => intro _ _ _ _ _; rfl
  | cons a rest ih =>
    intro w σ nl hok hg
    have ha : tokOk a = true := hok a (by simp)
    have hrest : ∀ t ∈ rest, tokOk t = true := fun t ht => hok t (by simp [ht])
    rw [goalsOk_cons] at hg
    simp only [Bool.and_eq_true] at hg
    have hR := ih (next w a) (step σ (lexTok nl a)) false hrest hg.2
    have hcond : (a = .p "<" ∨ a = .p "<<") → afterLt (render (next w a) rest) := by
      intro hlt
      cases rest with
      | nil => exact ⟨by simp [render], by simp [render]⟩
      | cons b more =>
        have hb : tokOk b = true := hrest b (by simp)
        have hpl : (next w a).prevLast = some '<' := by rcases hlt with rfl | rfl <;> rfl
        refine ⟨?_, no_comment_after_lt _ hpl b more hb (fun t ht => hrest t (by simp [ht]))⟩
        -- a `/` here would be a token starting with `/` in operand position
        have hstep : (step σ (lexTok nl a)).exprEnd = false := by
          rcases hlt with rfl | rfl
          · rw [step_punct, stepPunct_plain _ _ "<" (by decide)]; rfl
          · rw [step_punct, stepPunct_plain _ _ "<<" (by decide)]; rfl
        have hg2 := hg.2
        rw [goalsOk_cons] at hg2
        simp only [Bool.and_eq_true, Bool.or_eq_true, bne_iff_ne, ne_eq, hstep, Bool.false_eq_true, or_false] at hg2
        have hbh : (txt b).head? ≠ some '/' := hg2.1.1
        by_cases hs : seps (next w a) b = []
        · simp only [render, hs, List.nil_append]
          cases htb : txt b with
          | nil => exact absurd htb (txt_ne_nil b hb)
          | cons d rb => rw [htb] at hbh; simpa using hbh
        · simp only [render]; rw [seps_head _ _ hs]; simp
    have h1 : hasBad (txt a ++ render (next w a) rest) = false :=
      hasBad_append _ _ hR (tok_no_bad a ha _ hcond)
    simp only [render]
    exact hasBad_append _ _ h1 (fun u v e => absurd e (seps_no_lt w a u v))

/-- **The JS writer produces no markup.**  For every token list of the C01 alphabet (identifiers, fragment keywords,
    decimal numbers, `wfStr` strings, operator and bracket punctuators — no regular expressions, no templates) whose
    tokens are well formed (`tokOk`) and in which every token starting with `/` stands in operator position
    (`goalsOk`, two of the four hypotheses of `js_token_sep`; `adjChain` and `headOk` are not needed), the bytes the
    writer model produces contain no `</` at all — hence no appropriate end tag of `script` — and no `<!--`.
    (`adjChain` alone would NOT exclude `<` `/`: the pair lexes back correctly; it is `goalsOk` that rules it out.) -/
theorem js_output_no_markup (ts : List Tok) (hok : ∀ t ∈ ts, tokOk t = true) (hgoal : goalsOk {} true ts = true) :
    hasEndTag "script".toList (emit ts) = false ∧ hasInfix commentOpen (emit ts) = false := by
  rw [emit_eq_render]
  exact hasBad_spec _ _ (no_bad_core ts {} {} true hok hgoal)

example : hasEndTag "script".toList (emit Verif.Proofs.C09Js.sepExample) = false ∧
    hasInfix commentOpen (emit Verif.Proofs.C09Js.sepExample) = false :=
  js_output_no_markup _ (by decide) (by decide)

/-- without `goalsOk` the statement is false: the tokens `a < / script >` are well formed and pairwise adjacent-safe
    (they lex back as written), but spell an end tag -/
theorem js_output_no_markup_counterexample :
    ¬ (∀ ts : List Tok, (∀ t ∈ ts, tokOk t = true) → adjChain ts = true → headOk ts = true →
      hasEndTag "script".toList (emit ts) = false) := by
  intro h
  have := h [.ident "a", .p "<", .p "/", .ident "script", .p ">"] (by decide) (by decide) (by decide)
  exact absurd this (by decide)

/-- the expression printer of C01 (`printT`): no markup in its output -/
theorem js_expr_no_markup (fuel : Nat) (e : E) (p : Prec) (t : E) (hp : p ≤ opCall)
    (hw : Verif.Proofs.JsPrintGwf.wfGo e = true) (h : printT fuel e p = some t) (ht : treeOk t = true) :
    hasEndTag "script".toList (emit (yield t)) = false ∧ hasInfix commentOpen (emit (yield t)) = false := by
  have hp' : p ≤ 17 := by
    have : opCall = 17 := by decide
    rw [this] at hp; exact hp
  have inv := Verif.Proofs.JsPrintGwf.printT_gwf fuel e p t hp' hw h
  obtain ⟨h1, _, _, h4⟩ := Verif.Proofs.C09Js.js_tree_tokens_safe t inv.g ht
  exact js_output_no_markup _ h1 h4

/-- the statement printer of C01 (`jsMinify`), same guard as `js_print_relex_partial`: no markup in its output -/
theorem js_print_no_markup_partial (o : Opts) (prog : List S) (ts : List Tok) (h : jsTokensG o prog = some ts) :
    jsMinify o prog = some (emit ts) ∧
      hasEndTag "script".toList (emit ts) = false ∧ hasInfix commentOpen (emit ts) = false := by
  obtain ⟨h1, _, _, h4⟩ := jsTokensG_safe o prog ts h
  exact ⟨(Verif.Proofs.C09Js.js_print_relex_partial o prog ts h).1, js_output_no_markup ts h1 h4⟩

/-! ## the contract of the HTML minifier on its `script` sub-minifier -/

/-- the guarded statement printer as bytes -/
def jsMinifyG (o : Opts) (prog : List S) : Option (List Char) := (jsTokensG o prog).map emit

/-- the JS fragment minifier as a sub-minifier of the HTML model: parse (by contract: any function), print with the
    guarded printer; where either is undefined the payload passes through unchanged -/
def jsSub (parse : List Char → Option (List S)) (o : Opts) : List Char → Bool → List Char → List Char :=
  fun _ _ p =>
    match parse p with
    | some prog => (match jsMinifyG o prog with | some out => out | none => p)
    | none => p

/-- **The JS fragment printer keeps the contract of the HTML minifier** (`SubKeeps "script"`): for EVERY parser
    function and option set, its output contains an appropriate end tag of `script` / a `<!--` only if its input does —
    in fact never when it prints, and the payload is passed through unchanged otherwise. -/
theorem js_script_embed_keeps (parse : List Char → Option (List S)) (o : Opts) :
    Verif.Proofs.C09HtmlRaw.SubKeeps "script".toList (some (jsSub parse o)) := by
  intro f hf mime inline p
  injection hf with hf
  subst hf
  unfold jsSub
  cases hp : parse p with
  | none => exact ⟨id, id⟩
  | some prog =>
    simp only []
    cases hm : jsMinifyG o prog with
    | none => exact ⟨id, id⟩
    | some out =>
      simp only []
      unfold jsMinifyG at hm
      cases ht : jsTokensG o prog with
      | none => simp [ht] at hm
      | some ts =>
        simp only [ht, Option.map, Option.some.injEq] at hm
        subst hm
        have := (js_print_no_markup_partial o prog ts ht).2
        exact ⟨fun _ => this.1, fun _ => this.2⟩


/-- the sub-minifier does print: with a parser that delivers `if(a)b;else{c--;throw c/d}` the payload is replaced by
    the printer's bytes (here the if statement is turned into a conditional expression first) -/
example : String.ofList (jsSub (fun _ => some [.ifS (.var "a") (.expr (.var "b"))
      (.block [.expr (.unary .postdec (.var "c")), .throw (.bin .div (.var "c") (.var "d"))])]) {} [] false
      "if (a) b; else { c--; throw c / d }".toList) = "if(a)b;else throw c--,c/d" := by decide

/-! ## the host's re-lex check (html.go 1557146) always accepts the printer's output -/

/-- `script` and the bytes of its end tag (kept opaque for `simp`) -/
def scriptName : List Char := "script".toList
def endTagBytes : List Char := '<' :: '/' :: scriptName ++ ['>']

theorem bad_lt_tail (r : List Char) (h : bad ('<' :: r) = false) :
    Verif.Model.HtmlAttr.headIs (· = '/') (r ++ endTagBytes) = false ∧
      (Verif.Model.Html.s "!--").isPrefixOf (r ++ endTagBytes) = false := by
  simp only [bad, commentOpen, Bool.or_eq_false_iff] at h
  obtain ⟨h1, h2⟩ := h
  match r, h1, h2 with
  | [], _, _ => exact ⟨by decide, by decide⟩
  | [a], h1, _ =>
    have ha : a ≠ '/' := by intro e; subst e; simp [List.isPrefixOf] at h1
    refine ⟨by simp [Verif.Model.HtmlAttr.headIs, ha], ?_⟩
    simp [Verif.Model.Html.s, endTagBytes, List.isPrefixOf]
  | [a, b], h1, _ =>
    have ha : a ≠ '/' := by intro e; subst e; simp [List.isPrefixOf] at h1
    refine ⟨by simp [Verif.Model.HtmlAttr.headIs, ha], ?_⟩
    simp [Verif.Model.Html.s, endTagBytes, List.isPrefixOf]
  | a :: b :: d :: r', h1, h2 =>
    have ha : a ≠ '/' := by intro e; subst e; simp [List.isPrefixOf] at h1
    refine ⟨by simp [Verif.Model.HtmlAttr.headIs, ha], ?_⟩
    simp [List.isPrefixOf] at h2
    simp [Verif.Model.Html.s, List.isPrefixOf]
    intro e1 e2 e3; exact h2 e1 e2 e3

/-- text without `</` and `<!--` is read by the minifier's HTML lexer as the whole content of the `script` element -/
theorem rawEnd_noBad : ∀ (l : List Char) (pos : Nat), hasBad l = false →
    Verif.Model.Html.rawEnd scriptName 0 0 pos (l ++ endTagBytes) = pos + l.length := by
  intro l
  induction l with
  | nil =>
    intro pos _
    have e1 : Verif.Model.HtmlAttr.headIs (· = '/') ('/' :: scriptName ++ ['>']) = true := by decide
    have e2 : Verif.Model.Html.wordIs scriptName (('/' :: scriptName ++ ['>']).drop 1) = true := by decide
    show Verif.Model.Html.rawEnd scriptName 0 0 pos ('<' :: ('/' :: scriptName ++ ['>'])) = pos + 0
    rw [Verif.Model.Html.rawEnd, if_pos rfl, if_pos e1, if_pos e2]; rfl
  | cons c r ih =>
    intro pos h
    simp only [hasBad, Bool.or_eq_false_iff] at h
    have hr := ih (pos + 1) h.2
    have hlen : pos + (c :: r).length = pos + 1 + r.length := by simp; omega
    rw [hlen, ← hr, List.cons_append, Verif.Model.Html.rawEnd]
    by_cases hc : c = '<'
    · subst hc
      obtain ⟨g1, g2⟩ := bad_lt_tail r h.1
      rw [if_pos rfl, if_neg (by rw [g1]; simp), if_neg (by rw [g2]; simp)]
    · rw [if_neg hc]

theorem rawTextEndsAtEnd_noBad (l : List Char) (h : hasBad l = false) :
    Verif.Model.Html.rawTextEndsAtEnd "script".toList l = true := by
  have := rawEnd_noBad l 0 h
  unfold Verif.Model.Html.rawTextEndsAtEnd
  simp only [scriptName, endTagBytes, Nat.zero_add] at this
  rw [List.append_assoc, this]
  simp

/-- the host's re-lex check never falls back to the original payload for the JS fragment printer: either the
    printer printed (its bytes contain no `</` and no `<!--`, so the lexer reads them back as the whole content) or the
    sub-minifier returned the payload itself -/
theorem rawTextOut_jsSub (parse : List Char → Option (List S)) (oj : Opts) (mt data : List Char) :
    Verif.Model.Html.rawTextOut (some (jsSub parse oj)) "script".toList mt data
      = jsSub parse oj (Verif.Model.Html.rawMime "script".toList mt) false data := by
  unfold Verif.Model.Html.rawTextOut
  simp only
  split
  · rfl
  · rename_i hne
    -- then the sub-minifier returned the payload
    unfold jsSub at hne ⊢
    cases hp : parse data with
    | none => rfl
    | some prog =>
      simp only [hp] at hne ⊢
      cases hm : jsMinifyG oj prog with
      | none => rfl
      | some out =>
        simp only [hm] at hne ⊢
        unfold jsMinifyG at hm
        cases ht : jsTokensG oj prog with
        | none => simp [ht] at hm
        | some ts =>
          simp only [ht, Option.map, Option.some.injEq] at hm
          subst hm
          obtain ⟨h1, _, _, h4⟩ := jsTokensG_safe oj prog ts ht
          have hb : hasBad (emit ts) = false := by rw [emit_eq_render]; exact no_bad_core ts {} {} true h1 h4
          exact absurd (rawTextEndsAtEnd_noBad _ hb) hne

/-! ## composition: an HTML `script` element whose payload is minified by the JS fragment printer -/

/-- **HTML script element with the JS fragment printer as sub-minifier.**  For every option set of the HTML model and
    of the JS printer, every external table, every parser function (by contract: arbitrary), every model state inside a
    `script` element (`textMode = 1`) and every text token `data` without an appropriate end tag of `script` and
    without `<!--` (the lexer contract on the token and the script-data-escaped guard): the HTML model writes
    exactly `out = jsSub parse oj mime false data` — the output of the guarded JS statement printer on the parsed
    payload, or the payload itself where parser or guard are undefined; the host's re-lex check (html.go 1557146) never
    falls back to the original payload, because the printer's bytes contain no `</` at all —, `out` contains neither an
    end tag of `script` nor `<!--`, and a tokenizer of the HTML standard reading the content of that `script` element
    emits `out` as character tokens byte for byte and takes the `</script>` that follows as the element's end tag. -/
theorem html_script_with_js_fragment (o : Verif.Model.Html.Opts) (ext : Verif.Model.Html.Ext)
    (parse : List Char → Option (List S)) (oj : Opts) (st : Verif.Model.Html.St) (data : List Char)
    (rest : List Verif.Model.Html.HTok) (h1 : st.dropEnd = false) (h2 : Verif.Proofs.HtmlWs.textMode st false = 1)
    (htag : st.rawTag = "script".toList)
    (hd : hasEndTag "script".toList data = false) (hc : hasInfix commentOpen data = false) :
    ∃ st' out, Verif.Model.Html.step o ext (some (jsSub parse oj)) st (.text data false) rest = .ok (st', out) ∧
      out = jsSub parse oj (Verif.Model.Html.rawMime st.rawTag st.rawMediatype) false data ∧
      hasEndTag "script".toList out = false ∧ hasInfix commentOpen out = false ∧
      ∀ (m : Verif.Spec.C09HtmlTok.M) (more : List Char),
        Verif.Proofs.C09HtmlRaw.ReadsContentOf m "script".toList →
        Verif.Spec.C09HtmlTok.runO m (out ++ '<' :: '/' :: ("script".toList ++ ['>']) ++ more) =
          Verif.Proofs.C09HtmlRaw.chs m.mode.refs out ++ [.endTag "script".toList] ++
            Verif.Spec.C09HtmlTok.runO
              (Verif.Spec.C09HtmlTok.emitTag m { isEnd := true, name := "script".toList } false).1 more := by
  have hk : Verif.Proofs.C09HtmlRaw.SubKeeps st.rawTag (some (jsSub parse oj)) := by
    rw [htag]; exact js_script_embed_keeps parse oj
  obtain ⟨st', out, hstep, he, hco, hrun⟩ :=
    Verif.Proofs.C09HtmlRaw.html_rawtext_end_stable_subkeeps o ext (some (jsSub parse oj)) st data rest h1 h2
      (by rw [htag]; decide) hk (by rw [htag]; exact hd) (fun _ => hc)
  obtain ⟨st'', hstep'⟩ := Verif.Proofs.C09HtmlRaw.step_raw_out o ext (some (jsSub parse oj)) st data false rest h1 h2
  have hout : out = Verif.Proofs.C09HtmlRaw.rawOut (some (jsSub parse oj)) st data := by
    rw [hstep] at hstep'
    injection hstep' with e
    injection e with _ e2
  have hraw : Verif.Proofs.C09HtmlRaw.rawOut (some (jsSub parse oj)) st data
      = jsSub parse oj (Verif.Model.Html.rawMime st.rawTag st.rawMediatype) false data := by
    have hs : Verif.Model.Html.hashIs st.rawTag "script" = true := by rw [htag]; decide
    unfold Verif.Proofs.C09HtmlRaw.rawOut
    simp only [hs, Bool.or_true, Bool.true_or, if_true]
    rw [htag]
    exact rawTextOut_jsSub parse oj st.rawMediatype data
  refine ⟨st', out, hstep, hout.trans hraw, by rw [← htag]; exact he, hco htag, ?_⟩
  intro m more hm
  have := hrun m more (by rw [htag]; exact hm)
  rw [htag] at this
  exact this

/-- the hypotheses are satisfiable: a model state inside a `script` element and a payload without end tag / `<!--` -/
example : ({ rawTag := "script".toList } : Verif.Model.Html.St).dropEnd = false ∧
    Verif.Proofs.HtmlWs.textMode { rawTag := "script".toList } false = 1 ∧
    hasEndTag "script".toList "if (a) b; else { c--; throw c / d }".toList = false ∧
    hasInfix commentOpen "if (a) b; else { c--; throw c / d }".toList = false := by decide

/-- the host's re-lex check is a real check: it accepts printer output and rejects text with an inner end tag -/
example : Verif.Model.Html.rawTextEndsAtEnd "script".toList "if(a)b;else{c--;throw c/d}".toList = true ∧
    Verif.Model.Html.rawTextEndsAtEnd "script".toList "a</script >b".toList = false := by decide

end Verif.Proofs.C09JsEmbed

import Verif.Model.SvgDoc
import Verif.Spec.SvgDocSpec
/-!
# C05B — `shortenDimension` keeps the value and the unit of a dimension

The number printer is a parameter with the contract `NumOk` (property C08: value exact at precision 0, the output
is a number of the SVG grammar); the reading of the input as number + unit is the specification's
(`Spec.SvgPath.lexNumber`), the agreement of `parse.Dimension` with it on the input at hand is a hypothesis
(decidable, evaluated by the harness on every dimension it generates: `spec.c05b.dim`).
-/
namespace Verif.Proofs.SvgDocDim
open Verif.Model.SvgDoc Verif.Spec.SvgDocSpec
open Verif.Spec.SvgPath (lexNumber numVal)

/-- contract of `minify.Number(·, 0)` on number lexemes: the value is kept exactly, the output is again a number
lexeme after which a unit can be read -/
structure NumOk (num : List Char → List Char) : Prop where
  value : ∀ x, lexNumber x = some (x, []) → numVal (num x) = numVal x
  shape : ∀ x u, lexNumber x = some (x, []) → Verif.Spec.SvgDocSpec.isUnit u = true →
    lexNumber (num x ++ u) = some (num x, u)

theorem letter_small (c : Char) (h : Verif.Spec.SvgDocSpec.isLetter c = true) : c.toNat < 128 := by
  simp only [Verif.Spec.SvgDocSpec.isLetter, Bool.or_eq_true, Bool.and_eq_true, decide_eq_true_eq] at h
  rcases h with ⟨_, h⟩ | ⟨_, h⟩
  · have := Char.le_def.mp h
    have h2 : c.val.toNat ≤ ('z' : Char).val.toNat := UInt32.le_iff_toNat_le.mp this
    have : ('z' : Char).val.toNat = 122 := by decide
    simp only [Char.toNat]; omega
  · have := Char.le_def.mp h
    have h2 : c.val.toNat ≤ ('Z' : Char).val.toNat := UInt32.le_iff_toNat_le.mp this
    have : ('Z' : Char).val.toNat = 90 := by decide
    simp only [Char.toNat]; omega

theorem letter_k : ∀ k, k < 128 → Verif.Spec.SvgDocSpec.isLetter (Char.ofNat k) = true →
    (Verif.Spec.SvgDocSpec.isLetter (lower (Char.ofNat k)) = true ∧
     lowerC (lower (Char.ofNat k)) = lowerC (Char.ofNat k)) := by decide

theorem letter_lower (c : Char) (h : Verif.Spec.SvgDocSpec.isLetter c = true) :
    Verif.Spec.SvgDocSpec.isLetter (lower c) = true ∧ lowerC (lower c) = lowerC c := by
  have hs := letter_small c h
  have hc : c = Char.ofNat c.toNat := (Char.ofNat_toNat c).symm
  rw [hc] at h ⊢
  exact letter_k _ hs h

theorem letters_lower (u : List Char) (h : u.all Verif.Spec.SvgDocSpec.isLetter = true) :
    (u.map lower).all Verif.Spec.SvgDocSpec.isLetter = true ∧ (u.map lower).map lowerC = u.map lowerC := by
  induction u with
  | nil => simp
  | cons c r ih =>
    simp only [List.all_cons, Bool.and_eq_true] at h
    obtain ⟨a, b⟩ := ih h.2
    obtain ⟨l1, l2⟩ := letter_lower c h.1
    simp [l1, l2, a, b]

/-- the unit written by `shortenDimension` for a non-zero value -/
def unitOut (u : List Char) : List Char :=
  if u == ['p', 'x'] then [] else if u.length > 1 then u.map lower else u

theorem unitOut_ok (u : List Char) (hu : Verif.Spec.SvgDocSpec.isUnit u = true) :
    Verif.Spec.SvgDocSpec.isUnit (unitOut u) = true ∧ canonUnit (unitOut u) = canonUnit u := by
  unfold unitOut
  split
  · next h =>
    have : u = ['p', 'x'] := by simpa using h
    subst this
    exact ⟨by decide, by decide⟩
  · split
    · next hpx hlen =>
      have hall : u.all Verif.Spec.SvgDocSpec.isLetter = true := by
        simp only [Verif.Spec.SvgDocSpec.isUnit, Bool.or_eq_true, beq_iff_eq] at hu
        rcases hu with (h | h) | h
        · subst h; simp at hlen
        · subst h; simp at hlen
        · exact h
      obtain ⟨a, b⟩ := letters_lower u hall
      refine ⟨by simp [Verif.Spec.SvgDocSpec.isUnit, a], ?_⟩
      simp only [canonUnit, b]
    · exact ⟨hu, rfl⟩

theorem take_append_len {α} (a b : List α) : (a ++ b).take a.length = a := by simp
theorem drop_append_len {α} (a b : List α) : (a ++ b).drop a.length = b := by simp

/-- what `shortenDimension` writes when `parse.Dimension` reads `x` as the number and `u` as the unit -/
theorem shortenDim_eq (num : List Char → List Char) (x u : List Char) (hne : x ≠ [])
    (hagree : dimension (x ++ u) = (x.length, u.length)) :
    (shortenDim num (x ++ u)).1 = (if num x == ['0'] then ['0'] else num x ++ unitOut u) := by
  have hlen : (x.length == 0) = false := by
    cases x with
    | nil => exact absurd rfl hne
    | cons c r => simp
  unfold shortenDim
  simp only [hagree, hlen, Bool.false_eq_true, if_false, take_append_len, drop_append_len, List.take_length]
  by_cases h0 : num x == ['0']
  · simp only [h0, if_true]
    have : num x = ['0'] := by simpa using h0
    simp [this]
  · simp only [h0, Bool.false_eq_true, if_false, unitOut]
    split
    · simp
    · rfl

/-- **dimension_value_ok**: same numeric value; same unit up to case and `px` = user unit; a zero loses its unit -/
theorem dimension_value (num : List Char → List Char) (hnum : NumOk num) (x u : List Char) (hne : x ≠ [])
    (hx : lexNumber x = some (x, [])) (hu : Verif.Spec.SvgDocSpec.isUnit u = true)
    (hxu : lexNumber (x ++ u) = some (x, u))
    (hagree : dimension (x ++ u) = (x.length, u.length)) :
    dimRel (x ++ u) (shortenDim num (x ++ u)).1 = true := by
  rw [shortenDim_eq num x u hne hagree]
  have hin : dimOf (x ++ u) = some (numVal x, u) := by simp [dimOf, hxu, hu]
  by_cases h0 : num x == ['0']
  · simp only [h0, if_true]
    have h0' : num x = ['0'] := by simpa using h0
    have hv : numVal x = numVal ['0'] := by rw [← h0']; exact (hnum.value x hx).symm
    have hsh := hnum.shape x [] hx (by decide)
    rw [h0'] at hsh
    have hout : dimOf ['0'] = some (numVal ['0'], []) := by
      have : (['0'] : List Char) = ['0'] ++ [] := rfl
      rw [this, dimOf, hsh]; rfl
    have hz : numVal ['0'] = 0 := by decide +kernel
    simp [dimRel, hin, hout, hv, hz]
  · simp only [h0, Bool.false_eq_true, if_false]
    obtain ⟨hu', hcan⟩ := unitOut_ok u hu
    have hout : dimOf (num x ++ unitOut u) = some (numVal (num x), unitOut u) := by
      simp [dimOf, hnum.shape x (unitOut u) hx hu', hu']
    simp [dimRel, hin, hout, hnum.value x hx, hcan]

end Verif.Proofs.SvgDocDim

import Verif.Model.C09SvgText
import Verif.Proofs.C09XmlLexSound
/-!
# C09 (SVG) — the per-token writers of `svg.go` write well-formed character data, CDATA sections and attribute
value literals; what is demanded of the CSS sub-minifier (contracts) and that a white-space-removing sub-minifier
violates them

Lifted from C06: `scan_text` (entity replacement over units), `escCD_text` / `escCD_free` (`cdend_escape`),
`cdata_token` / `escCData_flat` (`cdata_chars`), `escapeAttrVal_flat` (`attr_escape`).
-/
namespace Verif.Proofs.C09Svg
open Verif.Xml (XTok)
open Verif.Spec.Xml
open Verif.Model.Xml
open Verif.Model.C09SvgText
open Verif.Proofs.Xml
open Verif.Proofs.C09XmlLex (wfText_ne_nil drop_takeWhile)
open Verif.Gen

/-! ## `bracketWriter` -/

theorem brAfter_all (b : List Char) (h : ∀ c ∈ b, c = ']') : ∀ n, brAfter n b = n + b.length := by
  induction b with
  | nil => intro n; rfl
  | cons c r ih =>
    intro n
    have hc : c = ']' := h c (by simp)
    subst hc
    simp only [brAfter, beq_self_eq_true, if_true, List.length_cons]
    rw [ih (fun c hc => h c (by simp [hc]))]
    omega

/-- `bracketWriter.Write` keeps `bw.n` equal to what `escapeCDEnd` computes: the number of `]` at the end of
everything written -/
theorem bwWrite_eq_brAfter (n : Nat) (b : List Char) : bwWrite n b = brAfter n b := by
  have hsplit := List.takeWhile_append_dropWhile (p := (· == ']')) (l := b.reverse)
  have hb : b = (b.reverse.dropWhile (· == ']')).reverse ++ (b.reverse.takeWhile (· == ']')).reverse := by
    rw [← List.reverse_append, hsplit, List.reverse_reverse]
  have htk : ∀ c ∈ (b.reverse.takeWhile (· == ']')).reverse, c = ']' := by
    intro c hc
    have := mem_takeWhile_imp' _ _ _ (List.mem_reverse.mp hc)
    simpa using this
  unfold bwWrite trailingBr
  cases hd : b.reverse.dropWhile (· == ']') with
  | nil =>
    rw [hd] at hb
    have hlen : (b.reverse.takeWhile (· == ']')).length = b.length := by
      have := congrArg List.length hb
      simp at this
      omega
    simp only [hlen, beq_self_eq_true, if_true]
    rw [brAfter_all b (by rw [hb]; simpa using htk)]
  | cons c dr =>
    have hc : (c == ']') = false := by
      have := List.head_dropWhile_not (p := (· == ']')) (l := b.reverse) (by rw [hd]; simp)
      simpa [hd] using this
    rw [hd] at hb
    have hlen : (b.reverse.takeWhile (· == ']')).length ≠ b.length := by
      have := congrArg List.length hb
      simp at this
      omega
    have hne : ((b.reverse.takeWhile (· == ']')).length == b.length) = false := by simpa using hlen
    simp only [hne, Bool.false_eq_true, if_false]
    conv => rhs; rw [hb]
    simp only [List.reverse_cons, List.append_assoc, List.singleton_append]
    rw [brAfter_append]
    simp only [brAfter, hc, Bool.false_eq_true, if_false]
    rw [brAfter_all _ htk]
    simp

theorem bwTotal_eq (ws : List (List Char)) : ∀ n, bwTotal n ws = brAfter n ws.flatten := by
  induction ws with
  | nil => intro n; rfl
  | cons w r ih =>
    intro n
    simp only [bwTotal, List.foldl_cons, List.flatten_cons] at ih ⊢
    rw [ih, bwWrite_eq_brAfter, brAfter_append]

theorem cdState_eq_brAfter (l : List Char) : ∀ n, cdState n l = brAfter n l := by
  induction l with
  | nil => intro n; rfl
  | cons c r ih => intro n; simp only [cdState, brAfter, ih]

/-! ## white space over units -/

theorem ref_no_ws (u : XUnit) (hu : u.ok = true) (hr : ∀ c, u ≠ .lit c) : ∀ c ∈ u.chars, isWs c = false := by
  have a1 : isWs '&' = false := by decide
  have a2 : isWs '#' = false := by decide
  have a3 : isWs 'x' = false := by decide
  have a4 : isWs ';' = false := by decide
  cases u with
  | lit c => exact absurd rfl (hr c)
  | named nm =>
    simp only [XUnit.ok, Bool.and_eq_true, List.all_eq_true] at hu
    intro c hc
    simp only [XUnit.chars, List.mem_cons, List.mem_append, List.mem_nil_iff, or_false] at hc
    rcases hc with r | r | r
    · subst r; exact a1
    · exact (nameChar_pass c (hu.2 c r)).1
    · subst r; exact a4
  | dec ds =>
    simp only [XUnit.ok, Bool.and_eq_true, List.all_eq_true] at hu
    intro c hc
    simp only [XUnit.chars, List.mem_cons, List.mem_append, List.mem_nil_iff, or_false] at hc
    rcases hc with r | r | r | r
    · subst r; exact a1
    · subst r; exact a2
    · exact (hex_pass c (dig_hex c (hu.1.2 c r))).1
    · subst r; exact a4
  | hex ds =>
    simp only [XUnit.ok, Bool.and_eq_true, List.all_eq_true] at hu
    intro c hc
    simp only [XUnit.chars, List.mem_cons, List.mem_append, List.mem_nil_iff, or_false] at hc
    rcases hc with r | r | r | r | r
    · subst r; exact a1
    · subst r; exact a2
    · subst r; exact a3
    · exact (hex_pass c (hu.1.2 c r)).1
    · subst r; exact a4

theorem chars_all_ws (u : XUnit) (hu : u.ok = true) : u.chars.all isWs = isWsLit u := by
  cases u with
  | lit c => simp [XUnit.chars, isWsLit, isWs_eq_isS_ok c hu]
  | named nm => simp [XUnit.chars, isWsLit, show isWs '&' = false by decide]
  | dec ds => simp [XUnit.chars, isWsLit, show isWs '&' = false by decide]
  | hex ds => simp [XUnit.chars, isWsLit, show isWs '&' = false by decide]

theorem flat_all_ws (us : List XUnit) (hok : us.all XUnit.ok = true) : (flat us).all isWs = us.all isWsLit := by
  induction us with
  | nil => rfl
  | cons u r ih =>
    simp only [List.all_cons, Bool.and_eq_true] at hok
    rw [flat_cons, List.all_append, chars_all_ws u hok.1, ih hok.2, List.all_cons]

theorem dropWhile_flat (us : List XUnit) (hok : us.all XUnit.ok = true) :
    (flat us).dropWhile isWs = flat (us.dropWhile isWsLit) := by
  induction us with
  | nil => rfl
  | cons u r ih =>
    simp only [List.all_cons, Bool.and_eq_true] at hok
    cases u with
    | lit c =>
      have hc := isWs_eq_isS_ok c hok.1
      by_cases hs : isS c = true
      · have hw : isWs c = true := by rw [hc]; exact hs
        simp only [flat_cons, XUnit.chars, List.singleton_append, List.dropWhile_cons, isWsLit, hw, hs, if_true]
        exact ih hok.2
      · have hs' : isS c = false := by simpa using hs
        have hw : isWs c = false := by rw [hc]; exact hs'
        simp [flat_cons, XUnit.chars, isWsLit, hw, hs']
    | named nm => simp [flat_cons, XUnit.chars, isWsLit, show isWs '&' = false by decide]
    | dec ds => simp [flat_cons, XUnit.chars, isWsLit, show isWs '&' = false by decide]
    | hex ds => simp [flat_cons, XUnit.chars, isWsLit, show isWs '&' = false by decide]

theorem trimEnd_pass (x Y : List Char) (hx : ∀ c ∈ x, isWs c = false) : trimEnd (x ++ Y) = x ++ trimEnd Y := by
  induction x with
  | nil => rfl
  | cons c r ih =>
    have hc : isWs c = false := hx c (by simp)
    simp only [List.cons_append, trimEnd, hc, Bool.false_and, Bool.false_eq_true, if_false]
    rw [ih (fun c hc => hx c (by simp [hc]))]

/-- `TrimWhitespace` (right side) on a sequence of units removes literal white space units at the end -/
theorem trimEnd_flat (us : List XUnit) (hok : us.all XUnit.ok = true) :
    ∃ us', trimEnd (flat us) = flat us' ∧ us'.all XUnit.ok = true := by
  induction us with
  | nil => exact ⟨[], rfl, rfl⟩
  | cons u r ih =>
    simp only [List.all_cons, Bool.and_eq_true] at hok
    obtain ⟨us2, e1, e2⟩ := ih hok.2
    by_cases hlit : ∃ c, u = .lit c
    · obtain ⟨c, rfl⟩ := hlit
      simp only [flat_cons, XUnit.chars, List.singleton_append, trimEnd]
      split
      · exact ⟨[], rfl, rfl⟩
      · exact ⟨.lit c :: us2, by simp [flat_cons, XUnit.chars, e1], by simp [hok.1, e2]⟩
    · have hr : ∀ c, u ≠ .lit c := fun c h => hlit ⟨c, h⟩
      refine ⟨u :: us2, ?_, by simp [hok.1, e2]⟩
      rw [flat_cons, trimEnd_pass _ _ (ref_no_ws u hok.1 hr), e1, flat_cons]

theorem trimWs_flat (us : List XUnit) (hok : us.all XUnit.ok = true) :
    ∃ us', trimWs (flat us) = flat us' ∧ us'.all XUnit.ok = true := by
  unfold trimWs
  rw [dropWhile_flat us hok]
  exact trimEnd_flat _ (all_ok_dropWhile us _ hok)

theorem collapse_pass (x Y : List Char) (hx : ∀ c ∈ x, isWs c = false) (hne : x ≠ []) :
    ∀ b, collapseWs b (x ++ Y) = x ++ collapseWs false Y := by
  induction x with
  | nil => exact absurd rfl hne
  | cons c r ih =>
    intro b
    have hc : isWs c = false := hx c (by simp)
    simp only [List.cons_append, collapseWs, hc, Bool.false_eq_true, if_false]
    cases r with
    | nil => rfl
    | cons d r' =>
      rw [ih (fun c hc => hx c (by simp [hc])) (by simp) false]

/-- `ReplaceMultipleWhitespace` on a sequence of units -/
theorem collapse_flat (us : List XUnit) (hok : us.all XUnit.ok = true) :
    ∀ b, ∃ us', collapseWs b (flat us) = flat us' ∧ us'.all XUnit.ok = true := by
  induction us with
  | nil => intro b; exact ⟨[], by simp [flat, collapseWs], rfl⟩
  | cons u r ih =>
    intro b
    simp only [List.all_cons, Bool.and_eq_true] at hok
    by_cases hlit : ∃ c, u = .lit c
    · obtain ⟨c, rfl⟩ := hlit
      simp only [flat_cons, XUnit.chars, List.singleton_append, collapseWs]
      split
      · split
        · exact ih hok.2 true
        · obtain ⟨us2, e1, e2⟩ := ih hok.2 true
          refine ⟨.lit (if isNewline c || ((flat r).takeWhile isWs).any isNewline then '\n' else ' ') :: us2, ?_, ?_⟩
          · simp [flat_cons, XUnit.chars, e1]
          · simp only [List.all_cons, e2, Bool.and_true]
            split <;> decide
      · obtain ⟨us2, e1, e2⟩ := ih hok.2 false
        exact ⟨.lit c :: us2, by simp [flat_cons, XUnit.chars, e1], by simp [hok.1, e2]⟩
    · have hr : ∀ c, u ≠ .lit c := fun c h => hlit ⟨c, h⟩
      obtain ⟨us2, e1, e2⟩ := ih hok.2 false
      refine ⟨u :: us2, ?_, by simp [hok.1, e2]⟩
      rw [flat_cons, collapse_pass _ _ (ref_no_ws u hok.1 hr) (chars_ne_nil u) b, e1, flat_cons]

/-- a sequence of units as character data -/
theorem units_text (us : List XUnit) (hok : us.all XUnit.ok = true) : flat us = [] ∨ WfText (flat us) := by
  by_cases h : us = []
  · subst h; exact Or.inl rfl
  · exact Or.inr ⟨us, hok, rfl, h⟩


/-- `ReplaceMultipleWhitespaceAndEntities` with the XML entity table and ANY sound reverse table on a sequence of
units (generalises `Proofs.Xml.scan_text_aux`, which is stated for `TextRevEntitiesMap`) -/
theorem scan_ws_units (rv : List (Char × List Char)) (hrv : RevOk rv) (n : Nat) : ∀ us : List XUnit, us.length ≤ n →
    us.all XUnit.ok = true →
    ∃ us', scan true XmlTables.entities rv 0 (flat us) = flat us' ∧ us'.all XUnit.ok = true := by
  induction n with
  | zero =>
    intro us hl _
    have : us = [] := List.length_eq_zero_iff.mp (by omega)
    subst this
    exact ⟨[], by simp [flat, scan], by simp⟩
  | succ n ih =>
    intro us hl hok
    cases us with
    | nil => exact ⟨[], by simp [flat, scan], by simp⟩
    | cons u r =>
      simp only [List.all_cons, Bool.and_eq_true] at hok
      simp only [List.length_cons] at hl
      by_cases hlit : ∃ c, u = .lit c
      · obtain ⟨c, rfl⟩ := hlit
        have hc := isWs_eq_isS_ok c hok.1
        by_cases hs : isS c = true
        · have hw : isWs c = true := by rw [hc]; exact hs
          obtain ⟨t1, t2⟩ := flat_takeWhile_ws r hok.2
          have hlen : (r.dropWhile isWsLit).length ≤ n := by
            have := (List.dropWhile_sublist isWsLit (l := r)).length_le
            omega
          obtain ⟨us2, e1, e2⟩ := ih (r.dropWhile isWsLit) hlen (all_ok_dropWhile r _ hok.2)
          let w : Char := if isNewline c || ((flat r).takeWhile isWs).any isNewline then '\n' else ' '
          have hwS : isS w = true := by
            simp only [w]; split <;> decide
          refine ⟨.lit w :: us2, ?_, ?_⟩
          · simp only [flat_cons, XUnit.chars, List.singleton_append, scan, hw, Bool.true_and, if_true]
            rw [scan_skip, t1, t2, e1]
            simp only [w, t1]
          · simp only [List.all_cons, Bool.and_eq_true]
            refine ⟨?_, e2⟩
            simp only [XUnit.ok, litOk, hwS, Bool.true_or, Bool.and_true, Bool.and_eq_true, bne_iff_ne, ne_eq]
            simp only [w]; split <;> decide
        · have hs' : isS c = false := by simpa using hs
          have hw : isWs c = false := by rw [hc]; exact hs'
          have hamp : (c == '&') = false := by
            simp only [XUnit.ok, litOk, Bool.and_eq_true, bne_iff_ne, ne_eq] at hok
            simpa using hok.1.1.2
          obtain ⟨us2, e1, e2⟩ := ih r (by omega) hok.2
          refine ⟨.lit c :: us2, ?_, by simp [hok.1, e2]⟩
          simp [flat_cons, XUnit.chars, scan, hw, hamp, e1]
      · have hr : ∀ c, u ≠ .lit c := fun c h => hlit ⟨c, h⟩
        obtain ⟨u', s1, s2, _, _⟩ := step_rev true rv hrv u (flat r) hok.1 hr
        obtain ⟨us2, e1, e2⟩ := ih r (by omega) hok.2
        refine ⟨u' :: us2, ?_, by simp [s2, e2]⟩
        rw [flat_cons, s1, e1, flat_cons]

/-! ## `isCharData` of svg.go -/

/-- a byte that the rewrites of character data (`escapeCDEnd`, `EscapeAttrVal`) pass through and that is no markup -/
def Inert (c : Char) : Prop := c ≠ ']' ∧ c ≠ '>' ∧ c ≠ '"' ∧ c ≠ '\'' ∧ c ≠ '<' ∧ c ≠ '&'

theorem inert_hex (c : Char) (h : isHexDigit c = true) : Inert c := by
  refine ⟨?_, ?_, ?_, ?_, ?_, ?_⟩ <;> (intro hc; subst hc; revert h; decide)

theorem inert_dig (c : Char) (h : isDigit c = true) : Inert c := by
  refine ⟨?_, ?_, ?_, ?_, ?_, ?_⟩ <;> (intro hc; subst hc; revert h; decide)

theorem inert_name (c : Char) (h : refLen.refNameChar c = true) : Inert c := by
  refine ⟨?_, ?_, ?_, ?_, ?_, ?_⟩ <;> (intro hc; subst hc; revert h; decide)

theorem refName_spec (c : Char) (h : refLen.refNameChar c = true) : isNameChar c = true := by
  simp only [refLen.refNameChar, Bool.or_eq_true, Bool.and_eq_true, decide_eq_true_eq, beq_iff_eq] at h
  simp only [isNameChar, isAl, isDig, Bool.or_eq_true, Bool.and_eq_true, decide_eq_true_eq, beq_iff_eq]
  simp only [isDigit, Bool.and_eq_true, decide_eq_true_eq] at h
  rcases h with ((((((h | h) | h) | h) | h) | h) | h) | h
  · exact Or.inl (Or.inl (Or.inl (Or.inl (Or.inl (Or.inl (Or.inl h))))))
  · exact Or.inl (Or.inl (Or.inl (Or.inl (Or.inl (Or.inl (Or.inr h))))))
  · exact Or.inl (Or.inl (Or.inr h))
  · exact Or.inl (Or.inr h)
  · exact Or.inr h
  · exact Or.inl (Or.inl (Or.inl (Or.inl (Or.inl (Or.inr h)))))
  · exact Or.inl (Or.inl (Or.inl (Or.inr h)))
  · exact Or.inl (Or.inl (Or.inl (Or.inl (Or.inr h))))

/-- what `refLen r = some k` means: `r` starts with a reference body of inert bytes and `;`; any continuation
behind that `;` is a complete reference for `isCharData` and for the specification decoder alike -/
theorem refLen_some (r : List Char) (k : Nat) (h : refLen r = some k) :
    ∃ body rest, r = body ++ ';' :: rest ∧ k = body.length + 1 ∧ (∀ c ∈ body, Inert c) ∧
      (∀ Y, refLen (body ++ ';' :: Y) = some k) ∧ (∃ d, d ≠ DCh.bad ∧ ∀ Y, specRef (body ++ ';' :: Y) = some (d, k)) := by
  unfold refLen at h
  split at h
  · next r2 =>
    -- hexadecimal
    simp only at h
    split at h
    · cases h
    · next hne =>
      split at h
      · next rest heq =>
        simp only [Option.some.injEq] at h
        rw [drop_takeWhile] at heq
        have hall : ∀ c ∈ r2.takeWhile isHexDigit, isHexDigit c = true := fun c hc => mem_takeWhile_imp' _ _ _ hc
        have hsplit : r2 = r2.takeWhile isHexDigit ++ ';' :: rest := by
          conv => lhs; rw [← List.takeWhile_append_dropWhile (p := isHexDigit) (l := r2), heq]
        generalize r2.takeWhile isHexDigit = ds at *
        have hds : ds ≠ [] := by simpa using hne
        refine ⟨'#' :: 'x' :: ds, rest, by rw [hsplit]; simp, by simp [← h], ?_, ?_, ?_⟩
        · intro c hc
          simp only [List.mem_cons] at hc
          rcases hc with rfl | rfl | hc
          · refine ⟨?_, ?_, ?_, ?_, ?_, ?_⟩ <;> decide
          · refine ⟨?_, ?_, ?_, ?_, ?_, ?_⟩ <;> decide
          · exact inert_hex c (hall c hc)
        · intro Y
          have ht : (ds ++ ';' :: Y).takeWhile isHexDigit = ds := takeWhile_append_stop _ ds ';' Y hall (by decide)
          simp only [List.cons_append, refLen, ht, drop_length_append]
          simp [hds, ← h]
        · refine ⟨DCh.c (numVal 16 ds), by simp, fun Y => ?_⟩
          have := specRef_hex ds Y hds hall
          simpa [← h] using this
      · cases h
  · next r2 hnx =>
    -- decimal
    simp only at h
    split at h
    · cases h
    · next hne =>
      split at h
      · next rest heq =>
        simp only [Option.some.injEq] at h
        rw [drop_takeWhile] at heq
        have hall : ∀ c ∈ r2.takeWhile isDigit, isDigit c = true := fun c hc => mem_takeWhile_imp' _ _ _ hc
        have hsplit : r2 = r2.takeWhile isDigit ++ ';' :: rest := by
          conv => lhs; rw [← List.takeWhile_append_dropWhile (p := isDigit) (l := r2), heq]
        generalize r2.takeWhile isDigit = ds at *
        have hds : ds ≠ [] := by simpa using hne
        refine ⟨'#' :: ds, rest, by rw [hsplit]; simp, by simp [← h], ?_, ?_, ?_⟩
        · intro c hc
          simp only [List.mem_cons] at hc
          rcases hc with rfl | hc
          · refine ⟨?_, ?_, ?_, ?_, ?_, ?_⟩ <;> decide
          · exact inert_dig c (hall c hc)
        · intro Y
          have ht : (ds ++ ';' :: Y).takeWhile isDigit = ds := takeWhile_append_stop _ ds ';' Y hall (by decide)
          cases ds with
          | nil => exact absurd rfl hds
          | cons d0 ds' =>
            have hd0 : d0 ≠ 'x' := by
              intro hx; subst hx
              have := hall 'x' (by simp)
              revert this; decide
            unfold refLen
            split
            · next r3 heq3 => simp only [List.cons_append, List.cons.injEq, true_and] at heq3; exact absurd heq3.1 hd0
            · next r3 _ heq3 =>
              simp only [List.cons_append, List.cons.injEq, true_and] at heq3
              subst heq3
              simp only [List.cons_append] at ht
              simp only [ht]
              have := drop_length_append (d0 :: ds') (';' :: Y)
              simp only [List.cons_append] at this
              simp [← h]
            · next _ hno2 => exact (hno2 _ rfl).elim
        · refine ⟨DCh.c (numVal 10 ds), by simp, fun Y => ?_⟩
          have := specRef_dec ds Y hds hall
          simpa [← h] using this
      · cases h
  · next hn1 hn2 =>
    -- named
    simp only at h
    split at h
    · cases h
    · next c nm' hnm =>
      split at h
      · cases h
      · next hstart =>
        split at h
        · next rest heq =>
          simp only [Option.some.injEq] at h
          rw [drop_takeWhile] at heq
          have hall : ∀ x ∈ r.takeWhile refLen.refNameChar, refLen.refNameChar x = true :=
            fun x hx => mem_takeWhile_imp' _ _ _ hx
          have hsplit : r = r.takeWhile refLen.refNameChar ++ ';' :: rest := by
            conv => lhs; rw [← List.takeWhile_append_dropWhile (p := refLen.refNameChar) (l := r), heq]
          rw [hnm] at hall hsplit h
          have hst : refLen.refNameStart c = true := by simpa using hstart
          have hc : c ≠ '#' := by intro hx; subst hx; revert hst; decide
          refine ⟨c :: nm', rest, hsplit, by simp [← h], fun x hx => inert_name x (hall x hx), ?_, ?_⟩
          · intro Y
            have ht : ((c :: nm') ++ ';' :: Y).takeWhile refLen.refNameChar = c :: nm' :=
              takeWhile_append_stop _ _ ';' Y hall (by decide)
            unfold refLen
            split
            · next r3 heq3 => simp only [List.cons_append, List.cons.injEq] at heq3; exact absurd heq3.1 hc
            · next r3 _ heq3 => simp only [List.cons_append, List.cons.injEq] at heq3; exact absurd heq3.1 hc
            · simp only [ht, hstart, drop_length_append]
              simp [← h]
          · refine ⟨XUnit.val false (.named (c :: nm')), ?_, fun Y => ?_⟩
            · simp only [XUnit.val]; cases predefined (c :: nm') <;> simp
            · have := specRef_named (c :: nm') Y (by simp) (fun x hx => refName_spec x (hall x hx))
              simpa [← h] using this
        · cases h


theorem isCD_skip (k : Nat) (l : List Char) : isCharDataGo k l = isCharDataGo 0 (l.drop k) := by
  induction k generalizing l with
  | zero => simp
  | succ k ih =>
    cases l with
    | nil => simp [isCharDataGo]
    | cons c r => simp only [isCharDataGo, List.drop_succ_cons]; exact ih r

/-- `isCharData` on `&` + reference + continuation -/
theorem isCD_ref (body Y : List Char) (k : Nat) (hk : k = body.length + 1)
    (href : refLen (body ++ ';' :: Y) = some k) : isCharDataGo 0 ('&' :: (body ++ ';' :: Y)) = isCharDataGo 0 Y := by
  have h1 : ('&' == '<') = false := by decide
  simp only [isCharDataGo, h1, Bool.false_eq_true, if_false, beq_self_eq_true, if_true, href]
  rw [isCD_skip, hk]
  congr 1
  have : body ++ ';' :: Y = (body ++ [';']) ++ Y := by simp
  rw [this]
  have hl : (body ++ [';']).length = body.length + 1 := by simp
  rw [← hl, drop_length_append]

/-- decomposition of an accepted string at its head -/
theorem isCD_cons (c : Char) (r : List Char) (h : isCharDataGo 0 (c :: r) = true) :
    c ≠ '<' ∧ ((c ≠ '&' ∧ isCharDataGo 0 r = true) ∨
      (c = '&' ∧ ∃ body rest k, r = body ++ ';' :: rest ∧ k = body.length + 1 ∧ (∀ x ∈ body, Inert x) ∧
        (∀ Y, refLen (body ++ ';' :: Y) = some k) ∧ (∃ d, d ≠ DCh.bad ∧ ∀ Y, specRef (body ++ ';' :: Y) = some (d, k)) ∧
        isCharDataGo 0 rest = true)) := by
  simp only [isCharDataGo] at h
  split at h
  · cases h
  · next hlt =>
    refine ⟨by simpa using hlt, ?_⟩
    split at h
    · next hamp =>
      right
      refine ⟨by simpa using hamp, ?_⟩
      cases hr : refLen r with
      | none => simp [hr] at h
      | some k =>
        simp only [hr] at h
        obtain ⟨body, rest, e1, e2, e3, e4, e5⟩ := refLen_some r k hr
        refine ⟨body, rest, k, e1, e2, e3, e4, e5, ?_⟩
        rw [isCD_skip, e1, e2] at h
        have : body ++ ';' :: rest = (body ++ [';']) ++ rest := by simp
        rw [this] at h
        have hl : (body ++ [';']).length = body.length + 1 := by simp
        rwa [← hl, drop_length_append] at h
    · next hamp => exact Or.inl ⟨by simpa using hamp, h⟩

theorem escCD_through (p Y : List Char) (hp : ∀ c ∈ p, c ≠ ']' ∧ c ≠ '>') (hne : p ≠ []) (n : Nat) :
    escCD n (p ++ Y) = p ++ escCD 0 Y := by
  rw [escCD_append, (escCD_pass p hp n).1, (escCD_pass p hp n).2 hne]

/-- `escapeCDEnd` keeps a string acceptable to `isCharData` -/
theorem isCD_escCD (m : Nat) : ∀ (x : List Char), x.length ≤ m → isCharDataGo 0 x = true →
    ∀ n, isCharDataGo 0 (escCD n x) = true := by
  induction m with
  | zero =>
    intro x hl _ n
    have : x = [] := List.length_eq_zero_iff.mp (by omega)
    subst this; rfl
  | succ m ih =>
    intro x hl h n
    cases x with
    | nil => rfl
    | cons c r =>
      simp only [List.length_cons] at hl
      obtain ⟨hlt, hcase⟩ := isCD_cons c r h
      rcases hcase with ⟨hamp, hr⟩ | ⟨rfl, body, rest, k, rfl, hk, hin, href, _, hrest⟩
      · have q1 : (c == '<') = false := by simpa using hlt
        have q2 : (c == '&') = false := by simpa using hamp
        simp only [escCD]
        split
        · simp only [isCharDataGo, q1, q2, Bool.false_eq_true, if_false]
          exact ih r (by omega) hr _
        · split
          · have := ih r (by omega) hr 0
            simpa [isCharDataGo, refLen, refLen.refNameChar, refLen.refNameStart, isDigit] using this
          · simp only [isCharDataGo, q1, q2, Bool.false_eq_true, if_false]
            exact ih r (by omega) hr _
      · have hp : ∀ c ∈ '&' :: (body ++ [';']), c ≠ ']' ∧ c ≠ '>' := by
          intro c hc
          simp only [List.mem_cons, List.mem_append, List.mem_nil_iff, or_false] at hc
          rcases hc with rfl | hc | rfl
          · decide
          · exact ⟨(hin c hc).1, (hin c hc).2.1⟩
          · decide
        have e : '&' :: (body ++ ';' :: rest) = ('&' :: (body ++ [';'])) ++ rest := by simp
        rw [e, escCD_through _ _ hp (by simp) n]
        have e2 : ('&' :: (body ++ [';'])) ++ escCD 0 rest = '&' :: (body ++ ';' :: escCD 0 rest) := by simp
        rw [e2, isCD_ref body _ k hk (href _)]
        exact ih rest (by simp at hl; omega) hrest 0

theorem escQuote_through (q : Char) (esc p Y : List Char) (hp : ∀ c ∈ p, c ≠ q) :
    escQuote q esc (p ++ Y) = p ++ escQuote q esc Y := by
  rw [escQuote_append, escQuote_id q esc p hp]

/-- `EscapeAttrVal`'s replacement of the chosen quote keeps a string acceptable to `isCharData` -/
theorem isCD_escQuote (q : Char) (esc : List Char) (hq : q = '"' ∨ q = '\'')
    (hesc : ∀ Y, isCharDataGo 0 (esc ++ Y) = isCharDataGo 0 Y) (m : Nat) :
    ∀ (x : List Char), x.length ≤ m → isCharDataGo 0 x = true → isCharDataGo 0 (escQuote q esc x) = true := by
  induction m with
  | zero =>
    intro x hl _
    have : x = [] := List.length_eq_zero_iff.mp (by omega)
    subst this; rfl
  | succ m ih =>
    intro x hl h
    cases x with
    | nil => rfl
    | cons c r =>
      simp only [List.length_cons] at hl
      obtain ⟨hlt, hcase⟩ := isCD_cons c r h
      rcases hcase with ⟨hamp, hr⟩ | ⟨rfl, body, rest, k, rfl, hk, hin, href, _, hrest⟩
      · have q1 : (c == '<') = false := by simpa using hlt
        have q2 : (c == '&') = false := by simpa using hamp
        simp only [escQuote]
        split
        · rw [hesc]; exact ih r (by omega) hr
        · simp only [isCharDataGo, q1, q2, Bool.false_eq_true, if_false]
          exact ih r (by omega) hr
      · have hp : ∀ c ∈ '&' :: (body ++ [';']), c ≠ q := by
          intro c hc
          simp only [List.mem_cons, List.mem_append, List.mem_nil_iff, or_false] at hc
          rcases hc with rfl | hc | rfl
          · rcases hq with rfl | rfl <;> decide
          · rcases hq with rfl | rfl
            · exact (hin c hc).2.2.1
            · exact (hin c hc).2.2.2.1
          · rcases hq with rfl | rfl <;> decide
        have e : '&' :: (body ++ ';' :: rest) = ('&' :: (body ++ [';'])) ++ rest := by simp
        rw [e, escQuote_through q esc _ _ hp]
        have e2 : ('&' :: (body ++ [';'])) ++ escQuote q esc rest = '&' :: (body ++ ';' :: escQuote q esc rest) := by simp
        rw [e2, isCD_ref body _ k hk (href _)]
        exact ih rest (by simp at hl; omega) hrest

/-- what `isCharData` guarantees in terms of the specification decoder: no `<`, no `&` that does not start a reference -/
theorem isCD_spec (a : Bool) (m : Nat) : ∀ (x : List Char), x.length ≤ m → isCharDataGo 0 x = true →
    '<' ∉ x ∧ DCh.bad ∉ decodeGo a 0 x := by
  induction m with
  | zero =>
    intro x hl _
    have : x = [] := List.length_eq_zero_iff.mp (by omega)
    subst this; simp [decodeGo]
  | succ m ih =>
    intro x hl h
    cases x with
    | nil => simp [decodeGo]
    | cons c r =>
      simp only [List.length_cons] at hl
      obtain ⟨hlt, hcase⟩ := isCD_cons c r h
      rcases hcase with ⟨hamp, hr⟩ | ⟨rfl, body, rest, k, rfl, hk, hin, _, ⟨d, hd, hspec⟩, hrest⟩
      · obtain ⟨i1, i2⟩ := ih r (by omega) hr
        have q2 : (c == '&') = false := by simpa using hamp
        refine ⟨by simp [hlt.symm, i1], ?_⟩
        simp only [decodeGo, q2, Bool.false_eq_true, if_false, List.mem_cons, not_or]
        refine ⟨?_, i2⟩
        split
        · simp
        · simp only [lit]; split <;> simp
      · obtain ⟨i1, i2⟩ := ih rest (by simp at hl; omega) hrest
        refine ⟨?_, ?_⟩
        · simp only [List.mem_cons, List.mem_append, not_or]
          refine ⟨by decide, fun hb => (hin _ hb).2.2.2.2.1 rfl, by decide, i1⟩
        · simp only [decodeGo, beq_self_eq_true, if_true, hspec rest, List.mem_cons, not_or]
          refine ⟨fun h => hd h.symm, ?_⟩
          rw [decodeGo_skip, hk]
          have : body ++ ';' :: rest = (body ++ [';']) ++ rest := by simp
          rw [this]
          have hl2 : (body ++ [';']).length = body.length + 1 := by simp
          rw [← hl2, drop_length_append]
          exact i2


theorem hasCdEndB_eq (l : List Char) : svgCDataSub.hasCdEndB l = hasCdEnd l := by
  induction l with
  | nil => rfl
  | cons c r ih => simp only [svgCDataSub.hasCdEndB, hasCdEnd, ih]; rfl

theorem escQuote_noq (q : Char) (esc : List Char) (hesc : q ∉ esc) (l : List Char) : q ∉ escQuote q esc l := by
  induction l with
  | nil => simp [escQuote]
  | cons c r ih =>
    simp only [escQuote]
    split
    · simp [hesc, ih]
    · next hc =>
      simp only [List.mem_cons, not_or]
      exact ⟨fun h => hc (by simp [h]), ih⟩

end Verif.Proofs.C09Svg

import Verif.Model.C09SvgText
import Verif.Proofs.C09XmlLex
/-!
# C09 (SVG) — the per-token writers of `svg.go` write well-formed character data, CDATA sections and attribute
value literals; what is demanded of the CSS sub-minifier (contracts) and that a white-space-removing sub-minifier
violates them

Lifted from C06: `scan_text` (entity replacement over units), `escCD_text` / `escCD_free` (`cdend_escape`),
`cdata_token` / `escCData_flat` (`cdata_chars`), `escapeAttrVal_flat` (`attr_escape`).
-/
namespace Verif.Proofs.C09Svg
open Verif.Xml (XTok)
open Verif.Spec.Xml
open Verif.Model.Xml
open Verif.Model.C09SvgText
open Verif.Proofs.Xml
open Verif.Proofs.C09XmlLex (wfText_ne_nil)
open Verif.Gen

/-! ## `bracketWriter` -/

theorem brAfter_all (b : List Char) (h : ∀ c ∈ b, c = ']') : ∀ n, brAfter n b = n + b.length := by
  induction b with
  | nil => intro n; rfl
  | cons c r ih =>
    intro n
    have hc : c = ']' := h c (by simp)
    subst hc
    simp only [brAfter, beq_self_eq_true, if_true, List.length_cons]
    rw [ih (fun c hc => h c (by simp [hc]))]
    omega

/-- `bracketWriter.Write` keeps `bw.n` equal to what `escapeCDEnd` computes: the number of `]` at the end of
everything written -/
theorem bwWrite_eq_brAfter (n : Nat) (b : List Char) : bwWrite n b = brAfter n b := by
  have hsplit := List.takeWhile_append_dropWhile (p := (· == ']')) (l := b.reverse)
  have hb : b = (b.reverse.dropWhile (· == ']')).reverse ++ (b.reverse.takeWhile (· == ']')).reverse := by
    rw [← List.reverse_append, hsplit, List.reverse_reverse]
  have htk : ∀ c ∈ (b.reverse.takeWhile (· == ']')).reverse, c = ']' := by
    intro c hc
    have := mem_takeWhile_imp' _ _ _ (List.mem_reverse.mp hc)
    simpa using this
  unfold bwWrite trailingBr
  cases hd : b.reverse.dropWhile (· == ']') with
  | nil =>
    rw [hd] at hb
    have hlen : (b.reverse.takeWhile (· == ']')).length = b.length := by
      have := congrArg List.length hb
      simp at this
      omega
    simp only [hlen, beq_self_eq_true, if_true]
    rw [brAfter_all b (by rw [hb]; simpa using htk)]
  | cons c dr =>
    have hc : (c == ']') = false := by
      have := List.head_dropWhile_not (p := (· == ']')) (l := b.reverse) (by rw [hd]; simp)
      simpa [hd] using this
    rw [hd] at hb
    have hlen : (b.reverse.takeWhile (· == ']')).length ≠ b.length := by
      have := congrArg List.length hb
      simp at this
      omega
    have hne : ((b.reverse.takeWhile (· == ']')).length == b.length) = false := by simpa using hlen
    simp only [hne, Bool.false_eq_true, if_false]
    conv => rhs; rw [hb]
    simp only [List.reverse_cons, List.append_assoc, List.singleton_append]
    rw [brAfter_append]
    simp only [brAfter, hc, Bool.false_eq_true, if_false]
    rw [brAfter_all _ htk]
    simp

theorem bwTotal_eq (ws : List (List Char)) : ∀ n, bwTotal n ws = brAfter n ws.flatten := by
  induction ws with
  | nil => intro n; rfl
  | cons w r ih =>
    intro n
    simp only [bwTotal, List.foldl_cons, List.flatten_cons] at ih ⊢
    rw [ih, bwWrite_eq_brAfter, brAfter_append]

theorem cdState_eq_brAfter (l : List Char) : ∀ n, cdState n l = brAfter n l := by
  induction l with
  | nil => intro n; rfl
  | cons c r ih => intro n; simp only [cdState, brAfter, ih]

/-! ## white space over units -/

theorem ref_no_ws (u : XUnit) (hu : u.ok = true) (hr : ∀ c, u ≠ .lit c) : ∀ c ∈ u.chars, isWs c = false := by
  have a1 : isWs '&' = false := by decide
  have a2 : isWs '#' = false := by decide
  have a3 : isWs 'x' = false := by decide
  have a4 : isWs ';' = false := by decide
  cases u with
  | lit c => exact absurd rfl (hr c)
  | named nm =>
    simp only [XUnit.ok, Bool.and_eq_true, List.all_eq_true] at hu
    intro c hc
    simp only [XUnit.chars, List.mem_cons, List.mem_append, List.mem_nil_iff, or_false] at hc
    rcases hc with r | r | r
    · subst r; exact a1
    · exact (nameChar_pass c (hu.2 c r)).1
    · subst r; exact a4
  | dec ds =>
    simp only [XUnit.ok, Bool.and_eq_true, List.all_eq_true] at hu
    intro c hc
    simp only [XUnit.chars, List.mem_cons, List.mem_append, List.mem_nil_iff, or_false] at hc
    rcases hc with r | r | r | r
    · subst r; exact a1
    · subst r; exact a2
    · exact (hex_pass c (dig_hex c (hu.1.2 c r))).1
    · subst r; exact a4
  | hex ds =>
    simp only [XUnit.ok, Bool.and_eq_true, List.all_eq_true] at hu
    intro c hc
    simp only [XUnit.chars, List.mem_cons, List.mem_append, List.mem_nil_iff, or_false] at hc
    rcases hc with r | r | r | r | r
    · subst r; exact a1
    · subst r; exact a2
    · subst r; exact a3
    · exact (hex_pass c (hu.1.2 c r)).1
    · subst r; exact a4

theorem chars_all_ws (u : XUnit) (hu : u.ok = true) : u.chars.all isWs = isWsLit u := by
  cases u with
  | lit c => simp [XUnit.chars, isWsLit, isWs_eq_isS_ok c hu]
  | named nm => simp [XUnit.chars, isWsLit, show isWs '&' = false by decide]
  | dec ds => simp [XUnit.chars, isWsLit, show isWs '&' = false by decide]
  | hex ds => simp [XUnit.chars, isWsLit, show isWs '&' = false by decide]

theorem flat_all_ws (us : List XUnit) (hok : us.all XUnit.ok = true) : (flat us).all isWs = us.all isWsLit := by
  induction us with
  | nil => rfl
  | cons u r ih =>
    simp only [List.all_cons, Bool.and_eq_true] at hok
    rw [flat_cons, List.all_append, chars_all_ws u hok.1, ih hok.2, List.all_cons]

theorem dropWhile_flat (us : List XUnit) (hok : us.all XUnit.ok = true) :
    (flat us).dropWhile isWs = flat (us.dropWhile isWsLit) := by
  induction us with
  | nil => rfl
  | cons u r ih =>
    simp only [List.all_cons, Bool.and_eq_true] at hok
    cases u with
    | lit c =>
      have hc := isWs_eq_isS_ok c hok.1
      by_cases hs : isS c = true
      · have hw : isWs c = true := by rw [hc]; exact hs
        simp only [flat_cons, XUnit.chars, List.singleton_append, List.dropWhile_cons, isWsLit, hw, hs, if_true]
        exact ih hok.2
      · have hs' : isS c = false := by simpa using hs
        have hw : isWs c = false := by rw [hc]; exact hs'
        simp [flat_cons, XUnit.chars, isWsLit, hw, hs']
    | named nm => simp [flat_cons, XUnit.chars, isWsLit, show isWs '&' = false by decide]
    | dec ds => simp [flat_cons, XUnit.chars, isWsLit, show isWs '&' = false by decide]
    | hex ds => simp [flat_cons, XUnit.chars, isWsLit, show isWs '&' = false by decide]

theorem trimEnd_pass (x Y : List Char) (hx : ∀ c ∈ x, isWs c = false) : trimEnd (x ++ Y) = x ++ trimEnd Y := by
  induction x with
  | nil => rfl
  | cons c r ih =>
    have hc : isWs c = false := hx c (by simp)
    simp only [List.cons_append, trimEnd, hc, Bool.false_and, Bool.false_eq_true, if_false]
    rw [ih (fun c hc => hx c (by simp [hc]))]

/-- `TrimWhitespace` (right side) on a sequence of units removes literal white space units at the end -/
theorem trimEnd_flat (us : List XUnit) (hok : us.all XUnit.ok = true) :
    ∃ us', trimEnd (flat us) = flat us' ∧ us'.all XUnit.ok = true := by
  induction us with
  | nil => exact ⟨[], rfl, rfl⟩
  | cons u r ih =>
    simp only [List.all_cons, Bool.and_eq_true] at hok
    obtain ⟨us2, e1, e2⟩ := ih hok.2
    by_cases hlit : ∃ c, u = .lit c
    · obtain ⟨c, rfl⟩ := hlit
      simp only [flat_cons, XUnit.chars, List.singleton_append, trimEnd]
      split
      · exact ⟨[], rfl, rfl⟩
      · exact ⟨.lit c :: us2, by simp [flat_cons, XUnit.chars, e1], by simp [hok.1, e2]⟩
    · have hr : ∀ c, u ≠ .lit c := fun c h => hlit ⟨c, h⟩
      refine ⟨u :: us2, ?_, by simp [hok.1, e2]⟩
      rw [flat_cons, trimEnd_pass _ _ (ref_no_ws u hok.1 hr), e1, flat_cons]

theorem trimWs_flat (us : List XUnit) (hok : us.all XUnit.ok = true) :
    ∃ us', trimWs (flat us) = flat us' ∧ us'.all XUnit.ok = true := by
  unfold trimWs
  rw [dropWhile_flat us hok]
  exact trimEnd_flat _ (all_ok_dropWhile us _ hok)

theorem collapse_pass (x Y : List Char) (hx : ∀ c ∈ x, isWs c = false) (hne : x ≠ []) :
    ∀ b, collapseWs b (x ++ Y) = x ++ collapseWs false Y := by
  induction x with
  | nil => exact absurd rfl hne
  | cons c r ih =>
    intro b
    have hc : isWs c = false := hx c (by simp)
    simp only [List.cons_append, collapseWs, hc, Bool.false_eq_true, if_false]
    cases r with
    | nil => rfl
    | cons d r' =>
      rw [ih (fun c hc => hx c (by simp [hc])) (by simp) false]

/-- `ReplaceMultipleWhitespace` on a sequence of units -/
theorem collapse_flat (us : List XUnit) (hok : us.all XUnit.ok = true) :
    ∀ b, ∃ us', collapseWs b (flat us) = flat us' ∧ us'.all XUnit.ok = true := by
  induction us with
  | nil => intro b; exact ⟨[], by simp [flat, collapseWs], rfl⟩
  | cons u r ih =>
    intro b
    simp only [List.all_cons, Bool.and_eq_true] at hok
    by_cases hlit : ∃ c, u = .lit c
    · obtain ⟨c, rfl⟩ := hlit
      simp only [flat_cons, XUnit.chars, List.singleton_append, collapseWs]
      split
      · split
        · exact ih hok.2 true
        · obtain ⟨us2, e1, e2⟩ := ih hok.2 true
          refine ⟨.lit (if isNewline c || ((flat r).takeWhile isWs).any isNewline then '\n' else ' ') :: us2, ?_, ?_⟩
          · simp [flat_cons, XUnit.chars, e1]
          · simp only [List.all_cons, e2, Bool.and_true]
            split <;> decide
      · obtain ⟨us2, e1, e2⟩ := ih hok.2 false
        exact ⟨.lit c :: us2, by simp [flat_cons, XUnit.chars, e1], by simp [hok.1, e2]⟩
    · have hr : ∀ c, u ≠ .lit c := fun c h => hlit ⟨c, h⟩
      obtain ⟨us2, e1, e2⟩ := ih hok.2 false
      refine ⟨u :: us2, ?_, by simp [hok.1, e2]⟩
      rw [flat_cons, collapse_pass _ _ (ref_no_ws u hok.1 hr) (chars_ne_nil u) b, e1, flat_cons]

/-- a sequence of units as character data -/
theorem units_text (us : List XUnit) (hok : us.all XUnit.ok = true) : flat us = [] ∨ WfText (flat us) := by
  by_cases h : us = []
  · subst h; exact Or.inl rfl
  · exact Or.inr ⟨us, hok, rfl, h⟩


/-- `ReplaceMultipleWhitespaceAndEntities` with the XML entity table and ANY sound reverse table on a sequence of
units (generalises `Proofs.Xml.scan_text_aux`, which is stated for `TextRevEntitiesMap`) -/
theorem scan_ws_units (rv : List (Char × List Char)) (hrv : RevOk rv) (n : Nat) : ∀ us : List XUnit, us.length ≤ n →
    us.all XUnit.ok = true →
    ∃ us', scan true XmlTables.entities rv 0 (flat us) = flat us' ∧ us'.all XUnit.ok = true := by
  induction n with
  | zero =>
    intro us hl _
    have : us = [] := List.length_eq_zero_iff.mp (by omega)
    subst this
    exact ⟨[], by simp [flat, scan], by simp⟩
  | succ n ih =>
    intro us hl hok
    cases us with
    | nil => exact ⟨[], by simp [flat, scan], by simp⟩
    | cons u r =>
      simp only [List.all_cons, Bool.and_eq_true] at hok
      simp only [List.length_cons] at hl
      by_cases hlit : ∃ c, u = .lit c
      · obtain ⟨c, rfl⟩ := hlit
        have hc := isWs_eq_isS_ok c hok.1
        by_cases hs : isS c = true
        · have hw : isWs c = true := by rw [hc]; exact hs
          obtain ⟨t1, t2⟩ := flat_takeWhile_ws r hok.2
          have hlen : (r.dropWhile isWsLit).length ≤ n := by
            have := (List.dropWhile_sublist isWsLit (l := r)).length_le
            omega
          obtain ⟨us2, e1, e2⟩ := ih (r.dropWhile isWsLit) hlen (all_ok_dropWhile r _ hok.2)
          let w : Char := if isNewline c || ((flat r).takeWhile isWs).any isNewline then '\n' else ' '
          have hwS : isS w = true := by
            simp only [w]; split <;> decide
          refine ⟨.lit w :: us2, ?_, ?_⟩
          · simp only [flat_cons, XUnit.chars, List.singleton_append, scan, hw, Bool.true_and, if_true]
            rw [scan_skip, t1, t2, e1]
            simp only [w, t1]
          · simp only [List.all_cons, Bool.and_eq_true]
            refine ⟨?_, e2⟩
            simp only [XUnit.ok, litOk, hwS, Bool.true_or, Bool.and_true, Bool.and_eq_true, bne_iff_ne, ne_eq]
            simp only [w]; split <;> decide
        · have hs' : isS c = false := by simpa using hs
          have hw : isWs c = false := by rw [hc]; exact hs'
          have hamp : (c == '&') = false := by
            simp only [XUnit.ok, litOk, Bool.and_eq_true, bne_iff_ne, ne_eq] at hok
            simpa using hok.1.1.2
          obtain ⟨us2, e1, e2⟩ := ih r (by omega) hok.2
          refine ⟨.lit c :: us2, ?_, by simp [hok.1, e2]⟩
          simp [flat_cons, XUnit.chars, scan, hw, hamp, e1]
      · have hr : ∀ c, u ≠ .lit c := fun c h => hlit ⟨c, h⟩
        obtain ⟨u', s1, s2, _, _⟩ := step_rev true rv hrv u (flat r) hok.1 hr
        obtain ⟨us2, e1, e2⟩ := ih r (by omega) hok.2
        refine ⟨u' :: us2, ?_, by simp [s2, e2]⟩
        rw [flat_cons, s1, e1, flat_cons]

end Verif.Proofs.C09Svg

import Verif.Proofs.C09Xml
import Verif.Proofs.C09XmlLexSound
/-!
# C09 (XML) — property-level theorems

* `xml_lex_roundtrip` — the independent tokeniser is a left inverse of serialisation on grammatical streams.
* `xml_output_relexes` — flagship, full (the former guard `piEndHazard`, trigger of K-C09-Xml-1, is gone: fixed in /repo
  59fe76b, the model `Model/Xml.lean` follows): the bytes written by the model of `xml.Minify` re-tokenise to exactly
  the intended stream.
* `xml_second_pass_defined` — (full) the stream read back satisfies the hypotheses of all C06 / C09 theorems again.
* `xml_idempotent_counterexample` — the second pass is in general not the identity (not a C09 violation).
-/
namespace Verif.Proofs.C09Xml
open Verif.Xml (XTok)
open Verif.Spec.Xml
open Verif.Spec.C09XmlLex
open Verif.Model.Xml
open Verif.Proofs.Xml
open Verif.Proofs.C09XmlLex

/-- **xml_lex_roundtrip** (full; specification side only): for EVERY token stream in reader's view that follows the
grammar `canonOk` (maximal well-formed runs of character data, `Name`s, quoted attribute value literals without
`<` / bare `&` / their own quote, CDATA sections / comments / DOCTYPE / end tags that carry their delimiters and
end at their first closing delimiter, PI data without `?>`), the independent XML 1.0 tokeniser reads the
serialised bytes back as exactly that stream: every token ends where it was meant to end. -/
theorem xml_lex_roundtrip (vs : List XTok) (h : canonOk false vs = true) : xmlTokens (bytesOf vs) = some vs :=
  lex_roundtrip vs h

/-- tokens of `<?x y?><a k="v&lt;" l='"'>t &amp; u<![CDATA[<<<<<]]><b/></a >` in reader's view -/
def exCanon : List XTok :=
  [.startTagPI ['x'], .attrBare [' ', 'y'] [' ', 'y'], .startTagClosePI,
   .startTag ['a'], .attr ['k'] ['"', 'v', '&', 'l', 't', ';', '"'], .attr ['l'] ['\'', '"', '\''], .startTagClose,
   .text ['t', ' ', '&', 'a', 'm', 'p', ';', ' ', 'u'],
   .cdata "<![CDATA[<<<<<]]>".toList "<<<<<".toList, .startTag ['b'], .startTagCloseVoid,
   .endTag ['<', '/', 'a', ' ', '>'] ['a']]

example : canonOk false exCanon = true ∧
    bytesOf exCanon = "<?x y?><a k=\"v&lt;\" l='\"'>t &amp; u<![CDATA[<<<<<]]><b/></a >".toList := by decide

/-- **xml_output_relexes** (full): for ALL options and ALL token streams `ts` that satisfy the lexer contract `lexOk`
(shape, names, delimiters; no `>` / `/>` token inside a PI) and whose text / attribute / CDATA tokens follow the XML 1.0
grammar (`WfTokP`), the bytes written by the loop of `xml.go` (all branches: text with entity replacement, white space
trimming and `escapeCDEnd`; CDATA kept or converted by `EscapeCDATAVal`; attributes through `ReplaceEntities` and
`EscapeAttrVal`, pseudo-attributes of a PI through `EscapeAttrVal` only (59fe76b); comments dropped; `<a></a>` → `<a/>`;
end tags, PIs, DOCTYPE) are accepted by the independent tokeniser and re-tokenise to EXACTLY the intended token stream
`emit o true ts` in reader's view (adjacent text tokens are one run of character data; PI data is raw).  In particular
every attribute literal ends where intended, there is no raw `<` / bare `&`, a kept CDATA section ends at its own `]]>`,
no `]]>` occurs in character data, a PI ends at its own `?>`, and the stream is grammatical (`canonOk`). -/
theorem xml_output_relexes (o : XmlOpts) (ts : List XTok) (hwf : ∀ x ∈ ts, WfTokP x)
    (hlex : lexOk .content ts = true) :
    xmlTokens (xmlMinify o ts) = some (view (emit o true ts)) ∧ canonOk false (view (emit o true ts)) = true := by
  obtain ⟨h1, h2, h3, h4⟩ := emit_facts o ts hwf hlex
  have hc := view_canonOk (emit o true ts) h1 h4 h3 h2
  refine ⟨?_, hc⟩
  have := lex_roundtrip _ hc
  rwa [bytesOf_view, ← xmlMinify_bytes o ts h3] at this

/-- **xml_output_markup_exact** (full): the stream read back from the output bytes has exactly the markup skeleton of the
emitted stream — the same start tags, attributes with the same value literals, `>` / `/>`, end tags, kept CDATA
sections, DOCTYPE, PI targets, in the same order (`skeleton` drops only `text` tokens and the data items of PIs) — and
the same bytes: the reader's view differs from the intended stream only in how character data and PI data are grouped. -/
theorem xml_output_markup_exact (o : XmlOpts) (ts : List XTok) (hwf : ∀ x ∈ ts, WfTokP x)
    (hlex : lexOk .content ts = true) :
    ∃ ts', xmlTokens (xmlMinify o ts) = some ts' ∧ skeleton ts' = skeleton (emit o true ts) ∧
      bytesOf ts' = xmlMinify o ts := by
  obtain ⟨hre, _⟩ := xml_output_relexes o ts hwf hlex
  obtain ⟨_, _, h3, _⟩ := emit_facts o ts hwf hlex
  exact ⟨_, hre, view_skeleton _ h3, by rw [bytesOf_view, xmlMinify_bytes o ts h3]⟩

/-- tokens of `<a k="v&#9;"> x <b/> y <!--c--> z</a>` as the dependency lexer delivers them -/
def exLex : List XTok :=
  [.startTag ['a'], .attr ['k'] ['"', 'v', '&', '#', '9', ';', '"'], .startTagClose, .text [' ', 'x', ' '],
   .startTag ['b'], .startTagCloseVoid, .text [' ', 'y', ' '], .comment ['<', '!', '-', '-', 'c', '-', '-', '>'],
   .text [' ', 'z'], .endTag ['<', '/', 'a', '>'] ['a']]

theorem exLex_wf : ∀ x ∈ exLex, WfTokP x := by
  intro x hx
  simp only [exLex, List.mem_cons, List.mem_nil_iff, or_false] at hx
  rcases hx with rfl | rfl | rfl | rfl | rfl | rfl | rfl | rfl | rfl | rfl
  · trivial
  · exact ⟨'"', [.lit 'v', .dec ['9']], Or.inl rfl, by decide, by decide, by decide⟩
  · trivial
  · exact ⟨[.lit ' ', .lit 'x', .lit ' '], by decide, by decide, by decide⟩
  · trivial
  · trivial
  · exact ⟨[.lit ' ', .lit 'y', .lit ' '], by decide, by decide, by decide⟩
  · trivial
  · exact ⟨[.lit ' ', .lit 'z'], by decide, by decide, by decide⟩
  · trivial

/-- the hypotheses are satisfiable by a document with mixed content, a reference in an attribute and a comment; the
adjacent text tokens ` y` and ` z` (comment removed in between) are one run for the reader -/
example : (∀ x ∈ exLex, WfTokP x) ∧ lexOk .content exLex = true ∧
    xmlMinify ⟨false⟩ exLex = "<a k=\"v&#9;\">x<b/> y z</a>".toList ∧
    view (emit ⟨false⟩ true exLex) =
      [.startTag ['a'], .attr ['k'] ['"', 'v', '&', '#', '9', ';', '"'], .startTagClose, .text ['x'],
       .startTag ['b'], .startTagCloseVoid, .text [' ', 'y', ' ', 'z'], .endTag ['<', '/', 'a', '>'] ['a']] :=
  ⟨exLex_wf, by decide, by decide, by decide⟩

/-- tokens of `<a><?x k="?&gt;"?></a>` (K-C09-Xml-1) -/
def exPiEnd : List XTok :=
  [.startTag ['a'], .startTagClose, .startTagPI ['x'], .attr ['k'] ['"', '?', '&', 'g', 't', ';', '"'],
   .startTagClosePI, .endTag ['<', '/', 'a', '>'] ['a']]

theorem exPiEnd_wf : ∀ x ∈ exPiEnd, WfTokP x := by
  intro x hx
  simp only [exPiEnd, List.mem_cons, List.mem_nil_iff, or_false] at hx
  rcases hx with rfl | rfl | rfl | rfl | rfl | rfl
  · trivial
  · trivial
  · trivial
  · exact ⟨'"', [.lit '?', .named ['g', 't']], Or.inl rfl, by decide, by decide, by decide⟩
  · trivial
  · trivial

/-- regression of K-C09-Xml-1 (fixed in /repo 59fe76b): `<a><?x k="?&gt;"?></a>` is written byte for byte — the reference
inside the PI is not decoded, the PI ends at its own `?>` -/
example : (∀ x ∈ exPiEnd, WfTokP x) ∧ lexOk .content exPiEnd = true ∧
    xmlMinify ⟨false⟩ exPiEnd = "<a><?x k=\"?&gt;\"?></a>".toList ∧
    xmlTokens (xmlMinify ⟨false⟩ exPiEnd) = some (view (emit ⟨false⟩ true exPiEnd)) :=
  ⟨exPiEnd_wf, by decide, by decide, by decide⟩

/-- **xml_second_pass_defined** (item 5; full): the token stream `ts'` read back from the output bytes by the independent
tokeniser (it exists and is the reader's view of the emitted stream) satisfies ALL hypotheses of the C06 theorems and of
`xml_output_relexes` again — token contents follow the grammar (`WfTokP`), the lexer contract `lexOk` with `lexShape` and
`bareInPI` — so the model of the minifier is defined on it, every C06 guarantee (`xml_infoset`, `xml_wellformed`,
`xml_attr_value`, …) holds for the second pass, and the output of the second pass again re-tokenises to its intended
stream (for every option set of the second pass). -/
theorem xml_second_pass_defined (o : XmlOpts) (ts : List XTok) (hwf : ∀ x ∈ ts, WfTokP x)
    (hlex : lexOk .content ts = true) :
    ∃ ts', xmlTokens (xmlMinify o ts) = some ts' ∧
      (∀ x ∈ ts', WfTokP x) ∧ lexOk .content ts' = true ∧ lexShape false ts' = true ∧ bareInPI false ts' = true ∧
      ∀ o2 : XmlOpts, xmlTokens (xmlMinify o2 ts') = some (view (emit o2 true ts')) ∧
        canonOk false (view (emit o2 true ts')) = true := by
  obtain ⟨hre, hc⟩ := xml_output_relexes o ts hwf hlex
  obtain ⟨h1, _, _, _⟩ := emit_facts o ts hwf hlex
  have hwf' : ∀ x ∈ view (emit o true ts), WfTokP x := by
    have hin : ∀ x ∈ emit o true ts, WfTokP x := by
      intro x hx
      have := h1 x hx
      cases x <;> exact this
    exact (viewGo_wfTokP _ hin).1 [] (Or.inl rfl)
  have hl' := canon_lexOk _ _ (Nat.le_refl _) false hc
  simp only [Bool.false_eq_true, if_false] at hl'
  have hsh := lexOk_shape _ .content hl'
  exact ⟨_, hre, hwf', hl', hsh.1, hsh.2, fun o2 => xml_output_relexes o2 _ hwf' hl'⟩

/-- **xml_lex_sound** (full; specification side only): whatever the independent tokeniser returns follows the grammar of
token streams — with `xml_lex_roundtrip` it is a retraction of byte strings onto grammatical streams. -/
theorem xml_lex_sound (s : List Char) (vs : List XTok) (h : xmlTokens s = some vs) :
    canonOk false vs = true ∧ xmlTokens (bytesOf vs) = some vs :=
  ⟨lex_sound s vs h, lex_roundtrip vs (lex_sound s vs h)⟩

/-- one pass over bytes with the independent tokeniser as the front end of the model of `xml.Minify` -/
def passBytes (o : XmlOpts) (s : List Char) : Option (List Char) := (xmlTokens s).map (xmlMinify o)

/-- any number of passes, each with its own options -/
def passes : List XmlOpts → List Char → Option (List Char)
  | [], s => some s
  | o :: os, s => (passBytes o s).bind (passes os)

/-- **xml_accepted_in_accepted_out** (full, hypotheses on BYTES only): for EVERY byte string the independent tokeniser
accepts (every document that is well-formed at the token level) and every option set, the output of the model of
`xml.Minify` on its tokens is accepted by the tokeniser again and re-tokenises to exactly the intended stream.  (The
tokeniser as front end delivers the data of a PI as one raw item; the real lexer's deviation from this front end that
still matters is K-C09-Xml-4, the DOCTYPE token.) -/
theorem xml_accepted_in_accepted_out (o : XmlOpts) (s : List Char) (vs : List XTok) (h : xmlTokens s = some vs) :
    xmlTokens (xmlMinify o vs) = some (view (emit o true vs)) ∧ canonOk false (view (emit o true vs)) = true := by
  have hc := lex_sound s vs h
  have hl := canon_lexOk _ _ (Nat.le_refl _) false hc
  simp only [Bool.false_eq_true, if_false] at hl
  exact xml_output_relexes o vs (canon_wfTokP _ _ (Nat.le_refl _) false hc) hl

/-- **xml_passes_defined** (full): minification can be repeated for ever — for every accepted document and every finite
sequence of option sets, every pass is defined and its output is accepted by the tokeniser again. -/
theorem xml_passes_defined (os : List XmlOpts) : ∀ (s : List Char), (xmlTokens s).isSome = true →
    ∃ out, passes os s = some out ∧ (xmlTokens out).isSome = true := by
  induction os with
  | nil => intro s h; exact ⟨s, rfl, h⟩
  | cons o os ih =>
    intro s h
    cases hs : xmlTokens s with
    | none => rw [hs] at h; cases h
    | some vs =>
      have h2 := (xml_accepted_in_accepted_out o s vs hs).1
      obtain ⟨out, e1, e2⟩ := ih (xmlMinify o vs) (by rw [h2]; rfl)
      exact ⟨out, by simp [passes, passBytes, hs, e1], e2⟩

example : passes [⟨false⟩, ⟨true⟩, ⟨false⟩] "<a k = 'v'> <![CDATA[ x ]]> <b></b><?p q ?></a >".toList =
    some "<a k='v'>x<b/><?p q ?></a>".toList := by decide

/-- tokens of `<a><![CDATA[ x ]]></a>` -/
def exIdem : List XTok :=
  [.startTag ['a'], .startTagClose, .cdata "<![CDATA[ x ]]>".toList [' ', 'x', ' '], .endTag ['<', '/', 'a', '>'] ['a']]

theorem exIdem_wf : ∀ x ∈ exIdem, WfTokP x := by
  intro x hx
  simp only [exIdem, List.mem_cons, List.mem_nil_iff, or_false] at hx
  rcases hx with rfl | rfl | rfl | rfl
  · trivial
  · trivial
  · intro c hc
    revert c
    decide
  · trivial

/-- idempotence — full statement: the second pass reproduces the token stream of the first -/
def xml_idempotent_full : Prop :=
  ∀ (o : XmlOpts) (ts : List XTok), (∀ x ∈ ts, WfTokP x) → lexOk .content ts = true →
    view (emit o true (view (emit o true ts))) = view (emit o true ts)

/-- **xml_idempotent_counterexample**: minification is NOT idempotent (this is no C09 violation: both outputs are
well-formed and accepted again).  `<a><![CDATA[ x ]]></a>` → `<a> x </a>` (the content of a CDATA section is
written as text unchanged) → second pass `<a>x</a>` (text next to tags is trimmed); reproduced on the real code.
Further instances on the real code: `<a>a&#32; b</a>` → `<a>a  b</a>` → `<a>a b</a>`; `<a> &#x20; </a>` →
`<a> </a>` → `<a/>`. -/
theorem xml_idempotent_counterexample : ¬ xml_idempotent_full := by
  intro h
  have := h ⟨false⟩ exIdem exIdem_wf (by decide)
  revert this
  decide

example : xmlMinify ⟨false⟩ exIdem = "<a> x </a>".toList ∧
    xmlMinify ⟨false⟩ (view (emit ⟨false⟩ true exIdem)) = "<a>x</a>".toList := by decide

end Verif.Proofs.C09Xml

import Verif.Proofs.C09HtmlModelTag
import Verif.Model.C09HtmlFront
/-!
# C09 / HTML, item 5 — the model of html.go is defined on every token stream (in particular on the tokens of its own
output): the only `Except.error` it can return is a missing entry of the external-result table `ext`
-/
namespace Verif.Proofs.C09HtmlSecond
open Verif.Model.Html Verif.Model.HtmlAttr Verif.Proofs.C09HtmlTag Verif.Gen

def IsExtErr (e : String) : Prop := ∃ k : String, e = "ext missing: " ++ k

theorem callExt_isExt {ext : Ext} {kind : String} {inp : List Char} {e : String}
    (h : callExt ext kind inp = .error e) : IsExtErr e := by
  unfold callExt at h
  split at h
  · cases h
  · cases h; exact ⟨kind, rfl⟩

theorem urlVal_isExt {ext : Ext} {v : List Char} {e : String} (h : urlVal ext v = .error e) : IsExtErr e := by
  unfold urlVal at h
  repeat (any_goals (split at h))
  all_goals first | (cases h; done) | exact callExt_isExt h

theorem attrBody_isExt (o : Opts) (ext : Ext) (sub : Sub) (tag rawTag : List Char) (x : AttrSt) (tr : Nat)
    (val0 : List Char) (finish : List Char → Option (List Char) → Except String (List Char × Option (List Char)))
    (hf : ∀ v mt e, finish v mt = .error e → IsExtErr e) (e : String)
    (h : attrBody o ext sub tag rawTag x tr val0 finish = .error e) : IsExtErr e := by
  unfold attrBody at h
  simp only [bind, Except.bind] at h
  repeat (any_goals (split at h))
  all_goals first
    | (exact hf _ _ _ h)
    | (cases h; done)
    | (cases h; exact callExt_isExt (by assumption))
    | (cases h; exact urlVal_isExt (by assumption))

theorem writeAttr_isExt (o : Opts) (ext : Ext) (sub : Sub) (tag rawTag : List Char) (x : AttrSt) (e : String)
    (h : writeAttr o ext sub tag rawTag x = .error e) : IsExtErr e := by
  rw [writeAttr_eq] at h
  split at h
  · cases h
  · split at h
    · cases h
    · exact attrBody_isExt o ext sub tag rawTag x _ _ _ (fun v mt e' h' => by cases h') e h

theorem writeAttrs_isExt (o : Opts) (ext : Ext) (sub : Sub) (tag rawTag : List Char) (as : List AttrSt) :
    ∀ (mt : Option (List Char)) (e : String), writeAttrs o ext sub tag rawTag as mt = .error e → IsExtErr e := by
  induction as with
  | nil => intro mt e h; simp [writeAttrs] at h
  | cons x xs ih =>
    intro mt e h
    simp only [writeAttrs, bind, Except.bind] at h
    split at h
    · next err herr => cases h; exact writeAttr_isExt o ext sub tag rawTag x _ herr
    · split at h
      · next err herr => cases h; exact ih _ _ herr
      · cases h

theorem commentOut_isExt (o : Opts) (ext : Ext) (data text : List Char) (e : String)
    (h : commentOut o ext data text = .error e) : IsExtErr e := by
  unfold commentOut at h
  simp only [bind, Except.bind] at h
  repeat (any_goals (split at h))
  all_goals first | (cases h; done) | (cases h; exact callExt_isExt (by assumption))

theorem specialAttrs_isExt (ext : Ext) (tag : List Char) (as : List AttrSt) (e : String)
    (h : specialAttrs ext tag as = .error e) : IsExtErr e := by
  unfold specialAttrs at h
  simp only [bind, Except.bind] at h
  repeat (any_goals (split at h))
  all_goals first | (cases h; done) | (cases h; exact callExt_isExt (by assumption))

theorem specialAttrsOpt_isExt (o : Opts) (ext : Ext) (tag : List Char) (as : List AttrSt) (e : String)
    (h : specialAttrsOpt o ext tag as = .error e) : IsExtErr e := by
  unfold specialAttrsOpt at h
  split at h
  · cases h
  · exact specialAttrs_isExt ext tag as e h

theorem step_isExt (o : Opts) (ext : Ext) (sub : Sub) (st : St) (t : HTok) (rest : List HTok) (e : String)
    (h : step o ext sub st t rest = .error e) : IsExtErr e := by
  unfold step at h
  split at h
  · cases h
  · cases t with
    | doctype => cases h
    | comment data text =>
      simp only [bind, Except.bind] at h
      split at h
      · next err herr => cases h; exact commentOut_isExt o ext data text _ herr
      · cases h
    | svg data => cases h
    | math data => cases h
    | template data => cases h
    | text data tmpl =>
      simp only at h
      repeat (any_goals (split at h))
      all_goals cases h
    | endTag name data => cases h
    | startTag name attrs =>
      simp only [bind, Except.bind] at h
      split at h
      · cases h
      · split at h
        · cases h
        · split at h
          · next err herr => cases h; exact specialAttrsOpt_isExt o ext name _ _ herr
          · split at h
            · next err herr => cases h; exact writeAttrs_isExt o ext sub name _ _ _ _ herr
            · cases h

theorem run_isExt (o : Opts) (ext : Ext) (sub : Sub) (toks : List HTok) :
    ∀ (st : St) (e : String), run o ext sub st toks = .error e → IsExtErr e := by
  induction toks with
  | nil => intro st e h; simp [run] at h
  | cons t rest ih =>
    intro st e h
    simp only [run, bind, Except.bind] at h
    split at h
    · next err herr => cases h; exact step_isExt o ext sub st t rest _ herr
    · split at h
      · next err herr => cases h; exact ih _ _ herr
      · cases h

/-- the external-result table answers every query the model makes on this token stream -/
def ExtClosed (o : Opts) (ext : Ext) (sub : Sub) (toks : List HTok) : Prop :=
  ∀ e, htmlMinify o ext sub toks = .error e → ¬ IsExtErr e

/-- **html_second_pass_defined.**  For every option set, external-result table, sub-minifier and EVERY token stream —
    in particular the tokens of the output of a first pass —: the model of `(*Minifier).Minify` either returns bytes or
    fails with `ext missing: <kind>` (the harness did not supply the result of `minify.Mediatype` / `DataURI` / viewport
    `minify.Number` / the recursive call for that input; these are other properties' functions).  There is no other way
    for the model to fail.  The real code additionally propagates errors of sub-minifiers and lexer errors other than EOF
    (outside the model; the harness runs the real second pass on every output). -/
theorem html_second_pass_defined (o : Opts) (ext : Ext) (sub : Sub) (toks : List HTok) :
    (∃ out, htmlMinify o ext sub toks = .ok out) ∨ (∃ k : String, htmlMinify o ext sub toks = .error ("ext missing: " ++ k)) := by
  cases h : htmlMinify o ext sub toks with
  | ok out => exact Or.inl ⟨out, rfl⟩
  | error e =>
    obtain ⟨k, hk⟩ := run_isExt o ext sub toks {} e h
    exact Or.inr ⟨k, by rw [hk]⟩

/-- with an external-result table that is closed under the queries made, the second pass succeeds -/
theorem html_second_pass_succeeds (o : Opts) (ext : Ext) (sub : Sub) (toks : List HTok)
    (hc : ExtClosed o ext sub toks) : ∃ out, htmlMinify o ext sub toks = .ok out := by
  rcases html_second_pass_defined o ext sub toks with h | ⟨k, h⟩
  · exact h
  · exact absurd ⟨k, rfl⟩ (hc _ h)

/-- non-vacuity: a stream without queries is closed under the empty table; one with a `type` attribute on `script` is not -/
example : ∃ out, htmlMinify {} [] none [.startTag "p".toList [], .text "a".toList false] = .ok out :=
  html_second_pass_succeeds _ _ _ _ (by
    intro e h
    have : htmlMinify {} [] none [.startTag "p".toList [], .text "a".toList false] = .ok "<p>a".toList := by
      decide +kernel
    rw [this] at h; cases h)

/-! ## idempotence is NOT a property of html.go -/
open Verif.Model.C09HtmlFront

/-- the statement that is not claimed: minifying the output again gives the same bytes -/
def html_idempotent_full : Prop :=
  ∀ (o : Opts) (ext : Ext) (sub : Sub) (toks : List HTok) (out1 out2 : List Char),
    htmlMinify o ext sub toks = .ok out1 → htmlMinify o ext sub (frontEnd out1) = .ok out2 → out2 = out1

/-- **html_idempotent_counterexample.**  Two of the classes found on the real code (`docs/C09-html.md` lists all):
    (1) `aa</p><!-- -->` → `aa</p>` → `aa`: the look-ahead that decides about omitting `</p>` stops at a comment, the
    comment is then removed, and the next pass omits the end tag (no sub-minifier involved);
    (2) `<script> </script>` → `<script></script>` → nothing: the content is minified to nothing, and an attribute-less
    empty `script` element is removed by the next pass (sub-minifier: anything that maps white space to nothing).
    Non-idempotence is not a C09 violation; a failing second pass or invalid output would be. -/
theorem html_idempotent_counterexample : ¬ html_idempotent_full := by
  intro h
  have h1 : htmlMinify {} [] none [.text "aa".toList false, .endTag "p".toList "</p>".toList,
      .comment "<!-- -->".toList " ".toList] = .ok "aa</p>".toList := by decide +kernel
  have h2 : htmlMinify {} [] none (frontEnd "aa</p>".toList) = .ok "aa".toList := by decide +kernel
  have := h {} [] none _ _ _ h1 h2
  revert this; decide

/-- class (2), on the model with a sub-minifier that returns nothing for white space -/
example :
    let sub : Sub := some (fun _ _ p => if p.all Verif.Model.HtmlAttr.isWhitespace then [] else p)
    htmlMinify {} [] sub [.startTag "script".toList [], .text " ".toList false, .endTag "script".toList "</script>".toList]
      = .ok "<script></script>".toList ∧
    htmlMinify {} [] sub (frontEnd "<script></script>".toList) = .ok [] := by
  decide +kernel

end Verif.Proofs.C09HtmlSecond

import Verif.Spec.HtmlAttr
import Verif.Spec.HtmlKnown
import Verif.Model.HtmlAttr
/-!
# C03 — helper lemmas for the attribute / character-reference theorems
-/
namespace Verif.Proofs.HtmlAttr
open Verif.Spec.HtmlAttr Verif.Spec.HtmlKnown

/-! ## list lemmas -/

theorem takeWhile_append_stop {α} (p : α → Bool) (a t : List α)
    (h : ∀ d, t.head? = some d → p d = false) : (a ++ t).takeWhile p = a.takeWhile p := by
  induction a with
  | nil =>
    cases t with
    | nil => rfl
    | cons d t' => simp [List.takeWhile, h d rfl]
  | cons c a ih =>
    simp only [List.cons_append, List.takeWhile]
    cases p c <;> simp [ih]

theorem takeWhile_length_le {α} (p : α → Bool) (a : List α) : (a.takeWhile p).length ≤ a.length := by
  induction a with
  | nil => simp
  | cons c a ih => simp only [List.takeWhile]; cases p c <;> simp; omega

theorem drop_append_le {α} (a t : List α) (n : Nat) (h : n ≤ a.length) : (a ++ t).drop n = a.drop n ++ t := by
  rw [List.drop_append_of_le_length h]

/-- `t` is empty or starts with a character that cannot occur inside a reference -/
def NonRef (t : List Char) : Prop := ∀ d, t.head? = some d → isRefCh d = false

theorem isRefCh_false {d : Char} (h : isRefCh d = false) :
    isAlnum d = false ∧ d ≠ '#' ∧ d ≠ ';' ∧ d ≠ '=' := by
  simp [isRefCh] at h
  exact ⟨h.1.1.1, h.1.1.2, h.1.2, h.2⟩

theorem isAlnum_false {d : Char} (h : isAlnum d = false) : isDigit d = false ∧ isAlpha d = false := by
  simp [isAlnum] at h; exact h

theorem isHex_alnum {d : Char} (h : isAlnum d = false) : isHex d = false := by
  have ⟨h1, h2⟩ := isAlnum_false h
  simp only [isHex, isDigit, isUpperHex, isLowerHex, isAlpha, Bool.or_eq_false_iff, Bool.and_eq_false_iff,
    decide_eq_false_iff_not] at *
  omega

theorem semiLen_append (a t : List Char) (h : NonRef t) : semiLen (a ++ t) = semiLen a := by
  cases a with
  | nil =>
    cases t with
    | nil => rfl
    | cons d t' =>
      have := (isRefCh_false (h d rfl)).2.2.1
      simp [semiLen, this]
  | cons c a => simp [semiLen]

theorem blocksAttrRef_append (a t : List Char) (h : NonRef t) : blocksAttrRef (a ++ t) = blocksAttrRef a := by
  cases a with
  | nil =>
    cases t with
    | nil => rfl
    | cons d t' =>
      have hh := isRefCh_false (h d rfl)
      simp [blocksAttrRef, hh.1, hh.2.2.2]
  | cons c a => simp [blocksAttrRef]

theorem nonRef_head {t : List Char} (h : NonRef t) (p : Char → Bool)
    (hp : ∀ d, isRefCh d = false → p d = false) : ∀ d, t.head? = some d → p d = false :=
  fun d hd => hp d (h d hd)

/-! ## `matchRef` looks only at reference characters -/

theorem numericOf_append (base : Nat) (isD : Char → Bool) (pre : Nat) (a t : List Char) (h : NonRef t)
    (hp : ∀ d, isRefCh d = false → isD d = false) :
    numericOf base isD pre (a ++ t) = numericOf base isD pre a := by
  unfold numericOf
  have h1 : (a ++ t).takeWhile isD = a.takeWhile isD := takeWhile_append_stop isD a t (nonRef_head h isD hp)
  simp only [h1]
  rw [drop_append_le a t _ (takeWhile_length_le isD a), semiLen_append _ _ h]

theorem matchNumeric_append (a t : List Char) (h : NonRef t) (ha : a ≠ []) :
    matchNumeric (a ++ t) = matchNumeric a := by
  have hx : ∀ d, isRefCh d = false → isHex d = false := fun d hd => isHex_alnum (isRefCh_false hd).1
  have hd : ∀ d, isRefCh d = false → isDigit d = false := fun d hd => (isAlnum_false (isRefCh_false hd).1).1
  match a, ha with
  | c :: a', _ =>
    simp only [List.cons_append, matchNumeric]
    by_cases hc : c = '#'
    · simp only [hc, if_true]
      cases a' with
      | nil =>
        cases t with
        | nil => rfl
        | cons d t' =>
          have hh := isRefCh_false (h d rfl)
          have hdx : d ≠ 'x' := by intro e; subst e; exact absurd hh.1 (by decide)
          have hdX : d ≠ 'X' := by intro e; subst e; exact absurd hh.1 (by decide)
          simp only [List.nil_append, hdx, hdX, or_self, if_false]
          have e1 := numericOf_append 10 isDigit 1 [] (d :: t') h hd
          simp only [List.nil_append] at e1
          rw [e1]; rfl
      | cons c2 a'' =>
        simp only [List.cons_append]
        split
        · exact numericOf_append 16 isHex 2 a'' t h hx
        · exact numericOf_append 10 isDigit 1 (c2 :: a'') t h hd
    · simp [hc]

theorem longestFrom_le (run : List Char) (n k : Nat) (cps : List Nat)
    (h : longestFrom run n = some (k, cps)) : k ≤ n := by
  induction n with
  | zero => simp [longestFrom] at h
  | succ m ih =>
    simp only [longestFrom] at h
    split at h
    · simp at h; omega
    · have := ih h; omega

theorem matchNamed_append (attr : Bool) (a t : List Char) (h : NonRef t) :
    matchNamed attr (a ++ t) = matchNamed attr a := by
  have hal : ∀ d, isRefCh d = false → isAlnum d = false := fun d hd => (isRefCh_false hd).1
  unfold matchNamed
  have h1 : (a ++ t).takeWhile isAlnum = a.takeWhile isAlnum :=
    takeWhile_append_stop isAlnum a t (nonRef_head h isAlnum hal)
  simp only [h1]
  rw [drop_append_le a t _ (takeWhile_length_le isAlnum a), semiLen_append _ _ h]
  split
  · rfl
  · split
    · rfl
    · next k cps hk =>
      have hk1 := longestFrom_le _ _ _ _ hk
      have hk2 := takeWhile_length_le isAlnum a
      have hk3 : k ≤ a.length := by omega
      rw [drop_append_le a t k hk3, blocksAttrRef_append _ _ h]

theorem matchRef_append (attr : Bool) (a t : List Char) (h : NonRef t) :
    matchRef attr (a ++ t) = matchRef attr a := by
  unfold matchRef
  cases a with
  | nil =>
    cases t with
    | nil => rfl
    | cons d t' =>
      have hh := isRefCh_false (h d rfl)
      have : ¬ (d = '#') := hh.2.1
      simp only [List.nil_append, List.head?_cons, Option.some.injEq, this, if_false, List.head?_nil]
      have := matchNamed_append attr [] (d :: t') h
      simpa using this
  | cons c a' =>
    simp only [List.cons_append, List.head?_cons]
    by_cases hc : some c = some '#'
    · simp only [hc, if_true]; exact matchNumeric_append (c :: a') t h (by simp)
    · simp only [hc, if_false]; exact matchNamed_append attr (c :: a') t h

/-! ## a reference never extends beyond the text it was found in -/

theorem semiLen_le (a : List Char) : semiLen a ≤ a.length := by
  cases a with
  | nil => simp [semiLen]
  | cons c a => simp only [semiLen]; split <;> simp

theorem numericOf_le (base : Nat) (isD : Char → Bool) (pre : Nat) (a : List Char) (us : List DU) (k : Nat)
    (h : numericOf base isD pre a = some (us, k)) : k ≤ pre + a.length := by
  unfold numericOf at h
  simp only at h
  split at h
  · simp at h
  · simp only [Option.some.injEq, Prod.mk.injEq] at h
    have h1 := takeWhile_length_le isD a
    have h2 := semiLen_le (a.drop (a.takeWhile isD).length)
    simp only [List.length_drop] at h2
    omega

theorem matchNumeric_le (a : List Char) (us : List DU) (k : Nat)
    (h : matchNumeric a = some (us, k)) : k ≤ a.length := by
  unfold matchNumeric at h
  split at h
  · next c r =>
    split at h
    · split at h
      · next x hh =>
        split at h
        · have := numericOf_le _ _ _ _ _ _ h; simp; omega
        · have := numericOf_le _ _ _ _ _ _ h; simp at this ⊢; omega
      · simp at h
    · simp at h
  · simp at h

theorem matchNamed_le (attr : Bool) (a : List Char) (us : List DU) (k : Nat)
    (h : matchNamed attr a = some (us, k)) : k ≤ a.length := by
  unfold matchNamed at h
  simp only at h
  have hr := takeWhile_length_le isAlnum a
  split at h
  · next r hr' =>
    simp only [Option.some.injEq] at h
    subst h
    split at hr'
    · next hs =>
      have h2 := semiLen_le (a.drop (a.takeWhile isAlnum).length)
      simp only [List.length_drop] at h2
      cases hl : lookupName (List.takeWhile isAlnum a ++ [';']) with
      | none => simp [hl] at hr'
      | some cps =>
        simp [hl] at hr'
        rw [← hr'.2]; omega
    · simp at hr'
  · split at h
    · simp at h
    · next k' cps hk =>
      have := longestFrom_le _ _ _ _ hk
      split at h
      · simp at h
      · simp at h; omega

theorem matchRef_le (attr : Bool) (a : List Char) (us : List DU) (k : Nat)
    (h : matchRef attr a = some (us, k)) : k ≤ a.length := by
  unfold matchRef at h
  split at h
  · exact matchNumeric_le a us k h
  · exact matchNamed_le attr a us k h

/-! ## decoding is compositional at a non-reference character -/

theorem dec_append (attr : Bool) (a t : List Char) (h : NonRef t) :
    ∀ k, k ≤ a.length → dec attr k (a ++ t) = dec attr k a ++ dec attr 0 t := by
  induction a with
  | nil => intro k hk; simp at hk; subst hk; simp [dec]
  | cons c a ih =>
    intro k hk
    cases k with
    | succ k' =>
      simp only [List.cons_append, dec]
      exact ih k' (by simpa using hk)
    | zero =>
      simp only [List.cons_append, dec]
      split
      · rw [matchRef_append attr a t h]
        split
        · next us k hm =>
          rw [ih k (matchRef_le attr a us k hm)]; simp
        · rw [ih 0 (by omega)]; simp
      · rw [ih 0 (by omega)]; simp

theorem decodeRefs_append (attr : Bool) (a t : List Char) (h : NonRef t) :
    decodeRefs attr (a ++ t) = decodeRefs attr a ++ decodeRefs attr t :=
  dec_append attr a t h 0 (by omega)

theorem dec_drop (attr : Bool) : ∀ (k : Nat) (s : List Char), dec attr k s = dec attr 0 (s.drop k) := by
  intro k
  induction k with
  | zero => intro s; simp
  | succ k ih =>
    intro s
    cases s with
    | nil => simp [dec]
    | cons c s => simp only [dec, List.drop_succ_cons]; exact ih s

theorem dec_ref (attr : Bool) (s : List Char) (us : List DU) (k : Nat) (h : matchRef attr s = some (us, k)) :
    dec attr 0 ('&' :: s) = us ++ dec attr 0 (s.drop k) := by
  rw [dec]; simp only [if_true, h]; rw [dec_drop]

theorem dec_noref (attr : Bool) (s : List Char) (h : matchRef attr s = none) :
    dec attr 0 ('&' :: s) = .lit '&' :: dec attr 0 s := by
  rw [dec]; simp only [if_true, h]

/-! ## `escapeAttrVal` -/
open Verif.Model.HtmlAttr in
theorem escapeQuote_not_mem (q : Char) (ent a : List Char) (h : q ∉ a) : escapeQuote q ent a = a := by
  induction a with
  | nil => rfl
  | cons c a ih =>
    simp only [List.mem_cons, not_or] at h
    simp only [escapeQuote]
    rw [if_neg (fun e => h.1 e.symm), ih h.2]

open Verif.Model.HtmlAttr in
theorem escapeQuote_append (q : Char) (ent a b : List Char) :
    escapeQuote q ent (a ++ b) = escapeQuote q ent a ++ escapeQuote q ent b := by
  induction a with
  | nil => rfl
  | cons c a ih =>
    simp only [List.cons_append, escapeQuote]
    split <;> simp [ih]

open Verif.Model.HtmlAttr in
theorem not_mem_escapeQuote (q : Char) (ent v : List Char) (h : q ∉ ent) : q ∉ escapeQuote q ent v := by
  induction v with
  | nil => simp [escapeQuote]
  | cons c v ih =>
    simp only [escapeQuote]
    split
    · simp [h, ih]
    · next hc => simp [ih]; exact fun (e : q = c) => hc e.symm

theorem matchRef_34 (attr : Bool) (t : List Char) :
    matchRef attr ('#'::'3'::'4'::';'::t) = some ([DU.lit '"'], 4) := by
  simp only [matchRef, List.head?_cons, if_true, matchNumeric]
  simp [numericOf, List.takeWhile, isDigit, semiLen, numVal, digitVal, numericFix, mkCp, win1252, List.lookup]

theorem matchRef_39 (attr : Bool) (t : List Char) :
    matchRef attr ('#'::'3'::'9'::';'::t) = some ([DU.lit '\''], 4) := by
  simp only [matchRef, List.head?_cons, if_true, matchNumeric]
  simp [numericOf, List.takeWhile, isDigit, semiLen, numVal, digitVal, numericFix, mkCp, win1252, List.lookup]

theorem dec_lit (attr : Bool) (c : Char) (s : List Char) (h : c ≠ '&') :
    dec attr 0 (c :: s) = .lit c :: dec attr 0 s := by
  simp [dec, h]

theorem takeWhile_all {α} (p : α → Bool) (v : List α) : ∀ x ∈ v.takeWhile p, p x = true := by
  induction v with
  | nil => simp
  | cons c v ih =>
    simp only [List.takeWhile]
    cases hc : p c
    · simp
    · intro x hx; simp at hx; rcases hx with rfl | hx
      · exact hc
      · exact ih x hx

theorem dropWhile_head {α} (p : α → Bool) (v : List α) (d : α) (b : List α)
    (h : v.dropWhile p = d :: b) : p d = false := by
  induction v with
  | nil => simp at h
  | cons c v ih =>
    simp only [List.dropWhile] at h
    cases hc : p c
    · simp [hc] at h; rw [← h.1]; exact hc
    · simp [hc] at h; exact ih h

theorem mem_takeWhile_ne (q : Char) (v : List Char) : q ∉ v.takeWhile (fun c => c != q) := by
  intro hm
  have := takeWhile_all (fun c => c != q) v q hm
  simp at this

theorem dropWhile_ne_head (q : Char) (v : List Char) (d : Char) (b : List Char)
    (h : v.dropWhile (fun c => c != q) = d :: b) : d = q := by
  have := dropWhile_head (fun c => c != q) v d b h
  simpa using this

open Verif.Model.HtmlAttr in
/-- escaping a quote character by a numeric reference to it does not change the decoded value -/
theorem dec_escapeQuote (attr : Bool) (q : Char) (e1 e2 : Char) (hq : isRefCh q = false) (hq2 : q ≠ '&')
    (hent : ∀ t, matchRef attr ('#' :: e1 :: e2 :: ';' :: t) = some ([DU.lit q], 4)) :
    ∀ n (v : List Char), v.length ≤ n →
      decodeRefs attr (escapeQuote q ['&', '#', e1, e2, ';'] v) = decodeRefs attr v := by
  intro n
  induction n with
  | zero =>
    intro v hv
    have : v = [] := List.eq_nil_of_length_eq_zero (by omega)
    subst this; rfl
  | succ n ih =>
    intro v hv
    have hsplit := List.takeWhile_append_dropWhile (p := (fun c => c != q)) (l := v)
    cases hb : v.dropWhile (fun c => c != q) with
    | nil =>
      rw [hb, List.append_nil] at hsplit
      rw [← hsplit, escapeQuote_not_mem q _ _ (mem_takeWhile_ne q v)]
    | cons d b =>
      have hd := dropWhile_ne_head q v d b hb
      subst hd
      rw [hb] at hsplit
      have hlen : b.length ≤ n := by
        have : v.length = (v.takeWhile (fun c => c != d)).length + (b.length + 1) := by
          conv => lhs; rw [← hsplit]
          simp
        omega
      conv => rhs; rw [← hsplit]
      conv => lhs; rw [← hsplit]
      rw [escapeQuote_append, escapeQuote_not_mem d _ _ (mem_takeWhile_ne d v)]
      have hnr1 : NonRef (d :: b) := by intro x hx; simp at hx; subst hx; exact hq
      have hnr2 : NonRef (escapeQuote d ['&', '#', e1, e2, ';'] (d :: b)) := by
        intro x hx; simp [escapeQuote] at hx; subst hx; decide
      rw [decodeRefs_append attr _ _ hnr1, decodeRefs_append attr _ _ hnr2]
      congr 1
      simp only [escapeQuote, if_true, List.cons_append, List.nil_append, decodeRefs]
      rw [dec_lit attr d b hq2]
      simp only [dec, if_true, hent]
      simp only [List.cons_append, List.nil_append]
      exact congrArg _ (ih b hlen)

/-! ## tokenising what `escapeAttrVal` wrote -/

theorem takeWhile_append_all {α} (p : α → Bool) (a t : List α) (ha : ∀ x ∈ a, p x = true)
    (ht : ∀ d, t.head? = some d → p d = false) : (a ++ t).takeWhile p = a := by
  induction a with
  | nil =>
    cases t with
    | nil => rfl
    | cons d t' => simp [ht d rfl]
  | cons c a ih =>
    simp only [List.cons_append, List.takeWhile, ha c (by simp)]
    rw [ih (fun x hx => ha x (by simp [hx]))]

theorem tokenizeQuoted_ok (q : Char) (w rest : List Char) (h : q ∉ w) :
    tokenizeQuoted q (w ++ q :: rest) = some (w, rest) := by
  unfold tokenizeQuoted
  have h1 : (w ++ q :: rest).takeWhile (fun c => c != q) = w := by
    apply takeWhile_append_all
    · intro x hx; simp; intro e; subst e; exact h hx
    · intro d hd; simp at hd; subst hd; simp
  simp only [h1, List.drop_left]

theorem tokenizeAttr_quoted (q : Char) (w rest : List Char) (hq : q = '"' ∨ q = '\'') (h : q ∉ w) :
    tokenizeAttr (q :: w ++ q :: rest) = some (w, rest) := by
  simp only [List.cons_append, tokenizeAttr, hq, if_true]
  exact tokenizeQuoted_ok q w rest h

open Verif.Model.HtmlAttr in
theorem needsQuote_false {c : Char} (h : needsQuote c = false) :
    endsUnquoted c = false ∧ unquotedBad c = false ∧ c ≠ '"' ∧ c ≠ '\'' := by
  simp [needsQuote] at h
  simp [endsUnquoted, unquotedBad, isWs, h]

open Verif.Model.HtmlAttr in
theorem tokenizeAttr_unquoted (v rest : List Char) (hv : v ≠ [])
    (hall : v.all (fun c => !needsQuote c) = true) (hrest : tagContinues rest = true) :
    tokenizeAttr (v ++ rest) = some (v, rest) := by
  have hall' : ∀ x ∈ v, needsQuote x = false := by
    intro x hx; have := List.all_eq_true.mp hall x hx; simpa using this
  match v, hv with
  | c :: v', _ =>
    have hc := needsQuote_false (hall' c (by simp))
    have h1 : ((c :: v') ++ rest).takeWhile (fun c => !endsUnquoted c) = c :: v' := by
      apply takeWhile_append_all
      · intro x hx; simp [(needsQuote_false (hall' x hx)).1]
      · intro d hd
        cases rest with
        | nil => simp [tagContinues] at hrest
        | cons r rest' =>
          simp at hd; subst hd
          simp [tagContinues] at hrest
          rcases hrest with rfl | rfl <;> decide
    have h2 : (c :: v').any unquotedBad = false := by
      rw [List.any_eq_false]; intro x hx; simp [(needsQuote_false (hall' x hx)).2.1]
    simp only [List.cons_append, tokenizeAttr, hc.2.2.1, hc.2.2.2, or_self, if_false]
    unfold tokenizeUnquoted
    simp only [List.cons_append] at h1
    simp only [h1, h2]
    simp

end Verif.Proofs.HtmlAttr

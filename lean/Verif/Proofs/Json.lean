import Verif.Model.Json
/-!
# Helper lemmas for property C07 (lexeme grammars, repair, structural recursion lemmas)
-/
namespace Verif.Proofs.Json
open Verif.Spec.Json Verif.Model.Json

/-! ## lexemes -/

theorem stripMinus_cases (s : List Char) :
    (∃ r, s = '-' :: r ∧ stripMinus s = r) ∨ (stripMinus s = s ∧ ∀ r, s ≠ '-' :: r) := by
  unfold stripMinus
  split
  · exact Or.inl ⟨_, rfl, rfl⟩
  · rename_i h
    exact Or.inr ⟨rfl, fun r hr => h r hr⟩

theorem unsignedOk_head (s : List Char) (h : unsignedOk s = true) : ∃ c t, s = c :: t ∧ isDigit c = true := by
  cases s with
  | nil => simp [unsignedOk, intOk] at h
  | cons c t =>
    refine ⟨c, t, rfl, ?_⟩
    by_cases hd : isDigit c = true
    · exact hd
    · simp [unsignedOk, List.takeWhile, hd, intOk] at h

theorem isJsonNumber_startsNum (s : List Char) (h : isJsonNumber s = true) : startsNum s = true := by
  unfold isJsonNumber at h
  rcases stripMinus_cases s with ⟨r, rfl, _⟩ | ⟨he, _⟩
  · simp [startsNum]
  · rw [he] at h
    obtain ⟨c, t, rfl, hd⟩ := unsignedOk_head s h
    simp [startsNum, hd]

theorem isJsonString_startsNum (s : List Char) (h : isJsonString s = true) : startsNum s = false := by
  unfold isJsonString at h
  split at h
  · simp [startsNum, isDigit]
  · exact absurd h (by simp)

theorem lit_startsNum (l : Lit) : startsNum l.text = false := by
  cases l <;> simp [Lit.text, startsNum, isDigit]

theorem takeWhile_nil_dropWhile (p : Char → Bool) (u : List Char) (h : (u.takeWhile p).isEmpty = true) :
    u.dropWhile p = u := by
  cases u with
  | nil => rfl
  | cons c t =>
    by_cases hc : p c = true
    · simp [List.takeWhile, hc] at h
    · simp [List.dropWhile, hc]

theorem tw_dot (t : List Char) : ('.' :: t).takeWhile isDigit = [] := by simp [List.takeWhile, isDigit]
theorem dw_dot (t : List Char) : ('.' :: t).dropWhile isDigit = '.' :: t := by simp [List.dropWhile, isDigit]
theorem tw_zero_dot (t : List Char) : ('0' :: '.' :: t).takeWhile isDigit = ['0'] := by
  simp [List.takeWhile, isDigit]
theorem dw_zero_dot (t : List Char) : ('0' :: '.' :: t).dropWhile isDigit = '.' :: t := by
  simp [List.dropWhile, isDigit]

theorem unsignedMinOk_dot (t : List Char) (h : unsignedMinOk ('.' :: t) = true) :
    unsignedOk ('0' :: '.' :: t) = true := by
  simp only [unsignedMinOk, tw_dot, dw_dot] at h
  simp only [unsignedOk, tw_zero_dot, dw_zero_dot, intOk]
  simp only [Bool.and_eq_true] at h
  simpa using h.2

theorem unsignedMinOk_nodot (u : List Char) (hn : hasDot u = false) (h : unsignedMinOk u = true) :
    unsignedOk u = true := by
  unfold unsignedMinOk at h
  unfold unsignedOk
  by_cases he : (u.takeWhile isDigit).isEmpty = true
  · have := takeWhile_nil_dropWhile isDigit u he
    rw [this, hn] at h
    simp at h
    simp [h, this]
  · simp [he] at h
    simp [h]

theorem repair_cases (r : List Char) :
    (∃ t, r = '.' :: t ∧ repair r = '0' :: '.' :: t) ∨
    (∃ t, r = '-' :: '.' :: t ∧ repair r = '-' :: '0' :: '.' :: t) ∨
    (repair r = r ∧ startsDot r = false) := by
  unfold repair
  split
  · exact Or.inl ⟨_, rfl, rfl⟩
  · exact Or.inr (Or.inl ⟨_, rfl, rfl⟩)
  · rename_i h1 h2
    refine Or.inr (Or.inr ⟨rfl, ?_⟩)
    unfold startsDot
    split
    · exact absurd rfl (h1 _)
    · exact absurd rfl (h2 _)
    · rfl

theorem startsDot_false_hasDot (r : List Char) (h : startsDot r = false) : hasDot (stripMinus r) = false := by
  rcases stripMinus_cases r with ⟨u, rfl, hu⟩ | ⟨he, _⟩
  · rw [hu]
    cases u with
    | nil => rfl
    | cons c t =>
      by_cases hc : c = '.'
      · subst hc; simp [startsDot] at h
      · unfold hasDot; split
        · rename_i heq; injection heq with h1 _; exact absurd h1 hc
        · rfl
  · rw [he]
    cases r with
    | nil => rfl
    | cons c t =>
      by_cases hc : c = '.'
      · subst hc; simp [startsDot] at h
      · unfold hasDot; split
        · rename_i heq; injection heq with h1 _; exact absurd h1 hc
        · rfl

/-- the repair turns a number of the minifier grammar into a JSON number -/
theorem repair_json (r : List Char) (h : isMinNumber r = true) : isJsonNumber (repair r) = true := by
  rcases repair_cases r with ⟨t, rfl, hr⟩ | ⟨t, rfl, hr⟩ | ⟨hr, hs⟩
  · rw [hr]; exact unsignedMinOk_dot t h
  · rw [hr]; exact unsignedMinOk_dot t h
  · rw [hr]
    exact unsignedMinOk_nodot _ (startsDot_false_hasDot r hs) h

/-! ## values of number lexemes -/

theorem digitsVal_zero (fp : List Char) : digitsVal ('0' :: fp) = digitsVal fp := by
  simp [digitsVal]

theorem unsignedVal_zero_dot (t : List Char) (h : (t.takeWhile isDigit).isEmpty = false) :
    unsignedVal ('0' :: '.' :: t) = unsignedVal ('.' :: t) := by
  simp only [unsignedVal, tw_zero_dot, dw_zero_dot, tw_dot, dw_dot, fracDigits, afterFrac]
  simp [h, digitsVal_zero]

theorem fracExpOk_dot (t : List Char) (h : fracExpOk ('.' :: t) = true) :
    (t.takeWhile isDigit).isEmpty = false := by
  simp [fracExpOk, hasDot, fracDigits] at h
  simpa using h.1

theorem unsignedMinOk_dot_frac (t : List Char) (h : unsignedMinOk ('.' :: t) = true) :
    (t.takeWhile isDigit).isEmpty = false := by
  simp only [unsignedMinOk, tw_dot, dw_dot, Bool.and_eq_true] at h
  exact fracExpOk_dot t h.2

/-- the repair does not change the value -/
theorem repair_val (r : List Char) (h : isMinNumber r = true) : numVal (repair r) = numVal r := by
  rcases repair_cases r with ⟨t, rfl, hr⟩ | ⟨t, rfl, hr⟩ | ⟨hr, _⟩
  · rw [hr]
    have := unsignedVal_zero_dot t (unsignedMinOk_dot_frac t h)
    simp [numVal, stripSign, isNeg, this]
  · rw [hr]
    have := unsignedVal_zero_dot t (unsignedMinOk_dot_frac t h)
    simp [numVal, stripSign, isNeg, this]
  · rw [hr]

theorem expOk_val (x : List Char) (h : expOk x = true) : (expVal x).isSome = true := by
  cases x with
  | nil => simp [expVal]
  | cons c t =>
    simp only [expOk] at h
    simp [expVal, h]

theorem intOk_ne (ip : List Char) (h : intOk ip = true) : ip.isEmpty = false := by
  cases ip with
  | nil => simp [intOk] at h
  | cons _ _ => rfl

theorem unsignedOk_val (u : List Char) (h : unsignedOk u = true) : (unsignedVal u).isSome = true := by
  simp only [unsignedOk, fracExpOk, Bool.and_eq_true] at h
  obtain ⟨h1, _, h3⟩ := h
  have he := expOk_val _ h3
  simp only [unsignedVal, intOk_ne _ h1, Bool.false_and]
  cases hv : expVal (afterFrac (List.dropWhile isDigit u)) with
  | none => simp [hv] at he
  | some e => simp

theorem stripSign_of_unsignedOk (s : List Char) (h : unsignedOk (stripMinus s) = true) :
    stripSign s = stripMinus s := by
  rcases stripMinus_cases s with ⟨r, rfl, hr⟩ | ⟨he, hne⟩
  · rw [hr]; rfl
  · rw [he] at h ⊢
    obtain ⟨c, t, rfl, hd⟩ := unsignedOk_head s h
    unfold stripSign
    split
    · rename_i heq; exact absurd heq (hne _)
    · rename_i heq; injection heq with h1 _; subst h1; simp [isDigit] at hd
    · rfl

/-- every JSON number lexeme has a value -/
theorem isJsonNumber_val (s : List Char) (h : isJsonNumber s = true) : (numVal s).isSome = true := by
  unfold isJsonNumber at h
  simp only [numVal, Option.isSome_map, stripSign_of_unsignedOk s h]
  exact unsignedOk_val _ h

theorem numEq_of_val (a b : List Char) (ha : isJsonNumber a = true) (h : numVal b = numVal a) :
    numEq a b = true := by
  have := isJsonNumber_val a ha
  unfold numEq
  rw [h]
  cases hv : numVal a with
  | none => simp [hv] at this
  | some x => simp

/-! ## `compact` -/

@[simp] theorem noWs_child (i : Nat) : noWs.child i = noWs := rfl
@[simp] theorem noWs_pre : noWs.pre = [] := rfl
@[simp] theorem noWs_post : noWs.post = [] := rfl
@[simp] theorem noWs_inner : noWs.inner = [] := rfl
@[simp] theorem noWs_kpre (i : Nat) : noWs.kpre i = [] := rfl
@[simp] theorem noWs_kpost (i : Nat) : noWs.kpost i = [] := rfl

theorem compact_lit (l : Lit) : compact (.lit l) = l.text := by simp [compact, render]
theorem compact_num (s : List Char) : compact (.num s) = s := by simp [compact, render]
theorem compact_str (s : List Char) : compact (.str s) = s := by simp [compact, render]
theorem compact_arr (xs : List JV) :
    compact (.arr xs) = '[' :: (renderElems noWs 0 true xs ++ [']']) := by
  cases xs <;> simp [compact, render, renderElems]
theorem compact_obj (ms : List (List Char × JV)) :
    compact (.obj ms) = '{' :: (renderMems noWs 0 true ms ++ ['}']) := by
  cases ms <;> simp [compact, render, renderMems]

/-! ## the loop of json.go on the events of a value -/

theorem emitText_num (o : JsonOpts) (num : List Char → Int → List Char) (s : List Char)
    (h : startsNum s = true) : emitText o num s = jsonNum o num s := by
  unfold emitText jsonNum
  cases o.keepNumbers <;> simp [h]

theorem emitText_other (o : JsonOpts) (num : List Char → Int → List Char) (s : List Char)
    (h : startsNum s = false) : emitText o num s = s := by
  simp [emitText, h]

@[simp] theorem isStart_literal : isStart .literal = false := rfl
@[simp] theorem isStart_number : isStart .number = false := rfl
@[simp] theorem isStart_string : isStart .string = false := rfl
@[simp] theorem isStart_startObject : isStart .startObject = true := rfl
@[simp] theorem isStart_startArray : isStart .startArray = true := rfl
@[simp] theorem isStart_endObject : isStart .endObject = false := rfl
@[simp] theorem isStart_endArray : isStart .endArray = false := rfl
@[simp] theorem sep_endArray (b : Bool) (st : JState) : sep b st .endArray = [] := by simp [sep]
@[simp] theorem sep_endObject (b : Bool) (st : JState) : sep b st .endObject = [] := by simp [sep]
theorem sep_startArray (b : Bool) (st : JState) : sep b st .startArray = sep b st .literal := by
  simp [sep]
theorem sep_startObject (b : Bool) (st : JState) : sep b st .startObject = sep b st .literal := by
  simp [sep]
theorem sep_number (b : Bool) (st : JState) : sep b st .number = sep b st .literal := by
  simp [sep]
theorem sep_string (b : Bool) (st : JState) : sep b st .string = sep b st .literal := by
  simp [sep]
theorem emit_open (o : JsonOpts) (num : List Char → Int → List Char) : emitText o num ['['] = ['['] := by
  simp [emitText, startsNum, isDigit]
theorem emit_close (o : JsonOpts) (num : List Char → Int → List Char) : emitText o num [']'] = [']'] := by
  simp [emitText, startsNum, isDigit]
theorem emit_openO (o : JsonOpts) (num : List Char → Int → List Char) : emitText o num ['{'] = ['{'] := by
  simp [emitText, startsNum, isDigit]
theorem emit_closeO (o : JsonOpts) (num : List Char → Int → List Char) : emitText o num ['}'] = ['}'] := by
  simp [emitText, startsNum, isDigit]

theorem sep_first (st : JState) (g : JGram) : sep true st g = [] := by simp [sep]

mutual
theorem go_value (o : JsonOpts) (num : List Char → Int → List Char) :
    ∀ (v : JV), wf v = true → ∀ (skip : Bool) (st : JState) (rest : List Ev),
      minifyGo o num skip (events st v ++ rest) =
        sep skip st .literal ++ (compact (mapNum (jsonNum o num) v) ++ minifyGo o num false rest)
  | .lit l, _, skip, st, rest => by
    simp [events, minifyGo, mapNum, compact_lit, emitText_other _ _ _ (lit_startsNum l)]
  | .num s, hw, skip, st, rest => by
    have hs : isJsonNumber s = true := by simpa [wf] using hw
    simp [events, minifyGo, mapNum, compact_num, emitText_num _ _ _ (isJsonNumber_startsNum s hs),
      sep_number]
  | .str s, hw, skip, st, rest => by
    have hs : isJsonString s = true := by simpa [wf] using hw
    simp [events, minifyGo, mapNum, compact_str, emitText_other _ _ _ (isJsonString_startsNum s hs),
      sep_string]
  | .arr xs, hw, skip, st, rest => by
    have hs : wfElems xs = true := by simpa [wf] using hw
    have ih := go_elems o num xs hs true 0 ((.array, .endArray, [']']) :: rest)
    simp only [events, List.cons_append, List.append_assoc, List.nil_append, minifyGo, mapNum,
      compact_arr, isStart_startArray, isStart_endArray, sep_endArray, emit_open, emit_close,
      sep_startArray] at ih ⊢
    rw [ih]
  | .obj ms, hw, skip, st, rest => by
    have hs : wfMems ms = true := by simpa [wf] using hw
    have ih := go_mems o num ms hs true 0 ((.objectKey, .endObject, ['}']) :: rest)
    simp only [events, List.cons_append, List.append_assoc, List.nil_append, minifyGo, mapNum,
      compact_obj, isStart_startObject, isStart_endObject, sep_endObject, emit_openO, emit_closeO,
      sep_startObject] at ih ⊢
    rw [ih]
theorem go_elems (o : JsonOpts) (num : List Char → Int → List Char) :
    ∀ (xs : List JV), wfElems xs = true → ∀ (first : Bool) (i : Nat) (rest : List Ev),
      minifyGo o num first (eventsElems xs ++ rest) =
        renderElems noWs i first (mapNumElems (jsonNum o num) xs) ++
          minifyGo o num (first && xs.isEmpty) rest
  | [], _, first, i, rest => by simp [eventsElems, mapNumElems, renderElems]
  | x :: r, hw, first, i, rest => by
    have hs : wf x = true ∧ wfElems r = true := by simpa [wfElems] using hw
    have h1 := go_value o num x hs.1 first .array (eventsElems r ++ rest)
    have h2 := go_elems o num r hs.2 false (i + 1) rest
    simp only [eventsElems, List.append_assoc, mapNumElems, renderElems, noWs_child]
    rw [h1, h2]
    cases first <;> simp [sep, compact]
theorem go_mems (o : JsonOpts) (num : List Char → Int → List Char) :
    ∀ (ms : List (List Char × JV)), wfMems ms = true → ∀ (first : Bool) (i : Nat) (rest : List Ev),
      minifyGo o num first (eventsMems ms ++ rest) =
        renderMems noWs i first (mapNumMems (jsonNum o num) ms) ++
          minifyGo o num (first && ms.isEmpty) rest
  | [], _, first, i, rest => by simp [eventsMems, mapNumMems, renderMems]
  | (k, x) :: r, hw, first, i, rest => by
    have hs : (isJsonString k = true ∧ wf x = true) ∧ wfMems r = true := by simpa [wfMems] using hw
    have h1 := go_value o num x hs.1.2 false .objectValue (eventsMems r ++ rest)
    have h2 := go_mems o num r hs.2 false (i + 1) rest
    simp only [eventsMems, List.cons_append, List.append_assoc, mapNumMems, renderMems, noWs_child,
      minifyGo, emitText_other _ _ _ (isJsonString_startsNum k hs.1.1), isStart_string]
    rw [h1, h2]
    cases first <;> simp [sep, compact]
end

/-! ## `mapNum` keeps well-formedness, shape and value -/

mutual
theorem wf_mapNum (f : List Char → List Char)
    (hf : ∀ s, isJsonNumber s = true → isJsonNumber (f s) = true) :
    ∀ v : JV, wf v = true → wf (mapNum f v) = true
  | .lit _, _ => by simp [mapNum, wf]
  | .num s, hw => by simp only [mapNum, wf] at hw ⊢; exact hf s hw
  | .str s, hw => by simpa [mapNum, wf] using hw
  | .arr xs, hw => by simp only [mapNum, wf] at hw ⊢; exact wfElems_mapNum f hf xs hw
  | .obj ms, hw => by simp only [mapNum, wf] at hw ⊢; exact wfMems_mapNum f hf ms hw
theorem wfElems_mapNum (f : List Char → List Char)
    (hf : ∀ s, isJsonNumber s = true → isJsonNumber (f s) = true) :
    ∀ xs : List JV, wfElems xs = true → wfElems (mapNumElems f xs) = true
  | [], _ => by simp [mapNumElems, wfElems]
  | x :: r, hw => by
    simp only [mapNumElems, wfElems, Bool.and_eq_true] at hw ⊢
    exact ⟨wf_mapNum f hf x hw.1, wfElems_mapNum f hf r hw.2⟩
theorem wfMems_mapNum (f : List Char → List Char)
    (hf : ∀ s, isJsonNumber s = true → isJsonNumber (f s) = true) :
    ∀ ms : List (List Char × JV), wfMems ms = true → wfMems (mapNumMems f ms) = true
  | [], _ => by simp [mapNumMems, wfMems]
  | (k, x) :: r, hw => by
    simp only [mapNumMems, wfMems, Bool.and_eq_true] at hw ⊢
    exact ⟨⟨hw.1.1, wf_mapNum f hf x hw.1.2⟩, wfMems_mapNum f hf r hw.2⟩
end

mutual
theorem jvEq_mapNum (f : List Char → List Char)
    (hf : ∀ s, isJsonNumber s = true → numEq s (f s) = true) :
    ∀ v : JV, wf v = true → jvEq v (mapNum f v) = true
  | .lit _, _ => by simp [mapNum, jvEq]
  | .num s, hw => by simp only [mapNum, wf, jvEq] at hw ⊢; exact hf s hw
  | .str s, _ => by simp [mapNum, jvEq]
  | .arr xs, hw => by simp only [mapNum, wf, jvEq] at hw ⊢; exact jvEqElems_mapNum f hf xs hw
  | .obj ms, hw => by simp only [mapNum, wf, jvEq] at hw ⊢; exact jvEqMems_mapNum f hf ms hw
theorem jvEqElems_mapNum (f : List Char → List Char)
    (hf : ∀ s, isJsonNumber s = true → numEq s (f s) = true) :
    ∀ xs : List JV, wfElems xs = true → jvEqElems xs (mapNumElems f xs) = true
  | [], _ => by simp [mapNumElems, jvEqElems]
  | x :: r, hw => by
    simp only [mapNumElems, wfElems, jvEqElems, Bool.and_eq_true] at hw ⊢
    exact ⟨jvEq_mapNum f hf x hw.1, jvEqElems_mapNum f hf r hw.2⟩
theorem jvEqMems_mapNum (f : List Char → List Char)
    (hf : ∀ s, isJsonNumber s = true → numEq s (f s) = true) :
    ∀ ms : List (List Char × JV), wfMems ms = true → jvEqMems ms (mapNumMems f ms) = true
  | [], _ => by simp [mapNumMems, jvEqMems]
  | (k, x) :: r, hw => by
    simp only [mapNumMems, wfMems, jvEqMems, Bool.and_eq_true] at hw ⊢
    exact ⟨⟨by simp, jvEq_mapNum f hf x hw.1.2⟩, jvEqMems_mapNum f hf r hw.2⟩
end

mutual
theorem jvShapeEq_mapNum (f : List Char → List Char)
    (hf : ∀ s, isJsonNumber s = true → isJsonNumber (f s) = true) :
    ∀ v : JV, wf v = true → jvShapeEq v (mapNum f v) = true
  | .lit _, _ => by simp [mapNum, jvShapeEq]
  | .num s, hw => by simp only [mapNum, wf, jvShapeEq] at hw ⊢; exact hf s hw
  | .str s, _ => by simp [mapNum, jvShapeEq]
  | .arr xs, hw => by simp only [mapNum, wf, jvShapeEq] at hw ⊢; exact jvShapeEqElems_mapNum f hf xs hw
  | .obj ms, hw => by simp only [mapNum, wf, jvShapeEq] at hw ⊢; exact jvShapeEqMems_mapNum f hf ms hw
theorem jvShapeEqElems_mapNum (f : List Char → List Char)
    (hf : ∀ s, isJsonNumber s = true → isJsonNumber (f s) = true) :
    ∀ xs : List JV, wfElems xs = true → jvShapeEqElems xs (mapNumElems f xs) = true
  | [], _ => by simp [mapNumElems, jvShapeEqElems]
  | x :: r, hw => by
    simp only [mapNumElems, wfElems, jvShapeEqElems, Bool.and_eq_true] at hw ⊢
    exact ⟨jvShapeEq_mapNum f hf x hw.1, jvShapeEqElems_mapNum f hf r hw.2⟩
theorem jvShapeEqMems_mapNum (f : List Char → List Char)
    (hf : ∀ s, isJsonNumber s = true → isJsonNumber (f s) = true) :
    ∀ ms : List (List Char × JV), wfMems ms = true → jvShapeEqMems ms (mapNumMems f ms) = true
  | [], _ => by simp [mapNumMems, jvShapeEqMems]
  | (k, x) :: r, hw => by
    simp only [mapNumMems, wfMems, jvShapeEqMems, Bool.and_eq_true] at hw ⊢
    exact ⟨⟨by simp, jvShapeEq_mapNum f hf x hw.1.2⟩, jvShapeEqMems_mapNum f hf r hw.2⟩
end

mutual
/-- with the identity on number lexemes nothing changes -/
theorem mapNum_id (f : List Char → List Char) (hf : ∀ s, f s = s) : ∀ v : JV, mapNum f v = v
  | .lit _ => by simp [mapNum]
  | .num s => by simp [mapNum, hf]
  | .str s => by simp [mapNum]
  | .arr xs => by simp [mapNum, mapNumElems_id f hf xs]
  | .obj ms => by simp [mapNum, mapNumMems_id f hf ms]
theorem mapNumElems_id (f : List Char → List Char) (hf : ∀ s, f s = s) :
    ∀ xs : List JV, mapNumElems f xs = xs
  | [] => by simp [mapNumElems]
  | x :: r => by simp [mapNumElems, mapNum_id f hf x, mapNumElems_id f hf r]
theorem mapNumMems_id (f : List Char → List Char) (hf : ∀ s, f s = s) :
    ∀ ms : List (List Char × JV), mapNumMems f ms = ms
  | [] => by simp [mapNumMems]
  | (k, x) :: r => by simp [mapNumMems, mapNum_id f hf x, mapNumMems_id f hf r]
end

/-! ## length -/

theorem render_arr_len (w : Ws) (xs : List JV) :
    (renderElems w 0 true xs).length + 2 ≤ (render w (.arr xs)).length := by
  cases xs with
  | nil => simp [render, renderElems]; omega
  | cons x r => simp only [render, List.length_append, List.length_cons]; omega

theorem render_obj_len (w : Ws) (ms : List (List Char × JV)) :
    (renderMems w 0 true ms).length + 2 ≤ (render w (.obj ms)).length := by
  cases ms with
  | nil => simp [render, renderMems]; omega
  | cons x r => simp only [render, List.length_append, List.length_cons]; omega

mutual
theorem len_bound (f : List Char → List Char) (g : List Char → Bool)
    (hf : ∀ s, isJsonNumber s = true → (f s).length ≤ s.length + (if g s = true then 1 else 0)) :
    ∀ (v : JV), wf v = true → ∀ w : Ws,
      (compact (mapNum f v)).length ≤ (render w v).length + countNum g v
  | .lit l, _, w => by simp [mapNum, compact_lit, render]; omega
  | .num s, hw, w => by
    have := hf s (by simpa [wf] using hw)
    simp only [mapNum, compact_num, render, List.length_append, countNum]
    omega
  | .str s, _, w => by simp [mapNum, compact_str, render]; omega
  | .arr xs, hw, w => by
    have h1 := lenElems_bound f g hf xs (by simpa [wf] using hw) w 0 0 true
    have h2 := render_arr_len w xs
    simp only [mapNum, compact_arr, countNum, List.length_append, List.length_cons, List.length_nil]
    omega
  | .obj ms, hw, w => by
    have h1 := lenMems_bound f g hf ms (by simpa [wf] using hw) w 0 0 true
    have h2 := render_obj_len w ms
    simp only [mapNum, compact_obj, countNum, List.length_append, List.length_cons, List.length_nil]
    omega
theorem lenElems_bound (f : List Char → List Char) (g : List Char → Bool)
    (hf : ∀ s, isJsonNumber s = true → (f s).length ≤ s.length + (if g s = true then 1 else 0)) :
    ∀ (xs : List JV), wfElems xs = true → ∀ (w : Ws) (i j : Nat) (first : Bool),
      (renderElems noWs j first (mapNumElems f xs)).length ≤
        (renderElems w i first xs).length + countNumElems g xs
  | [], _, w, i, j, first => by simp [mapNumElems, renderElems]
  | x :: r, hw, w, i, j, first => by
    have hs : wf x = true ∧ wfElems r = true := by simpa [wfElems] using hw
    have h1 := len_bound f g hf x hs.1 (w.child i)
    have h2 := lenElems_bound f g hf r hs.2 w (i + 1) (j + 1) false
    simp only [mapNumElems, renderElems, countNumElems, List.length_append, noWs_child]
    simp only [compact] at h1
    omega
theorem lenMems_bound (f : List Char → List Char) (g : List Char → Bool)
    (hf : ∀ s, isJsonNumber s = true → (f s).length ≤ s.length + (if g s = true then 1 else 0)) :
    ∀ (ms : List (List Char × JV)), wfMems ms = true → ∀ (w : Ws) (i j : Nat) (first : Bool),
      (renderMems noWs j first (mapNumMems f ms)).length ≤
        (renderMems w i first ms).length + countNumMems g ms
  | [], _, w, i, j, first => by simp [mapNumMems, renderMems]
  | (k, x) :: r, hw, w, i, j, first => by
    have hs : (isJsonString k = true ∧ wf x = true) ∧ wfMems r = true := by simpa [wfMems] using hw
    have h1 := len_bound f g hf x hs.1.2 (w.child i)
    have h2 := lenMems_bound f g hf r hs.2 w (i + 1) (j + 1) false
    simp only [mapNumMems, renderMems, countNumMems, List.length_append, List.length_cons,
      noWs_child, noWs_kpre, noWs_kpost, List.length_nil]
    simp only [compact] at h1
    omega
end

mutual
theorem countNum_false : ∀ v : JV, countNum (fun _ => false) v = 0
  | .lit _ => by simp [countNum]
  | .num _ => by simp [countNum]
  | .str _ => by simp [countNum]
  | .arr xs => by simp [countNum, countNumElems_false xs]
  | .obj ms => by simp [countNum, countNumMems_false ms]
theorem countNumElems_false : ∀ xs : List JV, countNumElems (fun _ => false) xs = 0
  | [] => by simp [countNumElems]
  | x :: r => by simp [countNumElems, countNum_false x, countNumElems_false r]
theorem countNumMems_false : ∀ ms : List (List Char × JV), countNumMems (fun _ => false) ms = 0
  | [] => by simp [countNumMems]
  | (_, x) :: r => by simp [countNumMems, countNum_false x, countNumMems_false r]
end

end Verif.Proofs.Json

import Verif.Proofs.DataURIMain
/-!
# C18: the result of `minify.DataURI` is not longer than a validly encoded input
-/
set_option maxRecDepth 100000
namespace Verif.Proofs.DataURI
open Verif Verif.Model.DataURI

/-- what both the preservation and the length theorem need from the two readings of the input -/
theorem model_parse (u mt d : List Char) (hr : S.rfcParse u = some (mt, d))
    (g1 : S.trigPlus u = false) (g3 : S.trigB64Item u = false) :
    ∃ head p x, S.splitURL u = some (head, p) ∧ HeadFacts head x ∧ parseDataURI u = some (finishMt x, d) ∧
      (S.splitMarker head).1 = mt ∧
      ((S.splitMarker head).2 = true ∧ b64decCore p = some d ∨
       (S.splitMarker head).2 = false ∧ S.pctDecode p = d ∧ decodeURL p = d) := by
  unfold S.rfcParse at hr
  cases hs : S.splitURL u with
  | none => rw [hs] at hr; cases hr
  | some hp =>
    obtain ⟨head, p⟩ := hp
    rw [hs] at hr
    simp only [] at hr
    obtain ⟨x, hf, hparse⟩ := parse_structure u head p hs g3
    refine ⟨head, p, x, rfl, hf, ?_⟩
    cases hm : S.splitMarker head with
    | mk m b =>
      rw [hm] at hr hparse
      cases b with
      | true =>
        simp only [Option.map_eq_some_iff, Prod.mk.injEq] at hr
        obtain ⟨d0, h1, h2, h3⟩ := hr
        subst h3
        have hc : b64decCore p = some d0 := by rw [← b64Decode_eq_core]; exact h1
        refine ⟨?_, h2, Or.inl ⟨rfl, hc⟩⟩
        rw [hparse]
        simp [b64Decode_imp_b64dec p d0 h1]
      | false =>
        simp only [Option.some.injEq, Prod.mk.injEq] at hr
        have hplus : '+' ∉ p := by
          unfold S.trigPlus at g1
          rw [hs] at g1
          simp only [hm, Bool.not_false, Bool.true_and] at g1
          intro hmem
          have : p.contains '+' = true := by simpa using hmem
          rw [this] at g1; cases g1
        have he := pctDecode_eq_decodeURL p hplus
        refine ⟨?_, hr.1, Or.inr ⟨rfl, hr.2, by rw [← he, hr.2]⟩⟩
        rw [hparse]
        simp [← he, hr.2]

/-! ## lengths -/

theorem stripTextPlain_le (m : List Char) : (stripTextPlain m).length ≤ m.length := by
  unfold stripTextPlain
  split
  · simp
  · exact Nat.le_refl _

theorem stripCharset_le (m : List Char) : (stripCharset m).length ≤ m.length := by
  induction m with
  | nil => simp [stripCharset]
  | cons c r ih =>
    simp only [stripCharset]
    split
    · simp; omega
    · simp; omega

theorem strip_len (x : List Char) : (stripCharset (stripTextPlain (finishMt x))).length ≤ x.length := by
  have hd : stripCharset (stripTextPlain textPlain) = [] := by decide
  unfold finishMt
  split
  · rw [hd]; simp
  · split
    · rw [hd]; simp
    · exact Nat.le_trans (stripCharset_le _) (stripTextPlain_le _)

theorem b64Len_mono {a b : Nat} (h : a ≤ b) : b64Len a ≤ b64Len b := by
  unfold b64Len
  have : (a + 2) / 3 ≤ (b + 2) / 3 := Nat.div_le_div_right (by omega)
  omega

/-- a strictly padded base64 text has exactly the encoder's length -/
theorem core_length : ∀ (p d : List Char), b64decCore p = some d → p.length = b64Len d.length
  | [], d, h => by simp [b64decCore] at h; subst h; rfl
  | [_], _, h => by simp [b64decCore] at h
  | [_, _], _, h => by simp [b64decCore] at h
  | [_, _, _], _, h => by simp [b64decCore] at h
  | a :: b :: c :: e :: r, d, h => by
    unfold b64decCore at h
    by_cases he : e = '='
    · subst he
      simp only [if_true] at h
      cases r with
      | cons _ _ => simp at h
      | nil =>
        simp only [ne_eq, not_true_eq_false, if_false] at h
        by_cases hc : c = '='
        · subst hc
          simp only [if_true] at h
          cases hx : b64Val a <;> cases hy : b64Val b <;> simp [hx, hy] at h
          subst h; simp [b64Len]
        · simp only [hc, if_false] at h
          cases hx : b64Val a <;> cases hy : b64Val b <;> cases hz : b64Val c <;> simp [hx, hy, hz] at h
          subst h; simp [b64Len]
    · simp only [he, if_false] at h
      cases hx : b64Val a <;> cases hy : b64Val b <;> cases hz : b64Val c <;> cases hw : b64Val e <;>
        cases ht : b64decCore r <;> simp [hx, hy, hz, hw, ht] at h
      rename_i x y z w t
      have ih := core_length r t ht
      subst h
      simp only [List.length_cons, ih, b64Len]
      omega

theorem hexv_isSome {c : Char} (h : (Verif.Spec.Rfc2397.hexv c).isSome = true) : ∃ x, Verif.Spec.Rfc2397.hexv c = some x := by
  cases hx : Verif.Spec.Rfc2397.hexv c with
  | none => rw [hx] at h; cases h
  | some x => exact ⟨x, rfl⟩

theorem pctLen_cons (t : Char → Bool) (c : Char) (r : List Char) : pctLen t (c :: r) ≤ 3 + pctLen t r := by
  simp only [pctLen, List.filter, List.length_cons]
  cases t c <;> simp <;> omega

theorem pctLen_cons_plain (t : Char → Bool) (c : Char) (r : List Char) (h : t c = false) :
    pctLen t (c :: r) = 1 + pctLen t r := by
  simp only [pctLen, List.filter, List.length_cons, h]
  omega

/-- decoding a validly encoded payload and encoding it again does not make it longer -/
theorem pctValid_len (t : Char → Bool) (_ht : t '%' = true) (p : List Char)
    (hv : Verif.Spec.Rfc2397.pctValid t p = true) : pctLen t (S.pctDecode p) ≤ p.length := by
  fun_induction Verif.Spec.Rfc2397.pctValid t p with
  | case1 => simp [S.pctDecode, pctLen]
  | case2 a b r ih =>
    simp only [Bool.and_eq_true] at hv
    obtain ⟨x, hx⟩ := hexv_isSome hv.1.1
    obtain ⟨y, hy⟩ := hexv_isSome hv.1.2
    rw [pctDecode_esc hx hy]
    have := pctLen_cons t (Char.ofNat (16 * x + y)) (S.pctDecode r)
    have := ih hv.2
    simp only [List.length_cons]
    omega
  | case3 c a b r hc ih =>
    simp only [Bool.and_eq_true, Bool.not_eq_true'] at hv
    rw [pctDecode_cons_ne hc, pctLen_cons_plain t c _ hv.1]
    have := ih hv.2
    simp only [List.length_cons] at *
    omega
  | case4 c r hshort ih =>
    simp only [Bool.and_eq_true, Bool.not_eq_true', decide_eq_true_eq] at hv
    rw [pctDecode_cons_ne hv.1.1, pctLen_cons_plain t c _ hv.1.2]
    have := ih hv.2
    simp only [List.length_cons] at *
    omega

theorem marker_true (head m : List Char) (h : S.splitMarker head = (m, true)) : m.length + 7 ≤ head.length := by
  by_cases hs : ';' ∈ head
  · obtain ⟨x, y, he, hy⟩ := exists_last_semi head hs
    simp only [S.splitMarker, he, splitLastSemi_append x y hy] at h
    split at h
    · rename_i hb
      simp only [Prod.mk.injEq, and_true] at h
      subst h
      rw [trim_eq] at hb
      have := trimWs_length_le y
      rw [hb] at this
      rw [he]
      simp only [List.length_append, List.length_cons]
      have : "base64".toList.length = 6 := rfl
      omega
    · simp at h
  · simp [S.splitMarker, splitLastSemi_none head hs] at h

/-- **length, assembled** -/
theorem length_core (sub : List Char → List Char → Option (List Char)) (u mt d : List Char)
    (hsub : ∀ m x y, sub m x = some y → y.length ≤ x.length ∧ pctLen tbl y ≤ pctLen tbl x)
    (hr : S.rfcParse u = some (mt, d))
    (g1 : S.trigPlus u = false) (g3 : S.trigB64Item u = false)
    (hv : Verif.Spec.Rfc2397.validlyEncoded tbl u = true) :
    (dataURI sub u).length ≤ u.length := by
  obtain ⟨head, p, x, hs, hf, hparse, _, hdec⟩ := model_parse u mt d hr g1 g3
  obtain ⟨hu, _⟩ := splitURL_spec u head p hs
  have hulen : u.length = 6 + head.length + p.length := by
    rw [hu]; simp [dataPrefix]; omega
  have hS := strip_len x
  have hxl := hf.len
  have h7 : semiBase64.length = 7 := rfl
  have h5 : dataPrefix.length = 5 := rfl
  -- the (sub-)minified payload costs no more than the decoded one
  have hd' : ((sub (finishMt x) d).getD d).length ≤ d.length ∧
      pctLen tbl ((sub (finishMt x) d).getD d) ≤ pctLen tbl d := by
    cases hsd : sub (finishMt x) d with
    | none => simp
    | some y => simpa using hsub _ _ _ hsd
  have hshape := dataURI_shape sub u (finishMt x) d hparse
  generalize (sub (finishMt x) d).getD d = d' at hd' hshape
  have hB : (b64enc d').length = b64Len d'.length := b64enc_length d'
  have hA : (encodeURL tbl d').length = pctLen tbl d' := encodeURL_length tbl d'
  have hBm := b64Len_mono hd'.1
  -- the input side
  have hin : (S.splitMarker head).2 = true ∧ (S.splitMarker head).1.length + 7 ≤ head.length ∧ p.length = b64Len d.length ∨
      (S.splitMarker head).2 = false ∧ (S.splitMarker head).1.length ≤ head.length ∧ pctLen tbl d ≤ p.length := by
    rcases hdec with ⟨hb, hc⟩ | ⟨hb, hpd, _⟩
    · left
      refine ⟨hb, ?_, core_length p d hc⟩
      apply marker_true head
      rw [← hb]
    · right
      refine ⟨hb, ?_, ?_⟩
      · have : S.splitMarker head = (head, false) ∨ ∃ m, S.splitMarker head = (m, true) := by
          unfold S.splitMarker
          split
          · split
            · right; exact ⟨_, rfl⟩
            · left; rfl
          · left; rfl
        rcases this with h | ⟨m, h⟩
        · rw [h]; exact Nat.le_refl _
        · rw [h] at hb; cases hb
      · unfold Verif.Spec.Rfc2397.validlyEncoded at hv
        rw [hs] at hv
        simp only [hb, Bool.false_or] at hv
        rw [← hpd]
        exact pctValid_len tbl (by decide) p hv
  rcases hshape with h | ⟨hlt, h⟩ | ⟨hle, h⟩
  · rw [h]; exact Nat.le_refl _
  · rw [h]
    simp only [List.length_append, List.length_cons, List.length_nil, h7, h5, hB]
    rw [hB, hA] at hlt
    rcases hin with ⟨_, h1, h2⟩ | ⟨_, h1, h2⟩ <;> omega
  · rw [h]
    simp only [List.length_append, List.length_cons, List.length_nil, h5, hA]
    rw [hB, hA] at hle
    rcases hin with ⟨_, h1, h2⟩ | ⟨_, h1, h2⟩ <;> omega
where
  /-- the exits of `minify.DataURI` (see `Props.C18.dataURI_shortest`) -/
  dataURI_shape (sub : List Char → List Char → Option (List Char)) (u mt d0 : List Char)
      (hp : parseDataURI u = some (mt, d0)) :
      dataURI sub u = u ∨
      (7 + (b64enc ((sub mt d0).getD d0)).length < (encodeURL tbl ((sub mt d0).getD d0)).length ∧
        dataURI sub u = dataPrefix ++ (stripCharset (stripTextPlain mt) ++ semiBase64) ++ [','] ++
          b64enc ((sub mt d0).getD d0)) ∨
      ((encodeURL tbl ((sub mt d0).getD d0)).length ≤ 7 + (b64enc ((sub mt d0).getD d0)).length ∧
        dataURI sub u = dataPrefix ++ stripCharset (stripTextPlain mt) ++ [','] ++
          encodeURL tbl ((sub mt d0).getD d0)) := by
    generalize hd : (sub mt d0).getD d0 = d
    have hB : (b64enc d).length = b64Len d.length := b64enc_length d
    have hA : (encodeURL tbl d).length = pctLen tbl d := encodeURL_length tbl d
    have hdec := asciiEst_decisions tbl (7 + b64Len d.length) u.length d
    unfold dataURI
    simp only [hp, hd]
    rw [hB, hA]
    by_cases h1 : u.length < 7 + b64Len d.length ∧ u.length < asciiEst tbl (7 + b64Len d.length) d.length d
    · left; rw [if_pos h1]
    · right
      rw [if_neg h1]
      by_cases h2 : 7 + b64Len d.length < asciiEst tbl (7 + b64Len d.length) d.length d
      · left
        refine ⟨hdec.2.1 h2, ?_⟩
        rw [if_pos h2, if_pos h2, stripTextPlain_append, stripCharset_append]
      · right
        have : ¬(7 + b64Len d.length < pctLen tbl d) := fun h => h2 (hdec.2.2 h)
        refine ⟨by omega, ?_⟩
        rw [if_neg h2, if_neg h2]

end Verif.Proofs.DataURI

import Verif.Proofs.Xml
/-!
# C06 — behaviour at token boundaries: the trailing-space look-ahead and the threaded `]` count

Definitions and lemmas behind the theorems `trailing_space_*`, `cdend_any_split`, `cdend_count_carried` and
`xml_no_cdend` of `Props/C06.lean`.

* `skipped` / `nextStop` / `trimAt` describe, independently of the loop, at which token the look-ahead of the
  text branch of `xml.go` has to stop and what has to happen to the trailing white space there — for a run of
  skipped tokens of **any** length.
* `escPieces` is `escapeCDEnd` applied to consecutive pieces of character data with the count of `]` threaded
  from one piece to the next (how `xml.go` writes the character data of consecutive text / CDATA tokens).
-/
namespace Verif.Proofs.XmlBoundary
open Verif.Xml (XTok)
open Verif.Spec.Xml
open Verif.Model.Xml
open Verif.Proofs.Xml

/-! ## the trailing-space look-ahead -/

/-- tokens the look-ahead of the text branch passes over: everything that is neither character data nor an
element tag (comments, DOCTYPE, the tokens of a processing instruction, …) -/
def skipped : XTok → Bool
  | .text _ => false
  | .cdata _ _ => false
  | .startTag _ => false
  | .endTag _ _ => false
  | _ => true

/-- the token at which the look-ahead stops: the first one that is not passed over (`none`: end of input) -/
def nextStop : List XTok → Option XTok
  | [] => none
  | t :: r => if skipped t then nextStop r else some t

/-- The exact condition under which the trailing white space of a text is removed, as a function of the token
at which the look-ahead stops: end of input; character data (text or CDATA section, also an empty one) that
itself begins with white space; an element tag unless white space is kept. -/
def trimAt (keep : Bool) : Option XTok → Bool
  | none => true
  | some (.text d) => startsWs d
  | some (.cdata _ t) => startsWs t
  | some (.startTag _) => !keep
  | some (.endTag _ _) => !keep
  | some _ => false

theorem nextStop_skip (sk ts : List XTok) (h : sk.all skipped = true) : nextStop (sk ++ ts) = nextStop ts := by
  induction sk with
  | nil => rfl
  | cons t sk ih =>
    simp only [List.all_cons, Bool.and_eq_true] at h
    simp only [List.cons_append, nextStop, h.1, if_true]
    exact ih h.2

theorem nextStop_not_skipped (ts : List XTok) (t : XTok) (h : nextStop ts = some t) : skipped t = false := by
  induction ts with
  | nil => simp [nextStop] at h
  | cons x r ih =>
    simp only [nextStop] at h
    by_cases hx : skipped x = true
    · simp only [hx, if_true] at h; exact ih h
    · simp only [hx, Bool.false_eq_true, if_false, Option.some.injEq] at h
      subst h; simpa using hx

theorem peekTrim_eq (o : XmlOpts) (ts : List XTok) :
    peekTrim o ts = trimAt o.keepWhitespace (nextStop ts) := by
  induction ts with
  | nil => rfl
  | cons t r ih => cases t <;> simp [peekTrim, nextStop, skipped, trimAt, ih]

/-- the data of a text token after `ReplaceMultipleWhitespaceAndEntities` and the left trim (`omitSpace`) -/
def leftTrimmed (om : Bool) (d : List Char) : List Char :=
  if om && startsWs (textRepl d) then (textRepl d).drop 1 else textRepl d

theorem textStep_eq (o : XmlOpts) (om : Bool) (d : List Char) (rest : List XTok) :
    textStep o om d rest =
      if (leftTrimmed om d).isEmpty then ([], true)
      else if endsWs (leftTrimmed om d) then
        if trimAt o.keepWhitespace (nextStop rest) then ((leftTrimmed om d).dropLast, false)
        else (leftTrimmed om d, true)
      else (leftTrimmed om d, false) := by
  simp only [textStep, peekTrim_eq]
  rfl

/-! ## the count of `]` threaded through consecutive pieces of character data -/

/-- `escapeCDEnd` on consecutive pieces, the second result of one call being the `n` of the next -/
def escPieces : Nat → List (List Char) → List (List Char)
  | _, [] => []
  | n, p :: ps => escCD n p :: escPieces (brAfter n p) ps

/-- number of `]` after the last piece -/
def brPieces : Nat → List (List Char) → Nat
  | n, [] => n
  | n, p :: ps => brPieces (brAfter n p) ps

theorem escPieces_flatten (ps : List (List Char)) : ∀ n,
    (escPieces n ps).flatten = escCD n ps.flatten ∧ brPieces n ps = brAfter n ps.flatten := by
  induction ps with
  | nil => intro n; simp [escPieces, brPieces, escCD, brAfter]
  | cons p ps ih =>
    intro n
    simp only [escPieces, brPieces, List.flatten_cons, escCD_append, brAfter_append]
    exact ⟨by rw [(ih _).1], (ih _).2⟩

theorem brAfter_replicate (k : Nat) : ∀ n, brAfter n (List.replicate k ']') = n + k := by
  induction k with
  | zero => intro n; rfl
  | succ k ih =>
    intro n
    simp only [List.replicate_succ, brAfter, beq_self_eq_true, if_true, ih]
    omega

theorem brAfter_after (c : Char) (hc : c ≠ ']') (a : List Char) (k n : Nat) :
    brAfter n (a ++ c :: List.replicate k ']') = k := by
  rw [brAfter_append]
  have : (c == ']') = false := by simpa using hc
  simp only [brAfter, this, Bool.false_eq_true, if_false, brAfter_replicate]
  omega

/-- `hasCdEnd` of the bytes written after `n` closing brackets -/
theorem escCD_no_cdend (n : Nat) (d : List Char) :
    hasCdEnd (List.replicate (min n 2) ']' ++ escCD n d) = false := by
  rw [← cdAuto_spec]
  exact (escCD_free d n).1

end Verif.Proofs.XmlBoundary

import Verif.Model.JsPrint
import Verif.Proofs.C09JsScan
/-!
# C09 (JS) — token separation of the C01 writer model (`Model.JsPrint.writeTok` / `emit`)

The writer is restated as a right fold (`render`): the bytes written for a token list are, token by token, the
separators the writer decides on (`seps`) followed by the token text; the state that matters for the next decision is
`W` (`needsSpace`, `spaceBefore`, last byte written).
-/
namespace Verif.Proofs.C09JsSep
open Verif.Spec.C09JsLex Verif.Spec.JsGrammar Verif.Model.JsPrint Verif.Proofs.C09JsScan

/-- text of a token as characters -/
def txt (t : Tok) : List Char := (tokText t).toList

structure W where
  needsSpace : Bool := false
  spaceBefore : Option Char := none
  prevLast : Option Char := none
deriving Repr, DecidableEq

def W.of (st : WState) : W := ⟨st.needsSpace, st.spaceBefore, st.prevLast⟩

def pre1 (w : W) (t : Tok) : Bool :=
  match t with
  | .kw k => (k == "in" || k == "instanceof") && (match w.prevLast with | some c => isIdentChar c | none => false)
  | _ => false

def pre2 (w : W) (t : Tok) : Bool := t == .p ">" && w.prevLast == some '-'

def spB (w : W) (t : Tok) : Bool :=
  let w1 : W := if pre2 w t then ⟨false, none, some ' '⟩ else w
  (w1.needsSpace && (match (txt t).head? with | some c => isIdentChar c | none => false))
    || (w1.spaceBefore.isSome && w1.spaceBefore == (txt t).head?)

/-- the separators written in front of `t` -/
def seps (w : W) (t : Tok) : List Char :=
  (if pre2 w t then [' '] else []) ++ (if pre1 w t then [' '] else []) ++ (if spB w t then [' '] else [])

def next (w : W) (t : Tok) : W :=
  { needsSpace := (match t with | .kw k => kwNeedsSpace k | _ => false),
    spaceBefore := (match t with
      | .p "+" => some '+'
      | .p "-" => some '-'
      | .p "/" => some '/'
      | .p "!" => if (t == .p "!" && w.prevLast == some '<') then some '-' else none
      | _ => none),
    prevLast := (txt t).getLast? }

def render (w : W) : List Tok → List Char
  | [] => []
  | t :: ts => seps w t ++ (txt t ++ render (next w t) ts)

theorem writeTok_out (st : WState) (t : Tok) :
    (writeTok st t).out = st.out ++ (seps (W.of st) t ++ txt t) ∧ W.of (writeTok st t) = next (W.of st) t := by
  cases t <;>
  · unfold writeTok seps next spB pre1 pre2 W.of txt
    by_cases h2 : st.prevLast = some '-' <;> simp [h2, List.append_assoc] <;> (try split) <;> (try simp_all) <;>
      first | rfl | exact ⟨rfl, rfl⟩

theorem emitFrom_out (st : WState) (ts : List Tok) : (emitFrom st ts).out = st.out ++ render (W.of st) ts := by
  induction ts generalizing st with
  | nil => simp [emitFrom, render]
  | cons t ts ih =>
    have h := writeTok_out st t
    have : emitFrom st (t :: ts) = emitFrom (writeTok st t) ts := by simp [emitFrom]
    rw [this, ih, h.1, h.2]
    simp [render]

theorem emit_eq_render (ts : List Tok) : emit ts = render {} ts := by
  have := emitFrom_out {} ts
  simpa [emit, W.of] using this


/-! ## decimal digits of a natural number -/

theorem digitChar_props : ∀ d, d < 10 → (Nat.digitChar d).isDigit = true ∧ (Nat.digitChar d = '0' → d = 0) := by
  decide

theorem toDigits_allDigit (n : Nat) : ∀ c ∈ Nat.toDigits 10 n, c.isDigit = true := by
  induction n using Nat.strongRecOn with
  | _ n ih =>
    rw [Nat.toDigits_eq_if (by decide)]
    split
    · rename_i h
      intro c hc
      simp at hc; subst hc
      exact (digitChar_props n h).1
    · rename_i h
      intro c hc
      simp only [List.mem_append, List.mem_singleton] at hc
      rcases hc with hc | hc
      · exact ih (n / 10) (by omega) c hc
      · subst hc; exact (digitChar_props (n % 10) (by omega)).1

theorem toDigits_head_zero (n : Nat) (h : (Nat.toDigits 10 n).head? = some '0') : n = 0 := by
  induction n using Nat.strongRecOn with
  | _ n ih =>
    rw [Nat.toDigits_eq_if (by decide)] at h
    split at h
    · rename_i hl
      have h' : Nat.digitChar n = '0' := by simpa using h
      exact (digitChar_props n hl).2 h'
    · rename_i hl
      have hne : Nat.toDigits 10 (n / 10) ≠ [] := Nat.toDigits_ne_nil
      have hh : (Nat.toDigits 10 (n / 10) ++ [Nat.digitChar (n % 10)]).head? = (Nat.toDigits 10 (n / 10)).head? := by
        cases hd : Nat.toDigits 10 (n / 10) with
        | nil => exact absurd hd hne
        | cons c r => rfl
      rw [hh] at h
      have := ih (n / 10) (by omega) h
      omega

theorem toDigits_noLeadZero (n : Nat) : noLeadZero (Nat.toDigits 10 n) := by
  intro h
  have := toDigits_head_zero n h
  subst this
  rfl

theorem toString_toList (k : Nat) : (toString k).toList = Nat.toDigits 10 k := by
  simp [toString, Nat.repr]

/-! ## the text of a number token -/

/-- the three spellings of a number token: digits, digits with the dot that protects a member access, mantissa `e`
    exponent -/
inductive NumShape (w : List Char) : Prop where
  | int (ds : List Char) (h : w = ds) (hd : ∀ c ∈ ds, c.isDigit = true) (hne : ds ≠ []) (hz : noLeadZero ds)
  | intDot (ds : List Char) (h : w = ds ++ ['.']) (hd : ∀ c ∈ ds, c.isDigit = true) (hne : ds ≠ []) (hz : noLeadZero ds)
  | exp (m z : List Char) (h : w = m ++ 'e' :: z) (hm : ∀ c ∈ m, c.isDigit = true) (hmne : m ≠ []) (hmz : noLeadZero m)
      (hzd : ∀ c ∈ z, c.isDigit = true) (hzne : z ≠ [])

theorem numText_toList (n : Nat) : (numText n).toList =
    if 3 ≤ trailingZeros 64 n then Nat.toDigits 10 (n / 10 ^ trailingZeros 64 n) ++ 'e' :: Nat.toDigits 10 (trailingZeros 64 n)
    else Nat.toDigits 10 n := by
  unfold numText
  simp only []
  split <;> simp [String.toList_append, toString_toList]

theorem allDigits_numText (n : Nat) : allDigits (numText n) = !decide (3 ≤ trailingZeros 64 n) := by
  unfold allDigits
  rw [numText_toList]
  split
  · rename_i h
    simp [h]
  · rename_i h
    simp [h]
    exact toDigits_allDigit n

/-- is the number token spelled as plain digits (no dot, no exponent)? -/
def plainInt (t : Tok) : Bool :=
  match t with
  | .num n bd => allDigits (numText n) && !bd
  | _ => false

theorem num_shape (n : Nat) (bd : Bool) : NumShape (txt (.num n bd)) := by
  unfold txt tokText
  by_cases h3 : 3 ≤ trailingZeros 64 n
  · have ha : allDigits (numText n) = false := by rw [allDigits_numText]; simp [h3]
    simp only [ha, Bool.and_false, Bool.false_eq_true, if_false]
    rw [numText_toList, if_pos h3]
    exact .exp _ _ rfl (toDigits_allDigit _) Nat.toDigits_ne_nil (toDigits_noLeadZero _) (toDigits_allDigit _)
      Nat.toDigits_ne_nil
  · have ha : allDigits (numText n) = true := by rw [allDigits_numText]; simp [h3]
    cases bd with
    | false =>
      simp only [Bool.false_and, Bool.false_eq_true, if_false]
      rw [numText_toList, if_neg h3]
      exact .int _ rfl (toDigits_allDigit _) Nat.toDigits_ne_nil (toDigits_noLeadZero _)
    | true =>
      simp only [ha, Bool.and_true, if_true]
      rw [String.toList_append, numText_toList, if_neg h3]
      exact .intDot _ rfl (toDigits_allDigit _) Nat.toDigits_ne_nil (toDigits_noLeadZero _)

theorem plainInt_shape (n : Nat) (bd : Bool) (h : plainInt (.num n bd) = false) :
    (∃ ds, txt (.num n bd) = ds ++ ['.'] ∧ (∀ c ∈ ds, c.isDigit = true) ∧ ds ≠ [] ∧ noLeadZero ds) ∨
    (∃ m z, txt (.num n bd) = m ++ 'e' :: z ∧ (∀ c ∈ m, c.isDigit = true) ∧ m ≠ [] ∧ noLeadZero m ∧
      (∀ c ∈ z, c.isDigit = true) ∧ z ≠ []) := by
  unfold plainInt at h
  unfold txt tokText
  by_cases h3 : 3 ≤ trailingZeros 64 n
  · have ha : allDigits (numText n) = false := by rw [allDigits_numText]; simp [h3]
    right
    simp only [ha, Bool.and_false, Bool.false_eq_true, if_false]
    rw [numText_toList, if_pos h3]
    exact ⟨_, _, rfl, toDigits_allDigit _, Nat.toDigits_ne_nil, toDigits_noLeadZero _, toDigits_allDigit _,
      Nat.toDigits_ne_nil⟩
  · have ha : allDigits (numText n) = true := by rw [allDigits_numText]; simp [h3]
    left
    have hb : bd = true := by cases bd <;> simp_all
    subst hb
    simp only [ha, Bool.and_true, if_true]
    rw [String.toList_append, numText_toList, if_neg h3]
    exact ⟨_, rfl, toDigits_allDigit _, Nat.toDigits_ne_nil, toDigits_noLeadZero _⟩


/-! ## valid tokens of the C01 fragment -/

def fragKw : List String :=
  ["typeof", "void", "delete", "in", "instanceof", "true", "false", "null", "return", "throw", "if", "else", "function"]

/-- a plain ASCII identifier that is neither reserved nor one of the contextual words the goal tracker looks at -/
def identOk (s : String) : Bool :=
  nameOk s.toList && s.toList.all (fun c => decide (c.toNat < 128)) && !(reserved.contains s)
    && !(["yield", "await", "of", "async"].contains s)

def tokOk : Tok → Bool
  | .ident s => identOk s
  | .kw s => fragKw.contains s
  | .num _ _ => true
  | .str s => wfStr s
  | .p s => fragPuncts.contains s.toList

def kind : Tok → Kind
  | .ident _ => .name
  | .kw _ => .name
  | .num _ _ => .num
  | .str _ => .str
  | .p _ => .punct

theorem fragKw_nameOk : ∀ k ∈ fragKw, nameOk k.toList = true ∧ k.toList.all (fun c => decide (c.toNat < 128)) = true := by
  decide

/-- what may follow a token directly without being read as part of it -/
def stopC (t : Tok) (R : List Char) : Prop :=
  match t with
  | .ident _ => ∀ c, R.head? = some c → isIdPart c = false
  | .kw _ => ∀ c, R.head? = some c → isIdPart c = false
  | .num _ _ => numStop R = true ∧ (plainInt t = true → ∀ c, R.head? = some c → c ≠ '.')
  | .str _ => True
  | .p s => ∀ c, R.head? = some c → c ∉ ext s.toList ∧ (s.toList = ['.'] ∨ s.toList = ['?', '.'] → c.isDigit = false)

theorem txt_ne_nil (t : Tok) (ht : tokOk t = true) : txt t ≠ [] := by
  cases t with
  | ident s =>
    simp only [tokOk, identOk, Bool.and_eq_true] at ht
    intro h; simp only [txt, tokText] at h; rw [h] at ht; simp [nameOk] at ht
  | kw s =>
    simp only [tokOk, List.contains_iff_mem] at ht
    have := (fragKw_nameOk s ht).1
    intro h; simp only [txt, tokText] at h; rw [h] at this; simp [nameOk] at this
  | num n bd =>
    rcases num_shape n bd with ⟨ds, h, _, hne, _⟩ | ⟨ds, h, _, _, _⟩ | ⟨m, z, h, _, _, _, _, _⟩
    · rw [h]; exact hne
    · rw [h]; simp
    · rw [h]; simp
  | str s => simp [txt, tokText, String.toList_append]
  | p s =>
    simp only [tokOk, List.contains_iff_mem] at ht
    have : ∀ q ∈ fragPuncts, q ≠ [] := by decide
    exact this _ ht

def punctFirstOk (p : List Char) : Bool :=
  match p with
  | [] => false
  | c :: _ => !isIdStart c && !c.isDigit && c != '"' && c != '\'' && c != '`' && c != '#'
      && (c != '}' || p == ['}']) && (c != '.' || p == ['.'])

theorem fragPuncts_first : ∀ p ∈ fragPuncts, punctFirstOk p = true := by decide

theorem wfStr_plain (s : String) (h : wfStr s = true) : ∀ c ∈ s.toList, plainStrChar '"' c = true := by
  intro c hc
  simp only [wfStr, List.all_eq_true] at h
  have := h c hc
  simp only [Bool.or_eq_true, beq_iff_eq] at this
  rcases this with ha | ha
  · rw [isAlpha_iff] at ha
    simp only [plainStrChar, isLT, Bool.and_eq_true, bne_iff_ne, ne_eq, Bool.not_eq_true', Bool.or_eq_false_iff,
      beq_eq_false_iff_ne, char_eq_iff]
    simp; omega
  · subst ha; decide

theorem scan_tok (g tc : Bool) (t : Tok) (R : List Char) (ht : tokOk t = true) (hstop : stopC t R)
    (hg : (txt t).head? = some '/' → g = false) (hb : txt t = ['}'] → tc = false) :
    scan1 g tc (txt t ++ R) = some (kind t, txt t, R) := by
  cases t with
  | ident s =>
    simp only [tokOk, identOk, Bool.and_eq_true] at ht
    exact scan1_name g tc _ R ht.1.1.1 hstop
  | kw s =>
    simp only [tokOk, List.contains_iff_mem] at ht
    exact scan1_name g tc _ R (fragKw_nameOk s ht).1 hstop
  | num n bd =>
    obtain ⟨hs, hdot⟩ := hstop
    have hR : ∀ c, R.head? = some c → c.isDigit = false ∧ c ≠ 'x' ∧ c ≠ 'X' ∧ c ≠ 'o' ∧ c ≠ 'O' ∧ c ≠ 'b' ∧ c ≠ 'B' :=
      fun c hc => ⟨(numStop_head R hs c hc).2, head_not R hs 'x' (Or.inl (by decide)) c hc,
        head_not R hs 'X' (Or.inl (by decide)) c hc, head_not R hs 'o' (Or.inl (by decide)) c hc,
        head_not R hs 'O' (Or.inl (by decide)) c hc, head_not R hs 'b' (Or.inl (by decide)) c hc,
        head_not R hs 'B' (Or.inl (by decide)) c hc⟩
    by_cases hp : plainInt (.num n bd) = true
    · -- plain digits
      have hsh : ∃ ds, txt (.num n bd) = ds ∧ (∀ c ∈ ds, c.isDigit = true) ∧ ds ≠ [] ∧ noLeadZero ds := by
        simp only [plainInt, Bool.and_eq_true, Bool.not_eq_true'] at hp
        refine ⟨Nat.toDigits 10 n, ?_, toDigits_allDigit _, Nat.toDigits_ne_nil, toDigits_noLeadZero _⟩
        have h3 : ¬ 3 ≤ trailingZeros 64 n := by
          have := hp.1; rw [allDigits_numText] at this; simpa using this
        simp only [txt, tokText, hp.2, Bool.false_and, Bool.false_eq_true, if_false]
        rw [numText_toList, if_neg h3]
      obtain ⟨ds, hw, hd, hne, hz⟩ := hsh
      rw [hw]
      have h1 := scanNumber_decimal ds R hd hne hz hR
      have h2 := scanDecimal_int ds R hd hne hs (hdot hp)
      cases ds with
      | nil => exact absurd rfl hne
      | cons c w' => exact scan1_number g tc _ R c w' rfl (hd c (by simp)) (h1.trans h2)
    · have hp' : plainInt (.num n bd) = false := by simpa using hp
      rcases plainInt_shape n bd hp' with ⟨ds, hw, hd, hne, hz⟩ | ⟨m, z, hw, hm, hmne, hmz, hzd, hzne⟩
      · rw [hw]
        have h1 := scanNumber_decimal ds ('.' :: R) hd hne hz (by intro c hc; simp at hc; subst hc; decide)
        have h2 := scanDecimal_int_dot ds R hd hne hs
        have h3 : scanNumber ((ds ++ ['.']) ++ R) = some (ds ++ ['.'], R) := by
          simpa [List.append_assoc] using h1.trans h2
        cases ds with
        | nil => exact absurd rfl hne
        | cons c w' => exact scan1_number g tc _ R c (w' ++ ['.']) rfl (hd c (by simp)) h3
      · rw [hw]
        have h1 := scanNumber_decimal m ('e' :: (z ++ R)) hm hmne hmz (by intro c hc; simp at hc; subst hc; decide)
        have h2 := scanDecimal_exp m z R hm hmne hzd hzne hs
        have h3 : scanNumber ((m ++ 'e' :: z) ++ R) = some (m ++ 'e' :: z, R) := by
          simpa [List.append_assoc] using h1.trans h2
        cases m with
        | nil => exact absurd rfl hmne
        | cons c w' => exact scan1_number g tc _ R c (w' ++ 'e' :: z) rfl (hm c (by simp)) h3
  | str s =>
    simp only [tokOk] at ht
    have := scan1_dstring g tc s.toList R (wfStr_plain s ht)
    simpa [txt, tokText, kind, String.toList_append] using this
  | p s =>
    simp only [tokOk, List.contains_iff_mem] at ht
    have hsub := fragPuncts_sub _ ht
    have hfirst := fragPuncts_first _ ht
    have hstop : ∀ c, R.head? = some c → c ∉ ext s.toList ∧ (s.toList = ['.'] ∨ s.toList = ['?', '.'] → c.isDigit = false) := hstop
    have hscan := scanPunct_ext s.toList hsub R (fun e c hc => (hstop c hc).2 (Or.inr e)) (fun c hc => (hstop c hc).1)
    simp only [txt, tokText, kind] at hg hb ⊢
    cases hp : s.toList with
    | nil => rw [hp] at hfirst; simp [punctFirstOk] at hfirst
    | cons c r =>
      rw [hp] at hfirst hscan hg hb hstop
      simp only [punctFirstOk, Bool.and_eq_true, Bool.not_eq_true', bne_iff_ne, ne_eq, Bool.or_eq_true,
        beq_iff_eq] at hfirst
      obtain ⟨⟨⟨⟨⟨⟨⟨h1, h2⟩, h3⟩, h4⟩, h5⟩, h6⟩, h7⟩, h8⟩ := hfirst
      have hdotc : (c == '.' && (r ++ R).head?.any Char.isDigit) = false := by
        by_cases hc : c = '.'
        · have hr : r = [] := by
            rcases h8 with h8 | h8
            · exact absurd hc h8
            · exact (by simpa using h8 : c = '.' ∧ r = []).2
          subst hr
          cases R with
          | nil => simp
          | cons d R' =>
            have := (hstop d rfl).2 (Or.inl (by rw [hc]))
            simp [this]
        · simp [hc]
      have hbr : (c == '}' && tc) = false := by
        by_cases hc : c = '}'
        · have hr : c :: r = ['}'] := by
            rcases h7 with h7 | h7
            · exact absurd hc h7
            · exact h7
          simp [hb hr]
        · simp [hc]
      have hsl : (c == '/' && g) = false := by
        by_cases hc : c = '/'
        · simp [hg (by simp [hc])]
        · simp [hc]
      have hdotc' : c = '.' → Option.any Char.isDigit (r.head?.or R.head?) = false := by
        intro hc; simpa [hc] using hdotc
      simp only [List.cons_append] at hscan ⊢
      simp [scan1, h1, h2, h3, h4, h5, h6, hbr, hsl, hscan]
      exact hdotc'


/-! ## no white space or comment starts at a token -/

/-- a first character that starts no white space, line terminator or comment, whatever follows -/
def plainStart (c : Char) : Bool :=
  decide (c.toNat < 128) && c != ' ' && c != '\t' && c.toNat != 11 && c.toNat != 12 && c != '\n' && c != '\r'
    && c != '/' && c != '<' && c != '-'

theorem isTriviaStart_plain (nl : Bool) (c : Char) (r : List Char) (h : plainStart c = true) :
    isTriviaStart nl (c :: r) = false := by
  simp only [plainStart, Bool.and_eq_true, decide_eq_true_eq, bne_iff_ne, ne_eq] at h
  obtain ⟨⟨⟨⟨⟨⟨⟨⟨⟨h0, h1⟩, h2⟩, h3⟩, h4⟩, h5⟩, h6⟩, h7⟩, h8⟩, h9⟩ := h
  have hls : startsLS (c :: r) = false := startsLS_head c r (by simp; omega)
  have hC2 : (c.toNat == 0xC2) = false := by simp; omega
  have hEF : (c.toNat == 0xEF) = false := by simp; omega
  simp only [isTriviaStart, isLT, hls, hC2, hEF]
  simp [h1, h2, h3, h4, h5, h6, h7, h8, h9]

def startC (nl : Bool) (t : Tok) (R : List Char) : Prop :=
  match t with
  | .p s => (s.toList = ['/'] → ∀ c, R.head? = some c → c ≠ '/' ∧ c ≠ '*')
      ∧ (s.toList = ['<'] → R.take 3 ≠ ['!', '-', '-'])
      ∧ (nl = true → (s.toList = ['-'] → R.take 2 ≠ ['-', '>']) ∧ (s.toList = ['-', '-'] → R.head? ≠ some '>'))
  | _ => True

def punctStartOk (p : List Char) : Bool :=
  match p with
  | [] => false
  | c :: _ => plainStart c || p == ['/'] || p == ['/', '='] || p == ['<'] || p == ['<', '='] || p == ['<', '<']
      || p == ['<', '<', '='] || p == ['-'] || p == ['-', '-'] || p == ['-', '=']

theorem fragPuncts_start : ∀ p ∈ fragPuncts, punctStartOk p = true := by decide

theorem fragKw_start : ∀ k ∈ fragKw, (match k.toList with | [] => false | c :: _ => plainStart c) = true := by decide

theorem plainStart_of_idStart (c : Char) (h1 : isIdStart c = true) (h2 : c.toNat < 128) : plainStart c = true := by
  rw [isIdStart_iff] at h1
  simp only [plainStart, Bool.and_eq_true, decide_eq_true_eq, bne_iff_ne, ne_eq, char_eq_iff]
  simp; omega

theorem plainStart_of_digit (c : Char) (h1 : c.isDigit = true) : plainStart c = true := by
  rw [isDigit_iff] at h1
  simp only [plainStart, Bool.and_eq_true, decide_eq_true_eq, bne_iff_ne, ne_eq, char_eq_iff]
  simp; omega

theorem start_tok (nl : Bool) (t : Tok) (R : List Char) (ht : tokOk t = true) (h : startC nl t R) :
    isTriviaStart nl (txt t ++ R) = false := by
  cases t with
  | ident s =>
    simp only [tokOk, identOk, Bool.and_eq_true] at ht
    simp only [txt, tokText]
    cases hs : s.toList with
    | nil => rw [hs] at ht; simp [nameOk] at ht
    | cons c r =>
      rw [hs] at ht
      have h1 : isIdStart c = true := by have := ht.1.1.1; simp [nameOk] at this; exact this.1
      have h2 : c.toNat < 128 := by have := ht.1.1.2; simp at this; exact this.1
      exact isTriviaStart_plain nl c _ (plainStart_of_idStart c h1 h2)
  | kw s =>
    simp only [tokOk, List.contains_iff_mem] at ht
    have := fragKw_start s ht
    simp only [txt, tokText]
    cases hs : s.toList with
    | nil => rw [hs] at this; simp at this
    | cons c r => rw [hs] at this; exact isTriviaStart_plain nl c _ this
  | num n bd =>
    rcases num_shape n bd with ⟨ds, hw, hd, hne, _⟩ | ⟨ds, hw, hd, hne, _⟩ | ⟨m, z, hw, hm, hmne, _, _, _⟩
    · rw [hw]
      cases ds with
      | nil => exact absurd rfl hne
      | cons c r => exact isTriviaStart_plain nl c _ (plainStart_of_digit c (hd c (by simp)))
    · rw [hw]
      cases ds with
      | nil => exact absurd rfl hne
      | cons c r => exact isTriviaStart_plain nl c _ (plainStart_of_digit c (hd c (by simp)))
    · rw [hw]
      cases m with
      | nil => exact absurd rfl hmne
      | cons c r => exact isTriviaStart_plain nl c _ (plainStart_of_digit c (hm c (by simp)))
  | str s =>
    simp only [txt, tokText, String.toList_append]
    exact isTriviaStart_plain nl '"' _ (by decide)
  | p s =>
    simp only [tokOk, List.contains_iff_mem] at ht
    have hst := fragPuncts_start _ ht
    obtain ⟨hsl, hlt, hmi⟩ := h
    simp only [txt, tokText]
    cases hp : s.toList with
    | nil => rw [hp] at hst; simp [punctStartOk] at hst
    | cons c r =>
      rw [hp] at hst hsl hlt hmi
      simp only [punctStartOk, Bool.or_eq_true, beq_iff_eq] at hst
      rcases hst with ((((((((hst | hst) | hst) | hst) | hst) | hst) | hst) | hst) | hst) | hst
      · exact isTriviaStart_plain nl c _ hst
      · -- "/"
        have hc : c = '/' ∧ r = [] := by simpa using hst
        obtain ⟨hc, hr⟩ := hc; subst hc; subst hr
        cases R with
        | nil => cases nl <;> decide
        | cons d R' =>
          have := hsl rfl d rfl
          have hls : startsLS ('/' :: d :: R') = false := startsLS_head _ _ (by decide)
          simp [isTriviaStart, isLT, hls, this.1, this.2]
      · have hc : c = '/' ∧ r = ['='] := by simpa using hst
        obtain ⟨hc, hr⟩ := hc; subst hc; subst hr
        have hls : startsLS ('/' :: ('=' :: R)) = false := startsLS_head _ _ (by decide)
        simp [isTriviaStart, isLT, hls]
      · -- "<"
        have hc : c = '<' ∧ r = [] := by simpa using hst
        obtain ⟨hc, hr⟩ := hc; subst hc; subst hr
        have := hlt rfl
        have hls : startsLS ('<' :: R) = false := startsLS_head _ _ (by decide)
        simp [isTriviaStart, isLT, hls, this]
      · have hc : c = '<' ∧ r = ['='] := by simpa using hst
        obtain ⟨hc, hr⟩ := hc; subst hc; subst hr
        have hls : startsLS ('<' :: ('=' :: R)) = false := startsLS_head _ _ (by decide)
        simp [isTriviaStart, isLT, hls]
      · have hc : c = '<' ∧ r = ['<'] := by simpa using hst
        obtain ⟨hc, hr⟩ := hc; subst hc; subst hr
        have hls : startsLS ('<' :: ('<' :: R)) = false := startsLS_head _ _ (by decide)
        simp [isTriviaStart, isLT, hls]
      · have hc : c = '<' ∧ r = ['<', '='] := by simpa using hst
        obtain ⟨hc, hr⟩ := hc; subst hc; subst hr
        have hls : startsLS ('<' :: ('<' :: '=' :: R)) = false := startsLS_head _ _ (by decide)
        simp [isTriviaStart, isLT, hls]
      · -- "-"
        have hc : c = '-' ∧ r = [] := by simpa using hst
        obtain ⟨hc, hr⟩ := hc; subst hc; subst hr
        have hls : startsLS ('-' :: R) = false := startsLS_head _ _ (by decide)
        cases nl with
        | false => simp [isTriviaStart, isLT, hls]
        | true =>
          have := (hmi rfl).1 rfl
          simp [isTriviaStart, isLT, hls, this]
      · -- "--"
        have hc : c = '-' ∧ r = ['-'] := by simpa using hst
        obtain ⟨hc, hr⟩ := hc; subst hc; subst hr
        have hls : startsLS ('-' :: ('-' :: R)) = false := startsLS_head _ _ (by decide)
        cases nl with
        | false => simp [isTriviaStart, isLT, hls]
        | true =>
          have := (hmi rfl).2 rfl
          cases R with
          | nil => simp [isTriviaStart, isLT, hls]
          | cons d R' =>
            have hd : d ≠ '>' := by intro e; subst e; exact this rfl
            simp [isTriviaStart, isLT, hls, hd]
      · have hc : c = '-' ∧ r = ['='] := by simpa using hst
        obtain ⟨hc, hr⟩ := hc; subst hc; subst hr
        have hls : startsLS ('-' :: ('=' :: R)) = false := startsLS_head _ _ (by decide)
        simp [isTriviaStart, isLT, hls]


/-! ## which adjacent tokens the writer keeps apart -/

def firstC (t : Tok) : Option Char := (txt t).head?

def isInOf (t : Tok) : Bool := t == .kw "in" || t == .kw "instanceof"

def startsIdPart (t : Tok) : Bool :=
  match firstC t with
  | some c => isIdPart c
  | none => false

/-- the last byte of the token is an identifier byte for the writer (`IsIdentifierEnd`) -/
def lastIdent (t : Tok) : Bool :=
  match (txt t).getLast? with
  | some c => isIdentChar c
  | none => false

/-- `b` may directly follow `a` in a token stream handed to the writer: either the two texts do not run into each
    other, or the writer's rules put a space between them (`typeof x`, `a in b`, `+ +`, `- --`, `/ /`).
    Pairs excluded here never occur in the token stream of a program: two words (`a b`, `1 a`, `true x`), a plain
    decimal integer directly before a dot, a punctuator followed by a character that extends it to another
    punctuator (`<` `<`, `=` `=`, `&` `&`, `+` `=`), `/` before `*`, `.` before a digit, `?.` before a digit
    (`a?.5:1` is `a ? .5 : 1`). -/
def adjOk (a b : Tok) : Bool :=
  (match a with
   | .str _ => true
   | .p s =>
     (match firstC b with
      | none => true
      | some c =>
        (!(ext s.toList).contains c || ((s == "+" || s == "-" || s == "/") && s.toList.head? == some c))
          && (s != "/" || c != '*') && ((s.toList != ['.'] && s.toList != ['?', '.']) || !c.isDigit))
   | .kw k => kwNeedsSpace k || !startsIdPart b || (isInOf b && lastIdent a)
   | _ => !startsIdPart b || (isInOf b && lastIdent a))
  && (!plainInt a || firstC b != some '.')

def adjChain : List Tok → Bool
  | [] => true
  | [_] => true
  | a :: b :: r => adjOk a b && adjChain (b :: r)

/-- `-->` at the very beginning of a script is a comment: a leading prefix `--` is not followed by `>…` -/
def headOk : List Tok → Bool
  | .p "--" :: b :: _ => b == .p ">" || firstC b != some '>'
  | _ => true

theorem seps_spaces (w : W) (t : Tok) : allSpaces (seps w t) = true := by
  unfold seps allSpaces
  split <;> split <;> split <;> simp

theorem seps_head (w : W) (t : Tok) (h : seps w t ≠ []) (rest : List Char) :
    (seps w t ++ rest).head? = some ' ' := by
  have hs := seps_spaces w t
  cases hq : seps w t with
  | nil => exact absurd hq h
  | cons a r =>
    rw [hq] at hs
    simp [allSpaces] at hs
    simp [hs.1]

theorem seps_ne_of_pre1 (w : W) (t : Tok) (h : pre1 w t = true) : seps w t ≠ [] := by
  unfold seps; simp [h]
theorem seps_ne_of_pre2 (w : W) (t : Tok) (h : pre2 w t = true) : seps w t ≠ [] := by
  unfold seps; simp [h]
theorem seps_ne_of_spB (w : W) (t : Tok) (h : spB w t = true) : seps w t ≠ [] := by
  unfold seps; simp [h]

/-- the pending `spaceBefore` character never appears at the start of what is written next -/
theorem render_head_ne (w : W) (ts : List Tok) (c : Char) (hw : w.spaceBefore = some c) (hc : c ≠ ' ')
    (hne : ∀ t ∈ ts, txt t ≠ []) : (render w ts).head? ≠ some c := by
  cases ts with
  | nil => simp [render]
  | cons t ts' =>
    simp only [render]
    by_cases hs : seps w t = []
    · rw [hs, List.nil_append]
      intro hh
      have hp2 : pre2 w t = false := by
        cases h : pre2 w t with
        | false => rfl
        | true => exact absurd hs (seps_ne_of_pre2 w t h)
      have hd : (txt t).head? = some c := by
        cases htx : txt t with
        | nil => exact absurd htx (hne t (by simp))
        | cons d r => rw [htx] at hh; simpa using hh
      have : spB w t = true := by
        unfold spB
        simp [hp2, hw, hd]
      exact absurd hs (seps_ne_of_spB w t this)
    · rw [seps_head w t hs]
      intro hh
      exact hc (by simpa using hh.symm)


/-! ## a space stops every token -/

theorem ext_sub (p : List Char) (c : Char) (h : c ∈ ext p) : ∃ q ∈ puncts, c ∈ q := by
  simp only [ext, List.mem_filterMap] at h
  obtain ⟨q, hq, hc⟩ := h
  refine ⟨q, hq, ?_⟩
  split at hc
  · exact List.mem_of_getElem? hc
  · simp at hc

theorem space_not_ext (p : List Char) : ' ' ∉ ext p := by
  intro h
  obtain ⟨q, hq, hc⟩ := ext_sub p ' ' h
  have : ∀ q ∈ puncts, ' ' ∉ q := by decide
  exact this q hq hc

theorem stopC_space (t : Tok) (R : List Char) (h : R.head? = some ' ') : stopC t R := by
  cases R with
  | nil => simp at h
  | cons d R' =>
    simp only [List.head?_cons, Option.some.injEq] at h
    subst h
    cases t with
    | ident s => intro c hc; simp at hc; subst hc; decide
    | kw s => intro c hc; simp at hc; subst hc; decide
    | num n bd =>
      refine ⟨by simp [numStop, numEndOk]; decide, ?_⟩
      intro _ c hc; simp at hc; subst hc; decide
    | str s => trivial
    | p s =>
      intro c hc; simp at hc; subst hc
      exact ⟨space_not_ext _, fun _ => by decide⟩

theorem stopC_nil (t : Tok) : stopC t [] := by
  cases t with
  | ident s => intro c hc; simp at hc
  | kw s => intro c hc; simp at hc
  | num n bd => exact ⟨by decide, fun _ c hc => by simp at hc⟩
  | str s => trivial
  | p s => intro c hc; simp at hc

/-! ## the first character of a valid token -/

def punctNoId (p : List Char) : Bool :=
  match p with
  | [] => false
  | c :: _ => !isIdPart c

theorem fragPuncts_noId : ∀ p ∈ fragPuncts, punctNoId p = true := by decide

theorem fragKw_firstIdent : ∀ k ∈ fragKw, (match k.toList with | [] => false | c :: _ => isIdentChar c) = true := by
  decide

theorem isIdentChar_of_idPart (c : Char) (h : isIdPart c = true) (hb : c ≠ '\\') : isIdentChar c = true := by
  rw [isIdPart_iff] at h
  rw [ne_eq, char_eq_iff] at hb
  simp only [isIdentChar, Char.isAlphanum, Bool.or_eq_true, isAlpha_iff, isDigit_iff, beq_iff_eq, char_eq_iff,
    decide_eq_true_eq, ge_iff_le]
  simp at hb ⊢
  omega

theorem isIdentChar_digit (c : Char) (h : c.isDigit = true) : isIdentChar c = true := by
  simp [isIdentChar, Char.isAlphanum, h]

/-- the first character of a valid token is an identifier byte for the writer whenever it is one for the lexer -/
theorem first_identChar (b : Tok) (hb : tokOk b = true) (c : Char) (hc : firstC b = some c)
    (hi : isIdPart c = true) : isIdentChar c = true := by
  cases b with
  | ident s =>
    simp only [tokOk, identOk, Bool.and_eq_true] at hb
    simp only [firstC, txt, tokText] at hc
    cases hs : s.toList with
    | nil => rw [hs] at hc; simp at hc
    | cons d r =>
      rw [hs] at hc hb
      simp at hc; subst hc
      have := hb.1.1.1
      simp [nameOk] at this
      exact isIdentChar_of_idPart _ hi this.2.1.2
  | kw s =>
    simp only [tokOk, List.contains_iff_mem] at hb
    have := fragKw_firstIdent s hb
    simp only [firstC, txt, tokText] at hc
    cases hs : s.toList with
    | nil => rw [hs] at hc; simp at hc
    | cons d r => rw [hs] at hc this; simp at hc; subst hc; exact this
  | num n bd =>
    simp only [firstC] at hc
    rcases num_shape n bd with ⟨ds, hw, hd, hne, _⟩ | ⟨ds, hw, hd, hne, _⟩ | ⟨m, z, hw, hm, hmne, _, _, _⟩
    · rw [hw] at hc
      cases ds with
      | nil => exact absurd rfl hne
      | cons d r => simp at hc; subst hc; exact isIdentChar_digit _ (hd _ (by simp))
    · rw [hw] at hc
      cases ds with
      | nil => exact absurd rfl hne
      | cons d r => simp at hc; subst hc; exact isIdentChar_digit _ (hd _ (by simp))
    · rw [hw] at hc
      cases m with
      | nil => exact absurd rfl hmne
      | cons d r => simp at hc; subst hc; exact isIdentChar_digit _ (hm _ (by simp))
  | str s =>
    simp only [firstC, txt, tokText, String.toList_append] at hc
    simp at hc
    subst hc
    exact absurd hi (by decide)
  | p s =>
    simp only [tokOk, List.contains_iff_mem] at hb
    have := fragPuncts_noId _ hb
    simp only [firstC, txt, tokText] at hc
    cases hs : s.toList with
    | nil => rw [hs] at hc; simp at hc
    | cons d r =>
      rw [hs] at hc this; simp at hc; subst hc
      simp [punctNoId] at this
      rw [this] at hi; exact absurd hi (by simp)


/-! ## what follows a token in the rendered text -/

theorem seps_nil (w : W) (t : Tok) (h : seps w t = []) : pre2 w t = false ∧ pre1 w t = false ∧ spB w t = false := by
  refine ⟨?_, ?_, ?_⟩
  · cases h2 : pre2 w t with
    | false => rfl
    | true => exact absurd h (seps_ne_of_pre2 w t h2)
  · cases h2 : pre1 w t with
    | false => rfl
    | true => exact absurd h (seps_ne_of_pre1 w t h2)
  · cases h2 : spB w t with
    | false => rfl
    | true => exact absurd h (seps_ne_of_spB w t h2)

theorem pre1_inOf (w : W) (a b : Tok) (hb : isInOf b = true) (hl : lastIdent a = true) : pre1 (next w a) b = true := by
  simp only [isInOf, Bool.or_eq_true, beq_iff_eq] at hb
  simp only [lastIdent] at hl
  rcases hb with hb | hb <;> subst hb <;> simp only [pre1, next] <;> simp <;> exact hl

theorem spB_needs (w : W) (t : Tok) (c : Char) (h2 : pre2 w t = false) (hn : w.needsSpace = true)
    (hc : (txt t).head? = some c) (hi : isIdentChar c = true) : spB w t = true := by
  unfold spB
  simp [h2, hn, hc, hi]

theorem spB_before (w : W) (t : Tok) (c : Char) (h2 : pre2 w t = false) (hn : w.spaceBefore = some c)
    (hc : (txt t).head? = some c) : spB w t = true := by
  unfold spB
  simp [h2, hn, hc]

theorem idStart_of_not_idPart (c : Char) (h : isIdPart c = false) : isIdStart c = false ∧ c.isDigit = false := by
  rw [isIdPart_false_iff] at h
  rw [isIdStart_false_iff, isDigit_false_iff]
  omega

/-- the word rule: after a word or number, the next token starts with an identifier byte only if it is
    `in` / `instanceof` behind an identifier byte — and then the writer puts a space -/
theorem word_rule (w : W) (a b : Tok) (more : List Tok) (c : Char) (hc : firstC b = some c)
    (hs : seps (next w a) b = []) (h : (!startsIdPart b || (isInOf b && lastIdent a)) = true) :
    isIdPart c = false := by
  obtain ⟨_, h1, _⟩ := seps_nil _ _ hs
  simp only [Bool.or_eq_true, Bool.not_eq_true', Bool.and_eq_true] at h
  rcases h with h | h
  · simpa [startsIdPart, hc] using h
  · rw [pre1_inOf w a b h.1 h.2] at h1; exact absurd h1 (by simp)

theorem pair_stop (w : W) (a b : Tok) (more : List Tok) (ha : tokOk a = true) (hb : tokOk b = true)
    (hadj : adjOk a b = true) : stopC a (render (next w a) (b :: more)) := by
  by_cases hs : seps (next w a) b = []
  · have hR : render (next w a) (b :: more) = txt b ++ render (next (next w a) b) more := by
      simp [render, hs]
    obtain ⟨h2, h1, hsp⟩ := seps_nil _ _ hs
    cases htb : txt b with
    | nil => exact absurd htb (txt_ne_nil b hb)
    | cons c rb =>
      have hc : firstC b = some c := by simp [firstC, htb]
      have hhead : ∀ d, (render (next w a) (b :: more)).head? = some d → d = c := by
        intro d hd; rw [hR, htb] at hd; simpa using hd.symm
      simp only [adjOk, Bool.and_eq_true] at hadj
      obtain ⟨hadj1, hadj2⟩ := hadj
      cases a with
      | ident s =>
        intro d hd; rw [hhead d hd]
        exact word_rule w _ b more c hc hs hadj1
      | kw k =>
        intro d hd; rw [hhead d hd]
        simp only [Bool.or_eq_true] at hadj1
        rcases hadj1 with (hk | hk) | hk
        · cases hi : isIdPart c with
          | false => rfl
          | true =>
            have := spB_needs (next w (.kw k)) b c h2 (by simpa [next] using hk) (by simpa [firstC] using hc)
              (first_identChar b hb c hc hi)
            rw [this] at hsp; exact absurd hsp (by simp)
        · exact word_rule w _ b more c hc hs (by simp [hk])
        · exact word_rule w _ b more c hc hs (by simp [hk])
      | num n bd =>
        have hi := word_rule w _ b more c hc hs hadj1
        have hi2 := idStart_of_not_idPart c hi
        refine ⟨?_, ?_⟩
        · rw [hR, htb]; simp [numStop, numEndOk, hi2.1, hi2.2]
        · intro hp d hd
          rw [hhead d hd]
          simp only [hp, Bool.not_true, Bool.false_or, bne_iff_ne, ne_eq, hc, Option.some.injEq] at hadj2
          exact hadj2
      | str s => trivial
      | p s =>
        intro d hd; rw [hhead d hd]
        simp only [hc, Bool.and_eq_true, Bool.or_eq_true, Bool.not_eq_true', bne_iff_ne, ne_eq, beq_iff_eq] at hadj1
        obtain ⟨⟨hx, _⟩, hdot⟩ := hadj1
        refine ⟨?_, ?_⟩
        · rcases hx with hx | hx
          · simpa using hx
          · obtain ⟨hs3, hhd⟩ := hx
            have hsb : (next w (.p s)).spaceBefore = some c := by
              rcases hs3 with (hs3 | hs3) | hs3 <;> subst hs3 <;> simp at hhd <;> subst hhd <;> rfl
            have := spB_before (next w (.p s)) b c h2 hsb (by simpa [firstC] using hc)
            rw [this] at hsp; exact absurd hsp (by simp)
        · intro hdd
          rcases hdot with hdot | hdot
          · rcases hdd with hdd | hdd
            · exact absurd hdd hdot.1
            · exact absurd hdd hdot.2
          · exact hdot
  · exact stopC_space a _ (by simp only [render]; exact seps_head _ _ hs _)


/-! ## no comment opener is formed -/

theorem startC_nil (nl : Bool) (a : Tok) : startC nl a [] := by
  cases a with
  | p s => exact ⟨fun _ c hc => by simp at hc, fun _ => by simp, fun _ => ⟨fun _ => by simp, fun _ => by simp⟩⟩
  | _ => trivial

theorem fragPuncts_bang : ∀ p ∈ fragPuncts, p.head? = some '!' → p = ['!'] ∨ p.take 2 = ['!', '='] := by decide

theorem fragKw_noBang : ∀ k ∈ fragKw, k.toList.head? ≠ some '!' := by decide

/-- a valid token starting with `!` is the operator `!` or starts with `!=` -/
theorem first_bang (b : Tok) (hb : tokOk b = true) (h : firstC b = some '!') :
    b = .p "!" ∨ (txt b).take 2 = ['!', '='] := by
  cases b with
  | ident s =>
    simp only [tokOk, identOk, Bool.and_eq_true] at hb
    simp only [firstC, txt, tokText] at h
    cases hs : s.toList with
    | nil => rw [hs] at h; simp at h
    | cons d r =>
      rw [hs] at h hb; simp at h; subst h
      have := hb.1.1.1; simp [nameOk] at this
      exact absurd this.1 (by decide)
  | kw s =>
    simp only [tokOk, List.contains_iff_mem] at hb
    exact absurd h (fragKw_noBang s hb)
  | num n bd =>
    simp only [firstC] at h
    rcases num_shape n bd with ⟨ds, hw, hd, hne, _⟩ | ⟨ds, hw, hd, hne, _⟩ | ⟨m, z, hw, hm, hmne, _, _, _⟩
    · rw [hw] at h
      cases ds with
      | nil => exact absurd rfl hne
      | cons d r => simp at h; subst h; exact absurd (hd '!' (by simp)) (by decide)
    · rw [hw] at h
      cases ds with
      | nil => exact absurd rfl hne
      | cons d r => simp at h; subst h; exact absurd (hd '!' (by simp)) (by decide)
    · rw [hw] at h
      cases m with
      | nil => exact absurd rfl hmne
      | cons d r => simp at h; subst h; exact absurd (hm '!' (by simp)) (by decide)
  | str s =>
    simp only [firstC, txt, tokText, String.toList_append] at h
    simp at h
  | p s =>
    simp only [tokOk, List.contains_iff_mem] at hb
    simp only [firstC, txt, tokText] at h
    rcases fragPuncts_bang _ hb h with h1 | h1
    · left
      have : s = "!" := String.toList_inj.mp (by rw [h1]; rfl)
      rw [this]
    · right; simpa [txt, tokText] using h1

theorem pair_start (w : W) (nl : Bool) (a b : Tok) (more : List Tok) (hb : tokOk b = true)
    (hmore : ∀ t ∈ more, tokOk t = true) (hadj : adjOk a b = true) (hh : nl = true → headOk (a :: b :: more) = true) :
    startC nl a (render (next w a) (b :: more)) := by
  cases a with
  | p s =>
    have hne : ∀ t ∈ b :: more, txt t ≠ [] := by
      intro t ht
      simp only [List.mem_cons] at ht
      rcases ht with ht | ht
      · subst ht; exact txt_ne_nil _ hb
      · exact txt_ne_nil _ (hmore t ht)
    have hsplit : (seps (next w (.p s)) b ≠ [] ∧ (render (next w (.p s)) (b :: more)).head? = some ' ') ∨
        (seps (next w (.p s)) b = [] ∧
          render (next w (.p s)) (b :: more) = txt b ++ render (next (next w (.p s)) b) more) := by
      by_cases hs : seps (next w (.p s)) b = []
      · right; exact ⟨hs, by simp [render, hs]⟩
      · left; exact ⟨hs, by simp only [render]; exact seps_head _ _ hs _⟩
    refine ⟨?_, ?_, ?_⟩
    · -- `/` is not followed by `/` or `*`
      intro hsl c hc
      have hs' : s = "/" := String.toList_inj.mp (by rw [hsl]; rfl)
      subst hs'
      rcases hsplit with ⟨_, hsp⟩ | ⟨hs, hR⟩
      · rw [hsp] at hc; simp at hc; subst hc; decide
      · obtain ⟨h2, _, hspb⟩ := seps_nil _ _ hs
        cases htb : txt b with
        | nil => exact absurd htb (txt_ne_nil b hb)
        | cons d rb =>
          rw [hR, htb] at hc; simp at hc; subst hc
          have hfc : firstC b = some d := by simp [firstC, htb]
          refine ⟨?_, ?_⟩
          · intro e; subst e
            have := spB_before (next w (.p "/")) b '/' h2 rfl (by simpa [firstC] using hfc)
            rw [this] at hspb; exact absurd hspb (by simp)
          · simp only [adjOk, hfc, Bool.and_eq_true, Bool.or_eq_true, bne_iff_ne, ne_eq] at hadj
            rcases hadj.1.1.2 with h | h
            · exact absurd trivial h
            · exact h
    · -- `<` is not followed by `!--`
      intro hlt
      have hs' : s = "<" := String.toList_inj.mp (by rw [hlt]; rfl)
      subst hs'
      rcases hsplit with ⟨_, hsp⟩ | ⟨hs, hR⟩
      · intro e
        cases hq : render (next w (.p "<")) (b :: more) with
        | nil => rw [hq] at e; simp at e
        | cons d r => rw [hq] at hsp e; simp at hsp; subst hsp; simp at e
      · rw [hR]
        by_cases hc : firstC b = some '!'
        · rcases first_bang b hb hc with hbb | hbb
          · subst hbb
            have hsb : (next (next w (.p "<")) (.p "!")).spaceBefore = some '-' := by
              simp [next, txt, tokText]
            have := render_head_ne (next (next w (.p "<")) (.p "!")) more '-' hsb (by decide)
              (fun t ht => txt_ne_nil t (hmore t ht))
            intro e
            cases hq : render (next (next w (.p "<")) (.p "!")) more with
            | nil => rw [hq] at e; simp [txt, tokText] at e
            | cons d r =>
              rw [hq] at this e
              simp [txt, tokText] at e
              exact this (by simp [e.1])
          · intro e
            cases htb : txt b with
            | nil => exact absurd htb (txt_ne_nil b hb)
            | cons d rb =>
              cases rb with
              | nil => rw [htb] at hbb; simp at hbb
              | cons d2 rb2 =>
                rw [htb] at hbb e
                simp at hbb e
                rw [hbb.2] at e
                exact absurd e.2.1 (by decide)
        · intro e
          cases htb : txt b with
          | nil => exact absurd htb (txt_ne_nil b hb)
          | cons d rb =>
            rw [htb] at e
            simp at e
            exact hc (by simp [firstC, htb, e.1])
    · -- `-->` at the start of the script
      intro hnl
      refine ⟨?_, ?_⟩
      · intro hmi
        have hs' : s = "-" := String.toList_inj.mp (by rw [hmi]; rfl)
        subst hs'
        have := render_head_ne (next w (.p "-")) (b :: more) '-' rfl (by decide) hne
        intro e
        cases hq : render (next w (.p "-")) (b :: more) with
        | nil => rw [hq] at e; simp at e
        | cons d r => rw [hq] at this e; simp at e; exact this (by simp [e.1])
      · intro hmm
        have hs' : s = "--" := String.toList_inj.mp (by rw [hmm]; rfl)
        subst hs'
        have hho := hh hnl
        simp only [headOk, Bool.or_eq_true, beq_iff_eq, bne_iff_ne, ne_eq] at hho
        rcases hsplit with ⟨_, hsp⟩ | ⟨hs, hR⟩
        · rw [hsp]; simp
        · obtain ⟨h2, _, _⟩ := seps_nil _ _ hs
          rcases hho with hho | hho
          · subst hho
            have : pre2 (next w (.p "--")) (.p ">") = true := by simp [pre2, next, txt, tokText]
            rw [this] at h2; exact absurd h2 (by simp)
          · rw [hR]
            cases htb : txt b with
            | nil => exact absurd htb (txt_ne_nil b hb)
            | cons d rb =>
              simp only [List.cons_append, List.head?_cons, ne_eq, Option.some.injEq]
              intro e; subst e
              exact hho (by simp [firstC, htb])
  | _ => trivial


/-! ## the writer's output lexes back to the tokens -/

/-- the lexer token a writer token stands for -/
def lexTok (nl : Bool) (t : Tok) : Token := ⟨kind t, txt t, nl⟩

/-- the expected token list: only the first token is marked "at the start of a line" -/
def lexToks (nl : Bool) : List Tok → List Token
  | [] => []
  | t :: ts => lexTok nl t :: lexToks false ts

/-- the goal symbols the tracker of the lexer chooses along the token list agree with the tokens: every token
    starting with `/` (division, `/=`) stands in operator position and no `}` is taken for the end of a template
    substitution -/
def goalsOk (σ : St) (nl : Bool) : List Tok → Bool
  | [] => true
  | t :: ts =>
    ((txt t).head? != some '/' || σ.exprEnd) && (txt t != ['}'] || !tmplClose σ)
      && goalsOk (step σ (lexTok nl t)) false ts

theorem sep_core : ∀ (ts : List Tok) (w : W) (σ : St) (nl : Bool) (acc : List Token) (fuel : Nat),
    (render w ts).length < fuel → (∀ t ∈ ts, tokOk t = true) → adjChain ts = true → (nl = true → headOk ts = true) →
    goalsOk σ nl ts = true →
    lexLoop fuel σ nl (render w ts) acc = some (acc.reverse ++ lexToks nl ts) := by
  intro ts
  induction ts with
  | nil =>
    intro w σ nl acc fuel hf _ _ _ _
    cases fuel with
    | zero => simp at hf
    | succ f => simp [render, lexLoop_end, lexToks]
  | cons a rest ih =>
    intro w σ nl acc fuel hf hok hadj hhead hgoal
    cases fuel with
    | zero => simp at hf
    | succ f =>
      have ha : tokOk a = true := hok a (by simp)
      have hrest : ∀ t ∈ rest, tokOk t = true := fun t ht => hok t (by simp [ht])
      simp only [goalsOk, Bool.and_eq_true, Bool.or_eq_true, bne_iff_ne, ne_eq, Bool.not_eq_true'] at hgoal
      obtain ⟨⟨hg1, hg2⟩, hg3⟩ := hgoal
      have hstopstart : stopC a (render (next w a) rest) ∧ startC nl a (render (next w a) rest) := by
        cases rest with
        | nil => exact ⟨by simpa [render] using stopC_nil a, by simpa [render] using startC_nil nl a⟩
        | cons b more =>
          have hb : tokOk b = true := hrest b (by simp)
          have hadj1 : adjOk a b = true := by
            simp only [adjChain, Bool.and_eq_true] at hadj; exact hadj.1
          exact ⟨pair_stop w a b more ha hb hadj1,
            pair_start w nl a b more hb (fun t ht => hrest t (by simp [ht])) hadj1 hhead⟩
      have hscan := scan_tok (regexAllowed σ) (tmplClose σ) a (render (next w a) rest) ha hstopstart.1
        (by
          intro hsl
          rcases hg1 with h | h
          · exact absurd hsl h
          · simp [regexAllowed, h])
        (by
          intro hbr
          rcases hg2 with h | h
          · exact absurd hbr h
          · exact h)
      have hstart := start_tok nl a (render (next w a) rest) ha hstopstart.2
      have hlen : (seps w a).length + (txt a).length + (render (next w a) rest).length < f + 1 := by
        simpa [render, List.length_append, Nat.add_assoc] using hf
      have htl : 1 ≤ (txt a).length := by
        have := txt_ne_nil a ha
        cases h : txt a with
        | nil => exact absurd h this
        | cons c r => simp
      have hstep := lexLoop_token f σ nl (seps w a) (txt a) (render (next w a) rest) (kind a) acc
        (seps_spaces w a) (txt_ne_nil a ha) (by omega) hstart hscan
      have hadj' : adjChain rest = true := by
        cases rest with
        | nil => rfl
        | cons b more => simp only [adjChain, Bool.and_eq_true] at hadj; exact hadj.2
      have hih := ih (next w a) (step σ (lexTok nl a)) false (lexTok nl a :: acc) f (by omega)
        hrest hadj' (by intro h; exact absurd h (by simp)) hg3
      simp only [render]
      rw [hstep]
      simp only [lexTok] at hih ⊢
      rw [hih]
      simp [lexToks, lexTok]

theorem render_length (w : W) (ts : List Tok) (hok : ∀ t ∈ ts, tokOk t = true) : ts.length ≤ (render w ts).length := by
  induction ts generalizing w with
  | nil => simp
  | cons a rest ih =>
    have h1 : 1 ≤ (txt a).length := by
      have := txt_ne_nil a (hok a (by simp))
      cases h : txt a with
      | nil => exact absurd h this
      | cons c r => simp
    have h2 := ih (next w a) (fun t ht => hok t (by simp [ht]))
    simp only [render, List.length_append, List.length_cons]
    omega

end Verif.Proofs.C09JsSep

import Verif.Model.JsPrint
import Verif.Proofs.C09JsScan
/-!
# C09 (JS) — token separation of the C01 writer model (`Model.JsPrint.writeTok` / `emit`)

The writer is restated as a right fold (`render`): the bytes written for a token list are, token by token, the
separators the writer decides on (`seps`) followed by the token text; the state that matters for the next decision is
`W` (`needsSpace`, `spaceBefore`, last byte written).
-/
namespace Verif.Proofs.C09JsSep
open Verif.Spec.C09JsLex Verif.Spec.JsGrammar Verif.Model.JsPrint Verif.Proofs.C09JsScan

/-- text of a token as characters -/
def txt (t : Tok) : List Char := (tokText t).toList

structure W where
  needsSpace : Bool := false
  spaceBefore : Option Char := none
  prevLast : Option Char := none
deriving Repr, DecidableEq

def W.of (st : WState) : W := ⟨st.needsSpace, st.spaceBefore, st.prevLast⟩

def pre1 (w : W) (t : Tok) : Bool :=
  match t with
  | .kw k => (k == "in" || k == "instanceof") && (match w.prevLast with | some c => isIdentChar c | none => false)
  | _ => false

def pre2 (w : W) (t : Tok) : Bool := t == .p ">" && w.prevLast == some '-'

def spB (w : W) (t : Tok) : Bool :=
  let w1 : W := if pre2 w t then ⟨false, none, some ' '⟩ else w
  (w1.needsSpace && (match (txt t).head? with | some c => isIdentChar c | none => false))
    || (w1.spaceBefore.isSome && w1.spaceBefore == (txt t).head?)

/-- the separators written in front of `t` -/
def seps (w : W) (t : Tok) : List Char :=
  (if pre2 w t then [' '] else []) ++ (if pre1 w t then [' '] else []) ++ (if spB w t then [' '] else [])

def next (w : W) (t : Tok) : W :=
  { needsSpace := (match t with | .kw k => kwNeedsSpace k | _ => false),
    spaceBefore := (match t with
      | .p "+" => some '+'
      | .p "-" => some '-'
      | .p "/" => some '/'
      | .p "!" => if (t == .p "!" && w.prevLast == some '<') then some '-' else none
      | _ => none),
    prevLast := (txt t).getLast? }

def render (w : W) : List Tok → List Char
  | [] => []
  | t :: ts => seps w t ++ (txt t ++ render (next w t) ts)

theorem writeTok_out (st : WState) (t : Tok) :
    (writeTok st t).out = st.out ++ (seps (W.of st) t ++ txt t) ∧ W.of (writeTok st t) = next (W.of st) t := by
  cases t <;>
  · unfold writeTok seps next spB pre1 pre2 W.of txt
    by_cases h2 : st.prevLast = some '-' <;> simp [h2, List.append_assoc] <;> (try split) <;> (try simp_all) <;>
      first | rfl | exact ⟨rfl, rfl⟩

theorem emitFrom_out (st : WState) (ts : List Tok) : (emitFrom st ts).out = st.out ++ render (W.of st) ts := by
  induction ts generalizing st with
  | nil => simp [emitFrom, render]
  | cons t ts ih =>
    have h := writeTok_out st t
    have : emitFrom st (t :: ts) = emitFrom (writeTok st t) ts := by simp [emitFrom]
    rw [this, ih, h.1, h.2]
    simp [render]

theorem emit_eq_render (ts : List Tok) : emit ts = render {} ts := by
  have := emitFrom_out {} ts
  simpa [emit, W.of] using this


/-! ## decimal digits of a natural number -/

theorem digitChar_props : ∀ d, d < 10 → (Nat.digitChar d).isDigit = true ∧ (Nat.digitChar d = '0' → d = 0) := by
  decide

theorem toDigits_allDigit (n : Nat) : ∀ c ∈ Nat.toDigits 10 n, c.isDigit = true := by
  induction n using Nat.strongRecOn with
  | _ n ih =>
    rw [Nat.toDigits_eq_if (by decide)]
    split
    · rename_i h
      intro c hc
      simp at hc; subst hc
      exact (digitChar_props n h).1
    · rename_i h
      intro c hc
      simp only [List.mem_append, List.mem_singleton] at hc
      rcases hc with hc | hc
      · exact ih (n / 10) (by omega) c hc
      · subst hc; exact (digitChar_props (n % 10) (by omega)).1

theorem toDigits_head_zero (n : Nat) (h : (Nat.toDigits 10 n).head? = some '0') : n = 0 := by
  induction n using Nat.strongRecOn with
  | _ n ih =>
    rw [Nat.toDigits_eq_if (by decide)] at h
    split at h
    · rename_i hl
      have h' : Nat.digitChar n = '0' := by simpa using h
      exact (digitChar_props n hl).2 h'
    · rename_i hl
      have hne : Nat.toDigits 10 (n / 10) ≠ [] := Nat.toDigits_ne_nil
      have hh : (Nat.toDigits 10 (n / 10) ++ [Nat.digitChar (n % 10)]).head? = (Nat.toDigits 10 (n / 10)).head? := by
        cases hd : Nat.toDigits 10 (n / 10) with
        | nil => exact absurd hd hne
        | cons c r => rfl
      rw [hh] at h
      have := ih (n / 10) (by omega) h
      omega

theorem toDigits_noLeadZero (n : Nat) : noLeadZero (Nat.toDigits 10 n) := by
  intro h
  have := toDigits_head_zero n h
  subst this
  rfl

theorem toString_toList (k : Nat) : (toString k).toList = Nat.toDigits 10 k := by
  simp [toString, Nat.repr]

/-! ## the text of a number token -/

/-- the three spellings of a number token: digits, digits with the dot that protects a member access, mantissa `e`
    exponent -/
inductive NumShape (w : List Char) : Prop where
  | int (ds : List Char) (h : w = ds) (hd : ∀ c ∈ ds, c.isDigit = true) (hne : ds ≠ []) (hz : noLeadZero ds)
  | intDot (ds : List Char) (h : w = ds ++ ['.']) (hd : ∀ c ∈ ds, c.isDigit = true) (hne : ds ≠ []) (hz : noLeadZero ds)
  | exp (m z : List Char) (h : w = m ++ 'e' :: z) (hm : ∀ c ∈ m, c.isDigit = true) (hmne : m ≠ []) (hmz : noLeadZero m)
      (hzd : ∀ c ∈ z, c.isDigit = true) (hzne : z ≠ [])

theorem numText_toList (n : Nat) : (numText n).toList =
    if 3 ≤ trailingZeros 64 n then Nat.toDigits 10 (n / 10 ^ trailingZeros 64 n) ++ 'e' :: Nat.toDigits 10 (trailingZeros 64 n)
    else Nat.toDigits 10 n := by
  unfold numText
  simp only []
  split <;> simp [String.toList_append, toString_toList]

theorem allDigits_numText (n : Nat) : allDigits (numText n) = !decide (3 ≤ trailingZeros 64 n) := by
  unfold allDigits
  rw [numText_toList]
  split
  · rename_i h
    simp [h]
  · rename_i h
    simp [h]
    exact toDigits_allDigit n

/-- is the number token spelled as plain digits (no dot, no exponent)? -/
def plainInt (t : Tok) : Bool :=
  match t with
  | .num n bd => allDigits (numText n) && !bd
  | _ => false

theorem num_shape (n : Nat) (bd : Bool) : NumShape (txt (.num n bd)) := by
  unfold txt tokText
  by_cases h3 : 3 ≤ trailingZeros 64 n
  · have ha : allDigits (numText n) = false := by rw [allDigits_numText]; simp [h3]
    simp only [ha, Bool.and_false, Bool.false_eq_true, if_false]
    rw [numText_toList, if_pos h3]
    exact .exp _ _ rfl (toDigits_allDigit _) Nat.toDigits_ne_nil (toDigits_noLeadZero _) (toDigits_allDigit _)
      Nat.toDigits_ne_nil
  · have ha : allDigits (numText n) = true := by rw [allDigits_numText]; simp [h3]
    cases bd with
    | false =>
      simp only [Bool.false_and, Bool.false_eq_true, if_false]
      rw [numText_toList, if_neg h3]
      exact .int _ rfl (toDigits_allDigit _) Nat.toDigits_ne_nil (toDigits_noLeadZero _)
    | true =>
      simp only [ha, Bool.and_true, if_true]
      rw [String.toList_append, numText_toList, if_neg h3]
      exact .intDot _ rfl (toDigits_allDigit _) Nat.toDigits_ne_nil (toDigits_noLeadZero _)

theorem plainInt_shape (n : Nat) (bd : Bool) (h : plainInt (.num n bd) = false) :
    (∃ ds, txt (.num n bd) = ds ++ ['.'] ∧ (∀ c ∈ ds, c.isDigit = true) ∧ ds ≠ [] ∧ noLeadZero ds) ∨
    (∃ m z, txt (.num n bd) = m ++ 'e' :: z ∧ (∀ c ∈ m, c.isDigit = true) ∧ m ≠ [] ∧ noLeadZero m ∧
      (∀ c ∈ z, c.isDigit = true) ∧ z ≠ []) := by
  unfold plainInt at h
  unfold txt tokText
  by_cases h3 : 3 ≤ trailingZeros 64 n
  · have ha : allDigits (numText n) = false := by rw [allDigits_numText]; simp [h3]
    right
    simp only [ha, Bool.and_false, Bool.false_eq_true, if_false]
    rw [numText_toList, if_pos h3]
    exact ⟨_, _, rfl, toDigits_allDigit _, Nat.toDigits_ne_nil, toDigits_noLeadZero _, toDigits_allDigit _,
      Nat.toDigits_ne_nil⟩
  · have ha : allDigits (numText n) = true := by rw [allDigits_numText]; simp [h3]
    left
    have hb : bd = true := by cases bd <;> simp_all
    subst hb
    simp only [ha, Bool.and_true, if_true]
    rw [String.toList_append, numText_toList, if_neg h3]
    exact ⟨_, rfl, toDigits_allDigit _, Nat.toDigits_ne_nil, toDigits_noLeadZero _⟩


/-! ## valid tokens of the C01 fragment -/

def fragKw : List String :=
  ["typeof", "void", "delete", "in", "instanceof", "true", "false", "null", "return", "throw", "if", "else", "function"]

/-- a plain ASCII identifier that is neither reserved nor one of the contextual words the goal tracker looks at -/
def identOk (s : String) : Bool :=
  nameOk s.toList && s.toList.all (fun c => decide (c.toNat < 128)) && !(reserved.contains s)
    && !(["yield", "await", "of", "async"].contains s)

def tokOk : Tok → Bool
  | .ident s => identOk s
  | .kw s => fragKw.contains s
  | .num _ _ => true
  | .str s => wfStr s
  | .p s => fragPuncts.contains s.toList

def kind : Tok → Kind
  | .ident _ => .name
  | .kw _ => .name
  | .num _ _ => .num
  | .str _ => .str
  | .p _ => .punct

theorem fragKw_nameOk : ∀ k ∈ fragKw, nameOk k.toList = true ∧ k.toList.all (fun c => decide (c.toNat < 128)) = true := by
  decide

/-- what may follow a token directly without being read as part of it -/
def stopC (t : Tok) (R : List Char) : Prop :=
  match t with
  | .ident _ => ∀ c, R.head? = some c → isIdPart c = false
  | .kw _ => ∀ c, R.head? = some c → isIdPart c = false
  | .num _ _ => numStop R = true ∧ (plainInt t = true → ∀ c, R.head? = some c → c ≠ '.')
  | .str _ => True
  | .p s => ∀ c, R.head? = some c → c ∉ ext s.toList ∧ (s.toList = ['.'] → c.isDigit = false)

theorem txt_ne_nil (t : Tok) (ht : tokOk t = true) : txt t ≠ [] := by
  cases t with
  | ident s =>
    simp only [tokOk, identOk, Bool.and_eq_true] at ht
    intro h; simp only [txt, tokText] at h; rw [h] at ht; simp [nameOk] at ht
  | kw s =>
    simp only [tokOk, List.contains_iff_mem] at ht
    have := (fragKw_nameOk s ht).1
    intro h; simp only [txt, tokText] at h; rw [h] at this; simp [nameOk] at this
  | num n bd =>
    rcases num_shape n bd with ⟨ds, h, _, hne, _⟩ | ⟨ds, h, _, _, _⟩ | ⟨m, z, h, _, _, _, _, _⟩
    · rw [h]; exact hne
    · rw [h]; simp
    · rw [h]; simp
  | str s => simp [txt, tokText, String.toList_append]
  | p s =>
    simp only [tokOk, List.contains_iff_mem] at ht
    have : ∀ q ∈ fragPuncts, q ≠ [] := by decide
    exact this _ ht

def punctFirstOk (p : List Char) : Bool :=
  match p with
  | [] => false
  | c :: _ => !isIdStart c && !c.isDigit && c != '"' && c != '\'' && c != '`' && c != '#'
      && (c != '}' || p == ['}']) && (c != '.' || p == ['.'])

theorem fragPuncts_first : ∀ p ∈ fragPuncts, punctFirstOk p = true := by decide

theorem wfStr_plain (s : String) (h : wfStr s = true) : ∀ c ∈ s.toList, plainStrChar '"' c = true := by
  intro c hc
  simp only [wfStr, List.all_eq_true] at h
  have := h c hc
  simp only [Bool.or_eq_true, beq_iff_eq] at this
  rcases this with ha | ha
  · rw [isAlpha_iff] at ha
    simp only [plainStrChar, isLT, Bool.and_eq_true, bne_iff_ne, ne_eq, Bool.not_eq_true', Bool.or_eq_false_iff,
      beq_eq_false_iff_ne, char_eq_iff]
    simp; omega
  · subst ha; decide

theorem scan_tok (g tc : Bool) (t : Tok) (R : List Char) (ht : tokOk t = true) (hstop : stopC t R)
    (hg : (txt t).head? = some '/' → g = false) (hb : txt t = ['}'] → tc = false) :
    scan1 g tc (txt t ++ R) = some (kind t, txt t, R) := by
  cases t with
  | ident s =>
    simp only [tokOk, identOk, Bool.and_eq_true] at ht
    exact scan1_name g tc _ R ht.1.1.1 hstop
  | kw s =>
    simp only [tokOk, List.contains_iff_mem] at ht
    exact scan1_name g tc _ R (fragKw_nameOk s ht).1 hstop
  | num n bd =>
    obtain ⟨hs, hdot⟩ := hstop
    have hR : ∀ c, R.head? = some c → c.isDigit = false ∧ c ≠ 'x' ∧ c ≠ 'X' ∧ c ≠ 'o' ∧ c ≠ 'O' ∧ c ≠ 'b' ∧ c ≠ 'B' :=
      fun c hc => ⟨(numStop_head R hs c hc).2, head_not R hs 'x' (Or.inl (by decide)) c hc,
        head_not R hs 'X' (Or.inl (by decide)) c hc, head_not R hs 'o' (Or.inl (by decide)) c hc,
        head_not R hs 'O' (Or.inl (by decide)) c hc, head_not R hs 'b' (Or.inl (by decide)) c hc,
        head_not R hs 'B' (Or.inl (by decide)) c hc⟩
    by_cases hp : plainInt (.num n bd) = true
    · -- plain digits
      have hsh : ∃ ds, txt (.num n bd) = ds ∧ (∀ c ∈ ds, c.isDigit = true) ∧ ds ≠ [] ∧ noLeadZero ds := by
        simp only [plainInt, Bool.and_eq_true, Bool.not_eq_true'] at hp
        refine ⟨Nat.toDigits 10 n, ?_, toDigits_allDigit _, Nat.toDigits_ne_nil, toDigits_noLeadZero _⟩
        have h3 : ¬ 3 ≤ trailingZeros 64 n := by
          have := hp.1; rw [allDigits_numText] at this; simpa using this
        simp only [txt, tokText, hp.2, Bool.false_and, Bool.false_eq_true, if_false]
        rw [numText_toList, if_neg h3]
      obtain ⟨ds, hw, hd, hne, hz⟩ := hsh
      rw [hw]
      have h1 := scanNumber_decimal ds R hd hne hz hR
      have h2 := scanDecimal_int ds R hd hne hs (hdot hp)
      cases ds with
      | nil => exact absurd rfl hne
      | cons c w' => exact scan1_number g tc _ R c w' rfl (hd c (by simp)) (h1.trans h2)
    · have hp' : plainInt (.num n bd) = false := by simpa using hp
      rcases plainInt_shape n bd hp' with ⟨ds, hw, hd, hne, hz⟩ | ⟨m, z, hw, hm, hmne, hmz, hzd, hzne⟩
      · rw [hw]
        have h1 := scanNumber_decimal ds ('.' :: R) hd hne hz (by intro c hc; simp at hc; subst hc; decide)
        have h2 := scanDecimal_int_dot ds R hd hne hs
        have h3 : scanNumber ((ds ++ ['.']) ++ R) = some (ds ++ ['.'], R) := by
          simpa [List.append_assoc] using h1.trans h2
        cases ds with
        | nil => exact absurd rfl hne
        | cons c w' => exact scan1_number g tc _ R c (w' ++ ['.']) rfl (hd c (by simp)) h3
      · rw [hw]
        have h1 := scanNumber_decimal m ('e' :: (z ++ R)) hm hmne hmz (by intro c hc; simp at hc; subst hc; decide)
        have h2 := scanDecimal_exp m z R hm hmne hzd hzne hs
        have h3 : scanNumber ((m ++ 'e' :: z) ++ R) = some (m ++ 'e' :: z, R) := by
          simpa [List.append_assoc] using h1.trans h2
        cases m with
        | nil => exact absurd rfl hmne
        | cons c w' => exact scan1_number g tc _ R c (w' ++ 'e' :: z) rfl (hm c (by simp)) h3
  | str s =>
    simp only [tokOk] at ht
    have := scan1_dstring g tc s.toList R (wfStr_plain s ht)
    simpa [txt, tokText, kind, String.toList_append] using this
  | p s =>
    simp only [tokOk, List.contains_iff_mem] at ht
    have hsub := fragPuncts_sub _ ht
    have hfirst := fragPuncts_first _ ht
    have hstop : ∀ c, R.head? = some c → c ∉ ext s.toList ∧ (s.toList = ['.'] → c.isDigit = false) := hstop
    have hscan := scanPunct_ext s.toList hsub.1 hsub.2 R (fun c hc => (hstop c hc).1)
    simp only [txt, tokText, kind] at hg hb ⊢
    cases hp : s.toList with
    | nil => rw [hp] at hfirst; simp [punctFirstOk] at hfirst
    | cons c r =>
      rw [hp] at hfirst hscan hg hb hstop
      simp only [punctFirstOk, Bool.and_eq_true, Bool.not_eq_true', bne_iff_ne, ne_eq, Bool.or_eq_true,
        beq_iff_eq] at hfirst
      obtain ⟨⟨⟨⟨⟨⟨⟨h1, h2⟩, h3⟩, h4⟩, h5⟩, h6⟩, h7⟩, h8⟩ := hfirst
      have hdotc : (c == '.' && (r ++ R).head?.any Char.isDigit) = false := by
        by_cases hc : c = '.'
        · have hr : r = [] := by
            rcases h8 with h8 | h8
            · exact absurd hc h8
            · exact (by simpa using h8 : c = '.' ∧ r = []).2
          subst hr
          cases R with
          | nil => simp
          | cons d R' =>
            have := (hstop d rfl).2 (by rw [hc])
            simp [this]
        · simp [hc]
      have hbr : (c == '}' && tc) = false := by
        by_cases hc : c = '}'
        · have hr : c :: r = ['}'] := by
            rcases h7 with h7 | h7
            · exact absurd hc h7
            · exact h7
          simp [hb hr]
        · simp [hc]
      have hsl : (c == '/' && g) = false := by
        by_cases hc : c = '/'
        · simp [hg (by simp [hc])]
        · simp [hc]
      have hdotc' : c = '.' → Option.any Char.isDigit (r.head?.or R.head?) = false := by
        intro hc; simpa [hc] using hdotc
      simp only [List.cons_append] at hscan ⊢
      simp [scan1, h1, h2, h3, h4, h5, h6, hbr, hsl, hscan]
      exact hdotc'

end Verif.Proofs.C09JsSep

import Verif.Proofs.JsStringSim
/-!
# C01E proofs, part 7: `escapeHTMLEnds` (the pass after `replaceEscapes`, a80add2)

`escEnds` writes a backslash after a `<` that is followed by `!--` or `/script`.  In a valid body every `<` is a
character of its own or the character of an identity escape `\<`, what follows it starts a new item, and `\/`, `\!`
are identity escapes: the value does not change.  The output contains no `</script` and no `<!--`.
-/
set_option linter.unusedSimpArgs false
namespace Verif.Proofs.JsString
open Verif.JsStrBase Verif.Spec.JsStringSem Verif.Model.JsString

/-! ## `escEnds` on lists -/

theorem escEnds_ne {c : Nat} {r : List Nat} (h : c ≠ 60) : escEnds (c :: r) = c :: escEnds r := by
  simp [escEnds, h]

theorem escEnds_run : ∀ (p t : List Nat), (∀ x ∈ p, x ≠ 60) → escEnds (p ++ t) = p ++ escEnds t := by
  intro p
  induction p with
  | nil => intro t _; rfl
  | cons a p ih =>
    intro t h
    rw [List.cons_append, escEnds_ne (h a (by simp)), ih t (fun x hx => h x (by simp [hx]))]
    rfl

theorem escEnds_head (t : List Nat) : (escEnds t).head? = t.head? := by
  cases t with
  | nil => rfl
  | cons c r =>
    simp only [escEnds]
    split <;> rfl

/-- at a `<`: nothing, or a backslash in front of the `/` or `!` that follows -/
theorem escEnds_lt (t : List Nat) :
    escEnds (60 :: t) = 60 :: escEnds t ∨
    ∃ y t', t = y :: t' ∧ (y = 47 ∨ y = 33) ∧ escEnds (60 :: t) = 60 :: 92 :: y :: escEnds t' := by
  by_cases hc : t.take 3 = [33, 45, 45] ∨ (t.head? = some 47 ∧ 7 ≤ t.length ∧ foldScript6 ((t.drop 1).take 6) = true)
  · right
    cases t with
    | nil => rcases hc with h | h <;> simp at h
    | cons y t' =>
      have hy : y = 47 ∨ y = 33 := by
        rcases hc with h | h
        · right; simp at h; exact h.1
        · left; simpa using h.1
      refine ⟨y, t', rfl, hy, ?_⟩
      have : escEnds (60 :: y :: t') = 60 :: 92 :: escEnds (y :: t') := by
        rw [escEnds]
        exact if_pos ⟨rfl, hc⟩
      rw [this, escEnds_ne (by omega)]
  · left
    rw [escEnds]
    exact if_neg (fun h => hc h.2)

/-! ## an item of the body only looks at its own bytes and at the byte behind it -/

theorem isHex_ne60 {x : Nat} (h : isHex x = true) : x ≠ 60 := by
  simp only [isHex, Bool.or_eq_true, Bool.and_eq_true, decide_eq_true_eq] at h; omega

theorem octStep_ext {e : Nat} {r1 : List Nat} :
    (octStep e r1).2 ≤ r1.length ∧ (∀ x ∈ r1.take (octStep e r1).2, x ≠ 60) ∧
    ∀ t', t'.head? = (r1.drop (octStep e r1).2).head? → octStep e (r1.take (octStep e r1).2 ++ t') = octStep e r1 := by
  unfold octStep
  cases r1 with
  | nil =>
    refine ⟨by simp, by simp, ?_⟩
    intro t' ht
    cases t' with
    | nil => rfl
    | cons a t'' => simp at ht
  | cons d2 r2 =>
    by_cases h2 : isOct d2 = true
    · have h2n : d2 ≠ 60 := by simp only [isOct, Bool.and_eq_true, decide_eq_true_eq] at h2; omega
      cases r2 with
      | nil =>
        simp only [h2, if_true]
        refine ⟨by simp, by simp [h2n], ?_⟩
        intro t' ht
        cases t' with
        | nil => simp [h2]
        | cons a t'' => simp at ht
      | cons d3 r3 =>
        by_cases h3 : e ≤ 51 ∧ isOct d3 = true
        · have h3n : d3 ≠ 60 := by have := h3.2; simp only [isOct, Bool.and_eq_true, decide_eq_true_eq] at this; omega
          simp only [h2, if_true, if_pos h3]
          refine ⟨by simp, ?_, ?_⟩
          · intro x hx; simp at hx; rcases hx with rfl | rfl <;> assumption
          · intro t' _; simp [h2, h3]
        · simp only [h2, if_true, if_neg h3]
          refine ⟨by simp, by simp [h2n], ?_⟩
          intro t' ht
          simp only [List.take_succ_cons, List.take_zero, List.cons_append, List.nil_append, List.drop_succ_cons,
            List.drop_zero, List.head?_cons] at ht ⊢
          cases t' with
          | nil => simp at ht
          | cons a t'' =>
            simp only [List.head?_cons, Option.some.injEq] at ht
            subst ht
            simp [h2, h3]
    · have h2' : isOct d2 = false := by simpa using h2
      simp only [h2', Bool.false_eq_true, if_false]
      refine ⟨by simp, by simp, ?_⟩
      intro t' ht
      simp only [List.take_zero, List.nil_append, List.drop_zero, List.head?_cons] at ht ⊢
      cases t' with
      | nil => simp at ht
      | cons a t'' =>
        simp only [List.head?_cons, Option.some.injEq] at ht
        subst ht
        simp [h2']

theorem utf8Step_E2 {r us : List Nat} {j : Nat} (h : utf8Step 0xE2 r = some (us, j)) :
    ∃ c1 c2 r3, r = c1 :: c2 :: r3 ∧ j = 2 := by
  unfold utf8Step at h
  rw [if_neg (by omega), if_pos (by omega)] at h
  match r, h with
  | c1 :: c2 :: r3, h =>
    simp only at h
    split at h
    · injection h with h
      injection h with _ h2
      exact ⟨c1, c2, r3, rfl, h2.symm⟩
    · cases h
  | [_], h => cases h
  | [], h => cases h

theorem head_any_congr {t t' : List Nat} (p : Nat → Bool) (h : t'.head? = t.head?) : t'.head?.any p = t.head?.any p := by
  rw [h]

/-- an escape sequence only looks at its own bytes and at the byte behind it; apart from the escaped character itself
    none of its bytes is `<` -/
theorem esc_ext {lgc : Bool} {e : Nat} {r1 us : List Nat} {k : Nat} (h : escStep lgc e r1 = some (us, k)) :
    ∃ j, k = j + 1 ∧ j ≤ r1.length ∧ (∀ x ∈ r1.take j, x ≠ 60) ∧
      ∀ t', t'.head? = (r1.drop j).head? → escStep lgc e (r1.take j ++ t') = some (us, j + 1) := by
  -- the six control escapes
  by_cases hctl : e = 110 ∨ e = 114 ∨ e = 116 ∨ e = 98 ∨ e = 102 ∨ e = 118
  · refine ⟨0, ?_, by omega, by simp, ?_⟩
    · rcases hctl with rfl | rfl | rfl | rfl | rfl | rfl <;> (simp [escStep] at h; omega)
    · intro t' _
      rcases hctl with rfl | rfl | rfl | rfl | rfl | rfl <;> (simp [escStep] at h ⊢; exact h.1)
  have c1 : e ≠ 110 := fun h' => hctl (Or.inl h')
  have c2 : e ≠ 114 := fun h' => hctl (Or.inr (Or.inl h'))
  have c3 : e ≠ 116 := fun h' => hctl (Or.inr (Or.inr (Or.inl h')))
  have c4 : e ≠ 98 := fun h' => hctl (Or.inr (Or.inr (Or.inr (Or.inl h'))))
  have c5 : e ≠ 102 := fun h' => hctl (Or.inr (Or.inr (Or.inr (Or.inr (Or.inl h')))))
  have c6 : e ≠ 118 := fun h' => hctl (Or.inr (Or.inr (Or.inr (Or.inr (Or.inr h')))))
  by_cases hx : e = 120
  · subst hx
    obtain ⟨a, b, r2, rfl, ha, hb⟩ := esc_hex_inv h
    rw [esc_hex ha hb] at h
    simp only [Option.some.injEq, Prod.mk.injEq] at h
    obtain ⟨rfl, rfl⟩ := h
    refine ⟨2, rfl, by simp, ?_, ?_⟩
    · intro x hx; simp at hx; rcases hx with rfl | rfl
      · exact isHex_ne60 ha
      · exact isHex_ne60 hb
    · intro t' _; simpa using esc_hex (lgc := lgc) (t := t') ha hb
  by_cases hu : e = 117
  · subst hu
    rcases esc_u_inv h with ⟨a, b, c, d, r2, rfl, ha, hb, hc, hd⟩ | ⟨ds, r2, rfl, hds, hne, hv⟩
    · rw [esc_u4 ha hb hc hd] at h
      simp only [Option.some.injEq, Prod.mk.injEq] at h
      obtain ⟨rfl, rfl⟩ := h
      refine ⟨4, rfl, by simp, ?_, ?_⟩
      · intro x hx; simp at hx
        rcases hx with rfl | rfl | rfl | rfl
        · exact isHex_ne60 ha
        · exact isHex_ne60 hb
        · exact isHex_ne60 hc
        · exact isHex_ne60 hd
      · intro t' _; simpa using esc_u4 (lgc := lgc) (t := t') ha hb hc hd
    · rw [esc_ubrace hds hne hv] at h
      simp only [Option.some.injEq, Prod.mk.injEq] at h
      obtain ⟨rfl, rfl⟩ := h
      have htake : (123 :: (ds ++ 125 :: r2)).take (ds.length + 2) = 123 :: (ds ++ [125]) := by
        rw [show ds.length + 2 = (ds.length + 1) + 1 from rfl, List.take_succ_cons]
        have : ds ++ 125 :: r2 = (ds ++ [125]) ++ r2 := by simp
        rw [this, List.take_left' (by simp)]
      refine ⟨ds.length + 2, by omega, by simp, ?_, ?_⟩
      · rw [htake]
        intro x hx
        simp at hx
        rcases hx with rfl | hx | rfl
        · omega
        · exact isHex_ne60 (hds x hx)
        · omega
      · intro t' _
        rw [htake]
        have e1 : (123 :: (ds ++ [125])) ++ t' = 123 :: (ds ++ 125 :: t') := by simp
        rw [e1, esc_ubrace hds hne hv]
        have : 3 + ds.length = ds.length + 2 + 1 := by omega
        rw [this]
  by_cases hd : isDig e = true
  · have hd' := hd
    simp only [isDig, Bool.and_eq_true, decide_eq_true_eq] at hd'
    simp only [escStep, if_neg c1, if_neg c2, if_neg c3, if_neg c4, if_neg c5, if_neg c6, if_neg hx, if_neg hu, hd, if_true] at h
    by_cases h0 : e = 48 ∧ ¬ r1.head?.any isDig = true
    · rw [if_pos h0] at h
      simp only [Option.some.injEq, Prod.mk.injEq] at h
      obtain ⟨rfl, rfl⟩ := h
      refine ⟨0, rfl, by omega, by simp, ?_⟩
      intro t' ht
      simp only [List.take_zero, List.nil_append, List.drop_zero] at ht ⊢
      simp only [escStep, if_neg c1, if_neg c2, if_neg c3, if_neg c4, if_neg c5, if_neg c6, if_neg hx, if_neg hu, hd, if_true]
      rw [if_pos ⟨h0.1, by rw [head_any_congr isDig ht]; exact h0.2⟩]
    · rw [if_neg h0] at h
      cases lgc with
      | false => simp at h
      | true =>
        simp only [Bool.not_true, Bool.false_eq_true, if_false] at h
        by_cases h8 : 56 ≤ e
        · rw [if_pos h8] at h
          simp only [Option.some.injEq, Prod.mk.injEq] at h
          obtain ⟨rfl, rfl⟩ := h
          refine ⟨0, rfl, by omega, by simp, ?_⟩
          intro t' ht
          simp only [List.take_zero, List.nil_append]
          simp only [escStep, if_neg c1, if_neg c2, if_neg c3, if_neg c4, if_neg c5, if_neg c6, if_neg hx, if_neg hu, hd, if_true]
          rw [if_neg (by omega), if_pos h8]
          simp
        · rw [if_neg h8] at h
          simp only [Option.some.injEq, Prod.mk.injEq] at h
          obtain ⟨rfl, rfl⟩ := h
          obtain ⟨o1, o2, o3⟩ := octStep_ext (e := e) (r1 := r1)
          refine ⟨(octStep e r1).2, by omega, o1, o2, ?_⟩
          intro t' ht
          have ho := o3 t' ht
          simp only [escStep, if_neg c1, if_neg c2, if_neg c3, if_neg c4, if_neg c5, if_neg c6, if_neg hx, if_neg hu, hd, if_true]
          have h0' : ¬ (e = 48 ∧ ¬ (r1.take (octStep e r1).2 ++ t').head?.any isDig = true) := by
            intro hh
            apply h0
            refine ⟨hh.1, ?_⟩
            -- the first byte behind the escape is unchanged
            have hj : (octStep e r1).2 = 0 ∨ 0 < (octStep e r1).2 := by omega
            rcases hj with hj | hj
            · rw [hj] at hh ht
              simp only [List.take_zero, List.nil_append, List.drop_zero] at hh ht
              rw [← head_any_congr isDig ht]; exact hh.2
            · -- a digit was consumed: the head of `r1` is that digit
              cases r1 with
              | nil => simp [octStep] at hj
              | cons d2 r2 =>
                have : ((d2 :: r2).take (octStep e (d2 :: r2)).2 ++ t').head? = some d2 := by
                  cases hk : (octStep e (d2 :: r2)).2 with
                  | zero => omega
                  | succ n => simp
                rw [this] at hh
                simpa using hh.2
          rw [if_neg h0', if_neg h8, ho]
          simp [Nat.add_comm]
  have hd' : isDig e = false := by simpa using hd
  simp only [escStep, if_neg c1, if_neg c2, if_neg c3, if_neg c4, if_neg c5, if_neg c6, if_neg hx, if_neg hu, hd',
    Bool.false_eq_true, if_false] at h
  -- the unfolding of `escStep` behind the digit test, for any rest
  have unfold' : ∀ r, escStep lgc e r =
      (if e = 10 then some ([], 1)
       else if e = 13 then (if r.head? = some 10 then some ([], 2) else some ([], 1))
       else if e = 0xE2 ∧ r.head? = some 0x80 ∧ (r.drop 1).head?.any (fun x => x = 0xA8 ∨ x = 0xA9) then some ([], 3)
       else if e < 0x80 then some ([e], 1)
       else (utf8Step e r).map (fun p => (p.1, p.2 + 1))) := by
    intro r
    simp only [escStep, if_neg c1, if_neg c2, if_neg c3, if_neg c4, if_neg c5, if_neg c6, if_neg hx, if_neg hu, hd',
      Bool.false_eq_true, if_false]
  by_cases h10 : e = 10
  · rw [if_pos h10] at h
    simp only [Option.some.injEq, Prod.mk.injEq] at h
    obtain ⟨rfl, rfl⟩ := h
    exact ⟨0, rfl, by omega, by simp, fun t' _ => by rw [unfold', if_pos h10]⟩
  rw [if_neg h10] at h
  by_cases h13 : e = 13
  · rw [if_pos h13] at h
    by_cases hlf : r1.head? = some 10
    · rw [if_pos hlf] at h
      simp only [Option.some.injEq, Prod.mk.injEq] at h
      obtain ⟨rfl, rfl⟩ := h
      cases r1 with
      | nil => simp at hlf
      | cons y r2 =>
        simp only [List.head?_cons, Option.some.injEq] at hlf
        subst hlf
        refine ⟨1, rfl, by simp, by simp, fun t' _ => ?_⟩
        rw [unfold', if_neg h10, if_pos h13]
        simp
    · rw [if_neg hlf] at h
      simp only [Option.some.injEq, Prod.mk.injEq] at h
      obtain ⟨rfl, rfl⟩ := h
      refine ⟨0, rfl, by omega, by simp, fun t' ht => ?_⟩
      simp only [List.take_zero, List.nil_append, List.drop_zero] at ht ⊢
      rw [unfold', if_neg h10, if_pos h13, ht, if_neg hlf]
  rw [if_neg h13] at h
  by_cases hlc : e = 0xE2 ∧ r1.head? = some 0x80 ∧ ((r1.drop 1).head?.any (fun x => x = 0xA8 ∨ x = 0xA9)) = true
  · rw [if_pos hlc] at h
    simp only [Option.some.injEq, Prod.mk.injEq] at h
    obtain ⟨rfl, rfl⟩ := h
    obtain ⟨hE, h80, hA⟩ := hlc
    cases r1 with
    | nil => simp at h80
    | cons y r2 =>
      cases r2 with
      | nil => simp at hA
      | cons z r3 =>
        simp only [List.head?_cons, Option.some.injEq] at h80
        subst h80
        simp only [List.drop_succ_cons, List.drop_zero, List.head?_cons, Option.any_some] at hA
        refine ⟨2, rfl, by simp, ?_, fun t' _ => ?_⟩
        · intro x hx; simp at hx
          have hz : z = 0xA8 ∨ z = 0xA9 := by simpa using hA
          rcases hx with rfl | rfl <;> omega
        · rw [unfold', if_neg h10, if_neg h13]
          rw [if_pos]
          exact ⟨hE, by simp, by simpa using hA⟩
  rw [if_neg hlc] at h
  by_cases h128 : e < 0x80
  · rw [if_pos h128] at h
    simp only [Option.some.injEq, Prod.mk.injEq] at h
    obtain ⟨rfl, rfl⟩ := h
    refine ⟨0, rfl, by omega, by simp, fun t' _ => ?_⟩
    rw [unfold', if_neg h10, if_neg h13, if_neg (by omega), if_pos h128]
  · rw [if_neg h128] at h
    cases hu8 : utf8Step e r1 with
    | none => rw [hu8] at h; simp at h
    | some pr =>
      obtain ⟨us', j⟩ := pr
      rw [hu8] at h
      simp only [Option.map_some, Option.some.injEq, Prod.mk.injEq] at h
      obtain ⟨rfl, rfl⟩ := h
      obtain ⟨u1, u2, u3⟩ := utf8Step_take hu8
      refine ⟨j, rfl, u1, fun x hx => by have := u2 x hx; omega, fun t' _ => ?_⟩
      rw [unfold', if_neg h10, if_neg h13, if_neg h128, u3 t']
      -- the line-continuation test fails on the new text as on the old one
      have hnl : ¬ (e = 0xE2 ∧ (r1.take j ++ t').head? = some 0x80 ∧
          ((r1.take j ++ t').drop 1).head?.any (fun x => x = 0xA8 ∨ x = 0xA9) = true) := by
        rintro ⟨hE, h80, hA⟩
        subst hE
        -- U+2028/2029 are three-byte sequences: two continuation bytes were consumed
        obtain ⟨c1, c2, r3, rfl, rfl⟩ := utf8Step_E2 hu8
        simp only [List.take_succ_cons, List.take_zero, List.cons_append, List.nil_append, List.head?_cons,
          Option.some.injEq, List.drop_succ_cons, List.drop_zero] at h80 hA
        apply hlc
        exact ⟨rfl, by simp [h80], by simpa using hA⟩
      rw [if_neg hnl]
      simp

/-- an item of the body only looks at its own bytes and at the byte behind it; none of its bytes but the first
    (and the escaped character of `\<`) is a `<` -/
theorem tok_ext {m : Bool} {q c : Nat} {r us : List Nat} {k : Nat} (hq : IsQ q)
    (h : decStep m q c r = some (us, k)) (hb : ¬ (c = 92 ∧ r.head? = some 60)) :
    k ≤ r.length ∧ (∀ x ∈ r.take k, x ≠ 60) ∧
    ∀ t', t'.head? = (r.drop k).head? → decStep m q c (r.take k ++ t') = some (us, k) := by
  by_cases hcq : c = q
  · simp [decStep, hcq] at h
  by_cases h92 : c = 92
  · subst h92
    cases r with
    | nil => rcases hq with rfl | rfl | rfl <;> simp [decStep] at h
    | cons e r1 =>
      rw [decStep_bsl hq] at h
      obtain ⟨j, rfl, hj, hne, hext⟩ := esc_ext h
      have he : e ≠ 60 := fun h' => hb ⟨rfl, by simp [h']⟩
      refine ⟨by simp; omega, ?_, ?_⟩
      · intro x hx
        simp only [List.take_succ_cons, List.mem_cons] at hx
        rcases hx with rfl | hx
        · exact he
        · exact hne x hx
      · intro t' ht
        simp only [List.take_succ_cons, List.cons_append, List.drop_succ_cons] at ht ⊢
        rw [decStep_bsl hq]
        exact hext t' ht
  by_cases hnl : c = 10 ∨ c = 13
  · simp only [decStep, if_neg hcq, if_neg h92, if_pos hnl] at h
    by_cases h96 : q = 96
    · rw [if_pos h96] at h
      by_cases hcr : c = 13 ∧ r.head? = some 10
      · rw [if_pos hcr] at h
        simp only [Option.some.injEq, Prod.mk.injEq] at h
        obtain ⟨rfl, rfl⟩ := h
        cases r with
        | nil => simp at hcr
        | cons y r2 =>
          have : y = 10 := by simpa using hcr.2
          subst this
          refine ⟨by simp, by simp, fun t' _ => ?_⟩
          simp [decStep, hcq, h92, hnl, h96, hcr.1]
      · rw [if_neg hcr] at h
        simp only [Option.some.injEq, Prod.mk.injEq] at h
        obtain ⟨rfl, rfl⟩ := h
        refine ⟨by omega, by simp, fun t' ht => ?_⟩
        simp only [List.take_zero, List.nil_append, List.drop_zero] at ht ⊢
        simp only [decStep, if_neg hcq, if_neg h92, if_pos hnl, if_pos h96]
        rw [if_neg (by rw [ht]; exact hcr)]
    · rw [if_neg h96] at h; cases h
  simp only [decStep, if_neg hcq, if_neg h92, if_neg hnl] at h
  by_cases hdl : c = 36 ∧ q = 96 ∧ r.head? = some 123
  · rw [if_pos hdl] at h; cases h
  rw [if_neg hdl] at h
  by_cases h128 : c < 0x80
  · rw [if_pos h128] at h
    simp only [Option.some.injEq, Prod.mk.injEq] at h
    obtain ⟨rfl, rfl⟩ := h
    refine ⟨by omega, by simp, fun t' ht => ?_⟩
    simp only [List.take_zero, List.nil_append, List.drop_zero] at ht ⊢
    simp only [decStep, if_neg hcq, if_neg h92, if_neg hnl]
    rw [if_neg (by rw [ht]; exact hdl), if_pos h128]
  · rw [if_neg h128] at h
    obtain ⟨u1, u2, u3⟩ := utf8Step_take h
    refine ⟨u1, fun x hx => by have := u2 x hx; omega, fun t' _ => ?_⟩
    simp only [decStep, if_neg hcq, if_neg h92, if_neg hnl]
    rw [if_neg (fun hh => by omega), if_neg h128]
    exact u3 t'

/-! ## the value is unchanged -/

theorem escEnds_value {m : Bool} {q : Nat} (hq : IsQ q) : ∀ (n : Nat) (l v : List Nat), l.length ≤ n →
    decBody m q l = some v → decBody m q (escEnds l) = some v := by
  intro n
  induction n with
  | zero =>
    intro l v hl hv
    have : l = [] := List.eq_nil_of_length_eq_zero (by omega)
    subst this
    simpa [escEnds] using hv
  | succ n ih =>
    intro l v hl hv
    cases l with
    | nil => simpa [escEnds] using hv
    | cons c r =>
      have hrl : r.length ≤ n := by simpa using hl
      obtain ⟨us, k, v', hst, hv', hw⟩ := valid_cons hv
      -- what happens at a `<` (plain or as the character of `\<`): `X` is what the pass makes of the rest
      have atLt : ∀ (t w : List Nat), t.length ≤ n → decBody m q t = some w →
          ∃ X, escEnds (60 :: t) = 60 :: X ∧ decBody m q X = some w := by
        intro t w htl hw'
        rcases escEnds_lt t with h1 | ⟨y, t2, rfl, hy, h2⟩
        · exact ⟨escEnds t, h1, ih t w htl hw'⟩
        · refine ⟨92 :: y :: escEnds t2, h2, ?_⟩
          have hyq : y ≠ q := by rcases hq with rfl | rfl | rfl <;> omega
          have hp : decBody m q (y :: t2) = (decBody m q t2).map ([y] ++ ·) :=
            dec_plain (by omega) hyq (by omega) (by omega) (by omega) (by omega)
          rw [hp] at hw'
          cases hd2 : decBody m q t2 with
          | none => rw [hd2] at hw'; simp at hw'
          | some w2 =>
            rw [hd2] at hw'
            have hi : decBody m q (92 :: y :: escEnds t2) = (decBody m q (escEnds t2)).map ([y] ++ ·) :=
              dec_esc_ident hq (by omega) (by simp [isDig]; omega) (by omega)
            rw [hi, ih t2 w2 (by simp at htl; omega) hd2]
            simpa using hw'
      by_cases h60 : c = 60
      · subst h60
        have hcq : (60 : Nat) ≠ q := by rcases hq with rfl | rfl | rfl <;> omega
        rw [decStep_plain (by omega) hcq (by omega) (by omega) (by omega) (by omega)] at hst
        simp only [Option.some.injEq, Prod.mk.injEq] at hst
        obtain ⟨rfl, rfl⟩ := hst
        obtain ⟨X, hX, hdX⟩ := atLt r v' hrl (by simpa using hv')
        rw [hX, dec_plain (by omega) hcq (by omega) (by omega) (by omega) (by omega), hdX, hw]
        rfl
      · by_cases hbl : c = 92 ∧ r.head? = some 60
        · obtain ⟨rfl, hh⟩ := hbl
          cases r with
          | nil => simp at hh
          | cons e r1 =>
            have : e = 60 := by simpa using hh
            subst this
            have hid : escStep (lg m q) 60 r1 = some ([60], 1) := esc_ident (by omega) (by simp [isDig]) (by omega)
            rw [decStep_bsl hq, hid] at hst
            simp only [Option.some.injEq, Prod.mk.injEq] at hst
            obtain ⟨rfl, rfl⟩ := hst
            obtain ⟨X, hX, hdX⟩ := atLt r1 v' (by simp at hrl; omega) (by simpa using hv')
            rw [escEnds_ne (by omega), hX]
            have hi : decBody m q (92 :: 60 :: X) = (decBody m q X).map ([60] ++ ·) :=
              dec_esc_ident hq (by omega) (by simp [isDig]) (by omega)
            rw [hi, hdX, hw]
            rfl
        · obtain ⟨t1, t2, t3⟩ := tok_ext hq hst hbl
          have hsplit : r = r.take k ++ r.drop k := (List.take_append_drop k r).symm
          have he : escEnds (c :: r) = c :: (r.take k ++ escEnds (r.drop k)) := by
            rw [escEnds_ne h60]
            congr 1
            conv => lhs; rw [hsplit]
            exact escEnds_run _ _ t2
          rw [he]
          have hs' := t3 (escEnds (r.drop k)) (escEnds_head _)
          rw [dec_of_step hs']
          have hdrop : (r.take k ++ escEnds (r.drop k)).drop k = escEnds (r.drop k) := by
            rw [List.drop_left' (by simp; omega)]
          rw [hdrop, ih (r.drop k) v' (by simp; omega) hv', hw]
          rfl

/-! ## no `</script`, no `<!--` in the output -/

/-- bytes of the output that are neither `<` nor the closing quote are bytes of the input of the pass -/
theorem take_escEnds {q : Nat} : ∀ (n : Nat) (r : List Nat),
    (∀ x ∈ (escEnds r ++ [q]).take n, x ≠ 60 ∧ x ≠ q) → (escEnds r ++ [q]).take n = r.take n ∧ n ≤ r.length := by
  intro n
  induction n with
  | zero => intro r _; simp
  | succ n ih =>
    intro r h
    cases r with
    | nil =>
      have := h q (by simp [escEnds])
      exact absurd rfl this.2
    | cons b r2 =>
      have hb : b ≠ 60 := by
        have hh : ((escEnds (b :: r2) ++ [q]).take (n + 1)).head? = some b := by
          have := escEnds_head (b :: r2)
          cases he : escEnds (b :: r2) with
          | nil => rw [he] at this; simp at this
          | cons y ys => rw [he] at this; simp at this; subst this; simp
        cases ht : (escEnds (b :: r2) ++ [q]).take (n + 1) with
        | nil => rw [ht] at hh; simp at hh
        | cons y ys =>
          rw [ht] at hh
          simp at hh
          subst hh
          exact (h y (by rw [ht]; simp)).1
      rw [escEnds_ne hb] at h ⊢
      simp only [List.cons_append, List.take_succ_cons] at h ⊢
      obtain ⟨i1, i2⟩ := ih r2 (fun x hx => h x (by simp [hx]))
      exact ⟨by rw [i1], by simp; omega⟩

theorem lowerA_ne {x : Nat} (h : lowerA x ∈ [47, 115, 99, 114, 105, 112, 116]) (q : Nat) (hq : IsQ q) : x ≠ 60 ∧ x ≠ q := by
  unfold lowerA at h
  simp only [List.mem_cons, List.mem_nil_iff, or_false] at h
  rcases hq with rfl | rfl | rfl <;> (split at h <;> omega)

theorem foldScript6_of_lower {l : List Nat} (h : l.map lowerA = [115, 99, 114, 105, 112, 116]) : foldScript6 l = true := by
  rcases l with _ | ⟨b, _ | ⟨c, _ | ⟨d, _ | ⟨e, _ | ⟨f, _ | ⟨g, _ | ⟨x, l⟩⟩⟩⟩⟩⟩⟩
  all_goals try (simp at h; done)
  simp only [List.map_cons, List.map_nil, List.cons.injEq, and_true] at h
  obtain ⟨h1, h2, h3, h4, h5, h6⟩ := h
  simp only [foldScript6, foldEq, Bool.and_eq_true, Bool.or_eq_true, decide_eq_true_eq]
  unfold lowerA at h1 h2 h3 h4 h5 h6
  refine ⟨⟨⟨⟨⟨?_, ?_⟩, ?_⟩, ?_⟩, ?_⟩, ?_⟩
  · split at h1 <;> omega
  · split at h2 <;> omega
  · split at h3 <;> omega
  · split at h4 <;> omega
  · split at h5 <;> omega
  · split at h6 <;> omega

/-- the body written by the pass, with the closing quote, contains no `</script` and no `<!--` -/
theorem escEnds_clean {q : Nat} (hq : IsQ q) : ∀ (r : List Nat), hasHtmlEnd (escEnds r ++ [q]) = false := by
  intro r
  induction r with
  | nil =>
    rcases hq with rfl | rfl | rfl <;> decide
  | cons c r ih =>
    by_cases hc : c = 60 ∧ (r.take 3 = [33, 45, 45] ∨ (r.head? = some 47 ∧ 7 ≤ r.length ∧ foldScript6 ((r.drop 1).take 6) = true))
    · have : escEnds (c :: r) = c :: 92 :: escEnds r := by rw [escEnds]; exact if_pos hc
      rw [this]
      simp only [List.cons_append, hasHtmlEnd, ih, Bool.or_false]
      obtain ⟨rfl, _⟩ := hc
      simp [lowerA]
    · have : escEnds (c :: r) = c :: escEnds r := by rw [escEnds]; exact if_neg hc
      rw [this]
      simp only [List.cons_append, hasHtmlEnd, ih, Bool.or_false]
      by_cases h60 : c = 60
      · subst h60
        simp only [decide_true, Bool.true_and, Bool.or_eq_false_iff, beq_eq_false_iff_ne, ne_eq]
        constructor
        · -- `/script` in any case
          intro hs
          have hne : ∀ x ∈ (escEnds r ++ [q]).take 7, x ≠ 60 ∧ x ≠ q := by
            intro x hx
            have : lowerA x ∈ ((escEnds r ++ [q]).take 7).map lowerA := List.mem_map_of_mem hx
            rw [hs] at this
            exact lowerA_ne this q hq
          obtain ⟨e1, e2⟩ := take_escEnds 7 r hne
          rw [e1] at hs
          apply hc
          refine ⟨rfl, Or.inr ⟨?_, e2, ?_⟩⟩
          · match r, hs, e2 with
            | y :: r2, hs, _ =>
              simp only [List.take_succ_cons, List.map_cons, List.cons.injEq] at hs
              have := hs.1
              unfold lowerA at this
              simp only [List.head?_cons, Option.some.injEq]
              split at this <;> omega
          · apply foldScript6_of_lower
            match r, hs, e2 with
            | y :: r2, hs, _ =>
              simp only [List.take_succ_cons, List.map_cons, List.cons.injEq] at hs
              simp only [List.drop_succ_cons, List.drop_zero]
              exact hs.2
        · intro hs
          have hne : ∀ x ∈ (escEnds r ++ [q]).take 3, x ≠ 60 ∧ x ≠ q := by
            intro x hx
            rw [hs] at hx
            simp only [List.mem_cons, List.mem_nil_iff, or_false] at hx
            rcases hq with rfl | rfl | rfl <;> omega
          obtain ⟨e1, _⟩ := take_escEnds 3 r hne
          rw [e1] at hs
          exact hc ⟨rfl, Or.inl hs⟩
      · simp [h60]

theorem hasHtmlEnd_quote {q : Nat} (hq : IsQ q) (l : List Nat) : hasHtmlEnd (q :: l) = hasHtmlEnd l := by
  have : q ≠ 60 := by rcases hq with rfl | rfl | rfl <;> omega
  simp [hasHtmlEnd, this]

/-- `</script>` is a case of `</script` -/
theorem hasScriptEnd_le : ∀ (l : List Nat), hasScriptEnd l = true → hasHtmlEnd l = true := by
  intro l
  induction l with
  | nil => intro h; simp [hasScriptEnd] at h
  | cons c r ih =>
    intro h
    simp only [hasScriptEnd, Bool.or_eq_true, Bool.and_eq_true, decide_eq_true_eq] at h
    simp only [hasHtmlEnd, Bool.or_eq_true, Bool.and_eq_true, decide_eq_true_eq]
    rcases h with ⟨hc, hp⟩ | h
    · left
      refine ⟨hc, Or.inl ?_⟩
      obtain ⟨r', rfl⟩ := prefix_split hp
      simp [scriptEnd, lowerA]
    · right; exact ih h

end Verif.Proofs.JsString

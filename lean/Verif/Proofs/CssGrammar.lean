import Verif.Model.CssGrammar
import Verif.Spec.CssGrammarSpec
/-!
# Lemmas about the grammar walk (C04B)

* `parseNodes_ok`, `flatten_treeOf` — every event stream is the flattening of its rule tree.
* `walk_node`, `walk_list` — on a well-formed tree the loop with its `semicolonQueued` state writes the compositional
  serialisation `renderList` (mutual structural induction over the tree).
* white-space lemmas for comments and custom properties.
-/
namespace Verif.Proofs.CssGrammar
open Verif.Spec.CssValue (Tok)
open Verif.Spec.CssGrammar Verif.Model.CssGrammar

/-! ## trees and streams -/

theorem parseNodes_ok : ∀ (fuel : Nat) (top : Bool) (evs : List Ev), evs.length < fuel →
    flattenList (parseNodes fuel top evs).1 ++ (parseNodes fuel top evs).2 = evs ∧
    (parseNodes fuel top evs).2.length ≤ evs.length ∧
    (top = true → (parseNodes fuel top evs).2 = []) := by
  intro fuel
  induction fuel with
  | zero => intro top evs h; omega
  | succ fuel ih =>
    intro top evs h
    cases evs with
    | nil => simp [parseNodes, flattenList]
    | cons e r =>
      have hr : r.length < fuel := by simp at h; omega
      by_cases hc : e.isClose = true
      · by_cases ht : top = true
        · obtain ⟨h1, h2, h3⟩ := ih top r hr
          subst ht
          simp only [parseNodes, hc, if_true]
          refine ⟨?_, ?_, ?_⟩
          · simp only [flattenList, flattenNode, List.cons_append, List.nil_append]
            rw [h1]
          · simp only [List.length_cons]; omega
          · intro _; exact h3 rfl
        · have ht' : top = false := by cases top <;> simp_all
          subst ht'
          simp [parseNodes, hc, flattenList]
      · have hc' : e.isClose = false := by cases h' : e.isClose <;> simp_all
        by_cases ho : e.isOpen = true
        · obtain ⟨k1, k2, _⟩ := ih false r hr
          simp only [parseNodes, hc', ho, if_true, Bool.false_eq_true, if_false]
          cases hrest : (parseNodes fuel false r).2 with
          | nil =>
            simp only
            rw [hrest] at k1
            refine ⟨?_, by simp, fun _ => trivial⟩
            simp only [flattenList, flattenNode, Option.toList, List.append_nil]
            simp only [List.append_nil] at k1
            rw [k1]
          | cons c rest' =>
            simp only
            rw [hrest] at k1 k2
            have hlen : rest'.length < fuel := by simp only [List.length_cons] at k2; omega
            obtain ⟨m1, m2, m3⟩ := ih top rest' hlen
            refine ⟨?_, ?_, ?_⟩
            · simp only [flattenList, flattenNode, Option.toList, List.cons_append, List.nil_append, List.append_assoc]
              rw [m1, k1]
            · simp only [List.length_cons] at k2 ⊢; omega
            · exact m3
        · have ho' : e.isOpen = false := by cases h' : e.isOpen <;> simp_all
          obtain ⟨h1, h2, h3⟩ := ih top r hr
          simp only [parseNodes, hc', ho', Bool.false_eq_true, if_false]
          refine ⟨?_, ?_, h3⟩
          · simp only [flattenList, flattenNode, List.cons_append, List.nil_append]
            rw [h1]
          · simp only [List.length_cons]; omega

/-- every event stream is the flattening of its rule tree -/
theorem flatten_treeOf (evs : List Ev) : flatten (treeOf evs) = evs := by
  obtain ⟨h1, _, h3⟩ := parseNodes_ok (evs.length + 1) true evs (by omega)
  unfold flatten treeOf
  rw [h3 rfl] at h1
  simpa using h1

/-! ## the walk on a well-formed tree -/

/-- `semicolonQueued` after the items `t` -/
def qAfter : Bool → List Node → Bool
  | q, [] => q
  | _, n :: r => qAfter n.isStmt r

theorem isOpen_gt (e : Ev) (h : e.isOpen = true) :
    e.gt ≠ .error ∧ e.isClose = false ∧ queues e = false := by
  unfold Ev.isOpen at h
  unfold Ev.isClose queues
  rcases e with ⟨gt, d, v⟩
  cases gt <;> simp_all

theorem isClose_gt (e : Ev) (h : e.isClose = true) : e.gt ≠ .error := by
  unfold Ev.isClose at h
  rcases e with ⟨gt, d, v⟩
  cases gt <;> simp_all

theorem walk_leaf (decl : DeclFn) (e : Ev) (q : Bool) (rest : List Ev)
    (h2 : e.isClose = false) (h3 : e.gt ≠ .error) :
    walk decl q (e :: rest) = (if q then [';'] else []) ++ (evBytes decl e ++ walk decl (queues e) rest) := by
  simp [walk, h2, h3]

theorem walk_close (decl : DeclFn) (c : Ev) (q : Bool) (rest : List Ev) (h : c.isClose = true) :
    walk decl q (c :: rest) = '}' :: walk decl false rest := by
  have := isClose_gt c h
  simp [walk, h, this]

mutual
theorem walk_node (decl : DeclFn) : ∀ (n : Node), n.wf = true → ∀ (q : Bool) (rest : List Ev),
    walk decl q (flattenNode n ++ rest) =
      (if q then [';'] else []) ++ (renderNode (evBytes decl) n ++ walk decl n.isStmt rest)
  | .leaf e, h, q, rest => by
    simp only [Node.wf, Bool.and_eq_true, Bool.not_eq_true', bne_iff_ne, ne_eq] at h
    obtain ⟨⟨h1, h2⟩, h3⟩ := h
    simp only [flattenNode, List.cons_append, List.nil_append, renderNode, Node.isStmt]
    rw [walk_leaf decl e q rest h2 h3]
    rfl
  | .block op kids cl, h, q, rest => by
    simp only [Node.wf, Bool.and_eq_true] at h
    obtain ⟨⟨ho, hk⟩, hc⟩ := h
    obtain ⟨g1, g2, g3⟩ := isOpen_gt op ho
    cases cl with
    | none => simp at hc
    | some c =>
      have hcl : c.isClose = true := by
        unfold Ev.isClose
        simp only [Bool.or_eq_true, Bool.and_eq_true, beq_iff_eq] at hc
        rcases hc with ⟨_, h⟩ | ⟨_, h⟩ <;> simp [h]
      simp only [flattenNode, Option.toList, List.cons_append, List.append_assoc, List.nil_append, renderNode, Node.isStmt]
      rw [walk_leaf decl op q _ g2 g1, g3, walk_list decl kids hk false (c :: rest), walk_close decl c _ rest hcl]
      simp
theorem walk_list (decl : DeclFn) : ∀ (t : List Node), wfList t = true → ∀ (q : Bool) (rest : List Ev),
    walk decl q (flattenList t ++ rest) =
      (if q && !t.isEmpty then [';'] else []) ++ (renderList (evBytes decl) t ++ walk decl (qAfter q t) rest)
  | [], _, q, rest => by simp [flattenList, renderList, qAfter]
  | n :: r, h, q, rest => by
    simp only [wfList, Bool.and_eq_true] at h
    simp only [flattenList, List.append_assoc, renderList, qAfter, List.isEmpty_cons, Bool.not_false, Bool.and_true]
    rw [walk_node decl n h.1 q, walk_list decl r h.2 n.isStmt rest]
end

/-! ## white space: comments and custom properties -/

/-- the bytes that are not white space -/
def nonWs (l : List Char) : List Char := l.filter fun c => !isWs c

theorem takeWhile_all (p : Char → Bool) : ∀ l : List Char, (l.takeWhile p).all p = true
  | [] => rfl
  | c :: r => by
    by_cases h : p c = true
    · simp [List.takeWhile, h, takeWhile_all p r]
    · simp [List.takeWhile, h]

theorem nonWs_of_all : ∀ l : List Char, l.all isWs = true → nonWs l = []
  | [], _ => rfl
  | c :: r, h => by
    simp only [List.all_cons, Bool.and_eq_true] at h
    simp [nonWs, h.1]
    have := nonWs_of_all r h.2
    simpa [nonWs] using this

theorem nonWs_append (a b : List Char) : nonWs (a ++ b) = nonWs a ++ nonWs b := by simp [nonWs]

theorem collapseAux_nonWs : ∀ (l : List Char) (skip : Nat), skip ≤ (l.takeWhile isWs).length →
    nonWs (collapseAux skip l) = nonWs l
  | [], skip, _ => by cases skip <;> simp [collapseAux]
  | c :: r, skip + 1, h => by
    by_cases hc : isWs c = true
    · simp only [List.takeWhile, hc, List.length_cons] at h
      simp only [collapseAux]
      rw [collapseAux_nonWs r skip (by omega)]
      simp [nonWs, hc]
    · simp [List.takeWhile, hc] at h
  | c :: r, 0, _ => by
    by_cases hc : isWs c = true
    · simp only [collapseAux, hc, if_true]
      have hx : ∀ b : Bool, nonWs ((if b then '\n' else ' ') :: collapseAux (r.takeWhile isWs).length r) =
          nonWs (collapseAux (r.takeWhile isWs).length r) := by
        intro b; cases b <;> simp [nonWs, isWs]
      rw [hx, collapseAux_nonWs r _ (Nat.le_refl _)]
      simp [nonWs, hc]
    · simp only [collapseAux, hc, Bool.false_eq_true, if_false]
      simp only [nonWs, List.filter_cons, hc, Bool.not_false, if_true]
      have := collapseAux_nonWs r 0 (Nat.zero_le _)
      simp only [nonWs] at this
      rw [this]

/-- `parse.ReplaceMultipleWhitespace` keeps every byte that is not white space, in order -/
theorem collapseWs_nonWs (l : List Char) : nonWs (collapseWs l) = nonWs l :=
  collapseAux_nonWs l 0 (Nat.zero_le _)

/-- `parse.TrimWhitespace` removes a white-space prefix and a white-space suffix -/
theorem trimWs_decomp (b : List Char) :
    ∃ pre post, pre.all isWs = true ∧ post.all isWs = true ∧ b = pre ++ trimWs b ++ post := by
  refine ⟨b.takeWhile isWs, (((b.dropWhile isWs).reverse).takeWhile isWs).reverse, takeWhile_all _ _, ?_, ?_⟩
  · rw [List.all_reverse]; exact takeWhile_all _ _
  · unfold trimWs
    have h1 : b = b.takeWhile isWs ++ b.dropWhile isWs := (List.takeWhile_append_dropWhile (p := isWs) (l := b)).symm
    have h3 : b.dropWhile isWs =
        (((b.dropWhile isWs).reverse).dropWhile isWs).reverse ++ (((b.dropWhile isWs).reverse).takeWhile isWs).reverse := by
      generalize (b.dropWhile isWs) = d
      rw [← List.reverse_append, List.takeWhile_append_dropWhile, List.reverse_reverse]
    rw [List.append_assoc, ← h3]
    exact h1

theorem trimWs_nonWs (b : List Char) : nonWs (trimWs b) = nonWs b := by
  obtain ⟨pre, post, h1, h2, h3⟩ := trimWs_decomp b
  conv => rhs; rw [h3]
  simp [nonWs_append, nonWs_of_all pre h1, nonWs_of_all post h2]

theorem commentBytes_bang (body : List Char) (h : 0 < body.length) :
    commentBytes ('/' :: '*' :: '!' :: (body ++ ['*', '/'])) =
      '/' :: '*' :: '!' :: (trimWs (collapseWs body) ++ ['*', '/']) := by
  have hlen : ('/' :: '*' :: '!' :: (body ++ ['*', '/'])).length = body.length + 5 := by simp
  unfold commentBytes
  rw [hlen]
  have h5 : 5 < body.length + 5 := by omega
  simp only [h5, decide_true, List.getD_cons_succ, List.getD_cons_zero, beq_self_eq_true, Bool.and_self, if_true,
    List.take_succ_cons, List.take_zero, List.drop_succ_cons, List.drop_zero, Nat.add_sub_cancel]
  have t1 : (body ++ ['*', '/']).take body.length = body := by simp
  have t2 : ('/' :: '*' :: '!' :: (body ++ ['*', '/'])).drop (body.length + 5 - 2) = ['*', '/'] := by
    have : body.length + 5 - 2 = body.length + 3 := by omega
    rw [this]
    simp
  rw [t1, t2]
  simp

/-! ## `@import url(…)`: the resource named is the same -/

section ImportTarget
open Verif.Spec.CssValue (TT lower dropEscNl urlContent trimWsChars)


theorem isWs_eq : Verif.Spec.CssValue.isWs = Verif.Model.CssGrammar.isWs := by
  funext c
  simp [Verif.Spec.CssValue.isWs, Verif.Model.CssGrammar.isWs]

theorem dropEscNl_noBs : ∀ l : List Char, l.contains '\\' = false → dropEscNl l = l
  | [], _ => rfl
  | c :: r, h => by
    have hc : c ≠ '\\' := by intro e; subst e; simp at h
    have hr : r.contains '\\' = false := by
      simp only [List.contains_cons, Bool.or_eq_false_iff] at h; exact h.2
    have ih := dropEscNl_noBs r hr
    unfold dropEscNl
    split <;> simp_all

/-- trimmed content between the parentheses of a `url(…)` lexeme -/
def urlCore (url : List Char) : List Char :=
  ((((url.drop 4).dropLast).dropWhile Verif.Model.CssGrammar.isWs).reverse.dropWhile Verif.Model.CssGrammar.isWs).reverse



def isQuote (c : Char) : Bool := c == '"' || c == '\''

/-- guards of `import_target_ok` -/
def importGuard (url : List Char) : Bool :=
  -- exactly one closing parenthesis ends the lexeme
  ((url.drop 4).reverse.dropWhile (· == ')')).reverse == (url.drop 4).dropLast &&
  -- an unquoted URL has no backslash (escapes mean the same in a string, except an escaped newline)
  ((match urlCore url with
    | q :: x :: r => isQuote q && (x :: r).getLast? == some q
    | _ => false) || !(urlCore url).contains '\\') &&
  -- not a data: URI (C18)
  !(lower ((dropEscNl (((importURL url).drop 1).dropLast)).take 5) == "data:".toList)

theorem import_target (url : List Char) (h : importGuard url = true) :
    importTarget (.mk .string (importURL url) []) = importTarget (.mk .url url []) := by
  simp only [importGuard, Bool.and_eq_true, beq_iff_eq, Bool.or_eq_true, Bool.not_eq_true'] at h
  obtain ⟨⟨h1, h2⟩, h3⟩ := h
  have hcore : trimWsChars (((url.drop 4).reverse.dropWhile (· == ')')).reverse) = urlCore url := by
    rw [h1]; unfold trimWsChars urlCore; rw [isWs_eq]
  simp only [importTarget, Tok.tt, Tok.data, show (TT.string == TT.url) = false from rfl, Bool.false_eq_true, if_false,
    beq_self_eq_true, if_true, urlContent, hcore]
  have hm : importURL url = (match urlCore url with
      | q :: x :: r => if isQuote q && (q :: x :: r).getLast? == some q then urlCore url else '"' :: urlCore url ++ ['"']
      | _ => '"' :: urlCore url ++ ['"']) := by
    unfold importURL urlCore isQuote
    simp only
    split <;> simp_all
  rw [hm] at h3 ⊢
  rcases hc : urlCore url with _ | ⟨q, _ | ⟨x, r⟩⟩
  · simp [dropEscNl, lower]
  · simp only [hc] at h2 h3 ⊢
    simp only [Bool.false_eq_true, false_or] at h2
    have : dropEscNl [q] = [q] := dropEscNl_noBs _ h2
    simp_all
  · simp only [hc] at h2 h3 ⊢
    by_cases hq : (isQuote q && (x :: r).getLast? == some q) = true
    · have hq' : (isQuote q && (q :: x :: r).getLast? == some q) = true := by simpa using hq
      have hq2 : ((q == '"' || q == '\'') && (x :: r).getLast? == some q) = true := by simpa [isQuote] using hq
      simp only [hq', if_true, hq2] at h3 ⊢
      simp only [List.drop_succ_cons, List.drop_zero] at h3 ⊢
      have e : (x :: r).dropLast = ((x :: r)).dropLast := rfl
      simp_all
    · have hq' : (isQuote q && (q :: x :: r).getLast? == some q) = false := by simpa using hq
      have hq2 : ((q == '"' || q == '\'') && (x :: r).getLast? == some q) = false := by simpa [isQuote] using hq
      have hnb : (q :: x :: r).contains '\\' = false := by
        rcases h2 with h2 | h2
        · exact absurd h2 hq
        · exact h2
      have hd := dropEscNl_noBs _ hnb
      have hdl : (q :: x :: (r ++ ['"'])).dropLast = q :: x :: r := by
        rw [← List.cons_append, ← List.cons_append, List.dropLast_concat]
      simp only [hq', Bool.false_eq_true, if_false, hq2] at h3 ⊢
      simp only [List.cons_append, List.drop_succ_cons, List.drop_zero, hdl, hd] at h3 ⊢
      rw [h3]
      simp


end ImportTarget

end Verif.Proofs.CssGrammar

import Verif.Proofs.JsStringSteps
/-!
# C01E proofs, part 3: what the decoder reads from the chunks the model emits
-/
namespace Verif.Proofs.JsString
open Verif.JsStrBase Verif.Spec.JsStringSem Verif.Model.JsString

/-- legacy (Annex B) flag of the decoder for mode `m` and quote `q` -/
def lg (m : Bool) (q : Nat) : Bool := !m && q != 96

structure Ctx (m : Bool) (qi q : Nat) : Prop where
  hqi : IsQ qi
  hq : IsQ q
  hT : qi = 96 → q = 96

/-- string input, template output, sloppy mode: the only case where the legacy flags of input and output differ -/
def CaseC (m : Bool) (qi q : Nat) : Prop := m = false ∧ qi ≠ 96 ∧ q = 96

theorem lg_out_in {m : Bool} {qi q : Nat} (c : Ctx m qi q) (h : lg m q = true) : lg m qi = true := by
  simp only [lg, Bool.and_eq_true, Bool.not_eq_true', bne_iff_ne, ne_eq] at h ⊢
  exact ⟨h.1, fun h' => h.2 (c.hT h')⟩

theorem caseC_of {m : Bool} {qi q : Nat} (h1 : lg m qi = true) (h2 : lg m q = false) : CaseC m qi q := by
  simp only [lg, Bool.and_eq_true, Bool.not_eq_true', bne_iff_ne, ne_eq, Bool.and_eq_false_imp] at h1 h2
  refine ⟨h1.1, h1.2, ?_⟩
  have := h2 h1.1
  simpa using this

theorem lg_eq_of_not_caseC {m : Bool} {qi q : Nat} (c : Ctx m qi q) (h : ¬ CaseC m qi q) : lg m q = lg m qi := by
  cases h1 : lg m q with
  | true => exact (lg_out_in c h1).symm
  | false =>
    cases h2 : lg m qi with
    | false => rfl
    | true => exact absurd (caseC_of h2 h1) h

theorem decStep_bsl {m : Bool} {q e : Nat} {r1 : List Nat} (hq : IsQ q) :
    decStep m q 92 (e :: r1) = escStep (lg m q) e r1 := by
  rcases hq with rfl | rfl | rfl <;> simp [decStep, lg]

/-- the generic closing step of every case of the simulation -/
theorem finish {m : Bool} {qi q : Nat} {l l' o us v t : List Nat}
    (hv : decBody m qi l = some v)
    (hR : decBody m qi l = (decBody m qi l').map (us ++ ·))
    (hE : decBody m q (o ++ t) = (decBody m q t).map (us ++ ·))
    (ih : ∀ v', decBody m qi l' = some v' → decBody m q t = some v') :
    decBody m q (o ++ t) = some v := by
  rw [hR] at hv
  cases h' : decBody m qi l' with
  | none => rw [h'] at hv; simp at hv
  | some v' =>
    rw [h'] at hv
    rw [hE, ih v' h']
    simpa using hv

/-- reading one item: the decoder equation with the step result plugged in -/
theorem dec_of_step {m : Bool} {q c : Nat} {r us : List Nat} {k : Nat} (h : decStep m q c r = some (us, k)) :
    decBody m q (c :: r) = (decBody m q (r.drop k)).map (us ++ ·) := by
  rw [decBody_cons, h]

/-- an escape sequence: the decoder equation with the escape result plugged in -/
theorem dec_of_esc {m : Bool} {q e : Nat} {r1 us : List Nat} {k : Nat} (hq : IsQ q)
    (h : escStep (lg m q) e r1 = some (us, k)) :
    decBody m q (92 :: e :: r1) = (decBody m q ((e :: r1).drop k)).map (us ++ ·) := by
  rw [decBody_cons, decStep_bsl hq, h]

/-! ## plain bytes -/

theorem decStep_plain {m : Bool} {q x : Nat} {t : List Nat} (h1 : x < 128) (h2 : x ≠ q) (h3 : x ≠ 92) (h4 : x ≠ 10)
    (h5 : x ≠ 13) (h6 : ¬ (x = 36 ∧ q = 96 ∧ t.head? = some 123)) :
    decStep m q x t = some ([x], 0) := by
  simp only [decStep]
  rw [if_neg h2, if_neg h3, if_neg (by omega), if_neg h6, if_pos h1]

theorem dec_plain {m : Bool} {q x : Nat} {t : List Nat} (h1 : x < 128) (h2 : x ≠ q) (h3 : x ≠ 92) (h4 : x ≠ 10)
    (h5 : x ≠ 13) (h6 : ¬ (x = 36 ∧ q = 96 ∧ t.head? = some 123)) :
    decBody m q (x :: t) = (decBody m q t).map ([x] ++ ·) := by
  rw [dec_of_step (decStep_plain h1 h2 h3 h4 h5 h6)]; rfl

/-- a raw LF in a template -/
theorem dec_lf_tmpl {m : Bool} {t : List Nat} : decBody m 96 (10 :: t) = (decBody m 96 t).map ([10] ++ ·) := by
  rw [decBody_cons]; simp [decStep]

/-- raw CR LF in a template -/
theorem dec_crlf_tmpl {m : Bool} {t : List Nat} :
    decBody m 96 (13 :: 10 :: t) = (decBody m 96 t).map ([10] ++ ·) := by
  rw [decBody_cons]; simp [decStep]

/-! ## two-byte escapes -/

/-- `\c` where the character stands for itself -/
theorem esc_ident {lgc : Bool} {e : Nat} {t : List Nat} (h1 : e < 128) (h2 : isDig e = false)
    (h3 : e ≠ 110 ∧ e ≠ 114 ∧ e ≠ 116 ∧ e ≠ 98 ∧ e ≠ 102 ∧ e ≠ 118 ∧ e ≠ 120 ∧ e ≠ 117 ∧ e ≠ 10 ∧ e ≠ 13) :
    escStep lgc e t = some ([e], 1) := by
  obtain ⟨a1, a2, a3, a4, a5, a6, a7, a8, a9, a10⟩ := h3
  have : e ≠ 226 := by omega
  simp [escStep, a1, a2, a3, a4, a5, a6, a7, a8, a9, a10, h2, this, h1]

theorem dec_esc_ident {m : Bool} {q e : Nat} {t : List Nat} (hq : IsQ q) (h1 : e < 128) (h2 : isDig e = false)
    (h3 : e ≠ 110 ∧ e ≠ 114 ∧ e ≠ 116 ∧ e ≠ 98 ∧ e ≠ 102 ∧ e ≠ 118 ∧ e ≠ 120 ∧ e ≠ 117 ∧ e ≠ 10 ∧ e ≠ 13) :
    decBody m q (92 :: e :: t) = (decBody m q t).map ([e] ++ ·) := by
  rw [dec_of_esc hq (esc_ident h1 h2 h3)]; rfl

theorem dec_esc_n {m : Bool} {q : Nat} {t : List Nat} (hq : IsQ q) :
    decBody m q (92 :: 110 :: t) = (decBody m q t).map ([10] ++ ·) := by
  rw [dec_of_esc (us := [10]) (k := 1) hq (by simp [escStep])]; rfl

theorem dec_esc_r {m : Bool} {q : Nat} {t : List Nat} (hq : IsQ q) :
    decBody m q (92 :: 114 :: t) = (decBody m q t).map ([13] ++ ·) := by
  rw [dec_of_esc (us := [13]) (k := 1) hq (by simp [escStep])]; rfl

/-- what follows an emitted `\0` must not turn it into an octal escape -/
def NulOK (lo : Bool) (t : List Nat) : Prop := t.head?.any isOct = false ∧ (lo = false → t.head?.any isDig = false)

theorem esc_nul {lgc : Bool} {t : List Nat} (h : NulOK lgc t) : escStep lgc 48 t = some ([0], 1) := by
  obtain ⟨h1, h2⟩ := h
  cases hd : t.head?.any isDig with
  | false => simp [escStep, isDig, hd]
  | true =>
    cases lgc with
    | false => simp [hd] at h2
    | true =>
      cases t with
      | nil => simp at hd
      | cons d t' =>
        simp only [List.head?_cons, Option.any_some] at h1 hd
        simp [escStep, isDig, octStep, h1]

theorem dec_nul {m : Bool} {q : Nat} {t : List Nat} (hq : IsQ q) (h : NulOK (lg m q) t) :
    decBody m q (92 :: 48 :: t) = (decBody m q t).map ([0] ++ ·) := by
  rw [dec_of_esc hq (esc_nul h)]; rfl

/-! ## hexadecimal escapes, UTF-8 -/

theorem esc_hex {lgc : Bool} {a b : Nat} {t : List Nat} (ha : isHex a = true) (hb : isHex b = true) :
    escStep lgc 120 (a :: b :: t) = some ([hexV a * 16 + hexV b], 3) := by
  simp [escStep, ha, hb]

theorem dec_hex4 {m : Bool} {q a b : Nat} {t : List Nat} (hq : IsQ q) (ha : isHex a = true) (hb : isHex b = true) :
    decBody m q (92 :: 120 :: a :: b :: t) = (decBody m q t).map ([hexV a * 16 + hexV b] ++ ·) := by
  rw [dec_of_esc hq (esc_hex ha hb)]; rfl

theorem isHex_hexDigit {x : Nat} (h : x < 16) : isHex (hexDigit x) = true := by
  unfold hexDigit isHex
  split <;> simp <;> omega

theorem hexV_hexDigit {x : Nat} (h : x < 16) : hexV (hexDigit x) = x := by
  unfold hexDigit hexV
  split <;> (try split) <;> (try split) <;> omega

theorem dec_hexOf {m : Bool} {q n : Nat} {t : List Nat} (hq : IsQ q) (hn : n < 256) :
    decBody m q (92 :: 120 :: hexDigit (n / 16) :: hexDigit (n % 16) :: t) = (decBody m q t).map ([n] ++ ·) := by
  rw [dec_hex4 hq (isHex_hexDigit (by omega)) (isHex_hexDigit (by omega)),
    hexV_hexDigit (by omega), hexV_hexDigit (by omega)]
  have : n / 16 * 16 + n % 16 = n := by omega
  rw [this]

/-- a well-formed UTF-8 sequence only looks at its own bytes, all of which are ≥ 0x80 -/
theorem utf8Step_take {c : Nat} {r us : List Nat} {k : Nat} (h : utf8Step c r = some (us, k)) :
    k ≤ r.length ∧ (∀ x ∈ r.take k, 128 ≤ x) ∧ ∀ t, utf8Step c (r.take k ++ t) = some (us, k) := by
  unfold utf8Step at h
  split at h
  · cases r with
    | nil => simp at h
    | cons c1 r' =>
      simp only at h
      split at h
      · rename_i hc
        simp only [Option.some.injEq, Prod.mk.injEq] at h
        obtain ⟨rfl, rfl⟩ := h
        refine ⟨by simp, ?_, ?_⟩
        · intro x hx; simp at hx; subst hx; simp [isCont] at hc; omega
        · intro t; simp [utf8Step, *]
      · simp at h
  · split at h
    · cases r with
      | nil => simp at h
      | cons c1 r' =>
        cases r' with
        | nil => simp at h
        | cons c2 r'' =>
          simp only at h
          split at h
          · rename_i hc
            simp only [Option.some.injEq, Prod.mk.injEq] at h
            obtain ⟨rfl, rfl⟩ := h
            refine ⟨by simp, ?_, ?_⟩
            · intro x hx; simp at hx; simp [isCont] at hc; omega
            · intro t; simp [utf8Step, *]; exact ⟨hc.2.2.1, hc.2.2.2⟩
          · simp at h
    · split at h
      · cases r with
        | nil => simp at h
        | cons c1 r' =>
          cases r' with
          | nil => simp at h
          | cons c2 r'' =>
            cases r'' with
            | nil => simp at h
            | cons c3 r''' =>
              simp only at h
              split at h
              · rename_i hc
                simp only [Option.some.injEq, Prod.mk.injEq] at h
                obtain ⟨rfl, rfl⟩ := h
                refine ⟨by simp, ?_, ?_⟩
                · intro x hx; simp at hx; simp [isCont] at hc; omega
                · intro t; simp [utf8Step, *]; exact ⟨hc.2.2.2.1, hc.2.2.2.2⟩
              · simp at h
      · simp at h

theorem decStep_utf8 {m : Bool} {q c : Nat} {r : List Nat} (hq : IsQ q) (h : 128 ≤ c) :
    decStep m q c r = utf8Step c r := by
  have h1 : c ≠ q := by rcases hq with rfl | rfl | rfl <;> omega
  simp only [decStep]
  rw [if_neg h1, if_neg (by omega), if_neg (by omega), if_neg (by omega), if_neg (by omega)]

theorem utf8Step_enc {n : Nat} (t : List Nat) (h1 : 128 ≤ n) (h2 : n < 0x110000) (h3 : ¬ (0xD800 ≤ n ∧ n ≤ 0xDFFF)) :
    ∃ c p, utf8Enc n = c :: p ∧ 128 ≤ c ∧ utf8Step c (p ++ t) = some (units n, p.length) := by
  unfold utf8Enc
  rw [if_neg (by omega)]
  split
  · refine ⟨_, _, rfl, by omega, ?_⟩
    have e3 : (192 + n / 64 - 192) * 64 + (128 + n % 64 - 128) = n := by omega
    have hc : isCont (128 + n % 64) = true := by simp [isCont]; omega
    simp only [utf8Step, List.cons_append, List.nil_append, List.length_cons, List.length_nil]
    rw [if_pos (by omega), if_pos hc, e3]
  · split
    · refine ⟨_, _, rfl, by omega, ?_⟩
      have e3 : (224 + n / 4096 - 224) * 4096 + (128 + n / 64 % 64 - 128) * 64 + (128 + n % 64 - 128) = n := by omega
      have hc : isCont (128 + n / 64 % 64) = true := by simp [isCont]; omega
      have hc2 : isCont (128 + n % 64) = true := by simp [isCont]; omega
      simp only [utf8Step, List.cons_append, List.nil_append, List.length_cons, List.length_nil]
      rw [if_neg (by omega), if_pos (by omega), if_pos ⟨hc, hc2, by omega, by omega⟩, e3]
    · refine ⟨_, _, rfl, by omega, ?_⟩
      have e3 : (240 + n / 262144 - 240) * 262144 + (128 + n / 4096 % 64 - 128) * 4096 + (128 + n / 64 % 64 - 128) * 64 + (128 + n % 64 - 128) = n := by omega
      have hc : isCont (128 + n / 4096 % 64) = true := by simp [isCont]; omega
      have hc2 : isCont (128 + n / 64 % 64) = true := by simp [isCont]; omega
      have hc3 : isCont (128 + n % 64) = true := by simp [isCont]; omega
      simp only [utf8Step, List.cons_append, List.nil_append, List.length_cons, List.length_nil]
      rw [if_neg (by omega), if_neg (by omega), if_pos (by omega), if_pos ⟨hc, hc2, hc3, by omega, by omega⟩, e3]

theorem dec_utf8Enc {m : Bool} {q n : Nat} {t : List Nat} (hq : IsQ q) (h1 : 128 ≤ n) (h2 : n < 0x110000)
    (h3 : ¬ (0xD800 ≤ n ∧ n ≤ 0xDFFF)) :
    decBody m q (utf8Enc n ++ t) = (decBody m q t).map (units n ++ ·) := by
  obtain ⟨c, p, he, hc, hs⟩ := utf8Step_enc t h1 h2 h3
  rw [he, List.cons_append, decBody_cons, decStep_utf8 hq hc, hs]
  simp

end Verif.Proofs.JsString

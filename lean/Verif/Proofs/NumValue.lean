import Verif.Proofs.NumCore
set_option linter.unusedSimpArgs false
/-!
# C08 — grammar and value of the print stage of `Number`
-/
namespace Verif.Proofs.Num
open Verif.Model.Num
open Verif.Spec.Num (parse Parsed isNumber isDecimal numVal)

/-- `± m · 10^e` -/
def dval (neg : Bool) (m : Nat) (e : Int) : Rat := (if neg then -1 else 1) * (m : Rat) * (10 : Rat) ^ e

theorem dval_shift (neg : Bool) (m k : Nat) (e : Int) : dval neg (m * 10 ^ k) e = dval neg m (e + k) := by
  unfold dval
  rw [Rat.zpow_add (by decide : (10 : Rat) ≠ 0), Rat.zpow_natCast]
  have : ((m * 10 ^ k : Nat) : Rat) = (m : Rat) * (10 : Rat) ^ k := by
    simp [Rat.natCast_mul, Rat.natCast_pow]
  rw [this]
  grind

theorem dval_zero (neg : Bool) (e : Int) : dval neg 0 e = 0 := by
  unfold dval; simp

/-- the value of a generated lexeme -/
def Lex.val (l : Lex) : Rat := dval l.sg.neg (natOf (l.ip ++ l.fp)) (l.expVal - (l.fp.length : Int))

theorem numVal_str (l : Lex) (h : l.WF) : numVal l.str = some l.val := by
  unfold numVal
  rw [parse_str l h]
  rfl

def sgOf (neg : Bool) : Sg := if neg then .minus else .none

theorem sgOf_neg (neg : Bool) : (sgOf neg).neg = neg := by cases neg <;> rfl
theorem sgOf_ne_plus (neg : Bool) : sgOf neg ≠ .plus := by cases neg <;> simp [sgOf]
theorem sgOf_chars (neg : Bool) (x : List Char) : (sgOf neg).chars ++ x = sgn neg x := by
  cases neg <;> simp [sgOf, Sg.chars, sgn]

/-- the output shape of the minifier: a dot is followed by a digit and the integer digits do not start with `0` -/
def MinShape (l : Lex) : Prop := (l.dot = true → l.fp ≠ []) ∧ (∀ t, l.ip ≠ '0' :: t)

/-- `MinShape` except that the integer part may be exactly `0` -/
def MinShape0 (l : Lex) : Prop := (l.dot = true → l.fp ≠ []) ∧ (∀ t, l.ip = '0' :: t → t = [])

theorem MinShape.to0 {l : Lex} (h : MinShape l) : MinShape0 l :=
  ⟨h.1, fun t e => absurd e (h.2 t)⟩

theorem lead_append {ds : List Char} (hne : ds ≠ []) (h0 : ∀ t, ds ≠ '0' :: t) (x : List Char) :
    ∀ t, ds ++ x ≠ '0' :: t := by
  intro t e
  cases ds with
  | nil => exact hne rfl
  | cons c r => simp only [List.cons_append] at e; injection e with e1 _; exact h0 r (by rw [e1])

theorem lead_take {ds : List Char} (h0 : ∀ t, ds ≠ '0' :: t) (k : Nat) : ∀ t, ds.take k ≠ '0' :: t := by
  intro t e
  cases ds with
  | nil => simp at e
  | cons c r =>
    cases k with
    | zero => simp at e
    | succ k => simp only [List.take_succ_cons] at e; injection e with e1 _; exact h0 r (by rw [e1])

theorem lead_of_append {a b : List Char} (_hne : a ≠ []) (h0 : ∀ t, a ++ b ≠ '0' :: t) : ∀ t, a ≠ '0' :: t := by
  intro t e
  rw [e] at h0
  exact h0 (t ++ b) rfl

/-- an output of the print stage: a well-formed lexeme without `+`, with the right sign -/
structure OutLex (neg : Bool) (out : List Char) (l : Lex) : Prop where
  wf : l.WF
  str : l.str = out
  sg : l.sg = sgOf neg
  shape : MinShape l

theorem nonempty_of_ne_nil {l : List Char} (h : l ≠ []) : l.isEmpty = false := by
  cases l with | nil => exact absurd rfl h | cons _ _ => rfl

/-- mantissa without exponent part -/
theorem outLex_plain (neg : Bool) (ip fp : List Char) (dot : Bool) (hip : AllDig ip) (hfp : AllDig fp)
    (hd : dot = false → fp = []) (hne : ip ≠ [] ∨ fp ≠ [])
    (hdot : dot = true → fp ≠ []) (hlead : ∀ t, ip ≠ '0' :: t) :
    OutLex neg (sgn neg (ip ++ (if dot then '.' :: fp else []))) ⟨sgOf neg, ip, dot, fp, none⟩ := by
  refine ⟨⟨hip, hfp, hd, hne, ?_⟩, ?_, rfl, ⟨hdot, hlead⟩⟩
  · intro c sg ds h; cases h
  · simp [Lex.str, Lex.dotPart, Lex.exPart, sgOf_chars]

/-- mantissa with exponent part `e[-]digits` -/
theorem outLex_exp (neg : Bool) (ip fp : List Char) (dot : Bool) (esg : Sg) (k : Nat)
    (hip : AllDig ip) (hfp : AllDig fp)
    (hd : dot = false → fp = []) (hne : ip ≠ [] ∨ fp ≠ [])
    (hdot : dot = true → fp ≠ []) (hlead : ∀ t, ip ≠ '0' :: t) :
    OutLex neg (sgn neg (ip ++ ((if dot then '.' :: fp else []) ++ 'e' :: (esg.chars ++ decStr k))))
      ⟨sgOf neg, ip, dot, fp, some ('e', esg, decStr k)⟩ := by
  refine ⟨⟨hip, hfp, hd, hne, ?_⟩, ?_, rfl, ⟨hdot, hlead⟩⟩
  · intro c sg ds h
    injection h with h; injection h with h1 h2; injection h2 with h2 h3
    subst h1 h3
    exact ⟨Or.inl rfl, AllDig.decStr k, decStr_ne_nil k⟩
  · simp [Lex.str, Lex.dotPart, Lex.exPart, sgOf_chars]

/-- list-level description of `sigDigits`, by kind of mantissa -/
def KindDig (ip fp ds : List Char) (N0 : Int) : Prop :=
  (ip = [] ∧ ∃ lz : Nat, fp = List.replicate lz '0' ++ ds ∧ N0 = -(lz : Int)) ∨
  (ip ≠ [] ∧ fp = [] ∧ ∃ tz : Nat, ip = ds ++ List.replicate tz '0' ∧ N0 = (ip.length : Int)) ∨
  (ip ≠ [] ∧ fp ≠ [] ∧ ds = ip ++ fp ∧ N0 = (ip.length : Int))

theorem Sg.neg_none : Sg.none.neg = false := rfl
theorem Sg.neg_minus : Sg.minus.neg = true := rfl
theorem Sg.neg_plus : Sg.plus.neg = false := rfl

theorem dval_congr (neg : Bool) (m : Nat) {x y : Int} (h : x = y) : dval neg m x = dval neg m y := by rw [h]

theorem printCase_lex (s : List Char) (neg : Bool) (W : Nat) (ip fp : List Char) (e : Int)
    (ds : List Char) (N0 : Int) (hds : AllDig ds) (hne : ds ≠ []) (hds0 : ∀ t, ds ≠ '0' :: t)
    (hip : AllDig ip) (hfp : AllDig fp) (hk : KindDig ip fp ds N0) :
    printCase s neg W ip fp e ds N0 = s ∨
    ∃ l, OutLex neg (printCase s neg W ip fp e ds N0) l ∧
      (mlen ip fp + expLen e ≤ W → l.val = dval neg (natOf ds) (N0 + e - (ds.length : Int))) := by
  unfold printCase
  simp only []
  generalize hn : (ds.length : Int) = n at *
  generalize hNE : (N0 + e) = NE at *
  generalize hIE : NE - n = IE at *
  split
  · left; rfl
  · right
    split
    · -- case 1
      rename_i h1
      have hIE0 : 0 ≤ IE := by omega
      split
      · refine ⟨⟨sgOf neg, ds, false, [], some ('e', .none, decStr IE.toNat)⟩, ?_, ?_⟩
        · have := outLex_exp neg ds [] false .none IE.toNat hds AllDig.nil (fun _ => rfl) (Or.inl hne) (by intro h; cases h) hds0
          simpa [Sg.chars] using this
        · intro _
          simp only [Lex.val, Lex.expVal, sgOf_neg, Sg.neg_none, Sg.neg_minus, Bool.false_eq_true, if_false, Int.sub_zero, Int.natCast_zero, List.append_nil, natOf_decStr, List.length_nil]
          apply dval_congr; omega
      · refine ⟨⟨sgOf neg, ds ++ List.replicate IE.toNat '0', false, [], none⟩, ?_, ?_⟩
        · have := outLex_plain neg (ds ++ List.replicate IE.toNat '0') [] false
            (hds.append (AllDig.replicate_zero _)) AllDig.nil (fun _ => rfl) (Or.inl (by simp [hne]))
            (by intro h; cases h) (lead_append hne hds0 _)
          simpa using this
        · intro _
          simp only [Lex.val, Lex.expVal, sgOf_neg, List.append_nil, natOf_append_zeros, List.length_nil, dval_shift]
          apply dval_congr; omega
    · rename_i h1
      split
      · -- case 2
        rename_i h2
        simp only [Bool.and_eq_true, decide_eq_true_eq] at h2
        refine ⟨⟨sgOf neg, [], true, ds, some ('e', .minus, decStr NE.natAbs)⟩, ?_, ?_⟩
        · have := outLex_exp neg [] ds true .minus NE.natAbs AllDig.nil hds (by simp) (Or.inr hne) (fun _ => hne) (by intro t e; cases e)
          simpa [Sg.chars] using this
        · intro _
          simp only [Lex.val, Lex.expVal, sgOf_neg, Sg.neg_none, Sg.neg_minus, Bool.false_eq_true, if_false, Int.sub_zero, Int.natCast_zero, List.nil_append, natOf_decStr, if_true]
          apply dval_congr; omega
      · split
        · -- case 3
          split
          · refine ⟨⟨sgOf neg, [], true, List.replicate NE.natAbs '0' ++ ds, none⟩, ?_, ?_⟩
            · have := outLex_plain neg [] (List.replicate NE.natAbs '0' ++ ds) true AllDig.nil
                ((AllDig.replicate_zero _).append hds) (by simp) (Or.inr (by simp [hne]))
                (fun _ => by simp [hne]) (by intro t e; cases e)
              simpa using this
            · intro _
              simp only [Lex.val, Lex.expVal, sgOf_neg, List.nil_append, natOf_zeros_append,
                List.length_append, List.length_replicate]
              apply dval_congr; omega
          · refine ⟨⟨sgOf neg, ds.take NE.toNat, true, ds.drop NE.toNat, none⟩, ?_, ?_⟩
            · have := outLex_plain neg (ds.take NE.toNat) (ds.drop NE.toNat) true (hds.take _) (hds.drop _)
                (by simp) (by
                  by_cases h : ds.take NE.toNat = []
                  · right; intro h'; apply hne
                    have := List.take_append_drop NE.toNat ds
                    rw [h, h'] at this; simpa using this.symm
                  · left; exact h)
                (fun _ => by
                  intro hnil
                  have hl := congrArg List.length hnil
                  simp only [List.length_drop, List.length_nil] at hl
                  omega)
                (lead_take hds0 _)
              simpa using this
            · intro _
              simp only [Lex.val, Lex.expVal, sgOf_neg, List.take_append_drop, List.length_drop]
              apply dval_congr; omega
        · -- case 4
          rename_i h2 h3
          have hIEneg : IE < 0 := by omega
          have leaf4a : ∃ l, OutLex neg (sgn neg (ds ++ 'e' :: '-' :: decStr IE.natAbs)) l ∧
              (mlen ip fp + expLen e ≤ W → l.val = dval neg (natOf ds) IE) := by
            refine ⟨⟨sgOf neg, ds, false, [], some ('e', .minus, decStr IE.natAbs)⟩, ?_, ?_⟩
            · have := outLex_exp neg ds [] false .minus IE.natAbs hds AllDig.nil (fun _ => rfl) (Or.inl hne) (by intro h; cases h) hds0
              simpa [Sg.chars] using this
            · intro _
              simp only [Lex.val, Lex.expVal, sgOf_neg, Sg.neg_minus, if_true, List.append_nil, natOf_decStr,
                List.length_nil, Int.natCast_zero, Int.sub_zero]
              apply dval_congr; omega
          have hE := expLen_cases e
          have hM := mlen_cases ip fp
          have m2 := lenInt_le IE e 0
          rcases hk with ⟨hi, lz, hf, hN⟩ | ⟨hi, hf, tz, hipe, hN⟩ | ⟨hi, hf, hdse, hN⟩
          · -- `.000ddd`
            subst hi
            have hfne : fp ≠ [] := by rw [hf]; simp [hne]
            have hfl : fp.length = lz + ds.length := by rw [hf]; simp
            simp only [List.isEmpty_nil, if_true, nonempty_of_ne_nil hfne, Bool.false_eq_true, if_false]
            split
            · exact leaf4a
            · rename_i h4
              refine ⟨⟨sgOf neg, [], true, fp, some ('e', .minus, decStr e.natAbs)⟩, ?_, ?_⟩
              · have := outLex_exp neg [] fp true .minus e.natAbs AllDig.nil hfp (by simp) (Or.inr hfne) (fun _ => hfne) (by intro t e; cases e)
                simpa [Sg.chars] using this
              · intro hW
                simp only [Lex.val, Lex.expVal, sgOf_neg, Sg.neg_minus, if_true, List.nil_append, natOf_decStr]
                rw [hf, natOf_zeros_append]
                simp only [List.length_nil] at hM
                apply dval_congr
                simp only [List.length_append, List.length_replicate]
                omega
          · -- `ddd000`
            subst hf
            have hil : ip.length = ds.length + tz := by rw [hipe]; simp
            simp only [nonempty_of_ne_nil hi, List.isEmpty_nil, Bool.false_eq_true, if_false, if_true]
            split
            · exact leaf4a
            · rename_i h4
              refine ⟨⟨sgOf neg, ds, false, [], some ('e', .minus, decStr e.natAbs)⟩, ?_, ?_⟩
              · have := outLex_exp neg ds [] false .minus e.natAbs hds AllDig.nil (fun _ => rfl) (Or.inl hne) (by intro h; cases h) hds0
                simpa [Sg.chars] using this
              · intro hW
                exfalso
                simp only [List.length_nil] at hM
                omega
          · -- `ddd.ddd`
            simp only [nonempty_of_ne_nil hi, nonempty_of_ne_nil hf, Bool.false_eq_true, if_false]
            have hfl : 0 < fp.length := by cases fp with | nil => exact absurd rfl hf | cons _ _ => simp
            have hdl : ds.length = ip.length + fp.length := by rw [hdse]; simp
            split
            · exact leaf4a
            · rename_i h4
              refine ⟨⟨sgOf neg, ip, true, fp, some ('e', .minus, decStr e.natAbs)⟩, ?_, ?_⟩
              · have := outLex_exp neg ip fp true .minus e.natAbs hip hfp (by simp) (Or.inl hi) (fun _ => hf)
                  (lead_of_append hi (by rw [← hdse]; exact hds0))
                simpa [Sg.chars] using this
              · intro hW
                simp only [Lex.val, Lex.expVal, sgOf_neg, Sg.neg_minus, if_true, natOf_decStr]
                rw [← hdse]
                apply dval_congr
                omega


/-- a trimmed mantissa: digits only, no leading zero in `ip`, no trailing zero in `fp`, not empty -/
structure MantWF (ip fp : List Char) : Prop where
  dip : AllDig ip
  dfp : AllDig fp
  nonempty : ip ≠ [] ∨ fp ≠ []
  lead : ∀ t, ip ≠ '0' :: t
  trail : ∀ t, fp ≠ t ++ ['0']

theorem replicate_succ_snoc (k : Nat) (c : Char) : List.replicate (k + 1) c = List.replicate k c ++ [c] := by
  rw [List.replicate_succ']

theorem sigDigits_kindDig {ip fp : List Char} (h : MantWF ip fp) :
    KindDig ip fp (sigDigits ip fp).1 (sigDigits ip fp).2 ∧ AllDig (sigDigits ip fp).1 ∧
      (sigDigits ip fp).1 ≠ [] ∧ (∀ t, (sigDigits ip fp).1 ≠ '0' :: t) := by
  unfold sigDigits KindDig
  by_cases hi : ip = []
  · subst hi
    have hfne : fp ≠ [] := by rcases h.nonempty with h1 | h1; exact absurd rfl h1; exact h1
    obtain ⟨h1, h2, h3⟩ := dropZeros_spec fp
    simp only [List.isEmpty_nil, if_true]
    refine ⟨Or.inl ⟨(by first | rfl | trivial), fp.length - (dropZeros fp).length, h1, (by first | rfl | trivial)⟩, h.dfp.dropZeros, ?_, h3⟩
    intro hnil
    rw [hnil] at h1
    simp only [List.length_nil, Nat.sub_zero, List.append_nil] at h1
    cases hl : fp.length with
    | zero => exact hfne (List.eq_nil_of_length_eq_zero hl)
    | succ k =>
      rw [hl, replicate_succ_snoc] at h1
      exact h.trail _ h1
  · have hie := nonempty_of_ne_nil hi
    by_cases hf : fp = []
    · subst hf
      obtain ⟨h1, h2, h3⟩ := dropTrail_spec '0' ip
      simp only [hie, Bool.false_eq_true, if_false, List.isEmpty_nil, if_true]
      refine ⟨Or.inr (Or.inl ⟨hi, (by first | rfl | trivial), ip.length - (dropTrail '0' ip).length, h1, (by first | rfl | trivial)⟩), h.dip.dropTrail '0', ?_⟩
      suffices hx : ∃ c t', c ≠ '0' ∧ dropTrail '0' ip = c :: t' by
        obtain ⟨c, t', hc, ht'⟩ := hx
        rw [ht']
        exact ⟨by simp, fun t e => by injection e with e1 _; exact hc e1⟩
      cases hip : ip with
      | nil => exact absurd hip hi
      | cons c t =>
        have hc : c ≠ '0' := by intro hc; rw [hc] at hip; exact h.lead t hip
        obtain ⟨t', ht'⟩ := dropTrail_cons_ne (c := '0') t hc
        exact ⟨c, t', hc, ht'⟩
    · have hfe := nonempty_of_ne_nil hf
      simp only [hie, hfe, Bool.false_eq_true, if_false]
      exact ⟨Or.inr (Or.inr ⟨hi, hf, (by first | rfl | trivial), (by first | rfl | trivial)⟩), h.dip.append h.dfp, by simp [hi], lead_append hi h.lead fp⟩

/-- the value of the trimmed mantissa in terms of its significant digits -/
theorem kindDig_val (neg : Bool) {ip fp ds : List Char} {N0 : Int} (e : Int) (hk : KindDig ip fp ds N0) :
    dval neg (natOf (ip ++ fp)) (e - (fp.length : Int)) = dval neg (natOf ds) (N0 + e - (ds.length : Int)) := by
  rcases hk with ⟨hi, lz, hf, hN⟩ | ⟨hi, hf, tz, hipe, hN⟩ | ⟨hi, hf, hdse, hN⟩
  · subst hi
    rw [List.nil_append]
    conv => lhs; rw [hf, natOf_zeros_append]
    apply dval_congr
    simp only [List.length_append, List.length_replicate]; omega
  · subst hf
    rw [List.append_nil]
    conv => lhs; rw [hipe, natOf_append_zeros, dval_shift]
    apply dval_congr
    have hil : ip.length = ds.length + tz := by
      have := congrArg List.length hipe
      simpa using this
    rw [hN]; simp only [List.length_append, List.length_replicate, List.length_nil]; omega
  · rw [← hdse]
    apply dval_congr
    rw [hN, hdse]; simp only [List.length_append]; omega

/-- value of a trimmed mantissa with exponent -/
def mantVal (neg : Bool) (m : Mant) : Rat := dval neg (natOf (m.ip ++ m.fp)) (m.e - (m.fp.length : Int))

theorem printNum_lex (s : List Char) (neg : Bool) (W : Nat) (m : Mant) (h : MantWF m.ip m.fp) :
    printNum s neg W m = s ∨
    ∃ l, OutLex neg (printNum s neg W m) l ∧
      (mlen m.ip m.fp + expLen m.e ≤ W → l.val = mantVal neg m) := by
  unfold printNum mantVal
  obtain ⟨hk, hd, hne, h0⟩ := sigDigits_kindDig h
  rw [kindDig_val neg m.e hk]
  exact printCase_lex s neg W m.ip m.fp m.e _ _ hd hne h0 h.dip h.dfp hk

end Verif.Proofs.Num

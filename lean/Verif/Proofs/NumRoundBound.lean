import Verif.Proofs.NumRoundVal
set_option linter.unusedSimpArgs false
/-!
# C08 — the half-unit bound of the precision branch of `Decimal`
-/
namespace Verif.Proofs.Num
open Verif.Model.Num
open Verif.Spec.Num (parse Parsed isNumber isDecimal numVal stripZeros leadExp WithinHalfUnit)

theorem ten_zpow_nonneg (e : Int) : (0 : Rat) ≤ (10 : Rat) ^ e := Rat.zpow_nonneg (by decide)

/-- mantissas that differ by at most `T/2` give values that differ by at most `T/2 · 10^E` -/
theorem dval_close (neg : Bool) (M1 M2 T : Nat) (E : Int)
    (h1 : 2 * M2 ≤ 2 * M1 + T) (h2 : 2 * M1 ≤ 2 * M2 + T) :
    dval neg M1 E - (T : Rat) / 2 * (10 : Rat) ^ E ≤ dval neg M2 E ∧
    dval neg M2 E ≤ dval neg M1 E + (T : Rat) / 2 * (10 : Rat) ^ E := by
  have hc := ten_zpow_nonneg E
  have c1 : (2 : Rat) * (M2 : Rat) ≤ 2 * (M1 : Rat) + (T : Rat) := by
    have := Rat.natCast_le_natCast.mpr h1
    simpa [Rat.natCast_add, Rat.natCast_mul] using this
  have c2 : (2 : Rat) * (M1 : Rat) ≤ 2 * (M2 : Rat) + (T : Rat) := by
    have := Rat.natCast_le_natCast.mpr h2
    simpa [Rat.natCast_add, Rat.natCast_mul] using this
  have a1 := Rat.mul_le_mul_of_nonneg_right (c := (10 : Rat) ^ E)
    (show (M2 : Rat) ≤ (M1 : Rat) + (T : Rat) / 2 by grind) hc
  have a2 := Rat.mul_le_mul_of_nonneg_right (c := (10 : Rat) ^ E)
    (show (M1 : Rat) ≤ (M2 : Rat) + (T : Rat) / 2 by grind) hc
  unfold dval
  cases neg with
  | false => simp only [Bool.false_eq_true, if_false]; constructor <;> grind
  | true => simp only [if_true]; constructor <;> grind

theorem half_pow (j : Nat) (E : Int) :
    ((10 ^ j : Nat) : Rat) / 2 * (10 : Rat) ^ E = (1 / 2) * (10 : Rat) ^ (E + j) := by
  rw [Rat.zpow_add (by decide : (10 : Rat) ≠ 0), Rat.zpow_natCast]
  have : ((10 ^ j : Nat) : Rat) = (10 : Rat) ^ j := by simp [Rat.natCast_pow]
  rw [this]
  grind


/-- the precision step of `Decimal` moves the value by at most half a unit of the `k`-th fraction digit -/
theorem roundDAt_bound (neg : Bool) (ip fp : List Char) (k : Nat) (hip : AllDig ip) (hfp : AllDig fp)
    (hk : k < fp.length) :
    dval neg (natOf (ip ++ fp)) (-(fp.length : Int)) - (1 / 2) * (10 : Rat) ^ (-(k : Int)) ≤
      dval neg (natOf ((roundDAt ip fp k).1 ++ (roundDAt ip fp k).2)) (-((roundDAt ip fp k).2.length : Int)) ∧
    dval neg (natOf ((roundDAt ip fp k).1 ++ (roundDAt ip fp k).2)) (-((roundDAt ip fp k).2.length : Int)) ≤
      dval neg (natOf (ip ++ fp)) (-(fp.length : Int)) + (1 / 2) * (10 : Rat) ^ (-(k : Int)) := by
  obtain ⟨hl, hv⟩ := roundDAt_val ip fp k hip hfp hk
  obtain ⟨g1, g2⟩ := ge5At_iff fp k hfp hk
  generalize roundDAt ip fp k = r at hl hv ⊢
  -- the rounded value on the exponent of the original
  have hw : dval neg (natOf (r.1 ++ r.2)) (-(r.2.length : Int)) =
      dval neg ((natOf (ip ++ fp.take k) + (if ge5At fp k then 1 else 0)) * 10 ^ (fp.length - k)) (-(fp.length : Int)) := by
    rw [dval_shift, ← hv, dval_shift]
    apply dval_congr; omega
  have hsplit : natOf (ip ++ fp) = natOf (ip ++ fp.take k) * 10 ^ (fp.length - k) + natOf (fp.drop k) := by
    have : ip ++ fp = (ip ++ fp.take k) ++ fp.drop k := by simp
    rw [this, natOf_append]; simp
  have hpow : 10 ^ (fp.length - k) = 10 * 10 ^ (fp.length - k - 1) := by
    rw [Nat.mul_comm, ← Nat.pow_succ]; congr 1; omega
  rw [hw, hsplit]
  have hb := half_pow (fp.length - k) (-(fp.length : Int))
  have hexp : -(fp.length : Int) + ((fp.length - k : Nat) : Int) = -(k : Int) := by omega
  rw [hexp] at hb
  rw [← hb]
  apply dval_close
  · generalize natOf (ip ++ fp.take k) = N at *
    generalize natOf (fp.drop k) = D at *
    rw [hpow] at *
    generalize 10 ^ (fp.length - k - 1) = T at *
    cases hinc : ge5At fp k with
    | true => have := g1.mp hinc; simp only [if_true]; rw [Nat.add_mul]; omega
    | false => simp only [Bool.false_eq_true, if_false, Nat.add_zero]; omega
  · generalize natOf (ip ++ fp.take k) = N at *
    generalize natOf (fp.drop k) = D at *
    rw [hpow] at *
    generalize 10 ^ (fp.length - k - 1) = T at *
    cases hinc : ge5At fp k with
    | true => simp only [if_true]; rw [Nat.add_mul]; omega
    | false =>
      have : ¬ 5 * T ≤ D := fun h => by have := g1.mpr h; rw [hinc] at this; cases this
      simp only [Bool.false_eq_true, if_false, Nat.add_zero]; omega

end Verif.Proofs.Num

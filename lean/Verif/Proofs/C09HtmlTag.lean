import Verif.Proofs.C09HtmlTok
import Verif.Proofs.HtmlAttr
import Verif.Model.Html
import Verif.Spec.C09HtmlShape
/-!
# C09 / HTML — start tags written by the model are read back by the standard's tokenizer
-/
namespace Verif.Proofs.C09HtmlTag
open Verif.Spec.C09HtmlTok Verif.Spec.C09HtmlShape Verif.Spec.HtmlAttr Verif.Proofs.C09HtmlTok

/-- the machine `m` put into state `s` (all other components unchanged) -/
def at_ (m : M) (s : S) : M := { m with s := s }

@[simp] theorem at_at (m : M) (a b : S) : at_ (at_ m a) b = at_ m b := rfl
@[simp] theorem at_s (m : M) (a : S) : (at_ m a).s = a := rfl
@[simp] theorem at_mode (m : M) (a : S) : (at_ m a).mode = m.mode := rfl
@[simp] theorem at_last (m : M) (a : S) : (at_ m a).last = m.last := rfl
@[simp] theorem at_foreign (m : M) (a : S) : (at_ m a).foreign = m.foreign := rfl
@[simp] theorem at_scripting (m : M) (a : S) : (at_ m a).scripting = m.scripting := rfl
theorem emitTag_at (m : M) (a : S) (t : Tag) (sc : Bool) : emitTag (at_ m a) t sc = emitTag m t sc := rfl

/-- a byte of an unquoted attribute value -/
def uCh (c : Char) : Bool := !isWs c && c != '>'

theorem step_attrValueU (m : M) (t : Tag) (n v : List Char) (c : Char) (h : uCh c = true) :
    step (at_ m (.attrValueU t n v)) c = (at_ m (.attrValueU t n (v ++ [c])), []) := by
  simp only [uCh, Bool.and_eq_true, Bool.not_eq_true', bne_iff_ne, ne_eq] at h
  simp only [step, at_s, h.1, Bool.false_eq_true, if_false, h.2]
  rfl

theorem run_attrValueU (m : M) (t : Tag) (n : List Char) (w v : List Char) (h : ∀ c ∈ w, uCh c = true) :
    runS (at_ m (.attrValueU t n v)) w = at_ m (.attrValueU t n (v ++ w)) ∧
    runO (at_ m (.attrValueU t n v)) w = [] := by
  induction w generalizing v with
  | nil => simp [runS, runO]
  | cons c w ih =>
    have hc := h c (List.mem_cons_self)
    have := ih (v ++ [c]) (fun d hd => h d (List.mem_cons_of_mem _ hd))
    simp only [runS, runO, step_attrValueU m t n v c hc, List.nil_append]
    simpa using this

theorem step_attrValueQ (m : M) (t : Tag) (n v : List Char) (q c : Char) (h : c ≠ q) :
    step (at_ m (.attrValueQ t n q v)) c = (at_ m (.attrValueQ t n q (v ++ [c])), []) := by
  simp only [step, at_s, h, if_false]
  rfl

theorem step_attrValueQ_close (m : M) (t : Tag) (n v : List Char) (q : Char) :
    step (at_ m (.attrValueQ t n q v)) q =
      (at_ m (.afterAttrValueQ (t.push n v (if q = '"' then .double else .single))), []) := by
  simp only [step, at_s, if_true]
  rfl

theorem run_attrValueQ (m : M) (t : Tag) (n : List Char) (q : Char) (w v : List Char) (h : q ∉ w) :
    runS (at_ m (.attrValueQ t n q v)) w = at_ m (.attrValueQ t n q (v ++ w)) ∧
    runO (at_ m (.attrValueQ t n q v)) w = [] := by
  induction w generalizing v with
  | nil => simp [runS, runO]
  | cons c w ih =>
    have hc : c ≠ q := fun e => h (e ▸ List.mem_cons_self)
    have := ih (v ++ [c]) (fun hd => h (List.mem_cons_of_mem _ hd))
    simp only [runS, runO, step_attrValueQ m t n v q c hc, List.nil_append]
    simpa using this


theorem nCh_spec {c : Char} (h : nCh c = true) : isWs c = false ∧ c ≠ '/' ∧ c ≠ '>' ∧ c ≠ '=' ∧ lower c = c := by
  have : (((isWs c = false ∧ ¬c = '/') ∧ ¬c = '>') ∧ ¬c = '=') ∧ lower c = c := by
    simpa [nCh, Bool.and_eq_true] using h
  exact ⟨this.1.1.1.1, this.1.1.1.2, this.1.1.2, this.1.2, this.2⟩

theorem step_attrName (m : M) (t : Tag) (n : List Char) (c : Char) (h : nCh c = true) :
    step (at_ m (.attrName t n)) c = (at_ m (.attrName t (n ++ [c])), []) := by
  obtain ⟨h1, h2, h3, h4, h5⟩ := nCh_spec h
  simp only [step, at_s, h1, h2, h3, h4, h5, Bool.false_eq_true, if_false, decide_false, Bool.or_self]
  rfl

theorem run_attrName (m : M) (t : Tag) (w n : List Char) (h : ∀ c ∈ w, nCh c = true) :
    runS (at_ m (.attrName t n)) w = at_ m (.attrName t (n ++ w)) ∧ runO (at_ m (.attrName t n)) w = [] := by
  induction w generalizing n with
  | nil => simp [runS, runO]
  | cons c w ih =>
    have := ih (n ++ [c]) (fun d hd => h d (List.mem_cons_of_mem _ hd))
    simp only [runS, runO, step_attrName m t n c (h c List.mem_cons_self), List.nil_append]
    simpa using this


theorem tCh_spec {c : Char} (h : tCh c = true) : isWs c = false ∧ c ≠ '/' ∧ c ≠ '>' ∧ lower c = c := by
  have : ((isWs c = false ∧ ¬c = '/') ∧ ¬c = '>') ∧ lower c = c := by
    simpa [tCh, Bool.and_eq_true] using h
  exact ⟨this.1.1.1, this.1.1.2, this.1.2, this.2⟩

theorem step_tagName (m : M) (t : Tag) (c : Char) (h : tCh c = true) :
    step (at_ m (.tagName t)) c = (at_ m (.tagName { t with name := t.name ++ [c] }), []) := by
  obtain ⟨h1, h2, h3, h5⟩ := tCh_spec h
  simp only [step, at_s, h1, h2, h3, h5, Bool.false_eq_true, if_false]
  rfl

theorem run_tagName (m : M) (t : Tag) (w : List Char) (h : ∀ c ∈ w, tCh c = true) :
    runS (at_ m (.tagName t)) w = at_ m (.tagName { t with name := t.name ++ w }) ∧
    runO (at_ m (.tagName t)) w = [] := by
  induction w generalizing t with
  | nil => simp [runS, runO]
  | cons c w ih =>
    have := ih { t with name := t.name ++ [c] } (fun d hd => h d (List.mem_cons_of_mem _ hd))
    simp only [runS, runO, step_tagName m t c (h c List.mem_cons_self), List.nil_append]
    simpa using this

/-! ## the value written by `html.EscapeAttrVal`, as the machine reads it -/
section Value
open Verif.Model.HtmlAttr Verif.Proofs.HtmlAttr

/-- the raw value and the quote form in which `escapeAttrVal` writes `v` -/
def rawOf (v : List Char) (q : Quote) (must : Bool) : List Char × QForm :=
  if v.all (fun c => !needsQuote c) && (!must || q = .none) then (v, .unquoted)
  else if v.count '\'' = 0 && q = .single then (v, .single)
  else if v.count '"' = 0 && q = .double then (v, .double)
  else if v.count '"' < v.count '\'' || (v.count '\'' = v.count '"' && q ≠ .single) then
    (escapeQuote '"' ['&', '#', '3', '4', ';'] v, .double)
  else (escapeQuote '\'' ['&', '#', '3', '9', ';'] v, .single)

def wrap : List Char × QForm → List Char
  | (r, .unquoted) => r
  | (r, .single) => '\'' :: (r ++ ['\''])
  | (r, .double) => '"' :: (r ++ ['"'])
  | (_, .missing) => []

theorem escapeAttrVal_eq (v : List Char) (q : Quote) (must : Bool) : escapeAttrVal v q must = wrap (rawOf v q must) := by
  unfold escapeAttrVal rawOf
  simp only
  generalize (v.all fun c => !needsQuote c) = u
  generalize decide (List.count '\'' v = 0) = a
  generalize decide (List.count '"' v = 0) = b
  generalize decide (List.count '"' v < List.count '\'' v) = c
  generalize decide (List.count '\'' v = List.count '"' v) = d
  cases q <;> cases u <;> cases must <;> cases a <;> cases b <;> cases c <;> cases d <;> rfl

theorem rawOf_decode (v : List Char) (q : Quote) (must : Bool) : decodeAttr (rawOf v q must).1 = decodeAttr v := by
  unfold rawOf
  split
  · rfl
  · split
    · rfl
    · split
      · rfl
      · split
        · exact dec_escapeQuote true '"' '3' '4' (by decide) (by decide) (matchRef_34 true) _ v (Nat.le_refl _)
        · exact dec_escapeQuote true '\'' '3' '9' (by decide) (by decide) (matchRef_39 true) _ v (Nat.le_refl _)

theorem rawOf_form (v : List Char) (q : Quote) (must : Bool) :
    ((rawOf v q must).2 = .unquoted ∧ (rawOf v q must).1 = v ∧ v.all (fun c => !needsQuote c) = true) ∨
    ((rawOf v q must).2 = .single ∧ '\'' ∉ (rawOf v q must).1) ∨
    ((rawOf v q must).2 = .double ∧ '"' ∉ (rawOf v q must).1) := by
  unfold rawOf
  split
  · next h => left; simp only [Bool.and_eq_true] at h; exact ⟨rfl, rfl, h.1⟩
  · split
    · next h => right; left; simp only [Bool.and_eq_true, decide_eq_true_eq] at h; exact ⟨rfl, List.count_eq_zero.mp h.1⟩
    · split
      · next h => right; right; simp only [Bool.and_eq_true, decide_eq_true_eq] at h; exact ⟨rfl, List.count_eq_zero.mp h.1⟩
      · split
        · right; right; exact ⟨rfl, not_mem_escapeQuote _ _ _ (by decide)⟩
        · right; left; exact ⟨rfl, not_mem_escapeQuote _ _ _ (by decide)⟩

/-- the unquoted form is chosen exactly when no byte needs quoting and quotes may be dropped (`unquoted_iff` of C03) -/
theorem rawOf_unquoted_iff (v : List Char) (q : Quote) (must : Bool) :
    (rawOf v q must).2 = .unquoted ↔ (v.all (fun c => !needsQuote c) && (!must || q = .none)) = true := by
  unfold rawOf
  split
  · next h => simp [h]
  · next h =>
    constructor
    · intro h'
      split at h'
      · cases h'
      · split at h'
        · cases h'
        · split at h' <;> cases h'
    · intro h'; exact absurd h' h

theorem needsQuote_uCh {c : Char} (h : needsQuote c = false) : uCh c = true ∧ c ≠ '"' ∧ c ≠ '\'' := by
  have := needsQuote_false h
  simp only [needsQuote, Bool.or_eq_false_iff, decide_eq_false_iff_not] at h
  refine ⟨?_, h.1.1.1.1.1.2, h.1.1.1.1.2⟩
  simp only [uCh, isWs, Bool.and_eq_true, Bool.not_eq_true', Bool.or_eq_false_iff, decide_eq_false_iff_not, bne_iff_ne, ne_eq]
  exact ⟨⟨⟨⟨⟨h.1.1.1.1.1.1.1.1.1.1, h.1.1.1.1.1.1.1.1.1.2⟩, h.1.1.1.1.1.1.1.1.2⟩, h.1.1.1.1.1.1.1.2⟩, h.1.1.1.1.1.1.2⟩, h.1.2⟩

/-- the state of the machine when the value has been read -/
def valueDone (m : M) (t : Tag) (n : List Char) (rf : List Char × QForm) : M :=
  match rf.2 with
  | .unquoted => at_ m (.attrValueU t n rf.1)
  | f => at_ m (.afterAttrValueQ (t.push n rf.1 f))

theorem read_quoted (m : M) (t : Tag) (n r : List Char) (q : Char) (hq : q = '"' ∨ q = '\'') (h : q ∉ r) :
    runS (at_ m (.beforeAttrValue t n)) (q :: (r ++ [q])) =
      at_ m (.afterAttrValueQ (t.push n r (if q = '"' then .double else .single))) ∧
    runO (at_ m (.beforeAttrValue t n)) (q :: (r ++ [q])) = [] := by
  have h0 : step (at_ m (.beforeAttrValue t n)) q = (at_ m (.attrValueQ t n q []), []) := by
    rcases hq with e | e <;> subst e <;> rfl
  have h1 := run_attrValueQ m t n q r [] h
  simp only [List.nil_append] at h1
  have h2 := step_attrValueQ_close m t n r q
  refine ⟨?_, ?_⟩
  · rw [runS_cons, h0, runS_append, h1.1, runS_cons, h2]; rfl
  · rw [runO_cons, h0, runO_append, h1.1, h1.2, runO_cons, h2]; rfl

/-- **the machine reads the written value**: from the *before attribute value* state (right after `=`), the bytes
    that `EscapeAttrVal` writes for a non-empty `v` take the machine, without emitting anything, to the state
    `valueDone`: inside an unquoted value holding exactly `raw`, or behind the closing quote with the attribute
    `(n, raw, form)` appended to the tag — where `(raw, form) = rawOf v q must`. -/
theorem machine_reads_value (m : M) (t : Tag) (n v : List Char) (q : Quote) (must : Bool) (hv : v ≠ []) :
    runS (at_ m (.beforeAttrValue t n)) (escapeAttrVal v q must) = valueDone m t n (rawOf v q must) ∧
    runO (at_ m (.beforeAttrValue t n)) (escapeAttrVal v q must) = [] := by
  rw [escapeAttrVal_eq]
  rcases rawOf_form v q must with ⟨hf, hr, hall⟩ | ⟨hf, hn⟩ | ⟨hf, hn⟩
  · -- unquoted
    generalize rawOf v q must = rf at *
    obtain ⟨r, f⟩ := rf
    simp only at hf hr; subst hf; subst hr
    simp only [wrap, valueDone]
    cases r with
    | nil => exact absurd rfl hv
    | cons c w =>
      have hc := needsQuote_uCh (c := c) (by simpa using (List.all_eq_true.mp hall) c List.mem_cons_self)
      have h0 : step (at_ m (.beforeAttrValue t n)) c = (at_ m (.attrValueU t n [c]), []) := by
        have hu := hc.1
        simp only [uCh, Bool.and_eq_true, Bool.not_eq_true', bne_iff_ne, ne_eq] at hu
        simp only [step, at_s, hu.1, Bool.false_eq_true, if_false, hc.2.1, hc.2.2, decide_false, Bool.or_self, hu.2]
        rfl
      have h1 := run_attrValueU m t n w [c] (fun d hd =>
        (needsQuote_uCh (c := d) (by simpa using (List.all_eq_true.mp hall) d (List.mem_cons_of_mem _ hd))).1)
      exact ⟨by rw [runS_cons, h0]; exact h1.1, by rw [runO_cons, h0]; simpa using h1.2⟩
  · generalize rawOf v q must = rf at *
    obtain ⟨r, f⟩ := rf
    simp only at hf hn; subst hf
    simp only [wrap, valueDone]
    exact read_quoted m t n r '\'' (Or.inr rfl) hn
  · generalize rawOf v q must = rf at *
    obtain ⟨r, f⟩ := rf
    simp only at hf hn; subst hf
    simp only [wrap, valueDone]
    exact read_quoted m t n r '"' (Or.inl rfl) hn

end Value

end Verif.Proofs.C09HtmlTag

import Verif.Proofs.JsNumberPrint
/-!
# C01N — the private copy of `minify.Number` on a plain decimal lexeme
-/
namespace Verif.Proofs.JsNumber
open Verif.Spec.JsNumberSem (natOf10 stripSep isLegacyLike)
open Verif.Model.JsNumber.JsNumberDec

/-- the exponent as the model reads it (`strconv.ParseInt`, int64 range) -/
def modelExp (l : DLex) : Option Int :=
  match l.ex with
  | none => some 0
  | some (_, sg, d) => parseExp (sg ++ d)

theorem digit_notE' {c : Char} (hc : c.isDigit = true) : notE c = true := by
  have h1 : c ≠ 'e' := digit_ne hc (by decide)
  have h2 : c ≠ 'E' := digit_ne hc (by decide)
  simp [notE, h1, h2]

theorem digit_notDot {c : Char} (hc : c.isDigit = true) : notDot c = true := by
  have h1 : c ≠ '.' := digit_ne hc (by decide)
  simp [notDot, h1]

theorem takeWhile_isDigit_all {d : List Char} (h : AllDig d) : d.takeWhile Char.isDigit = d := by
  have := takeWhile_append_stop (p := Char.isDigit) (a := d) (b := []) h (by intro c t e; cases e)
  simpa using this

theorem parseExp_plain {sg d : List Char} (hs : sg = [] ∨ sg = ['+'] ∨ sg = ['-']) (hd : AllDig d) (hne : d ≠ []) :
    parseExp (sg ++ d) =
      if sg = ['-'] then (if natOf d ≤ 2^63 then some (-(natOf d : Int)) else none)
      else (if natOf d < 2^63 then some (natOf d : Int) else none) := by
  obtain ⟨c, t, hct⟩ : ∃ c t, d = c :: t := by
    cases d with
    | nil => exact absurd rfl hne
    | cons c t => exact ⟨c, t, rfl⟩
  have hc : c.isDigit = true := hd c (by rw [hct]; simp)
  have hp : c ≠ '+' := digit_ne hc (by decide)
  have hm : c ≠ '-' := digit_ne hc (by decide)
  have hskip : skipPlus d = d := by
    rw [hct]; unfold skipPlus
    split
    · rename_i heq; injection heq with e _; exact absurd e hp
    · rfl
  have hsplit : signSplit d = (false, d) := by
    rw [hct]; unfold signSplit
    split
    · rename_i heq; injection heq with e _; exact absurd e hm
    · rename_i heq; injection heq with e _; exact absurd e hp
    · rfl
  have hemp : d.isEmpty = false := by rw [hct]; rfl
  rcases hs with s | s | s <;> subst s
  · simp only [List.nil_append]
    unfold parseExp
    rw [hskip, hsplit]
    simp [takeWhile_isDigit_all hd, hemp]
  · unfold parseExp
    have : skipPlus (['+'] ++ d) = d := rfl
    rw [this, hsplit]
    simp [takeWhile_isDigit_all hd, hemp]
  · unfold parseExp
    have h1 : skipPlus (['-'] ++ d) = '-' :: d := rfl
    have h2 : signSplit ('-' :: d) = (true, d) := rfl
    rw [h1, h2]
    simp [takeWhile_isDigit_all hd, hemp]

/-- a parsed exponent is the exponent value of the specification, and a negative one takes at least
    `2 + lenInt e` bytes (`e`, `-`, digits) -/
theorem modelExp_spec (l : DLex) (h : l.Plain) {e : Int} (he : modelExp l = some e) :
    e = l.expVal ∧ (if e < 0 then 2 + (lenInt e : Int) else 0) ≤ (l.exPart.length : Int) := by
  unfold modelExp at he
  unfold DLex.expVal DLex.exPart
  cases hex : l.ex with
  | none =>
    rw [hex] at he
    injection he with he
    subst he
    simp
  | some x =>
    obtain ⟨c, sg, d⟩ := x
    rw [hex] at he
    obtain ⟨_, h2, h3, h4⟩ := h.ex c sg d hex
    simp only at he ⊢
    rw [parseExp_plain h2 h3 h4] at he
    rw [stripSep_of_allDig h3, natOf10_eq]
    by_cases hs : sg = ['-']
    · rw [if_pos hs] at he ⊢
      split at he
      · injection he with he
        subst he
        refine ⟨rfl, ?_⟩
        have hl := lenNat_of_digits h3 h4
        have : lenInt (-(natOf d : Int)) = lenNat (natOf d) := by rw [lenInt_eq]; simp
        rw [this, hs]
        simp only [List.length_cons, List.length_append, List.length_nil]
        split <;> omega
      · cases he
    · rw [if_neg hs] at he ⊢
      split at he
      · injection he with he
        subst he
        refine ⟨rfl, ?_⟩
        rw [if_neg (by omega)]
        omega
      · cases he

theorem dotPart_all (l : DLex) (h : l.Plain) : ∀ x ∈ l.ip ++ l.dotPart, notE x = true := by
  intro x hx
  rcases List.mem_append.mp hx with hx | hx
  · exact digit_notE' (h.ip x hx)
  · unfold DLex.dotPart at hx
    split at hx
    · cases hx
    · rename_i f hf
      rcases List.mem_cons.mp hx with e | e
      · subst e; decide
      · exact digit_notE' (h.fp f hf x e)

theorem exPart_stop (l : DLex) (h : l.Plain) : ∀ c t, l.exPart = c :: t → notE c = false := by
  intro c t hc
  rcases exPart_head l h.shape c t hc with e | e <;> subst e <;> decide

theorem dotPart_stop (l : DLex) : ∀ c t, l.dotPart = c :: t → notDot c = false := by
  intro c t hc
  unfold DLex.dotPart at hc
  split at hc
  · cases hc
  · injection hc with e _; subst e; decide

theorem dotPart_drop (l : DLex) : l.dotPart.drop 1 = l.fpd := by
  unfold DLex.dotPart DLex.fpd
  cases l.fp <;> rfl

theorem exPart_expo (l : DLex) :
    (l.exPart = [] ∧ modelExp l = some 0) ∨ (∃ c r, l.exPart = c :: r ∧ modelExp l = parseExp r) := by
  unfold DLex.exPart modelExp
  cases l.ex with
  | none => left; exact ⟨rfl, rfl⟩
  | some x => obtain ⟨c, sg, d⟩ := x; right; exact ⟨c, sg ++ d, rfl, rfl⟩

/-- `number` on a plain lexeme, with the model's own parsing resolved -/
theorem number_str (l : DLex) (h : l.Plain) :
    number l.str =
      if l.str.length ≤ 1 then l.str else
      match modelExp l with
      | none => l.str
      | some e =>
        if (dropZeros l.ip).isEmpty && (dropTrailZeros l.fpd).isEmpty then ['0']
        else printNum l.str l.str.length (l.ip.length - (dropZeros l.ip).length) (dropZeros l.ip)
          (dropTrailZeros l.fpd) e := by
  have hstr : l.str = (l.ip ++ l.dotPart) ++ l.exPart := by unfold DLex.str; rw [List.append_assoc]
  have h1 : l.str.takeWhile notE = l.ip ++ l.dotPart := by
    rw [hstr]; exact takeWhile_append_stop (dotPart_all l h) (exPart_stop l h)
  have h2 : l.str.dropWhile notE = l.exPart := by
    rw [hstr]; exact dropWhile_append_stop (dotPart_all l h) (exPart_stop l h)
  have h3 : (l.ip ++ l.dotPart).takeWhile notDot = l.ip :=
    takeWhile_append_stop (fun x hx => digit_notDot (h.ip x hx)) (dotPart_stop l)
  have h4 : (l.ip ++ l.dotPart).dropWhile notDot = l.dotPart :=
    dropWhile_append_stop (fun x hx => digit_notDot (h.ip x hx)) (dotPart_stop l)
  unfold number
  simp only [h1, h2, h3, h4, dotPart_drop]
  rcases exPart_expo l with ⟨e1, e2⟩ | ⟨c, r, e1, e2⟩
  · simp only [e1, e2]
  · simp only [e1, e2]
    cases parseExp r <;> rfl


theorem fpd_allDig (l : DLex) (h : l.Plain) : AllDig l.fpd := by
  unfold DLex.fpd
  cases hfp : l.fp with
  | none => exact AllDig.nil
  | some f => exact h.fp f hfp

theorem dotPart_len (l : DLex) :
    (if (dropTrailZeros l.fpd).isEmpty then 0 else 1 + (dropTrailZeros l.fpd).length) ≤ l.dotPart.length := by
  unfold DLex.dotPart DLex.fpd
  cases l.fp with
  | none => simp [dropTrailZeros, dropZeros_nil]
  | some f =>
    have hl := dropTrailZeros_length_le f
    simp only [Option.getD_some, List.length_cons]
    split <;> omega

theorem str_length (l : DLex) : l.str.length = l.ip.length + l.dotPart.length + l.exPart.length := by
  unfold DLex.str; simp only [List.length_append]; omega

/-- **the private copy of `Number` on a plain, non-legacy decimal lexeme**: the result is again such a
    lexeme and has the same value -/
theorem number_plain (l : DLex) (h : l.Plain) (hnl : isLegacyLike l.str = false) :
    ∃ l' : DLex, l'.Plain ∧ l'.str = number l.str ∧ l'.val = l.val ∧ isLegacyLike (number l.str) = false := by
  rw [number_str l h]
  split
  · exact ⟨l, h, rfl, rfl, hnl⟩
  · cases hme : modelExp l with
    | none => exact ⟨l, h, rfl, rfl, hnl⟩
    | some e =>
      obtain ⟨he1, he2⟩ := modelExp_spec l h hme
      simp only
      have hfd := fpd_allDig l h
      by_cases hz : ((dropZeros l.ip).isEmpty && (dropTrailZeros l.fpd).isEmpty) = true
      · rw [if_pos hz]
        simp only [Bool.and_eq_true, List.isEmpty_iff] at hz
        refine ⟨DLex.mk ['0'] none none, plain_mk (by intro c hc; simp at hc; subst hc; decide) (by intro f hf; cases hf)
          (Or.inl rfl) (Or.inl (by simp)), rfl, ?_, rfl⟩
        rw [DLex.val_plain l h, zero_value hz.1 hz.2]
        rw [DLex.val_plain _ (plain_mk (by intro c hc; simp at hc; subst hc; decide) (by intro f hf; cases hf)
          (Or.inl rfl) (Or.inl (by simp)))]
        have : natOf (['0'] ++ (DLex.mk ['0'] none none).fpd) = 0 := by decide
        rw [this]
        exact dv_zero _ _
      · rw [if_neg hz]
        have ht := trimmed_of h.ip hfd hz
        have hW : ((l.ip.length - (dropZeros l.ip).length : Nat) : Int) +
            (mlen (dropZeros l.ip) (dropTrailZeros l.fpd) : Int) + (if e < 0 then 2 + (lenInt e : Int) else 0)
            ≤ (l.str.length : Int) := by
          have h1 := dropZeros_length_le l.ip
          have h2 := dotPart_len l
          rw [str_length]
          unfold mlen
          simp only [Int.natCast_add]
          omega
        rcases printNum_out l.str l.str.length _ _ _ e ht hW with ho | ⟨l', hp, hs, hv, hn⟩
        · rw [ho]; exact ⟨l, h, rfl, rfl, hnl⟩
        · refine ⟨l', hp, hs, ?_, hn⟩
          rw [hv, ← sig_value, ← trim_value, DLex.val_plain l h, he1]

end Verif.Proofs.JsNumber

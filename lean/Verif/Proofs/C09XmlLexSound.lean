import Verif.Proofs.C09XmlLex
/-!
# C09 (XML) — soundness of the independent tokeniser (specification side only)

`lex_sound`: whatever `xmlTokens` returns follows the grammar `canonOk`; together with `lex_roundtrip` the tokeniser
is a retraction of byte strings onto grammatical token streams.  `canon_wfTokP`: the tokens of a grammatical stream
follow the XML grammar of C06 (`WfTokP`) — the Boolean checks imply the unit-sequence grammar.
-/
namespace Verif.Proofs.C09XmlLex
open Verif.Xml (XTok)
open Verif.Spec.Xml
open Verif.Spec.C09XmlLex
open Verif.Proofs.Xml (unquote_wrap mem_takeWhile_imp')

/-! ## soundness of the tokeniser: what it returns is grammatical -/

theorem split2_inv (a b : Char) : ∀ (s x y : List Char), split2 a b s = some (x, y) →
    s = x ++ a :: b :: y ∧ has2 a b x = false ∧ (a = b → x.getLast? ≠ some a) := by
  intro s
  induction s with
  | nil => intro x y h; simp [split2] at h
  | cons c r ih =>
    intro x y h
    rw [split2_cons] at h
    split at h
    · next hs =>
      simp only [Option.some.injEq, Prod.mk.injEq] at h
      obtain ⟨rfl, rfl⟩ := h
      cases r with
      | nil => simp [starts2] at hs
      | cons d r' =>
        simp only [starts2, Bool.and_eq_true, beq_iff_eq] at hs
        obtain ⟨rfl, rfl⟩ := hs
        exact ⟨by simp, rfl, by simp⟩
    · next hs =>
      cases hr : split2 a b r with
      | none => simp [hr] at h
      | some p =>
        obtain ⟨x', y'⟩ := p
        simp only [hr, Option.map_some, Option.some.injEq, Prod.mk.injEq] at h
        obtain ⟨rfl, rfl⟩ := h
        obtain ⟨e1, e2, e3⟩ := ih x' y' hr
        subst e1
        have hs' : starts2 a b (c :: (x' ++ a :: b :: y')) = false := by simpa using hs
        refine ⟨by simp, ?_, ?_⟩
        · simp only [has2, Bool.or_eq_false_iff]
          refine ⟨?_, e2⟩
          cases x' with
          | nil => rfl
          | cons d x'' =>
            cases x'' with
            | nil => simpa [starts2] using hs'
            | cons e x3 => simpa [starts2] using hs'
        · intro hab
          cases x' with
          | nil =>
            simp only [List.nil_append, starts2, Bool.and_eq_false_iff, beq_eq_false_iff_ne] at hs'
            simp only [List.getLast?_singleton, ne_eq, Option.some.injEq]
            rcases hs' with h1 | h1
            · exact h1
            · exact absurd hab h1
          | cons d x'' =>
            have := e3 hab
            simpa [List.getLast?_cons_cons] using this

theorem startsCdEnd_true (s : List Char) (h : startsCdEnd s = true) : ∃ r, s = ']' :: ']' :: '>' :: r := by
  cases s with
  | nil => simp [startsCdEnd] at h
  | cons c s1 =>
    by_cases hc : c = ']'
    · subst hc
      cases s1 with
      | nil => simp [startsCdEnd] at h
      | cons d s2 =>
        by_cases hd : d = ']'
        · subst hd
          cases s2 with
          | nil => simp [startsCdEnd] at h
          | cons e s3 =>
            by_cases he : e = '>'
            · subst he; exact ⟨s3, rfl⟩
            · rw [Verif.Proofs.Xml.sc3 e _ he] at h; cases h
        · rw [Verif.Proofs.Xml.sc2 d _ hd] at h; cases h
    · rw [Verif.Proofs.Xml.sc1 c _ hc] at h; cases h

theorem splitCdEnd_inv : ∀ (s t y : List Char), splitCdEnd s = some (t, y) →
    s = t ++ ']' :: ']' :: '>' :: y ∧ hasCdEnd t = false := by
  intro s
  induction s with
  | nil => intro t y h; simp [splitCdEnd] at h
  | cons c r ih =>
    intro t y h
    rw [splitCdEnd_cons] at h
    split at h
    · next hs =>
      simp only [Option.some.injEq, Prod.mk.injEq] at h
      obtain ⟨rfl, rfl⟩ := h
      obtain ⟨r2, hr2⟩ := startsCdEnd_true _ hs
      simp only [List.cons.injEq] at hr2
      obtain ⟨rfl, rfl⟩ := hr2
      exact ⟨by simp, rfl⟩
    · next hs =>
      cases hr : splitCdEnd r with
      | none => simp [hr] at h
      | some p =>
        obtain ⟨t', y'⟩ := p
        simp only [hr, Option.map_some, Option.some.injEq, Prod.mk.injEq] at h
        obtain ⟨rfl, rfl⟩ := h
        obtain ⟨e1, e2⟩ := ih t' y' hr
        subst e1
        have hs' : startsCdEnd (c :: (t' ++ ']' :: ']' :: '>' :: y')) = false := by simpa using hs
        refine ⟨by simp, ?_⟩
        simp only [hasCdEnd, Bool.or_eq_false_iff]
        refine ⟨?_, e2⟩
        cases t' with
        | nil => cases hc : c == ']' <;> simp_all [startsCdEnd]
        | cons d t2 =>
          cases t2 with
          | nil =>
            by_cases hc : c = ']'
            · subst hc
              by_cases hd : d = ']'
              · subst hd; rfl
              · exact Verif.Proofs.Xml.sc2 d _ hd
            · exact Verif.Proofs.Xml.sc1 c _ hc
          | cons e t3 =>
            rw [startsCdEnd3 c d e t3 (t3 ++ ']' :: ']' :: '>' :: y')]
            simpa using hs'

theorem dtScan_inv : ∀ (s : List Char) (st : DtSt) (rest : List Char), dtScan st s = some rest →
    ∃ b, s = b ++ rest ∧ dtScan st b = some [] := by
  intro s
  induction s with
  | nil => intro st rest h; simp [dtScan] at h
  | cons c r ih =>
    intro st rest h
    simp only [dtScan] at h
    cases hs : dtStep st c with
    | none => simp [hs] at h
    | some x =>
      cases x with
      | none =>
        simp only [hs, Option.some.injEq] at h
        subst h
        exact ⟨[c], rfl, by simp [dtScan, hs]⟩
      | some st' =>
        simp only [hs] at h
        obtain ⟨b, e1, e2⟩ := ih st' rest h
        exact ⟨c :: b, by simp [e1], by simp [dtScan, hs, e2]⟩

theorem takeName_inv (s n r : List Char) (h : takeName s = some (n, r)) : s = n ++ r ∧ isName n = true := by
  unfold takeName at h
  simp only at h
  split at h
  · next hn =>
    simp only [Option.some.injEq, Prod.mk.injEq] at h
    obtain ⟨rfl, rfl⟩ := h
    exact ⟨by rw [drop_takeWhile]; exact List.takeWhile_append_dropWhile.symm, hn⟩
  · cases h


theorem takeAttValue_inv (s v r : List Char) (h : takeAttValue s = some (v, r)) : s = v ++ r ∧ wfAttr v = true := by
  cases s with
  | nil => simp [takeAttValue] at h
  | cons q s1 =>
    simp only [takeAttValue] at h
    split at h
    · next hq =>
      split at h
      · next x rest heq =>
        split at h
        · next hok =>
          simp only [Option.some.injEq, Prod.mk.injEq] at h
          obtain ⟨rfl, rfl⟩ := h
          rw [drop_takeWhile] at heq
          have hx : x = q := by
            have := List.head_dropWhile_not (p := (· != q)) (l := s1) (by rw [heq]; simp)
            simpa [heq] using this
          subst hx
          have hs1 : s1 = s1.takeWhile (· != x) ++ x :: rest := by
            conv => lhs; rw [← List.takeWhile_append_dropWhile (p := (· != x)) (l := s1), heq]
          have hq' : x = '"' ∨ x = '\'' := by simpa using hq
          refine ⟨by conv => lhs; rw [hs1]
                     simp, ?_⟩
          simp only [attBodyOk, Bool.and_eq_true, Bool.not_eq_true', List.contains_eq_mem, decide_eq_false_iff_not] at hok
          simp only [wfAttr, unquote_wrap x hq', Bool.and_eq_true, Bool.not_eq_true', List.contains_eq_mem,
            decide_eq_false_iff_not]
          refine ⟨⟨hok.1, ?_⟩, hok.2⟩
          intro hmem
          have := mem_takeWhile_imp' _ _ _ hmem
          simp at this
        · cases h
      · cases h
    · cases h

theorem tagStep_inv (s : List Char) (tok : XTok) (tg : Bool) (rest : List Char)
    (h : tagStep s = some (tok, tg, rest)) : ∀ k, canonOk tg k = true → canonOk true (tok :: k) = true := by
  simp only [tagStep] at h
  split at h
  · cases h
  · next c r heq =>
    split at h
    · simp only [Option.some.injEq, Prod.mk.injEq] at h
      obtain ⟨rfl, rfl, rfl⟩ := h
      intro k hk; simpa [canonOk] using hk
    · split at h
      · split at h
        · next d r' =>
          split at h
          · simp only [Option.some.injEq, Prod.mk.injEq] at h
            obtain ⟨rfl, rfl, rfl⟩ := h
            intro k hk; simpa [canonOk] using hk
          · cases h
        · cases h
      · split at h
        · cases h
        · split at h
          · next n r1 hn =>
            split at h
            · next e r2 he =>
              split at h
              · split at h
                · next v r3 hv =>
                  simp only [Option.some.injEq, Prod.mk.injEq] at h
                  obtain ⟨rfl, rfl, rfl⟩ := h
                  intro k hk
                  simp only [canonOk, (takeName_inv _ _ _ hn).2, (takeAttValue_inv _ _ _ hv).2, hk, Bool.and_self]
                · cases h
              · cases h
            · cases h
          · cases h

theorem markupStep_inv (r : List Char) (toks : List XTok) (tg : Bool) (rest : List Char)
    (h : markupStep r = some (toks, tg, rest)) :
    (∀ k, canonOk tg k = true → canonOk false (toks ++ k) = true) ∧ (∀ k, nextIsText (toks ++ k) = false) := by
  unfold markupStep at h
  split at h
  · cases h
  · next c r1 =>
    split at h
    · -- `<!`
      split at h
      · next r2 hs =>
        -- comment
        split at h
        · next body g rest' hsp =>
          split at h
          · next hg =>
            simp only [Option.some.injEq, Prod.mk.injEq] at h
            obtain ⟨rfl, rfl, rfl⟩ := h
            obtain ⟨_, e2, e3⟩ := split2_inv '-' '-' _ _ _ hsp
            have hb : commentBodyOk body = true := by
              simp only [commentBodyOk, Bool.and_eq_true, Bool.not_eq_true', bne_iff_ne, ne_eq]
              exact ⟨e2, e3 rfl⟩
            have hc : commentOk (commentOpen ++ body ++ commentClose) = true := by
              have hs : stripPrefix commentOpen (commentOpen ++ (body ++ commentClose)) = some (body ++ commentClose) :=
                stripPrefix_append _ _
              simp only [commentOk, List.append_assoc, hs]
              simp [commentClose, hb]
            exact ⟨fun k hk => by simp only [List.cons_append, List.nil_append, canonOk, hc, hk, Bool.and_self], fun k => rfl⟩
          · cases h
        · cases h
      · split at h
        · next r2 hs =>
          -- CDATA
          split at h
          · next t rest' hsp =>
            split at h
            · next hleg =>
              simp only [Option.some.injEq, Prod.mk.injEq] at h
              obtain ⟨rfl, rfl, rfl⟩ := h
              obtain ⟨_, e2⟩ := splitCdEnd_inv _ _ _ hsp
              have hc : cdataOk (cdataOpen ++ t ++ cdataClose) t = true := by
                simp [cdataOk, e2, hleg]
              exact ⟨fun k hk => by simp only [List.cons_append, List.nil_append, canonOk, hc, hk, Bool.and_self], fun k => rfl⟩
            · cases h
          · cases h
        · split at h
          · next r2 hs =>
            -- DOCTYPE
            split at h
            · next rest' hsc =>
              simp only [Option.some.injEq, Prod.mk.injEq] at h
              obtain ⟨rfl, rfl, rfl⟩ := h
              obtain ⟨b, e1, e2⟩ := dtScan_inv _ _ _ hsc
              have ht : r2.take (r2.length - rest'.length) = b := by
                rw [e1]; simp
              have hc : doctypeOk (doctypeOpen ++ r2.take (r2.length - rest'.length)) = true := by
                have hs : stripPrefix doctypeOpen (doctypeOpen ++ b) = some b := stripPrefix_append _ _
                simp [doctypeOk, ht, hs, e2]
              exact ⟨fun k hk => by simp only [List.cons_append, List.nil_append, canonOk, hc, hk, Bool.and_self], fun k => rfl⟩
            · cases h
          · cases h
    · split at h
      · -- `<?`
        split at h
        · next n r2 hn =>
          split at h
          · next d rest' hsp =>
            split at h
            · next hd =>
              simp only [Option.some.injEq, Prod.mk.injEq] at h
              obtain ⟨rfl, rfl, rfl⟩ := h
              have hnm := (takeName_inv _ _ _ hn).2
              refine ⟨fun k hk => ?_, fun k => rfl⟩
              by_cases hemp : d.isEmpty = true
              · simp [hemp, canonOk, hnm, hk]
              · have : d.isEmpty = false := by simpa using hemp
                simp [this, canonOk, hnm, hk, hd]
            · cases h
          · cases h
        · cases h
      · split at h
        · -- `</`
          split at h
          · next n r2 hn =>
            dsimp only at h
            split at h
            · next g rest' heq =>
              split at h
              · next hg =>
                simp only [Option.some.injEq, Prod.mk.injEq] at h
                obtain ⟨rfl, rfl, rfl⟩ := h
                have hnm := (takeName_inv _ _ _ hn).2
                have hc : endTagOk ('<' :: '/' :: (n ++ r2.takeWhile isS ++ ['>'])) n = true := by
                  have hs : stripPrefix ('<' :: '/' :: n) (('<' :: '/' :: n) ++ (r2.takeWhile isS ++ ['>'])) =
                      some (r2.takeWhile isS ++ ['>']) := stripPrefix_append _ _
                  simp only [List.cons_append] at hs
                  simp only [endTagOk, hnm, List.append_assoc, hs, Bool.true_and]
                  have h1 : (r2.takeWhile isS ++ ['>']).getLast? = some '>' := by simp
                  have h2 : (r2.takeWhile isS ++ ['>']).dropLast = r2.takeWhile isS := by simp
                  rw [h1, h2]
                  simp only [beq_self_eq_true, Bool.true_and, List.all_eq_true]
                  intro c hc
                  exact mem_takeWhile_imp' _ _ _ hc
                exact ⟨fun k hk => by simp only [List.cons_append, List.nil_append, canonOk, hc, hk, Bool.and_self], fun k => rfl⟩
              · cases h
            · cases h
          · cases h
        · -- start tag
          split at h
          · next n r2 hn =>
            simp only [Option.some.injEq, Prod.mk.injEq] at h
            obtain ⟨rfl, rfl, rfl⟩ := h
            exact ⟨fun k hk => by simp [canonOk, (takeName_inv _ _ _ hn).2, hk], fun k => rfl⟩
          · cases h

/-- what follows a run of character data taken by the tokeniser is nothing or a `<` -/
theorem next_after_run (s : List Char) : ∀ c ∈ (s.drop (s.takeWhile (· != '<')).length).head?, c = '<' := by
  rw [drop_takeWhile]
  intro c hc
  cases hd : s.dropWhile (· != '<') with
  | nil => simp [hd] at hc
  | cons x r =>
    have := List.head_dropWhile_not (p := (· != '<')) (l := s) (by rw [hd]; simp)
    simp only [hd, List.head?_cons, Option.mem_def, Option.some.injEq] at hc
    subst hc
    simpa [hd] using this

/-- in content, tokens produced from bytes that start with `<` do not start with a `text` token -/
theorem lexGo_markup_head (f : Nat) (r : List Char) (k : List XTok) (h : lexGo f false ('<' :: r) = some k) :
    nextIsText k = false := by
  cases f with
  | zero => simp [lexGo] at h
  | succ f =>
    simp only [lexGo, contentStep_markup] at h
    cases hm : markupStep r with
    | none => simp [hm] at h
    | some p =>
      obtain ⟨toks, tg, rest⟩ := p
      simp only [hm] at h
      cases hk : lexGo f tg rest with
      | none => simp [hk] at h
      | some k2 =>
        simp only [hk, Option.map_some, Option.some.injEq] at h
        subst h
        exact (markupStep_inv r toks tg rest hm).2 k2

/-- **lex_sound**: whatever the tokeniser returns follows the grammar of token streams -/
theorem lexGo_sound : ∀ (f : Nat) (tg : Bool) (s : List Char) (vs : List XTok), lexGo f tg s = some vs →
    canonOk tg vs = true := by
  intro f
  induction f with
  | zero => intro tg s vs h; simp [lexGo] at h
  | succ f ih =>
    intro tg s vs h
    cases s with
    | nil =>
      cases tg with
      | false => simp only [lexGo, Option.some.injEq] at h; subst h; rfl
      | true => simp [lexGo] at h
    | cons c r =>
      cases tg with
      | false =>
        simp only [lexGo] at h
        cases hcs : contentStep (c :: r) with
        | none => simp [hcs] at h
        | some p =>
          obtain ⟨toks, tg', rest⟩ := p
          simp only [hcs] at h
          cases hk : lexGo f tg' rest with
          | none => simp [hk] at h
          | some k =>
            simp only [hk, Option.map_some, Option.some.injEq] at h
            subst h
            have hck := ih tg' rest k hk
            by_cases hlt : c = '<'
            · subst hlt
              rw [contentStep_markup] at hcs
              exact (markupStep_inv r toks tg' rest hcs).1 k hck
            · have hne : (c == '<') = false := by simpa using hlt
              simp only [contentStep, hne, Bool.false_eq_true, if_false] at hcs
              split at hcs
              · next hw =>
                simp only [Option.some.injEq, Prod.mk.injEq] at hcs
                obtain ⟨rfl, rfl, rfl⟩ := hcs
                have hrun : ((c :: r).takeWhile (· != '<')) ≠ [] := by
                  simp [hlt]
                have hnext : nextIsText k = false := by
                  have hh := next_after_run (c :: r)
                  cases hrest : (c :: r).drop ((c :: r).takeWhile (· != '<')).length with
                  | nil =>
                    rw [hrest] at hk
                    cases f with
                    | zero => simp [lexGo] at hk
                    | succ f' => simp only [lexGo, Option.some.injEq] at hk; subst hk; rfl
                  | cons c2 r2 =>
                    rw [hrest] at hk hh
                    have : c2 = '<' := hh c2 (by simp)
                    subst this
                    exact lexGo_markup_head f r2 k hk
                simp only [List.cons_append, List.nil_append, canonOk, hw, hnext, hck, Bool.and_true, Bool.not_false,
                  Bool.not_eq_true', List.isEmpty_eq_false_iff]
                exact hrun
              · cases hcs
      | true =>
        simp only [lexGo] at h
        cases hts : tagStep (c :: r) with
        | none => simp [hts] at h
        | some p =>
          obtain ⟨tok, tg', rest⟩ := p
          simp only [hts] at h
          cases hk : lexGo f tg' rest with
          | none => simp [hk] at h
          | some k =>
            simp only [hk, Option.map_some, Option.some.injEq] at h
            subst h
            exact tagStep_inv _ _ _ _ hts k (ih tg' rest k hk)

theorem lex_sound (s : List Char) (vs : List XTok) (h : xmlTokens s = some vs) : canonOk false vs = true :=
  lexGo_sound _ false s vs h

/-- the tokens of a grammatical stream follow the grammar of C06 -/
theorem canon_wfTokP (n : Nat) : ∀ (vs : List XTok), vs.length ≤ n → ∀ tg, canonOk tg vs = true →
    ∀ x ∈ vs, WfTokP x := by
  induction n with
  | zero =>
    intro vs hl tg _ x hx
    have : vs = [] := List.length_eq_zero_iff.mp (by omega)
    subst this; cases hx
  | succ n ih =>
    intro vs hl tg h x hx
    cases vs with
    | nil => cases hx
    | cons t r =>
      simp only [List.length_cons] at hl
      have hlr : r.length ≤ n := by omega
      simp only [List.mem_cons] at hx
      cases tg with
      | false =>
        cases t with
        | text d =>
          simp only [canonOk, Bool.and_eq_true, Bool.not_eq_true', List.isEmpty_eq_false_iff] at h
          rcases hx with rfl | hx
          · exact wfChars_wfText d h.1.1.1 h.1.1.2
          · exact ih r hlr false h.2 x hx
        | comment d =>
          simp only [canonOk, Bool.and_eq_true] at h
          rcases hx with rfl | hx
          · trivial
          · exact ih r hlr false h.2 x hx
        | cdata d t' =>
          simp only [canonOk, Bool.and_eq_true] at h
          rcases hx with rfl | hx
          · exact wfCData_of_all t' (cdataOk_shape d t' h.1).2.2
          · exact ih r hlr false h.2 x hx
        | doctype d =>
          simp only [canonOk, Bool.and_eq_true] at h
          rcases hx with rfl | hx
          · trivial
          · exact ih r hlr false h.2 x hx
        | endTag d nm =>
          simp only [canonOk, Bool.and_eq_true] at h
          rcases hx with rfl | hx
          · trivial
          · exact ih r hlr false h.2 x hx
        | startTag nm =>
          simp only [canonOk, Bool.and_eq_true] at h
          rcases hx with rfl | hx
          · trivial
          · exact ih r hlr true h.2 x hx
        | startTagPI nm =>
          cases r with
          | nil => simp [canonOk] at h
          | cons t2 r2 =>
            cases t2 with
            | startTagClosePI =>
              simp only [canonOk, Bool.and_eq_true] at h
              rcases hx with rfl | hx
              · trivial
              · simp only [List.mem_cons] at hx
                rcases hx with rfl | hx
                · trivial
                · exact ih r2 (by simp at hlr; omega) false h.2 x hx
            | attrBare d d' =>
              cases r2 with
              | nil => simp [canonOk] at h
              | cons t3 r3 =>
                cases t3 with
                | startTagClosePI =>
                  simp only [canonOk, Bool.and_eq_true] at h
                  rcases hx with rfl | hx
                  · trivial
                  · simp only [List.mem_cons] at hx
                    rcases hx with rfl | rfl | hx
                    · trivial
                    · trivial
                    · exact ih r3 (by simp at hlr; omega) false h.2 x hx
                | _ => simp [canonOk] at h
            | _ => simp [canonOk] at h
        | _ => simp [canonOk] at h
      | true =>
        cases t with
        | attr nm v =>
          simp only [canonOk, Bool.and_eq_true] at h
          rcases hx with rfl | hx
          · exact wfAttr_wfAttrVal v h.1.2
          · exact ih r hlr true h.2 x hx
        | startTagClose =>
          simp only [canonOk] at h
          rcases hx with rfl | hx
          · trivial
          · exact ih r hlr false h x hx
        | startTagCloseVoid =>
          simp only [canonOk] at h
          rcases hx with rfl | hx
          · trivial
          · exact ih r hlr false h x hx
        | _ => simp [canonOk] at h

end Verif.Proofs.C09XmlLex

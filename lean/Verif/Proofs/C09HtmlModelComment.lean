import Verif.Proofs.C09HtmlComment
import Verif.Proofs.HtmlAttr
import Verif.Model.Html
import Verif.Proofs.C09HtmlRelex
/-!
# C09 / HTML — the comments that the model of html.go writes are single comment tokens
-/
namespace Verif.Proofs.C09HtmlComment
open Verif.Spec.C09HtmlTok Verif.Spec.C09HtmlShape Verif.Spec.HtmlAttr Verif.Proofs.C09HtmlTok Verif.Proofs.C09HtmlTag
open Verif.Model.Html

/-! ## `hasClose` and concatenation -/

theorem closesAt_append (x y : List Char) (h : closesAt x = true) : closesAt (x ++ y) = true := by
  simp only [closesAt, Bool.or_eq_true, List.isPrefixOf_iff_prefix] at h ⊢
  rcases h with h | h
  · exact Or.inl (h.trans (List.prefix_append _ _))
  · exact Or.inr (h.trans (List.prefix_append _ _))

theorem hasClose_prefix (a b : List Char) (h : hasClose (a ++ b) = false) : hasClose a = false := by
  induction a with
  | nil => rfl
  | cons c a ih =>
    simp only [List.cons_append, hasClose, Bool.or_eq_false_iff] at h ⊢
    refine ⟨?_, ih h.2⟩
    cases hc : closesAt (c :: a) with
    | false => rfl
    | true => have := closesAt_append (c :: a) b hc; rw [List.cons_append, h.1] at this; cases this

/-- a pattern cannot straddle a `>` that is not its last byte -/
theorem closesAt_gt (c : Char) (a b : List Char) :
    closesAt (c :: a ++ '>' :: b) = closesAt (c :: a ++ ['>']) := by
  match a with
  | [] => simp [closesAt, List.isPrefixOf]
  | [a1] => simp [closesAt, List.isPrefixOf]
  | [a1, a2] => simp [closesAt, List.isPrefixOf]
  | a1 :: a2 :: a3 :: r => simp [closesAt, List.isPrefixOf]

theorem hasClose_append_gt (a b : List Char) (h1 : hasClose (a ++ ['>']) = false) (h2 : hasClose b = false) :
    hasClose (a ++ '>' :: b) = false := by
  induction a with
  | nil => simp [hasClose, closesAt, h2, List.isPrefixOf]
  | cons c a ih =>
    simp only [List.cons_append, hasClose, Bool.or_eq_false_iff] at h1 ⊢
    exact ⟨by rw [← List.cons_append, closesAt_gt]; exact h1.1, ih h1.2⟩

/-- a pattern cannot straddle a `<` -/
theorem closesAt_lt (c : Char) (a b : List Char) : closesAt (c :: a ++ '<' :: b) = closesAt (c :: a) := by
  match a with
  | [] => simp [closesAt, List.isPrefixOf]
  | [a1] => simp [closesAt, List.isPrefixOf]
  | [a1, a2] => simp [closesAt, List.isPrefixOf]
  | a1 :: a2 :: a3 :: r => simp [closesAt, List.isPrefixOf]

theorem hasClose_append_lt (a b : List Char) (h1 : hasClose a = false) (h2 : hasClose ('<' :: b) = false) :
    hasClose (a ++ '<' :: b) = false := by
  induction a with
  | nil => exact h2
  | cons c a ih =>
    simp only [List.cons_append, hasClose, Bool.or_eq_false_iff] at h1 ⊢
    exact ⟨by rw [← List.cons_append, closesAt_lt]; exact h1.1, ih h1.2⟩

theorem ok_inj' {α} {a b : α} (h : (Except.ok a : Except String α) = .ok b) : a = b := by cases h; rfl

/-! ## what `commentOut` writes -/

/-- `IndexByte(data, '>') + 1` and `len(data) - len("<![endif]-->")` -/
def condBegin (data : List Char) : Nat := (data.takeWhile (· != '>')).length + 1
def condEnd (data : List Char) : Nat := data.length - 12

/-- nothing, the token's bytes, or — a downlevel-hidden conditional comment under KeepSpecialComments — head, minified
    inside, tail -/
theorem commentOut_cases (o : Opts) (ext : Ext) (data text out : List Char) (h : commentOut o ext data text = .ok out) :
    out = [] ∨ out = data ∨
    ∃ inner, callExt ext "html" ((data.take (condEnd data)).drop (condBegin data)) = .ok inner ∧
      (bytesContain (s "-->") inner || bytesContain (s "--!>") inner) = false ∧
      out = data.take (condBegin data) ++ inner ++ data.drop (condEnd data) := by
  unfold commentOut at h
  simp only [bind, Except.bind] at h
  repeat (any_goals (split at h))
  all_goals first
    | (right; left; exact (ok_inj' h).symm)
    | (left; exact (ok_inj' h).symm)
    | (cases h; done)
    | (right; right; rename_i inner hin hnc; exact ⟨inner, hin, by simpa using hnc, (ok_inj' h).symm⟩)

/-- the recursion branch is taken only after html.go's own tests -/
theorem commentOut_rec (o : Opts) (ext : Ext) (data text out : List Char) (h : commentOut o ext data text = .ok out)
    (h1 : out ≠ []) (h2 : out ≠ data) :
    (s "<!--[if ").isPrefixOf data = true ∧ (s "<![endif]-->").isSuffixOf data = true ∧ condBegin data < condEnd data := by
  unfold commentOut at h
  simp only [bind, Except.bind] at h
  split at h
  · exact absurd (ok_inj' h).symm h2
  · split at h
    · split at h
      · split at h
        · next hps =>
          simp only [Bool.and_eq_true] at hps
          split at h
          · next hlt => exact ⟨hps.1, hps.2, hlt⟩
          · exact absurd (ok_inj' h).symm h2
        · exact absurd (ok_inj' h).symm h2
      · split at h
        · exact absurd (ok_inj' h).symm h2
        · exact absurd (ok_inj' h).symm h1
    · exact absurd (ok_inj' h).symm h1

/-! ## the property -/

def opener : List Char := ['<', '!', '-', '-']
def endifTail : List Char := ['<', '!', '[', 'e', 'n', 'd', 'i', 'f', ']']

/-- **a comment written verbatim** (KeepComments; SSI comments, downlevel-revealed and malformed conditional comments
    under KeepSpecialComments).  Lexer contract: the token's bytes are `<!--` + text + (`-->` | `--!>`) and the text holds
    no `-->` / `--!>` (the lexer ends the token at the first one).  GUARD: the text does not start with `>` or `->`
    (K-C09-HTML-1: the lexer reads `<!-->` as an opener).  Then the bytes are exactly one comment token with that text and
    the tokenizer is back in the data state. -/
theorem html_comment_kept_closed (data text cl more : List Char) (hcl : Closer cl)
    (hd : data = opener ++ text ++ cl) (hc : hasClose text = false) (ha : abruptStart text = false)
    (m : M) (hs : m.s = .text) (hm : m.mode = .data) :
    runO m (data ++ more) = [.comment text] ++ runO m more ∧ runS m data = m := by
  subst hd
  exact comment_reads_back m hs hm text cl more ha hc hcl

/-- the decomposition that html.go computes for a downlevel-hidden conditional comment `<!--[` P `>` mid `<![endif]-->` -/
theorem cond_split (P mid inner : List Char) (hP : '>' ∉ P) :
    let data := opener ++ '[' :: P ++ '>' :: mid ++ endifTail ++ ['-', '-', '>']
    data.take (condBegin data) ++ inner ++ data.drop (condEnd data) =
      opener ++ ('[' :: P ++ '>' :: inner ++ endifTail) ++ ['-', '-', '>'] ∧
    (data.take (condEnd data)).drop (condBegin data) = mid := by
  intro data
  have htw : data.takeWhile (· != '>') = opener ++ '[' :: P := by
    have : data = (opener ++ '[' :: P) ++ ('>' :: (mid ++ endifTail ++ ['-', '-', '>'])) := by
      simp [data, opener, List.append_assoc]
    rw [this]
    apply Verif.Proofs.HtmlAttr.takeWhile_append_all
    · intro x hx
      simp only [opener, List.cons_append, List.nil_append, List.mem_cons] at hx
      rcases hx with e | e | e | e | e | hx
      all_goals first | (subst e; decide) | skip
      simp only [bne_iff_ne, ne_eq]; intro e; subst e; exact hP hx
    · intro d hd; simp only [List.head?_cons, Option.some.injEq] at hd; subst hd; decide
  have hb : condBegin data = (opener ++ '[' :: P ++ ['>']).length := by
    unfold condBegin; rw [htw]; simp only [List.length_append, List.length_cons, List.length_nil]
  have hlen : data.length = (opener ++ '[' :: P ++ '>' :: mid).length + 12 := by
    simp only [data, List.length_append, List.length_cons, List.length_nil, endifTail]
  have he : condEnd data = (opener ++ '[' :: P ++ '>' :: mid).length := by
    unfold condEnd; rw [hlen]; omega
  have d1 : data = (opener ++ '[' :: P ++ ['>']) ++ (mid ++ endifTail ++ ['-', '-', '>']) := by
    simp [data, opener, List.append_assoc]
  have d2 : data = (opener ++ '[' :: P ++ '>' :: mid) ++ (endifTail ++ ['-', '-', '>']) := by
    simp [data, opener, List.append_assoc]
  refine ⟨?_, ?_⟩
  · rw [hb, he]
    have t1 : data.take (opener ++ '[' :: P ++ ['>']).length = opener ++ '[' :: P ++ ['>'] := by
      conv => lhs; arg 2; rw [d1]
      exact List.take_left' rfl
    have t2 : data.drop (opener ++ '[' :: P ++ '>' :: mid).length = endifTail ++ ['-', '-', '>'] := by
      conv => lhs; arg 2; rw [d2]
      exact List.drop_left' rfl
    rw [t1, t2]
    simp [List.append_assoc]
  · rw [hb, he]
    have t3 : data.take (opener ++ '[' :: P ++ '>' :: mid).length = opener ++ '[' :: P ++ '>' :: mid := by
      conv => lhs; arg 2; rw [d2]
      exact List.take_left' rfl
    rw [t3]
    have : opener ++ '[' :: P ++ '>' :: mid = (opener ++ '[' :: P ++ ['>']) ++ mid := by simp [List.append_assoc]
    rw [this]; exact List.drop_left' rfl

/-- **a conditional comment whose inside was minified**: `<!--[P>` + inner + `<![endif]-->`.  Lexer contract on the head:
    `[P>` holds no `-->` / `--!>`; the recursive result `inner` holds no `-->` / `--!>` (html.go checks this since 3c66722
    and writes the original comment otherwise).  Then the bytes are one comment token with the data `[P>` + inner + `<![endif]`. -/
theorem html_cond_comment_closed (P inner more : List Char)
    (hcP : hasClose ('[' :: P ++ ['>']) = false) (hin : hasClose inner = false)
    (m : M) (hs : m.s = .text) (hm : m.mode = .data) :
    runO m (opener ++ ('[' :: P ++ '>' :: inner ++ endifTail) ++ ['-', '-', '>'] ++ more) =
      [.comment ('[' :: P ++ '>' :: inner ++ endifTail)] ++ runO m more ∧
    runS m (opener ++ ('[' :: P ++ '>' :: inner ++ endifTail) ++ ['-', '-', '>']) = m := by
  have hbody : hasClose ('[' :: P ++ '>' :: inner ++ endifTail) = false := by
    have h1 : hasClose (inner ++ endifTail) = false :=
      hasClose_append_lt inner _ hin (by decide)
    have := hasClose_append_gt ('[' :: P) (inner ++ endifTail) hcP h1
    simpa [List.append_assoc] using this
  exact comment_reads_back m hs hm _ _ more (by simp [abruptStart]) hbody .normal

/-- **the shape html.go establishes before it recurses**: a lexer-shaped comment token `<!--` text closer that starts with
    `<!--[if `, ends with `<![endif]-->` and has its first `>` early enough is `<!--[` P `>` mid `<![endif]-->` with `>` not in P -/
theorem cond_shape (data text cl : List Char) (hcl : Closer cl) (hd : data = opener ++ text ++ cl)
    (hp : (s "<!--[if ").isPrefixOf data = true) (hs : (s "<![endif]-->").isSuffixOf data = true)
    (hlt : condBegin data < condEnd data) :
    ∃ P mid, '>' ∉ P ∧ text = '[' :: P ++ '>' :: mid ++ endifTail ∧ cl = ['-', '-', '>'] := by
  obtain ⟨r1, hr1⟩ := List.isPrefixOf_iff_prefix.mp hp
  obtain ⟨T, hT⟩ := List.isSuffixOf_iff_suffix.mp hs
  have hsuf : s "<![endif]-->" = endifTail ++ ['-', '-', '>'] := by decide
  have hpre : s "<!--[if " = opener ++ ['[', 'i', 'f', ' '] := by decide
  -- the first `>`
  have hsplit := (List.takeWhile_append_dropWhile (p := (· != '>')) (l := data)).symm
  have hlenT : data.length = T.length + 12 := by rw [← hT, List.length_append, hsuf]; rfl
  unfold condBegin condEnd at hlt
  rw [hlenT] at hlt
  simp only [Nat.add_sub_cancel] at hlt
  cases hR : data.dropWhile (· != '>') with
  | nil =>
    rw [hR, List.append_nil] at hsplit
    have : data.length = (data.takeWhile (· != '>')).length := by rw [← hsplit]
    omega
  | cons d R =>
    have hdgt : d = '>' := by
      have := Verif.Proofs.HtmlAttr.dropWhile_head _ _ _ _ hR
      simpa using this
    subst hdgt
    rw [hR] at hsplit
    -- T begins with takeWhile ++ ">"
    have e : data.takeWhile (· != '>') ++ '>' :: R = T ++ s "<![endif]-->" := by rw [← hsplit, hT]
    have e' : (data.takeWhile (· != '>') ++ ['>']) ++ R = T ++ s "<![endif]-->" := by simpa using e
    rcases List.append_eq_append_iff.mp e' with ⟨mid, hTm, _⟩ | ⟨c', hc', _⟩
    · -- the head
      have htw : data.takeWhile (· != '>') = opener ++ '[' :: ('i' :: 'f' :: ' ' :: r1.takeWhile (· != '>')) := by
        rw [← hr1, hpre, List.append_assoc]
        rw [List.takeWhile_append_of_pos (by intro a ha; simp only [opener, List.mem_cons] at ha; rcases ha with e | e | e | e | e <;> first | (subst e; decide) | (cases e))]
        rw [show (['[', 'i', 'f', ' '] ++ r1) = ['[', 'i', 'f', ' '] ++ r1 from rfl]
        rw [List.takeWhile_append_of_pos (by intro a ha; simp only [List.mem_cons] at ha; rcases ha with e | e | e | e | e <;> first | (subst e; decide) | (cases e))]
        simp
      refine ⟨'i' :: 'f' :: ' ' :: r1.takeWhile (· != '>'), mid, ?_, ?_⟩
      · intro hmem
        have hall := Verif.Proofs.HtmlAttr.takeWhile_all (· != '>') data '>' (by rw [htw]; simp [hmem])
        simp at hall
      · -- compare the two decompositions of data
        have hdata : data = opener ++ ('[' :: ('i' :: 'f' :: ' ' :: r1.takeWhile (· != '>')) ++ '>' :: mid ++ endifTail ++ ['-', '-', '>']) := by
          rw [← hT, hTm, htw, hsuf]; simp [List.append_assoc]
        rw [hd, List.append_assoc] at hdata
        have hrest := List.append_cancel_left hdata
        cases hcl with
        | normal =>
          have : text = '[' :: ('i' :: 'f' :: ' ' :: r1.takeWhile (· != '>')) ++ '>' :: mid ++ endifTail :=
            List.append_cancel_right hrest
          exact ⟨this, rfl⟩
        | bang =>
          exfalso
          have h4 : endifTail ++ ['-', '-', '>'] = ['<', '!', '[', 'e', 'n', 'd', 'i', 'f'] ++ [']', '-', '-', '>'] := by decide
          rw [List.append_assoc ('[' :: _ ++ _), h4, ← List.append_assoc] at hrest
          have := (List.append_inj' hrest rfl).2
          revert this; decide
    · exfalso
      have : (data.takeWhile (· != '>') ++ ['>']).length = (T ++ c').length := by rw [hc']
      simp only [List.length_append, List.length_cons, List.length_nil] at this
      omega

/-- the full statement: every comment the model writes for a lexer-shaped comment token is one comment token -/
def html_comment_closed_full : Prop :=
  ∀ (o : Opts) (ext : Ext) (data text out cl : List Char), Closer cl → data = opener ++ text ++ cl →
    hasClose text = false → commentOut o ext data text = .ok out → out ≠ [] →
    ∃ body, runO {} out = [.comment body]

/-- the same with one comment body for all tokenizer contexts -/
theorem html_comment_closed_uniform (o : Opts) (ext : Ext) (data text out cl : List Char) (hcl : Closer cl)
    (hd : data = opener ++ text ++ cl) (hc : hasClose text = false)
    (h : commentOut o ext data text = .ok out) (hne : out ≠ [])
    (ha : abruptStart text = false) :
    ∃ body, ∀ (m : M) (more : List Char), m.s = .text → m.mode = .data →
      runO m (out ++ more) = [.comment body] ++ runO m more ∧ runS m out = m := by
  rcases commentOut_cases o ext data text out h with e | e | ⟨inner, hin, hnc, e⟩
  · exact absurd e hne
  · subst e; exact ⟨text, fun m more hs hm => html_comment_kept_closed _ text cl more hcl hd hc ha m hs hm⟩
  · by_cases hod : out = data
    · rw [hod]; exact ⟨text, fun m more hs hm => html_comment_kept_closed _ text cl more hcl hd hc ha m hs hm⟩
    · obtain ⟨hp, hs', hlt⟩ := commentOut_rec o ext data text out h hne hod
      obtain ⟨P, mid, hP, ht, hcl'⟩ := cond_shape data text cl hcl hd hp hs' hlt
      subst hcl'
      have hdata : data = opener ++ '[' :: P ++ '>' :: mid ++ endifTail ++ ['-', '-', '>'] := by
        rw [hd, ht]; simp [List.append_assoc]
      have hsp := cond_split P mid inner hP
      simp only at hsp
      rw [← hdata] at hsp
      rw [e, hsp.1]
      have hcP : hasClose ('[' :: P ++ ['>']) = false := by
        have : text = ('[' :: P ++ ['>']) ++ (mid ++ endifTail) := by rw [ht]; simp [List.append_assoc]
        rw [this] at hc
        exact hasClose_prefix _ _ hc
      exact ⟨_, fun m more hs hm => html_cond_comment_closed P inner more hcP
        (Verif.Proofs.C09HtmlRelex.hasClose_of_bytesContain inner hnc) m hs hm⟩

/-- **html_comment_closed_partial.**  For every option set, external-result table and comment token of the lexer's shape
    (`<!--` text `-->` / `--!>`, no closer inside the text): whatever the model writes for it (`commentOut`: nothing;
    the bytes; or, for `<!--[P>mid<![endif]-->` under KeepSpecialComments, head + recursively minified inside + tail) is
    exactly ONE comment token of the HTML standard, after which the tokenizer is in the data state again — under the
    GUARD that the text does not start with `>` / `->` (K-C09-HTML-1).  No hypothesis about the recursive result is
    needed any more: since 3c66722 html.go writes the original comment when the minified inside holds `-->` / `--!>`
    (K-C09-HTML-3 fixed).  The shape `<!--[P>mid<![endif]-->` with `>` not in `P`
    that the recursion branch needs follows from html.go's own tests (`HasPrefix "<!--[if "`, `HasSuffix "<![endif]-->"`,
    `begin < end`): `cond_shape`. -/
theorem html_comment_closed_partial (o : Opts) (ext : Ext) (data text out cl more : List Char) (hcl : Closer cl)
    (hd : data = opener ++ text ++ cl) (hc : hasClose text = false)
    (h : commentOut o ext data text = .ok out) (hne : out ≠ [])
    (ha : abruptStart text = false)
    (m : M) (hs : m.s = .text) (hm : m.mode = .data) :
    ∃ body, runO m (out ++ more) = [.comment body] ++ runO m more ∧ runS m out = m := by
  obtain ⟨body, hb⟩ := html_comment_closed_uniform o ext data text out cl hcl hd hc h hne ha
  exact ⟨body, hb m more hs hm⟩

/-- **html_comment_closed_counterexample** (K-C09-HTML-1): the lexer's token `<!-->x-->` (text `>x`) is written verbatim
    under KeepComments and is NOT one comment token: the standard reads `<!-->` as an empty comment and `x-->` as text. -/
theorem html_comment_closed_counterexample : ¬ html_comment_closed_full := by
  intro h
  obtain ⟨body, hb⟩ := h { keepComments := true } [] "<!-->x-->".toList ">x".toList "<!-->x-->".toList
    ['-', '-', '>'] .normal (by decide) (by decide) rfl (by decide)
  have : runO {} "<!-->x-->".toList =
      [.comment [], .char 'x' true, .char '-' true, .char '-' true, .char '>' true] := by decide
  rw [this] at hb
  cases hb

/-- non-vacuity: a conditional comment with markup and `--` inside, kept with its inside minified -/
example :
    let data := "<!--[if lt IE 9]><p title=\"a -- b\"> x </p><![endif]-->".toList
    let ext : Ext := [("html".toList, "<p title=\"a -- b\"> x </p>".toList, "<p title=\"a -- b\">x".toList)]
    commentOut { keepSpecialComments := true } ext data ((data.drop 4).take (data.length - 7)) =
      .ok "<!--[if lt IE 9]><p title=\"a -- b\">x<![endif]-->".toList ∧
    tokens false "<!--[if lt IE 9]><p title=\"a -- b\">x<![endif]-->".toList =
      [.comment "[if lt IE 9]><p title=\"a -- b\">x<![endif]".toList] := by
  decide +kernel

end Verif.Proofs.C09HtmlComment

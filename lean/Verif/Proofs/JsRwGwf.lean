import Verif.Proofs.JsPrintGwf
set_option linter.unusedSimpArgs false
set_option linter.unnecessarySimpa false
/-!
# C01-A — the rewrites re-parenthesise correctly (`RwOk (optNode g v)`)

`optimizeUnaryExpr` / `optimizeCondExpr` build new nodes; wherever an operand moves to a new position the Go code wraps
it with `groupExpr(·, prec of the position)`.  Here: every result satisfies the input condition of the printer again
(`wfGo`: each child is a group or has the precedence its position requires) and fits the context the original node
fitted — so `minGen_gwf` applies to the traversal with rewrites (`minE`), not only to the printer alone.
-/
namespace Verif.Proofs.JsRwGwf
open Verif.Spec.JsSyntax Verif.Spec.JsGrammar Verif.Model.JsAst Verif.Model.JsOpt Verif.Model.JsPrint
open Verif.Spec.JsSyntax.E
open Verif.Proofs.JsSemLemmas (E.ind snoc_of_getLast?)
open Verif.Proofs.JsPrintGwf

/-! ## table facts -/

theorem t_lo : BOp.land.left = 4 ∧ BOp.land.right = 4 ∧ BOp.land.prec = 4 ∧ BOp.lor.left = 3 ∧ BOp.lor.right = 3 ∧
    BOp.lor.prec = 3 ∧ BOp.nullish.left = 5 ∧ BOp.nullish.right = 5 ∧ BOp.nullish.prec = 2 ∧ opEquals = 8 ∧
    UOp.not.argPrec = 14 ∧ UOp.not.prec = 14 ∧ opLeft .land = 4 ∧ opLeft .lor = 3 := by decide

theorem t_invert (o : BOp) (h : o.prec = opEquals) : (invertOp o).left = o.left ∧ (invertOp o).right = o.right ∧
    (invertOp o).prec = o.prec ∧ opLeft (invertOp o) = opLeft o := by
  have : ∀ o ∈ BOp.all, o.prec = opEquals → (invertOp o).left = o.left ∧ (invertOp o).right = o.right ∧
    (invertOp o).prec = o.prec ∧ opLeft (invertOp o) = opLeft o := by decide
  exact this o (BOp.mem_all o) h

theorem t_uprec (o : UOp) : 14 ≤ o.prec := by
  have : ∀ o ∈ UOp.all, 14 ≤ o.prec := by decide
  exact this o (UOp.mem_all o)

/-! ## `groupExpr` -/

theorem fits_groupExpr (e : E) (p : Prec) : FitsIn p (groupExpr e p) = true := by
  unfold groupExpr
  split
  · simp [FitsIn, E.isGroup]
  · rename_i h
    simp only [FitsIn]
    cases hg : e.isGroup
    · simp [hg] at h ⊢
      by_cases hp : p ≤ e.prec
      · left; exact hp
      · right; exact (h (by pomega)).symm
    · simp

theorem wfGo_groupExpr (e : E) (p : Prec) : wfGo (groupExpr e p) = wfGo e := by
  unfold groupExpr
  split <;> simp [wfGo]

theorem fits_group (p : Prec) (e : E) : FitsIn p (.group e) = true := by simp [FitsIn, E.isGroup]

theorem fits_of_le {p : Prec} {e : E} (h : p ≤ e.prec) : FitsIn p e = true := by
  simp [FitsIn]; left; right; exact h

theorem leftFits_of_fits {op : BOp} {x : E} (h : FitsIn op.left x = true) : leftFits op x = true := by
  simp [leftFits, h]

/-- a position asking for less (other than the special `|` position) is fitted too -/
theorem fits_mono {p q : Prec} {e : E} (h : FitsIn q e = true) (hpq : p ≤ q) (hq : q ≠ 5 ∨ p ≤ 2) : FitsIn p e = true := by
  simp only [FitsIn, Bool.or_eq_true, decide_eq_true_eq, Bool.and_eq_true, beq_iff_eq] at h ⊢
  have c := consts
  rcases h with (h | h) | ⟨h1, h2⟩
  · left; left; exact h
  · left; right; pomega
  · left; right
    rcases hq with hq | hq
    · exact absurd (by rw [h1, c.2.2.2.1]) hq
    · rw [h2, c.2.2.1]; exact hq

/-! ## `optimizeUnaryExpr` -/

theorem stripNots_wf (x : E) (inv : Bool) (h : wfGo x = true) : wfGo (stripNots x inv).1 = true := by
  induction x using E.ind generalizing inv with
  | hun op x ih =>
    cases op <;> simp only [stripNots] <;> try exact h
    apply ih
    simp only [wfGo, Bool.and_eq_true] at h
    exact h.2
  | hgroup x ih => simp only [stripNots]; apply ih; simpa [wfGo] using h
  | _ => simp only [stripNots]; exact h

theorem wf_invert (o : BOp) (a b : E) (ho : o.prec = opEquals) (h : wfGo (.bin o a b) = true) :
    wfGo (.bin (invertOp o) a b) = true := by
  obtain ⟨h1, h2, _, h4⟩ := t_invert o ho
  simpa only [wfGo, leftFits, h1, h2, h4] using h

theorem prec_invert (o : BOp) (a b : E) (ho : o.prec = opEquals) : (E.bin (invertOp o) a b).prec = 8 := by
  simp only [E.prec, (t_invert o ho).2.2.1, ho, t_lo.2.2.2.2.2.2.2.2.2.1]

/-- the negated operand of the De Morgan rewrite is a well-formed operand of `&&` / `||` -/
theorem negOperand_ok (x : E) (lim : Prec) (hw : wfGo x = true) (hg : x.isGroup = true ∨ lim ≤ x.prec) :
    wfGo (negOperand x (!isEqOperand x && decide (lim ≤ x.prec) && decide (x.prec < opUnary))) = true ∧
    8 ≤ (negOperand x (!isEqOperand x && decide (lim ≤ x.prec) && decide (x.prec < opUnary))).prec := by
  unfold negOperand
  cases he : isEqOperand x
  · simp only [Bool.false_eq_true, if_false, Bool.not_false, Bool.true_and]
    have c := consts
    have tl := t_lo
    refine ⟨?_, by simp only [E.prec]; rw [tl.2.2.2.2.2.2.2.2.2.2.2.1]; pomega⟩
    simp only [wfGo, Bool.and_eq_true]
    split
    · exact ⟨fits_group _ _, by simpa [wfGo] using hw⟩
    · rename_i hng
      refine ⟨?_, hw⟩
      rcases hg with hg | hg
      · simp [FitsIn, hg]
      · apply fits_of_le
        simp only [Bool.and_eq_true, decide_eq_true_eq, not_and] at hng
        have := hng hg
        rw [tl.2.2.2.2.2.2.2.2.2.2.1]
        rw [c.2.2.2.2.1] at this
        pomega
  · simp only [if_true]
    cases x with
    | bin o a b =>
      have ho : o.prec = opEquals := by simpa [isEqOperand] using he
      exact ⟨wf_invert o a b ho hw, by rw [prec_invert o a b ho]; pomega⟩
    | _ => simp [isEqOperand] at he

theorem dualOp_cases (bop : BOp) : dualOp bop = .land ∨ dualOp bop = .lor := by
  unfold dualOp; split <;> simp

theorem deMorganBuild_eq (bop : BOp) (x y : E) (p : Prec) :
    deMorganBuild bop x y p = groupExpr (.bin (dualOp bop)
      (negOperand x (!isEqOperand x && decide (bop.left ≤ x.prec) && decide (x.prec < opUnary)))
      (negOperand y (!isEqOperand y && decide (bop.right ≤ y.prec) && decide (y.prec < opUnary)))) p := by
  simp only [deMorganBuild, groupExpr, E.isGroup, E.prec, Bool.not_false, Bool.true_and]
  split <;> split <;> simp_all
  rename_i h1 h2
  have h3 := h1 (of_decide_eq_true h2.1)
  rcases h2.2 with h | h
  · exact h h3.1
  · exact h h3.2

theorem deMorgan_ok (bop : BOp) (x y : E) (p : Prec) (hb : bop = .land ∨ bop = .lor)
    (hw : wfGo (.bin bop x y) = true) : wfGo (deMorganBuild bop x y p) = true ∧ FitsIn p (deMorganBuild bop x y p) = true := by
  rw [deMorganBuild_eq]
  refine ⟨?_, fits_groupExpr _ _⟩
  rw [wfGo_groupExpr]
  simp only [wfGo, Bool.and_eq_true] at hw
  obtain ⟨⟨⟨hl, hr⟩, hwx⟩, hwy⟩ := hw
  have tl := t_lo
  have hgx : x.isGroup = true ∨ bop.left ≤ x.prec := by
    simp only [leftFits, FitsIn, Bool.or_eq_true, Bool.and_eq_true, decide_eq_true_eq, beq_iff_eq, Bool.not_eq_true'] at hl
    have c := consts
    rcases hb with hb | hb <;> subst hb
    · rcases hl with ((h | h) | ⟨h, _⟩) | ⟨_, h⟩
      · exact Or.inl h
      · exact Or.inr h
      · rw [tl.1, c.2.2.2.1] at h; pomega
      · right; rw [tl.1]; rw [tl.2.2.2.2.2.2.2.2.2.2.2.2.1] at h; exact h
    · rcases hl with ((h | h) | ⟨h, _⟩) | ⟨_, h⟩
      · exact Or.inl h
      · exact Or.inr h
      · rw [tl.2.2.2.1, c.2.2.2.1] at h; pomega
      · right; rw [tl.2.2.2.1]; rw [tl.2.2.2.2.2.2.2.2.2.2.2.2.2] at h; exact h
  have hgy : y.isGroup = true ∨ bop.right ≤ y.prec := by
    simp only [FitsIn, Bool.or_eq_true, Bool.and_eq_true, decide_eq_true_eq, beq_iff_eq] at hr
    have c := consts
    rcases hr with (h | h) | ⟨h, _⟩
    · exact Or.inl h
    · exact Or.inr h
    · rcases hb with hb | hb <;> subst hb
      · rw [tl.2.1, c.2.2.2.1] at h; pomega
      · rw [tl.2.2.2.2.1, c.2.2.2.1] at h; pomega
  obtain ⟨wx, px⟩ := negOperand_ok x bop.left hwx hgx
  obtain ⟨wy, py⟩ := negOperand_ok y bop.right hwy hgy
  simp only [wfGo, Bool.and_eq_true]
  refine ⟨⟨⟨leftFits_of_fits (fits_of_le ?_), fits_of_le ?_⟩, wx⟩, wy⟩
  · rcases dualOp_cases bop with h | h <;> rw [h]
    · rw [tl.1]; pomega
    · rw [tl.2.2.2.1]; pomega
  · rcases dualOp_cases bop with h | h <;> rw [h]
    · rw [tl.2.1]; pomega
    · rw [tl.2.2.2.2.1]; pomega

theorem optNotCore_ok (e2 : E) (invert : Bool) (p : Prec) (orig : E) (h2 : wfGo e2 = true) (ho : wfGo orig = true) :
    wfGo (optNotCore e2 invert p orig) = true ∧ (FitsIn p orig = true → FitsIn p (optNotCore e2 invert p orig) = true) := by
  unfold optNotCore
  by_cases hc : (!invert && isBooleanExpr e2) = true
  · rw [if_pos hc]
    exact ⟨by rw [wfGo_groupExpr]; exact h2, fun _ => fits_groupExpr _ _⟩
  · rw [if_neg hc]
    cases e2 with
    | bin bop a b =>
      simp only []
      by_cases hi : invert = true
      · rw [if_pos hi]
        by_cases hq' : (bop.prec == opEquals) = true
        · rw [if_pos hq']
          have hq : bop.prec = opEquals := by simpa using hq'
          exact ⟨by rw [wfGo_groupExpr]; exact wf_invert bop a b hq h2, fun _ => fits_groupExpr _ _⟩
        · rw [if_neg hq']
          by_cases hb : (bop == .land || bop == .lor) = true
          · rw [if_pos hb]
            have hb' : bop = .land ∨ bop = .lor := by simpa using hb
            unfold deMorgan
            by_cases hs : 0 < deMorganScore bop a b p
            · simp only [if_pos hs]
              have := deMorgan_ok bop a b p hb' h2
              exact ⟨this.1, fun _ => this.2⟩
            · simp only [if_neg hs]
              exact ⟨ho, id⟩
          · rw [if_neg hb]; exact ⟨ho, id⟩
      · rw [if_neg hi]; exact ⟨ho, id⟩
    | _ => exact ⟨ho, id⟩

theorem optUnary_ok (op : UOp) (x : E) (p : Prec) (hw : wfGo (.unary op x) = true) :
    wfGo (optUnary op x p) = true ∧ (FitsIn p (.unary op x) = true → FitsIn p (optUnary op x p) = true) := by
  unfold optUnary
  split
  · apply optNotCore_ok _ _ _ _ _ hw
    apply stripNots_wf
    simp only [wfGo, Bool.and_eq_true] at hw
    exact hw.2
  · exact ⟨hw, id⟩

/-! ## `optimizeBooleanExpr` -/

theorem fits_unary_not (p : Prec) (x : E) (hp : p ≤ 14) : FitsIn p (.unary .not x) = true := by
  apply fits_of_le
  simp only [E.prec]
  rw [t_lo.2.2.2.2.2.2.2.2.2.2.2.1]; exact hp

theorem wf_not_group (e : E) (h : wfGo e = true) : wfGo (.unary .not (groupExpr e opUnary)) = true := by
  simp only [wfGo, Bool.and_eq_true]
  rw [wfGo_groupExpr, t_lo.2.2.2.2.2.2.2.2.2.2.1]
  have := fits_groupExpr e opUnary
  rw [consts.2.2.2.2.1] at this
  exact ⟨this, h⟩

theorem optBool_ok (e : E) (invert : Bool) (p : Prec) (hw : wfGo e = true) :
    wfGo (optBool e invert p) = true ∧ (p ≤ 8 → FitsIn p (optBool e invert p) = true) := by
  have hnot : wfGo (optUnary .not (groupExpr e opUnary) p) = true ∧
      (p ≤ 8 → FitsIn p (optUnary .not (groupExpr e opUnary) p) = true) := by
    have := optUnary_ok .not (groupExpr e opUnary) p (wf_not_group e hw)
    exact ⟨this.1, fun hp => this.2 (fits_unary_not p _ (by pomega))⟩
  unfold optBool
  by_cases hi : invert = true
  · rw [if_pos hi]
    cases e with
    | bin op a b =>
      simp only []
      by_cases hq' : (op.prec == opEquals) = true
      · rw [if_pos hq']
        have hq : op.prec = opEquals := by simpa using hq'
        exact ⟨wf_invert op a b hq hw, fun hp => fits_of_le (by rw [prec_invert op a b hq]; exact hp)⟩
      · rw [if_neg hq']; exact hnot
    | _ => exact hnot
  · rw [if_neg hi]
    by_cases hb : isBooleanExpr e = true
    · rw [if_pos hb]
      exact ⟨by rw [wfGo_groupExpr]; exact hw, fun _ => fits_groupExpr _ _⟩
    · rw [if_neg hb]
      refine ⟨?_, fun hp => fits_unary_not p _ (by pomega)⟩
      have h1 := wf_not_group e hw
      simp only [wfGo, Bool.and_eq_true] at h1 ⊢
      refine ⟨fits_of_le ?_, h1⟩
      simp only [E.prec]
      rw [t_lo.2.2.2.2.2.2.2.2.2.2.1, t_lo.2.2.2.2.2.2.2.2.2.2.2.1]
      pomega

/-! ## `optimizeCondExpr` -/

theorem wfGoItems_append (a b : List E) : wfGoItems (a ++ b) = (wfGoItems a && wfGoItems b) := by
  induction a with
  | nil => simp [wfGoItems]
  | cons x t ih => simp [wfGoItems, ih, Bool.and_assoc]

/-- the hypotheses on the three parts of a (normalised) conditional -/
structure CondIn (c x y : E) : Prop where
  fc : FitsIn opCoalesce c = true
  fx : FitsIn opAssign x = true
  fy : FitsIn opAssign y = true
  wc : wfGo c = true
  wx : wfGo x = true
  wy : wfGo y = true

theorem wf_cond {c x y : E} (h : CondIn c x y) : wfGo (.cond c x y) = true := by
  simp [wfGo, h.fc, h.fx, h.fy, h.wc, h.wx, h.wy]

theorem fits_low {p : Prec} {e : E} (h : FitsIn opAssign e = true) (hp : p ≤ 1) : FitsIn p e = true := by
  have c := consts
  exact fits_mono h (by rw [c.2.1]; exact hp) (Or.inl (by rw [c.2.1]; pomega))

theorem nestedCond_ok (c x y r : E) (h : CondIn c x y) (hr : nestedCond c x y = some r) :
    wfGo r = true ∧ 1 ≤ r.prec := by
  unfold nestedCond at hr
  cases x with
  | cond c2 x2 y2 =>
    simp only [] at hr
    split at hr
    · simp at hr
      subst hr
      have hx := h.wx
      simp only [wfGo, Bool.and_eq_true] at hx
      obtain ⟨⟨⟨⟨⟨f2, fx2⟩, _⟩, w2⟩, wx2⟩, _⟩ := hx
      have tl := t_lo
      have c := consts
      refine ⟨?_, by simp only [E.prec]; rw [c.2.1]; pomega⟩
      simp only [wfGo, Bool.and_eq_true, wfGo_groupExpr]
      refine ⟨⟨⟨⟨⟨fits_of_le ?_, fx2⟩, h.fy⟩, ⟨⟨⟨leftFits_of_fits (fits_groupExpr _ _), fits_groupExpr _ _⟩, h.wc⟩, w2⟩⟩, wx2⟩, h.wy⟩
      simp only [E.prec]; rw [tl.2.2.1, c.2.2.1]; pomega
    · simp at hr
  | _ => simp at hr

theorem lastD_ok (l : List E) (c : E) (hl : wfGoItems l = true) (hc : wfGo c = true) : wfGo (lastD l c) = true := by
  unfold lastD
  cases hg : l.getLast? with
  | none => simpa using hc
  | some a =>
    simp only [Option.getD_some]
    exact (wfGoItems_mem l hl a (List.mem_of_getLast? hg)).2

theorem commaCond_ok (c x y : E) (p : Prec) (h : CondIn c x y) :
    wfGo (commaCond c x y p) = true ∧ (p ≤ 1 → FitsIn p (commaCond c x y p) = true) := by
  have c0 := consts
  have hid : wfGo (.cond c x y) = true ∧ (p ≤ 1 → FitsIn p (.cond c x y) = true) :=
    ⟨wf_cond h, fun hp => fits_of_le (by simp only [E.prec]; rw [c0.2.1]; exact hp)⟩
  unfold commaCond
  by_cases hp0 : p ≤ opExpr
  · rw [if_pos hp0]
    cases c with
    | group g =>
      cases g with
      | comma l =>
        simp only []
        by_cases hl : opCoalesce ≤ (lastD l (.group (.comma l))).prec
        · rw [if_pos hl]
          have hwc := h.wc
          simp only [wfGo, Bool.and_eq_true, decide_eq_true_eq] at hwc
          refine ⟨?_, fun _ => fits_of_le (by rw [c0.1] at hp0; pomega)⟩
          simp only [wfGo, Bool.and_eq_true, decide_eq_true_eq, wfGoItems_append, wfGoItems]
          refine ⟨?_, wfGoItems_dropLast l hwc.2, ⟨?_, ?_⟩, trivial⟩
          · simp only [List.length_append, List.length_dropLast, List.length_cons, List.length_nil]; omega
          · apply fits_of_le; simp only [E.prec]; rw [c0.2.1]; pomega
          · refine ⟨⟨⟨⟨⟨fits_of_le hl, h.fx⟩, h.fy⟩, lastD_ok l _ hwc.2 h.wc⟩, h.wx⟩, h.wy⟩
        · rw [if_neg hl]; exact hid
      | _ => exact hid
    | _ => exact hid
  · rw [if_neg hp0]; exact hid

theorem optCondTail_ok (c x y : E) (p : Prec) (h : CondIn c x y) :
    wfGo (optCondTail c x y p) = true ∧ (p ≤ 1 → FitsIn p (optCondTail c x y p) = true) := by
  have tl := t_lo
  unfold optCondTail
  simp only []
  split
  · have := optBool_ok c (isFalse x) p h.wc
    exact ⟨this.1, fun hp => this.2 (by pomega)⟩
  · split
    · refine ⟨?_, fun hp => fits_of_le (by simp only [E.prec]; rw [tl.2.2.2.2.2.1]; pomega)⟩
      have := optBool_ok c (isTrue y) BOp.lor.left h.wc
      simp only [wfGo, Bool.and_eq_true, wfGo_groupExpr]
      refine ⟨⟨⟨leftFits_of_fits (this.2 (by rw [tl.2.2.2.1]; pomega)), fits_groupExpr _ _⟩, this.1⟩, ?_⟩
      split
      · exact h.wx
      · exact h.wy
    · split
      · refine ⟨?_, fun hp => fits_of_le (by simp only [E.prec]; rw [tl.2.2.1]; pomega)⟩
        have := optBool_ok c (isFalse x) BOp.land.left h.wc
        simp only [wfGo, Bool.and_eq_true, wfGo_groupExpr]
        refine ⟨⟨⟨leftFits_of_fits (this.2 (by rw [tl.1]; pomega)), fits_groupExpr _ _⟩, this.1⟩, ?_⟩
        split
        · exact h.wy
        · exact h.wx
      · cases hn : nestedCond c x y with
        | some r =>
          simp only []
          have := nestedCond_ok c x y r h hn
          exact ⟨this.1, fun hp => fits_of_le (by pomega)⟩
        | none => simp only []; exact commaCond_ok c x y p h

theorem nullishNode_ok (a b : E) (wa : wfGo a = true) (wb : wfGo b = true) :
    wfGo (.bin .nullish (groupExpr a BOp.nullish.left) (groupExpr b BOp.nullish.right)) = true ∧
    (E.bin .nullish (groupExpr a BOp.nullish.left) (groupExpr b BOp.nullish.right)).prec = 2 := by
  refine ⟨?_, by simp only [E.prec]; exact t_lo.2.2.2.2.2.2.2.2.1⟩
  simp only [wfGo, Bool.and_eq_true, wfGo_groupExpr]
  exact ⟨⟨⟨leftFits_of_fits (fits_groupExpr _ _), fits_groupExpr _ _⟩, wa⟩, wb⟩

theorem chainBase_eq (e : E) : (chainBase e).1 = e.chainRoot ∧ (chainBase e).2 = e.isLink := by
  induction e using E.ind with
  | hcall f args ih _ => exact ⟨by simp only [chainBase, E.chainRoot]; exact ih.1, rfl⟩
  | hdot x n ih => exact ⟨by simp only [chainBase, E.chainRoot]; exact ih.1, rfl⟩
  | hindex x y ih _ => exact ⟨by simp only [chainBase, E.chainRoot]; exact ih.1, rfl⟩
  | _ => exact ⟨rfl, rfl⟩

theorem isEqualExpr_var (v : String) (r : E) (h : isEqualExpr (.var v) r = true) : r.inner = .var v := by
  unfold isEqualExpr at h
  simp only [E.inner] at h
  split at h
  · rename_i x y hx hy
    injection hx with hx
    have : x = y := by simpa using h
    subst hx this
    exact hy
  · cases h

/-- the chain of `a==null?undefined:a.b.c ⇒ a?.b.c` is a chain on the tested variable -/
theorem optChain_ok (v : String) (right : E) (hw : wfGo right = true)
    (h : ((chainBase right).2 && isEqualExpr (.var v) (chainBase right).1) = true) :
    wfGo (.opt v right) = true ∧ 2 ≤ (E.opt v right).prec := by
  simp only [Bool.and_eq_true] at h
  obtain ⟨h1, h2⟩ := chainBase_eq right
  rw [h1] at h
  rw [h2] at h
  have hin := isEqualExpr_var v _ h.2
  have hcv : right.chainVar? = some v := by
    simp only [E.chainVar?, h.1, if_true, E.rootVar?, hin]
  refine ⟨by simp only [wfGo, Bool.and_eq_true, beq_iff_eq]; exact ⟨hcv, hw⟩, ?_⟩
  have := prec_link right h.1
  simp only [E.prec]
  pomega

theorem toNullish_ok (c x y r : E) (h : CondIn c x y) (hr : toNullish c x y = .yes r) : wfGo r = true ∧ 2 ≤ r.prec := by
  have two : ∀ a b, wfGo a = true → wfGo b = true →
      wfGo (.bin .nullish (groupExpr a BOp.nullish.left) (groupExpr b BOp.nullish.right)) = true ∧
      2 ≤ (E.bin .nullish (groupExpr a BOp.nullish.left) (groupExpr b BOp.nullish.right)).prec := by
    intro a b wa wb
    have := nullishNode_ok a b wa wb
    exact ⟨this.1, by rw [this.2]; exact Nat.le_refl _⟩
  unfold toNullish at hr
  cases hi : isUndefinedOrNullVar c with
  | none => simp [hi] at hr
  | some vn =>
    obtain ⟨v, neg⟩ := vn
    simp only [hi] at hr
    have fin : ∀ left right : E, wfGo right = true →
        (if isUndefined left = true then
          (if ((chainBase right).2 && isEqualExpr (.var v) (chainBase right).1) = true then
            (if (v == "undefined" || v == "NaN") = true then Nullish.unmodelled else .yes (.opt v right))
           else .no)
         else Nullish.no) = .yes r → wfGo r = true ∧ 2 ≤ r.prec := by
      intro left right hwr hq
      by_cases hu : isUndefined left = true
      · rw [if_pos hu] at hq
        by_cases hcb : ((chainBase right).2 && isEqualExpr (.var v) (chainBase right).1) = true
        · rw [if_pos hcb] at hq
          by_cases hbad : (v == "undefined" || v == "NaN") = true
          · rw [if_pos hbad] at hq; cases hq
          · rw [if_neg hbad] at hq
            injection hq with hq; subst hq
            exact optChain_ok v right hwr hcb
        · rw [if_neg hcb] at hq; cases hq
      · rw [if_neg hu] at hq; cases hq
    cases neg
    · simp only [Bool.false_eq_true, if_false] at hr
      by_cases h1 : isEqualExpr (var v) y = true
      · rw [if_pos h1] at hr; injection hr with hr; subst hr
        exact two y x h.wy h.wx
      · rw [if_neg h1] at hr
        exact fin x y h.wy hr
    · simp only [if_true] at hr
      by_cases h1 : isEqualExpr (var v) x = true
      · rw [if_pos h1] at hr; injection hr with hr; subst hr
        exact two x y h.wx h.wy
      · rw [if_neg h1] at hr
        exact fin y x h.wx hr

theorem callMerge_ok (c x y r : E) (h : CondIn c x y) (hr : callMerge c x y = some r) : wfGo r = true ∧ r.prec = 17 := by
  unfold callMerge at hr
  split at hr
  · rename_i fx ax fy ay
    split at hr
    · injection hr with hr
      subst hr
      have c0 := consts
      refine ⟨?_, by simp only [E.prec]; exact c0.2.2.2.2.2.1⟩
      have hx := h.wx
      have hy := h.wy
      simp only [wfGo, wfGoItems, Bool.and_eq_true, Bool.and_true] at hx hy ⊢
      refine ⟨⟨hx.1.1, hx.1.2⟩, fits_of_le (by simp only [E.prec]; pomega), ⟨⟨⟨⟨h.fc, hx.2.1⟩, hy.2.1⟩, h.wc⟩, hx.2.2⟩, hy.2.2⟩
    · cases hr
  · cases hr

theorem selfGuard_fits (q : Prec) (y : E) (_hq : q = 3 ∨ q = 4) (hf : FitsIn opAssign y = true)
    (hg : (decide (y.prec < opAssign) || decide (q ≤ y.prec)) = true) : FitsIn q y = true := by
  have c := consts
  simp only [Bool.or_eq_true, decide_eq_true_eq] at hg
  rcases hg with hg | hg
  · simp only [FitsIn, Bool.or_eq_true, decide_eq_true_eq, Bool.and_eq_true, beq_iff_eq] at hf ⊢
    rcases hf with (hf | hf) | ⟨hf, _⟩
    · left; left; exact hf
    · pomega
    · rw [c.2.1, c.2.2.2.1] at hf; pomega
  · exact fits_of_le hg

theorem optCondN_ok (g v : Bool) (c x y : E) (p : Prec) (r : E) (h : CondIn c x y)
    (hr : optCondN g v c x y p = some r) : wfGo r = true ∧ (p ≤ 1 → FitsIn p r = true) := by
  have tl := t_lo
  have c0 := consts
  unfold optCondN at hr
  split at hr
  · injection hr with hr; subst hr; exact ⟨h.wx, fun hp => fits_low h.fx hp⟩
  · injection hr with hr; subst hr; exact ⟨h.wy, fun hp => fits_low h.fy hp⟩
  · split at hr
    · rename_i hg
      injection hr with hr; subst hr
      refine ⟨?_, fun hp => fits_of_le (by simp only [E.prec]; rw [tl.2.2.2.2.2.1]; pomega)⟩
      simp only [wfGo, Bool.and_eq_true, wfGo_groupExpr]
      refine ⟨⟨⟨leftFits_of_fits (fits_groupExpr _ _), ?_⟩, h.wc⟩, h.wy⟩
      simp only [orSelfGuard, Bool.and_eq_true] at hg
      exact selfGuard_fits _ y (Or.inl tl.2.2.2.2.1) h.fy hg.2
    · split at hr
      · rename_i _ hg
        injection hr with hr; subst hr
        refine ⟨?_, fun hp => fits_of_le (by simp only [E.prec]; rw [tl.2.2.1]; pomega)⟩
        simp only [wfGo, Bool.and_eq_true, wfGo_groupExpr]
        refine ⟨⟨⟨leftFits_of_fits (fits_groupExpr _ _), ?_⟩, h.wc⟩, h.wx⟩
        simp only [andSelfGuard, Bool.and_eq_true] at hg
        exact selfGuard_fits _ x (Or.inr tl.2.1) h.fx hg.2
      · split at hr
        · injection hr with hr; subst hr
          refine ⟨?_, fun _ => fits_groupExpr _ _⟩
          rw [wfGo_groupExpr]
          simp only [wfGo, wfGoItems, Bool.and_eq_true, Bool.and_true, decide_eq_true_eq, List.length_cons, List.length_nil]
          refine ⟨by omega, ⟨fits_mono h.fc (by rw [c0.2.1, c0.2.2.1]; pomega) (Or.inl (by rw [c0.2.2.1]; pomega)), h.wc⟩, h.fx, h.wx⟩
        · split at hr
          · cases hr
          · rename_i e hn
            injection hr with hr; subst hr
            have hn' : toNullish c x y = .yes e := by
              cases v
              · simp at hn
              · simpa using hn
            have := toNullish_ok c x y e h hn'
            exact ⟨this.1, fun hp => fits_of_le (by pomega)⟩
          · split at hr
            · rename_i e hm
              split at hr
              · cases hr
              · injection hr with hr; subst hr
                have := callMerge_ok c x y e h hm
                exact ⟨this.1, fun hp => fits_of_le (by pomega)⟩
            · injection hr with hr; subst hr
              exact optCondTail_ok c x y p h

theorem condNormalize_ok (c x y : E) (h : CondIn c x y) :
    CondIn (condNormalize c x y).1 (condNormalize c x y).2.1 (condNormalize c x y).2.2 := by
  have c0 := consts
  have tl := t_lo
  have down : ∀ z, wfGo (.unary .not z) = true → FitsIn opCoalesce z = true ∧ wfGo z = true := by
    intro z hz
    simp only [wfGo, Bool.and_eq_true] at hz
    refine ⟨fits_mono hz.1 (by rw [tl.2.2.2.2.2.2.2.2.2.2.1, c0.2.2.1]; pomega)
      (Or.inl (by rw [tl.2.2.2.2.2.2.2.2.2.2.1]; pomega)), hz.2⟩
  unfold condNormalize
  split
  · rename_i z
    split
    · have h1 := down _ h.wc
      have h2 := down _ h1.2
      exact ⟨h2.1, h.fx, h.fy, h2.2, h.wx, h.wy⟩
    · exact h
  · rename_i z _
    have h1 := down _ h.wc
    exact ⟨h1.1, h.fy, h.fx, h1.2, h.wy, h.wx⟩
  · exact h

/-- `optimizeCondExpr` / `optimizeUnaryExpr`, as applied on entry of every node, are acceptable node rewriters -/
theorem optNode_ok (g v : Bool) : RwOk (optNode g v) := by
  have c0 := consts
  have hcond : ∀ c x y p r, wfGo (.cond c x y) = true → optNode g v (.cond c x y) p = some r →
      wfGo r = true ∧ (p ≤ 1 → FitsIn p r = true) := by
    intro c x y p r hw hr
    simp only [optNode, optCond] at hr
    simp only [wfGo, Bool.and_eq_true] at hw
    obtain ⟨⟨⟨⟨⟨fc, fx⟩, fy⟩, wc⟩, wx⟩, wy⟩ := hw
    exact optCondN_ok g v _ _ _ p r (condNormalize_ok c x y ⟨fc, fx, fy, wc, wx, wy⟩) hr
  refine ⟨?_, ?_, ?_, ?_⟩
  · intro e p r _ hw hr
    cases e with
    | cond c x y => exact (hcond c x y p r hw hr).1
    | unary op x => simp only [optNode] at hr; injection hr with hr; subst hr; exact (optUnary_ok op x p hw).1
    | _ => simp only [optNode] at hr; injection hr with hr; subst hr; exact hw
  · intro e p r _ hw hf hr
    cases e with
    | cond c x y =>
      apply (hcond c x y p r hw hr).2
      have hp1 : (E.cond c x y).prec = 1 := by simp only [E.prec]; exact c0.2.1
      simp only [FitsIn, E.isGroup, Bool.false_or, Bool.or_eq_true, decide_eq_true_eq, Bool.and_eq_true, beq_iff_eq, hp1] at hf
      rcases hf with hf | ⟨_, hf⟩
      · exact hf
      · rw [c0.2.2.1] at hf; pomega
    | unary op x => simp only [optNode] at hr; injection hr with hr; subst hr; exact (optUnary_ok op x p hw).2 hf
    | _ => simp only [optNode] at hr; injection hr with hr; subst hr; exact hf
  · intro e p r hr hpa
    cases e with
    | cond c x y => simp [isPlain, assignable, E.inner] at hpa
    | unary op x => simp [isPlain, assignable, E.inner] at hpa
    | _ => simp only [optNode] at hr; injection hr with hr; exact hr.symm
  · intro e p r hroot hr
    cases e with
    | cond c x y => simp [E.rootVar?, E.chainRoot, E.inner] at hroot
    | unary op x => simp [E.rootVar?, E.chainRoot, E.inner] at hroot
    | _ => simp only [optNode] at hr; injection hr with hr; exact hr.symm

/-- the traversal with all rewrites (`minifyExpr` with `optimizeCondExpr` / `optimizeUnaryExpr` at every node): the output is
    a derivation tree that fits its context -/
theorem minE_gwf (v : Bool) (fuel : Nat) (e : E) (p : Prec) (t : E) (hp : p ≤ 17) (hw : wfGo e = true)
    (h : minE v fuel e p = some t) : Inv p e t :=
  minGen_gwf (optNode false v) (optNode_ok false v) fuel e p t hp hw h

end Verif.Proofs.JsRwGwf

import Verif.Proofs.NumBase
/-!
# C08 — the number grammar as a generator: every lexeme is `sign ip [. fp] [e sign digits]`

`Lex` lists the pieces, `Lex.str` concatenates them, `parse_str` computes the specification parser on
such a string, and `exists_lex_of_parse` shows that every string accepted by the parser has this form.
-/
namespace Verif.Proofs.Num
open Verif.Model.Num
open Verif.Spec.Num (parse splitFrac parseMant parseExpPart splitSign Parsed isNumber isDecimal numVal)

theorem spec_natOf_eq (l : List Char) : Verif.Spec.Num.natOf l = natOf l := rfl

inductive Sg where
  | none | plus | minus
  deriving DecidableEq, Repr

def Sg.chars : Sg → List Char
  | .none => []
  | .plus => ['+']
  | .minus => ['-']

def Sg.neg : Sg → Bool
  | .minus => true
  | _ => false

structure Lex where
  sg : Sg
  ip : List Char
  dot : Bool
  fp : List Char
  ex : Option (Char × Sg × List Char)

def Lex.dotPart (l : Lex) : List Char := if l.dot then '.' :: l.fp else []
def Lex.exPart (l : Lex) : List Char :=
  match l.ex with
  | none => []
  | some (c, sg, ds) => c :: (sg.chars ++ ds)
def Lex.str (l : Lex) : List Char := l.sg.chars ++ (l.ip ++ (l.dotPart ++ l.exPart))
def Lex.expVal (l : Lex) : Int :=
  match l.ex with
  | none => 0
  | some (_, sg, ds) => if sg.neg then -(natOf ds : Int) else (natOf ds : Int)

structure Lex.WF (l : Lex) : Prop where
  ip : AllDig l.ip
  fp : AllDig l.fp
  nodot : l.dot = false → l.fp = []
  nonempty : l.ip ≠ [] ∨ l.fp ≠ []
  ex : ∀ c sg ds, l.ex = .some (c, sg, ds) → (c = 'e' ∨ c = 'E') ∧ AllDig ds ∧ ds ≠ []

/-! ## parsing a generated string -/

theorem splitSign_chars (sg : Sg) (r : List Char)
    (hr : ∀ c t, r = c :: t → c ≠ '+' ∧ c ≠ '-') : splitSign (sg.chars ++ r) = (sg.neg, r) := by
  cases sg with
  | plus => simp [Sg.chars, Sg.neg, splitSign]
  | minus => simp [Sg.chars, Sg.neg, splitSign]
  | none =>
    simp only [Sg.chars, Sg.neg, List.nil_append]
    cases r with
    | nil => simp [splitSign]
    | cons c t =>
      obtain ⟨h1, h2⟩ := hr c t rfl
      unfold splitSign
      split
      · rename_i r' e; injection e with e1 _; exact absurd e1 h2
      · rename_i r' e; injection e with e1 _; exact absurd e1 h1
      · rfl

theorem allDig_all {l : List Char} (h : AllDig l) : l.all Char.isDigit = true := by
  rw [List.all_eq_true]; exact h

theorem parseExpPart_exPart (l : Lex) (h : l.WF) : parseExpPart l.exPart = .some l.expVal := by
  unfold Lex.exPart Lex.expVal
  cases hx : l.ex with
  | none => simp [parseExpPart]
  | some t =>
    obtain ⟨c, sg, ds⟩ := t
    obtain ⟨hc, hd, hne⟩ := h.ex c sg ds hx
    simp only [parseExpPart]
    have hce : (c == 'e' || c == 'E') = true := by rcases hc with rfl | rfl <;> decide
    rw [if_pos hce]
    have hs : splitSign (sg.chars ++ ds) = (sg.neg, ds) := by
      apply splitSign_chars
      intro c' t e
      have : c'.isDigit = true := hd c' (by rw [e]; simp)
      exact ⟨digit_ne this (by decide), digit_ne this (by decide)⟩
    rw [hs]
    have h1 : ds.isEmpty = false := by cases ds with | nil => exact absurd rfl hne | cons _ _ => rfl
    simp only [h1, allDig_all hd, Bool.not_true, Bool.or_self, Bool.false_eq_true, if_false, spec_natOf_eq]

theorem exPart_head (l : Lex) (h : l.WF) : ∀ c t, l.exPart = c :: t → c = 'e' ∨ c = 'E' := by
  intro c t e
  unfold Lex.exPart at e
  cases hx : l.ex with
  | none => rw [hx] at e; cases e
  | some x =>
    obtain ⟨c', sg, ds⟩ := x
    rw [hx] at e
    injection e with e1 _
    rw [← e1]; exact (h.ex c' sg ds hx).1

theorem splitFrac_dot (t : List Char) :
    splitFrac ('.' :: t) = (t.takeWhile Char.isDigit, t.dropWhile Char.isDigit) := by
  rw [splitFrac]

theorem splitFrac_not_dot {r : List Char} (h : ∀ t, r ≠ '.' :: t) : splitFrac r = ([], r) := by
  unfold splitFrac
  split
  · rename_i t; exact absurd rfl (h t)
  · rfl

theorem parseMant_str (l : Lex) (h : l.WF) :
    parseMant (l.ip ++ (l.dotPart ++ l.exPart)) = .some (l.ip, l.fp, l.exPart) := by
  have hexd : ∀ c t, l.exPart = c :: t → Char.isDigit c = false := by
    intro c t e; rcases exPart_head l h c t e with rfl | rfl <;> decide
  have htail : ∀ c t, l.dotPart ++ l.exPart = c :: t → Char.isDigit c = false := by
    intro c t e
    unfold Lex.dotPart at e
    split at e
    · injection e with e1 _; rw [← e1]; decide
    · exact hexd c t (by simpa using e)
  unfold parseMant
  rw [takeWhile_append_stop h.ip htail, dropWhile_append_stop h.ip htail]
  by_cases hd : l.dot = true
  · have e1 : l.dotPart ++ l.exPart = '.' :: (l.fp ++ l.exPart) := by simp [Lex.dotPart, hd]
    rw [e1, splitFrac_dot]
    simp only [takeWhile_append_stop h.fp hexd, dropWhile_append_stop h.fp hexd]
    have : (l.ip.isEmpty && l.fp.isEmpty) = false := by
      rcases h.nonempty with h1 | h1
      · cases hh : l.ip with | nil => exact absurd hh h1 | cons _ _ => rfl
      · cases hh : l.fp with
        | nil => exact absurd hh h1
        | cons _ _ => simp
    simp [this]
  · have hd' : l.dot = false := by simpa using hd
    have hfp := h.nodot hd'
    have e1 : l.dotPart ++ l.exPart = l.exPart := by simp [Lex.dotPart, hd']
    rw [e1]
    have hip : l.ip ≠ [] := by rcases h.nonempty with h1 | h1; exact h1; exact absurd hfp h1
    have : (l.ip.isEmpty) = false := by cases hh : l.ip with | nil => exact absurd hh hip | cons _ _ => rfl
    rw [splitFrac_not_dot]
    · simp [this, hfp]
    · intro t e
      have := exPart_head l h '.' t e
      rcases this with h2 | h2 <;> cases h2

theorem str_body_head (l : Lex) (h : l.WF) :
    ∀ c t, l.ip ++ (l.dotPart ++ l.exPart) = c :: t → c ≠ '+' ∧ c ≠ '-' := by
  intro c t e
  cases hip : l.ip with
  | cons x r =>
    rw [hip] at e
    injection e with e1 _
    have : x.isDigit = true := h.ip x (by rw [hip]; simp)
    rw [← e1]
    exact ⟨digit_ne this (by decide), digit_ne this (by decide)⟩
  | nil =>
    have hfp : l.fp ≠ [] := by rcases h.nonempty with h1 | h1; exact absurd hip h1; exact h1
    have hd : l.dot = true := by
      cases hd : l.dot with
      | true => rfl
      | false => exact absurd (h.nodot hd) hfp
    rw [hip] at e
    simp only [Lex.dotPart, hd, if_true, List.nil_append, List.cons_append] at e
    injection e with e1 _
    rw [← e1]; exact ⟨by decide, by decide⟩

theorem parse_str (l : Lex) (h : l.WF) :
    parse l.str = .some { neg := l.sg.neg, ip := l.ip, fp := l.fp, exp := l.expVal } := by
  unfold parse Lex.str
  rw [splitSign_chars l.sg _ (str_body_head l h)]
  simp only [parseMant_str l h, parseExpPart_exPart l h]

theorem isNumber_str (l : Lex) (h : l.WF) : isNumber l.str = true := by
  simp [isNumber, parse_str l h]

theorem isDecimal_str (l : Lex) (h : l.WF) (hex : l.ex = .none) : isDecimal l.str = true := by
  unfold isDecimal Lex.str
  rw [splitSign_chars l.sg _ (str_body_head l h)]
  simp only [parseMant_str l h]
  simp [Lex.exPart, hex]


/-! ## every accepted string is generated -/

theorem splitSign_spec (s : List Char) :
    ∃ sg : Sg, s = sg.chars ++ (splitSign s).2 ∧ (splitSign s).1 = sg.neg := by
  unfold splitSign
  split
  · exact ⟨.minus, rfl, rfl⟩
  · exact ⟨.plus, rfl, rfl⟩
  · exact ⟨.none, rfl, rfl⟩

theorem allDig_takeWhile (l : List Char) : AllDig (l.takeWhile Char.isDigit) :=
  fun _ hc => mem_takeWhile_imp' hc

theorem splitFrac_spec (r : List Char) :
    ∃ dot : Bool, r = (if dot then '.' :: (splitFrac r).1 else []) ++ (splitFrac r).2 ∧
      AllDig (splitFrac r).1 ∧ (dot = false → (splitFrac r).1 = []) := by
  unfold splitFrac
  split
  · rename_i t
    refine ⟨true, ?_, allDig_takeWhile t, by simp⟩
    simp
  · exact ⟨false, by simp, AllDig.nil, fun _ => rfl⟩

theorem parseMant_spec {r ip fp rest : List Char} (h : parseMant r = .some (ip, fp, rest)) :
    ∃ dot : Bool, r = ip ++ ((if dot then '.' :: fp else []) ++ rest) ∧ AllDig ip ∧ AllDig fp ∧
      (dot = false → fp = []) ∧ (ip ≠ [] ∨ fp ≠ []) := by
  unfold parseMant at h
  simp only at h
  split at h
  · cases h
  · rename_i hne
    injection h with h
    injection h with h1 h2
    injection h2 with h2 h3
    obtain ⟨dot, e, hd, hn⟩ := splitFrac_spec (r.dropWhile Char.isDigit)
    rw [h2, h3] at e
    rw [h2] at hd hn
    refine ⟨dot, ?_, ?_, hd, hn, ?_⟩
    · rw [← e, ← h1]; exact (List.takeWhile_append_dropWhile).symm
    · rw [← h1]; exact allDig_takeWhile r
    · rw [h1, h2] at hne
      by_cases hi : ip = []
      · right; intro hf; apply hne; simp [hi, hf]
      · left; exact hi

theorem parseExpPart_spec {rest : List Char} {e : Int} (h : parseExpPart rest = .some e) :
    rest = [] ∨ ∃ c sg ds, rest = c :: (Sg.chars sg ++ ds) ∧ (c = 'e' ∨ c = 'E') ∧ AllDig ds ∧ ds ≠ [] := by
  unfold parseExpPart at h
  split at h
  · left; rfl
  · rename_i c r
    right
    split at h
    · rename_i hc
      obtain ⟨sg, e1, _⟩ := splitSign_spec r
      simp only at h
      split at h
      · cases h
      · rename_i hcond
        refine ⟨c, sg, (splitSign r).2, by rw [← e1], ?_, ?_, ?_⟩
        · simpa using hc
        · intro x hx
          have : ((splitSign r).2.all Char.isDigit) = true := by
            cases hall : (splitSign r).2.all Char.isDigit with
            | true => rfl
            | false => exact absurd (by simp [hall]) hcond
          exact List.all_eq_true.mp this x hx
        · intro hnil; apply hcond; simp [hnil]
    · cases h

theorem exists_lex_of_parse {s : List Char} {p : Parsed} (h : parse s = .some p) :
    ∃ l : Lex, l.WF ∧ l.str = s ∧
      p = { neg := l.sg.neg, ip := l.ip, fp := l.fp, exp := l.expVal } := by
  have key : ∃ l : Lex, l.WF ∧ l.str = s := by
    obtain ⟨sg, es, _⟩ := splitSign_spec s
    unfold parse at h
    simp only at h
    split at h
    · cases h
    · rename_i ip fp rest hm
      split at h
      · cases h
      · rename_i e he
        obtain ⟨dot, er, hip, hfp, hnd, hne⟩ := parseMant_spec hm
        rcases parseExpPart_spec he with hr | ⟨c, esg, ds, hr, hc, hds, hdne⟩
        · refine ⟨⟨sg, ip, dot, fp, .none⟩, ⟨hip, hfp, hnd, hne, ?_⟩, ?_⟩
          · intro c sg ds hh; cases hh
          · rw [es, er, hr]; simp [Lex.str, Lex.dotPart, Lex.exPart]
        · refine ⟨⟨sg, ip, dot, fp, .some (c, esg, ds)⟩, ⟨hip, hfp, hnd, hne, ?_⟩, ?_⟩
          · intro c' sg' ds' hh
            injection hh with hh
            injection hh with h1 h2
            injection h2 with h2 h3
            subst h1 h2 h3
            exact ⟨hc, hds, hdne⟩
          · rw [es, er, hr]; simp [Lex.str, Lex.dotPart, Lex.exPart]
  obtain ⟨l, hwf, hs⟩ := key
  refine ⟨l, hwf, hs, ?_⟩
  have := parse_str l hwf
  rw [hs, h] at this
  injection this

theorem exists_lex_of_isNumber {s : List Char} (h : isNumber s = true) :
    ∃ l : Lex, l.WF ∧ l.str = s := by
  unfold isNumber at h
  cases hp : parse s with
  | none => rw [hp] at h; cases h
  | some p =>
    obtain ⟨l, hwf, hs, _⟩ := exists_lex_of_parse hp
    exact ⟨l, hwf, hs⟩

theorem exists_lex_of_isDecimal {s : List Char} (h : isDecimal s = true) :
    ∃ l : Lex, l.WF ∧ l.str = s ∧ l.ex = .none := by
  obtain ⟨sg, es, _⟩ := splitSign_spec s
  unfold isDecimal at h
  split at h
  · rename_i ip fp hm
    obtain ⟨dot, er, hip, hfp, hnd, hne⟩ := parseMant_spec hm
    refine ⟨⟨sg, ip, dot, fp, .none⟩, ⟨hip, hfp, hnd, hne, ?_⟩, ?_, rfl⟩
    · intro c sg ds hh; cases hh
    · rw [es, er]; simp [Lex.str, Lex.dotPart, Lex.exPart]
  · cases h

end Verif.Proofs.Num

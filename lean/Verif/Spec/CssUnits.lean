import Verif.Base.Pack
import Verif.Base.Bytes
import Verif.Gen.CssColors
/-!
# CSS units and colour values (specification side of C17; reusable by C04 / C05)

* `lengthUnits`, `angleUnits`: CSS Values and Units Level 4 §6 (distance units) and §7.1 (angle units),
  lower case (units are ASCII case-insensitive; the minifier lower-cases a unit before it consults its table).
  A zero **length** may be written without unit everywhere (`0` is a `<length>`); for `<angle>` the unitless zero
  is only a legacy allowance of some contexts — property C17 only demands "length or angle unit", the
  context is C04's business.
* `hexColor`: `#rgb` / `#rrggbb` (CSS Color 4 §5.2) ↦ (r, g, b), each 0‥255.
* `namedColor`: `<named-color>` keyword (ASCII case-insensitive) ↦ (r, g, b) from `Verif.Gen.CssColors`
  (generated from `golang.org/x/image/colornames`, not from `/repo`).
-/
namespace Verif.Spec.CssUnits
open Verif

/-- CSS Values 4 §6.1 relative lengths (font-relative, viewport-percentage; Level 5 container units) and
    §6.2 absolute lengths -/
def lengthUnits : List Nat :=
  [pk! "em", pk! "rem", pk! "ex", pk! "rex", pk! "cap", pk! "rcap", pk! "ch", pk! "rch", pk! "ic", pk! "ric",
   pk! "lh", pk! "rlh",
   pk! "vw", pk! "vh", pk! "vi", pk! "vb", pk! "vmin", pk! "vmax",
   pk! "svw", pk! "svh", pk! "svi", pk! "svb", pk! "svmin", pk! "svmax",
   pk! "lvw", pk! "lvh", pk! "lvi", pk! "lvb", pk! "lvmin", pk! "lvmax",
   pk! "dvw", pk! "dvh", pk! "dvi", pk! "dvb", pk! "dvmin", pk! "dvmax",
   pk! "cqw", pk! "cqh", pk! "cqi", pk! "cqb", pk! "cqmin", pk! "cqmax",
   pk! "cm", pk! "mm", pk! "q", pk! "in", pk! "pc", pk! "pt", pk! "px"]

/-- CSS Values 4 §7.1 -/
def angleUnits : List Nat := [pk! "deg", pk! "grad", pk! "rad", pk! "turn"]

/-- functions whose grammar admits a bare `0` for an `<angle>` (`<angle> | <zero>`): CSS Transforms 1/2 (`rotate*`,
    `skew*`), Filter Effects 1 (`hue-rotate`), CSS Images 4 (linear and conic gradients: direction, `from`, angular
    colour stops).  Everywhere else (`rotate: 0deg`, `font-style: oblique 0deg`, `offset-rotate`, …) a unitless
    zero is not an `<angle>` (CSS Values 4 §7.1).  Lower case. -/
def zeroAngleFunctions : List Nat :=
  [pk! "rotate", pk! "rotatex", pk! "rotatey", pk! "rotatez", pk! "rotate3d",
   pk! "skew", pk! "skewx", pk! "skewy", pk! "hue-rotate",
   pk! "linear-gradient", pk! "repeating-linear-gradient", pk! "conic-gradient", pk! "repeating-conic-gradient"]

def isLengthOrAngleUnit (u : Nat) : Bool := lengthUnits.contains u || angleUnits.contains u

/-- value of a hex digit given as a code point -/
def hexDigitVal (c : Nat) : Option Nat :=
  if 48 ≤ c && c ≤ 57 then some (c - 48)
  else if 97 ≤ c && c ≤ 102 then some (c - 87)
  else if 65 ≤ c && c ≤ 70 then some (c - 55)
  else none

/-- `#rgb` / `#rrggbb` (code points) ↦ sRGB triple -/
def hexColorCps (s : List Nat) : Option (Nat × Nat × Nat) :=
  match s with
  | [35, a, b, c] =>
    match hexDigitVal a, hexDigitVal b, hexDigitVal c with
    | some x, some y, some z => some (17 * x, 17 * y, 17 * z)
    | _, _, _ => none
  | [35, a, b, c, d, e, f] =>
    match hexDigitVal a, hexDigitVal b, hexDigitVal c, hexDigitVal d, hexDigitVal e, hexDigitVal f with
    | some x1, some x2, some y1, some y2, some z1, some z2 => some (16 * x1 + x2, 16 * y1 + y2, 16 * z1 + z2)
    | _, _, _, _, _, _ => none
  | _ => none

def lowerCp (c : Nat) : Nat := if 65 ≤ c && c ≤ 90 then c + 32 else c

def lookupColor (k : Nat) : List (Nat × Nat × Nat × Nat) → Option (Nat × Nat × Nat)
  | [] => none
  | (a, rgb) :: r =>
    match Nat.beq k a with
    | true => some rgb
    | false => lookupColor k r

/-- CSS colour keyword (code points, any case) ↦ sRGB triple -/
def namedColorCps (s : List Nat) : Option (Nat × Nat × Nat) :=
  if s.all (· < 128) then lookupColor (pack (s.map lowerCp)) Gen.CssColors.table else none

/-- a colour written as a keyword or as `#rgb` / `#rrggbb` -/
def colorCps (s : List Nat) : Option (Nat × Nat × Nat) :=
  match s with
  | 35 :: _ => hexColorCps s
  | _ => namedColorCps s

def color (s : List Char) : Option (Nat × Nat × Nat) := colorCps (s.map Char.toNat)

end Verif.Spec.CssUnits

import Verif.Spec.CssValue
/-!
# An independent CSS tokeniser (specification side of C09, CSS slice)

Written from CSS Syntax Module Level 3 (CR 2021-12-24) §4.3 "Tokenizer algorithms"; nothing here mentions the
minifier or the lexer of `parse/v2`.  Input: Latin-1 bytes as `List Char` (a byte ≥ 0x80 is a non-ASCII ident
code point, so a UTF-8 sequence is a run of ident code points — the same on both sides of every comparison).
Output: `(type, lexeme)` pairs; the concatenation of the lexemes is the input.

Deviations from the letter of the standard, all invisible modulo whitespace/comment tokens:
* no §3.3 preprocessing (lexemes must be the raw bytes): CR, FF and CRLF are handled where the standard relies on
  the preprocessed LF (escape terminator `wsOne`, escaped newline in strings);
* comments are returned as `comment` tokens (§4.3.2 drops them); `whitespace` tokens are returned;
* for `url(` followed by optional white space and a quote the function token's lexeme is `url(` and the white
  space is left to a whitespace token (§4.3.4 consumes all but one of them first);
* no `unicode-range`, `~=`, `|=`, `^=`, `$=`, `*=`, `||` tokens: Level 3 removed them (`<urange>` is parsed from
  ident/number/dimension/`?` tokens, §7); the dependency lexer still produces them;
* scanners return the *number of code points* they consume; every recursion carries a fuel `n` that only has to be
  `≥` the length of the remaining input (`tokenise` starts it at the input length).
-/
namespace Verif.Spec.C09CssTok
open Verif.Spec.CssValue (TT Tok)

/-! ## §4.2 definitions -/

def isNl (c : Char) : Bool := c == '\n' || c == '\r' || c == '\x0c'
def isWs (c : Char) : Bool := c == ' ' || c == '\t' || c == '\n' || c == '\r' || c == '\x0c'
def isDigit (c : Char) : Bool := '0' ≤ c && c ≤ '9'
def isHex (c : Char) : Bool := ('0' ≤ c && c ≤ '9') || ('a' ≤ c && c ≤ 'f') || ('A' ≤ c && c ≤ 'F')
def isNameStart (c : Char) : Bool := ('a' ≤ c && c ≤ 'z') || ('A' ≤ c && c ≤ 'Z') || c == '_' || 0x80 ≤ c.toNat
def isName (c : Char) : Bool := isNameStart c || isDigit c || c == '-'
/-- non-printable code point -/
def isNonPrintable (c : Char) : Bool := c.toNat ≤ 8 || c.toNat == 0xB || (0xE ≤ c.toNat && c.toNat ≤ 0x1F) || c.toNat == 0x7F

/-! ## §4.3.8–§4.3.10 look-ahead checks -/

/-- §4.3.8: `\` followed by anything but a newline (EOF is not a newline) -/
def validEsc : List Char → Bool
  | '\\' :: c :: _ => !isNl c
  | ['\\'] => true
  | _ => false

/-- §4.3.9 would start an ident sequence -/
def startsIdent : List Char → Bool
  | '-' :: c :: r => isNameStart c || c == '-' || validEsc (c :: r)
  | ['-'] => false
  | c :: r => isNameStart c || validEsc (c :: r)
  | [] => false

/-- §4.3.10 would start a number -/
def startsNumber : List Char → Bool
  | '+' :: c :: r => isDigit c || (c == '.' && (match r with | d :: _ => isDigit d | [] => false))
  | '-' :: c :: r => isDigit c || (c == '.' && (match r with | d :: _ => isDigit d | [] => false))
  | '.' :: d :: _ => isDigit d
  | c :: _ => isDigit c
  | [] => false

/-! ## §4.3.7 escapes, §4.3.11 names -/

/-- up to `n` hex digits -/
def hexRun : Nat → List Char → Nat
  | 0, _ => 0
  | _ + 1, [] => 0
  | n + 1, c :: r => if isHex c then 1 + hexRun n r else 0

/-- one white space after a hex escape (CRLF is one code point after preprocessing) -/
def wsOne : List Char → Nat
  | '\r' :: '\n' :: _ => 2
  | c :: _ => if isWs c then 1 else 0
  | [] => 0

/-- the rest of a hex escape: up to `k` more hex digits, then one white space -/
def escTail : Nat → List Char → Nat
  | 0, s => wsOne s
  | _ + 1, [] => 0
  | k + 1, c :: r => if isHex c then 1 + escTail k r else wsOne (c :: r)

/-- §4.3.7 code points consumed after the backslash: 1–6 hex digits and one white space, or any one code point;
    nothing at EOF -/
def escLen : List Char → Nat
  | [] => 0
  | c :: r => if isHex c then 1 + escTail 5 r else 1

/-- §4.3.11 consume an ident sequence -/
def nameLen : Nat → List Char → Nat
  | 0, _ => 0
  | _ + 1, [] => 0
  | n + 1, c :: r =>
    if isName c then 1 + nameLen n r
    else if validEsc (c :: r) then (1 + escLen r) + nameLen n (r.drop (escLen r))
    else 0

/-! ## §4.3.12 numbers -/

def digitRun : List Char → Nat
  | c :: r => if isDigit c then 1 + digitRun r else 0
  | [] => 0

def signLen : List Char → Nat
  | '+' :: _ => 1
  | '-' :: _ => 1
  | _ => 0

def fracLen : List Char → Nat
  | '.' :: d :: r => if isDigit d then 2 + digitRun r else 0
  | _ => 0

def expLen : List Char → Nat
  | e :: d :: r =>
    if e == 'e' || e == 'E' then
      if isDigit d then 2 + digitRun r
      else if d == '+' || d == '-' then
        (match r with | d2 :: r2 => if isDigit d2 then 3 + digitRun r2 else 0 | [] => 0)
      else 0
    else 0
  | _ => 0

/-- §4.3.12 consume a number: sign, digits, fraction, exponent -/
def numLen (s : List Char) : Nat :=
  let a := signLen s + digitRun (s.drop (signLen s))
  let b := a + fracLen (s.drop a)
  b + expLen (s.drop b)

/-- §4.3.3 consume a numeric token -/
def numeric (n : Nat) (s : List Char) : TT × Nat :=
  let r := s.drop (numLen s)
  if startsIdent r then (.dimension, numLen s + nameLen n r)
  else if r.head? == some '%' then (.percentage, numLen s + 1)
  else (.number, numLen s)

/-! ## §4.3.5 strings, §4.3.6 urls, §4.3.14 bad-url remnants, §4.3.2 comments -/

/-- a newline at the head of the input: CRLF is one newline (§3.3) -/
def nlLen : List Char → Nat
  | '\r' :: '\n' :: _ => 2
  | c :: _ => if isNl c then 1 else 0
  | [] => 0

/-- what a backslash inside a string escapes: a newline (the string continues on the next line) or a code point -/
def strEscLen (r : List Char) : Nat := if 0 < nlLen r then nlLen r else escLen r

/-- code points consumed after the opening quote `q` (closing quote included), and `false` for a bad string
    (stopped in front of a raw newline) -/
def strLen : Nat → Char → List Char → Nat × Bool
  | 0, _, _ => (0, true)
  | _ + 1, _, [] => (0, true)
  | n + 1, q, c :: r =>
    if c == q then (1, true)
    else if isNl c then (0, false)
    else if c == '\\' then
      if r.isEmpty then (1, true)
      else let x := strLen n q (r.drop (strEscLen r)); ((1 + strEscLen r) + x.1, x.2)
    else let x := strLen n q r; (1 + x.1, x.2)

/-- §4.3.14 consume the remnants of a bad url: up to and including `)` -/
def badUrlLen : Nat → List Char → Nat
  | 0, _ => 0
  | _ + 1, [] => 0
  | n + 1, c :: r =>
    if c == ')' then 1
    else if validEsc (c :: r) then (1 + escLen r) + badUrlLen n (r.drop (escLen r))
    else 1 + badUrlLen n r

def wsRun : List Char → Nat
  | c :: r => if isWs c then 1 + wsRun r else 0
  | [] => 0

/-- §4.3.6 after `url(` and the leading white space: consumed code points (closing `)` included), `false` = bad url -/
def urlLen : Nat → List Char → Nat × Bool
  | 0, _ => (0, true)
  | _ + 1, [] => (0, true)
  | n + 1, c :: r =>
    if c == ')' then (1, true)
    else if isWs c then
      let w := wsRun (c :: r)
      let rest := (c :: r).drop w
      if rest.isEmpty then (w, true)
      else if rest.head? == some ')' then (w + 1, true)
      else (w + badUrlLen n rest, false)
    else if c == '"' || c == '\'' || c == '(' || isNonPrintable c then (badUrlLen (n + 1) (c :: r), false)
    else if c == '\\' then
      if validEsc (c :: r) then let x := urlLen n (r.drop (escLen r)); ((1 + escLen r) + x.1, x.2)
      else (badUrlLen (n + 1) (c :: r), false)
    else let x := urlLen n r; (1 + x.1, x.2)

/-- §4.3.2 after `/*`: up to and including `*/` (or EOF) -/
def commentLen : List Char → Nat
  | '*' :: '/' :: _ => 2
  | _ :: r => 1 + commentLen r
  | [] => 0

/-! ## decoding (values of names, strings and urls) -/

def hexVal (s : List Char) : Nat := s.foldl (fun a c => a * 16 + Verif.Spec.CssValue.hexDigitVal c) 0

/-- §4.3.7: the code point of a hex escape; 0, surrogates and values above U+10FFFF give U+FFFD -/
def escChar (hex : List Char) : Char :=
  let v := hexVal hex
  if v == 0 || (0xD800 ≤ v && v ≤ 0xDFFF) || 0x10FFFF < v then Char.ofNat 0xFFFD else Char.ofNat v

/-- the code points a run of name / string / url content stands for (`inStr`: escaped newlines vanish) -/
def unescape (inStr : Bool) : Nat → List Char → List Char
  | 0, _ => []
  | _ + 1, [] => []
  | n + 1, c :: r =>
    if c == '\\' then
      match r with
      | [] => if inStr then [] else [Char.ofNat 0xFFFD]
      | d :: r' =>
        if inStr && d == '\r' && r'.head? == some '\n' then unescape inStr n (r'.drop 1)
        else if inStr && isNl d then unescape inStr n r'
        else if isHex d then escChar (r.take (1 + hexRun 5 r')) :: unescape inStr n (r.drop (escLen r))
        else d :: unescape inStr n r'
    else c :: unescape inStr n r

def lowerAscii (s : List Char) : List Char := s.map Verif.Spec.CssValue.lowerChar

/-! ## §4.3.4 ident-like tokens -/

def isQuote (c : Char) : Bool := c == '"' || c == '\''

/-- does this name spell `url` (ASCII case-insensitively, after unescaping)? -/
def isUrlName (f : List Char) : Bool := lowerAscii (unescape false f.length f) == ['u', 'r', 'l']

/-- behind `url(` (`k` = length of the name, `r` = the input after the parenthesis): white space, then either a
    quote — an ordinary function token — or an unquoted url -/
def urlRest (n k : Nat) (r : List Char) : TT × Nat :=
  let rest := r.drop (wsRun r)
  if rest.isEmpty then (.url, k + 1 + wsRun r)
  else if isQuote (rest.headD ' ') then (.function, k + 1)
  else let x := urlLen n rest; (if x.2 then .url else .badUrl, k + 1 + wsRun r + x.1)

def identLike (n : Nat) (s : List Char) : TT × Nat :=
  let k := nameLen n s
  if (s.drop k).head? == some '(' then
    if isUrlName (s.take k) then urlRest n k (s.drop (k + 1)) else (.function, k + 1)
  else (.ident, k)

/-! ## §4.3.1 consume a token -/

/-- type and length of the first token of a non-empty input (`n ≥` its length) -/
def next (n : Nat) (s : List Char) : TT × Nat :=
  match s with
  | [] => (.error, 0)
  | c :: r =>
    if isWs c then (.whitespace, 1 + wsRun r)
    else if isQuote c then let x := strLen n c r; (if x.2 then .string else .badString, 1 + x.1)
    else if c == '#' then
      if isName (r.headD ' ') || validEsc r then (.hash, 1 + nameLen n r) else (.delim, 1)
    else if c == '(' then (.leftParen, 1)
    else if c == ')' then (.rightParen, 1)
    else if c == '+' then if startsNumber s then numeric n s else (.delim, 1)
    else if c == ',' then (.comma, 1)
    else if c == '-' then
      if startsNumber s then numeric n s
      else if r.take 2 == ['-', '>'] then (.cdc, 3)
      else if startsIdent s then identLike n s
      else (.delim, 1)
    else if c == '.' then if startsNumber s then numeric n s else (.delim, 1)
    else if c == '/' then if r.head? == some '*' then (.comment, 2 + commentLen (r.drop 1)) else (.delim, 1)
    else if c == ':' then (.colon, 1)
    else if c == ';' then (.semicolon, 1)
    else if c == '<' then if r.take 3 == ['!', '-', '-'] then (.cdo, 4) else (.delim, 1)
    else if c == '@' then if startsIdent r then (.atKeyword, 1 + nameLen n r) else (.delim, 1)
    else if c == '[' then (.leftBracket, 1)
    else if c == '\\' then if validEsc s then identLike n s else (.delim, 1)
    else if c == ']' then (.rightBracket, 1)
    else if c == '{' then (.leftBrace, 1)
    else if c == '}' then (.rightBrace, 1)
    else if isDigit c then numeric n s
    else if isNameStart c then identLike n s
    else (.delim, 1)

abbrev Token := TT × List Char

/-- the lexer contract for one lexeme: followed by one space, `p` reads as the single token `(tt, p)`
    (so `p` is one token of type `tt`, closed: no unterminated string, url or escape that would swallow what follows) -/
def lexOk (tt : TT) (p : List Char) : Bool :=
  !p.isEmpty && (next (p.length + 1) (p ++ [' ']) == (tt, p.length))

/-- the token loop; `acc` = tokens read so far, newest first -/
def tokAux : Nat → List Char → List Token → List Token
  | 0, _, acc => acc.reverse
  | _ + 1, [], acc => acc.reverse
  | n + 1, c :: r, acc =>
    let x := next (n + 1) (c :: r)
    tokAux n ((c :: r).drop (max x.2 1)) ((x.1, (c :: r).take (max x.2 1)) :: acc)

/-- §4.3 tokenise a style sheet, a declaration list or a single value -/
def tokenise (s : List Char) : List Token := tokAux s.length s []

/-- the stream a parser sees: no white space, no comments -/
def significant (ts : List Token) : List Token := ts.filter fun t => t.1 != .whitespace && t.1 != .comment

/-! ## what the writer of a declaration has to respect (hypotheses of the C09 theorems, all decidable) -/

/-- a code point that neither continues a token that ended in front of it nor is absorbed by it: anything but name
    code points, newlines, `\`, `.`, `+`, `%`, `(`, `*`, `>` (and `!`, see `stopStr`) -/
def U (c : Char) : Bool :=
  !(isName c || isNl c || c == '\\' || c == '.' || c == '+' || c == '%' || c == '(' || c == '*' || c == '>')

/-- what may follow a lexeme: a stop code point other than `!`, or `!` not followed by `-` (the `!important` the
    writer appends; `<` `!` `--` would be a CDO token) -/
def stopStr : List Char → Bool
  | c :: r => U c && (c != '!' || r.head? != some '-')
  | [] => false

/-- token types that end where the next token starts (not closed by a quote or parenthesis of their own) -/
def isPlain (tt : TT) : Bool :=
  !(tt == .whitespace || tt == .comment || tt == .string || tt == .badString || tt == .url || tt == .badUrl || tt == .function)

/-- a code point that is a delimiter token whatever follows it -/
def loneDelim (c : Char) : Bool :=
  !(isWs c || isQuote c || c == '#' || c == '(' || c == ')' || c == '+' || c == ',' || c == '-' || c == '.' ||
    c == '/' || c == ':' || c == ';' || c == '<' || c == '@' || c == '[' || c == '\\' || c == ']' || c == '{' ||
    c == '}' || isDigit c || isNameStart c)

/-- the name of a function / url token starts with an identifier start code point, or with `-` and two more code points
    (`-webkit-calc(`); names that start with an escape are not covered -/
def nameHeadOk (p : List Char) : Bool := isNameStart (p.headD ' ') || (p.head? == some '-' && 3 ≤ p.length)

/-- a url as the minifier writes it when it needs quotes: `url(` string `)`; the string lexeme, if so -/
def quotedUrl (p : List Char) : Option (List Char) :=
  if p.take 4 == ['u', 'r', 'l', '('] && p.getLast? == some ')' && 5 ≤ p.length then some ((p.drop 4).dropLast) else none

/-- the tokens a url value stands for: one url token, or `url(` string `)` -/
def urlToks (p : List Char) : List Token :=
  match quotedUrl p with
  | some s => [(.function, ['u', 'r', 'l', '(']), (.string, s), (.rightParen, [')'])]
  | none => [(.url, p)]

def urlOk (p : List Char) : Bool :=
  match quotedUrl p with
  | some s => lexOk .string s
  | none => lexOk .url p && isNameStart (p.headD ' ')

/-- lexemes that are read as themselves whatever follows -/
def selfDelim (t : Tok) : Bool :=
  t.tt == .function || t.tt == .url || t.tt == .string || t.tt == .comma || t.tt == .colon || t.tt == .semicolon ||
  t.tt == .leftParen || t.tt == .rightParen || t.tt == .leftBracket || t.tt == .rightBracket ||
  t.tt == .leftBrace || t.tt == .rightBrace ||
  (t.tt == .delim && (t.data == ['/'] || loneDelim (t.data.headD ' ')))

/-- the lexeme starts with a stop code point other than `!` -/
def stopHead : List Char → Bool
  | c :: _ => U c && c != '!'
  | [] => false

/-- the first code point of a lexeme that would continue a name or number: `-`, `_`, `\`, non-ASCII, digit, letter -/
def nameStartByte (c : Char) : Bool :=
  c == '-' || c == '_' || c == '\\' || c.toNat ≥ 0x80 || ('0' ≤ c && c ≤ '9') || ('a' ≤ c && c ≤ 'z') || ('A' ≤ c && c ≤ 'Z')

/-- a pair of function arguments that would glue when written back to back and that a writer therefore has to
    separate by a space (since a933f35 `writeFunction` does: `red` `10%`, `1` `.5`, `a` `(`, `1` `%`): an identifier,
    hash, number, dimension or at-keyword in front of a lexeme that starts like a name or number, `(` behind an
    identifier, `%` or `.`digit behind a number -/
def gluePair (t u : Tok) : Bool :=
  !t.data.isEmpty && !u.data.isEmpty &&
  (t.tt == .ident || t.tt == .hash || t.tt == .number || t.tt == .dimension || t.tt == .atKeyword ||
    t.tt == .customPropertyName) &&
  u.tt != .whitespace &&
  (if u.tt == .leftParen then t.tt == .ident
   else if u.data.headD ' ' == '%' || u.data.headD ' ' == '.' then
     t.tt == .number && (u.data.headD ' ' == '%' ||
       (match u.data with | _ :: d :: _ => decide ('0' ≤ d) && decide (d ≤ '9') | _ => false))
   else nameStartByte (u.data.headD ' '))

/-- may `u` follow `t` inside a function?  Either nothing can go wrong when they are written back to back, or they
    are a pair the writer separates by a space itself (`gluePair`) -/
def sepOk (t u : Tok) : Bool :=
  selfDelim t || (t.tt == .whitespace && u.tt != .whitespace) || (isPlain t.tt && stopHead u.data) || gluePair t u

/-- the same without the pairs that only `writeFunction` separates: the raw path writes its components back to back
    (it only keeps `/` and `*` apart) -/
def sepSafe (t u : Tok) : Bool :=
  selfDelim t || (t.tt == .whitespace && u.tt != .whitespace) || (isPlain t.tt && stopHead u.data)

/-- the one-byte lexemes of the punctuation tokens (lexer contract) -/
def punctOk (tt : TT) (data : List Char) : Bool :=
  match tt with
  | .comma => data == [',']
  | .colon => data == [':']
  | .semicolon => data == [';']
  | .leftParen => data == ['(']
  | .rightParen => data == [')']
  | .leftBracket => data == ['[']
  | .rightBracket => data == [']']
  | .leftBrace => data == ['{']
  | .rightBrace => data == ['}']
  | .delim => data.length == 1
  | _ => true

mutual
/-- one value or function argument: its lexeme is a token of its type (`lexOk`) that does not end in a hexadecimal
    escape without its terminating white space (the lexer includes it; implied by `lexOk`, stated for the writer's own
    test), commas and delimiters have their one-byte lexeme, white space (only inside functions) is the parser's single space, and the arguments of a
    function are fine themselves and pairwise safe to write back to back -/
def tokOk : Tok → Bool
  | .mk tt data args =>
    if tt == .function then lexOk .function data && nameHeadOk data && argsOk args
    else if tt == .url then urlOk data
    else if tt == .string then lexOk .string data
    else if tt == .whitespace then data == [' ']
    else isPlain tt && lexOk tt data && punctOk tt data && !Verif.Spec.CssValue.endsHexEsc data
def argsOk : List Tok → Bool
  | [] => true
  | [t] => tokOk t
  | t :: u :: r => tokOk t && sepOk t u && argsOk (u :: r)
end

/-- the hypotheses on the values handed to `writeDeclaration`: every value is an admissible token (`tokOk`) and
    none is white space (`parseDeclaration` drops it) -/
def valsOk (vs : List Tok) : Bool := vs.all fun t => tokOk t && t.tt != .whitespace

/-- the raw path writes the parser's components as they are (a function token is just its `name(` lexeme there):
    every component admissible on its own, neighbours safe to write back to back -/
def rawTokOk (t : Tok) : Bool := tokOk (.mk t.tt t.data [])

def rawOk : List Tok → Bool
  | [] => true
  | [t] => rawTokOk t
  | t :: u :: r => rawTokOk t && sepSafe t u && rawOk (u :: r)

/-- the tokens one component stands for on the raw path -/
def rawFlat (t : Tok) : List Token := if t.tt == .url then urlToks t.data else [(t.tt, t.data)]

mutual
/-- `tokOk` without the condition on neighbours inside functions (`sepOk`): only "every lexeme is a token of its
    type" — the hypothesis of the full statement that is false (`css_writer_retokenises_counterexample`) -/
def lexTokOk : Tok → Bool
  | .mk tt data args =>
    if tt == .function then lexOk .function data && nameHeadOk data && lexArgsOk args
    else if tt == .url then urlOk data
    else if tt == .string then lexOk .string data
    else if tt == .whitespace then data == [' ']
    else isPlain tt && lexOk tt data && punctOk tt data
def lexArgsOk : List Tok → Bool
  | [] => true
  | t :: r => lexTokOk t && lexArgsOk r
end

def lexemesOk (vs : List Tok) : Bool := vs.all fun t => lexTokOk t && t.tt != .whitespace

mutual
/-- the token stream a value stands for -/
def flatTok : Tok → List Token
  | .mk tt data args =>
    if tt == .function then (.function, data) :: (flatArgs args ++ [(.rightParen, [')'])])
    else if tt == .url then urlToks data
    else [(tt, data)]
def flatArgs : List Tok → List Token
  | [] => []
  | t :: r => flatTok t ++ flatArgs r
end

/-! ## values of string and url tokens -/

/-- §4.3.5: the value of a string lexeme (quotes removed; a string cut off by EOF has no closing quote: the scan of
    `body ++ " "` then runs past the end of `body`) -/
def stringValue (lex : List Char) : List Char :=
  match lex with
  | [] => []
  | q :: body =>
    let closed := (strLen (body.length + 1) q (body ++ [' '])).1 == body.length
    let inner := if closed then body.dropLast else body
    unescape true inner.length inner

/-- §4.3.6: the code points of an unquoted url up to the first unescaped white space, `)` or EOF -/
def urlBody : Nat → List Char → List Char
  | 0, _ => []
  | _ + 1, [] => []
  | n + 1, c :: r =>
    if c == ')' || isWs c then []
    else if c == '\\' then
      match r with
      | [] => [Char.ofNat 0xFFFD]
      | d :: r' =>
        if isNl d then []
        else if isHex d then escChar (r.take (1 + hexRun 5 r')) :: urlBody n (r.drop (escLen r))
        else d :: urlBody n r'
    else c :: urlBody n r

/-- §4.3.6: the value of a `url` token's lexeme `url(` ws* … ws* `)` -/
def urlValue (lex : List Char) : List Char :=
  let body := lex.drop (nameLen lex.length lex + 1)
  urlBody body.length (body.drop (wsRun body))

/-- the url a value stands for, whichever way it is spelt: a `url` token, or `url(` string `)`;
    `none` when the bytes are neither -/
def urlOf (lex : List Char) : Option (List Char) :=
  match significant (tokenise lex) with
  | [(.url, l)] => some (urlValue l)
  | [(.function, f), (.string, s), (.rightParen, _)] => if isUrlName f.dropLast then some (stringValue s) else none
  | [(.function, f), (.string, s)] => if isUrlName f.dropLast then some (stringValue s) else none
  | _ => none

/-! ## block structure -/

def isOpen (t : TT) : Bool := t == .leftBrace || t == .leftBracket || t == .leftParen || t == .function
def closes (o c : TT) : Bool :=
  (o == .leftBrace && c == .rightBrace) || (o == .leftBracket && c == .rightBracket) ||
  ((o == .leftParen || o == .function) && c == .rightParen)
def isClose (t : TT) : Bool := t == .rightBrace || t == .rightBracket || t == .rightParen

/-- bracket matching over a token stream: `some stack` of the blocks still open, `none` when a closer meets the
    wrong opener or nothing -/
def balance : List Token → List TT → Option (List TT)
  | [], st => some st
  | t :: r, st =>
    if isOpen t.1 then balance r (t.1 :: st)
    else if isClose t.1 then
      match st with
      | o :: st' => if closes o t.1 then balance r st' else none
      | [] => none
    else balance r st

/-- the input ends inside a token that would swallow what follows (unterminated string, url, comment, a trailing
    backslash): a `;` appended to it does not come back as a semicolon token of its own -/
def openEnded (s : List Char) : Bool :=
  match (tokenise (s ++ [';'])).getLast? with
  | some (.semicolon, _) => false
  | _ => true

def hasBad (ts : List Token) : Bool := ts.any fun t => t.1 == .badString || t.1 == .badUrl

/-- bytes that can stand as one declaration value: every bracket closed, no bad token, nothing left open at the
    end, and no top-level `;`, `}` (they would end the declaration early) -/
def closedValue (s : List Char) : Bool :=
  let ts := tokenise s
  balance ts [] == some [] && !hasBad ts && !openEnded s

/-- no `;` outside brackets (with `balance … = some []` there is no stray `}` either) -/
def noTopSemicolon : List Token → Nat → Bool
  | [], _ => true
  | t :: r, d =>
    if isOpen t.1 then noTopSemicolon r (d + 1)
    else if isClose t.1 then noTopSemicolon r (d - 1)
    else if t.1 == .semicolon && d == 0 then false
    else noTopSemicolon r d

end Verif.Spec.C09CssTok

/-!
# Token stream of the dependency XML lexer (`github.com/tdewolff/parse/v2/xml`)

Shared interface between the model of `xml.go` (`Model/Xml.lean`) and the specification (`Spec/Xml.lean`);
the lexer itself is modelled **by contract**: the harness obtains token lists from the real lexer.
-/
namespace Verif.Xml

/-- Token of the dependency lexer, with the fields `xml.go` uses.
`startTag n`: Data = `<`n.  `startTagPI n`: Data = `<?`n.  `attr n v`: attribute with `=`, Text = n, AttrVal = v (raw, including quotes).
`attrBare d n`: attribute token without `=` (AttrVal nil), Data = d (with its leading white space), Text = n.  `endTag d n`: Data = d (`</`n ws* `>`), Text = n.
`cdata d t`: Data = d (`<![CDATA[`t`]]>`), Text = t.  `text d`, `comment d`, `doctype d`: Data = d. -/
inductive XTok
  | startTag (name : List Char)
  | startTagPI (name : List Char)
  | attr (name val : List Char)
  | attrBare (data name : List Char)
  | startTagClose
  | startTagCloseVoid
  | startTagClosePI
  | endTag (data name : List Char)
  | text (data : List Char)
  | cdata (data text : List Char)
  | comment (data : List Char)
  | doctype (data : List Char)
  deriving DecidableEq, Repr

end Verif.Xml

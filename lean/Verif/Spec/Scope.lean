/-!
# C02 — scope trees, reference occurrences, name resolution   (specification side)

A program is seen through its *scope tree*, as the dependency `parse/v2/js` delivers it: every scope
(global, function / arrow / method body, block, `for` body, `switch`, `catch`, …) carries

* `declared`   — the variables declared in it, by **identity** (`*js.Var` pointers → `VarId`),
* `undeclared` — the parser's list of variables that are used in the scope or below it and are not
                 declared in it (`Scope.Undeclared`, including the entries added by the `AddUndeclared`
                 loops of `Scope.Declare` and of `hoistVars`),
* `refs`       — the identifier occurrences that stand directly in the scope (not in a child scope),
                 each given by the variable it refers to according to the parser,
* `rename`     — whether the minifier hands this scope to the renamer with renaming switched on
                 (input of the renamer model; ignored by everything else in this file),
* `isFunc`, `hasWith` — scope kind and the parser's `HasWith` mark (inputs of the flag computation).

Trees are represented in first-child / next-sibling form (`Forest`), which is an ordinary (non-nested)
inductive type: `node info children siblings`.

A *naming* `ν : VarId → Name` gives the current spelling of every variable (`Var.Data`, shared by all
occurrences of the variable — that is why renaming is a change of `ν` and not of the tree).

`resolve ν chain n` is ECMAScript's static name lookup: innermost enclosing scope first, the scope's
own declarations searched from the last one (as `Scope.findDeclared` does).  `resolveId` is what the
parser says the occurrence means.  The property "capture-free" is `resolve ν' chain (ν' v) = resolveId chain v`
for every occurrence under the naming `ν'` after renaming.

Everything here is executable and independent of the renamer model.
-/
namespace Verif.Spec.Scope

abbrev VarId := Nat
abbrev Name := List Char
abbrev Naming := VarId → Name

structure Info where
  declared : List VarId
  undeclared : List VarId
  refs : List VarId
  rename : Bool := true
  isFunc : Bool := false
  hasWith : Bool := false
  deriving Repr, DecidableEq, Inhabited

/-- first-child / next-sibling representation of a list of scope trees -/
inductive Forest where
  | nil
  | node (info : Info) (children : Forest) (siblings : Forest)
  deriving Repr, DecidableEq, Inhabited

/-- a scope tree: the root scope and the forest of its child scopes -/
structure Tree where
  root : Info
  children : Forest
  deriving Repr, DecidableEq

def Tree.toForest (t : Tree) : Forest := .node t.root t.children .nil

namespace Forest

/-- all variables declared somewhere in the forest, in traversal (pre-)order -/
def decls : Forest → List VarId
  | nil => []
  | node i ch sib => i.declared ++ (decls ch ++ decls sib)

/-- number of scopes -/
def size : Forest → Nat
  | nil => 0
  | node _ ch sib => 1 + size ch + size sib

/-- the variables free in some tree of the forest: referenced in the subtree of a scope and not declared
    on the way down from that scope to the occurrence -/
def free : Forest → List VarId
  | nil => []
  | node i ch sib => (i.refs ++ free ch).filter (fun v => !i.declared.contains v) ++ free sib

/-- variables free in one scope (`i` with child forest `ch`) -/
def freeScope (i : Info) (ch : Forest) : List VarId :=
  (i.refs ++ free ch).filter (fun v => !i.declared.contains v)

theorem free_node (i : Info) (ch sib : Forest) : free (node i ch sib) = freeScope i ch ++ free sib := rfl

/-- a predicate on (scope, its children) holds for every scope of the forest -/
def all (p : Info → Forest → Bool) : Forest → Bool
  | nil => true
  | node i ch sib => p i ch && all p ch && all p sib

/-- the same as a proposition (for statements) -/
def All (P : Info → Forest → Prop) : Forest → Prop
  | nil => True
  | node i ch sib => P i ch ∧ All P ch ∧ All P sib

/-- reference occurrences: the chain of enclosing scopes (innermost first, ending at the root of the
    tree the occurrence is in) and the variable the parser resolved the occurrence to -/
def occs : Forest → List (List Info × VarId)
  | nil => []
  | node i ch sib =>
    i.refs.map (fun v => ([i], v)) ++ ((occs ch).map (fun o => (o.1 ++ [i], o.2)) ++ occs sib)

end Forest

/-! ## name resolution -/

/-- the last variable of `decl` spelled `n` (`Scope.findDeclared` searches in reverse order) -/
def lookupDecl (ν : Naming) (decl : List VarId) (n : Name) : Option VarId :=
  decl.reverse.find? (fun v => ν v == n)

/-- static lookup of the name `n` from inside the innermost scope of `chain` -/
def resolve (ν : Naming) : List Info → Name → Option VarId
  | [], _ => none
  | i :: rest, n =>
    match lookupDecl ν i.declared n with
    | some v => some v
    | none => resolve ν rest n

/-- what the occurrence means according to the parser: the variable itself when one of the enclosing
    scopes declares it, otherwise a free (global) name -/
def resolveId (chain : List Info) (v : VarId) : Option VarId :=
  if chain.any (fun i => i.declared.contains v) then some v else none

/-! ## well-formedness: the contract of `parse/v2/js` scope analysis -/

def subsetB (a b : List VarId) : Bool := a.all (fun x => b.contains x)
def disjointB (a b : List VarId) : Bool := a.all (fun x => !b.contains x)

/-- per scope: (1) `undeclared` contains every variable that is free in the scope (used in it or below
    and not declared on the way); (2) a variable free in the scope is not declared anywhere *inside* the
    scope's subtree (an occurrence refers to a declaration of an enclosing scope or to no declaration) -/
def scopeOk (i : Info) (ch : Forest) : Bool :=
  subsetB (Forest.freeScope i ch) i.undeclared && disjointB (Forest.freeScope i ch) ch.decls

/-- well-formed forest: every variable is declared once, and every scope satisfies `scopeOk` -/
def wfForest (f : Forest) : Bool :=
  decide f.decls.Nodup && f.all scopeOk

def wfTree (t : Tree) : Bool := wfForest t.toForest

/-- the spelling of the un-renamed part of the input is consistent with the parser's resolution: in a scope
    that is *not* renamed, no declaration is spelled like a variable that is free in the scope, and two
    declarations of one scope are spelled differently -/
def inputOkScope (ν : Naming) (i : Info) (ch : Forest) : Bool :=
  i.rename ||
    (i.declared.all (fun w => (Forest.freeScope i ch).all (fun u => ν w != ν u)) &&
     i.declared.all (fun w => i.declared.all (fun w' => w == w' || ν w != ν w')))

def inputOk (ν : Naming) (f : Forest) : Bool := f.all (inputOkScope ν)

/-- every scope below (and including) the roots of the forest is renamed -/
def allRenamed (f : Forest) : Bool := f.all (fun i _ => i.rename)

/-- renaming is never switched off below a scope that is renamed -/
def flagsOk : Forest → Bool
  | .nil => true
  | .node i ch sib => (if i.rename then allRenamed ch else flagsOk ch) && flagsOk sib

/-- the property evaluated on one naming: every occurrence resolves to what the parser says -/
def captureFreeB (ν : Naming) (f : Forest) : Bool :=
  f.occs.all (fun o => resolve ν o.1 (ν o.2) == resolveId o.1 o.2)

end Verif.Spec.Scope

/-!
# RFC 8259 JSON — specification side of property C07 (core Lean only)

Independent of the model of the implementation (`Verif.Model.Json`).  Byte strings are `List Char`
in the Latin-1 embedding (`Verif.Base.Bytes`): one `Char` < 256 per byte.

* `JV`            — JSON values: literals, number *lexemes*, string *lexemes* (raw bytes including the
                    quotes), arrays, objects with **ordered** members (duplicate keys allowed).
* `render ws v`   — the RFC 8259 grammar, generatively: `JSON-text = ws value ws`,
                    `array = [ ws ]  |  [ value-with-ws ( , value-with-ws )* ]`, … ; `ws : Ws` chooses
                    arbitrary whitespace (space, tab, LF, CR) for every gap of the text.
                    A text is a valid JSON text denoting `v` iff it is `render ws v` for some `ws`
                    and `wf v` (all lexemes are well formed).
* `compact v`     — `render noWs v`.
* `isJsonNumber`, `isJsonString` — the lexeme grammars of RFC 8259 §6, §7.
* `numVal`        — the rational value of a number lexeme (of a superset grammar that also covers the
                    minifier's `.5`, `-.5`, `5.`, `+5`).
* `jvEq`          — value equality: numbers by `numVal`, everything else bytewise and in order.
* `parseJ`        — executable recursive-descent parser with fuel (used by the harness to map texts to
                    values; `Props.C07.parse_render` shows `parseJ (render ws v) = some v`).
-/
namespace Verif.Spec.Json

/-! ## values -/

inductive Lit | tru | fls | nul
deriving DecidableEq, Repr

def Lit.text : Lit → List Char
  | .tru => ['t', 'r', 'u', 'e']
  | .fls => ['f', 'a', 'l', 's', 'e']
  | .nul => ['n', 'u', 'l', 'l']

inductive JV
  | lit (l : Lit)
  | num (s : List Char)                 -- the lexeme
  | str (s : List Char)                 -- the lexeme including both quotes
  | arr (xs : List JV)
  | obj (ms : List (List Char × JV))    -- ordered; keys are string lexemes; duplicates allowed
deriving Repr

/-! ## whitespace decorations -/

/-- the four whitespace characters of RFC 8259 §2 -/
inductive WsC | sp | tab | lf | cr
deriving DecidableEq, Repr

def WsC.toChar : WsC → Char
  | .sp => ' ' | .tab => '\t' | .lf => '\n' | .cr => '\r'

/-- A decoration assigns a whitespace string to every gap of a text.  Gaps are addressed by the path
    of the value they belong to (`child`) and a gap number; own gaps live under the path prefix `0`,
    the gaps of the `i`-th child under the prefix `i+1`, so that all gaps of a text are independent. -/
abbrev Ws := List Nat → List WsC

def Ws.gap (w : Ws) (g : Nat) : List Char := (w [0, g]).map WsC.toChar
def Ws.child (w : Ws) (i : Nat) : Ws := fun p => w ((i + 1) :: p)
/-- whitespace before / after a value -/
def Ws.pre (w : Ws) : List Char := w.gap 0
def Ws.post (w : Ws) : List Char := w.gap 1
/-- whitespace inside an empty array / object -/
def Ws.inner (w : Ws) : List Char := w.gap 2
/-- whitespace before / after the `i`-th key of an object -/
def Ws.kpre (w : Ws) (i : Nat) : List Char := w.gap (3 + 2 * i)
def Ws.kpost (w : Ws) (i : Nat) : List Char := w.gap (4 + 2 * i)

/-- no whitespace anywhere -/
def noWs : Ws := fun _ => []

/-! ## the grammar, generatively -/

mutual
/-- `ws value ws` -/
def render (w : Ws) : JV → List Char
  | .lit l => w.pre ++ l.text ++ w.post
  | .num s => w.pre ++ s ++ w.post
  | .str s => w.pre ++ s ++ w.post
  | .arr [] => w.pre ++ '[' :: w.inner ++ ']' :: w.post
  | .arr (x :: xs) => w.pre ++ '[' :: renderElems w 0 true (x :: xs) ++ ']' :: w.post
  | .obj [] => w.pre ++ '{' :: w.inner ++ '}' :: w.post
  | .obj (m :: ms) => w.pre ++ '{' :: renderMems w 0 true (m :: ms) ++ '}' :: w.post
/-- `value-with-ws ( , value-with-ws )*` — elements from index `i` on; `first` = no comma in front -/
def renderElems (w : Ws) (i : Nat) (first : Bool) : List JV → List Char
  | [] => []
  | x :: r => (if first then [] else [',']) ++ render (w.child i) x ++ renderElems w (i + 1) false r
/-- `ws string ws : value-with-ws ( , … )*` -/
def renderMems (w : Ws) (i : Nat) (first : Bool) : List (List Char × JV) → List Char
  | [] => []
  | (k, x) :: r => (if first then [] else [',']) ++ w.kpre i ++ k ++ w.kpost i ++ ':' ::
      render (w.child i) x ++ renderMems w (i + 1) false r
end

/-- the whitespace-free text of a value -/
def compact (v : JV) : List Char := render noWs v

/-! ## lexeme grammars (RFC 8259 §6 numbers, §7 strings) -/

def isDigit (c : Char) : Bool := '0' ≤ c && c ≤ '9'

/-- `digits ≠ ε` -/
def digitsNE (u : List Char) : Bool := !u.isEmpty && u.all isDigit

/-- `int = zero / ( digit1-9 *DIGIT )` applied to the maximal digit prefix -/
def intOk : List Char → Bool
  | [] => false
  | ['0'] => true
  | c :: _ => c != '0'

/-- is `e` / `E` -/
def isE (c : Char) : Bool := c == 'e' || c == 'E'

/-- the digits of an exponent after its optional sign -/
def expBody : List Char → List Char
  | '+' :: u => u
  | '-' :: u => u
  | u => u

def expNeg : List Char → Bool
  | '-' :: _ => true
  | _ => false

/-- `[ exp ]` up to the end of the lexeme: `exp = e [ minus / plus ] 1*DIGIT` -/
def expOk : List Char → Bool
  | [] => true
  | c :: t => isE c && digitsNE (expBody t)

def hasDot : List Char → Bool
  | '.' :: _ => true
  | _ => false

/-- the digits after a leading decimal point (`[]` if there is no decimal point) -/
def fracDigits : List Char → List Char
  | '.' :: t => t.takeWhile isDigit
  | _ => []

/-- what follows `[ . digits ]` -/
def afterFrac : List Char → List Char
  | '.' :: t => t.dropWhile isDigit
  | r => r

/-- `[ frac ] [ exp ]` up to the end of the lexeme: `frac = decimal-point 1*DIGIT` -/
def fracExpOk (r : List Char) : Bool :=
  (!hasDot r || !(fracDigits r).isEmpty) && expOk (afterFrac r)

def unsignedOk (r : List Char) : Bool :=
  intOk (r.takeWhile isDigit) && fracExpOk (r.dropWhile isDigit)

def stripMinus : List Char → List Char
  | '-' :: r => r
  | r => r

/-- `number = [ minus ] int [ frac ] [ exp ]` -/
def isJsonNumber (s : List Char) : Bool := unsignedOk (stripMinus s)

def isHex (c : Char) : Bool :=
  isDigit c || ('a' ≤ c && c ≤ 'f') || ('A' ≤ c && c ≤ 'F')

/-- characters that may follow a backslash (besides `u`) -/
def isEscChar (c : Char) : Bool :=
  c == '"' || c == '\\' || c == '/' || c == 'b' || c == 'f' || c == 'n' || c == 'r' || c == 't'

/-- scanner state inside a string: normal, after a backslash, or `n+1` hex digits still expected -/
inductive SSt | norm | esc | hex (n : Nat)
deriving DecidableEq, Repr

/-- `*char quotation-mark` and nothing after it.  `unescaped = %x20-21 / %x23-5B / %x5D-10FFFF` is
    read bytewise: every byte ≥ 0x20 other than `"` and `\` (UTF-8 well-formedness is not part of the
    grammar and is not checked). -/
def strOk : SSt → List Char → Bool
  | _, [] => false
  | .norm, c :: r =>
      if c == '"' then r.isEmpty
      else if c == '\\' then strOk .esc r
      else 0x20 ≤ c.toNat && strOk .norm r
  | .esc, c :: r =>
      if c == 'u' then strOk (.hex 3) r
      else isEscChar c && strOk .norm r
  | .hex 0, c :: r => isHex c && strOk .norm r
  | .hex (n + 1), c :: r => isHex c && strOk (.hex n) r

/-- `string = quotation-mark *char quotation-mark` -/
def isJsonString : List Char → Bool
  | '"' :: r => strOk .norm r
  | _ => false

/-! ## well-formed values -/

mutual
def wf : JV → Bool
  | .lit _ => true
  | .num s => isJsonNumber s
  | .str s => isJsonString s
  | .arr xs => wfElems xs
  | .obj ms => wfMems ms
def wfElems : List JV → Bool
  | [] => true
  | x :: r => wf x && wfElems r
def wfMems : List (List Char × JV) → Bool
  | [] => true
  | (k, x) :: r => isJsonString k && wf x && wfMems r
end

/-! ## numeric value of a number lexeme -/

def digitsVal (ds : List Char) : Nat := ds.foldl (fun a c => a * 10 + (c.toNat - 48)) 0

/-- value of `[ exp ]` up to the end of the lexeme (`ε ↦ 0`) -/
def expVal : List Char → Option Int
  | [] => some 0
  | c :: t =>
    if isE c && digitsNE (expBody t) then
      some (if expNeg t then -(digitsVal (expBody t) : Int) else (digitsVal (expBody t) : Int))
    else none

def pow10 (e : Int) : Rat :=
  if 0 ≤ e then ((10 ^ e.toNat : Nat) : Rat) else 1 / ((10 ^ (-e).toNat : Nat) : Rat)

/-- value of `digits [ . digits ] [ exp ]` or `. digits [ exp ]` -/
def unsignedVal (r : List Char) : Option Rat :=
  let ip := r.takeWhile isDigit
  let fp := fracDigits (r.dropWhile isDigit)
  if ip.isEmpty && fp.isEmpty then none else
  match expVal (afterFrac (r.dropWhile isDigit)) with
  | some e => some ((digitsVal (ip ++ fp) : Rat) * pow10 (e - fp.length))
  | none => none

def isNeg : List Char → Bool
  | '-' :: _ => true
  | _ => false

def stripSign : List Char → List Char
  | '-' :: r => r
  | '+' :: r => r
  | r => r

/-- rational value of a number lexeme; defined on `[+-]? (d+ (. d*)? | . d+) ([eE] [+-]? d+)?`,
    a superset of the JSON grammar and of the minifier's output grammar -/
def numVal (s : List Char) : Option Rat :=
  (unsignedVal (stripSign s)).map (fun q => if isNeg s then -q else q)

/-- both lexemes have a value and the values are equal -/
def numEq (a b : List Char) : Bool :=
  match numVal a, numVal b with
  | some x, some y => x == y
  | _, _ => false

/-! ## value equality -/

mutual
/-- same nesting, same member order (including duplicate keys), byte-identical strings, keys and
    literals, numerically equal numbers -/
def jvEq : JV → JV → Bool
  | .lit a, .lit b => a == b
  | .num a, .num b => numEq a b
  | .str a, .str b => a == b
  | .arr xs, .arr ys => jvEqElems xs ys
  | .obj ms, .obj ns => jvEqMems ms ns
  | _, _ => false
def jvEqElems : List JV → List JV → Bool
  | [], [] => true
  | x :: xs, y :: ys => jvEq x y && jvEqElems xs ys
  | _, _ => false
def jvEqMems : List (List Char × JV) → List (List Char × JV) → Bool
  | [], [] => true
  | (k, x) :: ms, (l, y) :: ns => k == l && jvEq x y && jvEqMems ms ns
  | _, _ => false
end

mutual
/-- the same value except that number lexemes may be any JSON numbers (used for precision > 0,
    where numbers are rounded): same nesting, member order, strings, keys and literals -/
def jvShapeEq : JV → JV → Bool
  | .lit a, .lit b => a == b
  | .num _, .num b => isJsonNumber b
  | .str a, .str b => a == b
  | .arr xs, .arr ys => jvShapeEqElems xs ys
  | .obj ms, .obj ns => jvShapeEqMems ms ns
  | _, _ => false
def jvShapeEqElems : List JV → List JV → Bool
  | [], [] => true
  | x :: xs, y :: ys => jvShapeEq x y && jvShapeEqElems xs ys
  | _, _ => false
def jvShapeEqMems : List (List Char × JV) → List (List Char × JV) → Bool
  | [], [] => true
  | (k, x) :: ms, (l, y) :: ns => k == l && jvShapeEq x y && jvShapeEqMems ms ns
  | _, _ => false
end

mutual
/-- apply `f` to every number lexeme -/
def mapNum (f : List Char → List Char) : JV → JV
  | .lit l => .lit l
  | .num s => .num (f s)
  | .str s => .str s
  | .arr xs => .arr (mapNumElems f xs)
  | .obj ms => .obj (mapNumMems f ms)
def mapNumElems (f : List Char → List Char) : List JV → List JV
  | [] => []
  | x :: r => mapNum f x :: mapNumElems f r
def mapNumMems (f : List Char → List Char) : List (List Char × JV) → List (List Char × JV)
  | [] => []
  | (k, x) :: r => (k, mapNum f x) :: mapNumMems f r
end

mutual
/-- number of number lexemes satisfying `p` -/
def countNum (p : List Char → Bool) : JV → Nat
  | .lit _ => 0
  | .num s => if p s then 1 else 0
  | .str _ => 0
  | .arr xs => countNumElems p xs
  | .obj ms => countNumMems p ms
def countNumElems (p : List Char → Bool) : List JV → Nat
  | [] => 0
  | x :: r => countNum p x + countNumElems p r
def countNumMems (p : List Char → Bool) : List (List Char × JV) → Nat
  | [] => 0
  | (_, x) :: r => countNum p x + countNumMems p r
end

/-! ## executable parser -/

def isWs (c : Char) : Bool := c == ' ' || c == '\t' || c == '\n' || c == '\r'

def skipWs (s : List Char) : List Char := s.dropWhile isWs

/-- characters that can occur in a number lexeme -/
def isNumChar (c : Char) : Bool := isDigit c || c == '-' || c == '+' || c == '.' || c == 'e' || c == 'E'

/-- maximal run of number characters, accepted iff it is a JSON number (no valid text has a number
    character directly after a number) -/
def scanNumber (s : List Char) : Option (List Char × List Char) :=
  let tok := s.takeWhile isNumChar
  if isJsonNumber tok then some (tok, s.dropWhile isNumChar) else none

/-- scan a string body (after the opening quote) up to and including the closing quote:
    returns (consumed, rest) -/
def scanStr : SSt → List Char → Option (List Char × List Char)
  | _, [] => none
  | .norm, c :: r =>
      if c == '"' then some (['"'], r)
      else if c == '\\' then (scanStr .esc r).map (fun (a, b) => (c :: a, b))
      else if 0x20 ≤ c.toNat then (scanStr .norm r).map (fun (a, b) => (c :: a, b)) else none
  | .esc, c :: r =>
      if c == 'u' then (scanStr (.hex 3) r).map (fun (a, b) => (c :: a, b))
      else if isEscChar c then (scanStr .norm r).map (fun (a, b) => (c :: a, b)) else none
  | .hex 0, c :: r => if isHex c then (scanStr .norm r).map (fun (a, b) => (c :: a, b)) else none
  | .hex (n + 1), c :: r => if isHex c then (scanStr (.hex n) r).map (fun (a, b) => (c :: a, b)) else none

/-- scan a string lexeme starting at its opening quote -/
def scanString : List Char → Option (List Char × List Char)
  | '"' :: r => (scanStr .norm r).map (fun (a, b) => ('"' :: a, b))
  | _ => none

mutual
/-- `ws value` — returns the value and the unconsumed rest -/
def parseV : Nat → List Char → Option (JV × List Char)
  | 0, _ => none
  | n + 1, s =>
    match skipWs s with
    | '[' :: r =>
      (match skipWs r with
       | ']' :: r' => some (.arr [], r')
       | _ => (parseElems n r).map (fun (xs, r') => (.arr xs, r')))
    | '{' :: r =>
      (match skipWs r with
       | '}' :: r' => some (.obj [], r')
       | _ => (parseMems n r).map (fun (ms, r') => (.obj ms, r')))
    | '"' :: r => (scanString ('"' :: r)).map (fun (a, b) => (.str a, b))
    | 't' :: 'r' :: 'u' :: 'e' :: r => some (.lit .tru, r)
    | 'f' :: 'a' :: 'l' :: 's' :: 'e' :: r => some (.lit .fls, r)
    | 'n' :: 'u' :: 'l' :: 'l' :: r => some (.lit .nul, r)
    | s' => (scanNumber s').map (fun (a, b) => (.num a, b))
/-- `value ws ( , value ws )* ]` -/
def parseElems : Nat → List Char → Option (List JV × List Char)
  | 0, _ => none
  | n + 1, s =>
    match parseV n s with
    | none => none
    | some (x, r) =>
      match skipWs r with
      | ',' :: r' => (parseElems n r').map (fun (xs, r'') => (x :: xs, r''))
      | ']' :: r' => some ([x], r')
      | _ => none
/-- `ws string ws : value ws ( , … )* }` -/
def parseMems : Nat → List Char → Option (List (List Char × JV) × List Char)
  | 0, _ => none
  | n + 1, s =>
    match scanString (skipWs s) with
    | none => none
    | some (k, r) =>
      match skipWs r with
      | ':' :: r1 =>
        (match parseV n r1 with
         | none => none
         | some (x, r2) =>
           match skipWs r2 with
           | ',' :: r3 => (parseMems n r3).map (fun (ms, r4) => ((k, x) :: ms, r4))
           | '}' :: r3 => some ([(k, x)], r3)
           | _ => none)
      | _ => none
end

/-- `JSON-text = ws value ws` -/
def parseFuel (n : Nat) (s : List Char) : Option JV :=
  match parseV n s with
  | some (v, r) => if (skipWs r).isEmpty then some v else none
  | none => none

def parseJ (s : List Char) : Option JV := parseFuel (2 * s.length + 2) s

end Verif.Spec.Json

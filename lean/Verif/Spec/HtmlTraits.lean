import Verif.Base.Pack
/-!
# HTML element / attribute classes (specification side of C17)

Hand transcription of the lists of the HTML Standard (https://html.spec.whatwg.org, living standard) that
justify the trait bits of `/repo/html/table.go`.  Names are packed strings (`pk! "div"`, `Base/Pack.lean`),
lower case.  Nothing here is derived from `/repo`.

What each trait makes the minifier do (read from `/repo/html/html.go`), and hence what a name must satisfy:

* `booleanAttr` — the attribute value is dropped (`checked="checked"` → `checked`).  Sound iff the attribute is
  a *boolean attribute* (§2.3.2: presence alone means true, the value is irrelevant).
* `urlAttr` — value trimmed, `HTTP:`/`HTTPS:` scheme lower-cased or (with `M.URL`) stripped, `data:` URLs
  re-encoded.  Sound iff the value is parsed as a URL (the URL parser strips leading/trailing C0 control or space
  and lower-cases the scheme), i.e. the attribute is "valid URL potentially surrounded by spaces".
* `rawTag` — the text that follows the start tag is not rewritten as HTML text (no entity replacement, no
  whitespace collapsing); for `script`/`style`/`iframe` it is handed to the sub-minifier of its media type.
* `blockTag` — white space before the start/end tag and after it is removed.  Sound iff white space next to the
  element's boundary is insignificant for rendering.
-/
namespace Verif.Spec.HtmlTraits
open Verif

/-! ## boolean attributes -/

/-- HTML Standard, "Attributes" index: every attribute whose value column says "Boolean attribute" -/
def booleanAttrs : List Nat :=
  [pk! "allowfullscreen", pk! "alpha", pk! "async", pk! "autofocus", pk! "autoplay", pk! "checked",
   pk! "controls", pk! "default", pk! "defer", pk! "disabled", pk! "formnovalidate", pk! "inert",
   pk! "ismap", pk! "itemscope", pk! "loop", pk! "multiple", pk! "muted", pk! "nomodule",
   pk! "novalidate", pk! "open", pk! "playsinline", pk! "readonly", pk! "required", pk! "reversed",
   pk! "selected", pk! "shadowrootclonable", pk! "shadowrootcustomelementregistry",
   pk! "shadowrootdelegatesfocus", pk! "shadowrootserializable"]

/-- obsolete boolean attributes (HTML 4.01 DTD `(name)` enumerations; HTML Standard §16.2) -/
def booleanAttrsObsolete : List Nat :=
  [pk! "compact", pk! "declare", pk! "nohref", pk! "noresize", pk! "noshade", pk! "nowrap",
   pk! "truespeed", pk! "scoped", pk! "seamless", pk! "sortable", pk! "typemustmatch"]

def isBooleanAttr (n : Nat) : Bool := booleanAttrs.contains n || booleanAttrsObsolete.contains n

/-! ## URL-valued attributes -/

/-- HTML Standard, "Attributes" index: value "Valid (non-empty) URL potentially surrounded by spaces" -/
def urlAttrs : List Nat :=
  [pk! "action", pk! "cite", pk! "data", pk! "formaction", pk! "href", pk! "itemid", pk! "manifest",
   pk! "poster", pk! "src"]

/-- obsolete attributes of type `%URI;` in the HTML 4.01 DTD (HTML Standard §16.2 lists them as obsolete);
    `profile` (on `head`): "only the first URI is significant" -/
def urlAttrsObsolete : List Nat :=
  [pk! "background", pk! "classid", pk! "codebase", pk! "longdesc", pk! "profile", pk! "usemap"]

def isUrlAttr (n : Nat) : Bool := urlAttrs.contains n || urlAttrsObsolete.contains n

/-! ## elements whose content the tokenizer does not treat as ordinary HTML text -/

/-- §13.1.2 "Raw text elements" -/
def rawTextElements : List Nat := [pk! "script", pk! "style"]

/-- §13.1.2 "Escapable raw text elements" (character references are decoded, tags are not recognised) -/
def escapableRawTextElements : List Nat := [pk! "textarea", pk! "title"]

/-- elements that the *tree construction* stage switches to RAWTEXT (generic raw text element parsing
    algorithm: "in body" insertion mode `xmp`, `iframe`, `noembed`, `noscript` with scripting; "in head" `noframes`)
    or to PLAINTEXT (`plaintext`): their content is a single text node without reference decoding -/
def parserRawTextElements : List Nat :=
  [pk! "iframe", pk! "noembed", pk! "noframes", pk! "noscript", pk! "plaintext", pk! "xmp"]

/-- §13.1.2 "Foreign elements" roots.  Their content is not HTML text (it follows the foreign-content rules:
    CDATA sections, self-closing tags).  The minifier's lexer (dependency `parse/v2/html`) hands the whole
    `<svg>…</svg>` / `<math>…</math>` to the caller as one token, so the trait is inert for them; leaving
    following text untouched is the conservative choice in any case. -/
def foreignRoots : List Nat := [pk! "svg", pk! "math"]

/-- elements for which "the text after the start tag is not rewritten as HTML text" is justified -/
def isRawJustified (n : Nat) : Bool :=
  rawTextElements.contains n || escapableRawTextElements.contains n ||
  parserRawTextElements.contains n || foreignRoots.contains n

/-! ## elements next to whose boundary white space is insignificant for rendering (HTML Standard §15 Rendering) -/

/-- `display: block` / `list-item` in the user-agent style sheet of §15 Rendering ("Non-replaced elements":
    The page; Flow content; Sections and headings; Lists; The fieldset and legend elements.
    "Widgets": The details and summary elements) -/
def blockLevel : List Nat :=
  [pk! "html", pk! "body",
   pk! "address", pk! "blockquote", pk! "center", pk! "dialog", pk! "div", pk! "figure", pk! "figcaption",
   pk! "footer", pk! "form", pk! "header", pk! "hr", pk! "legend", pk! "listing", pk! "main", pk! "p",
   pk! "plaintext", pk! "pre", pk! "search", pk! "xmp",
   pk! "article", pk! "aside", pk! "h1", pk! "h2", pk! "h3", pk! "h4", pk! "h5", pk! "h6", pk! "hgroup",
   pk! "nav", pk! "section",
   pk! "dir", pk! "dd", pk! "dl", pk! "dt", pk! "menu", pk! "ol", pk! "ul", pk! "li",
   pk! "fieldset", pk! "details", pk! "summary"]

/-- §15 Rendering, "Tables": `display: table`, `table-caption`, `table-column(-group)`, `table-*-group`, `table-row`,
    `table-cell` (white space between table parts is never rendered; cells are block containers) -/
def tableParts : List Nat :=
  [pk! "table", pk! "caption", pk! "colgroup", pk! "col", pk! "thead", pk! "tbody", pk! "tfoot",
   pk! "tr", pk! "td", pk! "th"]

/-- §15 Rendering, "Phrasing content": `br { display-outside: newline }` — a forced line break; collapsible white space
    at the end and at the start of a line is removed (CSS Text §4.1.2) -/
def lineBreak : List Nat := [pk! "br"]

/-- §15 Rendering, "Hidden elements": `display: none`.  (`noscript` is *not* listed: it is only
    `display: none !important` when scripting is enabled; with scripting disabled it is an inline element and
    white space next to it is rendered.) -/
def notRendered : List Nat :=
  [pk! "area", pk! "base", pk! "basefont", pk! "datalist", pk! "head", pk! "link", pk! "meta",
   pk! "noembed", pk! "noframes", pk! "param", pk! "rp", pk! "script", pk! "style", pk! "template",
   pk! "title"]

/-- §4.10 "The option element": the label and value of an `option` are its text with ASCII white space
    *stripped and collapsed*; `select` and `optgroup` render only their `option`/`optgroup` children
    (§15 Rendering, "The select element": a list box or drop-down; `option { display: block }` in every
    engine's style sheet) — white space at the boundary
    of these elements is never rendered -/
def selectParts : List Nat := [pk! "option", pk! "optgroup"]

def isWsInsignificant (n : Nat) : Bool :=
  blockLevel.contains n || tableParts.contains n || lineBreak.contains n || notRendered.contains n ||
  selectParts.contains n

/-! ## JavaScript MIME types -/

/-- WHATWG MIME Sniffing, "JavaScript MIME type": the sixteen essences -/
def jsMimeTypes : List Nat :=
  [pk! "application/ecmascript", pk! "application/javascript", pk! "application/x-ecmascript",
   pk! "application/x-javascript", pk! "text/ecmascript", pk! "text/javascript", pk! "text/javascript1.0",
   pk! "text/javascript1.1", pk! "text/javascript1.2", pk! "text/javascript1.3", pk! "text/javascript1.4",
   pk! "text/javascript1.5", pk! "text/jscript", pk! "text/livescript", pk! "text/x-ecmascript",
   pk! "text/x-javascript"]

/-! ## SVG -/

/-- SVG 1.1 / SVG 2 presentation attributes whose value is `<color>` or `<paint>` (a colour keyword or hex colour
    is a complete value): SVG 2 "Painting" (`fill`, `stroke`, `color`), "Paint servers" (`stop-color`),
    Filter Effects (`flood-color`, `lighting-color`); SVG Tiny 1.2 (`solid-color`, `viewport-fill`) -/
def svgColorAttrs : List Nat :=
  [pk! "color", pk! "fill", pk! "stroke", pk! "stop-color", pk! "flood-color", pk! "lighting-color",
   pk! "solid-color", pk! "viewport-fill"]

end Verif.Spec.HtmlTraits

import Verif.Base.Pack
import Verif.Spec.HtmlTraits
import Verif.Gen.TagTraits
import Verif.Gen.AttrTraits
/-!
# C17 — per-row checkers for `html.tagMap` / `html.attrMap` (see `Spec/TableChecks.lean`)

Separate module because it depends on the regenerated trait enumerations: a change of a trait table then does
not invalidate the (expensive) entity-table proof.  Core only.
-/
namespace Verif.Spec.TableChecks
open Verif Verif.Spec.HtmlTraits
open Verif.Gen.TagTraits (TagTrait)
open Verif.Gen.AttrTraits (AttrTrait)

def boolAttrRowOk (row : Nat × List AttrTrait) : Bool :=
  !row.2.contains AttrTrait.booleanAttr || isBooleanAttr row.1

def urlAttrRowOk (row : Nat × List AttrTrait) : Bool :=
  !row.2.contains AttrTrait.urlAttr || isUrlAttr row.1

def rawTagRowOk (row : Nat × List TagTrait) : Bool :=
  !row.2.contains TagTrait.rawTag || isRawJustified row.1

def blockTagRowOk (row : Nat × List TagTrait) : Bool :=
  !row.2.contains TagTrait.blockTag || isWsInsignificant row.1

end Verif.Spec.TableChecks

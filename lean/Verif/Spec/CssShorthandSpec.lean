import Verif.Spec.CssValue
/-!
# The `font` and `background` shorthands: component slots with initial values (specification side of C04B)

Independent of the model of the minifier.  Completes `Spec.CssValue.verdict`, which does not judge the two shorthands.

* `fontDen` — CSS Fonts 3 §3.7: `[ <style> || <variant-css21> || <weight> || <stretch> ]? <size> [ / <line-height> ]?
  <family>#`; every omitted component has its initial value (`normal`, weight 400, line-height `normal`).
* `bgLayer` — CSS Backgrounds 3 §3.10: `<bg-image> || <bg-position> [ / <bg-size> ]? || <repeat-style> ||
  <attachment> || <box> || <box>`, the final layer also `<'background-color'>`; initial values `none`, `0% 0%`,
  `auto auto`, `repeat`, `scroll`, `padding-box`, `border-box`, `transparent`; a single `<box>` sets origin and clip.
* `verdictB` — `verdict` extended by the two denotations (1 same, 0 different, 2 not judged).
-/
set_option maxRecDepth 100000
namespace Verif.Spec.CssShorthand
open Verif.Spec.CssValue

def S (s : String) : List Char := s.toList

/-! ## font -/

def fontStyles : List (List Char) := ["italic", "oblique"].map S
def fontVariants : List (List Char) := ["small-caps"].map S
def fontWeightKws : List (List Char) := ["bold", "bolder", "lighter"].map S
def fontStretches : List (List Char) :=
  ["ultra-condensed", "extra-condensed", "condensed", "semi-condensed", "semi-expanded", "expanded",
   "extra-expanded", "ultra-expanded"].map S
def fontSizeKws : List (List Char) :=
  ["xx-small", "x-small", "small", "medium", "large", "x-large", "xx-large", "xxx-large", "larger", "smaller", "math"].map S

inductive PreSlot where | normal | style | variant | weight | stretch
  deriving DecidableEq, Repr

/-- the component a token in front of the font size sets -/
def preSlot (t : Tok) : Option PreSlot :=
  match t.tt with
  | .ident =>
    let k := lower t.data
    if k == S "normal" then some .normal
    else if fontStyles.contains k then some .style
    else if fontVariants.contains k then some .variant
    else if fontWeightKws.contains k then some .weight
    else if fontStretches.contains k then some .stretch
    else none
  | .number =>
    match numVal t.data with
    | some q => if 1 ≤ q && q ≤ 1000 then some .weight else none
    | none => none
  | _ => none

def lengthFnNames : List (List Char) := ["calc", "min", "max", "clamp"].map S

def isLengthPct (t : Tok) : Bool :=
  match numOf t with
  | some (.dimension _ _) => true
  | some (.percentage _) => true
  | some (.number q) => q == 0
  | none => t.tt == .function && lengthFnNames.contains (funcName t)

def isFontSize (t : Tok) : Bool :=
  (t.tt == .ident && fontSizeKws.contains (lower t.data)) || isLengthPct t

def isLineHeight (t : Tok) : Bool :=
  isKw t "normal" || t.tt == .number || isLengthPct t

structure FontDen where
  style : List Char
  variant : List Char
  weight : Weight
  stretch : List Char
  size : Tok
  lineHeight : Tok
  families : List Family
  deriving DecidableEq, Repr

def normalTok : Tok := .mk .ident (S "normal") []

/-- normal form of a size / line-height component -/
def compNorm (t : Tok) : Tok := if t.tt == .ident then .mk .ident (lower t.data) [] else normTok [] t

/-- fill the slots in front of the size; `none` when a slot is set twice or more than four tokens are given -/
def fillPre : List Tok → FontDen → List PreSlot → Option FontDen
  | [], d, _ => some d
  | t :: r, d, used =>
    match preSlot t with
    | none => none
    | some .normal => if used.length ≥ 4 then none else fillPre r d (.normal :: used)
    | some s =>
      if used.contains s || used.length ≥ 4 then none else
      let d' : Option FontDen := match s with
        | .style => some { d with style := lower t.data }
        | .variant => some { d with variant := lower t.data }
        | .stretch => some { d with stretch := lower t.data }
        | .weight => (fontWeightVal t).map fun w => { d with weight := w }
        | .normal => some d
      match d' with
      | some d' => fillPre r d' (s :: used)
      | none => none

/-- the components of a `font` value (tokens without white space); `none` = not of the grammar above (system
font keywords and CSS-wide keywords included: they are single tokens and are never rewritten) -/
def fontDen (vs : List Tok) : Option FontDen :=
  let pre := vs.takeWhile fun t => (preSlot t).isSome
  match vs.dropWhile fun t => (preSlot t).isSome with
  | size :: rest =>
    if !isFontSize size then none else
    let lhFam : Option (Tok × List Tok) :=
      match rest with
      | sl :: l :: f => if isSlash sl then (if isLineHeight l then some (compNorm l, f) else none) else some (normalTok, rest)
      | _ => some (normalTok, rest)
    match lhFam with
    | none => none
    | some (lh, fam) =>
      if fam.isEmpty then none else
      match fontFamilies fam with
      | none => none
      | some fs =>
        fillPre pre ⟨S "normal", S "normal", .abs 400, S "normal", compNorm size, lh, fs⟩ []
  | [] => none

/-! ## background -/

def attachments : List (List Char) := ["scroll", "fixed", "local"].map S
def boxes : List (List Char) := ["border-box", "padding-box", "content-box"].map S
def imageFnSuffix : List Char := S "gradient"
def imageFns : List (List Char) := ["image", "image-set", "-webkit-image-set", "cross-fade", "element", "paint"].map S

def isImageTok (t : Tok) : Bool :=
  t.tt == .url ||
  (t.tt == .function &&
    (imageFns.contains (funcName t) || (funcName t).drop ((funcName t).length - imageFnSuffix.length) == imageFnSuffix ||
     funcName t == S "url"))

def isPosTok (t : Tok) : Bool := (pkwOf t).isSome || (offOf t).isSome && !(t.tt == .function && !lengthFnNames.contains (funcName t))

def isSizeTok (t : Tok) : Bool := isKw t "auto" || isLengthPct t

def isColorTok (t : Tok) : Bool := isKw t "currentcolor" || (rgba t).isSome

structure BgLayer where
  image : Option Tok
  position : Off × Off
  size : Tok × Tok
  rep : List Char × List Char
  attachment : List Char
  origin : List Char
  clip : List Char
  color : Tok
  deriving DecidableEq, Repr

def transparentTok : Tok := normTok [] (.mk .ident (S "transparent") [])

def bgInitial : BgLayer :=
  ⟨none, (pct 0, pct 0), (autoTok, autoTok), (S "repeat", S "repeat"), S "scroll", S "padding-box", S "border-box", transparentTok⟩

inductive BgSlot where | image | position | rep | attachment | box1 | box2 | color
  deriving DecidableEq, Repr

/-- normal form of a `<bg-size>` component: a zero percentage and a zero length are the same size -/
def sizeNorm (t : Tok) : Tok :=
  match numOf t with
  | some (.percentage q) => if q == 0 then zeroTok else compNorm t
  | _ => compNorm t

/-- the `<bg-size>` behind a slash: (size, rest) -/
def takeSize (ts : List Tok) : Option ((Tok × Tok) × List Tok) :=
  match ts with
  | a :: r =>
    if isKw a "cover" || isKw a "contain" then some ((compNorm a, compNorm a), r)
    else if isSizeTok a then
      match r with
      | b :: r' => if isSizeTok b then some ((sizeNorm a, sizeNorm b), r') else some ((sizeNorm a, autoTok), r)
      | [] => some ((sizeNorm a, autoTok), [])
    else none
  | [] => none

/-- one layer; `last` = the final layer (colour allowed) -/
def layerGo (last : Bool) : Nat → List Tok → BgLayer → List BgSlot → Option BgLayer
  | 0, _, _, _ => none
  | _ + 1, [], d, _ => some d
  | fuel + 1, t :: r, d, used =>
    if isKw t "none" || isImageTok t then
      if used.contains .image then none
      else layerGo last fuel r { d with image := if isKw t "none" then none else some (normTok [] t) } (.image :: used)
    else if isPosTok t then
      if used.contains .position then none else
      let run := (t :: r).takeWhile isPosTok
      let rest := (t :: r).dropWhile isPosTok
      match position run with
      | none => none
      | some p =>
        match rest with
        | sl :: rest' =>
          if isSlash sl then
            match takeSize rest' with
            | some (sz, rest'') =>
              if rest''.length < (t :: r).length then layerGo last fuel rest'' { d with position := p, size := sz } (.position :: used) else none
            | none => none
          else layerGo last fuel rest { d with position := p } (.position :: used)
        | [] => some { d with position := p }
    else if (kwOf t).any fun k => repeatKeywords.contains k || k == S "repeat-x" || k == S "repeat-y" then
      if used.contains .rep then none else
      match r with
      | n :: r' =>
        match bgRepeat [t, n] with
        | some rp => layerGo last fuel r' { d with rep := rp } (.rep :: used)
        | none => (bgRepeat [t]).bind fun rp => layerGo last fuel r { d with rep := rp } (.rep :: used)
      | [] => (bgRepeat [t]).map fun rp => { d with rep := rp }
    else if (kwOf t).any attachments.contains then
      if used.contains .attachment then none else layerGo last fuel r { d with attachment := lower t.data } (.attachment :: used)
    else if (kwOf t).any boxes.contains then
      if used.contains .box2 then none
      else if used.contains .box1 then layerGo last fuel r { d with clip := lower t.data } (.box2 :: used)
      else layerGo last fuel r { d with origin := lower t.data, clip := lower t.data } (.box1 :: used)
    else if isColorTok t then
      if !last || used.contains .color then none
      else layerGo last fuel r { d with color := if t.tt == .ident && !(rgba t).isSome then .mk .ident (lower t.data) [] else normTok [] t } (.color :: used)
    else none

def bgLayer (last : Bool) (ts : List Tok) : Option BgLayer :=
  if ts.isEmpty then none else layerGo last (ts.length + 1) ts bgInitial []

def bgLayersGo : List (List Tok) → Option (List BgLayer)
  | [] => some []
  | [l] => (bgLayer true l).map ([·])
  | l :: r => match bgLayer false l, bgLayersGo r with
    | some x, some xs => some (x :: xs)
    | _, _ => none

/-- all layers of a `background` value (tokens without white space) -/
def bgDen (vs : List Tok) : Option (List BgLayer) := bgLayersGo (splitCommas vs)

/-! ## the judgement -/

def excluded (a : List Tok) : Bool :=
  anyToks hslTie a || anyToks isProgid a || anyToks isProgidString a || anyToks badColorFn a

/-- `Spec.CssValue.verdict`, with `font` and `background` judged by their component slots -/
def verdictB (prop : List Char) (a b : List Tok) : Nat :=
  let v := verdict prop a b
  if v != 2 then v else
  let a' := a.filter fun t => t.tt != .whitespace
  let b' := b.filter fun t => t.tt != .whitespace
  if excluded a' then 2
  else if prop == S "font" then cmpDen (fontDen a') (fontDen b')
  else if prop == S "background" then cmpDen (bgDen a') (bgDen b')
  else 2

end Verif.Spec.CssShorthand

import Verif.Spec.CssValue
/-!
# Grammar events and rule trees of a style sheet (vocabulary of C04B)

The dependency parser `css.Parser` (parse/v2, **by contract**) turns a style sheet into a stream of grammar events
`(GrammarType, data, values)`; `Ev` is one of them.  A *rule tree* (`Node`) is the nesting structure of such a
stream: a block is opened by a `beginAtRule` / `beginRuleset` event and closed by the matching end event.
`flatten` writes a tree back as the event stream; `treeOf` reads any event stream as a tree (stray end events stay
leaves, a block that is never closed has no closing event), so that `flatten (treeOf evs) = evs` for every list.

Nothing here depends on the minifier.
-/
namespace Verif.Spec.CssGrammar
open Verif.Spec.CssValue (TT Tok)

/-- `css.GrammarType` of the dependency, in its order (`error` = 0) -/
inductive GT where
  | error | comment | atRule | beginAtRule | endAtRule | qualifiedRule | beginRuleset | endRuleset
  | declaration | token | customProperty
  deriving DecidableEq, Repr, Inhabited

def GT.all : List GT :=
  [.error, .comment, .atRule, .beginAtRule, .endAtRule, .qualifiedRule, .beginRuleset, .endRuleset,
   .declaration, .token, .customProperty]

def GT.ofCode (n : Nat) : GT := GT.all.getD n .error

/-- one grammar event: what `Parser.Next()` returns (`data`) and `Parser.Values()` (flat tokens, `args = []`).
An `error` event in a stream is a parse error (the end of input is the end of the list). -/
structure Ev where
  gt : GT
  data : List Char
  vals : List Tok
  deriving DecidableEq, Repr, Inhabited

def Ev.isOpen (e : Ev) : Bool := e.gt == .beginAtRule || e.gt == .beginRuleset
def Ev.isClose (e : Ev) : Bool := e.gt == .endAtRule || e.gt == .endRuleset

/-- rule tree -/
inductive Node where
  | leaf (e : Ev)
  | block (op : Ev) (kids : List Node) (cl : Option Ev)
  deriving Repr, Inhabited

mutual
def flattenNode : Node → List Ev
  | .leaf e => [e]
  | .block op kids cl => op :: (flattenList kids ++ cl.toList)
def flattenList : List Node → List Ev
  | [] => []
  | n :: r => flattenNode n ++ flattenList r
end

/-- the event stream of a tree -/
def flatten (t : List Node) : List Ev := flattenList t

/-- read nodes up to (excluding) the next unmatched end event; `top` = at the top level, where an end event
matches nothing and stays a leaf -/
def parseNodes : Nat → Bool → List Ev → List Node × List Ev
  | 0, _, evs => ([], evs)
  | _ + 1, _, [] => ([], [])
  | fuel + 1, top, e :: r =>
    if e.isClose then
      if top then
        let (ns, rest) := parseNodes fuel top r
        (.leaf e :: ns, rest)
      else ([], e :: r)
    else if e.isOpen then
      let (kids, rest) := parseNodes fuel false r
      match rest with
      | c :: rest' =>
        -- `parseNodes … false` stops at an end event only
        let (ns, rest'') := parseNodes fuel top rest'
        (.block e kids (some c) :: ns, rest'')
      | [] => ([.block e kids none], [])
    else
      let (ns, rest) := parseNodes fuel top r
      (.leaf e :: ns, rest)

/-- the rule tree of an event stream -/
def treeOf (evs : List Ev) : List Node := (parseNodes (evs.length + 1) true evs).1

mutual
/-- a tree as the parser produces it for a style sheet without parse errors: leaves are neither begin, end nor
error events, every block is closed by an end event of its own kind -/
def Node.wf : Node → Bool
  | .leaf e => !e.isOpen && !e.isClose && e.gt != .error
  | .block op kids cl =>
    op.isOpen && wfList kids &&
    (match cl with
     | some c => (op.gt == .beginAtRule && c.gt == .endAtRule) || (op.gt == .beginRuleset && c.gt == .endRuleset)
     | none => false)
def wfList : List Node → Bool
  | [] => true
  | n :: r => n.wf && wfList r
end

/-! ## serialisation of a rule tree

`renderList body t` writes the tree `t` given the bytes `body e` of every event: the items of a block in order, a
block as its opening bytes, its items and `}`; a *statement* (at-rule statement, declaration, custom property) is
separated from a following sibling by one `;` — nothing follows the last item of a block. -/

def Node.isStmt : Node → Bool
  | .leaf e => e.gt == .atRule || e.gt == .declaration || e.gt == .customProperty
  | .block _ _ _ => false

mutual
def renderNode (body : Ev → List Char) : Node → List Char
  | .leaf e => body e
  | .block op kids _ => body op ++ (renderList body kids ++ ['}'])
def renderList (body : Ev → List Char) : List Node → List Char
  | [] => []
  | n :: r => renderNode body n ++ ((if n.isStmt && !r.isEmpty then [';'] else []) ++ renderList body r)
end

/-- number of rule blocks (qualified rules and at-rule blocks) in a tree, empty ones included -/
def countBlocks : List Ev → Nat := fun evs => (evs.filter Ev.isOpen).length

end Verif.Spec.CssGrammar

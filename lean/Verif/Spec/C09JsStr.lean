import Verif.Spec.C09JsLex
/-!
# C09 (JS) — the value of a string literal / template (ECMA-262 §12.9.4, §12.9.6, Annex B.1.2)

`strValue lit` is the string value (SV / cooked TV) of a StringLiteral `"…"`, `'…'` or a NoSubstitutionTemplate
`` `…` `` given as bytes (UTF-8 source text in the Latin-1 embedding): the sequence of its code points, each written
as UTF-8 bytes (lone surrogates of `\uD800`-style escapes in the generalized form), so that two literals have the
same value iff `strValue` gives the same bytes.  `none`: not a well-formed literal.

`strOutOk inLit outLit`: what C09 demands of a printed literal: it is one well-formed literal token with the value
of the input literal, a string literal contains no raw line terminator (that is well-formedness), and it contains
neither `</script` (any case) nor `<!--` (what the printer guarantees since /repo a80add2: it writes `<\/script`, `<\!--`).
-/
namespace Verif.Spec.C09JsStr
open Verif.Spec.C09JsLex

def hexVal (c : Char) : Option Nat :=
  if c.isDigit then some (c.toNat - 48)
  else if 'a' ≤ c && c ≤ 'f' then some (c.toNat - 87)
  else if 'A' ≤ c && c ≤ 'F' then some (c.toNat - 55)
  else none

def hexNum (cs : List Char) : Option Nat :=
  cs.foldl (fun acc c => match acc, hexVal c with | some a, some v => some (a * 16 + v) | _, _ => none) (some 0)

/-- (generalized) UTF-8 of a code point -/
def utf8 (n : Nat) : List Nat :=
  if n < 0x80 then [n]
  else if n < 0x800 then [0xC0 + n / 64, 0x80 + n % 64]
  else if n < 0x10000 then [0xE0 + n / 4096, 0x80 + n / 64 % 64, 0x80 + n % 64]
  else [0xF0 + n / 262144, 0x80 + n / 4096 % 64, 0x80 + n / 64 % 64, 0x80 + n % 64]

/-- a decoded item: a raw source byte or the code point of an escape sequence -/
inductive Item where
  | byte (b : Nat)
  | cp (n : Nat)
deriving Repr, DecidableEq

/-- join surrogate pairs that come from two adjacent `\u` escapes, then write everything as bytes -/
def flatten : List Item → List Nat
  | [] => []
  | .cp hi :: .cp lo :: r =>
    if 0xD800 ≤ hi && hi < 0xDC00 && 0xDC00 ≤ lo && lo < 0xE000 then
      utf8 (0x10000 + (hi - 0xD800) * 1024 + (lo - 0xDC00)) ++ flatten r
    else utf8 hi ++ flatten (.cp lo :: r)
  | .cp n :: r => utf8 n ++ flatten r
  | .byte b :: r => b :: flatten r

/-- body of a literal delimited by `q`; `tmpl`: template rules (no legacy octal escapes, CR LF → LF) -/
def decode (q : Char) (tmpl : Bool) : Nat → List Char → Option (List Item)
  | 0, _ => none
  | _ + 1, [] => none
  | fuel + 1, c :: r =>
    if c == q then (if r.isEmpty then some [] else none)
    else if !tmpl && isLT c then none
    else if tmpl && c == '$' && r.head? == some '{' then none
    else if tmpl && c == '\r' then
      (decode q tmpl fuel (if r.head? == some '\n' then r.drop 1 else r)).map (.byte 10 :: ·)
    else if c != '\\' then (decode q tmpl fuel r).map (.byte c.toNat :: ·)
    else
      match r with
      | [] => none
      | d :: r2 =>
        let simple (n : Nat) := (decode q tmpl fuel r2).map (.cp n :: ·)
        if d == 'b' then simple 8 else if d == 't' then simple 9 else if d == 'n' then simple 10
        else if d == 'v' then simple 11 else if d == 'f' then simple 12 else if d == 'r' then simple 13
        else if d == '\n' then decode q tmpl fuel r2
        else if d == '\r' then decode q tmpl fuel (if r2.head? == some '\n' then r2.drop 1 else r2)
        else if startsLS (d :: r2) then decode q tmpl fuel (r2.drop 2)
        else if d == 'x' then
          match r2 with
          | a :: b :: r3 => (match hexNum [a, b] with
            | some n => (decode q tmpl fuel r3).map (.cp n :: ·)
            | none => none)
          | _ => none
        else if d == 'u' then
          match r2 with
          | '{' :: r3 =>
            let hs := r3.takeWhile isHexDigit
            (match hexNum hs, (r3.dropWhile isHexDigit) with
             | some n, '}' :: r4 => if hs.isEmpty || n > 0x10FFFF then none else (decode q tmpl fuel r4).map (.cp n :: ·)
             | _, _ => none)
          | a :: b :: c2 :: e :: r3 => (match hexNum [a, b, c2, e] with
            | some n => (decode q tmpl fuel r3).map (.cp n :: ·)
            | none => none)
          | _ => none
        else if isOctDigit d then
          -- `\0` not followed by a digit; otherwise a legacy octal escape (not in templates)
          let ds := (d :: r2).takeWhile isOctDigit
          if d == '0' && !(r2.head?.any Char.isDigit) then simple 0
          else if tmpl then none
          else
            let k := if d.toNat ≤ '3'.toNat then min ds.length 3 else min ds.length 2
            let n := (ds.take k).foldl (fun a x => a * 8 + (x.toNat - 48)) 0
            (decode q tmpl fuel ((d :: r2).drop k)).map (.cp n :: ·)
        else if d == '8' || d == '9' then (if tmpl then none else (decode q tmpl fuel r2).map (.byte d.toNat :: ·))
        else (decode q tmpl fuel r2).map (.byte d.toNat :: ·)

/-- the value of a string literal or of a template without substitutions, as bytes -/
def strValue (lit : List Char) : Option (List Nat) :=
  match lit with
  | q :: r =>
    if q == '"' || q == '\'' then (decode q false (r.length + 1) r).map flatten
    else if q == '`' then (decode q true (r.length + 1) r).map flatten
    else none
  | [] => none

def lower (c : Char) : Char := if 'A' ≤ c && c ≤ 'Z' then Char.ofNat (c.toNat + 32) else c

def hasInfix (pat : List Char) : List Char → Bool
  | [] => pat.isEmpty
  | c :: r => pat.isPrefixOf (c :: r) || hasInfix pat r

def hasScriptEnd (cs : List Char) : Bool := hasInfix "</script".toList (cs.map lower)
def hasCommentOpen (cs : List Char) : Bool := hasInfix "<!--".toList cs

/-- the printed literal `outLit` is acceptable for the input literal `inLit` -/
def strOutOk (inLit outLit : List Char) : Bool :=
  (match strValue inLit, strValue outLit with
   | some a, some b => a == b
   | _, _ => false)
  && !hasScriptEnd outLit && !hasCommentOpen outLit

end Verif.Spec.C09JsStr

/-!
# Specification: SVG 1.1 path data (§8.3) — lexer, parser, absolute segments, equivalence

Independent of the model of `ShortenPathData`; core Lean only; everything executable so that the
harness can evaluate the property on the *real implementation's output* (`spec.c05.*` driver ops).

* `lexPath : List Char → Option (List PTok)` — tokens of the SVG 1.1 path grammar: the 20 command
  letters, numbers in every notation of the grammar (`1`, `-1`, `+1`, `1.`, `.5`, `1.5`, `1e2`, `1E-2`,
  `1.5e+3`; longest match, so `1-2` = `1`,`-2`; `.5.5` = `.5`,`.5`; `1e2.5` = `1e2`,`.5`), single-character
  arc flags at argument positions 3 and 4 of an elliptical-arc argument group (`A1 1 0 011 1`).
  Whitespace and commas are accepted anywhere between tokens (a superset of the grammar's
  `comma-wsp` placement — this only makes the property theorems stronger; outputs never contain commas).
* `parsePath : List PTok → Option (List Cmd)` — one `Cmd` per argument group; implicit repetition of
  the command; groups after the first of a moveto are linetos.
* `absSegments : List Cmd → List Seg` — absolute segments: end points, control points (including the
  reflected control points of S/T), arc radii/rotation/flags, closepath back to the subpath start.
* `norm` / `equiv` (`≃`) — drops zero-length lines (incl. a closepath directly after a closepath),
  replaces *exactly* degenerate curves (every control point equals the start or the end point) by lines.

Numbers are exact rationals (`Rat`): a decimal lexeme `±d.dde±x` denotes `±ddd · 10^(x−fraclen)`.
-/
namespace Verif.Spec.SvgPath

abbrev Pt := Rat × Rat

def isDigit (c : Char) : Bool := '0' ≤ c && c ≤ '9'
def isWsp (c : Char) : Bool := c == ' ' || c == '\t' || c == '\n' || c == '\r'
def isExpChar (c : Char) : Bool := c == 'e' || c == 'E'

/-- command kinds; with the `rel` flag these are the 20 command letters -/
inductive Kind | M | L | H | V | C | S | Q | T | A | Z
  deriving DecidableEq, Repr, Inhabited

def Kind.arity : Kind → Nat
  | .M => 2 | .L => 2 | .H => 1 | .V => 1 | .C => 6 | .S => 4 | .Q => 4 | .T => 2 | .A => 7 | .Z => 0

def Kind.upper : Kind → Char
  | .M => 'M' | .L => 'L' | .H => 'H' | .V => 'V' | .C => 'C' | .S => 'S' | .Q => 'Q' | .T => 'T' | .A => 'A' | .Z => 'Z'
def Kind.lower : Kind → Char
  | .M => 'm' | .L => 'l' | .H => 'h' | .V => 'v' | .C => 'c' | .S => 's' | .Q => 'q' | .T => 't' | .A => 'a' | .Z => 'z'

/-- the letter of a command (`rel` = lower case) -/
def letter (k : Kind) (rel : Bool) : Char := if rel then k.lower else k.upper

/-- command letter → (kind, relative?) -/
def kindOf (c : Char) : Option (Kind × Bool) :=
  if c = 'M' then some (.M, false) else if c = 'm' then some (.M, true)
  else if c = 'L' then some (.L, false) else if c = 'l' then some (.L, true)
  else if c = 'H' then some (.H, false) else if c = 'h' then some (.H, true)
  else if c = 'V' then some (.V, false) else if c = 'v' then some (.V, true)
  else if c = 'C' then some (.C, false) else if c = 'c' then some (.C, true)
  else if c = 'S' then some (.S, false) else if c = 's' then some (.S, true)
  else if c = 'Q' then some (.Q, false) else if c = 'q' then some (.Q, true)
  else if c = 'T' then some (.T, false) else if c = 't' then some (.T, true)
  else if c = 'A' then some (.A, false) else if c = 'a' then some (.A, true)
  else if c = 'Z' then some (.Z, false) else if c = 'z' then some (.Z, true)
  else none

/-! ## numbers -/

def digitsVal (ds : List Char) : Nat := ds.foldl (fun a c => a * 10 + (c.toNat - 48)) 0

def pow10 (e : Int) : Rat :=
  if 0 ≤ e then ((10 ^ e.toNat : Nat) : Rat) else 1 / ((10 ^ (-e).toNat : Nat) : Rat)

/-- longest prefix of digits and the rest -/
def spanD (l : List Char) : List Char × List Char := (l.takeWhile isDigit, l.dropWhile isDigit)

def takeSign : List Char → List Char × List Char
  | '+' :: r => (['+'], r)
  | '-' :: r => (['-'], r)
  | l => ([], l)

/-- optional exponent part after mantissa `acc` -/
def lexExp (acc : List Char) (r : List Char) : List Char × List Char :=
  match r with
  | e :: r' =>
    if isExpChar e then
      let sg := takeSign r'
      let ds := spanD sg.2
      if ds.1.isEmpty then (acc, r) else (acc ++ e :: sg.1 ++ ds.1, ds.2)
    else (acc, r)
  | [] => (acc, [])

/-- longest prefix that is an SVG 1.1 `number`:
    `sign? (digit+ ("." digit*)? | "." digit+) (("e"|"E") sign? digit+)?` → (lexeme, rest) -/
def lexNumber (s : List Char) : Option (List Char × List Char) :=
  let sg := takeSign s
  let ip := spanD sg.2
  match ip.2 with
  | '.' :: r =>
    let fp := spanD r
    if ip.1.isEmpty && fp.1.isEmpty then none
    else some (lexExp (sg.1 ++ ip.1 ++ '.' :: fp.1) fp.2)
  | r1 => if ip.1.isEmpty then none else some (lexExp (sg.1 ++ ip.1) r1)

/-- value of an optional exponent part `(e|E) sign? digits` at the start of `r` (0 if there is none) -/
def expOf (r : List Char) : Int :=
  match r with
  | e :: r' =>
    if isExpChar e then
      let sg2 := takeSign r'
      let ds := spanD sg2.2
      if sg2.1 == ['-'] then -(digitsVal ds.1 : Int) else (digitsVal ds.1 : Int)
    else 0
  | [] => 0

/-- fraction digits after the integer part and what follows them -/
def fracOf (r : List Char) : List Char × List Char :=
  match r with
  | '.' :: r' => spanD r'
  | r1 => ([], r1)

/-- exact value of a number lexeme -/
def numVal (s : List Char) : Rat :=
  let sg := takeSign s
  let ip := spanD sg.2
  let fr := fracOf ip.2
  let m : Rat := ((digitsVal (ip.1 ++ fr.1) : Nat) : Rat) * pow10 (expOf fr.2 - fr.1.length)
  if sg.1 == ['-'] then -m else m

/-! ## tokens -/

inductive PTok
  | cmd (c : Char)
  | num (s : List Char)
  | flag (b : Bool)
  deriving DecidableEq, Repr

def isArc (cur : Char) : Bool := cur == 'A' || cur == 'a'
def flagPos (cur : Char) (k : Nat) : Bool := isArc cur && (k % 7 == 3 || k % 7 == 4)

/-- lexer; `cur` = last command letter seen (`'\x00'` = none), `k` = number of arguments since then
    (needed because arc flags are single characters: `A1 1 0 011 1`) -/
def lexGo : Nat → Char → Nat → List Char → Option (List PTok)
  | 0, _, _, _ => none
  | _ + 1, _, _, [] => some []
  | f + 1, cur, k, c :: r =>
    if isWsp c || c == ',' then lexGo f cur k r
    else if (kindOf c).isSome then (lexGo f c 0 r).map (PTok.cmd c :: ·)
    else if flagPos cur k then
      if c == '0' then (lexGo f cur (k + 1) r).map (PTok.flag false :: ·)
      else if c == '1' then (lexGo f cur (k + 1) r).map (PTok.flag true :: ·)
      else none
    else match lexNumber (c :: r) with
      | some (lx, rest) => (lexGo f cur (k + 1) rest).map (PTok.num lx :: ·)
      | none => none

def lexPath (s : List Char) : Option (List PTok) := lexGo (s.length + 1) '\x00' 0 s

/-! ## commands -/

/-- one command with exactly one argument group (flags as 0/1) -/
structure Cmd where
  k : Kind
  rel : Bool
  a : List Rat
  deriving DecidableEq, Repr

def tokVal : PTok → Option Rat
  | .num s => some (numVal s)
  | .flag b => some (if b then 1 else 0)
  | .cmd _ => none

/-- take `n` argument tokens -/
def takeArgs : Nat → List PTok → Option (List Rat × List PTok)
  | 0, r => some ([], r)
  | n + 1, t :: r =>
    match tokVal t, takeArgs n r with
    | some v, some (vs, r') => some (v :: vs, r')
    | _, _ => none
  | _ + 1, [] => none

/-- the command implied for further argument groups -/
def implicitNext (k : Kind) : Kind := if k = .M then .L else k

/-- `cur` = command implied for a bare argument group (none at the start and after closepath) -/
def parseGo : Nat → Option (Kind × Bool) → List PTok → Option (List Cmd)
  | 0, _, _ => none
  | _ + 1, _, [] => some []
  | f + 1, cur, t :: r =>
    match t with
    | .cmd c =>
      match kindOf c with
      | none => none
      | some (k, rel) =>
        if k = .Z then (parseGo f none r).map (Cmd.mk k rel [] :: ·)
        else match takeArgs k.arity r with
          | some (vs, r') => (parseGo f (some (implicitNext k, rel)) r').map (Cmd.mk k rel vs :: ·)
          | none => none
    | _ =>
      match cur with
      | none => none
      | some (k, rel) =>
        match takeArgs k.arity (t :: r) with
        | some (vs, r') => (parseGo f (some (k, rel)) r').map (Cmd.mk k rel vs :: ·)
        | none => none

def parsePath (ts : List PTok) : Option (List Cmd) := parseGo (ts.length + 1) none ts

/-- lex + parse -/
def parse (s : List Char) : Option (List Cmd) := (lexPath s).bind parsePath

/-- valid path data: lexes, parses, and (if non-empty) starts with a moveto -/
def validCmds (cs : List Cmd) : Bool :=
  match cs with
  | [] => true
  | c :: _ => c.k == .M

def validPath (s : List Char) : Bool :=
  match parse s with
  | some cs => validCmds cs
  | none => false

/-! ## absolute segments (SVG 1.1 §8.3) -/

inductive Seg
  | move (p : Pt)
  | line (a b : Pt)
  | cubic (a c1 c2 b : Pt)
  | quad (a c b : Pt)
  | arc (a : Pt) (rx ry rot : Rat) (large sweep : Bool) (b : Pt)
  | close (a b : Pt)
  deriving DecidableEq, Repr

structure St where
  cur : Pt := (0, 0)
  start : Pt := (0, 0)
  /-- second control point of the previous command if that was C/S -/
  lc : Option Pt := none
  /-- control point of the previous command if that was Q/T -/
  lq : Option Pt := none
  deriving DecidableEq, Repr

/-- reflection of the previous control point about the current point; the current point if there is none -/
def refl (cur : Pt) (o : Option Pt) : Pt :=
  match o with
  | some p => (2 * cur.1 - p.1, 2 * cur.2 - p.2)
  | none => cur

def off (s : St) (rel : Bool) : Pt := if rel then s.cur else (0, 0)

def stepCmd (s : St) (c : Cmd) : St × List Seg :=
  let o := off s c.rel
  match c.k, c.a with
  | .M, [x, y] =>
    let p : Pt := (x + o.1, y + o.2)
    ({ cur := p, start := p, lc := none, lq := none }, [.move p])
  | .L, [x, y] =>
    let p : Pt := (x + o.1, y + o.2)
    ({ s with cur := p, lc := none, lq := none }, [.line s.cur p])
  | .H, [x] =>
    let p : Pt := (x + o.1, s.cur.2)
    ({ s with cur := p, lc := none, lq := none }, [.line s.cur p])
  | .V, [y] =>
    let p : Pt := (s.cur.1, y + o.2)
    ({ s with cur := p, lc := none, lq := none }, [.line s.cur p])
  | .C, [x1, y1, x2, y2, x, y] =>
    let c1 : Pt := (x1 + o.1, y1 + o.2)
    let c2 : Pt := (x2 + o.1, y2 + o.2)
    let p : Pt := (x + o.1, y + o.2)
    ({ s with cur := p, lc := some c2, lq := none }, [.cubic s.cur c1 c2 p])
  | .S, [x2, y2, x, y] =>
    let c1 : Pt := refl s.cur s.lc
    let c2 : Pt := (x2 + o.1, y2 + o.2)
    let p : Pt := (x + o.1, y + o.2)
    ({ s with cur := p, lc := some c2, lq := none }, [.cubic s.cur c1 c2 p])
  | .Q, [x1, y1, x, y] =>
    let c1 : Pt := (x1 + o.1, y1 + o.2)
    let p : Pt := (x + o.1, y + o.2)
    ({ s with cur := p, lc := none, lq := some c1 }, [.quad s.cur c1 p])
  | .T, [x, y] =>
    let c1 : Pt := refl s.cur s.lq
    let p : Pt := (x + o.1, y + o.2)
    ({ s with cur := p, lc := none, lq := some c1 }, [.quad s.cur c1 p])
  | .A, [rx, ry, rot, fa, fs, x, y] =>
    let p : Pt := (x + o.1, y + o.2)
    ({ s with cur := p, lc := none, lq := none }, [.arc s.cur rx ry rot (fa != 0) (fs != 0) p])
  | .Z, [] =>
    ({ s with cur := s.start, lc := none, lq := none }, [.close s.cur s.start])
  | _, _ => (s, [])

def segsFrom : St → List Cmd → List Seg
  | _, [] => []
  | s, c :: r => (stepCmd s c).2 ++ segsFrom (stepCmd s c).1 r

def absSegments (cs : List Cmd) : List Seg := segsFrom {} cs

/-! ## equivalence -/

/-- `none` = the segment is dropped -/
def simp1 : Seg → Option Seg
  | .line a b => if a = b then none else some (.line a b)
  | .cubic a c1 c2 b =>
    if (c1 = a ∨ c1 = b) ∧ (c2 = a ∨ c2 = b) then (if a = b then none else some (.line a b))
    else some (.cubic a c1 c2 b)
  | .quad a c b =>
    if c = a ∨ c = b then (if a = b then none else some (.line a b))
    else some (.quad a c b)
  | s => some s

def isClose : Seg → Bool
  | .close _ _ => true
  | _ => false

/-- a closepath directly after a closepath is a zero-length line (start point to itself) -/
def dedupClose : Bool → List Seg → List Seg
  | _, [] => []
  | prev, s :: r =>
    if isClose s then (if prev then dedupClose true r else s :: dedupClose true r)
    else s :: dedupClose false r

def norm (l : List Seg) : List Seg := dedupClose false (l.filterMap simp1)

/-- `a ≃ b` -/
def equiv (a b : List Seg) : Bool := norm a == norm b

/-- the property, evaluated on an (input, output) pair of path data strings -/
def holds (inp out : List Char) : Bool :=
  match parse inp, parse out with
  | some ci, some co => equiv (absSegments co) (absSegments ci)
  | _, _ => false

end Verif.Spec.SvgPath

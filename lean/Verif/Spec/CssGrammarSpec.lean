import Verif.Spec.CssGrammarEv
import Verif.Spec.CssSelSpec
import Verif.Spec.CssShorthandSpec
/-!
# "Same cascade input" on rule trees (specification side of C04B)

`holds cfg inEvs outEvs` compares the grammar-event streams of a style sheet and of its minified text (both read by
the dependency parser, the contract): after comments are removed the streams have the same events in the same
order — hence the same rule tree, empty rules included — and corresponding events are equivalent:

* qualified rule / ruleset: same selector normal form (`CssSel.selNorm`) and specificity,
* at-rule: same name, same prelude tokens up to white space (`@import url(x)` ≡ `@import "x"`),
* declaration: same property, same `!important` (CSS Syntax 3 §5.4.4, ASCII case-insensitive), values that denote the
  same (`CssShorthand.verdictB`: not "different"),
* custom property: same name, same value text up to surrounding white space,
* raw tokens and parse errors: same lexemes up to white space tokens and a final `;`.

Independent of the model of the minifier.
-/
namespace Verif.Spec.CssGrammar
open Verif.Spec.CssValue (TT Tok lower nest)
open Verif.Spec.CssSel Verif.Spec.CssShorthand

def isWsTok (t : Tok) : Bool := t.tt == .whitespace
def noWs (ts : List Tok) : List Tok := ts.filter fun t => !isWsTok t
def lexs (ts : List Tok) : List (List Char) := ts.map (·.data)

/-- `!important` at the end of a declaration value: (value tokens, flag) -/
def splitImportant (ts : List Tok) : List Tok × Bool :=
  let r := ts.reverse.dropWhile isWsTok
  match r with
  | i :: r1 =>
    if i.tt == .ident && lower i.data == "important".toList then
      match r1.dropWhile isWsTok with
      | b :: r2 => if b.tt == .delim && b.data == ['!'] then ((r2.dropWhile isWsTok).reverse, true) else (r.reverse, false)
      | [] => (r.reverse, false)
    else (r.reverse, false)
  | [] => ([], false)

/-- the style sheet an `@import` prelude names: content of its `url(…)` or string -/
def importTarget (t : Tok) : Option (List Char) :=
  if t.tt == .url then some (Verif.Spec.CssValue.urlContent t.data)
  else if t.tt == .string then some (Verif.Spec.CssValue.dropEscNl (t.data.drop 1).dropLast)
  else none

/-- prelude of an at-rule up to white space; the first component of `@import` by the resource it names -/
def preludeNorm (name : List Char) (vals : List Tok) : List (List Char) :=
  match noWs vals with
  | t :: r =>
    if lower name == "@import".toList then
      match importTarget t with
      | some u => ('"' :: u ++ ['"']) :: lexs r
      | none => lexs (t :: r)
    else lexs (t :: r)
  | [] => []

def dropSemiTok (ts : List Tok) : List Tok :=
  match ts.getLast? with
  | some t => if t.tt == .semicolon then ts.dropLast else ts
  | none => ts

def trimChars (b : List Char) : List Char :=
  ((b.dropWhile Verif.Spec.CssValue.isWs).reverse.dropWhile Verif.Spec.CssValue.isWs).reverse

/-- why two corresponding events are not equivalent (`none` = they are) -/
def evClause (cfg : Cfg) (x y : Ev) : Option String :=
  if x.gt != y.gt then some "event kind" else
  match x.gt with
  | .declaration =>
    if x.data != y.data then some "property name"
    else
      let (xi, ximp) := splitImportant x.vals
      let (yi, yimp) := splitImportant y.vals
      if ximp != yimp then some "!important"
      else if verdictB x.data (nest xi) (nest yi) == 0 then some "declaration value" else none
  | .customProperty =>
    if x.data != y.data then some "custom property name"
    else if trimChars (x.vals.flatMap (·.data)) != trimChars (y.vals.flatMap (·.data)) then some "custom property value"
    else none
  | .qualifiedRule | .beginRuleset =>
    if !selEquiv cfg x.vals y.vals then some "selector"
    else if specificity x.vals != specificity y.vals then some "specificity" else none
  | .atRule | .beginAtRule =>
    if lower x.data != lower y.data then some "at-rule name"
    else if preludeNorm x.data x.vals != preludeNorm y.data y.vals then some "at-rule prelude" else none
  | .endAtRule | .endRuleset => none
  | .error =>
    if lexs (noWs (dropSemiTok x.vals)) != lexs (noWs (dropSemiTok y.vals)) then some "raw tokens" else none
  | _ =>
    -- a raw token (`<!--`, `-->`, content of an unknown at-rule): `Values()` is not defined for it
    if x.data != y.data then some "raw token" else none

/-- events that are not cascade input: comments, and white space inside the block of an unknown at-rule (the
parser reports every white-space token there; a comment between two of them makes two) -/
def notComment (e : Ev) : Bool :=
  e.gt != .comment && !(e.gt == .token && e.data.all Verif.Spec.CssValue.isWs)

def holdsGo (cfg : Cfg) : Nat → List Ev → List Ev → List String
  | _, [], [] => []
  | i, [], _ :: _ => [s!"event {i}: the output has more events"]
  | i, _ :: _, [] => [s!"event {i}: the output has fewer events"]
  | i, x :: xs, y :: ys =>
    match evClause cfg x y with
    | some c => [s!"event {i}: {c}"]
    | none => holdsGo cfg (i + 1) xs ys

/-- failing clauses (`[]` = the output is the same cascade input as the input) -/
def holds (cfg : Cfg) (a b : List Ev) : List String :=
  holdsGo cfg 0 (a.filter notComment) (b.filter notComment)

end Verif.Spec.CssGrammar

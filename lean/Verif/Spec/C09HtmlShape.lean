import Verif.Spec.C09HtmlTok
/-!
# C09 / HTML — byte-level patterns of the HTML standard used in the statements about the writer

Decidable predicates on the bytes that a writer puts between tags; each names a construct of §13.2.5:
* `hasEndTag tag p`   — `p` contains an *appropriate end tag* for `tag`: `</` + the name (ASCII case-insensitive) + white
                        space, `/` or `>` (RCDATA / RAWTEXT / script data end tag name states);
* `hasInfix pat p`    — plain substring test (`<!--` = entry into the script-data-escaped states);
* `hasClose p`        — `p` contains `-->` or `--!>` (comment end / comment end bang states);
* `abruptStart p`     — `p` starts with `>` or `->` (comment start / comment start dash states: `<!-->`, `<!--->`);
* `textSafe p`        — every `<` of `p` is followed, inside `p`, by a byte that does not open markup (tag open state:
                        ASCII letter, `/`, `!`, `?`); in particular `p` does not end in `<`.
Independent of the model.
-/
namespace Verif.Spec.C09HtmlShape
open Verif.Spec.C09HtmlTok Verif.Spec.HtmlAttr

/-- the bytes that may follow the name of an end tag -/
def isDelim (c : Char) : Bool := isWs c || c = '/' || c = '>'

def startsEndTag (tag : List Char) : List Char → Bool
  | '<' :: '/' :: r =>
    (r.take tag.length).map lower == tag &&
      (match r.drop tag.length with | c :: _ => isDelim c | [] => false)
  | _ => false

def hasEndTag (tag : List Char) : List Char → Bool
  | [] => false
  | c :: r => startsEndTag tag (c :: r) || hasEndTag tag r

def hasInfix (pat : List Char) : List Char → Bool
  | [] => pat.isEmpty
  | c :: r => pat.isPrefixOf (c :: r) || hasInfix pat r

def commentOpen : List Char := ['<', '!', '-', '-']

def closesAt (l : List Char) : Bool :=
  (['-', '-', '>'] : List Char).isPrefixOf l || (['-', '-', '!', '>'] : List Char).isPrefixOf l

def hasClose : List Char → Bool
  | [] => false
  | c :: r => closesAt (c :: r) || hasClose r

def abruptStart : List Char → Bool
  | '>' :: _ => true
  | '-' :: '>' :: _ => true
  | _ => false

/-- does this byte, directly after `<`, open markup? -/
def opensMarkup (c : Char) : Bool := isAlpha c || c = '/' || c = '!' || c = '?'

def textSafe : List Char → Bool
  | [] => true
  | c :: r => (c != '<' || (match r with | d :: _ => !opensMarkup d | [] => false)) && textSafe r

/-- a byte of an attribute name as a writer should write it (the minifier's lexer lower-cases names; a name holds no white
    space, `=` or `>`; `/` would end the name for the standard but not for that lexer) -/
def nCh (c : Char) : Bool := !isWs c && c != '/' && c != '>' && c != '=' && lower c == c

/-- attribute names that the theorems cover: not empty, made of `nCh` bytes -/
def goodName (n : List Char) : Bool := !n.isEmpty && n.all nCh

/-- a byte of a tag name (after the first): lower-case, no white space, no `>`, no `/` -/
def tCh (c : Char) : Bool := !isWs c && c != '/' && c != '>' && lower c == c

/-- tag names that the theorems cover: a lower-case ASCII letter, then `tCh` bytes -/
def goodTag : List Char → Bool
  | c :: cs => isAlpha c && lower c == c && cs.all tCh
  | [] => false

/-- the tokenizer modes with an "appropriate end tag" (RCDATA, RAWTEXT, script data) -/
def rawMode (md : Mode) : Bool := md == .rcdata || md == .rawtext || md == .script

/-- names of raw-text elements as the theorems need them: not empty, lower-case ASCII letters -/
def goodRawTag (tag : List Char) : Bool := !tag.isEmpty && tag.all (fun c => isAlpha c && lower c == c)

end Verif.Spec.C09HtmlShape

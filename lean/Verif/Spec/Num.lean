/-!
# C08 — specification side: the number grammar and the value of a number lexeme

Independent of the model of `minify.Number`/`minify.Decimal`.

* grammar  `[+-]?(d+.?d*|.d+)([eE][+-]?d+)?`  (`isNumber`), without the exponent part (`isDecimal`);
* `numVal : List Char → Option Rat` — the exact rational a lexeme denotes;
* `decOf` — the same value as a normalised decimal `±m·10^e` (`10 ∤ m`), computable also when the
  exponent is astronomically large (`1e9223372036854775807` cannot be evaluated as a `Rat`);
* `holds` — the property C08 as a decidable predicate on (input, precision, output), evaluated by the
  driver on the *implementation's* output.
-/
namespace Verif.Spec.Num

/-- a parsed lexeme: sign, integer digits, fraction digits, exponent -/
structure Parsed where
  neg : Bool
  ip : List Char
  fp : List Char
  exp : Int
  deriving Repr, DecidableEq

def natOf (l : List Char) : Nat := Nat.ofDigitChars 10 l 0

/-- optional sign -/
def splitSign : List Char → Bool × List Char
  | '-' :: r => (true, r)
  | '+' :: r => (false, r)
  | r => (false, r)

/-- `(. d*)?`: fraction digits and rest -/
def splitFrac : List Char → List Char × List Char
  | '.' :: t => (t.takeWhile Char.isDigit, t.dropWhile Char.isDigit)
  | r => ([], r)

/-- `d* (. d*)?` with at least one digit; returns integer digits, fraction digits, rest -/
def parseMant (r : List Char) : Option (List Char × List Char × List Char) :=
  let ip := r.takeWhile Char.isDigit
  let fr := splitFrac (r.dropWhile Char.isDigit)
  if ip.isEmpty && fr.1.isEmpty then none else some (ip, fr.1, fr.2)

/-- `([eE][+-]?d+)?` up to the end of the lexeme -/
def parseExpPart : List Char → Option Int
  | [] => some 0
  | c :: r =>
    if c == 'e' || c == 'E' then
      let (eneg, ds) := splitSign r
      if ds.isEmpty || !ds.all Char.isDigit then none
      else some (if eneg then -(natOf ds : Int) else (natOf ds : Int))
    else none

/-- parser of the number grammar -/
def parse (s : List Char) : Option Parsed :=
  let (neg, r) := splitSign s
  match parseMant r with
  | none => none
  | some (ip, fp, rest) =>
    match parseExpPart rest with
    | none => none
    | some e => some { neg := neg, ip := ip, fp := fp, exp := e }

/-- `[+-]?(d+.?d*|.d+)([eE][+-]?d+)?` -/
def isNumber (s : List Char) : Bool := (parse s).isSome

/-- `[+-]?(d+.?d*|.d+)` -/
def isDecimal (s : List Char) : Bool :=
  match parseMant (splitSign s).2 with
  | some (_, _, []) => true
  | _ => false

/-- value of a parsed lexeme: `± (ip fp as one integer) · 10^(exp − |fp|)` -/
def Parsed.val (p : Parsed) : Rat :=
  (if p.neg then -1 else 1) * ((natOf (p.ip ++ p.fp) : Nat) : Rat) * (10 : Rat) ^ (p.exp - (p.fp.length : Int))

/-- the rational number denoted by a lexeme of the grammar -/
def numVal (s : List Char) : Option Rat := (parse s).map Parsed.val

/-! ## normalised decimals (executable even for huge exponents) -/

/-- `± m · 10^e` -/
structure Dec where
  neg : Bool
  m : Nat
  e : Int
  deriving Repr, DecidableEq

/-- strip factors of ten from the mantissa; zero is `+0·10^0` -/
def stripTens : Nat → Nat → Int → Nat × Int
  | 0, m, e => (m, e)
  | fuel + 1, m, e => if m % 10 == 0 && m != 0 then stripTens fuel (m / 10) (e + 1) else (m, e)

def Dec.norm (d : Dec) : Dec :=
  if d.m == 0 then { neg := false, m := 0, e := 0 } else
  let (m, e) := stripTens d.m d.m d.e
  { neg := d.neg, m := m, e := e }

def Parsed.dec (p : Parsed) : Dec :=
  Dec.norm { neg := p.neg, m := natOf (p.ip ++ p.fp), e := p.exp - (p.fp.length : Int) }

def decOf (s : List Char) : Option Dec := (parse s).map Parsed.dec

def Dec.val (d : Dec) : Rat := (if d.neg then -1 else 1) * (d.m : Rat) * (10 : Rat) ^ d.e

/-- number of decimal digits -/
def numDigits (m : Nat) : Nat := (Nat.toDigits 10 m).length

def Dec.signed (d : Dec) : Int := if d.neg then -(d.m : Int) else (d.m : Int)

/-- `|b − a| ≤ ½ · 10^(L − p + 1)` where `10^L ≤ |a| < 10^(L+1)` (`a ≠ 0`), i.e. `b` is within half a
    unit of the `p`-th significant digit of `a`; for `a = 0` it demands `b = 0`.  Exponent spreads
    above `limit` are rejected without evaluating a power of ten (the values are then far apart).
    In `decimalMode` (`Decimal` only removes digits after the dot) the unit is never coarser than the
    units place: `min (L − p + 1) 0`. -/
def withinHalfUlp (decimalMode : Bool) (a b : Dec) (p : Nat) : Bool :=
  let a := a.norm; let b := b.norm
  if a.m == 0 then b.m == 0 else
  if b.m == 0 then false else
  let u0 : Int := a.e + (numDigits a.m : Int) - (p : Int)      -- exponent of the unit
  let u : Int := if decimalMode then min u0 0 else u0
  let lo := min (min a.e b.e) u
  let hi := max (max a.e b.e) u
  if hi - lo > 100000 then false else
  let x := a.signed * (10 : Int) ^ (a.e - lo).toNat
  let y := b.signed * (10 : Int) ^ (b.e - lo).toNat
  let h := (10 : Int) ^ (u - lo).toNat
  decide (2 * (x - y).natAbs ≤ h.natAbs)

/-- which clauses of C08 fail for (input, precision, output); `0` = the property holds.
    bit 0: input not in the grammar (nothing is claimed then), bit 1: output not in the grammar
    (for `decimalMode`: the grammar without exponent), bit 2: value (exact for `prec ≤ 0`, half a unit
    of the last retained significant digit otherwise — for `decimalMode` that digit is never left of the
    units place, because `Decimal` only removes digits after the dot), bit 3: output longer than input. -/
def failMask (decimalMode : Bool) (inp : List Char) (prec : Int) (out : List Char) : Nat :=
  let gin := if decimalMode then isDecimal inp else isNumber inp
  if !gin then 1 else
  let gout := if decimalMode then isDecimal out else isNumber out
  let b1 := if gout then 0 else 2
  let b2 :=
    match decOf inp, decOf out with
    | some a, some b =>
      if prec ≤ 0 then (if a == b then 0 else 4)
      else (if withinHalfUlp decimalMode a b prec.toNat then 0 else 4)
    | _, _ => 4
  let b3 := if out.length ≤ inp.length then 0 else 8
  b1 + b2 + b3

def holds (decimalMode : Bool) (inp : List Char) (prec : Int) (out : List Char) : Bool :=
  failMask decimalMode inp prec out == 0

/-! ## the half-unit bound as a statement about rationals -/

/-- digits with the leading zeros dropped -/
def stripZeros (l : List Char) : List Char := l.dropWhile (· == '0')

/-- exponent `L` of the leading significant digit (`10^L ≤ |value| < 10^(L+1)`); `none` for zero -/
def Parsed.leadExp (p : Parsed) : Option Int :=
  let ip := stripZeros p.ip
  if !ip.isEmpty then some (p.exp + (ip.length : Int) - 1)
  else
    let f := stripZeros p.fp
    if f.isEmpty then none else some (p.exp - ((p.fp.length - f.length : Nat) : Int) - 1)

def leadExp (s : List Char) : Option Int := (parse s).bind Parsed.leadExp

/-- `w` is within half a unit of the `p`-th significant digit of the value `v` of the lexeme `s`
    (for `v = 0`: `w = v`) -/
def WithinHalfUnit (s : List Char) (p : Int) (v w : Rat) : Prop :=
  match leadExp s with
  | none => w = v
  | some L => v - (1 / 2) * (10 : Rat) ^ (L - p + 1) ≤ w ∧ w ≤ v + (1 / 2) * (10 : Rat) ^ (L - p + 1)

/-- the bound for `Decimal`: only digits after the dot may be removed, so the last retained digit is the
    `p`-th significant one or the units digit, whichever is finer: `|w − v| ≤ ½·10^(min (L−p+1) 0)` -/
def WithinHalfUnitDec (s : List Char) (p : Int) (v w : Rat) : Prop :=
  match leadExp s with
  | none => w = v
  | some L => v - (1 / 2) * (10 : Rat) ^ (min (L - p + 1) 0) ≤ w ∧ w ≤ v + (1 / 2) * (10 : Rat) ^ (min (L - p + 1) 0)

end Verif.Spec.Num

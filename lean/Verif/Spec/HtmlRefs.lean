import Verif.Base.Pack
import Verif.Gen.Html5Entities
/-!
# Character references — specification decoders (C17; reusable by C03 / C05 / C06)

`decodeRefs ctx s` is the text that an HTML parser obtains from the source characters `s` of a text node
(`ctx = .text`) or of an attribute value (`ctx = .attr`): HTML Standard §13.2.5.72–80 (character reference
state … numeric character reference end state), transcribed:

* `&` + ASCII alphanumeric → *named*: consume the **longest** identifier of the named character reference
  table (identifiers include their trailing `;`; 106 legacy identifiers also exist without it).
  In an attribute, a match **without** `;` that is followed by `=` or an ASCII alphanumeric is *not* decoded.
  No match → nothing is decoded (the `&` is literal text).
* `&#` digits / `&#x` hex digits, optional `;` → *numeric*: 0, surrogates and values > 0x10FFFF give U+FFFD;
  0x80‥0x9F are remapped by the windows-1252 table of §13.2.5.80; everything else is the code point itself.
* any other `&` is literal.

The table is `Verif.Gen.Html5Entities` (generated from Go's standard library, not from `/repo`).

The decoders work on **code points** (`List Nat`; `decodeCps`, `decodeXmlCps`) because natural-number literals
are what the Lean kernel evaluates fast — the whole-table theorems of `Props/C17.lean` run them some 5 000 times
inside `decide +kernel`.  `decodeRefs` / `decodeXml` are the `List Char` views.
`decodeXml…` is the XML 1.0 counterpart (§4.1 `Reference`, §4.6 predefined entities) and is partial:
`none` = not well-formed without a DTD.

Everything is total, structurally recursive and executable (driver ops `spec.decodeRefs`, `spec.decodeXml`);
the harness validates both decoders against `html.UnescapeString`, `golang.org/x/net/html` and `encoding/xml`.
-/
namespace Verif.Spec.HtmlRefs
open Verif Verif.Gen

inductive Ctx | text | attr
  deriving DecidableEq, Repr

/-! code points of the ASCII characters the tokenizer rules mention -/
def cAmp : Nat := 38   -- &
def cHash : Nat := 35  -- #
def cSemi : Nat := 59  -- ;
def cEq : Nat := 61    -- =
def cLowerX : Nat := 120
def cUpperX : Nat := 88

def isDigit (c : Nat) : Bool := 48 ≤ c && c ≤ 57
def isUpper (c : Nat) : Bool := 65 ≤ c && c ≤ 90
def isLower (c : Nat) : Bool := 97 ≤ c && c ≤ 122
def isAlnum (c : Nat) : Bool := isDigit c || isUpper c || isLower c
def isHexDigit (c : Nat) : Bool := isDigit c || (65 ≤ c && c ≤ 70) || (97 ≤ c && c ≤ 102)

/-- value of a (hex) digit -/
def digitVal (c : Nat) : Nat := if isDigit c then c - 48 else if isUpper c then c - 55 else c - 87

/-- association-list lookup with a natural-number key (`List.lookup` spelled with `Nat.beq` directly:
    fewer instance unfoldings for the kernel) -/
def lookupNat {β : Type} (k : Nat) : List (Nat × β) → Option β
  | [] => none
  | (a, b) :: r =>
    match Nat.beq k a with
    | true => some b
    | false => lookupNat k r

/-- the named character reference table: identifier (with its `;` if any) ↦ code points -/
def lookupNamed (name : List Nat) : Option (List Nat) :=
  match name with
  | [] => none
  | c :: _ =>
    match lookupNat c Html5Entities.buckets with
    | none => none
    | some b => lookupNat (pack name) b

/-- the longest prefix of `run` (tried from length `k` downwards) that is an identifier of the table -/
def longestPrefix (run : List Nat) : Nat → Option (Nat × List Nat)
  | 0 => none
  | k + 1 =>
    match lookupNamed (run.take (k + 1)) with
    | some cps => some (k + 1, cps)
    | none => longestPrefix run k

/-- §13.2.5.80 numeric character reference end state: the windows-1252 remapping of 0x80‥0x9F -/
def c1Table : List (Nat × Nat) :=
  [(0x80, 0x20AC), (0x82, 0x201A), (0x83, 0x0192), (0x84, 0x201E), (0x85, 0x2026), (0x86, 0x2020),
   (0x87, 0x2021), (0x88, 0x02C6), (0x89, 0x2030), (0x8A, 0x0160), (0x8B, 0x2039), (0x8C, 0x0152),
   (0x8E, 0x017D), (0x91, 0x2018), (0x92, 0x2019), (0x93, 0x201C), (0x94, 0x201D), (0x95, 0x2022),
   (0x96, 0x2013), (0x97, 0x2014), (0x98, 0x02DC), (0x99, 0x2122), (0x9A, 0x0161), (0x9B, 0x203A),
   (0x9C, 0x0153), (0x9E, 0x017E), (0x9F, 0x0178)]

def numericFix (n : Nat) : Nat :=
  if n = 0 then 0xFFFD
  else if 0x10FFFF < n then 0xFFFD
  else if 0xD800 ≤ n && n ≤ 0xDFFF then 0xFFFD
  else if 0x80 ≤ n && n ≤ 0x9F then
    match lookupNat n c1Table with
    | some m => m
    | none => n
  else n

def digitsVal (base : Nat) (ds : List Nat) : Nat := ds.foldl (fun a d => a * base + digitVal d) 0

/-- `r` = the code points after an `&`.  `some (decoded, n)`: a character reference occupying the first `n`
    code points of `r` is decoded; `none`: the `&` is literal text. -/
def matchRef (ctx : Ctx) (r : List Nat) : Option (List Nat × Nat) :=
  match r with
  | [] => none
  | c :: r1 =>
    if c = cHash then
      let hex := match r1 with
        | x :: _ => x = cLowerX || x = cUpperX
        | [] => false
      let r2 := if hex then r1.drop 1 else r1
      let ds := r2.takeWhile (if hex then isHexDigit else isDigit)
      if ds.isEmpty then none else
      let semi := if (r2.drop ds.length).head? = some cSemi then 1 else 0
      some ([numericFix (digitsVal (if hex then 16 else 10) ds)], 1 + (if hex then 1 else 0) + ds.length + semi)
    else
      let run := r.takeWhile isAlnum
      let withSemi :=
        if (r.drop run.length).head? = some cSemi then lookupNamed (run ++ [cSemi]) else none
      match withSemi with
      | some cps => some (cps, run.length + 1)
      | none =>
        match longestPrefix run run.length with
        | none => none
        | some (k, cps) =>
          let next := (r.drop k).head?
          if ctx = .attr && (next = some cEq || next.any isAlnum) then none else some (cps, k)

/-- `skip` = number of source code points still covered by the reference decoded last -/
def decodeAux (ctx : Ctx) : Nat → List Nat → List Nat
  | _, [] => []
  | skip + 1, _ :: r => decodeAux ctx skip r
  | 0, c :: r =>
    if c = cAmp then
      match matchRef ctx r with
      | some (out, n) => out ++ decodeAux ctx n r
      | none => c :: decodeAux ctx 0 r
    else c :: decodeAux ctx 0 r

/-- HTML: source code points of a text node / attribute value ↦ the code points of the node / value -/
def decodeCps (ctx : Ctx) (s : List Nat) : List Nat := decodeAux ctx 0 s

/-- the same on characters -/
def decodeRefs (ctx : Ctx) (s : List Char) : List Char := (decodeCps ctx (s.map Char.toNat)).map Char.ofNat

/-! ## what becomes of a *literal* character, and references to single bytes

The reverse maps (`html.TextRevEntitiesMap`, `html.AttrRevEntitiesMap`) name the bytes that must not be written
literally when a reference decoded to them.  `literalCps ctx c` is what an HTML parser makes of the literal ASCII
character `c` in a text node / attribute value: §13.2.3.5 "Preprocessing the input stream" turns CR into LF;
U+0000 is dropped from text by the tree builder ("in body": parse error, ignore the token) and becomes U+FFFD in an
attribute value; `<` starts markup in text and `&` may start a reference (`none` = not plain text). -/

def literalCps (ctx : Ctx) (c : Nat) : Option (List Nat) :=
  if c = 13 then some [10]
  else if c = 0 then (match ctx with | .text => some [] | .attr => some [0xFFFD])
  else if c = cAmp then none
  else if c = 60 && ctx = .text then none
  else some [c]

/-- decimal digits of `n` (code points), most significant first -/
def decDigitsAux : Nat → Nat → List Nat → List Nat
  | 0, _, acc => acc
  | f + 1, n, acc => if n < 10 then (48 + n) :: acc else decDigitsAux f (n / 10) ((48 + n % 10) :: acc)

def decDigits (n : Nat) : List Nat := decDigitsAux (n + 1) n []

/-- the decimal numeric character reference `&#n;` -/
def numRef (n : Nat) : List Nat := cAmp :: cHash :: (decDigits n ++ [cSemi])

/-! ## XML 1.0 -/

/-- XML 1.0 §2.2 `Char` -/
def xmlChar (n : Nat) : Bool :=
  n = 0x9 || n = 0xA || n = 0xD || (0x20 ≤ n && n ≤ 0xD7FF) || (0xE000 ≤ n && n ≤ 0xFFFD) ||
  (0x10000 ≤ n && n ≤ 0x10FFFF)

/-- XML 1.0 §4.6 predefined entities: name ↦ character -/
def xmlPredefined : List (Nat × Nat) :=
  [(pk! "lt", 60), (pk! "gt", 62), (pk! "amp", 38), (pk! "apos", 39), (pk! "quot", 34)]

/-- `r` = the code points after `&`: the referenced character and the length of the reference in `r`
    (including the mandatory `;`); `none` = not a well-formed reference without a DTD -/
def matchXmlRef (r : List Nat) : Option (Nat × Nat) :=
  match r with
  | [] => none
  | c :: r1 =>
    if c = cHash then
      let hex := r1.head? = some cLowerX
      let r2 := if hex then r1.drop 1 else r1
      let ds := r2.takeWhile (if hex then isHexDigit else isDigit)
      let n := digitsVal (if hex then 16 else 10) ds
      if (r2.drop ds.length).head? = some cSemi && !ds.isEmpty && xmlChar n
      then some (n, 1 + (if hex then 1 else 0) + ds.length + 1) else none
    else
      let name := r.takeWhile (· ≠ cSemi)
      if (r.drop name.length).head? = some cSemi && name.all (· < 128)   -- (`pack` needs bytes)
      then (lookupNat (pack name) xmlPredefined).map (fun ch => (ch, name.length + 1)) else none

/-- what an XML processor makes of the literal ASCII character `c`: in an attribute value TAB, LF and CR are
    normalised to a space (XML 1.0 §3.3.3), in character data a CR becomes LF (§2.11); `<` and `&` are markup
    (`none`); `attr = true` for attribute values -/
def xmlLiteralCps (attr : Bool) (c : Nat) : Option (List Nat) :=
  if c = 60 || c = cAmp then none
  else if attr && (c = 9 || c = 10 || c = 13) then some [32]
  else if c = 13 then some [10]
  else some [c]

def decodeXmlAux : Nat → List Nat → Option (List Nat)
  | _, [] => some []
  | skip + 1, _ :: r => decodeXmlAux skip r
  | 0, c :: r =>
    if c = cAmp then
      match matchXmlRef r with
      | some (ch, n) => (decodeXmlAux n r).map (ch :: ·)
      | none => none
    else (decodeXmlAux 0 r).map (c :: ·)

/-- XML: source code points of character data / an attribute value (no DTD) ↦ its code points;
    `none` if a `&` does not start a well-formed reference.  (Attribute-value whitespace normalisation
    is not part of reference expansion and is left to the users of this function.) -/
def decodeXmlCps (s : List Nat) : Option (List Nat) := decodeXmlAux 0 s

def decodeXml (s : List Char) : Option (List Char) :=
  (decodeXmlCps (s.map Char.toNat)).map (·.map Char.ofNat)

end Verif.Spec.HtmlRefs

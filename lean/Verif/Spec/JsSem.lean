import Verif.Spec.JsSyntax
/-!
# C01 — big-step semantics of the JavaScript fragment, with an observable trace

Values: `undefined`, `null`, booleans, integers, strings, opaque host objects (and engine error objects).
Observable behaviour of a run = the final state (`env`: global variables, `trace`: calls into host functions and
property gets/sets/deletes on host objects, in order) and the completion (normal value / thrown value).
Everything the fragment cannot decide by itself is a parameter `Host` (an arbitrary deterministic environment):
results of host calls and host-object property accesses are functions of the whole trace so far (so they may differ
from call to call, and may throw); arithmetic / relational operators and mixed-kind `==` are pure total functions of the
operand values.  The theorems hold for every `Host`.

Defined concretely (this is what the rewrites of the minifier rely on): `ToBoolean`, `!`, `&&`, `||`, `??`, `?:`, `,`,
`void`, `typeof`, `===`/`!==`, `==`/`!=` against `null`/`undefined` and between values of the same kind, variable
reads (`undefined` is the immutable global), assignments, evaluation order.
Not modelled (stated limits): exceptions raised by operators and by reads of undeclared variables (the environment is
total and the host's arithmetic/relational operators are total functions), `this`, getters on primitives, coercion
side effects (`valueOf`) of host objects.
-/
namespace Verif.Spec.JsSem
open Verif.Spec.JsSyntax

inductive Val where
  | undef | null
  | bool (b : Bool)
  | num (n : Int)
  | nan
  | str (s : String)
  | obj (id : Nat)
  | err (cls : String)
deriving DecidableEq, Repr, Inhabited

/-- observable events -/
inductive Ev where
  | call (f : Val) (args : List Val)
  | get (o k : Val)
  | set (o k v : Val)
  | del (o k : Val)
deriving DecidableEq, Repr

structure St where
  env : String → Val
  trace : List Ev

/-- outcome of a computation: normal or abrupt (throw), always with the state reached -/
inductive Out (α : Type) where
  | ok (a : α) (s : St)
  | thr (v : Val) (s : St)

def M (α : Type) : Type := St → Out α

def retM {α : Type} (a : α) : M α := fun s => .ok a s
def bindM {α β : Type} (m : M α) (f : α → M β) : M β := fun s =>
  match m s with
  | .ok a s' => f a s'
  | .thr v s' => .thr v s'
def throwV {α : Type} (v : Val) : M α := fun s => .thr v s

/-- the host environment (arbitrary, deterministic) -/
structure Host where
  call : List Ev → Except Val Val
  get : List Ev → Except Val Val
  set : List Ev → Except Val Unit
  del : List Ev → Except Val Val
  arith : BOp → Val → Val → Val
  rel : BOp → Val → Val → Bool
  unop : UOp → Val → Val
  typeofObj : Nat → String
  primGet : Val → Val → Val

def truthy : Val → Bool
  | .undef => false
  | .null => false
  | .bool b => b
  | .num n => n != 0
  | .nan => false
  | .str s => s != ""
  | .obj _ => true
  | .err _ => true

def isNullish : Val → Bool
  | .undef => true
  | .null => true
  | _ => false

def sameKind : Val → Val → Bool
  | .bool _, .bool _ => true
  | .num _, .num _ => true
  | .num _, .nan => true
  | .nan, .num _ => true
  | .nan, .nan => true
  | .str _, .str _ => true
  | .obj _, .obj _ => true
  | .err _, .err _ => true
  | _, _ => false

def liftE {α : Type} (r : Except Val α) : M α :=
  match r with
  | .ok a => retM a
  | .error v => throwV v

/-- `===` (NaN is not equal to itself) -/
def strictEq (a b : Val) : Bool :=
  match a, b with
  | .nan, _ => false
  | _, .nan => false
  | a, b => decide (a = b)

/-- `==` -/
def looseEq (H : Host) (a b : Val) : M Bool :=
  if isNullish a || isNullish b then retM (isNullish a && isNullish b)
  else if sameKind a b then retM (strictEq a b)
  else retM (H.rel .eq a b)

def typeofVal (H : Host) : Val → Val
  | .undef => .str "undefined"
  | .null => .str "object"
  | .bool _ => .str "boolean"
  | .num _ => .str "number"
  | .nan => .str "number"
  | .str _ => .str "string"
  | .obj i => .str (H.typeofObj i)
  | .err _ => .str "object"

/-- the value of a global variable: `undefined` and `NaN` are the immutable globals -/
def lookup (s : St) (n : String) : Val :=
  if n == "undefined" then .undef else if n == "NaN" then .nan else s.env n

/-- reading a global variable -/
def getVar (n : String) : M Val := fun s => .ok (lookup s n) s

/-- writing a global variable (assignment to the immutable globals throws, as in strict mode) -/
def putVar (n : String) (v : Val) : M Unit := fun s =>
  if n == "undefined" || n == "NaN" then .thr (.err "TypeError") s
  else .ok () { s with env := fun m => if m == n then v else s.env m }

/-- an observable event whose result the host decides from the whole trace -/
def hostEv {α : Type} (e : Ev) (res : List Ev → Except Val α) : M α := fun s =>
  let t := s.trace ++ [e]
  match res t with
  | .ok a => .ok a { s with trace := t }
  | .error v => .thr v { s with trace := t }

def getProp (H : Host) (o k : Val) : M Val :=
  match o with
  | .undef => throwV (.err "TypeError")
  | .null => throwV (.err "TypeError")
  | .obj _ => hostEv (.get o k) H.get
  | _ => retM (H.primGet o k)

def putProp (H : Host) (o k v : Val) : M Unit :=
  match o with
  | .undef => throwV (.err "TypeError")
  | .null => throwV (.err "TypeError")
  | .obj _ => hostEv (.set o k v) H.set
  | _ => throwV (.err "TypeError")   -- strict mode: a property cannot be created on a primitive

inductive Ref where
  | var (n : String)
  | prop (o k : Val)
  | none (v : Val)       -- not a reference (assignment to it is a ReferenceError)

def getRef (H : Host) : Ref → M Val
  | .var n => getVar n
  | .prop o k => getProp H o k
  | .none v => retM v

def putRef (H : Host) : Ref → Val → M Unit
  | .var n, v => putVar n v
  | .prop o k, v => putProp H o k v
  | .none _, _ => throwV (.err "ReferenceError")

/-- the pure operator of a compound assignment -/
def compoundOp : BOp → Option BOp
  | .mulEq => some .mul | .divEq => some .div | .modEq => some .mod | .expEq => some .exp
  | .addEq => some .add | .subEq => some .sub | .shlEq => some .shl | .shrEq => some .shr
  | .ushrEq => some .ushr | .andEq => some .band | .xorEq => some .bxor | .orEq => some .bor
  | _ => none

/-- binary operators that evaluate both operands first -/
def strictBin (H : Host) (op : BOp) (a b : Val) : M Val :=
  match op with
  | .eq => bindM (looseEq H a b) (fun r => retM (.bool r))
  | .ne => bindM (looseEq H a b) (fun r => retM (.bool (!r)))
  | .seq => retM (.bool (strictEq a b))
  | .sne => retM (.bool (!strictEq a b))
  | .lt | .le | .gt | .ge | .inOp | .instOf => retM (.bool (H.rel op a b))
  | _ => retM (H.arith op a b)

mutual
/-- evaluation of an expression -/
def eval (H : Host) : E → M Val
  | .var n => getVar n
  | .lit (.num n) => retM (.num n)
  | .lit (.str s) => retM (.str s)
  | .lit .true => retM (.bool true)
  | .lit .false => retM (.bool false)
  | .lit .null => retM .null
  | .group x => eval H x
  | .unary op x =>
    match op with
    | .not => bindM (eval H x) (fun v => retM (.bool (!truthy v)))
    | .void => bindM (eval H x) (fun _ => retM .undef)
    | .typeof => bindM (eval H x) (fun v => retM (typeofVal H v))
    | .delete => bindM (lref H x) (fun r =>
        match r with
        | .prop o k => (match o with
          | .obj _ => hostEv (.del o k) H.del
          | _ => retM (.bool true))
        | _ => retM (.bool true))
    | .preinc | .predec | .postinc | .postdec =>
      bindM (lref H x) (fun r => bindM (getRef H r) (fun old =>
        let n := H.unop .pos old
        let nw := H.arith (if op == .preinc || op == .postinc then .add else .sub) n (.num 1)
        bindM (putRef H r nw) (fun _ => retM (if op == .preinc || op == .predec then nw else n))))
    | _ => bindM (eval H x) (fun v => retM (H.unop op v))
  | .bin op x y =>
    match op with
    | .land => bindM (eval H x) (fun v => if truthy v then eval H y else retM v)
    | .lor => bindM (eval H x) (fun v => if truthy v then retM v else eval H y)
    | .nullish => bindM (eval H x) (fun v => if isNullish v then eval H y else retM v)
    | .assign => bindM (lref H x) (fun r => bindM (eval H y) (fun v => bindM (putRef H r v) (fun _ => retM v)))
    | .landEq => bindM (lref H x) (fun r => bindM (getRef H r) (fun old =>
        if truthy old then bindM (eval H y) (fun v => bindM (putRef H r v) (fun _ => retM v)) else retM old))
    | .lorEq => bindM (lref H x) (fun r => bindM (getRef H r) (fun old =>
        if truthy old then retM old else bindM (eval H y) (fun v => bindM (putRef H r v) (fun _ => retM v))))
    | .nullishEq => bindM (lref H x) (fun r => bindM (getRef H r) (fun old =>
        if isNullish old then bindM (eval H y) (fun v => bindM (putRef H r v) (fun _ => retM v)) else retM old))
    | _ =>
      match compoundOp op with
      | some pop => bindM (lref H x) (fun r => bindM (getRef H r) (fun old => bindM (eval H y) (fun v =>
          bindM (putRef H r (H.arith pop old v)) (fun _ => retM (H.arith pop old v)))))
      | none => bindM (eval H x) (fun a => bindM (eval H y) (fun b => strictBin H op a b))
  | .cond c x y => bindM (eval H c) (fun v => if truthy v then eval H x else eval H y)
  | .comma l => bindM (evalL H l) (fun vs => retM (vs.getLast?.getD .undef))
  | .call f args => bindM (eval H f) (fun fv => bindM (evalL H args) (fun vs => hostEv (.call fv vs) H.call))
  | .dot x name => bindM (eval H x) (fun o => getProp H o (.str name))
  | .index x y => bindM (eval H x) (fun o => bindM (eval H y) (fun k => getProp H o k))
  -- OptionalExpression `a?.…`: when the base is nullish the whole chain is short-circuited to `undefined`
  | .opt a e => bindM (getVar a) (fun v => if isNullish v then retM .undef else eval H e)
/-- evaluation of a list of expressions, left to right -/
def evalL (H : Host) : List E → M (List Val)
  | [] => retM []
  | a :: t => bindM (eval H a) (fun v => bindM (evalL H t) (fun vs => retM (v :: vs)))
/-- evaluation of an assignment target to a reference -/
def lref (H : Host) : E → M Ref
  | .var n => retM (.var n)
  | .group x => lref H x
  | .dot x name => bindM (eval H x) (fun o => retM (.prop o (.str name)))
  | .index x y => bindM (eval H x) (fun o => bindM (eval H y) (fun k => retM (.prop o k)))
  | .lit l => bindM (eval H (.lit l)) (fun v => retM (.none v))
  | .unary op x => bindM (eval H (.unary op x)) (fun v => retM (.none v))
  | .bin op x y => bindM (eval H (.bin op x y)) (fun v => retM (.none v))
  | .cond c x y => bindM (eval H (.cond c x y)) (fun v => retM (.none v))
  | .comma l => bindM (eval H (.comma l)) (fun v => retM (.none v))
  | .call f a => bindM (eval H (.call f a)) (fun v => retM (.none v))
  | .opt a e => bindM (eval H (.opt a e)) (fun v => retM (.none v))
end

/-- statement completions other than throw -/
inductive Compl where
  | normal
  | ret (v : Val)
deriving DecidableEq, Repr

mutual
/-- execution of a statement -/
def exec (H : Host) : S → M Compl
  | .expr e => bindM (eval H e) (fun _ => retM .normal)
  | .ifS c t e => bindM (eval H c) (fun v => if truthy v then exec H t else exec H e)
  | .ret none => retM (.ret .undef)
  | .ret (some e) => bindM (eval H e) (fun v => retM (.ret v))
  | .throw e => bindM (eval H e) (fun v => throwV v)
  | .block l => execL H l
  | .fn _ _ _ => retM .normal
  | .empty => retM .normal
  | .absent => retM .normal
/-- execution of a statement list: stops at the first `return` (or throw) -/
def execL (H : Host) : List S → M Compl
  | [] => retM .normal
  | s :: t => bindM (exec H s) (fun c => match c with | .normal => execL H t | .ret v => retM (.ret v))
end

end Verif.Spec.JsSem

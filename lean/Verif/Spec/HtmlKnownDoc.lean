import Verif.Model.Html
import Verif.Spec.HtmlOptional
import Verif.Spec.HtmlKnown
/-!
# C03 — document-level guards of the known findings (`trig.c03.doc`)

Narrow syntactic predicates over the token stream (`HTok` is the lexer's output format, a contract — no logic of
the model is used here).  `nextOf` is the bridge from a token list to the `Next` of `Spec/HtmlOptional.lean`.
-/
namespace Verif.Spec.HtmlKnownDoc
open Verif.Model.Html (HTok Attr)
open Verif.Spec.HtmlOptional Verif.Spec.HtmlKnown

def isWsChar (c : Char) : Bool := c = ' ' || c = '\n' || c = '\r' || c = '\t' || c = '\x0c'
def allWs (b : List Char) : Bool := b.all isWsChar

/-- the next significant token: inter-element whitespace and comments are skipped -/
def nextOf : List HTok → Next
  | [] => .eof
  | .text d _ :: r => if allWs d then nextOf r else .other
  | .comment _ _ :: r => nextOf r
  | .doctype :: r => nextOf r
  | .startTag n _ :: _ => .start n
  | .endTag n _ :: _ => .end_ n
  | .svg _ :: _ => .start "svg".toList
  | .math _ :: _ => .start "math".toList
  | .template _ :: _ => .other

/-- **K-C03-4** (`pend`): `</p>` directly (whitespace aside) before the end tag of an autonomous custom element,
    of `slot`, or of an element unknown to the minifier — the minifier omits it, but for these end tags the tree
    builder does not close the open `p` (the end tag is ignored and what follows lands inside the `p`).  The
    standard excludes autonomous custom elements as parent explicitly. -/
def knownToMinifier (n : List Char) : Bool := (Verif.Gen.C03Tables.tagMap.lookup n).isSome
def trigPEnd (e : List Char) (nx : Next) : Bool :=
  e = "p".toList &&
  (match nx with
   | .end_ n => isCustomName n || n = "slot".toList || !knownToMinifier n
   | _ => false)

/-- end tags that html.go omits unconditionally -/
def alwaysOmitted : List String :=
  ["thead", "tbody", "tfoot", "tr", "th", "td", "option", "dd", "dt", "li", "rb", "rt", "rtc", "rp"]

/-- **K-C03-5** (`endomit`): an end tag that html.go omits unconditionally (or `</optgroup>`), followed by something
    that the content models allow there but before which the standard does not allow the omission:
    a script-supporting element (`<li>a</li><script>`), `</thead>` before `<tr>`, `</rt>`/`</rp>` before more ruby
    base text, `</dt>` as the last tag, `</optgroup>` before a comment and an `<option>`. -/
def trigEndOmit (e : List Char) (rest : List HTok) : Bool :=
  let nx := nextOf rest
  ((isOneOf e alwaysOmitted || e = "optgroup".toList) && conformingAfter e nx && !mayOmitEnd e nx) ||
  (e = "optgroup".toList &&
    (match rest with
     | .comment _ _ :: _ => nextOf rest == .start "option".toList
     | .text _ _ :: .comment _ _ :: _ => nextOf rest == .start "option".toList
     | _ => false))

/-- **K-C03-6** (`colgroup`): an attribute-less `colgroup` start tag whose omission the standard does not allow
    (empty, or not starting with `col`, or right after another `colgroup`): html.go drops the tags regardless.
    **K-C03-7** (`bodystart`): an attribute-less `body` start tag in front of an element that the tree builder
    puts into `head` when no `body` is open (`script`, `style`, `link`, `meta`, `template`, `noscript`, …). -/
def trigStartDrop (prev : Next) (name : List Char) (rest : List HTok) : Option String :=
  if name = "colgroup".toList && !mayOmitStart name prev (nextOf rest) then some "colgroup"
  else if name = "body".toList && !mayOmitStart name prev (nextOf rest) then some "bodystart"
  else none

/-- a text that ends inside something that looks like the beginning of a reference -/
def endsOpenRef (b : List Char) : Bool :=
  let tail := (b.reverse.takeWhile (fun c => isRefCh c)).reverse
  (b.reverse.drop tail.length).head? = some '&'

/-- elements next to which html.go removes or keeps whitespace differently from what their default rendering
    allows (table entries, see docs/C03.md): **K-C03-9** (`wsclass`) -/
def wsMisclassified : List String :=
  ["noscript", "style", "noembed", "noframes", "embed", "audio", "template", "q", "xmp", "listing",
   "plaintext", "rt", "rp", "rb", "rtc", "datalist"]

/-- attribute rewrites whose meaning is not preserved: **K-C03-10** (`attrsem`) -/
def attrSem (tag : List Char) (attrs : List Attr) : Bool :=
  let typ := (attrs.find? (fun a => a.name = "type".toList)).map (fun a => a.val.map Char.toLower)
  let nm := (attrs.find? (fun a => a.name = "name".toList)).map (fun a => a.val.map Char.toLower)
  attrs.any (fun a =>
    (tag = "input".toList && a.name = "value".toList && a.val.isEmpty &&
      (match typ with
       | some t => isOneOf t ["checkbox", "submit", "reset", "button", "image", "hidden", "range", "color"]
       | none => false)) ||
    (isOneOf a.name ["pattern", "target", "formtarget"] &&
      (Verif.Spec.HtmlAttr.decodeRefs true a.val).any (fun u => match u with | .lit c => isWsChar c | _ => false)) ||
    (tag = "meta".toList && a.name = "content".toList &&
      (match nm with
       | some n => (n.filter (fun c => !isWsChar c)) = "viewport".toList
       | none => false) && a.val.any isWsChar))

/-- **K-C03-12** (`prenl`): `<pre>` followed by a comment and then a newline: removing the comment puts the newline
    right after the start tag, where the parser drops it -/
def commentThenNewline : Bool → List HTok → Bool
  | seen, .comment _ _ :: r => commentThenNewline (seen || true) r
  | seen, .text d _ :: _ => seen && (d.head? = some '\n' || d.head? = some '\r')
  | _, _ => false

structure Scan where
  prev : Next := .eof        -- previous significant token (`eof` = start of input)
  lastText : Bool := false   -- a text token ending in an open reference prefix was written and nothing but removed tokens since
  deriving Repr

/-- all triggers that fire somewhere in the document -/
def docTriggersFrom : Scan → List HTok → List String
  | _, [] => []
  | sc, t :: rest =>
    let here : List String :=
      match t with
      | .text d _ =>
        (if glue d then ["glue"] else []) ++ (if ctlRef d || crLfRef d then ["ctlref"] else []) ++
        (if hexOverflow d then ["hexoverflow"] else []) ++
        (if sc.lastText && (d.head?.map isRefCh).getD false then ["textjoin"] else [])
      | .endTag e _ =>
        (if trigPEnd e (nextOf rest) then ["pend"] else []) ++ (if trigEndOmit e rest then ["endomit"] else [])
      | .startTag n attrs =>
        (match trigStartDrop sc.prev n rest with | some x => if attrs.isEmpty then [x] else [] | none => []) ++
        (if isOneOf n wsMisclassified then ["wsclass"] else []) ++
        (if attrSem n attrs then ["attrsem"] else []) ++
        (if isOneOf n ["pre", "listing"] && commentThenNewline false rest then ["prenl"] else []) ++
        (if (n = "style".toList && attrs.any (fun a => a.name = "amp-boilerplate".toList)) ||
            isOneOf n ["xmp", "listing", "plaintext", "noembed", "noframes"] then ["rawstyle"] else []) ++
        (if attrs.any (fun a => glue a.val) then ["glue"] else []) ++
        (if attrs.any (fun a => ctlRef a.val || crLfRef a.val) then ["ctlref"] else []) ++
        (if attrs.any (fun a => hexOverflow a.val) then ["hexoverflow"] else [])
      | _ => []
    let sc' : Scan :=
      match t with
      | .text d _ => { prev := if allWs d then sc.prev else .other, lastText := endsOpenRef d }
      | .comment _ _ => sc
      | .doctype => sc
      | .startTag n attrs =>
        { prev := .start n,
          lastText := sc.lastText && attrs.isEmpty && isOneOf n ["html", "head", "body", "colgroup"] }
      | .endTag n _ =>
        { prev := .end_ n, lastText := sc.lastText && isOneOf n ["html", "head", "body", "colgroup"] }
      | _ => { prev := .other, lastText := false }
    here ++ docTriggersFrom sc' rest

def docTriggers (toks : List HTok) : List String := (docTriggersFrom {} toks).eraseDups

end Verif.Spec.HtmlKnownDoc

import Verif.Model.Html
import Verif.Spec.HtmlOptional
import Verif.Spec.HtmlKnown
/-!
# C03 — document-level guards of the known findings (`trig.c03.doc`)

Narrow syntactic predicates over the token stream (`HTok` is the lexer's output format, a contract — no logic of
the model is used here).  `nextOf` is the bridge from a token list to the `Next` of `Spec/HtmlOptional.lean`.
-/
namespace Verif.Spec.HtmlKnownDoc
open Verif.Model.Html (HTok Attr)
open Verif.Spec.HtmlOptional Verif.Spec.HtmlKnown

def isWsChar (c : Char) : Bool := c = ' ' || c = '\n' || c = '\r' || c = '\t' || c = '\x0c'
def allWs (b : List Char) : Bool := b.all isWsChar

/-- the next significant token: inter-element whitespace and comments are skipped -/
def nextOf : List HTok → Next
  | [] => .eof
  | .text d _ :: r => if allWs d then nextOf r else .other
  | .comment _ _ :: r => nextOf r
  | .doctype :: _ => .other
  | .startTag n _ :: _ => .start n
  | .endTag n _ :: _ => .end_ n
  | .svg _ :: _ => .start "svg".toList
  | .math _ :: _ => .start "math".toList
  | .template _ :: _ => .other

/-- **K-C03-6** (`colgroup`): an attribute-less `colgroup` start tag whose omission the standard does not allow
    (empty, or not starting with `col`, or right after another `colgroup`): html.go drops the tags regardless. -/
def trigStartDrop (prev : Next) (name : List Char) (rest : List HTok) : Option String :=
  if name = "colgroup".toList && !mayOmitStart name prev (nextOf rest) then some "colgroup"
  else none

/-- a text that ends inside something that looks like the beginning of a reference -/
def endsOpenRef (b : List Char) : Bool :=
  let tail := (b.reverse.takeWhile (fun c => isRefCh c)).reverse
  (b.reverse.drop tail.length).head? = some '&'

/-- elements next to which html.go removes or keeps whitespace differently from what their default rendering
    allows (table entries, see docs/C03.md): **K-C03-9** (`wsclass`) -/
def wsMisclassified : List String :=
  ["noscript", "style", "noembed", "noframes", "embed", "audio", "template", "q", "xmp", "listing",
   "plaintext", "rt", "rp", "rb", "rtc", "datalist"]

/-- attribute rewrites whose meaning is not preserved: **K-C03-10** (`attrsem`) -/
def attrSem (tag : List Char) (attrs : List Attr) : Bool :=
  let typ := (attrs.find? (fun a => a.name = "type".toList)).map (fun a => a.val.map Char.toLower)
  let nm := (attrs.find? (fun a => a.name = "name".toList)).map (fun a => a.val.map Char.toLower)
  attrs.any (fun a =>
    (tag = "input".toList && a.name = "value".toList && a.val.isEmpty &&
      (match typ with
       | some t => isOneOf t ["checkbox", "submit", "reset", "button", "image", "hidden", "range", "color"]
       | none => false)) ||
    (isOneOf a.name ["pattern", "target", "formtarget"] &&
      (Verif.Spec.HtmlAttr.decodeRefs true a.val).any (fun u => match u with | .lit c => isWsChar c | _ => false)) ||
    (tag = "meta".toList && a.name = "content".toList &&
      (match nm with
       | some n => (n.filter (fun c => !isWsChar c)) = "viewport".toList
       | none => false) && a.val.any isWsChar))

/-- **K-C03-15** (`prekept`): `<pre>` followed by a comment and then a newline.  html.go writes an extra newline
    (fix of K-C03-12) — also when the comment is a conditional comment that is kept -/
def commentThenNewline : Bool → List HTok → Bool
  | seen, .comment _ _ :: r => commentThenNewline (seen || true) r
  | seen, .text d _ :: _ => seen && (d.head? = some '\n' || d.head? = some '\r')
  | _, _ => false

structure Scan where
  prev : Next := .eof        -- previous significant token (`eof` = start of input)
  lastText : Bool := false   -- a text token ending in an open reference prefix was written and nothing but removed tokens since
  deriving Repr

/-- all triggers that fire somewhere in the document -/
def docTriggersFrom : Scan → List HTok → List String
  | _, [] => []
  | sc, t :: rest =>
    let here : List String :=
      match t with
      | .text d _ =>
        (if crLfRef d then ["crlf"] else []) ++
        (if hexOverflow d then ["hexoverflow"] else []) ++
        (if sc.lastText && (d.head?.map isRefCh).getD false then ["textjoin"] else [])
      | .endTag e _ =>
        []
      | .startTag n attrs =>
        (match trigStartDrop sc.prev n rest with | some x => if attrs.isEmpty then [x] else [] | none => []) ++
        (if (n = "style".toList && attrs.any (fun a => a.name = "amp-boilerplate".toList)) ||
            isOneOf n ["xmp", "listing", "plaintext", "noembed", "noframes"] then ["rawstyle"] else []) ++
        (if attrs.any (fun a => crLfRef a.val) then ["crlf"] else []) ++
        (if attrs.any (fun a => hexOverflow a.val) then ["hexoverflow"] else [])
      | _ => []
    let sc' : Scan :=
      match t with
      | .text d _ => { prev := if allWs d then sc.prev else .other, lastText := endsOpenRef d }
      | .comment _ _ => sc
      | .doctype => sc
      | .startTag n attrs =>
        { prev := .start n,
          lastText := sc.lastText && attrs.isEmpty && isOneOf n ["html", "head", "body", "colgroup"] }
      | .endTag n _ =>
        { prev := .end_ n, lastText := sc.lastText && isOneOf n ["html", "head", "body", "colgroup"] }
      | _ => { prev := .other, lastText := false }
    here ++ docTriggersFrom sc' rest

def docTriggers (toks : List HTok) : List String := (docTriggersFrom {} toks).eraseDups

end Verif.Spec.HtmlKnownDoc

import Verif.Gen.C03Html5Entities
/-!
# HTML standard: attribute-value tokenisation and character-reference decoding (specification side of C03)

Hand transcription of the WHATWG HTML standard, §13.2.5 (tokenization):

* *attribute value (double-quoted / single-quoted / unquoted) state* → `tokenizeAttr`
* *character reference state*, *named character reference state* (longest match over the table of named
  character references; in an attribute a match that does not end in `;` and is followed by `=` or an
  ASCII alphanumeric is **not** a reference), *numeric character reference state* (decimal and
  hexadecimal, optional `;`), *numeric character reference end state* (0, surrogates and values above
  0x10FFFF become U+FFFD; 0x80–0x9F are remapped through the windows-1252 table) → `matchRef`, `decodeRefs`.

The table of named references is `Verif.Gen.C03Html5Entities.entities`, regenerated from Go's standard
library (`html/entity.go`); it is *not* taken from the code under verification.

Documents are byte strings (Latin-1 embedding, see `Base/Bytes.lean`).  Bytes ≥ 0x80 are opaque: neither
the standard's reference syntax nor the minifier looks inside UTF-8 sequences, so decoding is specified on
bytes.  A decoded value is a list of *units* `DU`:

* `lit c`  — the source byte `c` taken literally.  The parser's input-stream preprocessing (CR, CRLF → LF)
             and its NUL handling apply to these, uniformly on both sides of every statement below;
* `cp n`   — a code point that only a character reference can produce here: a non-ASCII code point, or a
             carriage return (`&#13;`: exempt from newline normalisation, unlike a literal CR byte).

A reference to an ASCII code point other than CR denotes the same unit as the literal byte
(`&#65;` ≡ `A`, `&amp;` ≡ `&`).  Equality of unit lists is therefore (slightly) *finer* than equality of
the values an HTML parser reports; every theorem stated with `=` on `List DU` implies the parser-level
statement.

This file is independent of `Verif.Model.*`.
-/
namespace Verif.Spec.HtmlAttr
open Verif.Gen

/-! ## character classes -/

def isDigit (c : Char) : Bool := 48 ≤ c.toNat && c.toNat ≤ 57
def isUpperHex (c : Char) : Bool := 65 ≤ c.toNat && c.toNat ≤ 70
def isLowerHex (c : Char) : Bool := 97 ≤ c.toNat && c.toNat ≤ 102
def isHex (c : Char) : Bool := isDigit c || isUpperHex c || isLowerHex c
def isAlpha (c : Char) : Bool := (65 ≤ c.toNat && c.toNat ≤ 90) || (97 ≤ c.toNat && c.toNat ≤ 122)
def isAlnum (c : Char) : Bool := isDigit c || isAlpha c
/-- ASCII whitespace of the HTML standard: TAB, LF, FF, CR, SPACE -/
def isWs (c : Char) : Bool := c = '\t' || c = '\n' || c = '\x0c' || c = '\r' || c = ' '

/-! ## decoded units -/

inductive DU where
  | lit (c : Char)
  | cp (n : Nat)
  deriving DecidableEq, Repr

/-- unit denoted by a reference to code point `n` -/
def mkCp (n : Nat) : DU := if n < 128 ∧ n ≠ 13 then .lit (Char.ofNat n) else .cp n

/-! ## numeric references -/

def digitVal (c : Char) : Nat :=
  if isDigit c then c.toNat - 48 else if isUpperHex c then c.toNat - 55 else if isLowerHex c then c.toNat - 87 else 0

def numVal (base : Nat) (ds : List Char) : Nat := ds.foldl (fun a c => a * base + digitVal c) 0

/-- the windows-1252 remapping table of the *numeric character reference end state* -/
def win1252 : List (Nat × Nat) := [
  (0x80, 0x20AC), (0x82, 0x201A), (0x83, 0x0192), (0x84, 0x201E), (0x85, 0x2026), (0x86, 0x2020),
  (0x87, 0x2021), (0x88, 0x02C6), (0x89, 0x2030), (0x8A, 0x0160), (0x8B, 0x2039), (0x8C, 0x0152),
  (0x8E, 0x017D), (0x91, 0x2018), (0x92, 0x2019), (0x93, 0x201C), (0x94, 0x201D), (0x95, 0x2022),
  (0x96, 0x2013), (0x97, 0x2014), (0x98, 0x02DC), (0x99, 0x2122), (0x9A, 0x0161), (0x9B, 0x203A),
  (0x9C, 0x0153), (0x9E, 0x017E), (0x9F, 0x0178)]

/-- *numeric character reference end state* -/
def numericFix (n : Nat) : Nat :=
  if n = 0 then 0xFFFD
  else if 0x10FFFF < n then 0xFFFD
  else if 0xD800 ≤ n ∧ n ≤ 0xDFFF then 0xFFFD
  else match win1252.lookup n with
    | some m => m
    | none => n

/-- 1 if the list starts with `;` (which then belongs to the reference), else 0 -/
def semiLen : List Char → Nat
  | c :: _ => if c = ';' then 1 else 0
  | [] => 0

/-- digits `ds` (non-empty) of a numeric reference in `base`, found after `pre` characters (`#` or `#x`),
    followed by `rest` -/
def numericOf (base : Nat) (isD : Char → Bool) (pre : Nat) (r : List Char) : Option (List DU × Nat) :=
  let ds := r.takeWhile isD
  if ds.isEmpty then none
  else some ([mkCp (numericFix (numVal base ds))], pre + ds.length + semiLen (r.drop ds.length))

/-- a numeric character reference at the start of `s` (the text after `&`):
    decoded units and number of characters consumed -/
def matchNumeric : List Char → Option (List DU × Nat)
  | c :: r =>
    if c = '#' then
      match r with
      | x :: h => if x = 'x' ∨ x = 'X' then numericOf 16 isHex 2 h else numericOf 10 isDigit 1 r
      | [] => none
    else none
  | [] => none

/-! ## named references -/

/-- look a name (with its trailing `;` if any) up in the table of named character references
    (keys are stored as lists of ASCII codes) -/
def lookupName (n : List Char) : Option (List Nat) := C03Html5Entities.entities.lookup (n.map Char.toNat)

/-- the longest prefix of `run` of length ≤ `k` that is a name of the table: (length, code points) -/
def longestFrom (run : List Char) : Nat → Option (Nat × List Nat)
  | 0 => none
  | k + 1 =>
    match lookupName (run.take (k + 1)) with
    | some cps => some (k + 1, cps)
    | none => longestFrom run k

/-- is `s` continued by `=` or an ASCII alphanumeric? (the attribute-context exception) -/
def blocksAttrRef : List Char → Bool
  | c :: _ => c = '=' || isAlnum c
  | [] => false

/-- a named character reference at the start of `s` (the text after `&`).  Names consist of ASCII
    alphanumerics, optionally closed by `;`, so the longest table name that is a prefix of `s` is either
    `run;` for the whole alphanumeric run `run`, or the longest prefix of `run` that is a (legacy,
    semicolon-less) name.  No name of the table is longer than 32 alphanumerics. -/
def matchNamed (attr : Bool) (s : List Char) : Option (List DU × Nat) :=
  let run := s.takeWhile isAlnum
  let withSemi : Option (List DU × Nat) :=
    if semiLen (s.drop run.length) = 1 then
      (lookupName (run ++ [';'])).map (fun cps => (cps.map mkCp, run.length + 1))
    else none
  match withSemi with
  | some r => some r
  | none =>
    match longestFrom run (min run.length 32) with
    | none => none
    | some (k, cps) =>
      if attr && blocksAttrRef (s.drop k) then none else some (cps.map mkCp, k)

/-- *character reference state*: `s` is the input after a `&` -/
def matchRef (attr : Bool) (s : List Char) : Option (List DU × Nat) :=
  if s.head? = some '#' then matchNumeric s else matchNamed attr s

/-- decode the character references of a raw attribute value (`attr = true`) or of RCDATA / data text
    (`attr = false`).  First argument: number of input characters still to be skipped because they belong
    to the reference just decoded. -/
def dec (attr : Bool) : Nat → List Char → List DU
  | _, [] => []
  | k + 1, _ :: s => dec attr k s
  | 0, c :: s =>
    if c = '&' then
      match matchRef attr s with
      | some (us, k) => us ++ dec attr k s
      | none => .lit '&' :: dec attr 0 s
    else .lit c :: dec attr 0 s

def decodeRefs (attr : Bool) (s : List Char) : List DU := dec attr 0 s

/-- the value of an attribute whose raw (between the delimiters) text is `raw` -/
def decodeAttr (raw : List Char) : List DU := decodeRefs true raw

/-! ## attribute-value tokenisation -/

/-- characters that are a parse error inside an unquoted attribute value
    (*unexpected-character-in-unquoted-attribute-value*); a conforming writer never emits them unquoted -/
def unquotedBad (c : Char) : Bool := c = '"' || c = '\'' || c = '<' || c = '=' || c = '`'

/-- characters that end an unquoted attribute value -/
def endsUnquoted (c : Char) : Bool := isWs c || c = '>'

/-- Tokenise an attribute value.  `s` is the input right after the `=` of an attribute (no whitespace
    in between).  Result: the raw value and the remaining input (after the closing quote; for an unquoted
    value: starting at the whitespace or `>` that ended it).  `none`: not a conforming attribute value
    (unterminated quote, empty unquoted value, unquoted value containing a quote, `<`, `=` or backtick). -/
def tokenizeUnquoted (s : List Char) : Option (List Char × List Char) :=
  let v := s.takeWhile (fun c => !endsUnquoted c)
  if v.isEmpty || v.any unquotedBad then none else some (v, s.drop v.length)

/-- value delimited by the quote character `q`; `r` is the input after the opening quote -/
def tokenizeQuoted (q : Char) (r : List Char) : Option (List Char × List Char) :=
  let v := r.takeWhile (fun c => c != q)
  match r.drop v.length with
  | _ :: rest => some (v, rest)   -- the character that stopped `takeWhile` is the closing quote
  | [] => none

def tokenizeAttr (s : List Char) : Option (List Char × List Char) :=
  match s with
  | c :: r => if c = '"' ∨ c = '\'' then tokenizeQuoted c r else tokenizeUnquoted s
  | [] => none

/-- what may follow an attribute value in a tag written by a conforming writer -/
def tagContinues : List Char → Bool
  | c :: _ => c = ' ' || c = '>'
  | [] => false

end Verif.Spec.HtmlAttr

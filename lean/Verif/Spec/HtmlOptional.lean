/-!
# HTML standard §13.1.2.4 "Optional tags" (specification side of C03)

Hand transcription of the rules as decidable predicates over
`(element whose tag is omitted, the next significant token)`.

`Next` is the next token that is neither inter-element whitespace nor a comment (the minifier removes comments
and treats whitespace next to these elements as insignificant; whitespace placement is the subject of
`Spec/HtmlWs.lean`).  "There is no more content in the parent element" reads: the next significant token is an end
tag (in a conforming document it closes the parent or an ancestor whose own end tags were omitted) or the end of
the input.  Where a rule mentions the parent (`p`), the parent is the element that the following end tag closes.

The obsolete ruby elements `rb` / `rtc` follow the W3C HTML 5.x text.  Independent of `Verif.Model.*` and of the
minifier's tables.
-/
namespace Verif.Spec.HtmlOptional

inductive Next where
  | start (name : List Char)
  | end_ (name : List Char)
  | eof
  | other        -- text, a comment that is kept, a template token, foreign content
  deriving DecidableEq, Repr

def names (l : List String) : List (List Char) := l.map String.toList
def isOneOf (n : List Char) (l : List String) : Bool := (names l).contains n

/-- start tags that imply the end of an open `p` element -/
def pClosers : List String :=
  ["address", "article", "aside", "blockquote", "details", "dialog", "div", "dl", "fieldset", "figcaption", "figure",
   "footer", "form", "h1", "h2", "h3", "h4", "h5", "h6", "header", "hgroup", "hr", "main", "menu", "nav", "ol", "p",
   "pre", "search", "section", "table", "ul"]

/-- parents inside which the end tag of a last-child `p` must not be omitted -/
def pKeepParents : List String := ["a", "audio", "del", "ins", "map", "noscript", "video"]

/-- a valid custom element name contains a hyphen (and no element of the HTML namespace does) -/
def isCustomName (n : List Char) : Bool := n.contains '-'

def noMoreContent : Next → Bool
  | .end_ _ => true
  | .eof => true
  | _ => false

def nextIsStart (nx : Next) (l : List String) : Bool :=
  match nx with
  | .start n => isOneOf n l
  | _ => false

def is (e : List Char) (name : String) : Bool := e = name.toList

/-- html, head, body, colgroup: their end tags may be omitted unless a comment (html, body) resp. whitespace or a
    comment (head, colgroup) follows — statements about where a whitespace / comment node ends up, not about elements -/
def isDocElem (e : List Char) : Bool := is e "html" || is e "body" || is e "head" || is e "colgroup"

/-- "… if the element is immediately followed by a … element": the start tags before which the END tag of `e` may
    be omitted -/
def closers (e : List Char) : List String :=
  if is e "li" then ["li"]
  else if is e "dt" then ["dt", "dd"]
  else if is e "dd" then ["dd", "dt"]
  else if is e "p" then pClosers
  else if is e "rt" || is e "rp" then ["rt", "rp"]
  else if is e "rb" then ["rb", "rt", "rtc", "rp"]
  else if is e "rtc" then ["rb", "rtc"]
  else if is e "optgroup" then ["optgroup", "hr"]
  else if is e "option" then ["option", "optgroup", "hr"]
  else if is e "thead" || is e "tbody" then ["tbody", "tfoot"]
  else if is e "tr" then ["tr"]
  else if is e "td" || is e "th" then ["td", "th"]
  else []

/-- "… or if there is no more content in the parent element".  For `thead` the standard's text has no such clause;
    it is included because the tree builder closes an open `thead` at `</table>` (a table whose only section is a
    `thead` is conforming), so that the end tag is inferred again at the same place.  `dt` must be followed by a
    `dd`. -/
def omitAtEnd (e : List Char) : Bool :=
  is e "li" || is e "dd" || is e "p" || is e "rt" || is e "rp" || is e "rb" || is e "rtc" || is e "optgroup" ||
  is e "option" || is e "thead" || is e "tbody" || is e "tfoot" || is e "tr" || is e "td" || is e "th"

/-- may the END tag of element `e` be omitted when `nx` follows? -/
def mayOmitEnd (e : List Char) (nx : Next) : Bool :=
  isDocElem e ||
  match nx with
  | .start n => isOneOf n (closers e)
  | .end_ parent => omitAtEnd e && (!is e "p" || (!isOneOf parent pKeepParents && !isCustomName parent))
  | .eof => omitAtEnd e
  | .other => false

/-- the elements that the tree builder moves into `head` when no `body` is open yet: "… except if the first thing
    inside the body element is a meta, noscript, link, script, style, or template element" -/
def headBound : List String := ["meta", "noscript", "link", "script", "style", "template"]

/-- may the START tag of element `e` be omitted when `nx` is the first significant thing inside it, and `prev`
    is the significant token before the start tag? -/
def mayOmitStart (e : List Char) (prev nx : Next) : Bool :=
  if is e "html" then true                       -- unless the first thing inside is a comment
  else if is e "head" then
    (match nx with | .start _ => true | .end_ n => n = "head".toList | _ => false)
  else if is e "body" then
    (match nx with
     | .start n => !isOneOf n headBound
     | _ => true)
  else if is e "colgroup" then
    nextIsStart nx ["col"] && !(match prev with | .end_ n => n = "colgroup".toList | _ => false)
  else false

/-! ## what can follow in a conforming document (content models, §4) -/

/-- script-supporting elements may appear wherever a content model lists elements only -/
def scriptSupporting : List String := ["script", "template"]

/-- the element start tags that the content models allow directly after the end tag of `e`
    (`none`: anything — `p`, ruby text, the document elements) -/
def allowedAfter (e : List Char) : Option (List String) :=
  if is e "li" then some ["li"]
  else if is e "dt" || is e "dd" then some ["dt", "dd"]
  else if is e "optgroup" || is e "option" then some ["optgroup", "option", "hr"]
  else if is e "thead" then some ["tbody", "tr", "tfoot"]
  else if is e "tbody" then some ["tbody", "tfoot"]
  else if is e "tfoot" then some []
  else if is e "tr" then some ["tr"]
  else if is e "td" || is e "th" then some ["td", "th"]
  else none

/-- can `nx` follow the end tag of `e` in a document that obeys the content models?  `dt` cannot be last (a `dd`
    must follow); `rb` and `rtc` are obsolete elements: nothing conforming contains them. -/
def conformingAfter (e : List Char) (nx : Next) : Bool :=
  if is e "rb" || is e "rtc" then false
  else match allowedAfter e with
    | none => !(nextIsStart nx ["rb", "rtc"])
    | some l =>
      (match nx with
       | .start n => isOneOf n (l ++ scriptSupporting)
       | .end_ _ => !is e "dt"
       | .eof => !is e "dt"
       | .other => false)

end Verif.Spec.HtmlOptional

/-!
# HTML standard §13.1.2.4 "Optional tags" (specification side of C03)

Hand transcription of the rules as decidable predicates over
`(element whose tag is omitted, the next significant token)`.

`Next` is the next token that is neither inter-element whitespace nor a comment (the minifier removes comments
and treats whitespace next to these elements as insignificant; whitespace placement is the subject of
`Spec/HtmlWs.lean`).  "There is no more content in the parent element" reads: the next significant token is an end
tag (in a conforming document it closes the parent or an ancestor whose own end tags were omitted) or the end of
the input.  Where a rule mentions the parent (`p`), the parent is the element that the following end tag closes.

The obsolete ruby elements `rb` / `rtc` follow the W3C HTML 5.x text.  Independent of `Verif.Model.*` and of the
minifier's tables.
-/
namespace Verif.Spec.HtmlOptional

inductive Next where
  | start (name : List Char)
  | end_ (name : List Char)
  | eof
  | other        -- text, a comment that is kept, a template token, foreign content
  deriving DecidableEq, Repr

def names (l : List String) : List (List Char) := l.map String.toList
def isOneOf (n : List Char) (l : List String) : Bool := (names l).contains n

/-- start tags that imply the end of an open `p` element -/
def pClosers : List String :=
  ["address", "article", "aside", "blockquote", "details", "dialog", "div", "dl", "fieldset", "figcaption", "figure",
   "footer", "form", "h1", "h2", "h3", "h4", "h5", "h6", "header", "hgroup", "hr", "main", "menu", "nav", "ol", "p",
   "pre", "search", "section", "table", "ul"]

/-- parents inside which the end tag of a last-child `p` must not be omitted -/
def pKeepParents : List String := ["a", "audio", "del", "ins", "map", "noscript", "video"]

/-- a valid custom element name contains a hyphen (and no element of the HTML namespace does) -/
def isCustomName (n : List Char) : Bool := n.contains '-'

def noMoreContent : Next → Bool
  | .end_ _ => true
  | .eof => true
  | _ => false

def nextIsStart (nx : Next) (l : List String) : Bool :=
  match nx with
  | .start n => isOneOf n l
  | _ => false

/-- may the END tag of element `e` be omitted when `nx` follows? -/
def mayOmitEnd (e : List Char) (nx : Next) : Bool :=
  if e = "li".toList then nextIsStart nx ["li"] || noMoreContent nx
  else if e = "dt".toList then nextIsStart nx ["dt", "dd"]
  else if e = "dd".toList then nextIsStart nx ["dd", "dt"] || noMoreContent nx
  else if e = "p".toList then
    nextIsStart nx pClosers ||
    (match nx with
     | .end_ parent => !isOneOf parent pKeepParents && !isCustomName parent
     | .eof => true
     | _ => false)
  else if e = "rt".toList || e = "rp".toList then nextIsStart nx ["rt", "rp"] || noMoreContent nx
  else if e = "rb".toList then nextIsStart nx ["rb", "rt", "rtc", "rp"] || noMoreContent nx
  else if e = "rtc".toList then nextIsStart nx ["rb", "rtc"] || noMoreContent nx
  else if e = "optgroup".toList then nextIsStart nx ["optgroup", "hr"] || noMoreContent nx
  else if e = "option".toList then nextIsStart nx ["option", "optgroup", "hr"] || noMoreContent nx
  else if e = "thead".toList then nextIsStart nx ["tbody", "tfoot"]
  else if e = "tbody".toList then nextIsStart nx ["tbody", "tfoot"] || noMoreContent nx
  else if e = "tfoot".toList then noMoreContent nx
  else if e = "tr".toList then nextIsStart nx ["tr"] || noMoreContent nx
  else if e = "td".toList || e = "th".toList then nextIsStart nx ["td", "th"] || noMoreContent nx
  -- html, body: unless followed by a comment; head, colgroup, caption: unless followed by whitespace or a comment —
  -- both are statements about where a whitespace / comment node ends up, not about elements
  else if e = "html".toList || e = "body".toList || e = "head".toList || e = "colgroup".toList then true
  else false

/-- elements that the tree builder moves into `head` when they come right after `</head>` / before any body
    content: a `body` start tag must not be omitted in front of them -/
def headBound : List String :=
  ["meta", "noscript", "link", "script", "style", "template", "base", "basefont", "bgsound", "noframes", "title"]

/-- may the START tag of element `e` be omitted when `nx` is the first significant thing inside it, and `prev`
    is the significant token before the start tag? -/
def mayOmitStart (e : List Char) (prev nx : Next) : Bool :=
  if e = "html".toList then true                       -- unless the first thing inside is a comment
  else if e = "head".toList then
    (match nx with | .start _ => true | .end_ n => n = "head".toList | _ => false)
  else if e = "body".toList then
    (match nx with
     | .start n => !isOneOf n headBound
     | _ => true)
  else if e = "colgroup".toList then
    nextIsStart nx ["col"] && !(match prev with | .end_ n => n = "colgroup".toList | _ => false)
  else false

/-! ## what can follow in a conforming document (content models, §4) -/

/-- script-supporting elements may appear wherever a content model lists elements only -/
def scriptSupporting : List String := ["script", "template"]

/-- can `nx` follow the end tag of `e` in a document that obeys the content models?  (`p` and the document
    elements can be followed by anything.) -/
def conformingAfter (e : List Char) (nx : Next) : Bool :=
  let elems (l : List String) : Bool := nextIsStart nx (l ++ scriptSupporting) || noMoreContent nx
  if e = "li".toList then elems ["li"]
  else if e = "dt".toList then nextIsStart nx (["dt", "dd"] ++ scriptSupporting)
  else if e = "dd".toList then elems ["dt", "dd"]
  else if e = "rt".toList || e = "rp".toList then true          -- ruby: phrasing content, rt, rp in any order
  else if e = "rb".toList || e = "rtc".toList then false        -- obsolete elements
  else if e = "optgroup".toList then elems ["optgroup", "option", "hr"]
  else if e = "option".toList then elems ["option", "optgroup", "hr"]
  else if e = "thead".toList then nextIsStart nx (["tbody", "tr", "tfoot"] ++ scriptSupporting) || noMoreContent nx
  else if e = "tbody".toList then elems ["tbody", "tfoot"]
  else if e = "tfoot".toList then elems []
  else if e = "tr".toList then elems ["tr"]
  else if e = "td".toList || e = "th".toList then elems ["td", "th"]
  else true

end Verif.Spec.HtmlOptional

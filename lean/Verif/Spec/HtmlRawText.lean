/-!
# Where a RAWTEXT element ends (specification side of C03)

HTML standard §13.2.5.3 RAWTEXT state, §13.2.5.12–14 (RAWTEXT less-than sign / end tag open / end tag name states),
for the elements whose content is tokenised in the RAWTEXT state (`style`, `iframe`, `xmp`, `noembed`, `noframes`):
the text of the element ends at the first *appropriate end tag*: `</` followed by the element's name (ASCII
case-insensitive) followed by one of tab, LF, FF, space, `/`, `>`.  Anything else that looks like an end tag
(`</styles>`, `</style1>`, `</style` at the end of the input) is text; scanning resumes right behind the `<`.

`rawTextEnd name pos l` is the offset (counting from `pos` for the head of `l`) of the `<` of that end tag, or the
offset of the end of the input when there is none.

The script data states (escaped / double escaped) are NOT specified here.

Independent of `Verif.Model.*`.
-/
namespace Verif.Spec.HtmlRawText

def asciiLower (c : Char) : Char := if 'A' ≤ c && c ≤ 'Z' then Char.ofNat (c.toNat + 32) else c

/-- the characters that end a tag name -/
def isDelim (c : Char) : Bool := c = '\t' || c = '\n' || c = '\x0c' || c = ' ' || c = '/' || c = '>'

/-- `l` starts with the (lower-case) name `p`, ASCII case-insensitively: the rest -/
def startsCI : List Char → List Char → Option (List Char)
  | [], l => some l
  | _ :: _, [] => none
  | p :: ps, c :: r => if asciiLower c = p then startsCI ps r else none

/-- `name` + delimiter at the head of `l` -/
def nameThenDelim (name l : List Char) : Bool :=
  match startsCI name l with
  | some (d :: _) => isDelim d
  | _ => false

/-- an appropriate end tag of the element `name` starts at the head of `l` -/
def appropriateEnd (name l : List Char) : Bool :=
  match l with
  | c1 :: c2 :: r => c1 = '<' && c2 = '/' && nameThenDelim name r
  | _ => false

def rawTextEnd (name : List Char) : Nat → List Char → Nat
  | pos, [] => pos
  | pos, c :: r => if appropriateEnd name (c :: r) then pos else rawTextEnd name (pos + 1) r

end Verif.Spec.HtmlRawText

import Verif.Spec.HtmlAttr
/-!
# C03 — guard predicates of the known findings (single source of truth; also served as `trig.c03.*`)

Each predicate is a narrow, decidable, purely syntactic property of the *input* (raw text or raw attribute
value), phrased with the specification's own recognisers — never with the model of the implementation.
The `_partial` theorems of `Props/C03.lean` carry their negations as hypotheses; the harness excludes
generated cases under a trigger from the model comparison (they are still replayed as known findings).
-/
namespace Verif.Spec.HtmlKnown
open Verif.Spec.HtmlAttr

/-- characters that can occur inside the text of a character reference (after the `&`), plus `=`
    (which decides, in an attribute, whether a semicolon-less named reference is one) -/
def isRefCh (c : Char) : Bool := isAlnum c || c = '#' || c = ';' || c = '='

/-- does some suffix of the text that starts right after an `&` satisfy `p`? -/
def anyAfterAmp (p : List Char → Bool) : List Char → Bool
  | [] => false
  | c :: s => (c = '&' && p s) || anyAfterAmp p s

/-- `s` (text after `&`) starts with a numeric reference closed by `;` whose value satisfies `q`;
    `hexOnly`: only the `&#x…;` form counts (Go's `replaceEntities` recognises a lower-case `x` only) -/
def numRefWith (q : Nat → Bool) (hexOnly : Bool) : List Char → Bool
  | c :: r =>
    c = '#' &&
    (match r with
     | x :: h =>
       if x = 'x' then
         let ds := h.takeWhile isHex
         !ds.isEmpty && semiLen (h.drop ds.length) = 1 && q (numVal 16 ds)
       else
         let ds := r.takeWhile isDigit
         !hexOnly && !ds.isEmpty && semiLen (r.drop ds.length) = 1 && q (numVal 10 ds)
     | [] => false)
  | [] => false

/-- **K-C03-2** (fixed in /repo: the reverse maps keep these references; kept as a classifier of regression inputs):
    a `;`-terminated numeric reference to U+0000 or U+000D.
    The minifier writes the byte itself: a literal NUL (dropped or replaced by the parser, where `&#0;`
    denotes U+FFFD) resp. a literal CR (normalised to LF by the parser, where `&#13;` denotes a CR). -/
def ctlRef (raw : List Char) : Bool :=
  anyAfterAmp (numRefWith (fun v => v = 0 || v = 13) false) raw

/-- `s` (text after `&`) is a `;`-terminated reference that denotes a line feed (`&#10;`, `&#xA;`, `&NewLine;`) -/
def refToLf (s : List Char) : Bool :=
  match matchRef false s with
  | some ([.lit ch], k) => ch = '\n' && (s.drop (k - 1)).head? = some ';'
  | _ => false

/-- **K-C03-13** (`trig.c03.crlf`): a literal CR immediately followed by a reference to LF.  The minifier
    writes the LF itself, the parser's newline normalisation then merges CR LF into one LF.  (The decoded units of
    `Spec/HtmlAttr.lean` identify `&#10;` with a literal LF; this is the one place where the parser does not.) -/
def crLfRef : List Char → Bool
  | [] => false
  | c :: s => (c = '\r' && (match s with | d :: t => d = '&' && refToLf t | [] => false)) || crLfRef s

/-- **K-C03-3** (`trig.c03.hexoverflow`): a `;`-terminated hexadecimal reference whose value is ≥ 2^63
    (Go computes it in a wrapping 64-bit `int`; the standard says U+FFFD). -/
def hexOverflow (raw : List Char) : Bool :=
  anyAfterAmp (numRefWith (fun v => 2 ^ 63 ≤ v) true) raw

/-- `s` (text after `&`) is a `;`-terminated reference that denotes a single character of `isRefCh`
    (`&#59;`, `&#x3D;`, `&#108;`, `&num;`, `&semi;`, `&equals;` …) -/
def refToRefCh (s : List Char) : Bool :=
  match matchRef false s with
  | some ([.lit ch], k) => isRefCh ch && (s.drop (k - 1)).head? = some ';'
  | _ => false

/-- scanner for `glue`: `opened` = the text so far ends with `&` followed only by `isRefCh` characters -/
def glueFrom : Bool → List Char → Bool
  | _, [] => false
  | opened, c :: s =>
    if c = '&' then (opened && refToRefCh s) || glueFrom true s
    else glueFrom (opened && isRefCh c) s

/-- **K-C03-1** (`trig.c03.glue`): an `&` followed only by characters from `[A-Za-z0-9#;=]` and then
    *immediately* by a reference to one of those characters, as in `&amp;&#108;t;` or `&&#35;60;`.
    The minifier replaces references one after the other in place; the second replacement can complete
    (or, for `;`/`=`, change the extent of) a reference that the input did not contain. -/
def glue (raw : List Char) : Bool := glueFrom false raw

/-- the guard of `entities_preserve_partial` -/
def refsTrigger (raw : List Char) : Bool := glue raw || hexOverflow raw || crLfRef raw

end Verif.Spec.HtmlKnown

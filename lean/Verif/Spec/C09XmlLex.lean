import Verif.Spec.Xml
/-!
# C09 (XML / SVG documents) — an independent XML 1.0 tokeniser on bytes

Specification side, core Lean only, written from the productions of XML 1.0 (5th ed.); nothing here mentions the
model of the implementation or the dependency lexer.  Bytes are `List Char` (Latin-1 embedding).

* `xmlTokens : List Char → Option (List XTok)` — recogniser/tokeniser: [1] document (loosely: a sequence of
  markup and character data), [14] CharData (no `<`, `&` only as the start of a reference [66]–[68], no `]]>`),
  [15] Comment (no `--` inside), [16] PI (target [17], raw data up to the first `?>`), [18]–[21] CDSect,
  [28] doctypedecl (quoted literals, internal subset in brackets with declarations, comments and PIs),
  [40] STag / [44] EmptyElemTag with [41] Attribute, [25] Eq, [10] AttValue, [42] ETag, [5] Name.
  `none` = not well-formed at the token level.
* The result uses the token type `XTok` (`Spec/XmlTok.lean`) in the *reader's view*: one `text` token per run of
  character data, the data of a processing instruction as one raw item `attrBare data data` (XML gives PI data
  no structure), an end tag with its bytes.
* `bytesOf` — the serialisation of a token stream; `view` — the reader's view of an arbitrary token stream
  (adjacent `text` tokens merged, the items of a PI concatenated); `canonOk` — the decidable grammar of token
  streams in reader's view; `lexOk` — the same grammar for streams as the dependency lexer delivers them
  (text tokens may be adjacent, PI data split into items): the **lexer contract** of the C09 theorems.
-/
namespace Verif.Spec.C09XmlLex
open Verif.Xml (XTok)
open Verif.Spec.Xml

/-! ## names, white space -/

/-- ASCII part of `NameStartChar` [4]; every non-ASCII byte accepted -/
def isNameStart (c : Char) : Bool := isAl c || c == '_' || c == ':' || 128 ≤ c.toNat

/-- [5] `Name` -/
def isName : List Char → Bool
  | c :: r => isNameStart c && r.all isNameChar
  | [] => false

/-- a `Name` at the start of `s`, and what follows it -/
def takeName (s : List Char) : Option (List Char × List Char) :=
  let n := s.takeWhile isNameChar
  if isName n then some (n, s.drop n.length) else none

def skipS (s : List Char) : List Char := s.drop (s.takeWhile isS).length

/-! ## delimiters -/

def starts2 (a b : Char) : List Char → Bool
  | x :: y :: _ => x == a && y == b
  | _ => false

/-- the two-byte sequence `a b` occurs -/
def has2 (a b : Char) : List Char → Bool
  | [] => false
  | c :: r => starts2 a b (c :: r) || has2 a b r

/-- split at the first occurrence of `a b`: what precedes it and what follows it -/
def split2 (a b : Char) : List Char → Option (List Char × List Char)
  | [] => none
  | c :: r =>
    if starts2 a b (c :: r) then some ([], r.drop 1)
    else (split2 a b r).map (fun p => (c :: p.1, p.2))

/-- split at the first `]]>` -/
def splitCdEnd : List Char → Option (List Char × List Char)
  | [] => none
  | c :: r =>
    if startsCdEnd (c :: r) then some ([], r.drop 2)
    else (splitCdEnd r).map (fun p => (c :: p.1, p.2))

def cdataOpen : List Char := ['<', '!', '[', 'C', 'D', 'A', 'T', 'A', '[']
def cdataClose : List Char := [']', ']', '>']
def doctypeOpen : List Char := ['<', '!', 'D', 'O', 'C', 'T', 'Y', 'P', 'E']
def commentOpen : List Char := ['<', '!', '-', '-']
def commentClose : List Char := ['-', '-', '>']

/-- `s` without the prefix `p` -/
def stripPrefix (p s : List Char) : Option (List Char) :=
  if p.isPrefixOf s then some (s.drop p.length) else none

/-- a byte allowed by production [2] `Char` (bytes ≥ 0x80 are parts of UTF-8 sequences) -/
def legalByte (c : Char) : Bool := isS c || 32 ≤ c.toNat

/-! ## DOCTYPE declaration [28]: a small automaton

`top`: between `<!DOCTYPE` and `[` or `>`; `sub`: inside the internal subset; `…Q q`: inside a literal quoted
with `q`; `lt`, `ltB`, `ltBD`: after `<`, `<!`, `<!-` in the subset; `com d`: inside a comment, `d` dashes read;
`pi q`: inside a PI, `q` = the last byte was `?`; `after`: behind the `]` of the subset. -/
inductive DtSt
  | top | topQ (q : Char) | sub | subQ (q : Char) | lt | ltB | ltBD | com (d : Nat) | pi (q : Bool) | after
  deriving DecidableEq, Repr

def dtSub (c : Char) : Option (Option DtSt) :=
  if c == ']' then some (some .after)
  else if c == '"' || c == '\'' then some (some (.subQ c))
  else if c == '<' then some (some .lt)
  else some (some .sub)

/-- one byte: `none` = not a DOCTYPE declaration, `some none` = the closing `>` was read -/
def dtStep : DtSt → Char → Option (Option DtSt)
  | .top, c =>
    if c == '>' then some none
    else if c == '"' || c == '\'' then some (some (.topQ c))
    else if c == '[' then some (some .sub)
    else if c == '<' then none
    else some (some .top)
  | .topQ q, c => if c == q then some (some .top) else some (some (.topQ q))
  | .sub, c => dtSub c
  | .subQ q, c => if c == q then some (some .sub) else some (some (.subQ q))
  | .lt, c => if c == '!' then some (some .ltB) else if c == '?' then some (some (.pi false)) else dtSub c
  | .ltB, c => if c == '-' then some (some .ltBD) else dtSub c
  | .ltBD, c => if c == '-' then some (some (.com 0)) else dtSub c
  | .com d, c =>
    if c == '-' then some (some (.com (d + 1)))
    else if c == '>' && 2 ≤ d then some (some .sub)
    else some (some (.com 0))
  | .pi q, c =>
    if c == '?' then some (some (.pi true))
    else if c == '>' && q then some (some .sub)
    else some (some (.pi false))
  | .after, c => if c == '>' then some none else if isS c then some (some .after) else none

/-- the bytes behind the `>` that closes the declaration -/
def dtScan : DtSt → List Char → Option (List Char)
  | _, [] => none
  | st, c :: r =>
    match dtStep st c with
    | none => none
    | some none => some r
    | some (some st') => dtScan st' r

/-! ## attribute values [10], attributes [41] -/

/-- content of an attribute value literal: no `<`, every `&` starts a reference to a legal character or an entity -/
def attBodyOk (body : List Char) : Bool := !body.contains '<' && (normAttr body).all legalD

/-- `AttValue` at the start of `s`: the literal with its quotes, and what follows -/
def takeAttValue (s : List Char) : Option (List Char × List Char) :=
  match s with
  | q :: r =>
    if q == '"' || q == '\'' then
      let body := r.takeWhile (· != q)
      match r.drop body.length with
      | _ :: rest => if attBodyOk body then some (q :: (body ++ [q]), rest) else none
      | [] => none
    else none
  | [] => none

/-- inside a start tag: `S? '>'`, `S? '/>'` or `S Name Eq AttValue`; second component: still inside the tag -/
def tagStep (s : List Char) : Option (XTok × Bool × List Char) :=
  let ws := s.takeWhile isS
  match s.drop ws.length with
  | [] => none
  | c :: r =>
    if c == '>' then some (.startTagClose, false, r)
    else if c == '/' then
      match r with
      | d :: r' => if d == '>' then some (.startTagCloseVoid, false, r') else none
      | [] => none
    else if ws.isEmpty then none
    else
      match takeName (c :: r) with
      | some (n, r1) =>
        match skipS r1 with
        | e :: r2 =>
          if e == '=' then
            match takeAttValue (skipS r2) with
            | some (v, r3) => some (.attr n v, true, r3)
            | none => none
          else none
        | [] => none
      | none => none

/-! ## content: markup and character data -/

/-- data of a processing instruction: empty, or white space followed by anything without `?>` -/
def piDataOk (d : List Char) : Bool :=
  (match d with | [] => true | c :: _ => isS c) && !has2 '?' '>' d

/-- body of a comment [15]: no `--`, no `-` at the end -/
def commentBodyOk (b : List Char) : Bool := !has2 '-' '-' b && b.getLast? != some '-'

/-- the bytes behind `<` -/
def markupStep (r : List Char) : Option (List XTok × Bool × List Char) :=
  match r with
  | [] => none
  | c :: r1 =>
    if c == '!' then
      match stripPrefix ['-', '-'] r1 with
      | some r2 =>
        match split2 '-' '-' r2 with
        | some (body, g :: rest) =>
          if g == '>' then some ([.comment (commentOpen ++ body ++ commentClose)], false, rest) else none
        | _ => none
      | none =>
        match stripPrefix ['[', 'C', 'D', 'A', 'T', 'A', '['] r1 with
        | some r2 =>
          match splitCdEnd r2 with
          | some (t, rest) =>
            if t.all legalByte then some ([.cdata (cdataOpen ++ t ++ cdataClose) t], false, rest) else none
          | none => none
        | none =>
          match stripPrefix ['D', 'O', 'C', 'T', 'Y', 'P', 'E'] r1 with
          | some r2 =>
            match dtScan .top r2 with
            | some rest => some ([.doctype (doctypeOpen ++ r2.take (r2.length - rest.length))], false, rest)
            | none => none
          | none => none
    else if c == '?' then
      match takeName r1 with
      | some (n, r2) =>
        match split2 '?' '>' r2 with
        | some (d, rest) =>
          if piDataOk d then
            some (.startTagPI n :: (if d.isEmpty then [] else [.attrBare d d]) ++ [.startTagClosePI], false, rest)
          else none
        | none => none
      | none => none
    else if c == '/' then
      match takeName r1 with
      | some (n, r2) =>
        let ws := r2.takeWhile isS
        match r2.drop ws.length with
        | g :: rest => if g == '>' then some ([.endTag ('<' :: '/' :: (n ++ ws ++ ['>'])) n], false, rest) else none
        | [] => none
      | none => none
    else
      match takeName (c :: r1) with
      | some (n, r2) => some ([.startTag n], true, r2)
      | none => none

/-- one step in content: markup, or a maximal run of character data [14] -/
def contentStep (s : List Char) : Option (List XTok × Bool × List Char) :=
  match s with
  | [] => none
  | c :: r =>
    if c == '<' then markupStep r
    else
      let run := (c :: r).takeWhile (· != '<')
      if wfChars run then some ([.text run], false, (c :: r).drop run.length) else none

/-- the tokeniser; `tg` = inside a start tag; every step consumes at least one byte (fuel = length + 1) -/
def lexGo : Nat → Bool → List Char → Option (List XTok)
  | 0, _, _ => none
  | _ + 1, false, [] => some []
  | _ + 1, true, [] => none
  | f + 1, false, c :: r =>
    match contentStep (c :: r) with
    | some (toks, tg, rest) => (lexGo f tg rest).map (fun k => toks ++ k)
    | none => none
  | f + 1, true, c :: r =>
    match tagStep (c :: r) with
    | some (tok, tg, rest) => (lexGo f tg rest).map (fun k => tok :: k)
    | none => none

/-- **the independent tokeniser**: the tokens of an XML byte string in reader's view, `none` when the bytes are
not well-formed at the token level -/
def xmlTokens (s : List Char) : Option (List XTok) := lexGo (s.length + 1) false s

/-! ## serialisation and reader's view of a token stream -/

/-- the bytes a token stands for -/
def tokBytes : XTok → List Char
  | .startTag n => '<' :: n
  | .startTagPI n => '<' :: '?' :: n
  | .attr n v => ' ' :: (n ++ '=' :: v)
  | .attrBare d _ => d
  | .startTagClose => ['>']
  | .startTagCloseVoid => ['/', '>']
  | .startTagClosePI => ['?', '>']
  | .endTag d _ => d
  | .text d => d
  | .cdata d _ => d
  | .comment d => d
  | .doctype d => d

def bytesOf (ts : List XTok) : List Char := ts.flatMap tokBytes

def flushText (acc : List Char) (k : List XTok) : List XTok := if acc.isEmpty then k else .text acc :: k

def flushPi (d : List Char) (k : List XTok) : List XTok := if d.isEmpty then k else .attrBare d d :: k

/-- state of `viewGo`: collecting a run of character data / collecting the data of a PI -/
inductive VSt
  | txt (acc : List Char)
  | pi (d : List Char)
  deriving Repr

/-- adjacent `text` tokens are one run of character data; the items between `<?target` and `?>` are one raw datum -/
def viewGo : VSt → List XTok → List XTok
  | .txt acc, [] => flushText acc []
  | .pi d, [] => flushPi d []
  | .txt acc, .text d :: r => viewGo (.txt (acc ++ d)) r
  | .txt acc, .startTagPI n :: r => flushText acc (.startTagPI n :: viewGo (.pi []) r)
  | .txt acc, t :: r => flushText acc (t :: viewGo (.txt []) r)
  | .pi d, .startTagClosePI :: r => flushPi d (.startTagClosePI :: viewGo (.txt []) r)
  | .pi d, t :: r => viewGo (.pi (d ++ tokBytes t)) r

/-- the reader's view of a token stream -/
def view (ts : List XTok) : List XTok := viewGo (.txt []) ts

/-! ## the grammar of token streams -/

def cdataOk (d t : List Char) : Bool :=
  d == cdataOpen ++ t ++ cdataClose && !hasCdEnd t && t.all legalByte

def endTagOk (d n : List Char) : Bool :=
  isName n && (match stripPrefix ('<' :: '/' :: n) d with
    | some w => w.getLast? == some '>' && w.dropLast.all isS
    | none => false)

def commentOk (d : List Char) : Bool :=
  match stripPrefix commentOpen d with
  | some b => b.length ≥ 3 && b.drop (b.length - 3) == commentClose && commentBodyOk (b.take (b.length - 3))
  | none => false

def doctypeOk (d : List Char) : Bool :=
  match stripPrefix doctypeOpen d with
  | some b => dtScan .top b == some []
  | none => false

def nextIsText : List XTok → Bool
  | .text _ :: _ => true
  | _ => false

/-- **grammar of token streams in reader's view** (`tg` = inside a start tag): exactly the streams the tokeniser
produces — character data runs are maximal and well-formed, a PI is target / raw data / `?>`, attributes only
inside start tags, every start tag is closed by `>` or `/>`. -/
def canonOk : Bool → List XTok → Bool
  | tg, [] => !tg
  | false, .text d :: r => !d.isEmpty && wfChars d && !nextIsText r && canonOk false r
  | false, .comment d :: r => commentOk d && canonOk false r
  | false, .cdata d t :: r => cdataOk d t && canonOk false r
  | false, .doctype d :: r => doctypeOk d && canonOk false r
  | false, .endTag d n :: r => endTagOk d n && canonOk false r
  | false, .startTag n :: r => isName n && canonOk true r
  | false, .startTagPI n :: .attrBare d d' :: .startTagClosePI :: r =>
    isName n && d == d' && !d.isEmpty && piDataOk d && canonOk false r
  | false, .startTagPI n :: .startTagClosePI :: r => isName n && canonOk false r
  | true, .attr n v :: r => isName n && wfAttr v && canonOk true r
  | true, .startTagClose :: r => canonOk false r
  | true, .startTagCloseVoid :: r => canonOk false r
  | _, _ :: _ => false

/-- position in a token stream as the dependency lexer delivers it -/
inductive LexMode
  | content | tag | pi
  deriving DecidableEq, Repr

/-- **contract of the dependency lexer** (decidable, evaluated by the harness on the real lexer's tokens): shape of
the stream (attributes only inside a start tag or a PI, value-less items only inside a PI, every start tag closed),
names are `Name`s, end tag / CDATA / comment / DOCTYPE tokens carry their own delimiters and end at their first
closing delimiter, a PI item starts with white space and contains no `?>`. -/
def lexOk : LexMode → List XTok → Bool
  | m, [] => m == .content
  | .content, .text d :: r => !d.isEmpty && lexOk .content r
  | .content, .comment _ :: r => lexOk .content r
  | .content, .cdata d t :: r => cdataOk d t && lexOk .content r
  | .content, .doctype d :: r => doctypeOk d && lexOk .content r
  | .content, .endTag d n :: r => endTagOk d n && lexOk .content r
  | .content, .startTag n :: r => isName n && lexOk .tag r
  | .content, .startTagPI n :: r => isName n && lexOk .pi r
  | .tag, .attr n _ :: r => isName n && lexOk .tag r
  | .tag, .startTagClose :: r => lexOk .content r
  | .tag, .startTagCloseVoid :: r => lexOk .content r
  | .pi, .attr n v :: r => isName n && !has2 '?' '>' v && lexOk .pi r
  | .pi, .attrBare d _ :: r => piDataOk d && !d.isEmpty && lexOk .pi r
  | .pi, .startTagClosePI :: r => lexOk .content r
  | _, _ :: _ => false

/-! ## comparison of two documents on the token level (harness oracle) -/

/-- the tokens without the data items of processing instructions (`<?target` and `?>` stay) -/
def dropPi : Bool → List XTok → List XTok
  | _, [] => []
  | _, .startTagPI n :: r => .startTagPI n :: dropPi true r
  | _, .startTagClosePI :: r => .startTagClosePI :: dropPi false r
  | true, _ :: r => dropPi true r
  | false, t :: r => t :: dropPi false r

/-- the markup skeleton of a stream: everything but the `text` tokens and the data items of PIs -/
def skeleton (ts : List XTok) : List XTok :=
  (dropPi false ts).filter (fun t => match t with | .text _ => false | _ => true)

/-- PI data compared up to white space, quote characters and references -/
def piNorm (d : List Char) : List DCh :=
  (decodeText d).filter (fun x => !(isWsD x || x == .c 34 || x == .c 39))

/-- processing instructions of a stream in reader's view: target and normalised data -/
def piList : List XTok → List (List Char × List DCh)
  | .startTagPI n :: .attrBare d _ :: r => (n, piNorm d) :: piList r
  | .startTagPI n :: r => (n, []) :: piList r
  | _ :: r => piList r
  | [] => []

/-- failing clauses when the document `o` is compared with the document `i` (both byte strings): `lex` (the
input is accepted by the tokeniser, the output is not), the clauses of `Spec.Xml.holds` on the tokens outside
PI data (`wf`, `struct`, `attr`, `pi`, `doctype`, `chars`), `pidata` (targets and data of the PIs).  Empty when `i` is not
accepted (the minifiers are no validators). -/
def compareDocs (keep : Bool) (i o : List Char) : List String :=
  match xmlTokens i with
  | none => []
  | some ti =>
    match xmlTokens o with
    | none => ["lex"]
    | some to =>
      holds keep (dropPi false ti) (dropPi false to) ++
        (if piList ti == piList to then [] else ["pidata"])

end Verif.Spec.C09XmlLex

import Verif.Base.Bytes
/-!
# CliSafe — "the user's only copy is never lost" as a predicate on directory contents

Specification side of C20; independent of the model of `minify()`.
A *view* of a directory maps a path to the bytes of the regular file at that path (`none`: no file).

`SafeInv orig cur final inputs dsts`:
for every input file `p`
* its original path still holds the complete original bytes, or
* the sibling backup `p.bak` holds them, or
* `p` is a destination and already holds the complete new output `final p`;

and an input that is not a destination (a file that is only read) is unchanged.

`safeInvB` is the executable form over association lists (used by the driver op `spec.c20.safeinv` on
the directory the *real* command left behind after a kill).
-/
namespace Verif.Spec.CliSafe
open Verif

abbrev View := Bytes → Option Bytes

/-- `p + ".bak"` -/
def bakName (p : Bytes) : Bytes := p ++ [46, 98, 97, 107]

def SafeAt (orig cur final : View) (isDst : Prop) (p : Bytes) : Prop :=
  cur p = orig p ∨ cur (bakName p) = orig p ∨ (isDst ∧ cur p = final p)

def SafeInv (orig cur final : View) (inputs dsts : List Bytes) : Prop :=
  ∀ p ∈ inputs, SafeAt orig cur final (p ∈ dsts) p ∧ (p ∉ dsts → cur p = orig p)

/-- the view of an association list (first binding wins) -/
def viewOf (l : List (Bytes × Bytes)) : View := fun p => l.lookup p

def safeAtB (orig cur final : List (Bytes × Bytes)) (dsts : List Bytes) (p : Bytes) : Bool :=
  cur.lookup p == orig.lookup p ||
  (cur.lookup (bakName p) == orig.lookup p ||
   (dsts.contains p && cur.lookup p == final.lookup p))

def safeInvB (orig cur final : List (Bytes × Bytes)) (inputs dsts : List Bytes) : Bool :=
  inputs.all (fun p => safeAtB orig cur final dsts p && (dsts.contains p || cur.lookup p == orig.lookup p))

/-- the executable form decides the predicate -/
theorem safeInvB_iff (orig cur final : List (Bytes × Bytes)) (inputs dsts : List Bytes) :
    safeInvB orig cur final inputs dsts = true ↔
      SafeInv (viewOf orig) (viewOf cur) (viewOf final) inputs dsts := by
  simp only [safeInvB, List.all_eq_true, SafeInv, SafeAt, viewOf, safeAtB, Bool.and_eq_true,
    Bool.or_eq_true, beq_iff_eq, List.contains_iff_mem]
  constructor
  · intro h p hp
    obtain ⟨h1, h2⟩ := h p hp
    refine ⟨h1, fun hn => ?_⟩
    cases h2 with
    | inl h => exact absurd h hn
    | inr h => exact h
  · intro h p hp
    obtain ⟨h1, h2⟩ := h p hp
    refine ⟨h1, ?_⟩
    by_cases hd : p ∈ dsts
    · exact Or.inl hd
    · exact Or.inr (h2 hd)

end Verif.Spec.CliSafe

/-!
# C01D — a JavaScript fragment WITH declarations: syntax, early errors, big-step semantics

Sub-check of C01 (declaration handling of the JS minifier).  Independent of the model of the implementation.

Fragment: expressions over numbers, variables, assignment to a variable, `x++`, calls, `+ - < === && ||`, `!`,
`typeof`, `?:`, comma, parentheses; statements: expression statement, `var` / `let` / `const` declarations (simple
names), `if`, block, `for(init;cond;post)` (also the form of `while`), `return`, `throw`, `try/catch`, function
declarations at the top level of a function body or of the program.

Scoping: `var` and function declarations are function-scoped and hoisted (initialised `undefined` / to the closure
when the function is entered); `let`/`const` are block-scoped with a temporal dead zone (a read or write before the
initialisation throws `ReferenceError`, also through `typeof`); a write to a `const` throws `TypeError`; the catch
parameter lives in its own scope; an assignment to a name that is declared nowhere creates a global (sloppy mode), a read
of it throws `ReferenceError` (`typeof` gives `"undefined"`).  Early errors (`earlyL`): a `let`/`const` name clashing with
another lexical name of the same block, with a `var` declared inside that block (at any depth), with a parameter, a
function of the body, the catch parameter, or a `let` of the loop head clashing with a `var` of the loop body.

Two node forms exist only for the model of the implementation (the parser never produces them; `srcOk`):
`DeclKind.hoisted` / `DE.hdecl` = a `var` declaration that `hoistVars` turned into an expression (`TokenType ==
ErrorToken` in the Go code): it declares nothing and runs its initialisers as assignments.

`Ann` fields are results of the dependency's scope analysis attached to identifier occurrences (input of the model);
the semantics ignores them.

Calls of closures are a parameter `K` of `eval`/`exec` (how a function value is applied); `callN` is the real one
(bounded depth).  A loop runs at most `loopFuel` iterations, then the outcome is `stuck`.
-/
namespace Verif.Spec.JsDeclSem

/-- scope-analysis annotation of an identifier occurrence (ignored by the semantics): identity of the parser's `Var`
    object, identity of the object it is linked to, and its `DeclType` (1 = `VariableDecl`, 2 = function,
    3 = argument, 4 = lexical, 5 = catch, 0 = none) -/
structure Ann where
  rid : Nat := 0
  root : Nat := 0
  decl : Nat := 0
deriving DecidableEq, Repr, Inhabited

inductive BinOp where
  | add | sub | lt | seq | land | lor
deriving DecidableEq, Repr, Inhabited

inductive DE where
  | num (n : Nat)
  | undef
  | var (x : String) (a : Ann)
  | assign (x : String) (a : Ann) (e : DE)
  | postinc (x : String) (a : Ann)
  | call (f : DE) (args : List DE)
  | bin (op : BinOp) (a b : DE)
  | not (e : DE)
  | typeof (e : DE)
  | cond (c a b : DE)
  | comma (l : List DE)
  | group (e : DE)
  | hdecl (items : List DE)
deriving Repr, Inhabited

inductive DeclKind where
  | var | let_ | const_ | hoisted
deriving DecidableEq, Repr, Inhabited

/-- statements.  Declaration items are `DE.var x` (no initialiser) or `DE.assign x e`.  `forS w init c p body`:
    `init` is `empty`, an expression statement or a declaration; `w` = the loop was written `while`.
    `absent` = no else branch. -/
inductive DS where
  | expr (e : DE)
  | decl (k : DeclKind) (items : List DE)
  | ifS (c : DE) (t e : DS)
  | block (l : List DS)
  | forS (w : Bool) (init : DS) (c p : Option DE) (body : List DS)
  | ret (e : Option DE)
  | throw (e : DE)
  | tryS (b : List DS) (x : String) (a : Ann) (cb : List DS)
  | fn (name : String) (a : Ann) (params : List (String × Ann)) (body : List DS)
  | empty
  | absent
deriving Repr, Inhabited

/-! ## static functions -/

/-- names of declaration items -/
def itemName : DE → Option String
  | .var x _ => some x
  | .assign x _ _ => some x
  | _ => none

def itemNames (l : List DE) : List String := l.filterMap itemName

/-- `var` names of the head of a `for` -/
def forInitNames : DS → List String
  | .decl .var items => itemNames items
  | _ => []

mutual
/-- names declared with `var` inside a statement (through blocks, loops, try; not into functions) -/
def varNamesS : DS → List String
  | .decl .var items => itemNames items
  | .decl _ _ => []
  | .ifS _ t e => varNamesS t ++ varNamesS e
  | .block l => varNamesL l
  | .forS _ i _ _ b => forInitNames i ++ varNamesL b
  | .tryS b _ _ cb => varNamesL b ++ varNamesL cb
  | _ => []
def varNamesL : List DS → List String
  | [] => []
  | s :: t => varNamesS s ++ varNamesL t
end

/-- `let`/`const` names declared directly in a statement list, with the `const` flag -/
def lexDeclsL : List DS → List (String × Bool)
  | [] => []
  | .decl .let_ items :: t => (itemNames items).map (fun x => (x, false)) ++ lexDeclsL t
  | .decl .const_ items :: t => (itemNames items).map (fun x => (x, true)) ++ lexDeclsL t
  | _ :: t => lexDeclsL t

def lexNamesL (l : List DS) : List String := (lexDeclsL l).map (·.1)

/-- lexical names of a loop head -/
def lexDeclsS : DS → List (String × Bool)
  | .decl .let_ items => (itemNames items).map (fun x => (x, false))
  | .decl .const_ items => (itemNames items).map (fun x => (x, true))
  | _ => []

/-- function declarations directly in a statement list -/
def fnDeclsL : List DS → List (String × List String × List DS)
  | [] => []
  | .fn name _ ps body :: t => (name, ps.map (·.1), body) :: fnDeclsL t
  | _ :: t => fnDeclsL t

def hasDup : List String → Bool
  | [] => false
  | x :: t => t.contains x || hasDup t

def meets (a b : List String) : Bool := a.any (fun x => b.contains x)

def constNoInit : DS → Bool
  | .decl .const_ items => items.any (fun i => match i with | .assign _ _ _ => false | _ => true)
  | _ => false

def isFn : DS → Bool
  | .fn _ _ _ _ => true
  | _ => false

/-- name clashes of a block-like statement list; `outer` = names that must not be redeclared lexically -/
def scopeClash (outer : List String) (l : List DS) : Bool :=
  hasDup (lexNamesL l) || meets (lexNamesL l) (varNamesL l) || meets (lexNamesL l) outer

/-- name clashes at the top level of a function body / program -/
def bodyClash (params : List String) (l : List DS) : Bool :=
  hasDup (lexNamesL l) || meets (lexNamesL l) (varNamesL l) || meets (lexNamesL l) params
    || meets (lexNamesL l) ((fnDeclsL l).map (·.1))

mutual
/-- early errors inside a statement -/
def earlyS : DS → Bool
  | .ifS _ t e => earlyS t || earlyS e
  | .block l => scopeClash [] l || earlyItems l
  | .forS _ i _ _ b =>
      constNoInit i || hasDup ((lexDeclsS i).map (·.1)) || meets ((lexDeclsS i).map (·.1)) (varNamesL b)
        || (scopeClash [] b || earlyItems b)
  | .tryS b x _ cb => (scopeClash [] b || earlyItems b) || (scopeClash [x] cb || earlyItems cb)
  | .fn _ _ ps body => hasDup (ps.map (·.1)) || (bodyClash (ps.map (·.1)) body || earlyItems body)
  | s => constNoInit s
def earlyItems : List DS → Bool
  | [] => false
  | s :: t => earlyS s || earlyItems t
end

/-- early errors of a block-like statement list -/
def earlyScope (outer : List String) (l : List DS) : Bool := scopeClash outer l || earlyItems l

/-- early errors of a function body / program -/
def earlyBody (params : List String) (l : List DS) : Bool := bodyClash params l || earlyItems l

mutual
/-- function declarations only as items of a function body / the program (elsewhere: outside the fragment) -/
def fragS : DS → Bool
  | .ifS _ t e => !isFn t && !isFn e && fragS t && fragS e
  | .block l => !l.any isFn && fragL l
  | .forS _ _ _ _ b => !b.any isFn && fragL b
  | .tryS b _ _ cb => !b.any isFn && !cb.any isFn && fragL b && fragL cb
  | .fn _ _ _ body => fragL body
  | _ => true
def fragL : List DS → Bool
  | [] => true
  | s :: t => fragS s && fragL t
end

/-! ## values, state, outcome -/

inductive Val where
  | undef | null
  | bool (b : Bool)
  | num (n : Int)
  | nan
  | str (s : String)
  | host (name : String)
  | err (cls : String)
  | clo (params : List String) (body : List DS) (env : List Nat)
deriving Repr, Inhabited

/-- how a value appears in the trace / in an observation (a closure is just "function") -/
def Val.shw : Val → String
  | .undef => "undefined" | .null => "null"
  | .bool b => if b then "true" else "false"
  | .num n => toString n
  | .nan => "NaN"
  | .str s => "\"" ++ s ++ "\""
  | .host n => "host:" ++ n
  | .err c => "error:" ++ c
  | .clo _ _ _ => "function"

/-- observable event: a call of the host function `f` -/
structure Ev where
  f : String
  args : List String
deriving DecidableEq, Repr

structure Binding where
  val : Option Val      -- `none`: declared, not yet initialised (temporal dead zone)
  const : Bool
deriving Inhabited

abbrev Scope := String → Option Binding

structure St where
  heap : List Scope     -- scope `0` is the global object
  trace : List Ev

inductive Out (α : Type) where
  | ok (a : α) (s : St)
  | thr (v : Val) (s : St)
  | stuck (why : String)     -- out of fuel, or outside the fragment

def M (α : Type) : Type := St → Out α

def retM {α : Type} (a : α) : M α := fun s => .ok a s
def bindM {α β : Type} (m : M α) (f : α → M β) : M β := fun s =>
  match m s with
  | .ok a s' => f a s'
  | .thr v s' => .thr v s'
  | .stuck w => .stuck w
def throwV {α : Type} (v : Val) : M α := fun s => .thr v s
def stuckM {α : Type} (w : String) : M α := fun _ => .stuck w

/-- the host: result of the call as a function of the trace so far -/
structure Host where
  call : List Ev → Except Val Val

abbrev Env := List Nat

def scopeHas (h : List Scope) (id : Nat) (x : String) : Bool :=
  match h[id]? with
  | some sc => (sc x).isSome
  | none => false

/-- innermost scope of the chain that declares `x` -/
def findScope (h : List Scope) : Env → String → Option Nat
  | [], _ => none
  | id :: r, x => if scopeHas h id x then some id else findScope h r x

def getB (h : List Scope) (id : Nat) (x : String) : Option Binding :=
  match h[id]? with
  | some sc => sc x
  | none => none

def setB (h : List Scope) (id : Nat) (x : String) (b : Binding) : List Scope :=
  h.modify id (fun sc => fun y => if y == x then some b else sc y)

def getVar (env : Env) (x : String) : M Val := fun s =>
  match findScope s.heap env x with
  | none => .thr (.err "ReferenceError") s
  | some id =>
    match getB s.heap id x with
    | some ⟨some v, _⟩ => .ok v s
    | _ => .thr (.err "ReferenceError") s

/-- `PutValue` on the binding found through the scope chain; unresolvable: create a global (sloppy mode) -/
def setVar (env : Env) (x : String) (v : Val) : M Unit := fun s =>
  match findScope s.heap env x with
  | none => .ok () { s with heap := setB s.heap 0 x ⟨some v, false⟩ }
  | some id =>
    match getB s.heap id x with
    | some ⟨some _, false⟩ => .ok () { s with heap := setB s.heap id x ⟨some v, false⟩ }
    | some ⟨some _, true⟩ => .thr (.err "TypeError") s
    | _ => .thr (.err "ReferenceError") s

/-- initialisation of a `let`/`const` binding (ends its temporal dead zone) -/
def initVar (env : Env) (x : String) (v : Val) (c : Bool) : M Unit := fun s =>
  match findScope s.heap env x with
  | none => .stuck "initVar"
  | some id => .ok () { s with heap := setB s.heap id x ⟨some v, c⟩ }

/-- allocate a scope; returns its id -/
def alloc (sc : Scope) : M Nat := fun s => .ok s.heap.length { s with heap := s.heap ++ [sc] }

def hostCall (H : Host) (f : String) (args : List Val) : M Val := fun s =>
  let t := s.trace ++ [⟨f, args.map Val.shw⟩]
  match H.call t with
  | .ok v => .ok v { s with trace := t }
  | .error v => .thr v { s with trace := t }

def truthy : Val → Bool
  | .undef => false | .null => false
  | .bool b => b
  | .num n => n != 0
  | .nan => false
  | .str s => s != ""
  | _ => true

def typeofVal : Val → String
  | .undef => "undefined" | .null => "object" | .bool _ => "boolean" | .num _ => "number" | .nan => "number"
  | .str _ => "string" | .host _ => "function" | .err _ => "object" | .clo _ _ _ => "function"

def strictEq : Val → Val → Bool
  | .undef, .undef => true | .null, .null => true
  | .bool a, .bool b => a == b
  | .num a, .num b => a == b
  | .str a, .str b => a == b
  | .host a, .host b => a == b
  | _, _ => false

/-- `ToNumber` on the values of the fragment: `some none` = `NaN`, `none` = outside the fragment (functions, errors).
    Every string of the fragment comes from `typeof` or a concatenation with such a string, hence is not numeric. -/
def toNum : Val → Option (Option Int)
  | .num n => some (some n)
  | .undef => some none
  | .nan => some none
  | .null => some (some 0)
  | .bool b => some (some (if b then 1 else 0))
  | .str _ => some none
  | _ => none

def numVal : Option Int → Val
  | some n => .num n
  | none => .nan

/-- `ToString` for concatenation -/
def toStr : Val → Option String
  | .str s => some s
  | .num n => some (toString n)
  | .nan => some "NaN"
  | .undef => some "undefined"
  | .null => some "null"
  | .bool b => some (if b then "true" else "false")
  | _ => none

def isStr : Val → Bool
  | .str _ => true
  | _ => false

def hasIdentity : Val → Bool
  | .err _ => true
  | .clo _ _ _ => true
  | _ => false

/-- `+ - <` with the coercions of primitives; functions as operands are outside the fragment -/
def binVal (op : BinOp) (a b : Val) : M Val :=
  match op with
  | .seq =>
    -- engine errors and closures have an identity that the values of this semantics do not carry
    if hasIdentity a || hasIdentity b then stuckM "binVal" else retM (.bool (strictEq a b))
  | .add =>
    if isStr a || isStr b then
      match toStr a, toStr b with
      | some x, some y => retM (.str (x ++ y))
      | _, _ => stuckM "binVal"
    else
      match toNum a, toNum b with
      | some (some x), some (some y) => retM (.num (x + y))
      | some _, some _ => retM .nan
      | _, _ => stuckM "binVal"
  | .sub =>
    match toNum a, toNum b with
    | some (some x), some (some y) => retM (.num (x - y))
    | some _, some _ => retM .nan
    | _, _ => stuckM "binVal"
  | .lt =>
    match a, b with
    | .str x, .str y => retM (.bool (x < y))
    | _, _ =>
      match toNum a, toNum b with
      | some (some x), some (some y) => retM (.bool (x < y))
      | some _, some _ => retM (.bool false)
      | _, _ => stuckM "binVal"
  | _ => stuckM "binVal"

/-- scope record of a block: all lexical names uninitialised -/
def lexScope (ds : List (String × Bool)) : Scope := fun x =>
  match ds.find? (fun d => d.1 == x) with
  | some d => some ⟨none, d.2⟩
  | none => none

/-- run `m` in a fresh scope if there are lexical declarations -/
def withLex {α : Type} (ds : List (String × Bool)) (env : Env) (m : Env → M α) : M α :=
  if ds.isEmpty then m env else bindM (alloc (lexScope ds)) (fun id => m (id :: env))

inductive Compl where
  | normal
  | ret (v : Val)
deriving Repr, Inhabited

/-- the loop of a `for`: at most `n` iterations -/
def loopN (c : M Bool) (body : M Compl) (post : M Unit) : Nat → M Compl
  | 0 => stuckM "loop fuel"
  | n + 1 => bindM c (fun b =>
      if b then bindM body (fun r =>
        match r with
        | .normal => bindM post (fun _ => loopN c body post n)
        | .ret v => retM (.ret v))
      else retM .normal)

def loopFuel : Nat := 40

section
variable (H : Host) (K : Val → List Val → M Val)

mutual
def eval : DE → Env → M Val
  | .num n, _ => retM (.num n)
  | .undef, _ => retM .undef
  | .var x _, env => getVar env x
  | .assign x _ e, env => bindM (eval e env) (fun v => bindM (setVar env x v) (fun _ => retM v))
  | .postinc x _, env => bindM (getVar env x) (fun v =>
      match toNum v with
      | some (some n) => bindM (setVar env x (.num (n + 1))) (fun _ => retM (.num n))
      | some none => bindM (setVar env x .nan) (fun _ => retM .nan)
      | none => stuckM "postinc")
  | .call f args, env => bindM (eval f env) (fun fv => bindM (evalL args env) (fun vs =>
      match fv with
      | .host name => hostCall H name vs
      | .clo _ _ _ => K fv vs
      | _ => throwV (.err "TypeError")))
  | .bin op a b, env =>
      match op with
      | .land => bindM (eval a env) (fun v => if truthy v then eval b env else retM v)
      | .lor => bindM (eval a env) (fun v => if truthy v then retM v else eval b env)
      | op => bindM (eval a env) (fun x => bindM (eval b env) (fun y => binVal op x y))
  | .not e, env => bindM (eval e env) (fun v => retM (.bool (!truthy v)))
  | .typeof e, env =>
      match e with
      | .var x _ => fun s =>
          match findScope s.heap env x with
          | none => .ok (.str "undefined") s
          | some _ => bindM (getVar env x) (fun v => retM (.str (typeofVal v))) s
      | e => bindM (eval e env) (fun v => retM (.str (typeofVal v)))
  | .cond c a b, env => bindM (eval c env) (fun v => if truthy v then eval a env else eval b env)
  | .comma l, env => bindM (evalL l env) (fun vs => retM (vs.getLast?.getD .undef))
  | .group e, env => eval e env
  | .hdecl items, env => bindM (evalItems items env) (fun _ => retM .undef)
def evalL : List DE → Env → M (List Val)
  | [], _ => retM []
  | a :: t, env => bindM (eval a env) (fun v => bindM (evalL t env) (fun vs => retM (v :: vs)))
/-- the initialisers of a `var` declaration, as assignments; an item without initialiser does nothing -/
def evalItems : List DE → Env → M Unit
  | [], _ => retM ()
  | .assign x a e :: t, env => bindM (eval (.assign x a e) env) (fun _ => evalItems t env)
  | _ :: t, env => evalItems t env
end

/-- the initialisers of a `let`/`const` declaration -/
def initItems (c : Bool) : List DE → Env → M Unit
  | [], _ => retM ()
  | .assign x _ e :: t, env => bindM (eval H K e env) (fun v => bindM (initVar env x v c) (fun _ => initItems c t env))
  | .var x _ :: t, env => bindM (initVar env x .undef c) (fun _ => initItems c t env)
  | _ :: _, _ => stuckM "declaration item"

def optCond (c : Option DE) (env : Env) : M Bool :=
  match c with
  | none => retM true
  | some e => bindM (eval H K e env) (fun v => retM (truthy v))

def optPost (p : Option DE) (env : Env) : M Unit :=
  match p with
  | none => retM ()
  | some e => bindM (eval H K e env) (fun _ => retM ())

mutual
def exec : DS → Env → M Compl
  | .expr e, env => bindM (eval H K e env) (fun _ => retM .normal)
  | .decl .var items, env => bindM (evalItems H K items env) (fun _ => retM .normal)
  | .decl .hoisted items, env => bindM (evalItems H K items env) (fun _ => retM .normal)
  | .decl .let_ items, env => bindM (initItems H K false items env) (fun _ => retM .normal)
  | .decl .const_ items, env => bindM (initItems H K true items env) (fun _ => retM .normal)
  | .ifS c t e, env => bindM (eval H K c env) (fun v => if truthy v then exec t env else exec e env)
  | .block l, env => withLex (lexDeclsL l) env (fun env' => execL l env')
  | .forS _ i c p b, env =>
      withLex (lexDeclsS i) env (fun env' =>
        bindM (exec i env') (fun _ =>
          loopN (optCond H K c env') (withLex (lexDeclsL b) env' (fun env'' => execL b env'')) (optPost H K p env')
            loopFuel))
  | .ret none, _ => retM (.ret .undef)
  | .ret (some e), env => bindM (eval H K e env) (fun v => retM (.ret v))
  | .throw e, env => bindM (eval H K e env) (fun v => throwV v)
  | .tryS b x _ cb, env => fun s =>
      match withLex (lexDeclsL b) env (fun env' => execL b env') s with
      | .thr v s' =>
          bindM (alloc (fun y => if y == x then some ⟨some v, false⟩ else none)) (fun id =>
            withLex (lexDeclsL cb) (id :: env) (fun env' => execL cb env')) s'
      | r => r
  | .fn _ _ _ _, _ => retM .normal
  | .empty, _ => retM .normal
  | .absent, _ => retM .normal
def execL : List DS → Env → M Compl
  | [], _ => retM .normal
  | s :: t, env => bindM (exec s env) (fun c =>
      match c with
      | .normal => execL t env
      | .ret v => retM (.ret v))
end
end

/-- scope record of a function activation: functions of the body, then parameters (bound to the arguments), then
    `var` names (`undefined`), then top-level `let`/`const` names (uninitialised) -/
def fnScope (ps : List String) (args : List Val) (body : List DS) (self : Env) : Scope := fun x =>
  match (fnDeclsL body).reverse.find? (fun d => d.1 == x) with
  | some d => some ⟨some (.clo d.2.1 d.2.2 self), false⟩
  | none =>
    match (ps.zip (args ++ List.replicate ps.length Val.undef)).reverse.find? (fun d => d.1 == x) with
    | some d => some ⟨some d.2, false⟩
    | none =>
      if (varNamesL body).contains x then some ⟨some .undef, false⟩
      else match (lexDeclsL body).find? (fun d => d.1 == x) with
        | some d => some ⟨none, d.2⟩
        | none => none

/-- application of a closure with call depth at most `n` -/
def callN (H : Host) : Nat → Val → List Val → M Val
  | 0, _, _ => stuckM "call depth"
  | n + 1, f, args =>
    match f with
    | .clo ps body cenv => fun s =>
        let id := s.heap.length
        let s1 : St := { s with heap := s.heap ++ [fnScope ps args body (id :: cenv)] }
        match execL H (callN H n) body (id :: cenv) s1 with
        | .ok (.ret v) s2 => .ok v s2
        | .ok .normal s2 => .ok .undef s2
        | .thr v s2 => .thr v s2
        | .stuck w => .stuck w
    | _ => throwV (.err "TypeError")

/-- instantiation of the global code: `var`s and functions become properties of the global object (scope 0; an
    existing property keeps its value), `let`/`const` go to the global lexical scope (a fresh scope) -/
def globalInst (prog : List DS) (lexId : Nat) (g : Scope) : Scope := fun x =>
  match (fnDeclsL prog).reverse.find? (fun d => d.1 == x) with
  | some d => some ⟨some (.clo d.2.1 d.2.2 [lexId, 0]), false⟩
  | none =>
    match g x with
    | some b => some b
    | none => if (varNamesL prog).contains x then some ⟨some .undef, false⟩ else none

inductive Result where
  | syntaxError
  | unsupported
  | done (c : Out Compl)

/-- a whole program from the initial state `s0` (its scope 0 is the global object) -/
def runProg (H : Host) (depth : Nat) (prog : List DS) (s0 : St) : Result :=
  if !fragL prog then .unsupported else
  if earlyBody [] prog then .syntaxError else
  let lexId := s0.heap.length
  let h1 := (s0.heap.modify 0 (globalInst prog lexId)) ++ [lexScope (lexDeclsL prog)]
  .done (execL H (callN H depth) prog [lexId, 0] { s0 with heap := h1 })

/-! ## source programs -/

mutual
def srcE : DE → Bool
  | .hdecl _ => false
  | .assign _ _ e => srcE e
  | .call f a => srcE f && srcEL a
  | .bin _ a b => srcE a && srcE b
  | .not e => srcE e
  | .typeof e => srcE e
  | .cond c a b => srcE c && srcE a && srcE b
  | .comma l => srcEL l
  | .group e => srcE e
  | _ => true
def srcEL : List DE → Bool
  | [] => true
  | a :: t => srcE a && srcEL t
end

def isItem : DE → Bool
  | .var _ _ => true
  | .assign _ _ _ => true
  | _ => false

def srcOE : Option DE → Bool
  | none => true
  | some e => srcE e

mutual
/-- what a parser can produce: no `hoisted` forms, declaration items are items -/
def srcS : DS → Bool
  | .expr e => srcE e
  | .decl k items => k != .hoisted && items.all isItem && srcEL items
  | .ifS c t e => srcE c && srcS t && srcS e
  | .block l => srcL l
  | .forS _ i c p b => srcS i && srcOE c && srcOE p && srcL b
  | .ret e => srcOE e
  | .throw e => srcE e
  | .tryS b _ _ cb => srcL b && srcL cb
  | .fn _ _ _ body => srcL body
  | _ => true
def srcL : List DS → Bool
  | [] => true
  | s :: t => srcS s && srcL t
end

end Verif.Spec.JsDeclSem
